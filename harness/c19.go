package main

import (
	"fmt"
	"net/url"
	"sort"
	"strings"

	dtpb "github.com/google/fhir/go/proto/google/fhir/proto/r4/core/datatypes_go_proto"
	ppb "github.com/google/fhir/go/proto/google/fhir/proto/r4/core/resources/patient_go_proto"
	"github.com/verily-src/fhirpath-go/fhirpath"
	"github.com/verily-src/fhirpath-go/fhirpath/system"
	"github.com/verily-src/fhirpath-go/fhirpath/verifhook"
	"google.golang.org/protobuf/proto"
	"google.golang.org/protobuf/reflect/protoreflect"
)

func init() { props["C19"] = runC19 }

// ---- the url.Parse oracle ---------------------------------------------------------------------------------
type orcTable struct {
	seen map[string]bool
	ents []string
}

func (t *orcTable) ask(s string) {
	if t.seen == nil {
		t.seen = map[string]bool{}
	}
	if t.seen[s] {
		return
	}
	t.seen[s] = true
	u, err := url.Parse(s)
	r := "UErr"
	if err == nil {
		r = fmt.Sprintf("(UOk %s %s)", coqBool(u.Scheme != ""), coqBool(u.Opaque != "" || strings.TrimLeft(u.Path, "/") != ""))
	}
	t.ents = append(t.ents, fmt.Sprintf("(%s, %s)", coqBytes(s), r))
}
func (t *orcTable) coq() string { return coqList(t.ents) }

// ---- observed values -> Coq ---------------------------------------------------------------------------------
func coqLit(l *verifhook.LitInfo) string {
	switch l.Kind {
	case "frag":
		return fmt.Sprintf("(LFrag %s)", coqBytes(l.Frag))
	case "rest":
		return fmt.Sprintf("(LRest %s %s %s %s)", coqBytes(l.Base), coqBytes(l.IDType), coqBytes(l.ID), coqBytes(l.Ver))
	case "nonrest":
		return fmt.Sprintf("(LNonRest %s)", coqBytes(l.NonREST))
	}
	return "(LNonRest [255%N;255%N])" // impossible: no member set
}
func coqOLit(f func() (*verifhook.LitInfo, error), plainErr bool, orc *orcTable) (string, *verifhook.LitInfo) {
	var l *verifhook.LitInfo
	var err error
	if p, _ := protect(func() { l, err = f() }); p {
		return "OPanic", nil
	}
	if err != nil {
		code := verifhook.RefErrCode(err)
		if plainErr {
			code = 0
		}
		return fmt.Sprintf("(OErr %s)", coqN(uint64(code))), nil
	}
	if orc != nil {
		orc.ask(l.URIString)
	}
	return fmt.Sprintf("(OLit %s %s %s)", coqOpt(coqBytes(l.Type), l.HasType), coqLit(l), coqBytes(l.URIString)), l
}
func coqOIdent(f func() (*verifhook.Ident, error)) string {
	var i *verifhook.Ident
	var err error
	if p, _ := protect(func() { i, err = f() }); p {
		return "OIPanic"
	}
	if err != nil {
		return "OIErr"
	}
	return fmt.Sprintf("(OIdent (%s, %s, %s))", coqBytes(i.Type), coqBytes(i.ID), coqBytes(i.Ver))
}

// ---- a Reference described structurally (the Coq record) and built as a proto -----------------------------------
type refDesc struct {
	typ            *string
	kind           string // "none", "uri", "frag", "strong"
	u, f           string
	field, id, ver string
	ident, other   int
}

var refOneofFields = map[string]protoreflect.FieldDescriptor{}

func init() {
	md := (&dtpb.Reference{}).ProtoReflect().Descriptor()
	oo := md.Oneofs().ByName("reference")
	for i := 0; i < oo.Fields().Len(); i++ {
		fd := oo.Fields().Get(i)
		if fd.Message() != nil && fd.Message().Name() == "ReferenceId" {
			refOneofFields[string(fd.Name())] = fd
		}
	}
}

func (d refDesc) build() *dtpb.Reference {
	r := &dtpb.Reference{}
	if d.typ != nil {
		r.Type = &dtpb.Uri{Value: *d.typ}
	}
	switch d.kind {
	case "uri":
		r.Reference = &dtpb.Reference_Uri{Uri: &dtpb.String{Value: d.u}}
	case "frag":
		r.Reference = &dtpb.Reference_Fragment{Fragment: &dtpb.String{Value: d.f}}
	case "strong":
		rid := &dtpb.ReferenceId{Value: d.id}
		if d.ver != "" {
			rid.History = &dtpb.Id{Value: d.ver}
		}
		r.ProtoReflect().Set(refOneofFields[d.field], protoreflect.ValueOfMessage(rid.ProtoReflect()))
	}
	if d.ident != 0 {
		r.Identifier = &dtpb.Identifier{System: &dtpb.Uri{Value: "urn:sys"}, Value: &dtpb.String{Value: fmt.Sprintf("v%d", d.ident)}}
	}
	if d.other != 0 {
		r.Display = &dtpb.String{Value: fmt.Sprintf("display %d", d.other)}
	}
	return r
}
func (d refDesc) coq() string {
	t := "None"
	if d.typ != nil {
		t = "(Some " + coqBytes(*d.typ) + ")"
	}
	rs := "RNone"
	switch d.kind {
	case "uri":
		rs = "(RUri " + coqBytes(d.u) + ")"
	case "frag":
		rs = "(RFrag " + coqBytes(d.f) + ")"
	case "strong":
		rs = fmt.Sprintf("(RStrong %s %s %s)", coqBytes(d.field), coqBytes(d.id), coqBytes(d.ver))
	}
	return fmt.Sprintf("{| rf_type := %s; rf_ref := %s; rf_ident := %s; rf_other := %s |}", t, rs, coqN(uint64(d.ident)), coqN(uint64(d.other)))
}
func (d refDesc) String() string {
	t := "-"
	if d.typ != nil {
		t = *d.typ
	}
	return fmt.Sprintf("{type=%s %s u=%q f=%q %s/%q/%q ident=%d other=%d}", t, d.kind, d.u, d.f, d.field, d.id, d.ver, d.ident, d.other)
}
func (d refDesc) ask(orc *orcTable) {
	if d.kind == "uri" {
		orc.ask(d.u)
	}
}

var c19RefExpr *fhirpath.Expression

// fpReference evaluates Patient.managingOrganization.reference with ref in that position.
func fpReference(ref *dtpb.Reference) string {
	if c19RefExpr == nil {
		c19RefExpr = fhirpath.MustCompile("Patient.managingOrganization.reference")
	}
	p := &ppb.Patient{ManagingOrganization: ref}
	var out system.Collection
	var err error
	if pn, _ := protect(func() { out, err = verifhook.Evaluate(c19RefExpr, []proto.Message{p}) }); pn || err != nil {
		return "(Some [255%N])"
	}
	if len(out) == 0 {
		return "None"
	}
	if len(out) != 1 {
		return "(Some [255%N;255%N])"
	}
	switch v := out[0].(type) {
	case *dtpb.String:
		return "(Some " + coqBytes(v.GetValue()) + ")"
	case system.String:
		return "(Some " + coqBytes(string(v)) + ")"
	}
	return "(Some [255%N;255%N;255%N])"
}

func snakeOf(t string) string { // independent of the model: lower-case, underscore before every inner capital
	var b strings.Builder
	for i, c := range t {
		if c >= 'A' && c <= 'Z' {
			if i > 0 {
				b.WriteByte('_')
			}
			b.WriteRune(c + 32)
		} else {
			b.WriteRune(c)
		}
	}
	return b.String()
}

func runC19(cfg config) {
	sink := newSink(cfg.out, "C19", "C19.Model", "N * case * obs", "judge", 400)
	r := &rng{s: cfg.seed*0x9e3779b97f4a7c15 + 19}
	types := verifhook.ResourceTypeNames()
	scale := 1
	if cfg.tier == "thorough" {
		scale = 8
	}
	idAlphabet := "ABCXYZabcxyz0189-."
	mkID := func(n int) string {
		b := make([]byte, n)
		for i := range b {
			b[i] = idAlphabet[r.intn(len(idAlphabet))]
		}
		return string(b)
	}
	goodIDs := func() string {
		switch r.intn(6) {
		case 0:
			return mkID(1)
		case 1:
			return mkID(64)
		case 2:
			return "123"
		case 3:
			return pick(r, []string{"a-b.c", ".", "..", "-", "0"})
		default:
			return mkID(1 + r.intn(12))
		}
	}
	badIDs := []string{"", mkID(65), "a_b", "a b", "a/b", "é", "a#b", "a|b", "_history", "a\n"}
	bases := []string{"", "http://a", "https://fhir.example.org:8080/base/r4", "http://h/x_y", "http://a/", "http://a//", "http://", "https://", "https:///", "http://a//b",
		"ftp://x", "http://a b", "http:/a", "http://h/%24x", "http://h/a$b", "HTTP://a", "http://a\\b", "http://[::1]/fhir", "http://u@h/p", "http://h/p?q"}

	// ---- CField: the Reference oneof field of every registry type ----------------------------------------------
	fieldOf := map[string]string{}
	lowerNoUnderscore := map[string]string{}
	for _, t := range types {
		lowerNoUnderscore[strings.ToLower(t)] = t
	}
	var fnames []string
	for f := range refOneofFields {
		fnames = append(fnames, f)
	}
	sort.Strings(fnames)
	for _, f := range fnames {
		key := strings.ReplaceAll(strings.TrimSuffix(f, "_id"), "_", "")
		t, ok := lowerNoUnderscore[key]
		if !ok {
			continue // resource_id, domain_resource_id, metadata_resource_id: no registry type
		}
		fieldOf[t] = f
		d := refDesc{kind: "strong", field: f, id: "1"}
		back := "[255%N]"
		var id *verifhook.Ident
		var err error
		if p, _ := protect(func() { id, err = verifhook.IdentityOfRef(d.build()) }); !p && err == nil {
			back = coqBytes(id.Type)
		}
		sink.add(fmt.Sprintf("CField %s %s, OField %s", coqBytes(t), coqBytes(f), back), "field "+f+" <-> "+t, "field", "field:"+f)
	}
	sink.extra["registry_types"] = len(types)
	sink.extra["reference_oneof_fields"] = len(fnames)

	// ---- CUri -------------------------------------------------------------------------------------------------------
	seenURI := map[string]bool{}
	var queue []string
	addURI := func(u, kind string) {
		if seenURI[u] {
			return
		}
		seenURI[u] = true
		orc := &orcTable{}
		orc.ask(u)
		parse, l := coqOLit(func() (*verifhook.LitInfo, error) { return verifhook.LiteralFromURI(u) }, true, orc)
		obs := fmt.Sprintf("OUri %s %s %s %s %s %s", parse,
			coqOIdent(func() (*verifhook.Ident, error) { return verifhook.IdentityFromURL(u) }),
			coqOIdent(func() (*verifhook.Ident, error) { return verifhook.IdentityFromAbsoluteURL(u) }),
			coqOIdent(func() (*verifhook.Ident, error) { return verifhook.IdentityFromRelativeURI(u) }),
			coqOIdent(func() (*verifhook.Ident, error) { return verifhook.NewIdentityFromURL(u) }),
			coqOIdent(func() (*verifhook.Ident, error) { return verifhook.NewIdentityFromHistoryURL(u) }))
		k := "uri:" + kind
		if l != nil {
			k += ":" + l.Kind
			if l.URIString != u {
				queue = append(queue, l.URIString) // the canonical form is itself an input
			}
		} else {
			k += ":rejected"
		}
		sink.add(fmt.Sprintf("CUri %s %s, %s", coqBytes(u), orc.coq(), obs), fmt.Sprintf("uri %q", u), k, fmt.Sprintf("%s:%d", k, len(u)%7))
	}
	mutate := func(s string) string {
		alphabet := []byte("/#|_: %\n\x80a1.-?@[]Z")
		b := []byte(s)
		for k := 0; k <= r.intn(2); k++ {
			switch r.intn(3) {
			case 0:
				if len(b) > 0 {
					b[r.intn(len(b))] = alphabet[r.intn(len(alphabet))]
				}
			case 1:
				i := r.intn(len(b) + 1)
				b = append(b[:i], append([]byte{alphabet[r.intn(len(alphabet))]}, b[i:]...)...)
			case 2:
				if len(b) > 0 {
					i := r.intn(len(b))
					b = append(b[:i], b[i+1:]...)
				}
			}
		}
		return string(b)
	}
	var valid []string
	for _, t := range types {
		id, ver := goodIDs(), goodIDs()
		forms := []string{t + "/" + id, t + "/" + id + "/_history/" + ver}
		for k := 0; k < 2; k++ {
			b := bases[1+r.intn(len(bases)-1)]
			forms = append(forms, b+"/"+t+"/"+goodIDs(), b+"/"+t+"/"+goodIDs()+"/_history/"+goodIDs())
		}
		forms = append(forms, t+"/"+pick(r, badIDs), t+"/"+id+"/_history/"+pick(r, badIDs), t+"/"+id+"/_history", t+"/"+id+"/x/"+ver, t, t+"/", "/"+t+"/"+id, "x"+t+"/"+id, "a/b/"+t+"/"+id+"/_history/"+ver)
		for _, f := range forms {
			addURI(f, "typed")
		}
		valid = append(valid, forms[:6]...)
	}
	for _, u := range []string{"", "#", "#a", "#a b", "#" + mkID(64), "#" + mkID(65), "##", "#a#b", "urn:uuid:6e8bc430-9c3a-11d9-9669-0800200c9a66", "urn:oid:1.2.3.4",
		"urn:", "http://hl7.org/fhir/ValueSet/x|1.0", "http://hl7.org/fhir/StructureDefinition/x#frag", "http://example.org", "http://example.org/", "http://example.org/x",
		"http:", "http://", "http:///", "http:///Patient/1", "https:////Patient/1", "http:////", "mailto:a@b", "a:b", ":", "::", "%zz", "http://a/%zz", "http://[::1", "foo", "foo/bar", "/", "//",
		"*", "http://a\x7f/Patient/1", "Patient/1?x=1", "http://a/Patient/1?", "Patient//1", "Patient/1/", "Patient/1//", "/Patient/1", "Parameters/1", "http://a/Parameters/1", "patient/1", "PATIENT/1",
		"http://a/Patient/1/_history/2/", "http://a/b/_history/Patient/1", "Patient/_history/1", "_history/1", "Patient/1/_history/2/_history/3", "http://x/Patient/Patient/1", "Patient/Patient", "https://a.b-c:80/$x%y\\z/Patient/1",
		"http://a_b/Patient/1", "cache_object:foo/bar", "1http://a/Patient/1", "http://a/Patient/1\n", "\nhttp://a/Patient/1", "http://a\n/x/Patient/1/_history/1", "/a\n/Patient/1/_history/1", "/Patient/1/_history/1", "x/Patient/1/_history/1"} {
		addURI(u, "special")
	}
	for i := 0; i < 1500*scale; i++ {
		addURI(mutate(pick(r, valid)), "mutated")
	}
	for len(queue) > 0 {
		u := queue[0]
		queue = queue[1:]
		addURI(u, "canonical-form")
	}

	// ---- CIdent ---------------------------------------------------------------------------------------------------
	addIdent := func(t, id, ver, base string) {
		orc := &orcTable{}
		strs := "None"
		var idn *verifhook.Ident
		var err error
		protect(func() { idn, err = verifhook.NewIdentity(t, id, ver) })
		if idn == nil || err != nil {
			sink.add(fmt.Sprintf("CIdent %s %s %s %s [], OIdentO None (OErr 0) (OErr 0) (OErr 0)", coqBytes(t), coqBytes(id), coqBytes(ver), coqBytes(base)),
				fmt.Sprintf("identity %q %q %q", t, id, ver), "ident:rejected", "")
			return
		}
		strs = fmt.Sprintf("(Some (%s, %s, %s, %s))", coqBytes(idn.String), coqBytes(idn.Relative), coqOpt(coqBytes(idn.Versioned), idn.HasVersioned), coqBytes(idn.PreferVersioned))
		orc.ask(idn.String)
		parsed, _ := coqOLit(func() (*verifhook.LitInfo, error) { return verifhook.LiteralFromURI(idn.String) }, true, orc)
		var wbInfo *verifhook.LitInfo
		wb := ""
		{
			var l *verifhook.LitInfo
			var e1 error
			if p, _ := protect(func() { l, e1 = verifhook.LiteralFromURI(idn.String) }); p {
				wb = "OPanic"
			} else if e1 != nil {
				wb = "(OErr 0)"
			} else {
				_ = l
				wb, wbInfo = coqOLit(func() (*verifhook.LitInfo, error) {
					l2, e2 := verifhook.LiteralWithBase(idn.String, base)
					if e2 != nil {
						return nil, e2
					}
					return l2, nil
				}, false, orc)
				if wbInfo == nil && wb != "OPanic" {
					wb = "(OErr 7)"
				}
			}
		}
		re := wb
		if wbInfo != nil {
			re, _ = coqOLit(func() (*verifhook.LitInfo, error) { return verifhook.LiteralFromURI(wbInfo.URIString) }, true, orc)
		}
		k := "ident"
		if base != "" {
			k += ":base"
		}
		sink.add(fmt.Sprintf("CIdent %s %s %s %s %s, OIdentO %s %s %s %s", coqBytes(t), coqBytes(id), coqBytes(ver), coqBytes(base), orc.coq(), strs, parsed, wb, re),
			fmt.Sprintf("identity %q %q %q base %q", t, id, ver, base), k, fmt.Sprintf("%s:%s:%d", k, base, len(id)%5))
	}
	for _, t := range types {
		addIdent(t, goodIDs(), "", "")
		addIdent(t, goodIDs(), goodIDs(), "")
		addIdent(t, goodIDs(), pick(r, []string{"", goodIDs()}), pick(r, bases))
	}
	for _, b := range bases {
		addIdent("Patient", goodIDs(), "", b)
		addIdent("Observation", goodIDs(), goodIDs(), b)
	}
	for _, bad := range badIDs {
		addIdent("Patient", bad, "", "")
		addIdent("Patient", "1", bad, "http://a")
	}
	// a service base that contains the name of the referenced type (as a path segment, as part of one, in the host)
	for _, t := range []string{"Patient", "Group", "Person", "Observation"} {
		for _, b := range []string{"http://fhir.my.com/tenant/" + t, "http://h/" + t, "https://example.org/" + t + "Portal/fhir", "http://" + strings.ToLower(t) + ".example.org/" + t + "/" + t, "http://h/Related" + t + "s", "http://h/x" + t + "/y"} {
			addIdent(t, goodIDs(), "", b)
			addIdent(t, goodIDs(), goodIDs(), b)
		}
	}
	addIdent("Nope", "1", "", "")
	addIdent("", "1", "", "")
	addIdent("patient", "1", "", "")
	for i := 0; i < 300*scale; i++ {
		addIdent(pick(r, types), goodIDs(), pick(r, []string{"", goodIDs()}), mutate(pick(r, bases)))
	}

	// ---- CStrong --------------------------------------------------------------------------------------------------
	addStrong := func(t, id, ver string) {
		orc := &orcTable{}
		var sref *dtpb.Reference
		var err error
		pn, _ := protect(func() {
			if ver == "" {
				sref, err = verifhook.Typed(t, id)
			} else {
				sref, err = verifhook.TypedFromIdentity(t, id, ver)
			}
		})
		if pn || err != nil || sref == nil {
			sink.add(fmt.Sprintf("CStrong %s %s %s [], OStrong None (OErr 0) (OErr 0) false false None None OIErr OIErr", coqBytes(t), coqBytes(id), coqBytes(ver)),
				fmt.Sprintf("strong %q %q %q (not built: panic=%v err=%v)", t, id, ver, pn, err), "strong:notbuilt", "")
			return
		}
		built := "None"
		m := sref.ProtoReflect()
		if fd := m.WhichOneof(m.Descriptor().Oneofs().ByName("reference")); fd != nil {
			if rid, ok := m.Get(fd).Message().Interface().(*dtpb.ReferenceId); ok {
				built = fmt.Sprintf("(Some (%s, %s, %s))", coqBytes(string(fd.Name())), coqBytes(rid.GetValue()), coqBytes(rid.GetHistory().GetValue()))
			}
		}
		ws := t + "/" + id
		if ver != "" {
			ws += "/_history/" + ver
		}
		wref := &dtpb.Reference{Reference: &dtpb.Reference_Uri{Uri: &dtpb.String{Value: ws}}}
		orc.ask(ws)
		ls, _ := coqOLit(func() (*verifhook.LitInfo, error) { return verifhook.LiteralOf(sref) }, false, orc)
		lw, _ := coqOLit(func() (*verifhook.LitInfo, error) { return verifhook.LiteralOf(wref) }, false, orc)
		var x, y bool
		protect(func() { x = verifhook.RefIs(sref, wref) })
		protect(func() { y = verifhook.RefIs(wref, sref) })
		sink.add(fmt.Sprintf("CStrong %s %s %s %s, OStrong %s %s %s %s %s %s %s %s %s", coqBytes(t), coqBytes(id), coqBytes(ver), orc.coq(), built, ls, lw, coqBool(x), coqBool(y),
			fpReference(sref), fpReference(wref),
			coqOIdent(func() (*verifhook.Ident, error) { return verifhook.IdentityOfRef(sref) }),
			coqOIdent(func() (*verifhook.Ident, error) { return verifhook.IdentityOfRef(wref) })),
			fmt.Sprintf("strong vs weak %q", ws), "strong", "strong:"+t)
	}
	for _, t := range types {
		addStrong(t, goodIDs(), "")
		addStrong(t, goodIDs(), goodIDs())
	}
	for i := 0; i < 100*scale; i++ {
		addStrong(pick(r, types), goodIDs(), pick(r, []string{"", goodIDs()}))
	}

	// ---- CRef / CIs -------------------------------------------------------------------------------------------------
	var versioned [][3]refDesc
	sp := func(s string) *string { return &s }
	var pool []refDesc
	for _, t := range []string{"Patient", "MedicinalProductPackaged", "Parameters"} {
		f := fieldOf[t]
		for _, idv := range [][2]string{{"1", ""}, {"1", "2"}, {"x-y", ""}} {
			ws := t + "/" + idv[0]
			if idv[1] != "" {
				ws += "/_history/" + idv[1]
			}
			pool = append(pool,
				refDesc{kind: "strong", field: f, id: idv[0], ver: idv[1]},
				refDesc{kind: "strong", field: f, id: idv[0], ver: idv[1], typ: sp(t)},
				refDesc{kind: "strong", field: f, id: idv[0], ver: idv[1], typ: sp(t), other: 1},
				refDesc{kind: "uri", u: ws},
				refDesc{kind: "uri", u: ws, typ: sp(t)},
				refDesc{kind: "uri", u: ws, other: 2},
				refDesc{kind: "uri", u: "http://a/b/" + ws},
				refDesc{kind: "uri", u: "https://other/" + ws, ident: 1},
				refDesc{kind: "frag", f: idv[0], typ: sp(t)},
			)
		}
	}
	pool = append(pool,
		refDesc{kind: "none"}, refDesc{kind: "none", other: 1}, refDesc{kind: "none", ident: 1}, refDesc{kind: "none", ident: 1, other: 1}, refDesc{kind: "none", ident: 2},
		refDesc{kind: "none", typ: sp("Patient")}, refDesc{kind: "none", typ: sp("Nope")},
		refDesc{kind: "uri", u: ""}, refDesc{kind: "uri", u: "#"}, refDesc{kind: "uri", u: "#a"}, refDesc{kind: "uri", u: "#a b"}, refDesc{kind: "uri", u: "#a", typ: sp("Patient")},
		refDesc{kind: "uri", u: "urn:uuid:6e8bc430-9c3a-11d9-9669-0800200c9a66"}, refDesc{kind: "uri", u: "urn:uuid:6e8bc430-9c3a-11d9-9669-0800200c9a66", other: 1},
		refDesc{kind: "uri", u: "urn:uuid:6e8bc430-9c3a-11d9-9669-0800200c9a66", typ: sp("Patient")},
		refDesc{kind: "uri", u: "Patient/1", typ: sp("Observation")}, refDesc{kind: "uri", u: "Patient/1", typ: sp("Nope")}, refDesc{kind: "uri", u: "Nope/1"}, refDesc{kind: "uri", u: "Patient/a b"},
		refDesc{kind: "frag", f: ""}, refDesc{kind: "frag", f: "a"}, refDesc{kind: "frag", f: "a b"}, refDesc{kind: "frag", f: "a", typ: sp("Nope")}, refDesc{kind: "frag", f: "1", typ: sp("Observation")},
		refDesc{kind: "frag", f: "a b", typ: sp("Patient")}, refDesc{kind: "frag", f: "", typ: sp("Patient")},
		refDesc{kind: "strong", field: fieldOf["Patient"], id: "a b"}, refDesc{kind: "strong", field: fieldOf["Patient"], id: ""}, refDesc{kind: "strong", field: fieldOf["Patient"], id: "1", typ: sp("Observation")},
		refDesc{kind: "strong", field: fieldOf["Observation"], id: "1"}, refDesc{kind: "strong", field: fieldOf["Patient"], id: "1", typ: sp("Nope")},
	)
	for _, d := range pool {
		orc := &orcTable{}
		d.ask(orc)
		ref := d.build()
		l, _ := coqOLit(func() (*verifhook.LitInfo, error) { return verifhook.LiteralOf(ref) }, false, orc)
		sink.add(fmt.Sprintf("CRef %s %s, ORef %s %s %s", d.coq(), orc.coq(), l, coqOIdent(func() (*verifhook.Ident, error) { return verifhook.IdentityOfRef(ref) }), fpReference(ref)),
			"reference "+d.String(), "ref:"+d.kind, "ref:"+d.String())
	}
	// the same resource with version 1, without a version, with version 2, each as a strong and as a weak reference:
	// `Is` is an equivalence, so the versioned and the unversioned ones are all different or all the same
	{
		f := fieldOf["Patient"]
		vs := []refDesc{{kind: "strong", field: f, id: "1", ver: "1"}, {kind: "uri", u: "Patient/1/_history/1", typ: sp("Patient")}, {kind: "strong", field: f, id: "1"}, {kind: "uri", u: "Patient/1"},
			{kind: "strong", field: f, id: "1", ver: "2"}, {kind: "uri", u: "Patient/1/_history/2"}, {kind: "uri", u: "http://a/b/Patient/1/_history/2"}, {kind: "uri", u: "http://a/b/Patient/1"}}
		pool = append(pool, vs...)
		for _, a := range vs {
			for _, b := range vs {
				for _, c := range vs {
					versioned = append(versioned, [3]refDesc{a, b, c})
				}
			}
		}
	}
	nIs := 1500 * scale
	for i := 0; i < nIs+len(versioned); i++ {
		a := pick(r, pool)
		b := pick(r, pool)
		c := pick(r, pool)
		if i >= nIs {
			a, b, c = versioned[i-nIs][0], versioned[i-nIs][1], versioned[i-nIs][2]
		} else if i%3 == 0 { // bias towards related triples: neighbours in the pool name the same resource
			j := r.intn(len(pool) - 3)
			a, b, c = pool[j], pool[j+1+r.intn(2)], pool[j+r.intn(3)]
		}
		orc := &orcTable{}
		a.ask(orc)
		b.ask(orc)
		c.ask(orc)
		refs := []*dtpb.Reference{a.build(), b.build(), c.build()}
		var m []string
		trues := 0
		for _, x := range refs {
			for _, y := range refs {
				var v bool
				if p, _ := protect(func() { v = verifhook.RefIs(x, y) }); p {
					v = false
				}
				if v {
					trues++
				}
				m = append(m, coqBool(v))
			}
		}
		sink.add(fmt.Sprintf("CIs %s %s %s %s, OIs %s", a.coq(), b.coq(), c.coq(), orc.coq(), coqList(m)),
			fmt.Sprintf("Is over %v %v %v", a, b, c), fmt.Sprintf("is:%d-true", trues), fmt.Sprintf("is:%d:%d", trues, i%50))
	}

	// ---- history: every URI that went through typed and untyped references above is parsed again ----------------------
	for _, d := range pool {
		if d.kind == "uri" && d.u != "" {
			delete(seenURI, d.u)
			addURI(d.u, "revisited")
		}
	}
	for _, u := range []string{"urn:uuid:6e8bc430-9c3a-11d9-9669-0800200c9a66", "urn:oid:1.2.3", "http://example.org/fhir/ValueSet/x"} {
		for _, t := range []string{"Patient", "Group", "Observation"} { // one non-REST URI under three declared types, then bare
			tt := t
			d := refDesc{kind: "uri", u: u, typ: &tt}
			orc := &orcTable{}
			d.ask(orc)
			ref := d.build()
			l, _ := coqOLit(func() (*verifhook.LitInfo, error) { return verifhook.LiteralOf(ref) }, false, orc)
			sink.add(fmt.Sprintf("CRef %s %s, ORef %s %s %s", d.coq(), orc.coq(), l, coqOIdent(func() (*verifhook.Ident, error) { return verifhook.IdentityOfRef(ref) }), fpReference(ref)),
				"reference "+d.String(), "ref:"+d.kind, "ref-history:"+d.String())
		}
		delete(seenURI, u)
		addURI(u, "revisited")
	}

	// ---- canonicals ---------------------------------------------------------------------------------------------------
	addCanon := func(c, kind string) {
		var u, v, f, s string
		var err error
		pn, _ := protect(func() { u, v, f, s, err = verifhook.CanonicalParts(c) })
		obs := "OCanon None false"
		k := "canon:" + kind + ":rejected"
		if pn {
			obs = "OCanon None true"
			k = "canon:" + kind + ":panic"
		} else if err == nil {
			obs = fmt.Sprintf("OCanon (Some ((%s, %s, %s), %s)) false", coqBytes(u), coqBytes(v), coqBytes(f), coqBytes(s))
			k = "canon:" + kind + ":parsed"
		}
		sink.add(fmt.Sprintf("CCanon %s, %s", coqBytes(c), obs), fmt.Sprintf("canonical %q", c), k, fmt.Sprintf("%s:%d", k, len(c)%11))
	}
	canonAlphabet := "AZaz09-_.[]^`\\"
	mkCanon := func(n int) string {
		b := make([]byte, n)
		for i := range b {
			b[i] = canonAlphabet[r.intn(len(canonAlphabet))]
		}
		return string(b)
	}
	urls := []string{"http://hl7.org/fhir/ValueSet/my-valueset", "http://example.org/fhir/StructureDefinition/x", "urn:oid:1.2.3", "x", "http://a/b c", "http://ü/é", "a\nb", "\x80\xff"}
	var canonValid []string
	addCanonNew := func(u, v, f string) {
		var s string
		protect(func() { s = verifhook.CanonicalNew(u, v, f) })
		var pu, pv, pf, ps string
		var err error
		pn, _ := protect(func() { pu, pv, pf, ps, err = verifhook.CanonicalParts(s) })
		res := "None"
		if !pn && err == nil {
			res = fmt.Sprintf("(Some ((%s, %s, %s), %s))", coqBytes(pu), coqBytes(pv), coqBytes(pf), coqBytes(ps))
		}
		k := "canon-new"
		if v != "" {
			k += "+version"
		}
		if f != "" {
			k += "+fragment"
		}
		sink.add(fmt.Sprintf("CCanonNew %s %s %s, OCanonNew %s %s", coqBytes(u), coqBytes(v), coqBytes(f), coqBytes(s), res), fmt.Sprintf("canonical.New(%q,%q,%q)", u, v, f), k, fmt.Sprintf("%s:%d", k, (len(u)+len(v)+len(f))%13))
		canonValid = append(canonValid, s)
	}
	vers := []string{"", "1.0.0", "4.0.1-ballot", "2020-01", "v_1", "A", mkCanon(3), "1 0", "1|2", "é"}
	frags := []string{"", "frag", "a-b", "a.b_c", mkCanon(64), mkCanon(65), "a b", "a#b"}
	for _, u := range urls {
		for _, v := range vers {
			for _, f := range frags {
				addCanonNew(u, v, f)
			}
		}
	}
	for i := 0; i < 200*scale; i++ {
		addCanonNew(pick(r, urls)+mkCanon(r.intn(4)), pick(r, []string{"", mkCanon(1 + r.intn(6))}), pick(r, []string{"", mkCanon(1 + r.intn(64))}))
	}
	for _, c := range []string{"", "#", "|", "#frag", "|1.0", "||", "a|", "a#", "a|#", "a|1#", "a#f|1", "a|1|2", "a#f#g", "a|1#f#g", "a|1 #f", "a| 1", "a|1#" + mkCanon(70), "a#" + mkCanon(64) + "|"} {
		addCanon(c, "special")
	}
	for i := 0; i < 600*scale; i++ {
		addCanon(mutate(pick(r, canonValid)), "mutated")
	}
	sink.finish("146 registry types x {relative, versioned, absolute, redundant slashes, bad ids} + special strings + byte-mutated neighbours (closed under the formatter's output); "+
		"identities x service base URLs; strong vs weak references for every type; LiteralInfoOf / IdentityOf / `.reference` over a pool of references; Is over triples; canonical.New x parse, mutated canonicals", false)
}
