package main

import (
	"fmt"
	"regexp"
	"strings"

	dtpb "github.com/google/fhir/go/proto/google/fhir/proto/r4/core/datatypes_go_proto"
	"github.com/verily-src/fhirpath-go/fhirpath"
	"github.com/verily-src/fhirpath-go/fhirpath/evalopts"
	"github.com/verily-src/fhirpath-go/fhirpath/system"
	"github.com/verily-src/fhirpath-go/fhirpath/verifhook"
	"google.golang.org/protobuf/proto"
)

func init() { props["C13"] = runC13 }

var (
	reIntStr = regexp.MustCompile(`^[+-]?\d+$`)
	reDecStr = regexp.MustCompile(`^[+-]?\d+(\.\d+)?$`)
	reQtyStr = regexp.MustCompile(`^(?P<value>(\+|-)?\d+(\.\d+)?)\s*('(?P<unit>[^']+)'|(?P<time>[a-zA-Z]+))?$`)
)

func optCoq(ok bool, s string) string {
	if !ok {
		return "None"
	}
	return "(Some " + s + ")"
}

// c13StrInfo classifies a string with the harness's own recognisers.
func c13StrInfo(s string, units *unitTable) string {
	lower := strings.ToLower(s)
	bv, bok := false, false
	switch lower {
	case "true", "t", "yes", "y", "1", "1.0":
		bv, bok = true, true
	case "false", "f", "no", "n", "0", "0.0":
		bv, bok = false, true
	}
	iok := false
	var iv int64
	if reIntStr.MatchString(s) && len(s) <= 12 {
		iv = atoi(strings.TrimPrefix(s, "+"))
		iok = iv >= -2147483648 && iv <= 2147483647
	}
	dok := reDecStr.MatchString(s)
	dcoq := ""
	if dok {
		dcoq = "(" + strings.Replace(strings.TrimPrefix(decToCoq(strings.TrimPrefix(s, "+")), "NDec "), " ", ", ", 1) + ")"
	}
	lenient := false
	ds, dts, ts := s, s, s
	if strings.HasPrefix(s, "@T") {
		ts = strings.TrimPrefix(s, "@T")
	}
	if strings.HasPrefix(s, "@") {
		ds, dts = s[1:], s[1:]
	}
	dc, dateOK := dateComps(ds)
	dtc, dtOK := dateTimeComps(dts)
	tc, tOK := timeComps(ts)
	if strings.HasPrefix(s, "@") && (dateOK || dtOK || tOK) {
		lenient = true
	}
	// Go's "15" hour field also reads a single digit ('1', '1:30', '2020-02-29T1:30')
	if !tOK {
		if c, ok := timeComps("0" + ts); ok && regexp.MustCompile(`^\d(:|$)`).MatchString(ts) {
			tc, tOK, lenient = c, true, true
		}
	}
	if !dtOK {
		if i := strings.Index(dts, "T"); i >= 0 && regexp.MustCompile(`T\d(:|$|Z|[+-])`).MatchString(dts) {
			if c, ok := dateTimeComps(dts[:i+1] + "0" + dts[i+1:]); ok {
				dtc, dtOK, lenient = c, true, true
			}
		}
	}
	qok := false
	qcoq := ""
	if m := reQtyStr.FindStringSubmatch(s); m != nil {
		num := m[reQtyStr.SubexpIndex("value")]
		unit := m[reQtyStr.SubexpIndex("unit")]
		if unit == "" {
			unit = m[reQtyStr.SubexpIndex("time")]
		}
		if unit == "" {
			unit = "1"
		}
		qok = true
		qcoq = "(" + strings.Replace(strings.TrimPrefix(decToCoq(strings.TrimPrefix(num, "+")), "NDec "), " ", ", ", 1) + ", " + coqN(units.id(unit)) + ")"
	}
	return fmt.Sprintf("{| as_bool := %s; as_int := %s; as_dec := %s; as_date := %s; as_dt := %s; as_time := %s; as_qty := %s; lenient := %s |}",
		optCoq(bok, coqBool(bv)), optCoq(iok, coqZ(iv)), optCoq(dok, dcoq), optCoq(dateOK, zlist(dc...)), optCoq(dtOK, zlist(dtc...)), optCoq(tOK, zlist(tc...)), optCoq(qok, qcoq), coqBool(lenient))
}

var reOddFraction = regexp.MustCompile(`:\d\d\.(\d{1,2}|\d{4,})(\D|$)`)

func runC13(cfg config) {
	sink := newSink(cfg.out, "C13", "C08.Model C05.Model C13.Model", "N * case * obs", "judge", 300)
	input := []proto.Message{basePatient()}
	units := newUnitTable()
	type item struct {
		coq  string
		lit  string
		env  any
		kind string
	}
	var items []item
	// typed values: the C05 pool (every type, precision, boundary; FHIR primitives; complex elements)
	for _, v := range c05Pool(map[string]uint64{"1": 1}) {
		if strings.HasPrefix(v.coq, "VQty") || strings.HasPrefix(v.coq, "VStr") {
			continue // quantities and strings are added below with this run's unit table / classification
		}
		if strings.HasPrefix(v.kind, "FHIR.time/") || strings.HasPrefix(v.kind, "FHIR.dateTime/") || strings.HasPrefix(v.kind, "FHIR.instant/") {
			// elements of the C05 pool that this harness cannot observe faithfully: it reads results back through their
			// printed form (milliseconds at most) and knows a DateTime element only by its UTC components
			continue
		}
		if strings.HasPrefix(v.coq, "VDateTime") && v.env == nil {
			// the date part of a DateTime is taken in the value's own offset
			if m := reDTFrac.FindStringSubmatch(strings.TrimPrefix(v.lit, "@")); m != nil {
				local := []int64{atoi(m[1])}
				if m[2] != "" {
					local = append(local, atoi(m[2]))
				}
				if m[3] != "" {
					local = append(local, atoi(m[3]))
				}
				items = append(items, item{"IDateTime " + strings.TrimPrefix(v.coq, "VDateTime ") + " " + zlist(local...), v.lit, v.env, v.kind})
				continue
			}
		}
		items = append(items, item{"IVal (" + v.coq + ")", v.lit, v.env, v.kind})
	}
	for _, q := range []struct{ n, u string }{{"1", "mg"}, {"2.50", "mg"}, {"5", "days"}, {"5", "day"}, {"7", "1"}, {"120", "mm[Hg]"}, {"1.5", "kg/m2"}, {"-3", "wk"}} {
		qv, err := system.ParseQuantity(q.n, q.u)
		must(err)
		items = append(items, item{"IVal (" + strings.Replace(decToCoq(q.n), "NDec", "VQty", 1) + " " + coqN(units.id(q.u)) + ")", "", qv, "Quantity"})
	}
	items = append(items, item{"IVal (VQty 15%Z (-1)%Z " + coqN(units.id("mg")) + ")", "", &dtpb.Quantity{Value: &dtpb.Decimal{Value: "1.5"}, Code: &dtpb.Code{Value: "mg"}}, "FHIR.Quantity"})
	// elements that hold no convertible value although their type is a primitive or Quantity (valid FHIR: value is 0..1;
	// or a text the conversion cannot read): they convert to nothing, like a complex element, and never to an error
	for _, bad := range []struct {
		kind string
		env  any
	}{{"Quantity without value", &dtpb.Quantity{Code: &dtpb.Code{Value: "mg"}, Unit: fstr("mg")}}, {"Quantity with non-numeric value", &dtpb.Quantity{Value: &dtpb.Decimal{Value: "n/a"}}},
		{"SimpleQuantity without value", &dtpb.SimpleQuantity{Unit: fstr("mg")}}, {"Age without value", &dtpb.Age{Code: &dtpb.Code{Value: "a"}}}} {
		items = append(items, item{"IVal (VComplex 9%N)", "", bad.env, bad.kind})
	}
	// strings: valid and near-valid renderings of every target type
	strs := []string{"", "true", "TRUE", "t", "yes", "Y", "1", "1.0", "false", "F", "no", "n", "0", "0.0", "2", "1.00", "tru", " true",
		"+1", "-1", "01", "2147483647", "2147483648", "-2147483648", "-2147483649", " 1", "1 ", "1e3", "0x10", "1_000", "9999999999999",
		"1.5", "-0.50", "+3.14", ".5", "1.", "1.5.2", "1e999999999", "1,5",
		"2020", "2020-02", "2020-02-29", "2021-02-29", "2020-13-01", "2020-00-10", "2020-1-1", "20200101", "2020-02-30", "@2020-01-01", "2020-01-01 ",
		"2020T", "2020-02T", "2020-02-29T", "2020-02-29T10", "2020-02-29T10:30", "2020-02-29T10:30:15", "2020-02-29T10:30:15.250", "2020-02-29T10:30:15Z",
		"2020-02-29T10:30:15+05:30", "2020-02-29T10:30:15.250-11:00", "2020-02-29T24:00", "2020-02-29T10:60", "2020-02-29T10:30:15.5", "2020-02-29T10Z", "@2020-02-29T10:30",
		"2020-02-29t10:30", "2020-02-29T10:30:15+5:30", "T",
		"10", "10:30", "10:30:15", "10:30:15.250", "24:00", "23:60", "10:30:60", "1:30", "@T10:30", "T10:30", "10:30:15.5", "10:30Z",
		"5 'mg'", "5", "5 days", "5 day", "5mg", "+5 'mg'", "5.5 'kg/m2'", "5 'mg", "'mg'", "abc", "5 mg", "-2 'wk'", "5 ''", "1.0 '1'",
		"é", "😀", "yeſ", "YEſ", "falſe", "FalſE", "ſ", "tRuE", "ﬁ", "K", "1٠", "٠", "NO", "nO", "truE ", "ｔｒｕｅ"}
	for i, s := range strs {
		var env any = system.String(s)
		kind := "String"
		if i%5 == 4 {
			env, kind = &dtpb.String{Value: s}, "FHIR.string"
		}
		items = append(items, item{fmt.Sprintf("IStr %s %s", coqUStr(s), c13StrInfo(s, units)), "", env, kind})
	}
	targets := []struct{ coq, to, conv string }{
		{"TBool", "toBoolean", "convertsToBoolean"}, {"TInt", "toInteger", "convertsToInteger"}, {"TDec", "toDecimal", "convertsToDecimal"},
		{"TStr", "toString", "convertsToString"}, {"TDate", "toDate", "convertsToDate"}, {"TDateTime", "toDateTime", "convertsToDateTime"},
		{"TTime", "toTime", "convertsToTime"}, {"TQty", "toQuantity", "convertsToQuantity"},
	}
	hiddenMismatch := map[string]string{}
	run := func(src string, it item) string {
		var out system.Collection
		var err error
		var opts []fhirpath.EvaluateOption
		if it.env != nil {
			opts = append(opts, evalopts.EnvVariable("x", it.env))
		}
		panicked, _ := protect(func() {
			var e *fhirpath.Expression
			e, err = fhirpath.Compile(src)
			if err != nil {
				return
			}
			out, err = verifhook.Evaluate(e, input, opts...)
		})
		switch {
		case panicked:
			return "OPanic"
		case err != nil:
			return "OErr"
		case len(out) == 0:
			return "OEmpty"
		case len(out) == 1:
			if s, ok := svalOf(out[0], units); ok {
				// a temporal result is read back through its printed form; the value behind it must be the value that form
				// denotes: the library's own `=` against the literal of the printed form may not answer false
				lit := ""
				switch v := out[0].(type) {
				case system.Date:
					lit = "@" + v.String()
				case system.DateTime:
					lit = "@" + v.String()
				case system.Time:
					lit = "@T" + v.String()
				}
				if lit != "" && reOddFraction.MatchString(src+" "+it.lit+" "+fmt.Sprint(it.env)) {
					// a fraction of seconds written with other than three digits is kept in the value but not printed
					// (recorded under C15, known finding on sub-millisecond / short fractions): not judged again here
					lit = ""
				}
				if lit != "" {
					var eq system.Collection
					var err2 error
					p2, _ := protect(func() {
						e2, cerr := fhirpath.Compile("(" + src + ") = " + lit)
						if cerr != nil {
							err2 = cerr
							return
						}
						eq, err2 = verifhook.Evaluate(e2, input, opts...)
					})
					if !p2 && err2 == nil && len(eq) == 1 {
						if b, isB := eq[0].(system.Boolean); isB && !bool(b) {
							hiddenMismatch[src] = lit
							return "OErr"
						}
					}
				}
				return "(OVal (" + s + "))"
			}
		}
		return "OPanic"
	}
	for _, it := range items {
		ref := "%x"
		if it.env == nil {
			ref = "(" + it.lit + ")"
		}
		for _, t := range targets {
			oTo := run(ref+"."+t.to+"()", it)
			oConv := run(ref+"."+t.conv+"()", it)
			oTwice := run(ref+"."+t.to+"()."+t.to+"()", it)
			oRound := run(ref+".toString()."+t.to+"()", it)
			desc := fmt.Sprintf("%s [%s %s].%s() => %s ; %s() => %s ; twice => %s ; via toString => %s", ref, it.kind, it.lit, t.to, oTo, t.conv, oConv, oTwice, oRound)
			for _, q := range []string{ref + "." + t.to + "()", ref + "." + t.to + "()." + t.to + "()", ref + ".toString()." + t.to + "()"} {
				if lit, bad := hiddenMismatch[q]; bad {
					desc += fmt.Sprintf(" ; HIDDEN VALUE: (%s) = %s is false although the result prints as %s (reported as OErr)", q, lit, lit)
				}
			}
			if it.env != nil {
				if sv, ok := it.env.(system.String); ok {
					desc = fmt.Sprintf("'%s'.%s() => %s ; %s() => %s ; twice => %s ; via toString => %s", string(sv), t.to, oTo, t.conv, oConv, oTwice, oRound)
				}
			}
			sink.add(fmt.Sprintf("(%s, %s), (%s, %s, %s, %s)", t.coq, it.coq, oTo, oConv, oTwice, oRound), desc, t.coq+"/"+it.kind, t.coq+"|"+it.coq)
		}
	}
	sink.finish("every item of the System value pool (every type, precision, boundary), FHIR primitive and complex elements, quantities with alphabetic / default / composite units, and a grammar of valid and near-valid strings for every target type x all eight target types; for each: toT(), convertsToT(), toT().toT() and toString().toT(); strings are classified by the harness's own recognisers of the FHIRPath string forms", true)
}
