package main

import (
	"strings"
	"unicode"

	apb "github.com/google/fhir/go/proto/google/fhir/proto/annotations_go_proto"
	dtpb "github.com/google/fhir/go/proto/google/fhir/proto/r4/core/datatypes_go_proto"
	bcrpb "github.com/google/fhir/go/proto/google/fhir/proto/r4/core/resources/bundle_and_contained_resource_go_proto"
	"google.golang.org/protobuf/proto"
	"google.golang.org/protobuf/reflect/protoreflect"
	"google.golang.org/protobuf/types/known/anypb"
)

// declared type of a FHIR value, from google/fhir's descriptor annotations only
type declType struct {
	kind string // KPrim KComplex KBackbone KNestedElem KResource ; "" = not a FHIR-typed value
	name string
}

func lowerFirst(s string) string {
	if s == "" {
		return s
	}
	r := []rune(s)
	r[0] = unicode.ToLower(r[0])
	return string(r)
}

func rootOf(md protoreflect.MessageDescriptor) protoreflect.MessageDescriptor {
	for {
		p, ok := md.Parent().(protoreflect.MessageDescriptor)
		if !ok {
			return md
		}
		md = p
	}
}

func isCodeWrapper(md protoreflect.MessageDescriptor) bool {
	vf := md.Fields().ByName("value")
	// a code bound to a value set: google/fhir annotates the wrapper with the value-set url; most are named ...Code,
	// the wrapper of an element that is itself called "code" is named CodeType
	named := strings.HasSuffix(string(md.Name()), "Code") || (md.Name() == "CodeType" && valueSetURL(md) != "")
	return vf != nil && named && (vf.Kind() == protoreflect.EnumKind || vf.Kind() == protoreflect.StringKind) && string(md.FullName()) != "google.fhir.r4.core.Code"
}

func declOf(m proto.Message) declType {
	md := m.ProtoReflect().Descriptor()
	if _, ok := m.(*dtpb.Xhtml); ok {
		return declType{}
	}
	if _, ok := m.(*dtpb.ReferenceId); ok {
		return declType{} // google/fhir's typed-reference helper, not a FHIR type
	}
	if isCodeWrapper(md) {
		return declType{"KPrim", "code"}
	}
	if isChoiceType(md) {
		return declType{}
	}
	_, nested := md.Parent().(protoreflect.MessageDescriptor)
	switch sdKind(md) {
	case apb.StructureDefinitionKindValue_KIND_PRIMITIVE_TYPE:
		return declType{"KPrim", lowerFirst(string(md.Name()))}
	case apb.StructureDefinitionKindValue_KIND_RESOURCE:
		return declType{"KResource", string(md.Name())}
	case apb.StructureDefinitionKindValue_KIND_COMPLEX_TYPE:
		if !nested {
			return declType{"KComplex", string(md.Name())}
		}
	}
	if nested {
		if sdKind(rootOf(md)) == apb.StructureDefinitionKindValue_KIND_RESOURCE {
			return declType{"KBackbone", ""}
		}
		if sdKind(rootOf(md)) == apb.StructureDefinitionKindValue_KIND_COMPLEX_TYPE {
			return declType{"KNestedElem", ""}
		}
	}
	return declType{}
}

// walkMessages visits every message reachable from m (depth first, document order), looking through
// Any/ContainedResource wrappers.
func walkMessages(m proto.Message, visit func(m proto.Message, parent proto.Message, fd protoreflect.FieldDescriptor, index int)) {
	var rec func(m proto.Message)
	rec = func(m proto.Message) {
		m.ProtoReflect().Range(func(fd protoreflect.FieldDescriptor, v protoreflect.Value) bool {
			if fd.Kind() != protoreflect.MessageKind {
				return true
			}
			handle := func(sub proto.Message, idx int) {
				if a, ok := sub.(*anypb.Any); ok {
					cr := &bcrpb.ContainedResource{}
					if a.UnmarshalTo(cr) == nil {
						sub = cr
					}
				}
				visit(sub, m, fd, idx)
				rec(sub)
			}
			if fd.IsList() {
				l := v.List()
				for i := 0; i < l.Len(); i++ {
					handle(l.Get(i).Message().Interface(), i)
				}
			} else {
				handle(v.Message().Interface(), -1)
			}
			return true
		})
	}
	rec(m)
}
