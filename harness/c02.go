package main

import (
	"encoding/json"
	"errors"
	"fmt"
	bcrpb "github.com/google/fhir/go/proto/google/fhir/proto/r4/core/resources/bundle_and_contained_resource_go_proto"
	orgpb "github.com/google/fhir/go/proto/google/fhir/proto/r4/core/resources/organization_go_proto"
	ppb "github.com/google/fhir/go/proto/google/fhir/proto/r4/core/resources/patient_go_proto"
	rppb2 "github.com/google/fhir/go/proto/google/fhir/proto/r4/core/resources/related_person_go_proto"
	"math/big"
	"sort"
	"strings"

	"github.com/google/fhir/go/fhirversion"
	"github.com/google/fhir/go/jsonformat"
	apb "github.com/google/fhir/go/proto/google/fhir/proto/annotations_go_proto"
	dtpb "github.com/google/fhir/go/proto/google/fhir/proto/r4/core/datatypes_go_proto"
	lpb "github.com/google/fhir/go/proto/google/fhir/proto/r4/core/resources/list_go_proto"
	"github.com/verily-src/fhirpath-go/fhirpath"
	"github.com/verily-src/fhirpath-go/fhirpath/system"
	"github.com/verily-src/fhirpath-go/fhirpath/verifhook"
	"google.golang.org/protobuf/proto"
	"google.golang.org/protobuf/reflect/protoreflect"
	"google.golang.org/protobuf/types/known/anypb"
)

func init() { props["C02"] = runC02 }

var fhirpathKeywords = map[string]bool{"div": true, "mod": true, "and": true, "or": true, "xor": true, "implies": true, "true": true, "false": true,
	"year": true, "month": true, "week": true, "day": true, "hour": true, "minute": true, "second": true, "millisecond": true,
	"years": true, "months": true, "weeks": true, "days": true, "hours": true, "minutes": true, "seconds": true, "milliseconds": true}

type navStep struct {
	name string
	idx  int // -1: none
}
type navNode struct {
	uid       uint64
	msg       proto.Message
	steps     []navStep // from the root resource, indexes at every repeated element
	label     string    // the same with the choice type suffixes: the JSON location
	primitive bool
	synthetic bool
	count     int // number of siblings of the same name (for out-of-range indexes)
}
type navBuilder struct {
	nextUID uint64
	uidOf   map[proto.Message]uint64
	copies  []*navNode
	synth   []*navNode
	nodes   []*navNode
	tyIDs   map[string]uint64
	schema  map[uint64][]string
	names   map[string]uint64
	nameTbl []string
}

func (nb *navBuilder) nameID(s string) uint64 {
	if id, ok := nb.names[s]; ok {
		return id
	}
	id := uint64(len(nb.nameTbl))
	nb.names[s] = id
	nb.nameTbl = append(nb.nameTbl, s)
	return id
}

var dateTypes = map[string]bool{"google.fhir.r4.core.Date": true, "google.fhir.r4.core.DateTime": true, "google.fhir.r4.core.Time": true, "google.fhir.r4.core.Instant": true}

func (nb *navBuilder) tyID(md protoreflect.MessageDescriptor) uint64 {
	full := string(md.FullName())
	if id, ok := nb.tyIDs[full]; ok {
		return id
	}
	id := uint64(len(nb.tyIDs) + 1)
	nb.tyIDs[full] = id
	var names []string
	for i := 0; i < md.Fields().Len(); i++ {
		fd := md.Fields().Get(i)
		n := fd.JSONName()
		if dateTypes[full] && (n == "valueUs" || n == "precision" || n == "timezone") {
			continue
		}
		names = append(names, n)
	}
	if full == "google.fhir.r4.core.Reference" {
		names = append(names, "reference")
	}
	if dateTypes[full] {
		names = append(names, "value")
	}
	nb.schema[id] = names
	return id
}

func isPrimitiveMsg(md protoreflect.MessageDescriptor) bool {
	return sdKind(md) == apb.StructureDefinitionKindValue_KIND_PRIMITIVE_TYPE || isCodeWrapper(md)
}

func hasChoiceOneof(md protoreflect.MessageDescriptor) bool {
	return md.Oneofs().Len() == 1 && md.Oneofs().Get(0).Name() == "choice"
}

// collapse follows Any -> ContainedResource -> resource and choice wrapper -> chosen value.
func (nb *navBuilder) collapse(m protoreflect.Message, belowAny bool) (out protoreflect.Message, suffix string, nowBelowAny bool, ok bool) {
	nowBelowAny = belowAny
	for {
		full := string(m.Descriptor().FullName())
		if !nowBelowAny {
			if _, seen := nb.uidOf[m.Interface()]; !seen {
				nb.nextUID++
				nb.uidOf[m.Interface()] = nb.nextUID // a wrapper has a uid of its own and is never expected
			}
		}
		switch {
		case full == "google.protobuf.Any":
			inner, err := anypb.UnmarshalNew(m.Interface().(*anypb.Any), proto.UnmarshalOptions{})
			if err != nil {
				return nil, "", nowBelowAny, false
			}
			m = inner.ProtoReflect()
			nowBelowAny = true
		case full == "google.fhir.r4.core.ContainedResource":
			fd := m.WhichOneof(m.Descriptor().Oneofs().ByName("oneof_resource"))
			if fd == nil {
				return nil, "", nowBelowAny, false
			}
			m = m.Get(fd).Message()
		case hasChoiceOneof(m.Descriptor()):
			fd := m.WhichOneof(m.Descriptor().Oneofs().Get(0))
			if fd == nil {
				return nil, "", nowBelowAny, false
			}
			j := fd.JSONName()
			suffix += strings.ToUpper(j[:1]) + j[1:]
			m = m.Get(fd).Message()
		default:
			if !nowBelowAny {
				delete(nb.uidOf, m.Interface()) // registered again as a node by build
			}
			return m, suffix, nowBelowAny, true
		}
	}
}

func (nb *navBuilder) build(m protoreflect.Message, belowAny bool, steps []navStep, label string, count int) string {
	nb.nextUID++
	md := m.Descriptor()
	n := &navNode{uid: nb.nextUID, msg: m.Interface(), steps: append([]navStep(nil), steps...), label: label, primitive: isPrimitiveMsg(md), count: count}
	nb.nodes = append(nb.nodes, n)
	if belowAny {
		nb.copies = append(nb.copies, n)
	} else {
		nb.uidOf[m.Interface()] = n.uid
	}
	rtype := uint64(0)
	if sdKind(md) == apb.StructureDefinitionKindValue_KIND_RESOURCE {
		rtype = nb.nameID(string(md.Name()))
	}
	var kids []string
	isRef := md.FullName() == "google.fhir.r4.core.Reference"
	fds := md.Fields()
	for i := 0; i < fds.Len(); i++ {
		fd := fds.Get(i)
		if fd.Kind() != protoreflect.MessageKind || !m.Has(fd) || fd.IsMap() {
			continue
		}
		name := fd.JSONName()
		if isRef && fd.ContainingOneof() != nil && fd.ContainingOneof().Name() == "reference" {
			nb.nextUID++
			s := &navNode{uid: nb.nextUID, steps: append(append([]navStep(nil), steps...), navStep{"reference", -1}), label: label + ".reference", primitive: true, synthetic: true, count: 1}
			nb.nodes = append(nb.nodes, s)
			nb.synth = append(nb.synth, s)
			kids = append(kids, fmt.Sprintf("(%s, CNode %s %s 0 [])", coqN(nb.nameID("reference")), coqN(s.uid), coqN(nb.tyID((&dtpb.String{}).ProtoReflect().Descriptor()))))
			continue
		}
		var vals []protoreflect.Message
		if fd.IsList() {
			l := m.Get(fd).List()
			for k := 0; k < l.Len(); k++ {
				vals = append(vals, l.Get(k).Message())
			}
		} else {
			vals = append(vals, m.Get(fd).Message())
		}
		for k, c := range vals {
			inner, suffix, below, ok := nb.collapse(c, belowAny)
			if !ok {
				continue
			}
			st := navStep{name, -1}
			lab := label + "." + name
			if fd.IsList() {
				st.idx = k
				lab += fmt.Sprintf("[%d]", k)
			}
			lab += suffix
			kids = append(kids, fmt.Sprintf("(%s, %s)", coqN(nb.nameID(name)), nb.build(inner, below, append(steps, st), lab, len(vals))))
		}
	}
	return fmt.Sprintf("CNode %s %s %s %s", coqN(n.uid), coqN(nb.tyID(md)), coqN(rtype), coqList(kids))
}

func renderName(n string) string {
	if fhirpathKeywords[n] {
		return "`" + n + "`"
	}
	return n
}
func renderPath(root string, steps []navStep, keepIdx func(i int) bool) (string, string) {
	var sb strings.Builder
	var cs []string
	if root != "" {
		sb.WriteString(root)
	}
	for i, s := range steps {
		if sb.Len() > 0 {
			sb.WriteString(".")
		}
		sb.WriteString(renderName(s.name))
		if s.idx >= 0 && keepIdx(i) {
			fmt.Fprintf(&sb, "[%d]", s.idx)
		}
	}
	_ = cs
	return sb.String(), ""
}

// jsonScalarEqual compares the `.value` of a primitive as FHIRPath returns it with the JSON value.
func jsonScalarEqual(v any, j any) bool {
	switch x := v.(type) {
	case system.String:
		s, ok := j.(string)
		return ok && s == string(x)
	case system.Boolean:
		b, ok := j.(bool)
		return ok && b == bool(x)
	case system.Integer:
		switch n := j.(type) {
		case json.Number:
			return n.String() == fmt.Sprint(int32(x))
		case string: // positiveInt etc. are numbers; but some renderers quote
			return n == fmt.Sprint(int32(x))
		}
		return false
	case system.Decimal:
		n, ok := j.(json.Number)
		if !ok {
			return false
		}
		a, ok1 := new(big.Rat).SetString(n.String())
		b, ok2 := new(big.Rat).SetString(x.String())
		return ok1 && ok2 && a.Cmp(b) == 0
	}
	return false
}

func runC02(cfg config) {
	sink := newSink(cfg.out, "C02", "C19.Model C02.Model", "N * ccase * obs", "judge", 8)
	r := &rng{s: cfg.seed*0x9e3779b97f4a7c15 + 2}
	g := &genState{r: &rng{s: cfg.seed + 200}}
	scale := 1
	if cfg.tier == "thorough" {
		scale = 5
	}
	mar, err := jsonformat.NewMarshaller(false, "", "", fhirversion.R4)
	must(err)
	types := verifhook.ResourceTypeNames()
	exprCache := map[string]*fhirpath.Expression{}
	compile := func(src string) (*fhirpath.Expression, error) {
		if e, ok := exprCache[src]; ok {
			return e, nil
		}
		e, err := fhirpath.Compile(src)
		if err == nil {
			exprCache[src] = e
		}
		return e, err
	}
	totalQueries, totalNodes, valueChecks := 0, 0, 0
	var valueBad, otherErrs []string
	kinds := map[string]int{}

	var special proto.Message
	doResource := func(name string, depth int) {
		res := g.resource(name, depth)
		if special != nil {
			res = special
		}
		nb := &navBuilder{uidOf: map[proto.Message]uint64{}, tyIDs: map[string]uint64{}, schema: map[uint64][]string{}, names: map[string]uint64{"": 0}, nameTbl: []string{""}}
		tree := nb.build(res.ProtoReflect(), false, nil, name, 1)
		if len(nb.nodes) > 400 {
			return
		}
		totalNodes += len(nb.nodes)
		// the FHIR JSON of the resource (of a clone: the marshaller rewrites references in place)
		var jroot map[string]any
		if data, err := mar.MarshalResource(proto.Clone(res)); err == nil {
			dec := json.NewDecoder(strings.NewReader(string(data)))
			dec.UseNumber()
			dec.Decode(&jroot)
		}
		jsonAt := func(label string) (jsonState, bool) {
			if jroot == nil {
				return jsonState{}, false
			}
			return jsonLocate(jroot, label)
		}
		// evaluate one expression; results as uids
		sameNames := func(n *navNode, names []navStep) bool {
			if len(n.steps) != len(names) {
				return false
			}
			for i, st := range n.steps {
				if st.name != names[i].name || (names[i].idx >= 0 && names[i].idx != st.idx) {
					return false
				}
			}
			return true
		}
		byValue := false
		evaluate := func(src string, names []navStep) (string, system.Collection) {
			byValue = false
			e, err := compile(src)
			if err != nil {
				otherErrs = append(otherErrs, src+": compile: "+err.Error())
				return "OOtherErr", nil
			}
			var out system.Collection
			var eerr error
			if pn, _ := protect(func() { out, eerr = verifhook.Evaluate(e, []proto.Message{res}) }); pn {
				return "OPanic", nil
			}
			if eerr != nil {
				if errors.Is(eerr, fhirpath.ErrInvalidField) {
					return "OInvalidField", nil
				}
				otherErrs = append(otherErrs, src+": "+eerr.Error())
				return "OOtherErr", nil
			}
			usedCopy := map[uint64]bool{}
			usedSynth := map[uint64]bool{}
			var uids []string
			for _, it := range out {
				uid := uint64(0)
				if pm, ok := it.(proto.Message); ok {
					if u, ok := nb.uidOf[pm]; ok {
						uid = u
					} else {
						for _, c := range nb.copies {
							if !usedCopy[c.uid] && sameNames(c, names) && c.msg.ProtoReflect().Descriptor() == pm.ProtoReflect().Descriptor() && proto.Equal(c.msg, pm) {
								byValue = true
								uid = c.uid
								usedCopy[c.uid] = true
								break
							}
						}
						if s, isStr := pm.(*dtpb.String); uid == 0 && isStr {
							for _, c := range nb.synth {
								if usedSynth[c.uid] || !sameNames(c, names) {
									continue
								}
								if st, ok := jsonAt(c.label); ok && st.val == s.GetValue() {
									byValue = true
									uid = c.uid
									usedSynth[c.uid] = true
									break
								}
							}
						}
					}
				}
				uids = append(uids, coqN(uid))
			}
			return "OOk " + coqList(uids), out
		}
		var queries, srcs []string
		addQuery := func(steps []string, src, kind string, valuesOK bool) {
			var names []navStep
			for _, part := range strings.Split(src, ".") {
				idx := -1
				if i := strings.Index(part, "["); i >= 0 {
					fmt.Sscanf(part[i:], "[%d]", &idx)
					part = part[:i]
				}
				names = append(names, navStep{strings.Trim(part, "`"), idx})
			}
			if len(names) > 0 && (names[0].name == name || kind == "other-root") {
				names = names[1:]
			}
			o, _ := evaluate(src, names)
			// an index placed after an un-indexed repeated element counts over the flattened collection: a result that can
			// only be identified by value (a copy from a contained resource, a synthesized reference string) is ambiguous there
			if strings.Contains(o, " 0%N") || strings.Contains(o, "[0%N") || byValue {
				flat := false
				for _, part := range strings.Split(src, ".") {
					if strings.Contains(part, "[") && flat {
						kinds["skipped-ambiguous"]++
						return
					}
					if !strings.Contains(part, "[") {
						flat = true
					}
				}
			}
			srcs = append(srcs, fmt.Sprintf("%d:%s=>%s", len(srcs), src, o))
			queries = append(queries, fmt.Sprintf("(%s, %s, %s)", coqList(steps), o, coqBool(valuesOK)))
			totalQueries++
			kinds[kind]++
		}
		cname := func(n string) string { return "CName " + coqN(nb.nameID(n)) }
		csteps := func(root string, steps []navStep, keep func(i int) bool) []string {
			var out []string
			if root != "" {
				out = append(out, cname(root))
			}
			for i, s := range steps {
				out = append(out, cname(s.name))
				if s.idx >= 0 && keep(i) {
					out = append(out, "CIndex "+coqN(uint64(s.idx)))
				}
			}
			return out
		}
		none := func(int) bool { return false }
		all := func(int) bool { return true }
		// A: every distinct path of names
		seen := map[string]bool{}
		var namePaths [][]navStep
		for _, n := range nb.nodes {
			src, _ := renderPath(name, n.steps, none)
			if !seen[src] {
				seen[src] = true
				namePaths = append(namePaths, n.steps)
			}
		}
		sort.SliceStable(namePaths, func(a, b int) bool { return len(namePaths[a]) < len(namePaths[b]) })
		limit := 90
		if special != nil {
			limit = 400 // prepared resources: (almost) every path of names
		}
		for i, p := range namePaths {
			if i >= limit && r.intn(len(namePaths)) > limit/2 {
				continue
			}
			src, _ := renderPath(name, p, none)
			addQuery(csteps(name, p, none), src, "names", true)
		}
		// B: fully and partially indexed paths; the primitive's value against the JSON value
		for k := 0; k < 45 && len(nb.nodes) > 1; k++ {
			n := nb.nodes[1+r.intn(len(nb.nodes)-1)]
			src, _ := renderPath(name, n.steps, all)
			ok := true
			if n.primitive {
				if st, located := jsonAt(n.label); located && st.val != nil {
					valueChecks++
					vsrc := src + ".value"
					if n.synthetic {
						vsrc = src
					}
					if e, err := compile(vsrc); err == nil {
						var out system.Collection
						var eerr error
						protect(func() { out, eerr = verifhook.Evaluate(e, []proto.Message{res}) })
						good := false
						if eerr == nil && len(out) == 1 {
							switch v := out[0].(type) {
							case *dtpb.String:
								good = st.val == v.GetValue()
							default:
								good = jsonScalarEqual(v, st.val)
							}
						}
						if !good {
							// Xhtml has no System value (a base64Binary has: its base64 text, as in the JSON)
							if _, isX := n.msg.(*dtpb.Xhtml); !isX {
								ok = false
								valueBad = append(valueBad, fmt.Sprintf("%s: got %v (%v) json %v", vsrc, out, eerr, st.val))
							}
						}
					}
				}
			}
			addQuery(csteps(name, n.steps, all), src, "indexed", ok)
			mask := r.next()
			part := func(i int) bool { return mask>>(uint(i)%60)&1 == 1 }
			src2, _ := renderPath(name, n.steps, part)
			addQuery(csteps(name, n.steps, part), src2, "partly-indexed", true)
			if k < 6 && len(n.steps) > 0 && n.steps[len(n.steps)-1].idx >= 0 { // an index past the end
				st := append([]navStep(nil), n.steps...)
				st[len(st)-1].idx = n.count
				src3, _ := renderPath(name, st, all)
				addQuery(csteps(name, st, all), src3, "index-past-end", true)
			}
			if k < 3 { // another root type, and no root type at all
				other := pick(r, types)
				if other != name {
					src4, _ := renderPath(other, n.steps, none)
					addQuery(csteps(other, n.steps, none), src4, "other-root", true)
				}
				if len(n.steps) > 0 {
					src5, _ := renderPath("", n.steps, none)
					addQuery(csteps("", n.steps, none), src5, "no-root", true)
				}
			}
			if k < 5 && len(n.steps) > 0 { // a name that is no element of the type
				st := append([]navStep(nil), n.steps...)
				i := r.intn(len(st))
				st = st[:i+1]
				st[i] = navStep{pick(r, []string{"nonexistent", "Name", "given_name", "valueUs", "xyz1"}), -1}
				src6, _ := renderPath(name, st, none)
				addQuery(csteps(name, st, none), src6, "bad-name", true)
			}
		}
		// the compact case
		var tbl []string
		for _, s := range nb.nameTbl {
			tbl = append(tbl, coqBytes(s))
		}
		var ids []uint64
		for id := range nb.schema {
			ids = append(ids, id)
		}
		sort.Slice(ids, func(a, b int) bool { return ids[a] < ids[b] })
		var sc []string
		for _, id := range ids {
			var ns []string
			for _, n := range nb.schema[id] {
				ns = append(ns, coqN(nb.nameID(n)))
			}
			sc = append(sc, fmt.Sprintf("(%s, %s)", coqN(id), coqList(ns)))
		}
		// the name table may have grown while the schema was rendered
		tbl = tbl[:0]
		for _, s := range nb.nameTbl {
			tbl = append(tbl, coqBytes(s))
		}
		sink.add(fmt.Sprintf("(%s, %s, %s, %s), tt", coqList(tbl), coqList(sc), tree, coqList(queries)),
			fmt.Sprintf("generated %s: %d elements, %d queries | %s", name, len(nb.nodes), len(queries), strings.Join(srcs, " | ")), "resource", fmt.Sprintf("%s:%d", name, len(nb.nodes)/10))
	}
	for _, name := range types {
		doResource(name, 2)
	}
	{ // a Bundle whose entries are resources of different types with nested elements of the same short name (Patient.Contact /
		// Organization.Contact, Patient.Link / Person.Link, Patient.Communication / RelatedPerson.Communication): one
		// navigation step then meets different message types
		hn := func(f string) *dtpb.HumanName {
			return &dtpb.HumanName{Family: &dtpb.String{Value: f}, Given: []*dtpb.String{{Value: f + "-g"}}}
		}
		fixed := map[string][]proto.Message{
			"Patient": {&ppb.Patient{Id: &dtpb.Id{Value: "p1"}, Contact: []*ppb.Patient_Contact{{Name: hn("PC1")}, {Name: hn("PC2"), Gender: &ppb.Patient_Contact_GenderCode{Value: 2}}},
				Communication: []*ppb.Patient_Communication{{Preferred: &dtpb.Boolean{Value: true}, Language: &dtpb.CodeableConcept{Text: &dtpb.String{Value: "en"}}}}},
				&ppb.Patient{Id: &dtpb.Id{Value: "p2"}, Contact: []*ppb.Patient_Contact{{Name: hn("PC3")}}}},
			"Organization": {&orgpb.Organization{Id: &dtpb.Id{Value: "o1"}, Contact: []*orgpb.Organization_Contact{{Name: hn("OC1"), Purpose: &dtpb.CodeableConcept{Text: &dtpb.String{Value: "adm"}}}}},
				&orgpb.Organization{Id: &dtpb.Id{Value: "o2"}, Contact: []*orgpb.Organization_Contact{{Name: hn("OC2")}, {Name: hn("OC3")}}}},
			"RelatedPerson": {&rppb2.RelatedPerson{Id: &dtpb.Id{Value: "r1"}, Communication: []*rppb2.RelatedPerson_Communication{{Preferred: &dtpb.Boolean{Value: false}, Language: &dtpb.CodeableConcept{Text: &dtpb.String{Value: "fr"}}}}}},
		}
		used := map[string]int{}
		mk := func(name string) proto.Message {
			if l := fixed[name]; len(l) > 0 {
				m := l[used[name]%len(l)]
				used[name]++
				return m
			}
			return g.resource(name, 2)
		}
		for _, kinds := range [][]string{{"Patient", "Organization", "Patient", "Organization"}, {"Patient", "RelatedPerson", "Patient"}} {
			b := &bcrpb.Bundle{Id: &dtpb.Id{Value: "mixed"}}
			for _, nme := range kinds {
				cr := &bcrpb.ContainedResource{}
				res := mk(nme)
				rf := cr.ProtoReflect().Descriptor().Fields()
				for i := 0; i < rf.Len(); i++ {
					if f := rf.Get(i); f.Message() != nil && f.Message() == res.ProtoReflect().Descriptor() {
						cr.ProtoReflect().Set(f, protoreflect.ValueOfMessage(res.ProtoReflect()))
					}
				}
				b.Entry = append(b.Entry, &bcrpb.Bundle_Entry{Resource: cr})
			}
			special = b
			doResource("Bundle", 0)
			special = nil
		}
	}
	{ // a List whose entries hold a typed reference to every resource type, every third with a version
		var fnames []string
		for f := range refOneofFields {
			fnames = append(fnames, f) // (the abstract types Resource / DomainResource / MetadataResource have members too)
		}
		sort.Strings(fnames)
		for lo := 0; lo < len(fnames); lo += 50 {
			hi := lo + 50
			if hi > len(fnames) {
				hi = len(fnames)
			}
			l := &lpb.List{Id: &dtpb.Id{Value: "refs"}}
			for i, f := range fnames[lo:hi] {
				rid := &dtpb.ReferenceId{Value: fmt.Sprintf("id-%d", i)}
				if i%3 == 0 {
					rid.History = &dtpb.Id{Value: "4"}
				}
				ref := &dtpb.Reference{}
				ref.ProtoReflect().Set(refOneofFields[f], protoreflect.ValueOfMessage(rid.ProtoReflect()))
				l.Entry = append(l.Entry, &lpb.List_Entry{Item: ref})
			}
			special = l
			doResource("List", 0)
			special = nil
		}
	}
	for i := 0; i < 30*scale; i++ {
		doResource(pick(r, types), 3)
	}
	for i := 0; i < 3*scale; i++ {
		doResource("Bundle", 3)
	}
	// ---- every enumerated code of the schema: its System string is the FHIR code (exhaustive) --------------------------
	{
		var codeBad []string
		nCodes := 0
		seenMD := map[string]bool{}
		var visit func(md protoreflect.MessageDescriptor)
		visit = func(md protoreflect.MessageDescriptor) {
			if seenMD[string(md.FullName())] {
				return
			}
			seenMD[string(md.FullName())] = true
			if vf := md.Fields().ByName("value"); vf != nil && vf.Kind() == protoreflect.EnumKind && isCodeWrapper(md) {
				vals := vf.Enum().Values()
				for i := 0; i < vals.Len(); i++ {
					ev := vals.Get(i)
					if ev.Number() == 0 {
						continue
					}
					m := newMessage(md)
					m.Set(vf, protoreflect.ValueOfEnum(ev.Number()))
					want := strings.ReplaceAll(strings.ToLower(string(ev.Name())), "_", "-")
					if orig, ok := proto.GetExtension(ev.Options(), apb.E_FhirOriginalCode).(string); ok && orig != "" {
						want = orig
					}
					nCodes++
					var got any
					var err error
					protect(func() { got, err = system.From(m.Interface()) })
					if gs, ok := got.(system.String); err != nil || !ok || string(gs) != want {
						codeBad = append(codeBad, fmt.Sprintf("%s.%s: got %v (%v) want %q", md.FullName(), ev.Name(), got, err, want))
					}
				}
			}
			for i := 0; i < md.Fields().Len(); i++ {
				if m := md.Fields().Get(i).Message(); m != nil {
					visit(m)
				}
			}
			for i := 0; i < md.Messages().Len(); i++ {
				visit(md.Messages().Get(i))
			}
		}
		for _, md := range resourceDescriptors() {
			visit(md)
		}
		if len(codeBad) > 30 {
			codeBad = codeBad[:30]
		}
		sink.extra["enumerated_codes_checked"] = nCodes
		sink.extra["enumerated_code_mismatches"] = codeBad
		// recorded as one query on a one-element tree whose value flag is the outcome of the sweep
		sink.add(fmt.Sprintf("([[]; %s], [(1%%N, [])], CNode 1 1 1 [], [([CName 1], OOk [1%%N], %s)]), tt", coqBytes("Patient"), coqBool(len(codeBad) == 0)),
			fmt.Sprintf("every enumerated code of the schema (%d values): system.From gives the FHIR code | 0:sweep=>%d mismatches %v", nCodes, len(codeBad), codeBad), "code-sweep", "code-sweep")
	}
	if len(valueBad) > 30 {
		valueBad = valueBad[:30]
	}
	if len(otherErrs) > 30 {
		otherErrs = otherErrs[:30]
	}
	sink.extra["queries"] = totalQueries
	sink.extra["query_kinds"] = kinds
	sink.extra["elements"] = totalNodes
	sink.extra["primitive_value_checks"] = valueChecks
	sink.extra["value_mismatch_examples"] = valueBad
	sink.extra["other_error_examples"] = otherErrs
	sink.finish("a generated resource of every registry type (choice types, codes, typed/untyped/fragment references, contained resources, bundle entries, primitive extensions): "+
		"every path of names of its element tree, indexed / partly indexed / past-the-end variants, other root types, no root type, names that are no elements; primitive values against the FHIR JSON", false)
}
