package main

// C11, second stream: the generated lexer against the character-level model C11/Lexer.v.
// One case = a source and a variant of it with whitespace / comments inserted at token boundaries reported by the
// generated lexer itself (verifhook.Tokens); observed: the default-channel token texts of both and whether
// fhirpath.Compile accepts each.

import (
	"fmt"
	"strings"

	"github.com/verily-src/fhirpath-go/fhirpath"
	"github.com/verily-src/fhirpath-go/fhirpath/verifhook"
)

func lexBytes(s string) string { // bare numerals; the whole case is wrapped in %N
	var b strings.Builder
	b.WriteString("[")
	for i := 0; i < len(s); i++ {
		if i > 0 {
			b.WriteString(";")
		}
		fmt.Fprintf(&b, "%d", s[i])
	}
	b.WriteString("]")
	return b.String()
}

var c11LexFixed = []string{
	"", " ", "1", "1.5", "1.", "1.a", "1.5.6", "01.50", "1..2", ".5", "1 .5", "1. 5", "3.toString()", "3.14.round(1)",
	"a", "_a1", "a_b.c", "div", "divx", "xdiv", "1div2", "1 div 2", "trueish", "true", "andor", "a and b", "isas", "x is y",
	"$this", "$thisx", "$index+$total", "$ this", "$that", "$", "$t",
	"a<=b", "a<b", "a< =b", "a>=b", "a>b", "a!=b", "a!~b", "a! =b", "a!b", "!", "a=b", "a~b", "a==b", "a<>b", "a<=>b",
	"a/b", "a//b", "a/ /b", "a/*b*/c", "a/**/b", "a/***/b", "a/*/b", "a/*/*/b", "a/* b", "a*/b", "4/2//x\n/3", "// only", "/* only */", "//", "/**/",
	"a // c\nb", "a // c\r\nb", "a // c\rb", "a // c /* d\nb", "a /* // */ b", "a /* \n */ b", "a /*' */ b",
	"'s'", "''", "'a b'", "'a''b'", "'a\\'b'", "'a\\\\'", "'a\\\\\\'b'", "'a\\nb'", "'a\\u0041b'", "'a\\qb'", "'a\\u00'", "'a`b'", "'a\\`b'", "'a\"b'", "'unterminated", "'a\\'", "'a\\' ", "x'", "'//'", "'/*'", "' /* '  ' */ '",
	"`d`", "``", "`a b`.c", "`a\\`b`", "`a'b`", "`unterminated", "'a`b'`c'd`",
	"%a", "%'a b'", "% a", "%`q`", "%%", "{}", "{ }", "{/**/}", "( 1 )", "a[0]", "a [ 0 ]", "a.b(c,d)", "a . b ( c , d )", "a|b", "a&b", "-1", "- 1", "+-+1", "1 'mg'", "1'mg'", "1 year", "1year", "1.5years",
	"a # b", "a ? b", "a ; b", "a : b", "a \\ b", "a ^ b", "a \" b", "é", "'é'", "a b", "a\vb", "a\fb", "a\x00b", "'\x00'", "a\tb\r\nc",
	"@2020", "@2020-01-01T10:00:00Z + 1", "@T10:30", "@2020-1", "a @ b", "@", "@T", "@T1", "@T10", "@T10:", "@T10:3", "@T10:30:", "@T10:30:15.", "@T10:30:15.2", "@T10:30:15.250Z", "@T10:30+05:30",
	"@202", "@20201", "@2020-", "@2020-01-", "@2020-01-0", "@2020-01-02", "@2020-01-02-03", "@2020T", "@2020-01T", "@2020-01-02T", "@2020-01-02T1", "@2020-01-02T10", "@2020-01-02T10Z", "@2020-01-02T10:30+05", "@2020-01-02T10:30+05:3",
	"@2020-01-02T10:30+05:30", "@2020-01-02T10:30-05:30", "@2020-01-02T10:30:15.250+05:30x", "@2020-01-02T10:30:15.250 +05:30", "@2020-01-02T10:30:15.Z", "@2020-01-02TZ", "@2020T10", "@2020-01-02T10:30z", "@2020-01-02t10",
	"@2020-01-02T10:30:15.1234567890123", "@2020.toString()", "@2020-01-02.toString()", "@2020-01-02T10:30:15.5.toString()", "@T10.5", "@T10:30.toString()", "@2020-01-02T10:30:15+05:30.x", "@2020-01-02--1", "@2020-01-02T10:30:15-1",
}

var c11LexLexemes = []string{
	"a", "b1", "_x", "div", "mod", "and", "or", "xor", "implies", "is", "as", "in", "contains", "true", "false", "year", "days",
	"0", "1", "12", "007", "1.5", "10.25", "@2020", "@2020-03", "@2020-03-04", "@2020-03-04T10", "@2020-03-04T10:30:15.250+05:30", "@2020-03-04T10:30Z", "@T10:30", "@T10:30:15.5", "@2020T", "$this", "$index", "$total", "'s'", "''", "'a b'", "'it\\'s'", "'\\\\'", "`d e`", "``",
	".", ".", ".", "[", "]", "+", "-", "*", "/", "&", "|", "<=", "<", ">", ">=", "=", "~", "!=", "!~", "(", ")", "{", "}", "%", ",",
}

var c11LexSeps = []string{"", "", "", " ", " ", "\n", "\t", "  ", "/**/", " /* c */ ", " // c\n", "\r\n"}
var c11LexGaps = []string{" ", "\n", "\t", "\r\n", "   ", " /* c */ ", "/**/", "// x\n", "/* ' */", "/* // */", "//\n", "/* * / */", "\n// 'q\n", "/*\n*/"}

func c11LexObserve(src string) (toks []verifhook.Token, ok bool, compiles bool) {
	panicked, _ := protect(func() { toks, ok = verifhook.Tokens(src) })
	if panicked {
		return nil, false, false
	}
	var err error
	p2, _ := protect(func() { _, err = fhirpath.Compile(src) })
	return toks, ok, !p2 && err == nil
}

func c11LexToksCoq(toks []verifhook.Token, ok bool) string {
	if !ok {
		return "None"
	}
	parts := make([]string, len(toks))
	for i, t := range toks {
		parts[i] = lexBytes(t.Text)
	}
	return "(Some [" + strings.Join(parts, ";") + "])"
}

func runC11Lex(cfg config, main *caseSink, r *rng, rendered []string) {
	sink := newSink(cfg.out, "C11", "C11.Lexer", "N * lcase * lobs", "ljudge", 250)
	sink.prefix = "cases_lex_"
	sink.idBase = 1000000
	nSoup := 1200
	if cfg.tier == "thorough" {
		nSoup = 20000
	}
	var sources []string
	sources = append(sources, c11LexFixed...)
	for n := 0; n < nSoup; n++ {
		k := 1 + r.intn(9)
		var b strings.Builder
		for i := 0; i < k; i++ {
			b.WriteString(pick(r, c11LexLexemes))
			b.WriteString(pick(r, c11LexSeps))
		}
		sources = append(sources, b.String())
	}
	sources = append(sources, rendered...)
	for _, src := range sources {
		toks, ok, comp := c11LexObserve(src)
		// boundaries: start and end of the source, start and end of every default-channel token
		bset := map[int]bool{0: true, len(src): true}
		for _, t := range toks {
			if t.Start >= 0 {
				bset[t.Start] = true
				bset[t.Stop] = true
			}
		}
		nVar := 2
		if len(toks) > 4 {
			nVar = 3
		}
		for v := 0; v < nVar; v++ {
			var b strings.Builder
			inserted := 0
			for i := 0; i <= len(src); i++ {
				if bset[i] && (v == 0 || r.intn(2) == 0) {
					g := pick(r, c11LexGaps)
					if v == 0 {
						g = pick(r, []string{" ", "\n", "\t"})
					}
					if i == len(src) && len(toks) > 0 && toks[len(toks)-1].Stop != len(src) {
						g = pick(r, []string{" ", "\n", "\t"}) // the source may end inside a line comment: only whitespace is "after the last token" there
					}
					if i > 0 && src[i-1] == '/' && strings.HasPrefix(g, "/") {
						g = " " + g // `/` directly followed by `/` or `*` is not a division and a comment but a comment opener
					}
					b.WriteString(g)
					inserted++
				}
				if i < len(src) {
					b.WriteByte(src[i])
				}
			}
			variant := b.String()
			vt, vok, vcomp := c11LexObserve(variant)
			coq := fmt.Sprintf("(%s, %s)%%N, (%s, %s, %s, %s)%%N", lexBytes(src), lexBytes(variant),
				c11LexToksCoq(toks, ok), c11LexToksCoq(vt, vok), coqBool(comp), coqBool(vcomp))
			kind := "lex:error"
			if ok {
				kind = "lex:tokens"
				if comp {
					kind = "lex:compiles"
				}
			}
			if strings.ContainsAny(src, "@\\") {
				kind += "+date-or-backslash"
			}
			key := ""
			if ok {
				key = "lex " + variant
			}
			sink.add(coq, fmt.Sprintf("lexer: source %q  variant %q  [%d gaps inserted; lexes=%v compiles=%v; variant lexes=%v compiles=%v]", src, variant, inserted, ok, comp, vok, vcomp), kind, key)
		}
	}
	sink.flush()
	for k, v := range sink.hist {
		main.hist[k] += v
	}
	for k := range sink.nontriv {
		main.nontriv[k] = true
	}
	main.extra["lexer_stream_cases"] = sink.n
	main.extra["lexer_stream_shards"] = sink.shard
	main.extra["lexer_stream_rule"] = "fixed pool of boundary sources (number/dot, keyword adjacency, two-character operators, comment openers and closers, quotes and escapes, $-names, illegal characters, non-ASCII), random token soups with and without separators, and the rendered trees of the first stream; every source also with whitespace-only gaps at every boundary and with random whitespace / comment gaps at random boundaries, the boundaries being those the generated lexer reports"
	main.n += sink.n
}
