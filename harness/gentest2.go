package main

import (
	dtpb "github.com/google/fhir/go/proto/google/fhir/proto/r4/core/datatypes_go_proto"
	"github.com/verily-src/fhirpath-go/fhirpath"
)

type dtpbString = dtpb.String

func fhirpathCompile(s string) (*fhirpath.Expression, error) { return fhirpath.Compile(s) }
