package main

import (
	"fmt"
	"strings"

	dtpb "github.com/google/fhir/go/proto/google/fhir/proto/r4/core/datatypes_go_proto"
	"github.com/verily-src/fhirpath-go/fhirpath"
	"github.com/verily-src/fhirpath-go/fhirpath/evalopts"
	"github.com/verily-src/fhirpath-go/fhirpath/system"
	"github.com/verily-src/fhirpath-go/fhirpath/verifhook"
	"google.golang.org/protobuf/proto"
)

func init() { props["C06"] = runC06 }

// operand forms: value kind x source
type c06Operand struct {
	src, kind, expr string
}

func c06Operands() []c06Operand {
	return []c06Operand{
		// literals (a multi-item literal does not exist: the union operator is not supported)
		{"literal", "T", "true"}, {"literal", "F", "false"}, {"literal", "E", "{}"}, {"literal", "NB", "'x'"}, {"literal", "NB", "0"},
		// FHIR elements
		{"element", "T", "Patient.active"}, {"element", "F", "Patient.deceased"}, {"element", "E", "Patient.maritalStatus"},
		{"element", "NB", "Patient.gender"}, {"element", "NB", "Patient.birthDate"}, {"element", "M", "Patient.communication.preferred"},
		{"element", "M", "Patient.name.given"}, {"element", "NB", "Patient.name[1]"},
		// computed System Booleans / values
		{"computed", "T", "(1 = 1)"}, {"computed", "F", "(1 = 2)"}, {"computed", "E", "(1 = {})"}, {"computed", "NB", "(1 + 1)"},
		{"computed", "F", "(true and false)"}, {"computed", "T", "(false implies {})"},
		// environment variables
		{"env", "T", "%vt"}, {"env", "F", "%vf"}, {"env", "E", "%ve"}, {"env", "NB", "%vn"}, {"env", "M", "%vm"}, {"env", "T", "%vft"}, {"env", "F", "%vff"},
		{"env", "M", "%vmb"},
		// collections nested three and four deep: the value is what remains when every level is spliced
		// single non-Boolean elements that have no readable System value: still one non-Boolean item
		{"env", "NB", "%vq"}, {"env", "NB", "%vdn"}, {"env", "NB", "%vcx"},
		{"env", "F", "%vn3f"}, {"env", "T", "%vn3t"}, {"env", "E", "%vn3e"}, {"env", "M", "%vn3m"}, {"env", "NB", "%vn4n"},
		// function results
		{"function", "T", "Patient.active.first()"}, {"function", "F", "Patient.active.not()"}, {"function", "E", "Patient.name.given.skip(5)"},
		{"function", "NB", "'abc'.length()"}, {"function", "M", "Patient.name.given.tail()"}, {"function", "T", "Patient.name.exists()"},
		{"function", "F", "Patient.name.empty()"}, {"function", "M", "Patient.communication.preferred.take(2)"},
		// every Boolean-valued function and operator, with matching / non-matching arguments that are shorter than, as long as
		// and longer than the input
		{"function", "T", "'Chu'.startsWith('Ch')"}, {"function", "F", "'Chu'.startsWith('Xy')"}, {"function", "F", "'Chu'.startsWith('Cha')"}, {"function", "F", "'Chu'.startsWith('Chuang')"}, {"function", "T", "'Chu'.startsWith('')"},
		{"function", "T", "'Chu'.endsWith('hu')"}, {"function", "F", "'Chu'.endsWith('xu')"}, {"function", "F", "'Chu'.endsWith('aChu')"},
		{"function", "T", "'Chu'.contains('h')"}, {"function", "F", "'Chu'.contains('z')"}, {"function", "F", "'Chu'.contains('Chuang')"}, {"function", "F", "%context.name[0].family.contains('Doe Senior')"},
		{"function", "T", "'Chu'.matches('^C')"}, {"function", "F", "'Chu'.matches('^hu..')"},
		{"function", "T", "%vm.exists($this = 2)"}, {"function", "F", "%vm.exists($this = 3)"}, {"function", "T", "%vm.all($this > 0)"}, {"function", "F", "%vm.all($this > 1)"},
		{"function", "T", "%vmb.allTrue()"}, {"function", "F", "Patient.communication.preferred.allTrue()"}, {"function", "T", "Patient.communication.preferred.anyTrue()"}, {"function", "F", "Patient.active.anyFalse()"},
		{"function", "T", "Patient.deceased.allFalse()"}, {"function", "T", "%vm.isDistinct()"}, {"function", "F", "%vmb.isDistinct()"},
		
		{"function", "T", "'1'.convertsToInteger()"}, {"function", "F", "'x'.convertsToInteger()"},
		{"function", "T", "'true'.toBoolean()"}, {"function", "F", "0.toBoolean()"}, {"function", "E", "'maybe'.toBoolean()"},
		 {"computed", "F", "('a' > 'b')"}, {"computed", "T", "('a' <= 'b')"}, {"computed", "E", "(@2020 < @2020-01)"},
		{"computed", "T", "(1 is Integer)"}, {"computed", "F", "(1 is String)"}, {"computed", "T", "('a' != 'b')"}, {"computed", "F", "(1.0 != 1)"}, {"computed", "T", "(%context.active is boolean)"},
	}
}

// the collection an operand of a declared kind has to be, whatever the library makes of it
func c06Declared(kind string) (string, bool) {
	switch kind {
	case "T":
		return "[IBool true]", true
	case "F":
		return "[IBool false]", true
	case "E":
		return "[]", true
	}
	return "", false
}

func c06Env() []fhirpath.EvaluateOption {
	return []fhirpath.EvaluateOption{
		evalopts.EnvVariable("vt", system.Boolean(true)),
		evalopts.EnvVariable("vf", system.Boolean(false)),
		evalopts.EnvVariable("ve", system.Collection{}),
		evalopts.EnvVariable("vn", system.String("s")),
		evalopts.EnvVariable("vm", system.Collection{system.Integer(1), system.Integer(2)}),
		evalopts.EnvVariable("vft", &dtpb.Boolean{Value: true}),
		evalopts.EnvVariable("vff", &dtpb.Boolean{Value: false}),
		evalopts.EnvVariable("vmb", system.Collection{system.Boolean(true), system.Boolean(true)}),
		evalopts.EnvVariable("vq", &dtpb.Quantity{Code: &dtpb.Code{Value: "mg"}, Unit: &dtpb.String{Value: "mg"}}),
		evalopts.EnvVariable("vdn", &dtpb.Decimal{Value: "n/a"}),
		evalopts.EnvVariable("vcx", &dtpb.Period{}),
		evalopts.EnvVariable("vn3f", system.Collection{system.Collection{system.Collection{system.Boolean(false)}}}),
		evalopts.EnvVariable("vn3t", system.Collection{system.Collection{}, system.Collection{system.Collection{&dtpb.Boolean{Value: true}}}}),
		evalopts.EnvVariable("vn3e", system.Collection{system.Collection{system.Collection{}, system.Collection{system.Collection{}}}}),
		evalopts.EnvVariable("vn3m", system.Collection{system.Collection{system.Collection{system.Boolean(true), system.Boolean(false)}}}),
		evalopts.EnvVariable("vn4n", system.Collection{system.Collection{system.Collection{system.Collection{system.String("deep")}}}}),
	}
}

func c06Item(v any) string {
	switch x := v.(type) {
	case system.Boolean:
		return "IBool " + coqBool(bool(x))
	case *dtpb.Boolean:
		return "IBool " + coqBool(x.GetValue())
	}
	return "IOther"
}

func c06Coll(c system.Collection) string {
	var xs []string
	for _, v := range c {
		xs = append(xs, c06Item(v))
	}
	return coqList(xs)
}

// evalOutcome evaluates src against the base patient and renders the outcome as a Coq `res coll`.
func c06Eval(src string, input []proto.Message) (string, string, system.Collection) {
	var out system.Collection
	var err error
	panicked, msg := protect(func() {
		var e *fhirpath.Expression
		e, err = fhirpath.Compile(src)
		if err != nil {
			return
		}
		out, err = verifhook.Evaluate(e, input, c06Env()...)
	})
	switch {
	case panicked:
		return "Panic", "panic: " + msg, nil
	case err != nil:
		return "Err", "error: " + err.Error(), nil
	}
	return "(Ok " + c06Coll(out) + ")", fmt.Sprint(out), out
}

func runC06(cfg config) {
	sink := newSink(cfg.out, "C06", "C06.Model", "N * case * outcome", "judge", 600)
	input := []proto.Message{basePatient()}
	ops := c06Operands()
	// operand collections, evaluated on their own
	opColl := map[string]string{}
	for _, o := range ops {
		res, _, coll := c06Eval(o.expr, input)
		if !strings.HasPrefix(res, "(Ok") {
			must(fmt.Errorf("C06 operand %q does not evaluate: %s", o.expr, res))
		}
		opColl[o.expr] = c06Coll(coll)
		// a form declared true / false / empty enters the cases as that (the model then predicts what a genuine Boolean gives);
		// what the library returned for the operand alone is checked as a case of its own
		if want, ok := c06Declared(o.kind); ok {
			sink.add(fmt.Sprintf("COperand %s, %s", want, res), o.expr+" => "+fmt.Sprint(coll), "operand", "operand/"+o.src+":"+o.kind+":"+o.expr)
			opColl[o.expr] = want
		}
	}
	binops := []struct{ kw, coq string }{{"and", "OpAnd"}, {"or", "OpOr"}, {"xor", "OpXor"}, {"implies", "OpImplies"}}
	for _, b := range binops {
		for _, l := range ops {
			for _, r := range ops {
				src := fmt.Sprintf("%s %s %s", l.expr, b.kw, r.expr)
				res, human, _ := c06Eval(src, input)
				coq := fmt.Sprintf("CBool %s %s %s, %s", b.coq, opColl[l.expr], opColl[r.expr], res)
				key := fmt.Sprintf("%s/%s:%s/%s:%s", b.kw, l.src, l.kind, r.src, r.kind)
				sink.add(coq, src+" => "+human, b.kw, key)
			}
		}
	}
	for _, o := range ops {
		// not()
		src := "(" + o.expr + ").not()"
		res, human, _ := c06Eval(src, input)
		sink.add(fmt.Sprintf("CNot %s, %s", opColl[o.expr], res), src+" => "+human, "not", "not/"+o.src+":"+o.kind)
		// criteria, each applied to a one-item input so that the criterion is evaluated once.
		// The criterion ignores $this, so its own collection is the operand's.
		type crit struct{ ctor, src string; boolish bool }
		for _, c := range []crit{
			{"CWhere", "'i'.where(" + o.expr + ").exists()", false},
			{"CExists", "'i'.exists(" + o.expr + ")", false},
			{"CAll", "'i'.all(" + o.expr + ")", false},
			{"CIif", "iif(" + o.expr + ", true, false)", false},
			{"CIif", "iif(" + o.expr + ", true).exists()", false}, // two-argument form: same criterion rule, no otherwise-result
			{"CIif", "iif(" + o.expr + ", 1, 2) = 1", false},
		} {
			if strings.HasPrefix(o.expr, "Patient.") {
				// inside where/exists/all the criterion's input is the item 'i', not the resource:
				// take element operands through %context instead.
				c.src = strings.ReplaceAll(c.src, o.expr, "%context."+strings.TrimPrefix(o.expr, "Patient."))
			}
			res, human, _ := c06Eval(c.src, input)
			sink.add(fmt.Sprintf("%s %s, %s", c.ctor, opColl[o.expr], res), c.src+" => "+human, c.ctor, c.ctor+"/"+o.src+":"+o.kind)
		}
		// EvaluateAsBool
		var b bool
		var err error
		panicked, msg := protect(func() {
			var e *fhirpath.Expression
			e, err = fhirpath.Compile(o.expr)
			if err != nil {
				return
			}
			b, err = verifhook.EvaluateAsBool(e, input, c06Env()...)
		})
		res = "(Ok [IBool " + coqBool(b) + "])"
		human = fmt.Sprint(b)
		if panicked {
			res, human = "Panic", "panic: "+msg
		} else if err != nil {
			res, human = "Err", "error: "+err.Error()
		}
		sink.add(fmt.Sprintf("CAsBool %s, %s", opColl[o.expr], res), "EvaluateAsBool("+o.expr+") => "+human, "CAsBool", "asbool/"+o.src+":"+o.kind)
	}
	sink.finish("exhaustive: every operator x every ordered pair of operand forms (value kind x source), not(), where/exists/all/iif criteria and EvaluateAsBool for every form; a case is non-trivial (all are) and distinct by (operator, left source:kind, right source:kind)", true)
}
