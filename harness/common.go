// fpharness: runs generated cases through the real fhirpath-go API (built from the
// working tree named by the go.mod replace directive, with -tags verif) and writes
// them, together with the observed outcomes, as Coq terms for the model to judge.
package main

import (
	"encoding/json"
	"fmt"
	"os"
	"path/filepath"
	"runtime/debug"
	"sort"
	"strings"
	"time"
)

// ---- deterministic PRNG (splitmix64): every random choice derives from one state ----
type rng struct{ s uint64 }

func (r *rng) next() uint64 {
	r.s += 0x9e3779b97f4a7c15
	z := r.s
	z = (z ^ (z >> 30)) * 0xbf58476d1ce4e5b9
	z = (z ^ (z >> 27)) * 0x94d049bb133111eb
	return z ^ (z >> 31)
}
func (r *rng) intn(n int) int {
	if n <= 0 {
		return 0
	}
	return int(r.next() % uint64(n))
}
func (r *rng) bool() bool          { return r.next()&1 == 1 }
func pick[T any](r *rng, xs []T) T { return xs[r.intn(len(xs))] }

// ---- Coq term emission ------------------------------------------------------
func coqZ(v int64) string {
	if v < 0 {
		return fmt.Sprintf("(%d)%%Z", v)
	}
	return fmt.Sprintf("%d%%Z", v)
}
func coqZs(s string) string { // decimal string, possibly negative, arbitrary size
	if strings.HasPrefix(s, "-") {
		return "(" + s + ")%Z"
	}
	return s + "%Z"
}
func coqN(v uint64) string { return fmt.Sprintf("%d%%N", v) }
func coqBool(b bool) string {
	if b {
		return "true"
	}
	return "false"
}
func coqList(xs []string) string { return "[" + strings.Join(xs, "; ") + "]" }
func coqUStr(s string) string { // string as list of code points
	var cs []string
	for _, r := range s {
		cs = append(cs, coqN(uint64(r)))
	}
	return coqList(cs)
}
func coqBytes(s string) string { // string as list of bytes
	var cs []string
	for i := 0; i < len(s); i++ {
		cs = append(cs, coqN(uint64(s[i])))
	}
	return coqList(cs)
}
func coqOpt(s string, some bool) string {
	if some {
		return "(Some " + s + ")"
	}
	return "None"
}

// ---- case sink ----------------------------------------------------------------
type caseSink struct {
	dir       string
	prop      string
	imports   string // e.g. "C06.Model"
	caseType  string // Coq type of one case tuple, e.g. "N * case * outcome"
	judge     string // Coq judge function
	shardSize int
	cur       []string
	curDesc   []string
	shard     int
	n         uint64
	hist      map[string]int // distribution of case kinds / outcome classes
	samples   []map[string]string
	nontriv   map[string]bool
	start     time.Time
	extra     map[string]any
	header    string // extra vernacular after the imports (e.g. From RUN Require Gen_x.)
	prefix    string // shard file prefix (default cases_); a second stream of one run uses its own
	idBase    uint64 // added to the case ids of this stream
}

func newSink(dir, prop, imports, caseType, judge string, shardSize int) *caseSink {
	os.MkdirAll(dir, 0o755)
	return &caseSink{dir: dir, prop: prop, imports: imports, caseType: caseType, judge: judge,
		shardSize: shardSize, hist: map[string]int{}, nontriv: map[string]bool{}, start: time.Now(), extra: map[string]any{"process_time_zone": processZone}}
}

// add records one case: coq is the Coq term (without id), desc the human-readable replay text,
// kind a histogram key, nontrivialKey a key counted as distinct non-trivial case ("" = trivial).
func (s *caseSink) add(coq, desc, kind, nontrivialKey string) {
	s.n++
	s.cur = append(s.cur, fmt.Sprintf("(%s, %s)", coqN(s.idBase+s.n), coq))
	s.curDesc = append(s.curDesc, fmt.Sprintf("%d\t%s\t%s", s.idBase+s.n, desc, coq))
	s.hist[kind]++
	if nontrivialKey != "" {
		s.nontriv[nontrivialKey] = true
	}
	if len(s.samples) < 12 && (s.n%97 == 1 || s.n < 4) {
		s.samples = append(s.samples, map[string]string{"id": fmt.Sprint(s.n), "case": desc, "coq": coq})
	}
	if len(s.cur) >= s.shardSize {
		s.flush()
	}
}

func (s *caseSink) flush() {
	if len(s.cur) == 0 {
		return
	}
	var b strings.Builder
	fmt.Fprintf(&b, "From FPV Require Import Base.Prelude %s.\n", s.imports)
	b.WriteString(s.header)
	b.WriteString("Local Open Scope Z_scope.\n")
	fmt.Fprintf(&b, "Definition cases : list (%s) := [\n", s.caseType)
	b.WriteString(strings.Join(s.cur, ";\n"))
	b.WriteString("\n].\n")
	fmt.Fprintf(&b, "Definition verdicts := Eval vm_compute in map %s cases.\n", s.judge)
	b.WriteString("Definition R_disagree := Eval vm_compute in disagreeing verdicts.\n")
	b.WriteString("Definition R_fail_unlisted := Eval vm_compute in failing_unlisted verdicts.\n")
	b.WriteString("Definition R_fail_listed := Eval vm_compute in failing_listed verdicts.\n")
	b.WriteString("Definition R_listed_ok := Eval vm_compute in listed_not_failing verdicts.\n")
	b.WriteString("Print R_disagree.\nPrint R_fail_unlisted.\nPrint R_fail_listed.\nPrint R_listed_ok.\n")
	if s.prefix == "" {
		s.prefix = "cases_"
	}
	name := fmt.Sprintf("%s%04d", s.prefix, s.shard)
	must(os.WriteFile(filepath.Join(s.dir, name+".v"), []byte(b.String()), 0o644))
	must(os.WriteFile(filepath.Join(s.dir, name+".tsv"), []byte(strings.Join(s.curDesc, "\n")+"\n"), 0o644))
	s.shard++
	s.cur, s.curDesc = nil, nil
}

func (s *caseSink) finish(rule string, exhaustive bool) {
	s.flush()
	keys := make([]string, 0, len(s.hist))
	for k := range s.hist {
		keys = append(keys, k)
	}
	sort.Strings(keys)
	meta := map[string]any{
		"property":            s.prop,
		"evaluations":         s.n,
		"distinct_nontrivial": len(s.nontriv),
		"rule":                rule,
		"exhaustive":          exhaustive,
		"distribution":        s.hist,
		"samples":             s.samples,
		"shards":              s.shard,
		"harness_wall_s":      time.Since(s.start).Seconds(),
	}
	for k, v := range s.extra {
		meta[k] = v
	}
	data, _ := json.MarshalIndent(meta, "", " ")
	must(os.WriteFile(filepath.Join(s.dir, "meta.json"), data, 0o644))
}

func must(err error) {
	if err != nil {
		fmt.Fprintln(os.Stderr, "fpharness:", err)
		os.Exit(2)
	}
}

// protect runs f and converts a panic into ok=false.
func protect(f func()) (panicked bool, msg string) {
	defer func() {
		if r := recover(); r != nil {
			panicked = true
			msg = fmt.Sprint(r)
			if os.Getenv("VERIF_STACKS") != "" {
				msg += "\n" + string(debug.Stack())
			}
		}
	}()
	f()
	return false, ""
}
