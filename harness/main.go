package main

import (
	"flag"
	"fmt"
	"os"
	"strconv"
	"time"
)

type config struct {
	prop string
	seed uint64
	tier string
	out  string
}

var props = map[string]func(cfg config){}

var processZone string

func main() {
	if len(os.Args) < 2 {
		fmt.Fprintln(os.Stderr, "usage: fpharness <property> [-seed N] [-tier quick|thorough] -out DIR")
		os.Exit(2)
	}
	cfg := config{prop: os.Args[1]}
	fs := flag.NewFlagSet("fpharness", flag.ExitOnError)
	seed := fs.String("seed", "1", "seed")
	fs.StringVar(&cfg.tier, "tier", "quick", "tier")
	fs.StringVar(&cfg.out, "out", "", "output directory")
	fs.Parse(os.Args[2:])
	s, err := strconv.ParseUint(*seed, 10, 64)
	if err != nil {
		s = 1
	}
	cfg.seed = s
	// The library's answers may not depend on the process time zone: every run uses another one (the models know none).
	zones := []*time.Location{time.FixedZone("+05:45", 5*3600+45*60), time.FixedZone("-09:30", -(9*3600 + 30*60)), time.UTC, time.FixedZone("+13:00", 13*3600)}
	// seeds 4..7 (mod 8) run under a real zone with daylight-saving rules: a value whose written offset is one the zone
	// uses must keep it (time.Parse would hand back time.Local for it); seeds 0..3 keep the fixed offsets
	for _, name := range []string{"America/St_Johns", "Pacific/Chatham", "Australia/Lord_Howe", "Europe/London"} {
		if loc, err := time.LoadLocation(name); err == nil {
			zones = append(zones, loc)
		} else {
			zones = append(zones, zones[len(zones)%4])
		}
	}
	time.Local = zones[s%8]
	processZone = time.Local.String()
	f, ok := props[cfg.prop]
	if !ok {
		fmt.Fprintln(os.Stderr, "fpharness: unknown property", cfg.prop)
		os.Exit(2)
	}
	if cfg.out == "" {
		fmt.Fprintln(os.Stderr, "fpharness: -out required")
		os.Exit(2)
	}
	f(cfg)
}
