package main

import (
	"encoding/base64"
	"fmt"
	"math"
	"unicode/utf8"

	dtpb "github.com/google/fhir/go/proto/google/fhir/proto/r4/core/datatypes_go_proto"
	"github.com/verily-src/fhirpath-go/fhirpath"
	"github.com/verily-src/fhirpath-go/fhirpath/evalopts"
	"github.com/verily-src/fhirpath-go/fhirpath/system"
	"github.com/verily-src/fhirpath-go/fhirpath/verifhook"
	"google.golang.org/protobuf/proto"
)

func init() { props["C14"] = runC14 }

var c14Alphabet = []rune{'a', 'b', 'A', 'z', ' ', 'é', 'ß', '€', '中', '😀', '́', 'Z', '1', '\'', 'É', '\uFFFD', '\u0000', '\U0010FFFF'}

func c14Rand(r *rng, maxLen int) string {
	n := r.intn(maxLen + 1)
	rs := make([]rune, n)
	for i := range rs {
		rs[i] = pick(r, c14Alphabet)
	}
	return string(rs)
}

func runC14(cfg config) {
	sink := newSink(cfg.out, "C14", "C14.Model", "N * case * outcome", "judge", 400)
	r := &rng{s: cfg.seed*0x9e3779b97f4a7c15 + 14}
	input := []proto.Message{basePatient()}
	nStr := 40
	if cfg.tier == "thorough" {
		nStr = 600
	}
	// receivers are supplied as variables: System strings and FHIR string-like elements
	mkRecv := func(s string) (any, string) {
		// a string that is the canonical base64 text of some bytes is, half of the time, a base64Binary element
		if raw, err := base64.StdEncoding.DecodeString(s); err == nil && len(s) > 0 && base64.StdEncoding.EncodeToString(raw) == s && r.intn(2) == 0 {
			return &dtpb.Base64Binary{Value: raw}, "FHIR.base64Binary"
		}
		switch r.intn(12) {
		case 0:
			return &dtpb.String{Value: s}, "FHIR.string"
		case 1:
			return &dtpb.Markdown{Value: s}, "FHIR.markdown"
		case 2:
			return &dtpb.Code{Value: s}, "FHIR.code"
		case 3:
			return &dtpb.Id{Value: s}, "FHIR.id"
		case 4:
			return &dtpb.Uri{Value: s}, "FHIR.uri"
		case 5:
			return &dtpb.Url{Value: s}, "FHIR.url"
		case 6:
			return &dtpb.Canonical{Value: s}, "FHIR.canonical"
		case 7:
			return &dtpb.Oid{Value: s}, "FHIR.oid"
		case 8:
			return &dtpb.Uuid{Value: s}, "FHIR.uuid"
		}
		return system.String(s), "String"
	}
	eval := func(src string, s string, t string, extra ...fhirpath.EvaluateOption) (system.Collection, error, bool) {
		var out system.Collection
		var err error
		recv, _ := mkRecv(s)
		opts := append([]fhirpath.EvaluateOption{evalopts.EnvVariable("s", recv), evalopts.EnvVariable("t", system.String(t))}, extra...)
		panicked, _ := protect(func() {
			var e *fhirpath.Expression
			e, err = fhirpath.Compile(src)
			if err != nil {
				return
			}
			out, err = verifhook.Evaluate(e, input, opts...)
		})
		return out, err, panicked
	}
	render := func(out system.Collection, err error, panicked bool, chars bool) string {
		switch {
		case panicked:
			return "Panic"
		case err != nil:
			return "Err"
		case chars:
			var xs []string
			valid := true
			for _, it := range out {
				sv, ok := it.(system.String)
				if !ok {
					return "(Ok OOther)"
				}
				xs = append(xs, coqUStr(string(sv)))
				valid = valid && utf8.ValidString(string(sv))
			}
			return fmt.Sprintf("(Ok (OChars %s %s))", coqList(xs), coqBool(valid))
		case len(out) == 0:
			return "(Ok OEmpty)"
		case len(out) == 1:
			switch v := out[0].(type) {
			case system.String:
				return fmt.Sprintf("(Ok (OStr %s %s))", coqUStr(string(v)), coqBool(utf8.ValidString(string(v))))
			case system.Integer:
				return "(Ok (OInt " + coqZ(int64(v)) + "))"
			case system.Boolean:
				return "(Ok (OBool " + coqBool(bool(v)) + "))"
			}
		}
		return "(Ok OOther)"
	}
	var strs []string
	strs = append(strs, "M\uFFFDller", "\uFFFD", "a\uFFFD\uFFFDb\uFFFD", "\U0010FFFFx\u0080y\u07FFz\u0800", "", "a", "é", "😀", "abc", "aé€😀", "éx", "abcabc", "aaa", "中中a中", "aaab", "éééa", "ababac", "😀😀😀é", "aabaab", "QUJD", "//4AQcMo6Q==", "AAAA", "w6k=", "8J+YgA==", "abcdabcd")
	// exhaustive over length <= 2 of a 4-symbol sub-alphabet mixing 1-, 2-, 3- and 4-byte code points
	sub := []rune{'a', 'é', '€', '😀'}
	for _, x := range sub {
		for _, y := range sub {
			strs = append(strs, string([]rune{x, y}))
		}
	}
	for i := 0; i < nStr; i++ {
		strs = append(strs, c14Rand(r, 12))
	}
	// receivers written as LITERALS (the other cases hand the receiver over as a variable): backslashes, quotes and
	// \uXXXX escapes, also an escaped backslash in front of the letters of an escape
	for _, ls := range []struct{ lit, s string }{
		{`'a\\u00e9'`, "a\\u00e9"}, {`'x\u005cn'`, "x\\n"}, {`'\\n'`, "\\n"}, {`'\\\\'`, "\\\\"}, {`'\u00e9\\u00e9'`, "é\\u00e9"}, {`'a\'b'`, "a'b"}, {`'\\'`, "\\"}, {`'\\\''`, "\\'"},
		{`'\u0041\\\u0041'`, "A\\A"}, {`'tab\\t'`, "tab\\t"}, {`'\uD83D\uDE00\\uD83D'`, "😀\\uD83D"}, {`'plain'`, "plain"}, {`'é😀'`, "é😀"},
	} {
		lq := coqUStr(ls.s)
		for _, f := range []struct {
			ctor, call string
			chars      bool
		}{{"CLength " + lq, ".length()", false}, {"CToChars " + lq, ".toChars()", true}, {"CIndexOf " + lq + " " + coqUStr("u"), ".indexOf('u')", false},
			{"CContains " + lq + " " + coqUStr("\\"), ".contains('\\\\')", false}, {"CUpper " + lq, ".upper()", false}} {
			var out system.Collection
			var err error
			panicked, _ := protect(func() {
				var e *fhirpath.Expression
				e, err = fhirpath.Compile(ls.lit + f.call)
				if err == nil {
					out, err = verifhook.Evaluate(e, input)
				}
			})
			sink.add(f.ctor+", "+render(out, err, panicked, f.chars), fmt.Sprintf("%s%s  [literal receiver, s=%q]", ls.lit, f.call, ls.s), "literal", "literal|"+ls.lit+f.call)
		}
	}
	for _, s := range strs {
		rs := []rune(s)
		n := len(rs)
		sq := coqUStr(s)
		add := func(coq, src, oc, kind string) {
			sink.add(coq+", "+oc, fmt.Sprintf("%s  [s=%q] => %s", src, s, oc), kind, kind+"|"+coq)
		}
		out, err, pan := eval("%s.length()", s, "")
		add("CLength "+sq, "%s.length()", render(out, err, pan, false), "length")
		out, err, pan = eval("%s.toChars()", s, "")
		add("CToChars "+sq, "%s.toChars()", render(out, err, pan, true), "toChars")
		out, err, pan = eval("%s.upper()", s, "")
		add("CUpper "+sq, "%s.upper()", render(out, err, pan, false), "upper")
		out, err, pan = eval("%s.lower()", s, "")
		add("CLower "+sq, "%s.lower()", render(out, err, pan, false), "lower")
		// substring: every start in [-2, n+2], every length in [-1, n+2], plus int32 boundaries
		starts := []int64{math.MinInt32, math.MaxInt32}
		for st := -2; st <= n+2; st++ {
			starts = append(starts, int64(st))
		}
		lens := []int64{math.MinInt32, math.MaxInt32, math.MaxInt32 - 1}
		for l := -1; l <= n+2; l++ {
			lens = append(lens, int64(l))
		}
		if n > 5 && cfg.tier != "thorough" { // keep quick runs small for long strings: sample
			starts = []int64{-1, 0, 1, int64(n - 1), int64(n), int64(n + 1), math.MaxInt32}
			lens = []int64{-1, 0, 1, int64(n), int64(n + 1), math.MaxInt32}
		}
		for _, st := range starts {
			o, e, p := eval("%s.substring(%a)", s, "", evalopts.EnvVariable("a", system.Integer(st)))
			add(fmt.Sprintf("CSubstring %s %s None", sq, coqZ(st)), fmt.Sprintf("%%s.substring(%d)", st), render(o, e, p, false), "substring1")
			for _, l := range lens {
				o, e, p := eval("%s.substring(%a, %b)", s, "", evalopts.EnvVariable("a", system.Integer(st)), evalopts.EnvVariable("b", system.Integer(l)))
				add(fmt.Sprintf("CSubstring %s %s (Some %s)", sq, coqZ(st), coqZ(l)), fmt.Sprintf("%%s.substring(%d, %d)", st, l), render(o, e, p, false), "substring2")
			}
		}
		// cut at every k in [0, n+2] and join with &: the string comes back (also the empty string: both parts empty)
		for k := 0; k <= n+2; k++ {
			o, e, p := eval("%s.substring(0, %a) & %s.substring(%a)", s, "", evalopts.EnvVariable("a", system.Integer(int64(k))))
			add(fmt.Sprintf("CSplit %s %s", sq, coqZ(int64(k))), fmt.Sprintf("%%s.substring(0, %d) & %%s.substring(%d)", k, k), render(o, e, p, false), "split")
		}
		// patterns: all substrings (short strings) or a sample, plus near misses
		var pats []string
		pats = append(pats, "", "a", "é", "😀", "zz", s, s+"a")
		for i := 0; i <= n; i++ {
			for j := i + 1; j <= n && j <= i+4; j++ {
				pats = append(pats, string(rs[i:j]))
				pats = append(pats, string(rs[i:j])+"x")
			}
		}
		if n > 6 && cfg.tier != "thorough" {
			pats = pats[:12]
		}
		// patterns whose first occurrence starts inside a failed partial match (a self-overlapping prefix)
		if n >= 3 {
			for i := 1; i < n && i <= 3; i++ {
				pats = append(pats, string(rs[i:]), string(rs[i:min(n, i+3)]))
			}
		}
		seen := map[string]bool{}
		for _, t := range pats {
			if seen[t] {
				continue
			}
			seen[t] = true
			tq := coqUStr(t)
			for _, f := range []struct{ ctor, fn string }{{"CIndexOf", "indexOf"}, {"CStartsWith", "startsWith"}, {"CEndsWith", "endsWith"}, {"CContains", "contains"}} {
				o, e, p := eval("%s."+f.fn+"(%t)", s, t)
				sink.add(fmt.Sprintf("%s %s %s, %s", f.ctor, sq, tq, render(o, e, p, false)), fmt.Sprintf("%%s.%s(%%t) [s=%q t=%q]", f.fn, s, t), f.fn, f.fn+"|"+s+"|"+t)
			}
			for _, rep := range []string{"", "X", "é😀"} {
				o, e, p := eval("%s.replace(%t, %r)", s, t, evalopts.EnvVariable("r", system.String(rep)))
				sink.add(fmt.Sprintf("CReplace %s %s %s, %s", sq, tq, coqUStr(rep), render(o, e, p, false)), fmt.Sprintf("%%s.replace(%%t,%%r) [s=%q t=%q r=%q]", s, t, rep), "replace", "replace|"+s+"|"+t+"|"+rep)
			}
		}
	}
	sink.finish("strings over an alphabet mixing ASCII, 2-, 3- and 4-byte code points, a combining mark and the empty string (all strings of length <= 2 over a 4-symbol sub-alphabet, fixed corner strings, seeded random strings up to length 12); every start in [-2, len+2] x every length in [-1, len+2] plus int32 boundaries; all short substrings and near misses as patterns; receivers supplied as System strings and FHIR string/markdown elements; returned strings are checked for UTF-8 validity", false)
}
