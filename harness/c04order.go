package main

// C04, order independence across a process's lifetime: the result of an evaluation may not depend on which OTHER
// evaluations the process ran before it.  Two fresh child processes evaluate the same (resource, program) pairs, one in
// the listed order and one in the reverse order; every pair must answer the same in both.  (A process-wide table filled
// by the first caller -- a memo keyed by a name two types share -- answers differently depending on who came first.)

import (
	"bytes"
	"crypto/sha256"
	"fmt"
	"os"
	"os/exec"
	"strings"
	"time"

	"github.com/verily-src/fhirpath-go/fhirpath"
	"github.com/verily-src/fhirpath-go/fhirpath/compopts"
	"google.golang.org/protobuf/proto"
	"google.golang.org/protobuf/reflect/protoreflect"
)

func init() { props["C04-order-child"] = runC04OrderChild }

var c04OrderGeneric = []string{
	"children().count()",
	"children().children().count()",
	"children().children().children().where($this is BackboneElement).count()",
	"children().children().where($this is code)",
	"children().where($this is DomainResource or $this is Element).count()",
	"descendants().count()",
}

type c04Pair struct {
	typ, prog string
	res       proto.Message
}

func c04OrderPairs(seed uint64) []c04Pair {
	g := &genState{r: &rng{s: seed + 4400}}
	var pairs []c04Pair
	for _, tn := range resourceNames() {
		res := g.resource(tn, 3)
		if res == nil {
			continue
		}
		for _, p := range c04OrderGeneric {
			pairs = append(pairs, c04Pair{tn, p, res})
		}
		// every populated top-level element, and below it every populated element (names as the FHIRPath spells them)
		m := res.ProtoReflect()
		m.Range(func(fd protoreflect.FieldDescriptor, v protoreflect.Value) bool {
			if fd.Kind() != protoreflect.MessageKind || fd.JSONName() == "text" || fd.JSONName() == "contained" {
				return true
			}
			name := fd.JSONName()
			pairs = append(pairs, c04Pair{tn, tn + "." + name, res}, c04Pair{tn, tn + "." + name + ".children().count()", res},
				c04Pair{tn, tn + "." + name + ".where($this is BackboneElement).count()", res})
			return true
		})
	}
	return pairs
}

func runC04OrderChild(cfg config) {
	fixed := time.Date(2024, 2, 29, 13, 14, 15, 678000000, time.FixedZone("x", 5*3600+30*60))
	pairs := c04OrderPairs(cfg.seed)
	order := make([]int, len(pairs))
	for i := range order {
		order[i] = i
	}
	if os.Getenv("VERIF_ORDER") == "rev" {
		for i, j := 0, len(order)-1; i < j; i, j = i+1, j-1 {
			order[i], order[j] = order[j], order[i]
		}
	}
	for _, i := range order {
		p := pairs[i]
		out := "compile-error"
		if e, err := fhirpath.Compile(p.prog, compopts.WithExperimentalFuncs()); err == nil {
			out = c04Evaluate(e, p.res, fixed)
		}
		fmt.Printf("ORDER\t%d\t%x\t%s\n", i, sha256.Sum256([]byte(out)), strings.SplitN(out, ":", 2)[0])
	}
}

// c04OrderStage runs the two children and adds one case per pair.
func c04OrderStage(cfg config, sink *caseSink) {
	self, _ := os.Executable()
	run := func(order string) (map[int][2]string, bool) {
		cmd := exec.Command(self, "C04-order-child", "-seed", fmt.Sprint(cfg.seed), "-tier", cfg.tier, "-out", cfg.out+"-order")
		cmd.Env = append(os.Environ(), "VERIF_ORDER="+order)
		var stdout, stderr bytes.Buffer
		cmd.Stdout, cmd.Stderr = &stdout, &stderr
		err := cmd.Run()
		os.RemoveAll(cfg.out + "-order")
		res := map[int][2]string{}
		for _, line := range strings.Split(stdout.String(), "\n") {
			parts := strings.Split(line, "\t")
			if len(parts) == 4 && parts[0] == "ORDER" {
				var i int
				fmt.Sscanf(parts[1], "%d", &i)
				res[i] = [2]string{parts[2], parts[3]}
			}
		}
		return res, err == nil
	}
	fwd, ok1 := run("fwd")
	rev, ok2 := run("rev")
	pairs := c04OrderPairs(cfg.seed)
	errors := 0
	for i, p := range pairs {
		a, okA := fwd[i]
		b, okB := rev[i]
		same := okA && okB && a == b
		if a[1] == "error" {
			errors++
		}
		sink.add(fmt.Sprintf("CRun %s, ORun %s true true %s", coqN(uint64(200000+i)), coqBool(same), coqBool(okA && okB)),
			fmt.Sprintf("order independence: %s on a generated %s: evaluated in a fresh process after the pairs before it => %s (%s) ; in a fresh process after the pairs behind it => %s (%s)", p.prog, p.typ, a[1], a[0][:min(12, len(a[0]))], b[1], b[0][:min(12, len(b[0]))]),
			"run-order", fmt.Sprintf("run-order:%d", i%400))
	}
	sink.extra["order_stage_pairs"] = len(pairs)
	sink.extra["order_stage_children_ok"] = ok1 && ok2
	sink.extra["order_stage_pairs_answering_error"] = errors
}
