package main

import (
	"encoding/base64"
	"fmt"
	"strings"
	"time"

	dtpb "github.com/google/fhir/go/proto/google/fhir/proto/r4/core/datatypes_go_proto"
	"github.com/verily-src/fhirpath-go/fhirpath"
	"github.com/verily-src/fhirpath-go/fhirpath/evalopts"
	"github.com/verily-src/fhirpath-go/fhirpath/system"
	"github.com/verily-src/fhirpath-go/fhirpath/verifhook"
	"google.golang.org/protobuf/proto"
)

func init() { props["C05"] = runC05 }

// c05Val: one pool value: Coq rendering, and either a literal source or an environment value.
type c05Val struct {
	coq  string
	lit  string // FHIRPath source, when expressible as a literal
	env  any    // otherwise bound to an environment variable
	kind string
}

func (v c05Val) ref(name string) string {
	if v.env != nil {
		return "%" + name
	}
	return v.lit
}

func zlist(xs ...int64) string {
	var s []string
	for _, x := range xs {
		s = append(s, coqZ(x))
	}
	return coqList(s)
}

// dateTime builds a DateTime literal of the given precision (0=year .. 5=second, 6=millisecond) and offset.
func c05DateTime(y, mo, d, h, mi, s, ms int, prec int, off string) c05Val {
	loc := time.UTC
	offText := ""
	switch off {
	case "Z":
		offText = "Z"
	case "":
	default:
		sign := 1
		if off[0] == '-' {
			sign = -1
		}
		var hh, mm int
		fmt.Sscanf(off[1:], "%d:%d", &hh, &mm)
		loc = time.FixedZone(off, sign*(hh*3600+mm*60))
		offText = off
	}
	var lit string
	comps := []int64{}
	switch prec {
	case 0:
		lit = fmt.Sprintf("@%04dT", y)
	case 1:
		lit = fmt.Sprintf("@%04d-%02dT", y, mo)
	case 2:
		lit = fmt.Sprintf("@%04d-%02d-%02dT", y, mo, d)
	case 3:
		lit = fmt.Sprintf("@%04d-%02d-%02dT%02d%s", y, mo, d, h, offText)
	case 4:
		lit = fmt.Sprintf("@%04d-%02d-%02dT%02d:%02d%s", y, mo, d, h, mi, offText)
	case 5:
		lit = fmt.Sprintf("@%04d-%02d-%02dT%02d:%02d:%02d%s", y, mo, d, h, mi, s, offText)
	default:
		lit = fmt.Sprintf("@%04d-%02d-%02dT%02d:%02d:%02d.%03d%s", y, mo, d, h, mi, s, ms, offText)
	}
	if prec < 1 {
		mo = 1
	}
	if prec < 2 {
		d = 1
	}
	if prec < 3 {
		h = 0
	}
	if prec < 4 {
		mi = 0
	}
	if prec < 5 {
		s = 0
	}
	if prec < 6 {
		ms = 0
	}
	t := time.Date(y, time.Month(mo), d, h, mi, s, ms*1000000, loc).UTC()
	all := []int64{int64(t.Year()), int64(t.Month()), int64(t.Day()), int64(t.Hour()), int64(t.Minute()), int64(t.Second())*1000000000 + int64(t.Nanosecond())}
	n := prec + 1
	if n > 6 {
		n = 6
	}
	comps = all[:n]
	return c05Val{coq: "VDateTime " + zlist(comps...), lit: lit, kind: fmt.Sprintf("DateTime/p%d/%s", prec, off)}
}

func c05Date(y, mo, d, prec int) c05Val {
	switch prec {
	case 0:
		return c05Val{coq: "VDate " + zlist(int64(y)), lit: fmt.Sprintf("@%04d", y), kind: "Date/year"}
	case 1:
		return c05Val{coq: "VDate " + zlist(int64(y), int64(mo)), lit: fmt.Sprintf("@%04d-%02d", y, mo), kind: "Date/month"}
	}
	return c05Val{coq: "VDate " + zlist(int64(y), int64(mo), int64(d)), lit: fmt.Sprintf("@%04d-%02d-%02d", y, mo, d), kind: "Date/day"}
}

func c05Time(h, mi, s, ms, prec int) c05Val {
	switch prec {
	case 0:
		return c05Val{coq: "VTime " + zlist(int64(h)), lit: fmt.Sprintf("@T%02d", h), kind: "Time/hour"}
	case 1:
		return c05Val{coq: "VTime " + zlist(int64(h), int64(mi)), lit: fmt.Sprintf("@T%02d:%02d", h, mi), kind: "Time/minute"}
	case 2:
		return c05Val{coq: "VTime " + zlist(int64(h), int64(mi), int64(s)*1000000000), lit: fmt.Sprintf("@T%02d:%02d:%02d", h, mi, s), kind: "Time/second"}
	}
	return c05Val{coq: "VTime " + zlist(int64(h), int64(mi), int64(s)*1000000000+int64(ms)*1000000), lit: fmt.Sprintf("@T%02d:%02d:%02d.%03d", h, mi, s, ms), kind: "Time/ms"}
}

func c05Str(s string, fhirKind int) c05Val {
	v := c05Val{coq: "VStr " + coqUStr(s), kind: "String"}
	switch fhirKind {
	case 0:
		if !strings.ContainsAny(s, "'\\") {
			v.lit = "'" + s + "'"
		} else {
			v.env = system.String(s)
		}
	case 1:
		v.env, v.kind = &dtpb.String{Value: s}, "FHIR.string"
	case 2:
		v.env, v.kind = &dtpb.Code{Value: s}, "FHIR.code"
	case 3:
		v.env, v.kind = &dtpb.Uri{Value: s}, "FHIR.uri"
	case 4: // s must be the canonical base64 text of some bytes
		raw, _ := base64.StdEncoding.DecodeString(s)
		v.env, v.kind = &dtpb.Base64Binary{Value: raw}, "FHIR.base64Binary"
	}
	return v
}

func c05Pool(unitIDs map[string]uint64) []c05Val {
	unit := func(u string) uint64 {
		if _, ok := unitIDs[u]; !ok {
			unitIDs[u] = uint64(len(unitIDs) + 1)
		}
		return unitIDs[u]
	}
	var p []c05Val
	add := func(v ...c05Val) { p = append(p, v...) }
	add(c05Val{coq: "VBool true", lit: "true", kind: "Boolean"}, c05Val{coq: "VBool false", lit: "false", kind: "Boolean"},
		c05Val{coq: "VBool true", env: &dtpb.Boolean{Value: true}, kind: "FHIR.boolean"})
	for i, s := range []string{"", "a", "b", "ab", "B", "é", "z", "€", "😀", "a😀"} {
		add(c05Str(s, 0))
		if i%3 == 0 {
			add(c05Str(s, 1+i%3), c05Str(s, 2))
		}
	}
	add(c05Str("+//+", 4), c05Str("+//+", 0), c05Str("-__-", 0), c05Str("AD4//w==", 4), c05Str("AD4__w==", 0), c05Str(",", 0), c05Str("aGk=", 4))
	for _, i := range []int32{0, 1, -1, 2, 10, 2147483647, -2147483648} {
		o := intOperand(i, "literal")
		add(c05Val{coq: "VInt " + coqZ(int64(i)), lit: o.lit, kind: "Integer"})
	}
	add(c05Val{coq: "VInt 1%Z", env: &dtpb.Integer{Value: 1}, kind: "FHIR.integer"}, c05Val{coq: "VInt 2%Z", env: &dtpb.PositiveInt{Value: 2}, kind: "FHIR.positiveInt"},
		c05Val{coq: "VInt 0%Z", env: &dtpb.UnsignedInt{Value: 0}, kind: "FHIR.unsignedInt"})
	for _, d := range []string{"1.0", "1.00", "0.0", "-1.0", "1.5", "2.0", "10.00", "0.1", "0.10", "2147483647.5", "-0.5", "1.000000000000000000001"} {
		o := decOperand(d, "literal")
		add(c05Val{coq: strings.Replace(o.coq, "NDec", "VDec", 1), lit: o.lit, kind: "Decimal"})
	}
	add(c05Val{coq: "VDec 150%Z (-2)%Z", env: &dtpb.Decimal{Value: "1.50"}, kind: "FHIR.decimal"})
	// magnitudes whose exponents lie far apart (more than 64 digits), of both signs: ordering is by exact value however
	// the operands are scaled
	tiny := "0." + strings.Repeat("0", 69) + "1"
	huge := "1" + strings.Repeat("0", 70) + ".0"
	for _, d := range []string{tiny, "-" + tiny, huge, "-" + huge, "-0.0000000001"} {
		o := decOperand(d, "literal")
		add(c05Val{coq: strings.Replace(o.coq, "NDec", "VDec", 1), lit: o.lit, kind: "Decimal"})
	}
	add(c05Val{coq: "VDec (-1)%Z (-70)%Z", env: &dtpb.Decimal{Value: "-1e-70"}, kind: "FHIR.decimal"},
		c05Val{coq: "VDec (-3)%Z (-80)%Z", env: &dtpb.Decimal{Value: "-3E-80"}, kind: "FHIR.decimal"})
	// dates
	add(c05Date(2020, 1, 1, 0), c05Date(2020, 1, 1, 1), c05Date(2020, 1, 1, 2), c05Date(2020, 1, 2, 2), c05Date(2020, 2, 1, 1), c05Date(2021, 1, 1, 0), c05Date(2019, 12, 31, 2))
	add(c05Val{coq: "VDate " + zlist(2020, 1, 1), env: &dtpb.Date{ValueUs: 1577836800000000, Precision: dtpb.Date_DAY, Timezone: "UTC"}, kind: "FHIR.date"},
		c05Val{coq: "VDate " + zlist(2020, 1), env: &dtpb.Date{ValueUs: 1577836800000000, Precision: dtpb.Date_MONTH, Timezone: "UTC"}, kind: "FHIR.date"})
	// date elements whose zone is not UTC (the JSON parser stores dates in its default zone): the same calendar day
	add(c05Val{coq: "VDate " + zlist(2020, 1, 1), env: &dtpb.Date{ValueUs: 1577817000000000, Precision: dtpb.Date_DAY, Timezone: "+05:30"}, kind: "FHIR.date/+05:30"},
		c05Val{coq: "VDate " + zlist(2020, 1, 1), env: &dtpb.Date{ValueUs: 1577876400000000, Precision: dtpb.Date_DAY, Timezone: "-11:00"}, kind: "FHIR.date/-11:00"},
		c05Val{coq: "VDate " + zlist(2020, 1), env: &dtpb.Date{ValueUs: 1577817000000000, Precision: dtpb.Date_MONTH, Timezone: "+05:30"}, kind: "FHIR.date/+05:30"},
		c05Val{coq: "VDate " + zlist(2020), env: &dtpb.Date{ValueUs: 1577876400000000, Precision: dtpb.Date_YEAR, Timezone: "-11:00"}, kind: "FHIR.date/-11:00"},
		c05Val{coq: "VDateTime " + zlist(2020, 1, 1), env: &dtpb.DateTime{ValueUs: 1577817000000000, Precision: dtpb.DateTime_DAY, Timezone: "+05:30"}, kind: "FHIR.dateTime/day+05:30"},
		c05Val{coq: "VDateTime " + zlist(2020, 1), env: &dtpb.DateTime{ValueUs: 1577876400000000, Precision: dtpb.DateTime_MONTH, Timezone: "-11:00"}, kind: "FHIR.dateTime/month-11:00"})
	// date elements built from an instant (fhir.Date(t) with the precision lowered): what lies below the precision is
	// not part of the value -- 2020-01-17T13:45Z as a day, a month, a year
	add(c05Val{coq: "VDate " + zlist(2020, 1, 17), env: &dtpb.Date{ValueUs: 1579268700000000, Precision: dtpb.Date_DAY, Timezone: "Z"}, kind: "FHIR.date/hidden"},
		c05Val{coq: "VDate " + zlist(2020, 1), env: &dtpb.Date{ValueUs: 1579268700000000, Precision: dtpb.Date_MONTH, Timezone: "UTC"}, kind: "FHIR.date/hidden"},
		c05Val{coq: "VDate " + zlist(2020), env: &dtpb.Date{ValueUs: 1579268700000000, Precision: dtpb.Date_YEAR, Timezone: "+05:30"}, kind: "FHIR.date/hidden"},
		c05Val{coq: "VDateTime " + zlist(2020, 1), env: &dtpb.DateTime{ValueUs: 1579268700000000, Precision: dtpb.DateTime_MONTH, Timezone: "Z"}, kind: "FHIR.dateTime/hidden"},
		c05Val{coq: "VDateTime " + zlist(2020), env: &dtpb.DateTime{ValueUs: 1579268700000000, Precision: dtpb.DateTime_YEAR, Timezone: "-11:00"}, kind: "FHIR.dateTime/hidden"},
		c05Val{coq: "VDateTime " + zlist(2020, 1, 17), env: &dtpb.DateTime{ValueUs: 1579268700000000, Precision: dtpb.DateTime_DAY, Timezone: "Z"}, kind: "FHIR.dateTime/hidden"})
	// dateTimes: every precision x offsets
	for prec := 0; prec <= 6; prec++ {
		offs := []string{""}
		if prec >= 3 {
			offs = []string{"", "Z", "+05:30", "-11:00"}
		}
		for _, off := range offs {
			add(c05DateTime(2020, 1, 1, 10, 30, 15, 250, prec, off))
		}
	}
	// hour and minute precision under offsets that are not whole hours: the same UTC hour / minute reached differently
	add(c05DateTime(2012, 1, 1, 10, 0, 0, 0, 3, "+00:30"), c05DateTime(2012, 1, 1, 9, 0, 0, 0, 3, "Z"), c05DateTime(2012, 1, 1, 15, 0, 0, 0, 3, "+05:45"), c05DateTime(2012, 1, 1, 9, 0, 0, 0, 3, "+00:00"),
		c05DateTime(2012, 1, 1, 8, 0, 0, 0, 3, "-01:30"))
	add(c05DateTime(2020, 1, 2, 0, 30, 0, 0, 5, "+05:30"), c05DateTime(2020, 1, 1, 5, 0, 15, 250, 6, "Z"), c05DateTime(2019, 12, 31, 23, 30, 15, 0, 5, "-11:00"),
		c05DateTime(2020, 1, 1, 10, 30, 15, 0, 5, ""), c05DateTime(2020, 1, 1, 10, 30, 16, 0, 5, ""), c05DateTime(2020, 1, 1, 11, 0, 0, 0, 3, ""), c05DateTime(2021, 6, 15, 0, 0, 0, 0, 1, ""))
	add(c05Val{coq: "VDateTime " + zlist(2020, 1, 1, 10, 30, 15000000000), env: &dtpb.DateTime{ValueUs: 1577874615000000, Precision: dtpb.DateTime_SECOND, Timezone: "+02:00"}, kind: "FHIR.dateTime"},
		c05Val{coq: "VDateTime " + zlist(2020, 1, 1), env: &dtpb.DateTime{ValueUs: 1577836800000000, Precision: dtpb.DateTime_DAY, Timezone: "UTC"}, kind: "FHIR.dateTime"})
	// times
	add(c05Time(10, 30, 15, 250, 0), c05Time(10, 30, 15, 250, 1), c05Time(10, 30, 15, 250, 2), c05Time(10, 30, 15, 250, 3), c05Time(10, 30, 15, 0, 3), c05Time(10, 31, 0, 0, 1), c05Time(11, 0, 0, 0, 0), c05Time(9, 59, 59, 999, 3))
	// time, dateTime and instant ELEMENTS at second, millisecond and microsecond precision (a literal cannot carry microseconds)
	tm := func(h, mi, sec, us int64, pr dtpb.Time_Precision) *dtpb.Time {
		return &dtpb.Time{ValueUs: ((h*60+mi)*60+sec)*1000000 + us, Precision: pr}
	}
	add(c05Val{coq: "VTime " + zlist(10, 30, 15000000000), env: tm(10, 30, 15, 0, dtpb.Time_SECOND), kind: "FHIR.time/s"},
		c05Val{coq: "VTime " + zlist(10, 30, 15250000000), env: tm(10, 30, 15, 250000, dtpb.Time_MILLISECOND), kind: "FHIR.time/ms"},
		c05Val{coq: "VTime " + zlist(10, 30, 15250400000), env: tm(10, 30, 15, 250400, dtpb.Time_MICROSECOND), kind: "FHIR.time/us"},
		c05Val{coq: "VTime " + zlist(10, 30, 15000400000), env: tm(10, 30, 15, 400, dtpb.Time_MICROSECOND), kind: "FHIR.time/us"},
		c05Val{coq: "VTime " + zlist(10, 30, 15000000000), env: tm(10, 30, 15, 0, dtpb.Time_MILLISECOND), kind: "FHIR.time/ms"})
	const base = 1577874615000000 // 2020-01-01T10:30:15Z
	add(c05Val{coq: "VDateTime " + zlist(2020, 1, 1, 10, 30, 15000400000), env: &dtpb.DateTime{ValueUs: base + 400, Precision: dtpb.DateTime_MICROSECOND, Timezone: "Z"}, kind: "FHIR.dateTime/us"},
		c05Val{coq: "VDateTime " + zlist(2020, 1, 1, 10, 30, 15250400000), env: &dtpb.DateTime{ValueUs: base + 250400, Precision: dtpb.DateTime_MICROSECOND, Timezone: "+05:30"}, kind: "FHIR.dateTime/us"},
		c05Val{coq: "VDateTime " + zlist(2020, 1, 1, 10, 30, 15250000000), env: &dtpb.DateTime{ValueUs: base + 250000, Precision: dtpb.DateTime_MILLISECOND, Timezone: "-11:00"}, kind: "FHIR.dateTime/ms"},
		c05Val{coq: "VDateTime " + zlist(2020, 1, 1, 10, 30, 15000000000), env: &dtpb.Instant{ValueUs: base, Precision: dtpb.Instant_SECOND, Timezone: "Z"}, kind: "FHIR.instant/s"},
		c05Val{coq: "VDateTime " + zlist(2020, 1, 1, 10, 30, 15250000000), env: &dtpb.Instant{ValueUs: base + 250000, Precision: dtpb.Instant_MILLISECOND, Timezone: "+05:30"}, kind: "FHIR.instant/ms"},
		c05Val{coq: "VDateTime " + zlist(2020, 1, 1, 10, 30, 15000400000), env: &dtpb.Instant{ValueUs: base + 400, Precision: dtpb.Instant_MICROSECOND, Timezone: "Z"}, kind: "FHIR.instant/us"})
	// quantities
	for _, q := range []struct{ num, unit string }{{"1", "mg"}, {"1.0", "mg"}, {"2", "mg"}, {"1", "kg"}, {"1", "1"}, {"5", "day"}, {"5", "days"}, {"0.5", "mg"}, {"1", "hour"}, {"2", "hours"}, {"60", "minutes"}, {"90", "minutes"}, {"3600", "seconds"}, {"1.5", "hours"}, {"1", "minute"}, {"60000", "milliseconds"}, {"1", "week"}, {"7", "days"}, {"1", "year"}, {"12", "months"}} {
		o := decOperand(q.num, "sysvar")
		if !strings.Contains(q.num, ".") {
			o = decOperand(q.num+".", "sysvar")
			o.coq = "NDec " + coqZs(q.num) + " 0%Z"
		}
		lit := q.num + " '" + q.unit + "'"
		if calendarUnit[q.unit] {
			lit = q.num + " " + q.unit
		}
		add(c05Val{coq: strings.Replace(o.coq, "NDec", "VQty", 1) + " " + coqN(unit(q.unit)), lit: lit, kind: "Quantity"})
	}
	add(c05Val{coq: "VQty 15%Z (-1)%Z " + coqN(unit("mg")), env: &dtpb.Quantity{Value: &dtpb.Decimal{Value: "1.5"}, Code: &dtpb.Code{Value: "mg"}}, kind: "FHIR.Quantity"})
	// complex elements
	add(c05Val{coq: "VComplex 1%N", env: &dtpb.HumanName{Family: fstr("Doe")}, kind: "complex"},
		c05Val{coq: "VComplex 1%N", env: &dtpb.HumanName{Family: fstr("Doe")}, kind: "complex"},
		c05Val{coq: "VComplex 2%N", env: &dtpb.HumanName{Family: fstr("Roe")}, kind: "complex"},
		c05Val{coq: "VComplex 3%N", env: &dtpb.Period{}, kind: "complex"})
	return p
}

func c05Outcome(out system.Collection, err error, panicked bool) string {
	switch {
	case panicked:
		return "Panic"
	case err != nil:
		return "Err"
	case len(out) == 0:
		return "(Ok None)"
	case len(out) == 1:
		if b, ok := out[0].(system.Boolean); ok {
			return "(Ok (Some " + coqBool(bool(b)) + "))"
		}
	}
	return "Panic" // not a Boolean: no model outcome matches
}

func runC05(cfg config) {
	sink := newSink(cfg.out, "C05", "C08.Model C05.Model", "N * case * ores", "judge", 500)
	r := &rng{s: cfg.seed*0x9e3779b97f4a7c15 + 5}
	input := []proto.Message{basePatient()}
	pool := c05Pool(map[string]uint64{"1": 1}) // unit id 1 is reserved for the unit '1'
	ops := []struct{ src, coq string }{{"=", "OpEq"}, {"!=", "OpNe"}, {"<", "OpLt"}, {"<=", "OpLe"}, {">", "OpGt"}, {">=", "OpGe"}}
	run := func(lsrc, rsrc string, opts []fhirpath.EvaluateOption, op struct{ src, coq string }) (string, string) {
		src := lsrc + " " + op.src + " " + rsrc
		var out system.Collection
		var err error
		panicked, _ := protect(func() {
			var e *fhirpath.Expression
			e, err = fhirpath.Compile(src)
			if err != nil {
				return
			}
			out, err = verifhook.Evaluate(e, input, opts...)
		})
		return src, c05Outcome(out, err, panicked)
	}
	// (1) all ordered pairs of the pool x 6 operators (thorough) / x a rotating pair of operators (quick keeps every pair)
	for i, a := range pool {
		for j, b := range pool {
			var opts []fhirpath.EvaluateOption
			if a.env != nil {
				opts = append(opts, evalopts.EnvVariable("a", a.env))
			}
			if b.env != nil {
				opts = append(opts, evalopts.EnvVariable("b", b.env))
			}
			for k, op := range ops {
				if cfg.tier != "thorough" && k != (i+j)%6 && k != (i+2*j+3)%6 && !(k == 0 && a.kind[:2] == b.kind[:2]) {
					continue
				}
				src, oc := run(a.ref("a"), b.ref("b"), opts, op)
				sink.add(fmt.Sprintf("(%s, [%s], [%s]), %s", op.coq, a.coq, b.coq, oc), fmt.Sprintf("%s  [a=%s b=%s] => %s", src, a.kind, b.kind, oc), op.coq+"/"+oc, op.coq+"|"+a.coq+"|"+b.coq)
			}
		}
	}
	// (2) empty operands
	for _, a := range pool[:12] {
		for _, op := range ops {
			var opts []fhirpath.EvaluateOption
			if a.env != nil {
				opts = append(opts, evalopts.EnvVariable("a", a.env))
			}
			src, oc := run(a.ref("a"), "{}", opts, op)
			sink.add(fmt.Sprintf("(%s, [%s], []), %s", op.coq, a.coq, oc), src+" => "+oc, "empty-operand", "")
			src, oc = run("{}", a.ref("a"), opts, op)
			sink.add(fmt.Sprintf("(%s, [], [%s]), %s", op.coq, a.coq, oc), src+" => "+oc, "empty-operand", "")
		}
	}
	// (3) collections of length 0..4 that differ at each position (and collections of unequal length)
	nColl := 400
	if cfg.tier == "thorough" {
		nColl = 6000
	}
	for n := 0; n < nColl; n++ {
		ln := 1 + r.intn(4)
		var l, rr []any
		var lc, rc []string
		toAny := func(v c05Val) any {
			if v.env != nil {
				return v.env
			}
			// literal-only values: evaluate the literal to obtain the System value
			e, err := fhirpath.Compile(v.lit)
			if err != nil {
				return nil
			}
			out, err := verifhook.Evaluate(e, input)
			if err != nil || len(out) != 1 {
				return nil
			}
			return out[0]
		}
		for k := 0; k < ln; k++ {
			v := pick(r, pool)
			x := toAny(v)
			if x == nil {
				continue
			}
			l = append(l, x)
			lc = append(lc, v.coq)
			rr = append(rr, x)
			rc = append(rc, v.coq)
		}
		if len(l) == 0 {
			continue
		}
		switch r.intn(4) {
		case 0: // identical
		case 1: // differ at one position
			pos := r.intn(len(rr))
			v := pick(r, pool)
			if x := toAny(v); x != nil {
				rr[pos], rc[pos] = x, v.coq
			}
		case 2: // different length
			rr, rc = rr[:len(rr)-1], rc[:len(rc)-1]
		case 3: // differ at the last position only (after equal complex / primitive prefixes)
			v := pick(r, pool)
			if x := toAny(v); x != nil {
				rr[len(rr)-1], rc[len(rc)-1] = x, v.coq
			}
		}
		opts := []fhirpath.EvaluateOption{evalopts.EnvVariable("l", system.Collection(l)), evalopts.EnvVariable("r", system.Collection(rr))}
		for _, op := range ops[:3] {
			src, oc := run("%l", "%r", opts, op)
			sink.add(fmt.Sprintf("(%s, %s, %s), %s", op.coq, coqList(lc), coqList(rc), oc), fmt.Sprintf("%s [|l|=%d |r|=%d] => %s", src, len(l), len(rr), oc), "collections/"+op.coq, fmt.Sprintf("coll|%s|%v|%v", op.coq, lc, rc))
		}
	}
	sink.finish("all ordered pairs of a value pool (Boolean, String incl. non-ASCII, Integer boundaries, Decimal scale variants, every Date/DateTime/Time precision x {no offset, Z, +05:30, -11:00}, Quantities with equal/different/calendar units, FHIR primitive elements of every kind, complex elements) x operators (quick: every pair with at least two operators, same-kind pairs always with `=`; thorough: all six), empty operands, and collections of length 1..4 equal / differing at one position / at the last position / in length; temporal components are computed by the harness with Go's time package, independently of the library", false)
}

var calendarUnit = map[string]bool{"day": true, "days": true, "hour": true, "hours": true, "minute": true, "minutes": true, "second": true, "seconds": true, "millisecond": true, "milliseconds": true,
	"week": true, "weeks": true, "month": true, "months": true, "year": true, "years": true}
