package main

import (
	dtpb "github.com/google/fhir/go/proto/google/fhir/proto/r4/core/datatypes_go_proto"
	cpb "github.com/google/fhir/go/proto/google/fhir/proto/r4/core/codes_go_proto"
	ppb "github.com/google/fhir/go/proto/google/fhir/proto/r4/core/resources/patient_go_proto"
)

func fstr(s string) *dtpb.String { return &dtpb.String{Value: s} }

// basePatient is the fixed resource the single-operator programs run against.
//   active = true, deceasedBoolean = false, gender = male, birthDate 2000-02-29,
//   two names with given [Ann, Bea] and [Cy], two communications preferred [true,false],
//   multipleBirthInteger = 2.
func basePatient() *ppb.Patient {
	return &ppb.Patient{
		Id:     &dtpb.Id{Value: "p1"},
		Active: &dtpb.Boolean{Value: true},
		Gender: &ppb.Patient_GenderCode{Value: cpb.AdministrativeGenderCode_MALE},
		BirthDate: &dtpb.Date{ValueUs: 951782400000000, Precision: dtpb.Date_DAY, Timezone: "UTC"},
		Deceased: &ppb.Patient_DeceasedX{Choice: &ppb.Patient_DeceasedX_Boolean{Boolean: &dtpb.Boolean{Value: false}}},
		MultipleBirth: &ppb.Patient_MultipleBirthX{Choice: &ppb.Patient_MultipleBirthX_Integer{Integer: &dtpb.Integer{Value: 2}}},
		Name: []*dtpb.HumanName{
			{Family: fstr("Doe"), Given: []*dtpb.String{fstr("Ann"), fstr("Bea")}},
			{Family: fstr("Roe"), Given: []*dtpb.String{fstr("Cy")}},
		},
		Communication: []*ppb.Patient_Communication{
			{Preferred: &dtpb.Boolean{Value: true}, Language: &dtpb.CodeableConcept{Text: fstr("en")}},
			{Preferred: &dtpb.Boolean{Value: false}, Language: &dtpb.CodeableConcept{Text: fstr("fr")}},
		},
	}
}
