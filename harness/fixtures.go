package main

import (
	dtpb "github.com/google/fhir/go/proto/google/fhir/proto/r4/core/datatypes_go_proto"
	cpb "github.com/google/fhir/go/proto/google/fhir/proto/r4/core/codes_go_proto"
	opb "github.com/google/fhir/go/proto/google/fhir/proto/r4/core/resources/observation_go_proto"
	ppb "github.com/google/fhir/go/proto/google/fhir/proto/r4/core/resources/patient_go_proto"
)

func fstr(s string) *dtpb.String { return &dtpb.String{Value: s} }

// basePatient is the fixed resource the single-operator programs run against.
//   active = true, deceasedBoolean = false, gender = male, birthDate 2000-02-29,
//   two names with given [Ann, Bea] and [Cy], two communications preferred [true,false],
//   multipleBirthInteger = 2.
func basePatient() *ppb.Patient {
	return &ppb.Patient{
		Id:     &dtpb.Id{Value: "p1"},
		Active: &dtpb.Boolean{Value: true},
		Gender: &ppb.Patient_GenderCode{Value: cpb.AdministrativeGenderCode_MALE},
		BirthDate: &dtpb.Date{ValueUs: 951782400000000, Precision: dtpb.Date_DAY, Timezone: "UTC"},
		Deceased: &ppb.Patient_DeceasedX{Choice: &ppb.Patient_DeceasedX_Boolean{Boolean: &dtpb.Boolean{Value: false}}},
		MultipleBirth: &ppb.Patient_MultipleBirthX{Choice: &ppb.Patient_MultipleBirthX_Integer{Integer: &dtpb.Integer{Value: 2}}},
		Name: []*dtpb.HumanName{
			{Family: fstr("Doe"), Given: []*dtpb.String{fstr("Ann"), fstr("Bea")}},
			{Family: fstr("Roe"), Given: []*dtpb.String{fstr("Cy")}},
		},
		Communication: []*ppb.Patient_Communication{
			{Preferred: &dtpb.Boolean{Value: true}, Language: &dtpb.CodeableConcept{Text: fstr("en")}},
			{Preferred: &dtpb.Boolean{Value: false}, Language: &dtpb.CodeableConcept{Text: fstr("fr")}},
		},
	}
}

// temporalObservation carries one element of every temporal type: valueTime 14:30:15.250, component valueTime
// 00:00:01 / 23:59:59 / 12:00, effectiveDateTime 2024-03-10T01:30:00+05:30, issued 2024-03-09T20:00:00.123Z.
// dstObservation: effective and issued are written with the offset Newfoundland uses in winter, one day before its
// clocks change (2020-03-08).
func dstObservation() *opb.Observation {
	o := temporalObservation()
	o.Effective = &opb.Observation_EffectiveX{Choice: &opb.Observation_EffectiveX_DateTime{DateTime: &dtpb.DateTime{ValueUs: 1583595000000000, Timezone: "-03:30", Precision: dtpb.DateTime_SECOND}}}
	o.Issued = &dtpb.Instant{ValueUs: 1583595000000000, Timezone: "-03:30", Precision: dtpb.Instant_SECOND}
	return o
}

func temporalObservation() *opb.Observation {
	tm := func(h, m, s, ms int64, p dtpb.Time_Precision) *dtpb.Time {
		return &dtpb.Time{ValueUs: ((h*60+m)*60+s)*1e6 + ms*1000, Precision: p}
	}
	comp := func(t *dtpb.Time) *opb.Observation_Component {
		return &opb.Observation_Component{Code: &dtpb.CodeableConcept{Text: fstr("c")}, Value: &opb.Observation_Component_ValueX{Choice: &opb.Observation_Component_ValueX_Time{Time: t}}}
	}
	return &opb.Observation{
		Id:        &dtpb.Id{Value: "o1"},
		Code:      &dtpb.CodeableConcept{Text: fstr("t")},
		Value:     &opb.Observation_ValueX{Choice: &opb.Observation_ValueX_Time{Time: tm(14, 30, 15, 250, dtpb.Time_MILLISECOND)}},
		Component: []*opb.Observation_Component{comp(tm(0, 0, 1, 0, dtpb.Time_SECOND)), comp(tm(23, 59, 59, 0, dtpb.Time_SECOND)), comp(tm(12, 0, 0, 0, dtpb.Time_MICROSECOND))},
		Effective: &opb.Observation_EffectiveX{Choice: &opb.Observation_EffectiveX_DateTime{DateTime: &dtpb.DateTime{ValueUs: 1710014400000000, Timezone: "+05:30", Precision: dtpb.DateTime_SECOND}}},
		Issued:    &dtpb.Instant{ValueUs: 1710014400123000, Timezone: "Z", Precision: dtpb.Instant_MILLISECOND},
	}
}
