package main

import (
	"fmt"
	"math"
	"strings"

	dtpb "github.com/google/fhir/go/proto/google/fhir/proto/r4/core/datatypes_go_proto"
	"github.com/verily-src/fhirpath-go/fhirpath"
	"github.com/verily-src/fhirpath-go/fhirpath/evalopts"
	"github.com/verily-src/fhirpath-go/fhirpath/system"
	"github.com/verily-src/fhirpath-go/fhirpath/verifhook"
	"google.golang.org/protobuf/proto"
)

func init() { props["C08"] = runC08 }

// numOperand: a numeric operand, its Coq rendering and the ways it can be supplied.
type numOperand struct {
	coq    string // NInt z | NDec coef expn
	isInt  bool
	i      int32
	dec    string // canonical decimal text (for decimals)
	source string // sysvar | fhirvar | literal
	kind   string
	value  any    // what the env variable is bound to (nil for literal)
	lit    string // source text for a literal operand
}

// decToCoq renders the text of a decimal ("-12.340") as NDec coef expn.
func decToCoq(s string) string {
	neg := strings.HasPrefix(s, "-")
	t := strings.TrimPrefix(strings.TrimPrefix(s, "-"), "+")
	exp := 0
	if i := strings.IndexByte(t, '.'); i >= 0 {
		exp = -(len(t) - i - 1)
		t = t[:i] + t[i+1:]
	}
	t = strings.TrimLeft(t, "0")
	if t == "" {
		t = "0"
	}
	if neg && t != "0" {
		t = "-" + t
	}
	return fmt.Sprintf("NDec %s %s", coqZs(t), coqZ(int64(exp)))
}

func intOperand(v int32, source string) numOperand {
	o := numOperand{coq: "NInt " + coqZ(int64(v)), isInt: true, i: v, source: source}
	switch source {
	case "sysvar":
		o.value, o.kind = system.Integer(v), "Integer"
	case "fhirInteger":
		o.value, o.kind = &dtpb.Integer{Value: v}, "FHIR.integer"
	case "fhirPositiveInt":
		o.value, o.kind = &dtpb.PositiveInt{Value: uint32(v)}, "FHIR.positiveInt"
	case "fhirUnsignedInt":
		o.value, o.kind = &dtpb.UnsignedInt{Value: uint32(v)}, "FHIR.unsignedInt"
	case "literal":
		o.kind = "literal"
		if v >= 0 {
			o.lit = fmt.Sprint(v)
		} else if v == math.MinInt32 {
			o.lit = "(-2147483647 - 1)"
		} else {
			o.lit = fmt.Sprintf("(-%d)", -int64(v))
		}
	}
	return o
}

func decOperand(text string, source string) numOperand {
	o := numOperand{coq: decToCoq(text), dec: text, source: source}
	switch source {
	case "sysvar":
		o.value, o.kind = system.MustParseDecimal(text), "Decimal"
	case "fhirDecimal":
		o.value, o.kind = &dtpb.Decimal{Value: text}, "FHIR.decimal"
	case "literal":
		o.kind = "literal"
		if strings.HasPrefix(text, "-") {
			o.lit = "(-" + text[1:] + ")"
		} else {
			o.lit = text
		}
	}
	return o
}

func (o numOperand) ref(name string) string {
	if o.source == "literal" {
		return o.lit
	}
	return "%" + name
}

var c08IntBoundary = []int32{0, 1, -1, 2, -2, 46340, -46340, 46341, -46341, 65536, -65536,
	math.MaxInt32 - 1, math.MaxInt32, math.MinInt32 + 1, math.MinInt32}

func randDigits(r *rng, n int) string {
	var b strings.Builder
	for i := 0; i < n; i++ {
		b.WriteByte(byte('0' + r.intn(10)))
	}
	return b.String()
}

// randDecimal: up to 40 significant digits, 0..30 fractional digits, both signs, ties, zero.
func randDecimal(r *rng) string {
	switch r.intn(12) {
	case 0:
		return pick(r, []string{"0.0", "0.00", "-0.0", "1.0", "1.00", "-1.0", "0.5", "-0.5", "1.5", "2.5", "-2.5", "0.1", "0.3"})
	case 1: // x.5 ties
		return pick(r, []string{"", "-"}) + fmt.Sprint(r.intn(1000)) + ".5"
	case 2: // near int32 boundary
		return pick(r, []string{"2147483647.5", "2147483648.0", "-2147483648.5", "-2147483649.0", "2147483647.0", "-2147483648.0", "4294967296.0", "18446744073709551621.0", "9223372036854775808.0", "99999999999.9", "0.99999999999999999", "0.00000000000000001"})
	}
	intDigits := 1 + r.intn(10)
	if r.intn(6) == 0 {
		intDigits = 1 + r.intn(25)
	}
	frac := r.intn(31)
	if intDigits+frac > 40 {
		frac = 40 - intDigits
	}
	ip := strings.TrimLeft(randDigits(r, intDigits), "0")
	if ip == "" {
		ip = "0"
	}
	s := ip + "." + randDigits(r, frac)
	if frac == 0 {
		s = ip + ".0"
	}
	if r.bool() {
		s = "-" + s
	}
	return s
}

func c08Outcome(out system.Collection, err error, panicked bool) string {
	switch {
	case panicked:
		return "Panic"
	case err != nil:
		return "Err"
	case len(out) == 0:
		return "(Ok None)"
	case len(out) == 1:
		switch v := out[0].(type) {
		case system.Integer:
			return "(Ok (Some (NInt " + coqZ(int64(v)) + ")))"
		case system.Decimal:
			return "(Ok (Some (" + decToCoq(v.String()) + ")))"
		}
	}
	return "(Ok (Some NOther))"
}

func runC08(cfg config) {
	sink := newSink(cfg.out, "C08", "C08.Model", "N * case * outcome", "judge", 400)
	r := &rng{s: cfg.seed*0x9e3779b97f4a7c15 + 8}
	input := []proto.Message{basePatient()}
	nInt, nDec, nPairsRand := 25, 40, 2500
	if cfg.tier == "thorough" {
		nInt, nDec, nPairsRand = 120, 300, 60000
	}
	// ---- operand pool ------------------------------------------------------------
	var ints []int32
	ints = append(ints, c08IntBoundary...)
	for i := 0; i < nInt; i++ {
		switch r.intn(3) {
		case 0:
			ints = append(ints, int32(r.next()))
		case 1:
			ints = append(ints, int32(r.intn(2000))-1000)
		default:
			ints = append(ints, int32(int64(r.intn(200000))-100000))
		}
	}
	var decs []string
	for i := 0; i < nDec; i++ {
		decs = append(decs, randDecimal(r))
	}
	mkInt := func(v int32) numOperand {
		srcs := []string{"sysvar", "sysvar", "literal", "fhirInteger"}
		if v > 0 {
			srcs = append(srcs, "fhirPositiveInt", "fhirUnsignedInt")
		}
		if v == 0 {
			srcs = append(srcs, "fhirUnsignedInt")
		}
		return intOperand(v, pick(r, srcs))
	}
	mkDec := func(s string) numOperand {
		return decOperand(s, pick(r, []string{"sysvar", "sysvar", "literal", "fhirDecimal"}))
	}
	binops := []struct{ src, coq string }{{"+", "Add"}, {"-", "Sub"}, {"*", "Mul"}, {"/", "Div"}, {"div", "IDiv"}, {"mod", "Mod"}}
	runBin := func(a, b numOperand, op struct{ src, coq string }) {
		src := fmt.Sprintf("%s %s %s", a.ref("a"), op.src, b.ref("b"))
		var opts []fhirpath.EvaluateOption
		if a.source != "literal" {
			opts = append(opts, evalopts.EnvVariable("a", a.value))
		}
		if b.source != "literal" {
			opts = append(opts, evalopts.EnvVariable("b", b.value))
		}
		var out system.Collection
		var err error
		panicked, _ := protect(func() {
			var e *fhirpath.Expression
			e, err = fhirpath.Compile(src)
			if err != nil {
				return
			}
			out, err = verifhook.Evaluate(e, input, opts...)
		})
		oc := c08Outcome(out, err, panicked)
		desc := fmt.Sprintf("%s  [a=%s:%s b=%s:%s] => %s", src, a.kind, strings.TrimPrefix(a.coq, "N"), b.kind, strings.TrimPrefix(b.coq, "N"), oc)
		cls := "empty"
		if strings.HasPrefix(oc, "(Ok (Some") {
			cls = "value"
		} else if oc == "Err" || oc == "Panic" {
			cls = oc
		}
		sink.add(fmt.Sprintf("CBin %s (%s) (%s), %s", op.coq, a.coq, b.coq, oc), desc, op.coq+"/"+cls, op.coq+"|"+a.coq+"|"+b.coq)
	}
	// (1) all ordered pairs of the Integer boundary set x 6 operators (exhaustive part)
	for _, x := range c08IntBoundary {
		for _, y := range c08IntBoundary {
			for _, op := range binops {
				runBin(intOperand(x, "sysvar"), intOperand(y, "sysvar"), op)
			}
		}
	}
	// (2) random pairs: int/int, dec/dec, mixed, every source
	for i := 0; i < nPairsRand; i++ {
		var a, b numOperand
		switch r.intn(4) {
		case 0:
			a, b = mkInt(pick(r, ints)), mkInt(pick(r, ints))
		case 1:
			a, b = mkDec(pick(r, decs)), mkDec(pick(r, decs))
		case 2:
			a, b = mkInt(pick(r, ints)), mkDec(pick(r, decs))
		default:
			a, b = mkDec(pick(r, decs)), mkInt(pick(r, ints))
		}
		if r.intn(15) == 0 { // zero divisors of every type
			b = pick(r, []numOperand{intOperand(0, "sysvar"), intOperand(0, "literal"), decOperand("0.0", "sysvar"), decOperand("0.00", "literal"), intOperand(0, "fhirInteger"), decOperand("0.000", "fhirDecimal"), decOperand("-0.0", "sysvar")})
		}
		runBin(a, b, pick(r, binops))
	}
	// (3) unary operators and numeric functions
	type un struct{ coq, fmtSrc string }
	uns := []un{{"Neg", "-%s"}, {"Abs", "%s.abs()"}, {"Ceiling", "%s.ceiling()"}, {"Floor", "%s.floor()"}, {"Truncate", "%s.truncate()"}, {"(Round 0)", "%s.round()"}}
	runUn := func(a numOperand, u un) {
		ref := a.ref("a")
		if u.coq == "Neg" && a.source == "literal" {
			ref = "(" + ref + ")"
		}
		src := fmt.Sprintf(u.fmtSrc, ref)
		var opts []fhirpath.EvaluateOption
		if a.source != "literal" {
			opts = append(opts, evalopts.EnvVariable("a", a.value))
		}
		var out system.Collection
		var err error
		panicked, _ := protect(func() {
			var e *fhirpath.Expression
			e, err = fhirpath.Compile(src)
			if err != nil {
				return
			}
			out, err = verifhook.Evaluate(e, input, opts...)
		})
		oc := c08Outcome(out, err, panicked)
		desc := fmt.Sprintf("%s  [a=%s:%s] => %s", src, a.kind, strings.TrimPrefix(a.coq, "N"), oc)
		sink.add(fmt.Sprintf("CUn %s (%s), %s", u.coq, a.coq, oc), desc, u.coq, u.coq+"|"+a.coq)
	}
	// decimals at the edges of the machine widths a conversion could pass through: int32, uint32, float64 mantissa, int64,
	// uint64 (and small offsets from its multiples: the low 64 bits of those lie inside the int32 range), 2^128
	var edgeDecs []string
	for _, base := range []string{"2147483647", "2147483648", "4294967295", "4294967296", "9007199254740992", "9007199254740993", "9223372036854775807", "9223372036854775808",
		"18446744073709551615", "18446744073709551616", "18446744073709551617", "18446744073709551623", "18446744075857035263", "18446744075857035264", "36893488147419103232",
		"340282366920938463463374607431768211456", "1000000000000000000000000000000"} {
		for _, frac := range []string{"", ".0", ".5", ".25", ".999"} {
			edgeDecs = append(edgeDecs, base+frac, "-"+base+frac)
		}
	}
	// round(p) for p > 0: small magnitudes (fewer significant digits than decimal places), ties, negative values
	for _, d := range []string{"0.05", "0.005", "0.0449", "0.045", "0.00000005", "0.95", "0.995", "9.995", "1.25", "1.35", "2.5", "0.5", "0.05000", "123.456789", "0.000000000000000149", "1.0", "0.0"} {
		for _, sign := range []string{"", "-"} {
			for _, p := range []int{1, 2, 3, 5, 8, 15, 17} {
				u := un{fmt.Sprintf("(Round %d)", p), fmt.Sprintf("%%s.round(%d)", p)}
				runUn(decOperand(sign+d, "sysvar"), u)
				runUn(decOperand(sign+d, pick(r, []string{"literal", "fhirDecimal"})), u)
			}
		}
	}
	for _, x := range []int32{0, 1, -1, 15, 2147483647, -2147483648} {
		for _, p := range []int{1, 3} {
			runUn(intOperand(x, "sysvar"), un{fmt.Sprintf("(Round %d)", p), fmt.Sprintf("%%s.round(%d)", p)})
		}
	}
	for _, d := range edgeDecs {
		if !strings.Contains(d, ".") {
			d += ".00"
		}
		for _, u := range uns {
			runUn(decOperand(d, "sysvar"), u)
			runUn(decOperand(d, "fhirDecimal"), u)
		}
		for _, op := range binops {
			runBin(decOperand(d, "sysvar"), intOperand(pick(r, []int32{1, -1, 3, 2147483647, -2147483648}), "sysvar"), op)
			runBin(intOperand(pick(r, []int32{1, -1, 7, 2147483647}), "sysvar"), decOperand(d, "sysvar"), op)
		}
	}
	for _, u := range uns {
		for _, x := range ints {
			// System Integers, literals and FHIR integer kinds for every function
			runUn(intOperand(x, "sysvar"), u)
			{
				if x > 0 {
					runUn(intOperand(x, pick(r, []string{"fhirInteger", "fhirPositiveInt", "fhirUnsignedInt", "literal"})), u)
				} else {
					runUn(intOperand(x, pick(r, []string{"fhirInteger", "literal"})), u)
				}
			}
		}
		for _, d := range decs {
			runUn(decOperand(d, "sysvar"), u)
			runUn(decOperand(d, "literal"), u)
			runUn(decOperand(d, "fhirDecimal"), u)
		}
	}
	sink.finish("all ordered pairs of the Integer boundary set x 6 operators (exhaustive), seeded random Integer/Decimal/mixed pairs over every operand source (System value, FHIR integer/positiveInt/unsignedInt/decimal element, literal), zero divisors of every type, and every unary numeric function over the pool; distinct = distinct (operator, operand values); all cases are non-trivial", false)
}
