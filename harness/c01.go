package main

import (
	"fmt"
	"time"

	dtpb "github.com/google/fhir/go/proto/google/fhir/proto/r4/core/datatypes_go_proto"
	opb "github.com/google/fhir/go/proto/google/fhir/proto/r4/core/resources/organization_go_proto"
	ppb "github.com/google/fhir/go/proto/google/fhir/proto/r4/core/resources/patient_go_proto"
	rppb "github.com/google/fhir/go/proto/google/fhir/proto/r4/core/resources/related_person_go_proto"
	"github.com/verily-src/fhirpath-go/fhirpath"
	"github.com/verily-src/fhirpath-go/fhirpath/compopts"
	"github.com/verily-src/fhirpath-go/fhirpath/evalopts"
	"github.com/verily-src/fhirpath-go/fhirpath/patch"
	"github.com/verily-src/fhirpath-go/fhirpath/system"
	"github.com/verily-src/fhirpath-go/fhirpath/verifhook"
	"google.golang.org/protobuf/proto"
	"google.golang.org/protobuf/reflect/protoreflect"
)

func init() { props["C01"] = runC01 }

// guarded runs f with a wall-clock budget; a call that does not come back is reported, its goroutine abandoned.
func guarded(budget time.Duration, f func()) (panicked bool, msg string, timedOut bool) {
	done := make(chan struct{})
	go func() {
		defer close(done)
		panicked, msg = protect(f)
	}()
	select {
	case <-done:
		return panicked, msg, false
	case <-time.After(budget):
		return false, "", true
	}
}

func runC01(cfg config) {
	sink := newSink(cfg.out, "C01", "C01.Model", "N * case * obs", "judge", 2000)
	r := &rng{s: cfg.seed*0x9e3779b97f4a7c15 + 1}
	g := &genState{r: &rng{s: cfg.seed + 100}}
	scale := 1
	if cfg.tier == "thorough" {
		scale = 5
	}
	budget := 10 * time.Second
	var bad []string
	n := uint64(0)
	hist := map[string]int{}
	record := func(kind, desc string, f func()) {
		pn, msg, to := guarded(budget, f)
		k := kind
		if pn {
			k += ":PANIC"
			if len(bad) < 40 {
				bad = append(bad, desc+": panic: "+msg)
			}
		}
		if to {
			k += ":TIMEOUT"
			if len(bad) < 40 {
				bad = append(bad, desc+": no result within the budget")
			}
		}
		hist[k]++
		n++
		coqKind := map[string]string{"compile": "KCompile", "evaluate": "KEvaluate", "evaluate-as": "KEvaluateAs", "patch": "KPatch", "patch-compile": "KPatchCompile"}[kind]
		sink.add(fmt.Sprintf("%s, {| ob_kind := %s; ob_panicked := %s; ob_timed_out := %s |}", coqN(n), coqKind, coqBool(pn), coqBool(to)), desc, k, fmt.Sprintf("%s:%d", kind, n%300))
	}
	progs := programs(r, scale)
	// ---- source strings: the programs, byte-mutated neighbours, fragments --------------------------------------------
	mutate := func(s string) string {
		alphabet := []byte("()[]{}.,'`\"\\@%$|&+-*/<>=!~: \n\t\x00\x80\xffTZ09azAZ_")
		b := []byte(s)
		for k := 0; k <= r.intn(3); k++ {
			switch r.intn(4) {
			case 0:
				if len(b) > 0 {
					b[r.intn(len(b))] = alphabet[r.intn(len(alphabet))]
				}
			case 1:
				i := r.intn(len(b) + 1)
				b = append(b[:i], append([]byte{alphabet[r.intn(len(alphabet))]}, b[i:]...)...)
			case 2:
				if len(b) > 0 {
					i := r.intn(len(b))
					b = append(b[:i], b[i+1:]...)
				}
			default:
				if len(b) > 1 {
					b = b[:r.intn(len(b))]
				}
			}
		}
		return string(b)
	}
	var sources []string
	sources = append(sources, progs...)
	for _, p := range progs {
		if r.intn(2) == 0 {
			sources = append(sources, mutate(p))
		}
	}
	sources = append(sources, "", " ", "(", ")", "((((((((((", "'", "'\\", "'\\u12", "`", "@", "@T", "@2020-13-45", "@2020-02-30T25:61:61", "1 'mg", "%", "%`", "$", "$this.$this", ".", "..", "a..b", "1.", ".1",
		"99999999999999999999", "1e5", "-", "- -1", "1 +", "+ 1", "a.b(", "a.b(,)", "a.b(1,)", "{", "{}{}", "1 is", "is", "as", "1 as", "true and", "/* x", "// x", "/* x */ 1", "1 // c\n + 1",
		"Patient.name[", "Patient.name[]", "Patient.name[1", "\x00", "\xff\xfe", "𝄞", "'𝄞'.length()", "Patient.`name`", "Patient.``", "day", "1 day", "1 days", "1 'day'", "1 wk", "where", "where()", "Patient.where",
		"Patient.name.given.aggregate($this + $total, 0)", "$total", "$index", "Patient.name.select($index)", "2147483648", "-2147483648", "-2147483649", "1 div 0", "1 mod 0", "1 / 0", "1.0 / 0.0", "1.0 div 0", "1.0 mod 0.0",
		"(1 | 2).sum()", "repeat(children())", "descendants().descendants().count()", "Patient.descendants().repeat($this)", "trace('x')", "trace()", "now() - 1 day", "today() + 1 month", "@2020-01-31 + 1 month", "@T23:59:59 + 2 seconds",
		"@2020 + 1000000 years", "@2020 - 3000 years", "@0001-01-01 - 1 day", "@9999-12-31 + 1 day", "@2020-02-29 + 2147483647 days", "@2020-02-29T00:00:00Z + 9999999999 milliseconds", "1 'mg' + 1 'kg'", "1 'mg' * 2 'mg'", "1 'mg' / 0 'mg'")
	// every truncation of string literals and delimited identifiers that end in escapes
	for _, lit := range []string{`'\uD83D\uDE00'`, `'\u00e9\n\t'`, `'a\\'`, `'\uDE00\uD83D'`, "`\\uD83D\\uDE00`", `'\uD83D\u0041'`, `'\ud83d\ude00x'`} {
		for k := 1; k < len(lit); k++ {
			sources = append(sources, lit[:k]+lit[len(lit)-1:], "Patient.name.given = "+lit[:k]+lit[len(lit)-1:])
		}
	}
	compiled := map[string]*fhirpath.Expression{}
	for _, s := range sources {
		src := s
		record("compile", fmt.Sprintf("Compile(%q)", src), func() {
			for _, copts := range [][]fhirpath.CompileOption{nil, {compopts.WithExperimentalFuncs()}, {compopts.Permissive()}} {
				e, err := fhirpath.Compile(src, copts...)
				if err == nil && e != nil {
					compiled[src] = e
				}
			}
		})
		if r.intn(6) == 0 {
			record("patch-compile", fmt.Sprintf("patch.Compile(%q)", src), func() { patch.Compile(src) })
		}
	}
	sink.extra["sources"] = len(sources)
	sink.extra["compiled"] = len(compiled)
	// ---- evaluation: every compiled program on three Patients, generic programs on a resource of every type -----------
	var srcs []string
	for s := range compiled {
		srcs = append(srcs, s)
	}
	sortStrings(srcs)
	patients := []proto.Message{basePatient(), g.resource("Patient", 3), g.resource("Patient", 2)}
	for _, p := range patients {
		pp := p.(*ppb.Patient)
		if len(pp.Contact) == 0 {
			pp.Contact = []*ppb.Patient_Contact{{Gender: nil}}
		}
	}
	mkOpts := func(res proto.Message) []fhirpath.EvaluateOption {
		return []fhirpath.EvaluateOption{evalopts.EnvVariable("coll", system.Collection{system.String("Ann"), system.String("Ann"), system.Integer(3)}), evalopts.EnvVariable("empty", system.Collection{}),
			evalopts.EnvVariable("res", res), evalopts.EnvVariable("str", system.String("s")), evalopts.EnvVariable("num", system.Integer(1))}
	}
	for _, s := range srcs {
		e := compiled[s]
		src := s
		for pi, res := range patients {
			res := res
			record("evaluate", fmt.Sprintf("Evaluate(%q) on patient %d", src, pi), func() { verifhook.Evaluate(e, []proto.Message{res}, mkOpts(res)...) })
		}
		if r.intn(4) == 0 {
			res := patients[0]
			record("evaluate-as", fmt.Sprintf("EvaluateAs*(%q)", src), func() {
				verifhook.EvaluateAsBool(e, []proto.Message{res}, mkOpts(res)...)
				verifhook.EvaluateAsString(e, []proto.Message{res}, mkOpts(res)...)
				verifhook.EvaluateAsInt32(e, []proto.Message{res}, mkOpts(res)...)
			})
			record("evaluate", fmt.Sprintf("Evaluate(%q) on no resource and on two", src), func() {
				verifhook.Evaluate(e, nil, mkOpts(res)...)
				verifhook.Evaluate(e, []proto.Message{patients[0], patients[1]}, mkOpts(res)...)
			})
		}
	}
	generic := []string{"descendants().count()", "children().descendants().ofType(string).count()", "descendants().where($this is Quantity)", "descendants().select($this.toString())", "descendants().value",
		"descendants().extension.value", "descendants().id", "descendants().distinct().count()", "descendants().as(HumanName)", "descendants() | children()", "descendants().hasValue()",
		"descendants().iif(true, 1)", "descendants().first().toQuantity()", "descendants().convertsToDateTime()", "descendants().toInteger()", "descendants().toDecimal()", "descendants().toDate()",
		"descendants().toBoolean()", "descendants().toTime()", "descendants().toQuantity()", "descendants().reference", "descendants().ofType(Reference).reference", "descendants().select($this = $this)",
		"descendants().select($this < $this)", "descendants().select($this + $this)", "descendants().select($this & 'x')", "descendants().select(-$this)", "descendants().exists($this.children().empty())",
		"descendants().all($this is Element)", "descendants().where($this is dateTime).select($this + 1 day)", "descendants().where($this is date).select($this - 1 month)", "descendants().select($this.length())",
		"descendants().intersect(children())", "descendants().exclude(children()).count()", "descendants().tail().skip(3).take(2)", "descendants().last()", "descendants()[0]", "descendants().single()",
		"descendants().anyTrue()", "descendants().allFalse()", "descendants().subsetOf(descendants())", "descendants().supersetOf(children())", "descendants().isDistinct()", "descendants().type()", "children().type().name",
		"descendants().resolve()", "descendants().conformsTo('x')", "descendants().memberOf('x')", "descendants().extension('http://example.org/x')", "descendants().select(iif($this is string, $this.upper(), {}))"}
	var gexprs []*fhirpath.Expression
	var gsrc []string
	for _, s := range generic {
		if e, err := fhirpath.Compile(s, compopts.WithExperimentalFuncs()); err == nil {
			gexprs = append(gexprs, e)
			gsrc = append(gsrc, s)
		}
	}
	for _, name := range verifhook.ResourceTypeNames() {
		res := g.resource(name, 2)
		for i, e := range gexprs {
			e, src := e, gsrc[i]
			record("evaluate", fmt.Sprintf("Evaluate(%q) on a generated %s", src, name), func() { verifhook.Evaluate(e, []proto.Message{res}) })
		}
	}
	// ---- a full sweep (not a sample): every function of the table that takes no or one argument, on every numeric
	// boundary focus, with every numeric boundary argument ------------------------------------------------------------
	{
		bounds := verifhook.TableBounds(true)
		var fnames []string
		for nme := range bounds {
			fnames = append(fnames, nme)
		}
		sortStrings(fnames)
		foci := []string{"0", "0.0", "0.00", "(1.5 - 1.5)", "(0.0 - 0.0)", "1", "(-1)", "1.5", "2147483647", "(-2147483647 - 1)", "123456789012345678901234567890.12345678", "0.00000001", "(700.exp() * 700.exp())", "(0 - 700.exp() * 700.exp())", "'12'", "4 'mg'", "@2020-02-29", "{}"}
		argsPool := []string{"0", "0.0", "-1.0", "-64", "64", "-65", "1", "-1", "2147483647", "-2147483647 - 1", "1.5", "123456789012345678901234567890.12345678", "700.exp() * 700.exp()", "'a'", "{}"}
		for _, fn := range fnames {
			lo, hi := bounds[fn][0], bounds[fn][1]
			for _, f := range foci {
				var calls []string
				if lo == 0 {
					calls = append(calls, fmt.Sprintf("%s.%s()", f, fn))
				}
				if lo <= 1 && (hi >= 1 || hi < lo) {
					for _, a := range argsPool {
						calls = append(calls, fmt.Sprintf("%s.%s(%s)", f, fn, a))
					}
				}
				if lo <= 2 && (hi >= 2 || hi < lo) {
					for _, a := range []string{"0", "2147483647", "-1", "'a'"} {
						calls = append(calls, fmt.Sprintf("%s.%s(%s, %s)", f, fn, a, pick(r, argsPool)))
					}
				}
				for _, src := range calls {
					src := src
					record("evaluate", fmt.Sprintf("Compile+Evaluate(%q) (boundary sweep)", src), func() {
						if e, err := fhirpath.Compile(src, compopts.WithExperimentalFuncs()); err == nil {
							verifhook.Evaluate(e, []proto.Message{patients[0]})
						}
					})
				}
			}
		}
	}
	// ---- every supported kind of evaluate option at its edges: nested collections as variables, clocks far away ------------
	{
		nested := system.Collection{system.Collection{system.Integer(1), system.Collection{system.String("a")}}, system.Integer(2), system.Collection{}}
		for _, src := range []string{"%x", "%x = %x", "%x != %x", "%x ~ %x", "%x.count()", "%x | %x", "%x.distinct()", "%x.first() + 1", "%x.where($this = 1)", "%x.select($this.toString())", "%x in %x", "%x.subsetOf(%x)", "%x.combine(%x).isDistinct()", "%x.exclude(%x)", "%x.intersect(%x)", "%x contains 1", "%x.all($this is Integer)", "%x.toString()", "%x & 'a'", "-%x", "%x[0]", "%x.tail()", "%x.children()", "%x.descendants()", "%x.type()"} {
			src := src
			record("evaluate", fmt.Sprintf("Evaluate(%q) with a nested collection as %%x", src), func() {
				if e, err := fhirpath.Compile(src, compopts.WithExperimentalFuncs()); err == nil {
					verifhook.Evaluate(e, []proto.Message{patients[0]}, evalopts.EnvVariable("x", nested))
				}
			})
		}
		clocks := []time.Time{time.Date(10000, 1, 1, 0, 0, 0, 0, time.UTC), time.Date(-1, 6, 1, 0, 0, 0, 0, time.UTC), time.Date(0, 1, 1, 0, 0, 0, 0, time.UTC), time.Date(9999, 12, 31, 23, 59, 59, 999999999, time.FixedZone("e", 14*3600)),
			time.Date(1, 1, 1, 0, 0, 0, 0, time.FixedZone("w", -12*3600)), time.Date(292277026596, 12, 4, 15, 30, 7, 0, time.UTC), time.Unix(-1<<62, 0), {}, time.Date(2024, 2, 29, 12, 0, 0, 0, time.FixedZone("odd", 5*3600+53*60+28))}
		for _, src := range []string{"now()", "today()", "timeOfDay()", "now() + 1 year", "today() - 1 day", "now() > @2020", "today().toString()", "now() = now()", "Patient.birthDate < today()", "today() + 8000 years"} {
			for ci, clk := range clocks {
				src, clk := src, clk
				record("evaluate", fmt.Sprintf("Evaluate(%q) with OverrideTime #%d", src, ci), func() {
					if e, err := fhirpath.Compile(src); err == nil {
						verifhook.Evaluate(e, []proto.Message{patients[0]}, evalopts.OverrideTime(clk))
					}
				})
			}
		}
	}
	// ---- hollow resources: legal messages with unset choices, empty contained resources, enum numbers without a name ---------
	{
		hollowNames := []string{"Patient", "Observation", "Bundle", "Encounter", "MedicationRequest", "Questionnaire", "Parameters", "DiagnosticReport", "Condition", "Claim"}
		for _, name := range hollowNames {
			for round := 0; round < 2*scale; round++ {
				res := g.resource(name, 3)
				hollow(r, res.ProtoReflect(), 0.35)
				for i, e := range gexprs {
					e, src := e, gsrc[i]
					record("evaluate", fmt.Sprintf("Evaluate(%q) on a hollowed %s", src, name), func() { verifhook.Evaluate(e, []proto.Message{res}) })
				}
				// the same walk with the Permissive option (wrappers are not unwrapped: other code paths)
				for _, src := range []string{name + ".descendants().count()", name + ".contained.id", name + ".entry.resource.id", name + ".entry.resource.descendants().count()", name + ".children().children().id", name + ".descendants().value", name + ".descendants().select($this = $this)"} {
					src := src
					record("evaluate", fmt.Sprintf("Compile(%q, Permissive)+Evaluate on a hollowed %s", src, name), func() {
						if e, err := fhirpath.Compile(src, compopts.Permissive()); err == nil {
							verifhook.Evaluate(e, []proto.Message{res})
						}
					})
				}
				for _, src := range []string{name + ".descendants().select($this = $this)", name + ".children().children()", name + ".descendants().toString()", name + ".contained.descendants()", name + ".entry.resource.id", name + ".descendants().where($this = 'male')", name + ".descendants().select($this ~ 'x')", name + ".descendants().select($this in ('a' | 'b'))", name + ".descendants().distinct()"} {
					src := src
					record("evaluate", fmt.Sprintf("Compile+Evaluate(%q) on a hollowed %s", src, name), func() {
						if e, err := fhirpath.Compile(src); err == nil {
							verifhook.Evaluate(e, []proto.Message{res})
						}
					})
				}
			}
		}
	}
	// ---- decimal elements as FHIR allows them: exponents, small and absurd --------------------------------------------------
	for _, dv := range []string{"1e2", "1E-2", "-1.5e3", "1e30", "1e-30", "1e308", "1e4096", "1e4097", "1e100000", "1e1000000", "1e999999999", "1e-999999999", "-9e999999999", "1e2147483647", "1e2147483648", "1e99999999999999999999", "0e999999999", "1.0e+5", "1e", "e5", ".5", "5.", "+5", "0x10", "NaN", "Infinity", ""} {
		el := &dtpb.Decimal{Value: dv}
		qel := &dtpb.Quantity{Value: &dtpb.Decimal{Value: dv}, Code: &dtpb.Code{Value: "mg"}}
		for _, src := range []string{"%q > 1 'mg'", "%q = 1 'mg'", "%q + 1 'mg'", "%q.toString()", "%q = %q", "%q.value + 1", "%q * 2"} {
			src := src
			record("evaluate", fmt.Sprintf("Evaluate(%q) with %%q a Quantity element of value %q", src, dv), func() {
				if e, err := fhirpath.Compile(src, compopts.WithExperimentalFuncs()); err == nil {
					verifhook.Evaluate(e, []proto.Message{patients[0]}, evalopts.EnvVariable("q", qel))
				}
			})
		}
		for _, src := range []string{"%d", "%d + 1", "%d * 2.5", "%d / 3.0", "%d > 1", "%d = %d", "%d.round(2)", "%d.toString()", "%d.floor()", "%d.abs()", "%d.sqrt()", "%d.toInteger()", "%d.toQuantity()", "%d.convertsToDecimal()", "-%d", "%d.toString().toDecimal()", "%d mod 7", "%d div 3", "(%d | %d).distinct()", "%d ~ 1.0"} {
			src := src
			record("evaluate", fmt.Sprintf("Evaluate(%q) with %%d a decimal element %q", src, dv), func() {
				if e, err := fhirpath.Compile(src, compopts.WithExperimentalFuncs()); err == nil {
					verifhook.Evaluate(e, []proto.Message{patients[0]}, evalopts.EnvVariable("d", el))
				}
			})
		}
	}
	// ---- state that builds up over calls: many distinct regular expressions, many distinct expressions ------------------
	for k := 0; k < 150; k++ {
		src := fmt.Sprintf("'item-%d'.matches('^item-%d$') and 'item-%d'.replaceMatches('m-%d', 'x') = 'itex'", k, k, k, k)
		record("evaluate", fmt.Sprintf("Compile+Evaluate(%q) (distinct pattern %d)", src, k), func() {
			if e, err := fhirpath.Compile(src); err == nil {
				verifhook.Evaluate(e, []proto.Message{patients[0]})
			}
		})
	}
	// ---- patch: every operation with programs as paths, nil and wrongly typed values ----------------------------------
	values := []proto.Message{nil, &dtpb.String{Value: "x"}, &dtpb.HumanName{Family: &dtpb.String{Value: "F"}}, &dtpb.Integer{Value: -1}, &dtpb.Code{Value: "male"}, &dtpb.Code{Value: "Not A Code"},
		&dtpb.Boolean{Value: true}, &dtpb.Reference{}, &dtpb.Extension{}, basePatient(),
		&opb.Organization_Contact{Purpose: &dtpb.CodeableConcept{Text: &dtpb.String{Value: "p"}}}, &rppb.RelatedPerson_Communication{Preferred: &dtpb.Boolean{Value: true}}}
	names := []string{"name", "given", "family", "gender", "active", "deceased", "extension", "id", "contained", "nonexistent", "given_name", "", "Name", "valueString", "value", "reference", "valueUs", "timezone", "precision", "typeUrl"}
	{ // the Go-native fields of primitives (value, valueUs, timezone, precision), on elements holding zero and non-zero values
		zp := basePatient()
		zp.Active = &dtpb.Boolean{Value: false}
		zp.Name[0].Family = &dtpb.String{}
		zp.MultipleBirth = &ppb.Patient_MultipleBirthX{Choice: &ppb.Patient_MultipleBirthX_Integer{Integer: &dtpb.Integer{}}}
		zp.BirthDate = &dtpb.Date{}
		zp.Gender = &ppb.Patient_GenderCode{}
		for _, path := range []string{"Patient.active", "Patient.name[0].family", "Patient.multipleBirth", "Patient.birthDate", "Patient.gender", "Patient.name[1].family", "Patient.deceased", "Patient.id"} {
			for _, nm := range []string{"value", "valueUs", "timezone", "precision", "id", "extension"} {
				for _, v := range []proto.Message{&dtpb.Boolean{Value: true}, &dtpb.String{Value: "x"}, &dtpb.Integer{Value: 1}, &dtpb.Extension{}} {
					path, nm, v := path, nm, v
					res := proto.Clone(zp)
					record("patch", fmt.Sprintf("patch.Add(%q, %q, %T) on zero-valued primitives", path, nm, v), func() { verifhook.PatchAdd(res, path, nm, v) })
				}
			}
		}
	}
	for k := 0; k < 600*scale; k++ {
		path := pick(r, srcs)
		if r.intn(3) == 0 {
			path = pick(r, []string{"Patient", "Patient.name", "Patient.name[0]", "Patient.name.given", "Patient.name[0].given[0]", "Patient.gender", "Patient.deceased", "Patient.contained", "Patient.contained[0]",
				"Patient.managingOrganization", "Patient.managingOrganization.reference", "Patient.contact", "Patient.communication", "Patient.contact[0]", "Patient.communication[0]", "Patient.name.where(true)", "Patient.name.first().given.last()", "Patient.extension", "Patient.id", "Patient.birthDate", "{}", "1", "'a'", "%context"})
		}
		v := pick(r, values)
		nm := pick(r, names)
		idx := pick(r, []int{-1, 0, 0, 1, 2, 1 << 30, -1 << 31})
		res := proto.Clone(pick(r, patients))
		var resArg proto.Message = res
		if r.intn(25) == 0 {
			resArg = nil
		}
		switch r.intn(5) {
		case 0:
			record("patch", fmt.Sprintf("patch.Add(%q, %q, %T)", path, nm, v), func() { verifhook.PatchAdd(resArg, path, nm, v) })
		case 1:
			record("patch", fmt.Sprintf("patch.Insert(%q, %T, %d)", path, v, idx), func() { verifhook.PatchInsert(resArg, path, v, idx) })
		case 2:
			record("patch", fmt.Sprintf("patch.Delete(%q)", path), func() { verifhook.PatchDelete(resArg, path) })
		case 3:
			record("patch", fmt.Sprintf("patch.Replace(%q, %T)", path, v), func() { verifhook.PatchReplace(resArg, path, v) })
		default:
			record("patch", fmt.Sprintf("patch.Move(%q, %d, %d)", path, idx, 0), func() { verifhook.PatchMove(resArg, path, idx, 0) })
		}
	}
	// values whose message type shares its short name with the element type of the list (Contact, Communication)
	for _, tc := range []struct {
		path string
		v    proto.Message
	}{{"Patient.contact", &opb.Organization_Contact{Purpose: &dtpb.CodeableConcept{Text: &dtpb.String{Value: "p"}}}}, {"Patient.communication", &rppb.RelatedPerson_Communication{Preferred: &dtpb.Boolean{Value: true}}},
		{"Patient.contact", &ppb.Patient_Communication{}}, {"Patient.communication", &ppb.Patient_Contact{}}} {
		for _, idx := range []int{0, 1} {
			tc, idx := tc, idx
			res := proto.Clone(patients[0])
			record("patch", fmt.Sprintf("patch.Insert(%q, %T, %d)", tc.path, tc.v, idx), func() { verifhook.PatchInsert(res, tc.path, tc.v, idx) })
			res2 := proto.Clone(patients[0])
			record("patch", fmt.Sprintf("patch.Replace(%q, %T)", tc.path+"[0]", tc.v), func() { verifhook.PatchReplace(res2, tc.path+"[0]", tc.v) })
			res3 := proto.Clone(patients[0])
			record("patch", fmt.Sprintf("patch.Add(Patient, %q, %T)", tc.path[8:], tc.v), func() { verifhook.PatchAdd(res3, "Patient", tc.path[8:], tc.v) })
		}
	}
	sink.extra["outcomes"] = hist
	sink.extra["first_bad"] = bad
	sink.extra["budget_seconds"] = budget.Seconds()
	sink.finish("source strings: every operator and (function, arity) of the table over boundary arguments, their byte-mutated neighbours and ~120 hand-picked fragments, compiled with no option, the experimental functions, Permissive, and by patch.Compile; "+
		"every compiled program evaluated on three Patients (plus EvaluateAs*, an empty and a two-resource input), 50 generic programs on a generated resource of every registry type; "+
		"patch Add / Insert / Delete / Replace / Move with programs as paths, nil and wrongly typed values, extreme indexes, a nil resource; every call under a wall-clock budget", false)
}

func sortStrings(s []string) {
	for i := 1; i < len(s); i++ {
		for j := i; j > 0 && s[j] < s[j-1]; j-- {
			s[j], s[j-1] = s[j-1], s[j]
		}
	}
}

// hollow empties parts of a message while keeping it a legal proto: oneofs lose their member, enum fields get a number
// their enum does not define, contained resources and choice wrappers stay behind empty.
func hollow(r *rng, m protoreflect.Message, p float64) {
	if m.Descriptor().FullName() == "google.protobuf.Any" {
		return
	}
	fds := m.Descriptor().Fields()
	for i := 0; i < fds.Len(); i++ {
		fd := fds.Get(i)
		if !m.Has(fd) || fd.IsMap() {
			continue
		}
		switch {
		case fd.Kind() == protoreflect.EnumKind && !fd.IsList():
			if float64(r.intn(1000))/1000 < p/2 {
				m.Set(fd, protoreflect.ValueOfEnum(protoreflect.EnumNumber(9000+r.intn(5))))
			}
		case fd.Kind() == protoreflect.MessageKind && fd.IsList():
			l := m.Mutable(fd).List()
			for k := 0; k < l.Len(); k++ {
				hollow(r, l.Get(k).Message(), p)
			}
		case fd.Kind() == protoreflect.MessageKind:
			if fd.ContainingOneof() != nil && float64(r.intn(1000))/1000 < p {
				m.Clear(fd) // the wrapper stays, its choice is gone
				continue
			}
			hollow(r, m.Mutable(fd).Message(), p)
		}
	}
}
