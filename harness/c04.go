package main

import (
	"bytes"
	"fmt"
	"os"
	"os/exec"
	"sort"
	"strings"
	"sync"
	"time"

	"github.com/verily-src/fhirpath-go/fhirpath"
	"github.com/verily-src/fhirpath-go/fhirpath/compopts"
	"github.com/verily-src/fhirpath-go/fhirpath/evalopts"
	"github.com/verily-src/fhirpath-go/fhirpath/patch"
	"github.com/verily-src/fhirpath-go/fhirpath/system"
	"github.com/verily-src/fhirpath-go/fhirpath/verifhook"
	"google.golang.org/protobuf/proto"
)

func init() {
	props["C04"] = runC04
	props["C04-concurrent-child"] = runC04Child
}

// ---- the concurrent stage runs in a child process so that a race report or a runtime crash is an observation ----
func c04Programs(seed uint64) []string {
	r := &rng{s: seed*0x9e3779b97f4a7c15 + 4}
	ps := programs(r, 1)
	var out []string
	for i, p := range ps {
		if i%6 == 0 {
			out = append(out, p)
		}
	}
	// the functions most likely to hide shared state
	out = append(out, "Patient.name.given.first().matches('[A-Z][a-z]+')", "Patient.name.given.select($this.replaceMatches('[aeiou]', '*'))", "Patient.name.family.first().matches('^D')",
		"Patient.name.given.select($this.matches('A.*'))", "Patient.name.given.join(',')", "Patient.birthDate.toString()", "Patient.name.given.distinct().count()",
		"Patient.name.given.toChars()", "(Patient.name.given | %coll).count()", "Patient.name.given.where($this.matches('n+'))")
	for _, p := range c04TagPrograms {
		out = append(out, p.src)
	}
	return out
}

// programs over a custom function `tag` (receiver string + argument string): plain, nested in its own argument, per item
var c04TagPrograms = []struct{ src, want string }{
	{"'a'.tag('b')", "1:[system.String ab]"}, {"'a'.tag('b'.tag('c'))", "1:[system.String abc]"}, {"'a'.tag('b'.tag('c'.tag('d')))", "1:[system.String abcd]"},
	{"'a'.tag('b').tag('c')", "1:[system.String abc]"}, {"Patient.name.given.first().tag(Patient.name.family.first().tag('!'))", ""}, {"Patient.name.given.select($this.tag($this.tag('-')))", ""},
	{"Patient.name.family.first().tag('x') & Patient.name.given.first().tag('y')", ""},
	// one caller-owned collection handed to EVERY evaluation of the run (and of the concurrent child): what one evaluation
	// does with it may not show in another
	{"%shared[1]", "1:[system.String Ann]"}, {"%shared.count()", "1:[system.Integer 4]"}, {"%shared.distinct().count()", "1:[system.Integer 2]"},
	{"%shared.isDistinct()", "1:[system.Boolean false]"}, {"%shared.skip(1).distinct().count()", "1:[system.Integer 2]"}, {"%shared.tail().isDistinct()", "1:[system.Boolean false]"},
	{"%shared[2]", "1:[system.String Bea]"}, {"%shared.where($this = 'Ann').count()", "1:[system.Integer 3]"}, {"%shared.last()", "1:[system.String Ann]"},
	{"%shared.take(2).distinct().count()", "1:[system.Integer 1]"}, {"%shared.count()", "1:[system.Integer 4]"}, {"%shared[1]", "1:[system.String Ann]"},
}

var c04Shared = append(make(system.Collection, 0, 8), system.String("Ann"), system.String("Ann"), system.String("Bea"), system.String("Ann"))

func c04Copts() []fhirpath.CompileOption {
	return []fhirpath.CompileOption{compopts.WithExperimentalFuncs(), compopts.AddFunction("tag", func(in system.Collection, s system.String) (system.Collection, error) {
		if len(in) != 1 {
			return nil, fmt.Errorf("tag: %d items", len(in))
		}
		v, err := system.From(in[0])
		if err != nil {
			return nil, err
		}
		return system.Collection{system.String(fmt.Sprint(v) + string(s))}, nil
	})}
}

func c04Evaluate(e *fhirpath.Expression, res proto.Message, fixed time.Time) string {
	coll := system.Collection{system.String("Ann"), system.String("Ann")}
	var out system.Collection
	var err error
	if pn, msg := protect(func() {
		out, err = verifhook.Evaluate(e, []proto.Message{res}, evalopts.OverrideTime(fixed), evalopts.EnvVariable("coll", coll), evalopts.EnvVariable("shared", c04Shared), evalopts.EnvVariable("empty", system.Collection{}),
			evalopts.EnvVariable("res", res), evalopts.EnvVariable("str", system.String("s")), evalopts.EnvVariable("num", system.Integer(1)))
	}); pn {
		return "panic:" + msg
	}
	return summarize(out, err)
}

func runC04Child(cfg config) {
	// prints one line per program: index TAB same|DIFF
	fixed := time.Date(2024, 2, 29, 13, 14, 15, 678000000, time.FixedZone("x", 5*3600+30*60))
	progs := c04Programs(cfg.seed)
	res := basePatient()
	g := &genState{r: &rng{s: cfg.seed + 400}}
	res2 := g.resource("Patient", 3)
	var exprs []*fhirpath.Expression
	var idx []int
	for i, p := range progs {
		if e, err := fhirpath.Compile(p, c04Copts()...); err == nil {
			exprs = append(exprs, e)
			idx = append(idx, i)
		}
	}
	// sequential reference
	ref := make([][2]string, len(exprs))
	for i, e := range exprs {
		ref[i] = [2]string{c04Evaluate(e, res, fixed), c04Evaluate(e, res2, fixed)}
	}
	goroutines := 16
	rounds := 3
	if cfg.tier == "thorough" {
		rounds = 12
	}
	// one option slice with spare capacity handed to every Compile: nobody may write into its backing array
	sharedOpts := make([]fhirpath.CompileOption, 0, 4)
	sharedOpts = append(sharedOpts, compopts.WithExperimentalFuncs())
	diff := make([]bool, len(exprs))
	var mu sync.Mutex
	var wg sync.WaitGroup
	for gi := 0; gi < goroutines; gi++ {
		wg.Add(1)
		go func(gi int) {
			defer wg.Done()
			r := &rng{s: cfg.seed*31 + uint64(gi)}
			for round := 0; round < rounds; round++ {
				for k := range exprs {
					i := (k*7 + gi*13 + r.intn(len(exprs))) % len(exprs)
					a := c04Evaluate(exprs[i], res, fixed)
					b := c04Evaluate(exprs[i], res2, fixed)
					if a != ref[i][0] || b != ref[i][1] {
						mu.Lock()
						diff[i] = true
						mu.Unlock()
					}
					if k%11 == 0 { // expressions nobody has evaluated before: first uses happen concurrently
						src := fmt.Sprintf("Patient.name.given.select($this.matches('A%d_%d_%d.*')).count() + Patient.name.given.select($this.replaceMatches('x%d%d', 'y')).count() + '%d'.toInteger() + %d", gi, round, k, gi, k, gi*1000+k, round)
						if fe, err := fhirpath.Compile(src, compopts.WithExperimentalFuncs()); err == nil {
							x := c04Evaluate(fe, res, fixed)
							if y := c04Evaluate(fe, res, fixed); x != y {
								mu.Lock()
								diff[i] = true
								mu.Unlock()
							}
						}
					}
					if gi%4 == 0 && k%9 == 0 { // compiles and patch compiles in the middle of it all
						fhirpath.Compile(progs[idx[i]], compopts.WithExperimentalFuncs(), compopts.AddFunction(fmt.Sprintf("custom%d", gi), func(in system.Collection) (system.Collection, error) { return in, nil }))
						patch.Compile("Patient.name")
						patch.Compile("Patient.name.given", sharedOpts...)
						fhirpath.Compile("Patient.name.given", sharedOpts...)
					}
				}
			}
		}(gi)
	}
	wg.Wait()
	for i := range exprs {
		s := "same"
		if diff[i] {
			s = "DIFF"
		}
		fmt.Printf("RESULT\t%d\t%s\n", idx[i], s)
	}
}

func civilOf(t time.Time) [8]int64 {
	_, off := t.Zone()
	return [8]int64{int64(t.Year()), int64(t.Month()), int64(t.Day()), int64(t.Hour()), int64(t.Minute()), int64(t.Second()), int64(t.Nanosecond() / 1e6), int64(off / 60)}
}

func runC04(cfg config) {
	sink := newSink(cfg.out, "C04", "C04.Model", "N * case * obs", "judge", 300)
	r := &rng{s: cfg.seed*0x9e3779b97f4a7c15 + 4}
	scale := 1
	if cfg.tier == "thorough" {
		scale = 5
	}
	// ---- (1) histories of Compile calls ---------------------------------------------------------------------------
	bounds := verifhook.TableBounds(false)
	boundsX := verifhook.TableBounds(true)
	nameID := map[string]uint64{}
	var baseNames, experNames []string
	for n := range bounds {
		baseNames = append(baseNames, n)
	}
	for n := range boundsX {
		if _, ok := bounds[n]; !ok {
			experNames = append(experNames, n)
		}
	}
	sort.Strings(baseNames)
	sort.Strings(experNames)
	id := func(n string) uint64 {
		if v, ok := nameID[n]; ok {
			return v
		}
		nameID[n] = uint64(len(nameID) + 1)
		return nameID[n]
	}
	var baseC, experC []string
	for _, n := range baseNames {
		baseC = append(baseC, coqN(id(n)))
	}
	for _, n := range experNames {
		experC = append(experC, coqN(id(n)))
	}
	customs := []string{"alpha", "beta", "gamma", "where", "count", "join", "exists"}
	probes := append([]string{"where", "count", "exists", "join", "matches"}, "alpha", "beta", "gamma")
	var probeC []string
	for _, p := range probes {
		probeC = append(probeC, coqN(id(p)))
	}
	goodFn := func(in system.Collection) (system.Collection, error) { return in, nil }
	badFn := func(x int) int { return x }
	visible := func(copts []fhirpath.CompileOption, viaPatch bool) string {
		// error code of the compile itself (on a trivial expression), then visibility of every probe name
		var err error
		if viaPatch {
			_, err = patch.Compile("1", copts...)
		} else {
			_, err = fhirpath.Compile("1", copts...)
		}
		if err != nil {
			return "(inl 1%N)" // the errors of all failing options are joined: only "failed" is compared
		}
		var vs []string
		for _, p := range probes {
			var cerr error
			src := "{}." + p + "()"
			if viaPatch {
				_, cerr = patch.Compile(src, copts...)
			} else {
				_, cerr = fhirpath.Compile(src, copts...)
			}
			// an unknown function is the only compile error that names the function table
			vis := cerr == nil || !strings.Contains(strings.ToLower(cerr.Error()), "function")
			if cerr != nil && strings.Contains(cerr.Error(), "arity") {
				vis = true
			}
			vs = append(vs, coqBool(vis))
		}
		return "(inr " + coqList(vs) + ")"
	}
	for hi := 0; hi < 120*scale; hi++ {
		n := 2 + r.intn(5)
		var hist, steps []string
		for k := 0; k < n; k++ {
			var copts []fhirpath.CompileOption
			var cs []string
			viaPatch := r.intn(4) == 0
			for j := 0; j < r.intn(4); j++ {
				switch r.intn(6) {
				case 0, 1, 2:
					nm := pick(r, customs)
					if r.intn(6) == 0 {
						copts = append(copts, compopts.AddFunction(nm, badFn))
						cs = append(cs, fmt.Sprintf("OAddFn %s false", coqN(id(nm))))
					} else {
						copts = append(copts, compopts.AddFunction(nm, goodFn))
						cs = append(cs, fmt.Sprintf("OAddFn %s true", coqN(id(nm))))
					}
				case 3, 4:
					copts = append(copts, compopts.WithExperimentalFuncs())
					cs = append(cs, "OExperimental")
				default:
					copts = append(copts, compopts.Permissive())
					cs = append(cs, "OPermissive")
				}
			}
			if viaPatch {
				cs = append(cs, "OTransform") // patch.Compile appends its own transform
			}
			hist = append(hist, coqList(cs))
			steps = append(steps, visible(copts, viaPatch))
		}
		sink.add(fmt.Sprintf("CHistory %s %s %s %s, OHistory %s", coqList(baseC), coqList(experC), coqList(hist), coqList(probeC), coqList(steps)),
			fmt.Sprintf("history of %d compiles: %s", n, strings.Join(hist, " ; ")), "history", fmt.Sprintf("history:%d:%d", n, hi%40))
	}

	// ---- (2) one instant per evaluation, whatever the process time zone ---------------------------------------------
	zones := []*time.Location{time.UTC, time.FixedZone("Asia/Kolkata", 5*3600+1800), time.FixedZone("America/St_Johns", -(3*3600 + 1800)), time.FixedZone("Pacific/Chatham", 12*3600+2700), time.FixedZone("west", -11*3600)}
	nowE := fhirpath.MustCompile("now()")
	todayE := fhirpath.MustCompile("today()")
	todE := fhirpath.MustCompile("timeOfDay()")
	bothE := fhirpath.MustCompile("now() = now() and today() = today() and timeOfDay() = timeOfDay()")
	res := basePatient()
	for i := 0; i < 200*scale; i++ {
		zone := pick(r, zones)
		t := time.Date(1970+r.intn(130), time.Month(1+r.intn(12)), 1+r.intn(28), r.intn(24), r.intn(60), r.intn(60), r.intn(1000)*1e6, zone)
		if i%10 == 0 {
			t = time.Date(2024, 2, 29, 23, 59, 59, 999e6, zone)
		}
		if i%10 == 1 {
			t = time.Date(2023, 12, 31, 0, 0, 0, 0, zone)
		}
		if i%4 == 1 {
			t = t.Add(time.Duration(r.intn(1000000)) * time.Nanosecond) // below the millisecond: now / today / timeOfDay all truncate
		}
		if i%20 == 5 {
			t = time.Date(2024, 12, 31, 23, 59, 59, 999600000, zone)
		}
		if i%20 == 15 {
			t = time.Date(2023, 6, 30, 12, 0, 30, 123500000, zone)
		}
		if i%20 == 2 {
			t = time.Time{} // the zero instant is an instant like any other
		}
		if i%20 == 12 {
			t = time.Time{}.In(zone)
		}
		if i%20 == 3 {
			t = time.Unix(0, 0).In(zone)
		}
		savedLocal := time.Local
		var obsNow [8]int64
		var obsToday [3]int64
		var obsTod [4]int64
		sameEverywhere := true
		first := true
		for _, procTZ := range zones {
			time.Local = procTZ
			read := func(e *fhirpath.Expression) any {
				out, err := verifhook.Evaluate(e, []proto.Message{res}, evalopts.OverrideTime(t))
				if err != nil || len(out) != 1 {
					return nil
				}
				return out[0]
			}
			var n8 [8]int64
			var d3 [3]int64
			var t4 [4]int64
			if v, ok := read(nowE).(system.DateTime); ok {
				if pt, err := time.Parse("2006-01-02T15:04:05.000Z07:00", strings.TrimPrefix(v.String(), "@")); err == nil {
					n8 = civilOf(pt)
				}
			}
			if v, ok := read(todayE).(system.Date); ok {
				if pt, err := time.Parse("2006-01-02", strings.TrimPrefix(v.String(), "@")); err == nil {
					d3 = [3]int64{int64(pt.Year()), int64(pt.Month()), int64(pt.Day())}
				}
			}
			if v, ok := read(todE).(system.Time); ok {
				if pt, err := time.Parse("15:04:05.000", strings.TrimPrefix(strings.TrimPrefix(v.String(), "@"), "T")); err == nil {
					t4 = [4]int64{int64(pt.Hour()), int64(pt.Minute()), int64(pt.Second()), int64(pt.Nanosecond() / 1e6)}
				}
			}
			if b, ok := read(bothE).(system.Boolean); !ok || !bool(b) {
				sameEverywhere = false
			}
			if first {
				obsNow, obsToday, obsTod, first = n8, d3, t4, false
			} else if n8 != obsNow || d3 != obsToday || t4 != obsTod {
				sameEverywhere = false
			}
		}
		time.Local = savedLocal
		c := civilOf(t)
		sink.add(fmt.Sprintf("CClock {| i_year := %d; i_month := %d; i_day := %d; i_hour := %d; i_min := %d; i_sec := %d; i_ms := %d; i_offset_min := %s |}, OClock (%d, %d, %d, %d, %d, %d, %d, %s) (%d, %d, %d) (%d, %d, %d, %d) %s",
			c[0], c[1], c[2], c[3], c[4], c[5], c[6], coqZ(c[7]), obsNow[0], obsNow[1], obsNow[2], obsNow[3], obsNow[4], obsNow[5], obsNow[6], coqZ(obsNow[7]),
			obsToday[0], obsToday[1], obsToday[2], obsTod[0], obsTod[1], obsTod[2], obsTod[3], coqBool(sameEverywhere)),
			"OverrideTime "+t.Format(time.RFC3339Nano), "clock", fmt.Sprintf("clock:%s:%d", zone, i%20))
	}

	// ---- (3) determinism: repeated, and concurrently from many goroutines (child process, race detector when built in) ----
	progs := c04Programs(cfg.seed)
	fixed := time.Date(2024, 2, 29, 13, 14, 15, 678000000, time.FixedZone("x", 5*3600+30*60))
	repeatSame := map[int]bool{}
	for i, p := range progs {
		e, err := fhirpath.Compile(p, c04Copts()...)
		if err != nil {
			continue
		}
		a := c04Evaluate(e, res, fixed)
		same := true
		for _, tp := range c04TagPrograms { // a custom function's answer is known
			if tp.src == p && tp.want != "" && a != tp.want {
				same = false
			}
		}
		for k := 0; k < 3; k++ {
			e2, _ := fhirpath.Compile(p, c04Copts()...)
			if c04Evaluate(e, res, fixed) != a || c04Evaluate(e2, proto.Clone(res), fixed) != a {
				same = false
			}
		}
		repeatSame[i] = same
	}
	// temporal elements of resources read under every process time zone: the answer may not depend on time.Local
	tzSame := map[string]bool{}
	tzRes := map[string]proto.Message{"Patient": res, "Observation": temporalObservation()}
	tzProgs := []string{"Patient.birthDate", "Patient.birthDate.toString()", "Patient.birthDate = @2000-02-29", "Patient.birthDate < today()", "Patient.birthDate + 1 day",
		"Observation.value", "Observation.value.toString()", "Observation.value > @T14:00", "Observation.value = @T14:30:15.250", "Observation.value.toTime()", "Observation.value is Time", "Observation.value < timeOfDay()",
		"Observation.component.value", "Observation.component.value.toString()", "Observation.component.value.where($this > @T01:00)", "Observation.component.value = @T23:59:59",
		"Observation.effective", "Observation.effective.toString()", "Observation.effective < now()", "Observation.effective = @2024-03-10T01:30:00+05:30", "Observation.effective.toDate()", "Observation.effective + 2 hours",
		"Observation.issued", "Observation.issued.toString()", "Observation.issued > @2020-01-01T00:00:00Z", "Observation.issued.toDateTime()", "Observation.issued = @2024-03-09T20:00:00.123Z"}
	// calendar arithmetic on values whose written offset is one the process zone uses, across that zone's daylight-saving
	// changes: the offset a value was written with is kept, whatever zone the process runs in
	tzProgs = append(tzProgs,
		"@2020-03-07T12:00:00-03:30 + 1 day", "(@2020-03-07T12:00:00-03:30 + 1 day).toString()", "(@2020-03-07T12:00:00-03:30 + 1 day) = @2020-03-08T12:00:00-03:30",
		"@2020-03-07T12:00:00-03:30 + 24 hours", "@2020-11-01T00:30:00-02:30 - 1 day", "@2020-03-07T12:00:00-05:00 + 1 day", "@2020-11-01T12:00:00-04:00 - 1 month",
		"@2020-03-28T12:00:00Z + 1 day", "(@2020-03-28T12:00:00+00:00 + 1 day).toString()", "@2020-10-24T12:00:00+01:00 + 1 day", "@2020-04-04T12:00:00+13:45 + 1 day",
		"@2020-09-26T12:00:00+12:45 + 1 day", "@2020-10-03T12:00:00+10:30 + 1 day", "@2021-04-03T12:00:00+11:00 + 1 day", "@2020-03-07T12:00:00-03:30 + 1 month",
		"Observation.effective + 1 day", "(Observation.effective + 5 days).toString()", "Observation.issued.toDateTime() + 1 day")
	dstZones := []*time.Location{}
	for _, name := range []string{"America/St_Johns", "America/New_York", "Europe/London", "Pacific/Chatham", "Australia/Lord_Howe", "Asia/Kolkata"} {
		if loc, err := time.LoadLocation(name); err == nil {
			dstZones = append(dstZones, loc)
		}
	}
	sink.extra["process_zones_with_daylight_saving_rules"] = len(dstZones)
	dstObs := dstObservation()
	for _, p := range tzProgs {
		e, err := fhirpath.Compile(p, compopts.WithExperimentalFuncs())
		if err != nil {
			continue
		}
		target := tzRes[strings.SplitN(p, ".", 2)[0]]
		if strings.Contains(p, " day") && strings.HasPrefix(p, "Observation.") {
			target = dstObs
		}
		if target == nil {
			target = res
			if strings.Contains(p, "Observation.") {
				target = dstObs
			}
		}
		savedLocal := time.Local
		same, first := true, ""
		for zi, procTZ := range append(append([]*time.Location{}, zones...), dstZones...) {
			time.Local = procTZ
			// literals are read at compile time: compile under the process zone as well
			if e2, cerr := fhirpath.Compile(p, compopts.WithExperimentalFuncs()); cerr == nil {
				e = e2
			}
			a := c04Evaluate(e, target, fixed)
			if zi == 0 {
				first = a
			} else if a != first {
				same = false
			}
		}
		time.Local = savedLocal
		tzSame[p] = same
	}
	self, _ := os.Executable()
	childOut := cfg.out + "-child"
	cmd := exec.Command(self, "C04-concurrent-child", "-seed", fmt.Sprint(cfg.seed), "-tier", cfg.tier, "-out", childOut)
	cmd.Env = append(os.Environ(), "GORACE=halt_on_error=0 exitcode=0")
	var stdout, stderr bytes.Buffer
	cmd.Stdout, cmd.Stderr = &stdout, &stderr
	runErr := cmd.Run()
	os.RemoveAll(childOut)
	races := strings.Count(stderr.String(), "WARNING: DATA RACE")
	crashed := runErr != nil
	conc := map[int]bool{}
	for _, line := range strings.Split(stdout.String(), "\n") {
		parts := strings.Split(line, "\t")
		if len(parts) == 3 && parts[0] == "RESULT" {
			var i int
			fmt.Sscanf(parts[1], "%d", &i)
			conc[i] = parts[2] == "same"
		}
	}
	raceTail := stderr.String()
	if len(raceTail) > 3000 {
		raceTail = raceTail[:3000]
	}
	sink.extra["race_reports"] = races
	sink.extra["child_crashed"] = crashed
	sink.extra["child_stderr_head"] = raceTail
	sink.extra["race_detector"] = raceEnabled
	var keys []int
	for i := range repeatSame {
		keys = append(keys, i)
	}
	sort.Ints(keys)
	for _, i := range keys {
		cs, ok := conc[i]
		if !ok {
			cs = !crashed // not reported: the child died before printing
		}
		sink.add(fmt.Sprintf("CRun %s, ORun %s %s %s %s", coqN(uint64(i)), coqBool(repeatSame[i]), coqBool(cs), coqBool(races == 0), coqBool(!crashed)),
			"program "+progs[i], "run", fmt.Sprintf("run:%d", i%200))
	}
	for pi, p := range tzProgs {
		same, ok := tzSame[p]
		if !ok {
			continue
		}
		sink.add(fmt.Sprintf("CRun %s, ORun %s true true true", coqN(uint64(100000+pi)), coqBool(same)), "under eleven process time zones (five fixed offsets, six with daylight-saving rules; compiled and evaluated under each): "+p, "run-tz", fmt.Sprintf("run-tz:%d", pi))
	}
	c04OrderStage(cfg, sink)
	sink.finish("every (resource type, navigation program) pair evaluated in two fresh processes in opposite orders (order independence); random histories of Compile / patch.Compile calls with AddFunction (fresh, duplicate, built-in names, bad signatures), WithExperimentalFuncs, Permissive: visibility of eight probe names after each; "+
		"OverrideTime at random instants in five zones x five process time zones: now / today / timeOfDay; date, time, dateTime and instant elements of resources read under the five process time zones; every sixth generated program plus regex / join / distinct programs evaluated repeatedly, with recompilation, and from 16 goroutines "+
		"on shared expressions and resources in a child process (race detector built in when the check driver asks for it)", false)
}
