package main

import (
	"errors"
	"fmt"
	"strings"
	"time"

	dtpb "github.com/google/fhir/go/proto/google/fhir/proto/r4/core/datatypes_go_proto"
	"github.com/verily-src/fhirpath-go/fhirpath"
	"github.com/verily-src/fhirpath-go/fhirpath/compopts"
	"github.com/verily-src/fhirpath-go/fhirpath/evalopts"
	"github.com/verily-src/fhirpath-go/fhirpath/system"
	"github.com/verily-src/fhirpath-go/fhirpath/verifhook"
	"google.golang.org/protobuf/proto"
)

func init() { props["C17"] = runC17 }

type c17EOpt struct {
	label string
	coq   string
	mk    func() fhirpath.EvaluateOption
}

func runC17(cfg config) {
	sink := newSink(cfg.out, "C17", "C17.Model", "N * case * obs", "judge", 400)
	patient := basePatient()
	input := []proto.Message{patient}
	elem := &dtpb.String{Value: "el"}
	// value ids: 100 input resource, 2 the UCUM url, 101.. Integers 1.., 104 String s, 105 the FHIR string element
	var vkindOf func(v any) string
	vkindOf = func(v any) string {
		switch x := v.(type) {
		case system.Integer:
			return "KVal " + coqN(uint64(100+int(x)))
		case system.String:
			if string(x) == "http://unitsofmeasure.org" {
				return "KVal 2%N"
			}
			return "KVal 104%N"
		case *dtpb.String:
			if x == elem {
				return "KVal 105%N"
			}
		case system.Collection:
			var xs []string
			for _, it := range x {
				xs = append(xs, vkindOf(it))
			}
			return "KColl " + coqList(xs)
		case proto.Message:
			if x == proto.Message(patient) {
				return "KVal 100%N"
			}
		}
		return "KBad"
	}
	ev := func(name string, val any) func() fhirpath.EvaluateOption {
		return func() fhirpath.EvaluateOption { return evalopts.EnvVariable(name, val) }
	}
	nameID := map[string]uint64{"context": 1, "ucum": 2, "a": 10, "b": 11, "c": 12, "d": 13, "%a": 14, "%context": 15, "zz": 99}
	mkVar := func(label, name string, val any) c17EOpt {
		return c17EOpt{label, fmt.Sprintf("EVar %s (%s)", coqN(nameID[name]), vkindOf(val)), ev(name, val)}
	}
	cats := []c17EOpt{
		mkVar("a=1", "a", system.Integer(1)),
		mkVar("b={2,3}", "b", system.Collection{system.Integer(2), system.Integer(3)}),
		mkVar("c={{1},s}", "c", system.Collection{system.Collection{system.Integer(1)}, system.String("s")}),
		mkVar("d=element", "d", elem),
		mkVar("a=2 (duplicate name)", "a", system.Integer(2)),
		mkVar("context=1 (predefined)", "context", system.Integer(1)),
		mkVar("ucum=s (predefined)", "ucum", system.String("s")),
		mkVar("b=go-string (unsupported)", "b", "x"),
		mkVar("c={1,{go-struct}} (nested unsupported)", "c", system.Collection{system.Integer(1), system.Collection{struct{}{}}}),
		mkVar("d=nil (unsupported)", "d", nil),
		mkVar("b={go-string,1} (unsupported first)", "b", system.Collection{"x", system.Integer(1)}),
		mkVar("c={{go-struct},1,s} (nested unsupported, not last)", "c", system.Collection{system.Collection{struct{}{}}, system.Integer(1), system.String("s")}),
		mkVar("d={{},{{}}} (empty once spliced)", "d", system.Collection{system.Collection{}, system.Collection{system.Collection{}}}),
		mkVar("b={{{2}},{{{3}}}} (three and four levels)", "b", system.Collection{system.Collection{system.Collection{system.Integer(2)}}, system.Collection{system.Collection{system.Collection{system.Integer(3)}}}}),
		mkVar("%a=3 (the percent sign is part of this name: another variable)", "%a", system.Integer(3)),
		mkVar("%context=2 (another variable, not the predefined one)", "%context", system.Integer(2)),
		{"OverrideTime", "EOverrideTime", func() fhirpath.EvaluateOption { return evalopts.OverrideTime(time.Unix(0, 0)) }},
	}
	maxLen := 3
	if cfg.tier == "thorough" {
		maxLen = 4
	}
	probeCalls := 0
	probe := func(in system.Collection) (system.Collection, error) {
		probeCalls++
		return system.Collection{system.Boolean(true)}, nil
	}
	progs := []struct{ src, name string }{{"%a", "a"}, {"%b", "b"}, {"%c", "c"}, {"%d", "d"}, {"%context", "context"}, {"%ucum", "ucum"}, {"%zz", "zz"},
		{"Patient.select(%b)", "b"}, {"Patient.name.first().select(%c)", "c"}, {"iif(true, %a, 0)", "a"}}
	compiled := map[string]*fhirpath.Expression{}
	for _, p := range progs {
		compiled[p.src] = fhirpath.MustCompile(p.src)
	}
	probeExpr := fhirpath.MustCompile("probe()", compopts.AddFunction("probe", probe))
	var rec func(prefix []int)
	rec = func(prefix []int) {
		// run this list
		var opts []fhirpath.EvaluateOption
		var coqs, labels []string
		for _, i := range prefix {
			opts = append(opts, cats[i].mk())
			coqs = append(coqs, cats[i].coq)
			labels = append(labels, cats[i].label)
		}
		probeCalls = 0
		protect(func() { verifhook.Evaluate(probeExpr, input, mkOpts(prefix, cats)...) })
		evaluated := probeCalls > 0
		for pi, p := range progs {
			if len(prefix) == maxLen && pi >= 7 && cfg.tier != "thorough" {
				continue
			}
			var out system.Collection
			var err error
			panicked, _ := protect(func() { out, err = verifhook.Evaluate(compiled[p.src], input, mkOpts(prefix, cats)...) })
			var r string
			switch {
			case panicked:
				r = "RErr false false" // no model outcome: reported as a disagreement
			case err != nil && (errors.Is(err, fhirpath.ErrExistingConstant) || errors.Is(err, fhirpath.ErrUnsupportedType)):
				r = fmt.Sprintf("RErr %s %s", coqBool(errors.Is(err, fhirpath.ErrExistingConstant)), coqBool(errors.Is(err, fhirpath.ErrUnsupportedType)))
			case err != nil:
				r = "RNotFound"
			default:
				var xs []string
				for _, it := range out {
					xs = append(xs, vkindOf(it))
				}
				r = "RVal " + coqList(xs)
			}
			sink.add(fmt.Sprintf("CVar (KVal 100%%N) %s %s, OVar (%s) %s", coqList(coqs), coqN(nameID[p.name]), r, coqBool(evaluated)),
				fmt.Sprintf("options [%s]  %s => %s", strings.Join(labels, "; "), p.src, r), fmt.Sprintf("vars/len%d", len(prefix)), fmt.Sprintf("%v|%s", prefix, p.src))
		}
		_ = opts
		if len(prefix) == maxLen {
			return
		}
		for i := range cats {
			rec(append(append([]int{}, prefix...), i))
		}
	}
	rec(nil)

	// ---- custom functions ---------------------------------------------------------------------------------
	type recv struct {
		input system.Collection
		args  []any
	}
	var last *recv
	ret := system.Collection{system.String("ret")}
	retErr := errors.New("user error")
	type fdef struct {
		label, sig string
		id        uint64
		name      string
		fn        any
	}
	sigCoq := func(isFunc, hasParams, firstColl, resOK bool, params string) string {
		return fmt.Sprintf("{| is_func := %s; has_params := %s; first_is_collection := %s; results_ok := %s; params := %s |}", coqBool(isFunc), coqBool(hasParams), coqBool(firstColl), coqBool(resOK), params)
	}
	defs := []fdef{
		{"f0()", sigCoq(true, true, true, true, "[]"), 1000, "f0", func(in system.Collection) (system.Collection, error) { last = &recv{in, nil}; return ret, nil }},
		{"f1(Integer)", sigCoq(true, true, true, true, "[PInteger]"), 1001, "f1", func(in system.Collection, a system.Integer) (system.Collection, error) {
			last = &recv{in, []any{a}}
			return ret, nil
		}},
		{"f2(any,String) returning an error", sigCoq(true, true, true, true, "[PAny; PString]"), 1002, "f2", func(in system.Collection, a any, b system.String) (system.Collection, error) {
			last = &recv{in, []any{a, b}}
			return nil, retErr
		}},
		{"fv(...any) variadic", sigCoq(true, true, true, true, "[PCollection]"), 1003, "fv", func(in system.Collection, a ...any) (system.Collection, error) { last = &recv{in, a}; return ret, nil }},
		{"g(Integer) wrong first parameter", sigCoq(true, true, false, true, "[]"), 1004, "g", func(a system.Integer) (system.Collection, error) { return nil, nil }},
		{"h wrong results", sigCoq(true, true, true, false, "[]"), 1005, "h", func(in system.Collection) system.Collection { return nil }},
		{"z no parameters", sigCoq(true, false, false, true, "[]"), 1006, "z", func() (system.Collection, error) { return nil, nil }},
		{"n not a function", sigCoq(false, false, false, false, "[]"), 1007, "n", 42},
		{"f1 again (duplicate name)", sigCoq(true, true, true, true, "[]"), 1001, "f1", func(in system.Collection) (system.Collection, error) { last = &recv{in, nil}; return ret, nil }},
		{"where (built-in name)", sigCoq(true, true, true, true, "[]"), 1, "where", func(in system.Collection) (system.Collection, error) { return nil, nil }},
		{"join(Integer): the name of an experimental function, registered by the user", sigCoq(true, true, true, true, "[PInteger]"), 1020, "join", func(in system.Collection, a system.Integer) (system.Collection, error) {
			last = &recv{in, []any{a}}
			return ret, nil
		}},
	}
	joinIdx := len(defs) - 1
	argForms := []struct{ coq, src string }{{"AInteger", "7"}, {"AString", "'s'"}, {"AOtherVal", "true"}, {"AEmpty", "{}"}, {"AMulti", "%m"},
		// a FHIR primitive element: neither a System Integer nor a System String; an `any` parameter receives the element itself
		{"AOtherVal", "%context.name.first().family"}}
	calls := []struct {
		name string
		id   uint64
		k    int
	}{{"f0", 1000, 0}, {"f0", 1000, 1}, {"f1", 1001, 0}, {"f1", 1001, 1}, {"f1", 1001, 2}, {"f2", 1002, 2}, {"f2", 1002, 1}, {"fv", 1003, 1}, {"fv", 1003, 0}, {"g", 1004, 0}, {"h", 1005, 0}, {"z", 1006, 0}, {"n", 1007, 0}, {"join", 1020, 1}, {"join", 1020, 0}}
	var lists [][]int
	for i := range defs {
		lists = append(lists, []int{i})
		for j := range defs {
			lists = append(lists, []int{i, j})
		}
	}
	// an accepted custom function stays the one that is called when the experimental functions are switched on after it
	// (index -1 stands for compopts.WithExperimentalFuncs(), an option the model ignores)
	lists = append(lists, []int{joinIdx, -1}, []int{joinIdx, -1, 0}, []int{0, joinIdx, -1})
	for _, l := range lists {
		var copts []fhirpath.CompileOption
		var coqs, labels []string
		for _, i := range l {
			if i < 0 {
				copts = append(copts, compopts.WithExperimentalFuncs())
				coqs = append(coqs, "COther")
				labels = append(labels, "WithExperimentalFuncs")
				continue
			}
			copts = append(copts, compopts.AddFunction(defs[i].name, defs[i].fn))
			coqs = append(coqs, fmt.Sprintf("CAddFunction %s %s", coqN(defs[i].id), defs[i].sig))
			labels = append(labels, defs[i].label)
		}
		for _, c := range calls {
			var argSets [][]int
			switch c.k {
			case 0:
				argSets = [][]int{{}}
			case 1:
				for a := range argForms {
					argSets = append(argSets, []int{a})
				}
			default:
				for a := range argForms {
					for b := range argForms[:3] {
						argSets = append(argSets, []int{a, b})
					}
				}
			}
			for _, as := range argSets {
				var srcArgs, coqArgs []string
				for _, a := range as {
					srcArgs = append(srcArgs, argForms[a].src)
					coqArgs = append(coqArgs, argForms[a].coq)
				}
				src := "Patient.name." + c.name + "(" + strings.Join(srcArgs, ", ") + ")"
				last = nil
				var out system.Collection
				var cerr, eerr error
				var e *fhirpath.Expression
				panicked, _ := protect(func() {
					e, cerr = fhirpath.Compile(src, copts...)
					if cerr != nil {
						return
					}
					out, eerr = verifhook.Evaluate(e, input, evalopts.EnvVariable("m", system.Collection{system.Integer(1), system.Integer(2)}))
				})
				r, ok := "", true
				switch {
				case panicked:
					r = "CEvalErr"
					ok = false
				case cerr != nil:
					r = "CCompileErr"
				case last == nil:
					r = "CEvalErr"
				default:
					r = "CCalled"
					// the probe must have received the current input collection (the two names) and the argument items
					ok = len(last.input) == 2 && last.input[0] == any(patient.Name[0]) && last.input[1] == any(patient.Name[1]) && len(last.args) == len(as)
					for i, a := range as {
						if !ok {
							break
						}
						switch argForms[a].coq {
						case "AInteger":
							ok = last.args[i] == any(system.Integer(7))
						case "AString":
							ok = last.args[i] == any(system.String("s"))
						case "AOtherVal":
							if strings.Contains(argForms[a].src, "family") {
								ok = last.args[i] == any(patient.Name[0].Family)
							} else {
								ok = last.args[i] == any(system.Boolean(true))
							}
						}
					}
					// and its result is passed through unchanged
					if c.name == "f2" {
						ok = ok && errors.Is(eerr, retErr)
					} else {
						ok = ok && eerr == nil && len(out) == 1 && out[0] == any(system.String("ret"))
					}
				}
				sink.add(fmt.Sprintf("CFn %s %s %s, OFn %s %s", coqList(coqs), coqN(c.id), coqList(coqArgs), r, coqBool(ok)),
					fmt.Sprintf("AddFunction [%s]  %s => %s", strings.Join(labels, "; "), src, r), "custom-fn/"+r, fmt.Sprintf("%v|%s", l, src))
			}
		}
	}
	// nested calls of one custom function: each invocation must see its own arguments
	{
		type call struct{ a, b any }
		var calls []call
		pr := func(in system.Collection, a any, b any) (system.Collection, error) {
			calls = append(calls, call{a, b})
			return system.Collection{system.String("ret")}, nil
		}
		for _, nest := range []struct{ src string; want []call }{
			{"Patient.name.pr(1, pr(2, 3))", []call{{system.Integer(2), system.Integer(3)}, {system.Integer(1), system.String("ret")}}},
			{"Patient.name.pr(pr(2, 3), 1)", []call{{system.Integer(2), system.Integer(3)}, {system.String("ret"), system.Integer(1)}}},
			{"Patient.name.pr(pr(1, 2), pr(3, pr(4, 5)))", []call{{system.Integer(1), system.Integer(2)}, {system.Integer(4), system.Integer(5)}, {system.Integer(3), system.String("ret")}, {system.String("ret"), system.String("ret")}}},
		} {
			calls = nil
			ok := true
			e, err := fhirpath.Compile(nest.src, compopts.AddFunction("pr", pr))
			if err != nil {
				ok = false
			} else if _, err := verifhook.Evaluate(e, input); err != nil {
				ok = false
			}
			if len(calls) != len(nest.want) {
				ok = false
			} else {
				for i := range calls {
					if calls[i] != nest.want[i] {
						ok = false
					}
				}
			}
			sig := sigCoq(true, true, true, true, "[PAny; PAny]")
			sink.add(fmt.Sprintf("CFn [CAddFunction 1010%%N %s] 1010%%N [AOtherVal; AOtherVal], OFn CCalled %s", sig, coqBool(ok)),
				fmt.Sprintf("nested custom calls %s: every invocation received its own arguments = %v", nest.src, ok), "custom-fn/nested", nest.src)
		}
	}
	sink.finish(fmt.Sprintf("all lists of evaluate options of length 0..%d over 13 categories (valid System value / collection / nested collection / element, duplicate name, predefined context and ucum, unsupported Go value, unsupported value nested in a collection (last, first and not-last positions), nil, OverrideTime) in every order x programs reading each variable at the root, inside select() and inside iif(); a probe function shows whether evaluation started; all lists of 1..2 AddFunction options over 10 signatures (well-typed, typed argument, any+String returning an error, variadic, wrong first parameter, wrong results, no parameters, not a function, duplicate name, built-in name) x calls with 0..2 arguments of every kind (Integer, String, other value, empty, multi-item), the probe recording what it received", maxLen), true)
}

func mkOpts(prefix []int, cats []c17EOpt) []fhirpath.EvaluateOption {
	var opts []fhirpath.EvaluateOption
	for _, i := range prefix {
		opts = append(opts, cats[i].mk())
	}
	return opts
}
