package main

import (
	"fmt"
	"sort"

	"github.com/verily-src/fhirpath-go/fhirpath/verifhook"
)

// A generator of FHIRPath programs shared by C01, C03 and C04: every operator and every (function, arity) of
// the function table over a pool of focus expressions and boundary arguments.

var progFocus = []string{
	"Patient.name", "Patient.name.given", "Patient.name.family", "Patient", "Patient.birthDate", "Patient.active", "Patient.multipleBirth", "Patient.deceased",
	"Patient.communication", "Patient.communication.preferred", "Patient.managingOrganization", "Patient.managingOrganization.reference", "%res.managingOrganization.reference", "%coll.distinct()", "%coll.tail()", "Patient.contained", "Patient.extension", "Patient.telecom.value",
	"%coll", "%empty", "%res.name", "%str", "%num", "{}", "1", "'abc'", "(1 | 2 | 2 | 3)", "('b' | 'a' | 'b')", "@2020-02-29", "@2020-02-29T10:00:00.5+02:00", "@T10:30", "1.50", "4 'mg'",
	"Patient.name.given | %coll", "Patient.name.given.first()", "Patient.name.given.intersect(%coll)", "%coll.intersect(Patient.name.given)", "%coll.tail().intersect(%coll)", "%coll.exclude(Patient.name.given)", "%coll.skip(1).take(1).intersect('Ann')", "%coll.distinct()", "%coll.select($this.toString())", "%coll.where($this = 'Ann')", "Patient.extension('http://example.org/second')", "Patient.name.extension('http://example.org/second').value", "Patient.name.select(%coll.take(1))", "Patient.name.given.select(%coll.tail())", "Patient.name.select(%empty)", "Patient.name.select(%coll.skip(1).take(1))", "Patient.name.given.select(%coll).distinct()", "(%coll.take(2)).combine(Patient.name.given)", "%coll.take(1).union(Patient.name.given)", "Patient.name.given.repeat(%coll.take(1))", "Patient.name.where(family.exists())", "Patient.id",
}

var progArgs = []string{
	"0", "1", "-1", "2", "2147483647", "-2147483648", "0.0", "1.5", "123456789012345678901234567890.12345678", "0.00000001", "''", "'a'", "'é𝄞'", "'[a-z]+'", "'('", "true", "false", "{}",
	"$this", "$this.given", "family", "given", "%coll", "%empty", "%str", "%num", "Patient.name", "Patient.name.given", "(1 | 2)", "@2020", "@2020-02-29", "@2020-02-29T10:00:00Z", "@T10:30:00.123",
	"1 'mg'", "3 days", "$this = 'Ann'", "$this.exists()", "$index", "'http://example.org/ext'", "String", "FHIR.string", "HumanName", "System.Integer", "Patient", "1 / 0", "1 div 0", "2147483647 + 1",
}

var progBinary = []string{"+", "-", "*", "/", "div", "mod", "&", "|", "=", "!=", "~", "!~", "<", "<=", ">", ">=", "and", "or", "xor", "implies", "in", "contains", "is", "as"}

// programs returns a deterministic list of programs: for scale 1 roughly 2,500.
func programs(r *rng, scale int) []string {
	seen := map[string]bool{}
	var out []string
	add := func(s string) {
		if !seen[s] {
			seen[s] = true
			out = append(out, s)
		}
	}
	for _, f := range progFocus {
		add(f)
	}
	// every (function, arity)
	bounds := verifhook.TableBounds(true)
	var names []string
	for n := range bounds {
		names = append(names, n)
	}
	sort.Strings(names)
	for _, n := range names {
		lo, hi := bounds[n][0], bounds[n][1]
		if hi > lo+3 || hi < lo {
			hi = lo + 3
		}
		for ar := lo; ar <= hi; ar++ {
			for k := 0; k < 3*scale+2; k++ {
				args := ""
				for i := 0; i < ar; i++ {
					if i > 0 {
						args += ", "
					}
					args += pick(r, progArgs)
				}
				add(fmt.Sprintf("%s.%s(%s)", pick(r, progFocus), n, args))
			}
		}
		// one argument too many, one too few
		if lo > 0 {
			add(fmt.Sprintf("%s.%s()", pick(r, progFocus), n))
		}
		extra := ""
		for i := 0; i <= bounds[n][1] && i < 6; i++ {
			if i > 0 {
				extra += ", "
			}
			extra += pick(r, progArgs)
		}
		add(fmt.Sprintf("%s.%s(%s)", pick(r, progFocus), n, extra))
	}
	// every binary operator over the pools, unary minus, indexers, chains
	for _, op := range progBinary {
		for k := 0; k < 10*scale+6; k++ {
			add(fmt.Sprintf("%s %s %s", pick(r, append(progFocus, progArgs...)), op, pick(r, append(progFocus, progArgs...))))
		}
	}
	for k := 0; k < 40*scale; k++ {
		add(fmt.Sprintf("-(%s)", pick(r, append(progFocus, progArgs...))))
		add(fmt.Sprintf("(%s)[%s]", pick(r, progFocus), pick(r, []string{"0", "1", "-1", "5", "2147483647", "%num", "{}", "'a'", "(0 | 1)"})))
		f1, f2 := pick(r, names), pick(r, names)
		add(fmt.Sprintf("%s.%s().%s()", pick(r, progFocus), f1, f2))
		add(fmt.Sprintf("%s.where(%s).select(%s)", pick(r, progFocus), pick(r, progArgs), pick(r, progArgs)))
		add(fmt.Sprintf("%s.tail().skip(%s).take(%s).distinct()", pick(r, progFocus), pick(r, []string{"0", "1", "-1", "100"}), pick(r, []string{"0", "1", "2", "-1"})))
		add(fmt.Sprintf("(%s).combine(%s).union(%s)", pick(r, progFocus), pick(r, progFocus), pick(r, progFocus)))
		add(fmt.Sprintf("iif(%s, %s, %s)", pick(r, progArgs), pick(r, progFocus), pick(r, progFocus)))
	}
	return out
}
