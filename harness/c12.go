package main

import (
	"fmt"
	"sort"
	"strings"

	apb "github.com/google/fhir/go/proto/google/fhir/proto/annotations_go_proto"
	dtpb "github.com/google/fhir/go/proto/google/fhir/proto/r4/core/datatypes_go_proto"
	"github.com/verily-src/fhirpath-go/fhirpath"
	"github.com/verily-src/fhirpath-go/fhirpath/evalopts"
	"github.com/verily-src/fhirpath-go/fhirpath/system"
	"github.com/verily-src/fhirpath-go/fhirpath/verifhook"
	"google.golang.org/protobuf/proto"
	"google.golang.org/protobuf/reflect/protoreflect"
)

func init() { props["C12"] = runC12 }

func upperFirst(s string) string {
	if s == "" {
		return s
	}
	return strings.ToUpper(s[:1]) + s[1:]
}

func runC12(cfg config) {
	sink := newSink(cfg.out, "C12", "C12.Model", "N * case * obs", "judge", 500)
	sink.header = "From Coq Require Import String.\n"
	r := &rng{s: cfg.seed*0x9e3779b97f4a7c15 + 12}
	g := &genState{r: &rng{s: cfg.seed + 1200}}
	// ---- the name universe, from google/fhir's descriptors ---------------------------------------------------
	fhirNames := map[string]bool{"Element": true, "BackboneElement": true, "Resource": true, "DomainResource": true}
	var resNames, complexNames, primNames []string
	for _, md := range resourceDescriptors() {
		fhirNames[string(md.Name())] = true
		resNames = append(resNames, string(md.Name()))
	}
	dtFile := (&dtpb.String{}).ProtoReflect().Descriptor().ParentFile()
	for i := 0; i < dtFile.Messages().Len(); i++ {
		md := dtFile.Messages().Get(i)
		switch sdKind(md) {
		case apb.StructureDefinitionKindValue_KIND_COMPLEX_TYPE:
			if strings.Contains(string(md.Name()), "WithFixed") {
				continue // google/fhir profile helpers, not FHIR types
			}
			fhirNames[string(md.Name())] = true
			complexNames = append(complexNames, string(md.Name()))
		case apb.StructureDefinitionKindValue_KIND_PRIMITIVE_TYPE:
			if md.Name() == "Xhtml" || md.Name() == "ReferenceId" {
				continue
			}
			fhirNames[lowerFirst(string(md.Name()))] = true
			primNames = append(primNames, lowerFirst(string(md.Name())))
		}
	}
	sort.Strings(complexNames)
	sort.Strings(primNames)
	sysNames := []string{"String", "Boolean", "Integer", "Decimal", "Date", "Time", "DateTime", "Quantity", "Any"}
	var universe []string
	universe = append(universe, resNames...)
	universe = append(universe, complexNames...)
	universe = append(universe, primNames...)
	for _, p := range primNames {
		universe = append(universe, upperFirst(p))
	}
	universe = append(universe, "Element", "BackboneElement", "Resource", "DomainResource", "Foo", "element", "patient")
	universe = append(universe, sysNames...)
	// ---- values --------------------------------------------------------------------------------------------------
	type val struct {
		env     any
		lit     string
		decl    declType
		inner   any // for a choice wrapper: the chosen value `as` must return
		desc    string
		minimal bool // an empty instance made from the descriptor: own type and the base types only
	}
	var vals []val
	for _, s := range []struct{ lit, name string }{{"1", "Integer"}, {"'a'", "String"}, {"true", "Boolean"}, {"1.5", "Decimal"}, {"@2020-01-01", "Date"}, {"@2020T", "DateTime"}, {"@T10:00", "Time"}, {"1 'mg'", "Quantity"}} {
		vals = append(vals, val{lit: s.lit, decl: declType{"KSystem", s.name}, desc: "literal " + s.lit})
	}
	types := []string{"Patient", "Observation", "MedicationRequest", "Bundle", "Encounter", "Binary", "Parameters", "Questionnaire", "StructureDefinition", "Claim"}
	nExtra := 6
	if cfg.tier == "thorough" {
		types = resourceNames()
		nExtra = 0
	}
	all := resourceNames()
	for i := 0; i < nExtra; i++ {
		types = append(types, all[(int(cfg.seed)*7+i*23)%len(all)])
	}
	// nested messages that share their short name with a nested message of another shape elsewhere in the schema (one a
	// code wrapper, one not: the element SubstanceSpecification.code and the code wrappers named CodeType): the
	// resources that own them are always walked, and generated until an instance shows up
	collide := c12ShortNameCollisions()
	var owners []string
	for o := range collide {
		owners = append(owners, o)
	}
	sort.Strings(owners)
	for _, o := range owners {
		have := false
		for _, tn := range types {
			have = have || tn == o
		}
		if !have {
			types = append(types, o)
		}
	}
	seenKind := map[string]int{}
	for _, tn := range types {
		res := g.resource(tn, 4)
		for try := 0; try < 12 && len(collide[tn]) > 0; try++ {
			found := false
			walkMessages(res, func(m proto.Message, _ proto.Message, _ protoreflect.FieldDescriptor, _ int) {
				found = found || collide[tn][string(m.ProtoReflect().Descriptor().FullName())]
			})
			if found {
				break
			}
			res = g.resource(tn, 4)
		}
		vals = append(vals, val{env: res, decl: declOf(res), desc: tn})
		walkMessages(res, func(m proto.Message, parent proto.Message, fd protoreflect.FieldDescriptor, idx int) {
			md := m.ProtoReflect().Descriptor()
			if isChoiceType(md) {
				// the wrapper has the type of its chosen value
				var inner proto.Message
				m.ProtoReflect().Range(func(f protoreflect.FieldDescriptor, v protoreflect.Value) bool {
					if f.Kind() == protoreflect.MessageKind {
						inner = v.Message().Interface()
					}
					return true
				})
				if inner != nil {
					if d := declOf(inner); d.kind != "" {
						vals = append(vals, val{env: m, decl: d, inner: inner, desc: tn + " choice " + string(md.Name())})
					}
				}
				return
			}
			d := declOf(m)
			if d.kind == "" {
				return
			}
			key := d.kind + ":" + d.name + ":" + string(md.FullName())
			seenKind[key]++
			if seenKind[key] > 2 && cfg.tier != "thorough" {
				return
			}
			vals = append(vals, val{env: m, decl: d, desc: tn + " " + string(md.FullName())})
		})
	}
	// every message type reachable from the 146 resources (nested components at any depth, datatypes, code wrappers): an
	// empty instance of each one not met above, against its own type and the base types
	{
		seenMD := map[string]bool{}
		var order []protoreflect.MessageDescriptor
		var reach func(md protoreflect.MessageDescriptor)
		reach = func(md protoreflect.MessageDescriptor) {
			fn := string(md.FullName())
			if seenMD[fn] || !strings.HasPrefix(fn, "google.fhir.r4.core.") || fn == "google.fhir.r4.core.ContainedResource" {
				return
			}
			seenMD[fn] = true
			order = append(order, md)
			fds := md.Fields()
			for i := 0; i < fds.Len(); i++ {
				if fd := fds.Get(i); fd.Kind() == protoreflect.MessageKind && !fd.IsMap() {
					reach(fd.Message())
				}
			}
		}
		for _, tn := range resourceNames() {
			reach((&genState{r: &rng{s: 1}}).resource(tn, 0).ProtoReflect().Descriptor())
		}
		nMinimal := 0
		for _, md := range order {
			if isChoiceType(md) {
				continue
			}
			m := newMessage(md).Interface()
			d := declOf(m)
			if d.kind == "" {
				continue
			}
			if seenKind[d.kind+":"+d.name+":"+string(md.FullName())] > 0 {
				continue
			}
			nMinimal++
			vals = append(vals, val{env: m, decl: d, desc: "empty " + string(md.FullName()), minimal: true})
		}
		sink.extra["reachable_message_types"] = len(order)
		sink.extra["empty_instances_added"] = nMinimal
	}
	input := []proto.Message{basePatient()}
	specCoq := func(ns, name string) string {
		nsq := "None"
		if ns != "" {
			nsq = fmt.Sprintf("(Some \"%s\"%%string)", ns)
		}
		return fmt.Sprintf("{| sp_ns := %s; sp_name := \"%s\"%%string; sp_is_fhir_name := %s |}", nsq, name, coqBool(fhirNames[name]))
	}
	for _, v := range vals {
		// targets: the value's own chain, fixed important names, and a seeded sample of the universe
		targets := map[string]bool{v.decl.name: true, "Element": true, "BackboneElement": true, "Resource": true, "DomainResource": true, "string": true, "String": true,
			"integer": true, "Integer": true, "uri": true, "Quantity": true, "code": true, "Any": true, "Foo": true, "Patient": true, "boolean": true, "Boolean": true}
		delete(targets, "")
		if v.minimal {
			targets = map[string]bool{v.decl.name: true, "Element": true, "BackboneElement": true, "Resource": true, "DomainResource": true, "code": true}
			delete(targets, "")
		}
		for k := 0; k < 10 && !v.minimal; k++ {
			targets[pick(r, universe)] = true
		}
		var tl []string
		for t := range targets {
			tl = append(tl, t)
		}
		sort.Strings(tl)
		for _, t := range tl {
			for _, ns := range []string{"", "FHIR", "System", "Bar"} {
				if ns == "Bar" && r.intn(4) != 0 {
					continue
				}
				if v.minimal && ns != "" {
					continue
				}
				spec := t
				if ns != "" {
					spec = ns + "." + t
				}
				ref := "%x"
				var opts []fhirpath.EvaluateOption
				if v.env != nil {
					opts = append(opts, evalopts.EnvVariable("x", v.env))
				} else {
					ref = "(" + v.lit + ")"
				}
				run := func(op string) (system.Collection, string) {
					var out system.Collection
					var cerr, eerr error
					panicked, _ := protect(func() {
						var e *fhirpath.Expression
						e, cerr = fhirpath.Compile(ref + " " + op + " " + spec)
						if cerr != nil {
							return
						}
						out, eerr = verifhook.Evaluate(e, input, opts...)
					})
					switch {
					case panicked:
						return nil, "panic"
					case cerr != nil:
						return nil, "compile"
					case eerr != nil:
						return nil, "eval"
					}
					return out, "ok"
				}
				out, st := run("is")
				oc := "OEvalErr"
				isTrue := false
				switch st {
				case "compile":
					oc = "OCompileErr"
				case "ok":
					if len(out) == 1 {
						if b, ok := out[0].(system.Boolean); ok {
							oc = "OBool " + coqBool(bool(b))
							isTrue = bool(b)
						}
					}
				}
				asOK := true
				if st == "ok" {
					aout, ast := run("as")
					switch {
					case ast != "ok":
						asOK = false
					case isTrue:
						want := v.env
						if v.inner != nil {
							want = v.inner
						}
						if v.env == nil {
							asOK = len(aout) == 1 // a System value: the value itself
						} else {
							asOK = len(aout) == 1 && aout[0] == want
						}
					default:
						asOK = len(aout) == 0
					}
				}
				sink.add(fmt.Sprintf("((%s, \"%s\"%%string), %s), (%s, %s)", v.decl.kind, v.decl.name, specCoq(ns, t), oc, coqBool(asOK)),
					fmt.Sprintf("%s [%s %s]  is/as %s => %s, as ok=%v", v.desc, v.decl.kind, v.decl.name, spec, oc, asOK), v.decl.kind+"/"+oc, v.decl.kind+v.decl.name+"|"+spec)
			}
		}
	}
	sink.finish("every element (and choice wrapper) of generated resources (quick: 10 fixed + 6 seeded resource types; thorough: all 146), at most two values per distinct message type, plus System literals; each tested with `is` and `as` against its own type chain, the base types, and a seeded sample of all R4 resource, datatype and primitive names (both cases), System names and unknown names, unqualified and qualified with FHIR / System / an unknown namespace; declared types come from google/fhir's descriptor annotations", false)
}

// c12ShortNameCollisions: owner resource type -> full names of its nested messages whose short name is also the short
// name of a nested message of the other kind (one a code wrapper, one not) of some resource.
func c12ShortNameCollisions() map[string]map[string]bool {
	type shape struct {
		owner, full string
		hasValue    bool // (is a code wrapper)
	}
	byShort := map[string][]shape{}
	var walk func(owner string, md protoreflect.MessageDescriptor)
	walk = func(owner string, md protoreflect.MessageDescriptor) {
		nested := md.Messages()
		for i := 0; i < nested.Len(); i++ {
			n := nested.Get(i)
			byShort[string(n.Name())] = append(byShort[string(n.Name())], shape{owner, string(n.FullName()), isCodeWrapper(n)})
			walk(owner, n)
		}
	}
	for _, tn := range resourceNames() {
		walk(tn, (&genState{r: &rng{s: 1}}).resource(tn, 0).ProtoReflect().Descriptor())
	}
	out := map[string]map[string]bool{}
	for _, shapes := range byShort {
		with, without := false, false
		for _, sh := range shapes {
			with = with || sh.hasValue
			without = without || !sh.hasValue
		}
		if !(with && without) {
			continue
		}
		// every message that is not a code wrapper, and the least deeply nested one that is
		best := ""
		for _, sh := range shapes {
			if sh.hasValue && (best == "" || strings.Count(sh.full, ".") < strings.Count(best, ".")) {
				best = sh.full
			}
		}
		for _, sh := range shapes {
			if sh.hasValue && sh.full != best {
				continue
			}
			if out[sh.owner] == nil {
				out[sh.owner] = map[string]bool{}
			}
			out[sh.owner][sh.full] = true
		}
	}
	return out
}
