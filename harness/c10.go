package main

import (
	"encoding/hex"
	"fmt"
	"math"
	"strings"

	dtpb "github.com/google/fhir/go/proto/google/fhir/proto/r4/core/datatypes_go_proto"
	ppb "github.com/google/fhir/go/proto/google/fhir/proto/r4/core/resources/patient_go_proto"
	"github.com/shopspring/decimal"
	"github.com/verily-src/fhirpath-go/fhirpath"
	"github.com/verily-src/fhirpath-go/fhirpath/evalopts"
	"github.com/verily-src/fhirpath-go/fhirpath/system"
	"github.com/verily-src/fhirpath-go/fhirpath/verifhook"
	"google.golang.org/protobuf/proto"
)

func init() { props["C10"] = runC10 }

// ---- equality classes, computed without the library's equality ---------------------------
type classer struct {
	ids map[string]uint64
}

func (c *classer) id(key string) uint64 {
	if v, ok := c.ids[key]; ok {
		return v
	}
	v := uint64(len(c.ids) + 1)
	c.ids[key] = v
	return v
}

func normDec(s string) string {
	d, err := decimal.NewFromString(s)
	if err != nil {
		return "?" + s
	}
	t := d.String()
	if strings.Contains(t, ".") {
		t = strings.TrimRight(strings.TrimRight(t, "0"), ".")
	}
	if t == "-0" || t == "" {
		t = "0"
	}
	return t
}

func (c *classer) of(item any) uint64 {
	switch v := item.(type) {
	case nil:
		return c.id("nil")
	case system.Integer:
		return c.id("n:" + fmt.Sprint(int32(v)))
	case system.Decimal:
		return c.id("n:" + normDec(v.String()))
	case system.String:
		return c.id("s:" + string(v))
	case system.Boolean:
		return c.id("b:" + fmt.Sprint(bool(v)))
	case *dtpb.Integer:
		return c.id("n:" + fmt.Sprint(v.Value))
	case *dtpb.PositiveInt:
		return c.id("n:" + fmt.Sprint(v.Value))
	case *dtpb.Decimal:
		return c.id("n:" + normDec(v.Value))
	case *dtpb.String:
		return c.id("s:" + v.Value)
	case *dtpb.Code:
		return c.id("s:" + v.Value)
	case *dtpb.Uri:
		return c.id("s:" + v.Value)
	case *dtpb.Boolean:
		return c.id("b:" + fmt.Sprint(v.Value))
	case proto.Message:
		b, _ := proto.MarshalOptions{Deterministic: true}.Marshal(v)
		return c.id("p:" + string(v.ProtoReflect().Descriptor().FullName()) + ":" + hex.EncodeToString(b))
	}
	return c.id(fmt.Sprintf("?%T:%v", item, item))
}

func (c *classer) coll(items []any) string {
	var xs []string
	for _, it := range items {
		xs = append(xs, coqN(c.of(it)))
	}
	return coqList(xs)
}

// ---- fixtures -------------------------------------------------------------------------------
func c10Patient() *ppb.Patient {
	p := basePatient()
	p.Name = []*dtpb.HumanName{
		{Family: fstr("Doe"), Given: []*dtpb.String{fstr("Ann"), fstr("Bea"), fstr("Ann")}},
		{Family: fstr("Roe"), Given: []*dtpb.String{fstr("Cy")}},
		{Family: fstr("Doe"), Given: []*dtpb.String{fstr("Ann"), fstr("Bea"), fstr("Ann")}}, // equal to name[0], different node
		{Given: []*dtpb.String{fstr("Bea"), fstr("Dee")}},                                 // no family
	}
	p.Telecom = []*dtpb.ContactPoint{{Value: fstr("555-1")}, {Value: fstr("555-2")}, {Value: fstr("555-1")}}
	p.Communication = append(p.Communication, &ppb.Patient_Communication{Language: &dtpb.CodeableConcept{Text: fstr("de")}}, &ppb.Patient_Communication{Preferred: &dtpb.Boolean{Value: true}, Language: &dtpb.CodeableConcept{Text: fstr("es")}})
	for _, u := range []string{"http://example.org/fhir/StructureDefinition/flag", "http://example.org/fhir/StructureDefinition/Flag", "http://example.org/fhir/StructureDefinition/other", "http://example.org/fhir/StructureDefinition/flag", "HTTP://example.org/fhir/StructureDefinition/flag"} {
		p.Extension = append(p.Extension, &dtpb.Extension{Url: &dtpb.Uri{Value: u}, Value: &dtpb.Extension_ValueX{Choice: &dtpb.Extension_ValueX_StringValue{StringValue: fstr(u[len(u)-4:])}}})
	}
	p.Address = []*dtpb.Address{{Line: []*dtpb.String{fstr("1 Main St"), fstr("Apt 2")}, City: fstr("X")}}
	return p
}

type c10Coll struct {
	name  string // how it appears in a program
	items []any  // natively known contents (for resource paths: the resource's own nodes)
	env   bool
}

func c10Collections(p *ppb.Patient) []c10Coll {
	var given, family []any
	var names, telecom []any
	for _, n := range p.Name {
		names = append(names, n)
		for _, g := range n.Given {
			given = append(given, g)
		}
		if n.Family != nil {
			family = append(family, n.Family)
		}
	}
	for _, t := range p.Telecom {
		telecom = append(telecom, t)
	}
	shared := &dtpb.HumanName{Family: fstr("Zed")}
	var comms []any
	for _, c := range p.Communication {
		comms = append(comms, c)
	}
	return []c10Coll{
		{"Patient.communication", comms, false},
		{"%fbools", []any{&dtpb.Boolean{Value: true}, &dtpb.Boolean{Value: false}, system.Boolean(true), &dtpb.Boolean{Value: true}, system.Boolean(false)}, true},
		{"%ftrue", []any{&dtpb.Boolean{Value: true}, &dtpb.Boolean{Value: true}}, true},
		{"%ffalse", []any{&dtpb.Boolean{Value: false}}, true},
		{"%fmix", []any{&dtpb.Boolean{Value: true}, &dtpb.Boolean{Value: false}, &dtpb.Boolean{Value: true}}, true},
		{"Patient.communication.take(2)", comms[:2], false},
		{"Patient.communication.skip(1).take(1)", comms[1:2], false},
		{"Patient.communication.first()", comms[:1], false},
		{"Patient.name", names, false},
		{"Patient.name.given", given, false},
		{"Patient.name.family", family, false},
		{"Patient.telecom", telecom, false},
		{"Patient.maritalStatus", nil, false},
		{"%ints", []any{system.Integer(1), system.Integer(2), system.Integer(3), system.Integer(2), system.Integer(5), system.Integer(1)}, true},
		{"%mixed", []any{system.Integer(1), system.MustParseDecimal("1.0"), system.String("1"), system.MustParseDecimal("2.50"), system.MustParseDecimal("2.5"), &dtpb.Integer{Value: 1}, system.Boolean(true)}, true},
		{"%strs", []any{system.String("Ann"), fstr("Ann"), system.String("Bea"), system.String(""), fstr("Cy"), system.String("Ann")}, true},
		{"%one", []any{system.Integer(7)}, true},
		{"%none", []any{}, true},
		{"%protos", []any{shared, &dtpb.HumanName{Family: fstr("Zed")}, shared, &dtpb.HumanName{Family: fstr("Yan")}, p.Name[1]}, true},
		{"%decs", []any{system.MustParseDecimal("0.10"), system.MustParseDecimal("0.1"), system.MustParseDecimal("0.100"), system.MustParseDecimal("3.0"), system.Integer(3)}, true},
		{"%mixedc", []any{&dtpb.HumanName{Family: fstr("Zed")}, &dtpb.Period{}, &dtpb.HumanName{Family: fstr("Yan"), Given: []*dtpb.String{fstr("Y")}}, &dtpb.ContactPoint{Value: fstr("555")}, &dtpb.HumanName{Family: fstr("Zed")}}, true},
		// items of ONE Go type whose choice element holds different types: a projection through the choice names a field
		// only some of them have, and the ones without come first
		{"%exts", []any{
			&dtpb.Extension{Url: &dtpb.Uri{Value: "urn:a"}, Value: &dtpb.Extension_ValueX{Choice: &dtpb.Extension_ValueX_StringValue{StringValue: fstr("s1")}}},
			&dtpb.Extension{Url: &dtpb.Uri{Value: "urn:b"}, Value: &dtpb.Extension_ValueX{Choice: &dtpb.Extension_ValueX_Quantity{Quantity: &dtpb.Quantity{Value: &dtpb.Decimal{Value: "1"}, Unit: fstr("kg")}}}},
			&dtpb.Extension{Url: &dtpb.Uri{Value: "urn:c"}, Value: &dtpb.Extension_ValueX{Choice: &dtpb.Extension_ValueX_Boolean{Boolean: &dtpb.Boolean{Value: true}}}},
			&dtpb.Extension{Url: &dtpb.Uri{Value: "urn:d"}, Value: &dtpb.Extension_ValueX{Choice: &dtpb.Extension_ValueX_Quantity{Quantity: &dtpb.Quantity{Value: &dtpb.Decimal{Value: "2"}, Unit: fstr("mg")}}}},
		}, true},
		{"%other", []any{system.Integer(2), system.Integer(9), system.String("Ann"), system.MustParseDecimal("2.5"), fstr("Cy"), &dtpb.HumanName{Family: fstr("Zed")}, system.Integer(2)}, true},
	}
}

func runC10(cfg config) {
	sink := newSink(cfg.out, "C10", "C10.Model", "N * case * outcome", "judge", 300)
	cl := &classer{ids: map[string]uint64{}}
	p := c10Patient()
	input := []proto.Message{p}
	colls := c10Collections(p)
	var envOpts []fhirpath.EvaluateOption
	for _, c := range colls {
		if c.env {
			// the library gets its own backing array (the same one for every evaluation of the run); expectations are computed from
			// c.items, which it never sees: a collection the library damages answers differently from then on
			envOpts = append(envOpts, evalopts.EnvVariable(strings.TrimPrefix(c.name, "%"), system.Collection(append(make([]any, 0, len(c.items)+3), c.items...))))
		}
	}
	envOpts = append(envOpts, evalopts.EnvVariable("m2", system.Collection{system.Integer(1), system.Integer(2)}))
	envOpts = append(envOpts, evalopts.EnvVariable("nmin", system.Integer(math.MinInt32)))
	envOpts = append(envOpts, evalopts.EnvVariable("nmax", system.Integer(math.MaxInt32)))

	eval := func(src string) (system.Collection, error, bool, string) {
		var out system.Collection
		var err error
		panicked, msg := protect(func() {
			var e *fhirpath.Expression
			e, err = fhirpath.Compile(src)
			if err != nil {
				return
			}
			out, err = verifhook.Evaluate(e, input, envOpts...)
		})
		return out, err, panicked, msg
	}
	ownNodes := func(out system.Collection, pools ...[]any) bool {
		for _, it := range out {
			if it == nil {
				return false
			}
			if m, ok := it.(proto.Message); ok {
				found := false
				for _, pool := range pools {
					for _, q := range pool {
						if qm, ok := q.(proto.Message); ok && qm == m {
							found = true
						}
					}
				}
				if !found {
					return false
				}
			}
		}
		return true
	}
	collOutcome := func(out system.Collection, err error, panicked bool, pools ...[]any) string {
		switch {
		case panicked:
			return "Panic"
		case err != nil:
			return "Err"
		}
		return fmt.Sprintf("(Ok (OColl %s %s))", cl.coll(out), coqBool(ownNodes(out, pools...)))
	}
	boolOutcome := func(out system.Collection, err error, panicked bool) string {
		switch {
		case panicked:
			return "Panic"
		case err != nil:
			return "Err"
		}
		if len(out) == 1 {
			if b, ok := out[0].(system.Boolean); ok {
				return "(Ok (OBool " + coqBool(bool(b)) + "))"
			}
		}
		return fmt.Sprintf("(Ok (OColl %s false))", cl.coll(out))
	}
	intOutcome := func(out system.Collection, err error, panicked bool) string {
		switch {
		case panicked:
			return "Panic"
		case err != nil:
			return "Err"
		}
		if len(out) == 1 {
			if b, ok := out[0].(system.Integer); ok {
				return "(Ok (OInt " + coqZ(int64(b)) + "))"
			}
		}
		return fmt.Sprintf("(Ok (OColl %s false))", cl.coll(out))
	}

	// criteria whose per-item value is known natively
	type crit struct {
		src  string
		eval func(item any) string // KT KF KE KM
		ok   func(items []any) bool
	}
	isPrim := func(it any) bool {
		switch it.(type) {
		case system.Integer, system.Decimal, system.String, system.Boolean, *dtpb.String, *dtpb.Integer, *dtpb.Decimal, *dtpb.Boolean, *dtpb.Code:
			return true
		}
		return false
	}
	always := func([]any) bool { return true }
	crits := []crit{
		{"true", func(any) string { return "KT" }, always},
		{"false", func(any) string { return "KF" }, always},
		{"{}", func(any) string { return "KE" }, always},
		{"$this.exists()", func(any) string { return "KT" }, always},
		{"%m2", func(any) string { return "KM" }, always},
		{"$this = 'Ann'", func(it any) string {
			if isPrim(it) && cl.of(it) == cl.id("s:Ann") {
				return "KT"
			}
			return "KF"
		}, always},
		{"$this = 2", func(it any) string {
			if isPrim(it) && cl.of(it) == cl.id("n:2") {
				return "KT"
			}
			return "KF"
		}, always},
		{"$this != 1", func(it any) string {
			if isPrim(it) && cl.of(it) == cl.id("n:1") {
				return "KF"
			}
			return "KT"
		}, always},
		{"family = 'Doe'", func(it any) string {
			n := it.(*dtpb.HumanName)
			if n.Family == nil {
				return "KE"
			}
			if n.Family.Value == "Doe" {
				return "KT"
			}
			return "KF"
		}, func(items []any) bool {
			for _, it := range items {
				if _, ok := it.(*dtpb.HumanName); !ok {
					return false
				}
			}
			return len(items) > 0
		}},
		{"preferred", func(it any) string { // a criterion that is a FHIR boolean ELEMENT, not a System Boolean
			c := it.(*ppb.Patient_Communication)
			switch {
			case c.Preferred == nil:
				return "KE"
			case c.Preferred.Value:
				return "KT"
			}
			return "KF"
		}, func(items []any) bool {
			for _, it := range items {
				if _, ok := it.(*ppb.Patient_Communication); !ok {
					return false
				}
			}
			return len(items) > 0
		}},
		{"$this", func(it any) string { // the item itself as criterion: FHIR boolean elements and System Booleans
			switch b := it.(type) {
			case *dtpb.Boolean:
				if b.Value {
					return "KT"
				}
				return "KF"
			case system.Boolean:
				if b {
					return "KT"
				}
				return "KF"
			}
			return "KT"
		}, func(items []any) bool {
			for _, it := range items {
				switch it.(type) {
				case *dtpb.Boolean, system.Boolean:
				default:
					return false
				}
			}
			return len(items) > 0
		}},
		{"given", func(it any) string { // a collection-valued criterion: singleton -> true, several -> error
			n := it.(*dtpb.HumanName)
			switch len(n.Given) {
			case 0:
				return "KE"
			case 1:
				return "KT"
			}
			return "KM"
		}, func(items []any) bool {
			for _, it := range items {
				if _, ok := it.(*dtpb.HumanName); !ok {
					return false
				}
			}
			return len(items) > 0
		}},
	}
	for _, c := range colls {
		cq := cl.coll(c.items)
		for _, k := range crits {
			if !k.ok(c.items) {
				continue
			}
			var ks []string
			for _, it := range c.items {
				ks = append(ks, k.eval(it))
			}
			kq := coqList(ks)
			for _, f := range []struct{ ctor, fn string }{{"CWhere", "where"}, {"CExistsP", "exists"}, {"CAllP", "all"}} {
				src := fmt.Sprintf("%s.%s(%s)", c.name, f.fn, k.src)
				out, err, pan, _ := eval(src)
				var oc string
				if f.ctor == "CWhere" {
					oc = collOutcome(out, err, pan, c.items)
				} else {
					oc = boolOutcome(out, err, pan)
				}
				sink.add(fmt.Sprintf("%s %s %s, %s", f.ctor, cq, kq, oc), src+" => "+oc, f.ctor, f.ctor+"|"+c.name+"|"+k.src)
			}
		}
		// extension(url) is extension.where(url = url): exact string equality, for every url the extensions carry
		if c.name == "Patient.name" {
			var exts []any
			for _, e := range p.Extension {
				exts = append(exts, e)
			}
			seenU := map[string]bool{}
			for _, e := range p.Extension {
				u := e.GetUrl().GetValue()
				if seenU[u] {
					continue
				}
				seenU[u] = true
				var ks []string
				for _, x := range p.Extension {
					if x.GetUrl().GetValue() == u {
						ks = append(ks, "KT")
					} else {
						ks = append(ks, "KF")
					}
				}
				src := fmt.Sprintf("Patient.extension('%s')", u)
				out, err, pan, _ := eval(src)
				sink.add(fmt.Sprintf("CWhere %s %s, %s", cl.coll(exts), coqList(ks), collOutcome(out, err, pan, exts)), src+" => extension(url) against where(url = ...)", "CWhere", "extension|"+u)
			}
		}
		// select
		type proj struct {
			src string
			per func(item any) ([]any, bool)
		}
		projs := []proj{
			{"$this", func(it any) ([]any, bool) { return []any{it}, true }},
			{"'k'", func(it any) ([]any, bool) { return []any{system.String("k")}, true }},
			{"{}", func(it any) ([]any, bool) { return nil, true }},
			// projections naming a field that only some of the items have: select() skips the others
			{"family", func(it any) ([]any, bool) {
				if n, ok := it.(*dtpb.HumanName); ok && n.Family != nil {
					return []any{n.Family}, true
				}
				_, isMsg := it.(proto.Message)
				return nil, isMsg
			}},
			{"where(family = 'Zed')", func(it any) ([]any, bool) {
				if n, ok := it.(*dtpb.HumanName); ok && n.GetFamily().GetValue() == "Zed" {
					return []any{it}, true
				}
				_, isMsg := it.(proto.Message)
				return nil, isMsg
			}},
			{"$this.where(family.exists()).family", func(it any) ([]any, bool) {
				if n, ok := it.(*dtpb.HumanName); ok && n.Family != nil {
					return []any{n.Family}, true
				}
				_, isMsg := it.(proto.Message)
				return nil, isMsg
			}},
			{"value.unit", func(it any) ([]any, bool) {
				e, ok := it.(*dtpb.Extension)
				if !ok {
					return nil, false
				}
				if q := e.GetValue().GetQuantity(); q != nil && q.Unit != nil {
					return []any{q.Unit}, true
				}
				return nil, true
			}},
			{"given", func(it any) ([]any, bool) {
				n, ok := it.(*dtpb.HumanName)
				if !ok {
					return nil, false
				}
				var r []any
				for _, g := range n.Given {
					r = append(r, g)
				}
				return r, true
			}},
		}
		if strings.HasPrefix(c.name, "%") && len(c.items) >= 2 {
			// a projection that is a strict prefix of the input collection itself, once per item
			first := c.items[0]
			projs = append(projs, struct {
				src string
				per func(any) ([]any, bool)
			}{c.name + ".take(1)", func(any) ([]any, bool) { return []any{first}, true }})
		}
		for _, pj := range projs {
			if strings.Contains(pj.src, "family") && c.name != "%mixedc" && c.name != "%protos" && c.name != "Patient.name" {
				continue // (a field none of the items has is an error, not a skip)
			}
			var pers []string
			var pool []any
			ok := true
			for _, it := range c.items {
				r, good := pj.per(it)
				if !good {
					ok = false
					break
				}
				pers = append(pers, cl.coll(r))
				pool = append(pool, r...)
			}
			if !ok {
				continue
			}
			src := fmt.Sprintf("%s.select(%s)", c.name, pj.src)
			out, err, pan, _ := eval(src)
			oc := collOutcome(out, err, pan, pool, c.items)
			sink.add(fmt.Sprintf("CSelect %s, %s", coqList(pers), oc), src+" => "+oc, "CSelect", "CSelect|"+c.name+"|"+pj.src)
		}
		// count / empty / exists / first / last / tail / distinct / isDistinct
		for _, f := range []struct{ ctor, fn, kind string }{
			{"CCount", "count()", "int"}, {"CEmpty", "empty()", "bool"}, {"CExists", "exists()", "bool"},
			{"CFirst", "first()", "coll"}, {"CLast", "last()", "coll"}, {"CTail", "tail()", "coll"},
			{"CDistinct", "distinct()", "coll"}, {"CIsDistinct", "isDistinct()", "bool"},
		} {
			src := c.name + "." + f.fn
			out, err, pan, _ := eval(src)
			var oc string
			switch f.kind {
			case "int":
				oc = intOutcome(out, err, pan)
			case "bool":
				oc = boolOutcome(out, err, pan)
			default:
				oc = collOutcome(out, err, pan, c.items)
			}
			sink.add(fmt.Sprintf("%s %s, %s", f.ctor, cq, oc), src+" => "+oc, f.ctor, f.ctor+"|"+c.name)
		}
		// skip / take / indexer for every n in [-3, count+3] and the int32 boundaries
		var ns []int64
		for n := -3; n <= len(c.items)+3; n++ {
			ns = append(ns, int64(n))
		}
		ns = append(ns, math.MinInt32, math.MaxInt32)
		for _, n := range ns {
			lit := fmt.Sprint(n)
			if n < 0 {
				lit = fmt.Sprintf("(-%d)", -n)
			}
			if n == math.MinInt32 {
				lit = "%nmin"
			}
			if n == math.MaxInt32 {
				lit = "%nmax"
			}
			for _, f := range []struct{ ctor, fmtSrc string }{{"CSkip", "%s.skip(%s)"}, {"CTake", "%s.take(%s)"}, {"CIndex", "%s[%s]"}} {
				src := fmt.Sprintf(f.fmtSrc, c.name, lit)
				out, err, pan, _ := eval(src)
				oc := collOutcome(out, err, pan, c.items)
				sink.add(fmt.Sprintf("%s %s %s, %s", f.ctor, cq, coqZ(n), oc), src+" => "+oc, f.ctor, fmt.Sprintf("%s|%s|%d", f.ctor, c.name, n))
			}
		}
		// a COMPUTED n: the argument is evaluated with the input collection as its focus (count() is the input's)
		for _, cn := range []struct {
			src string
			n   int64
		}{{"count() - 1", int64(len(c.items)) - 1}, {"count()", int64(len(c.items))}, {"count() - 2", int64(len(c.items)) - 2}, {"$this.count() - 1", int64(len(c.items)) - 1},
			{"distinct().count() - distinct().count()", 0}, {"first().count()", int64(min(len(c.items), 1))}} {
			for _, f := range []struct{ ctor, fmtSrc string }{{"CSkip", "%s.skip(%s)"}, {"CTake", "%s.take(%s)"}} {
				if len(c.items) == 0 {
					continue // an empty input is empty whatever the argument; count() on it is still 0
				}
				src := fmt.Sprintf(f.fmtSrc, c.name, cn.src)
				out, err, pan, _ := eval(src)
				oc := collOutcome(out, err, pan, c.items)
				sink.add(fmt.Sprintf("%s %s %s, %s", f.ctor, cq, coqZ(cn.n), oc), src+" => "+oc, f.ctor, fmt.Sprintf("%s|%s|computed %s", f.ctor, c.name, cn.src))
			}
		}
		// set functions against every other collection (controlled overlap through the fixtures)
		for _, d := range colls {
			dname := d.name
			if !d.env {
				dname = "%context." + strings.TrimPrefix(d.name, "Patient.")
			}
			for _, f := range []struct{ ctor, fn string }{{"CExclude", "exclude"}, {"CIntersect", "intersect"}} {
				src := fmt.Sprintf("%s.%s(%s)", c.name, f.fn, dname)
				out, err, pan, _ := eval(src)
				oc := collOutcome(out, err, pan, c.items, d.items)
				sink.add(fmt.Sprintf("%s %s %s, %s", f.ctor, cq, cl.coll(d.items), oc), src+" => "+oc, f.ctor, f.ctor+"|"+c.name+"|"+d.name)
			}
		}
	}
	sink.finish("collections from resource paths (complex, primitive, with duplicates, absent) and environment variables (Integers with duplicates, mixed Integer/Decimal/String/FHIR primitives, complex elements with shared and equal-but-distinct nodes, empty, singleton) x criteria with natively known per-item value (true/false/empty/multi-item) x every n in [-3, count+3] and the int32 boundaries x every ordered pair of collections for exclude/intersect; item equality classes are computed by the harness independently of the library", false)
}
