package main

import (
	"google.golang.org/protobuf/reflect/protoreflect"
	"google.golang.org/protobuf/reflect/protoregistry"
)

func protoRegistryFind(name protoreflect.FullName) (protoreflect.MessageType, error) {
	return protoregistry.GlobalTypes.FindMessageByName(name)
}
