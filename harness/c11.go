package main

import (
	"fmt"
	"strconv"
	"strings"

	"github.com/verily-src/fhirpath-go/fhirpath"
	"github.com/verily-src/fhirpath-go/fhirpath/evalopts"
	"github.com/verily-src/fhirpath-go/fhirpath/system"
	"github.com/verily-src/fhirpath-go/fhirpath/verifhook"
	"google.golang.org/protobuf/proto"
)

func init() { props["C11"] = runC11 }

// ---- trees ---------------------------------------------------------------------------------------
type c11Tree struct {
	kind string // atom pol bin typeop member invoke call index
	atom string
	op   int
	name string
	ty   []string
	kids []*c11Tree // operands; for invoke: kids[0] receiver, rest args; call: args
}

var c11Ops = map[int]string{1: "*", 2: "/", 3: "div", 4: "mod", 5: "+", 6: "-", 7: "&", 8: "is", 9: "as", 10: "|", 11: "<=", 12: "<", 13: ">", 14: ">=",
	15: "=", 16: "~", 17: "!=", 18: "!~", 19: "in", 20: "contains", 21: "and", 22: "or", 23: "xor", 24: "implies"}
var c11OpID = func() map[string]int {
	m := map[string]int{}
	for k, v := range c11Ops {
		m[v] = k
	}
	return m
}()

func c11Prec(op int) int {
	switch {
	case op <= 4:
		return 10
	case op <= 7:
		return 9
	case op <= 9:
		return 8
	case op == 10:
		return 7
	case op <= 14:
		return 6
	case op <= 18:
		return 5
	case op <= 20:
		return 4
	case op == 21:
		return 3
	case op <= 23:
		return 2
	}
	return 1
}

const (
	c11PPol = 11
	c11PIdx = 12
	c11PInv = 13
)

type c11Tok struct{ kind, text string } // kind: atom op lp rp lb rb dot comma

func (t *c11Tree) rootLevel() int {
	switch t.kind {
	case "atom", "call":
		return c11PInv + 1
	case "pol":
		return c11PPol
	case "bin", "typeop":
		return c11Prec(t.op)
	case "member", "invoke":
		return c11PInv
	}
	return c11PIdx
}

func paren(b bool, ts []c11Tok) []c11Tok {
	if !b {
		return ts
	}
	return append(append([]c11Tok{{"lp", "("}}, ts...), c11Tok{"rp", ")"})
}

func qualifiedToks(ty []string) []c11Tok {
	var out []c11Tok
	for i, n := range ty {
		if i > 0 {
			out = append(out, c11Tok{"dot", "."})
		}
		out = append(out, c11Tok{"atom", n})
	}
	return out
}

func argToks(args []*c11Tree, render func(*c11Tree) []c11Tok) []c11Tok {
	var out []c11Tok
	for i, a := range args {
		if i > 0 {
			out = append(out, c11Tok{"comma", ","})
		}
		out = append(out, render(a)...)
	}
	return out
}

func (t *c11Tree) renderMin(p int) []c11Tok {
	var body []c11Tok
	switch t.kind {
	case "atom":
		body = []c11Tok{{"atom", t.atom}}
	case "pol":
		body = append([]c11Tok{{"op", c11Ops[t.op]}}, t.kids[0].renderMin(c11PPol)...)
	case "bin":
		body = append(append(t.kids[0].renderMin(c11Prec(t.op)), c11Tok{"op", c11Ops[t.op]}), t.kids[1].renderMin(c11Prec(t.op)+1)...)
	case "typeop":
		body = append(append(t.kids[0].renderMin(c11Prec(t.op)), c11Tok{"op", c11Ops[t.op]}), qualifiedToks(t.ty)...)
	case "member":
		body = append(t.kids[0].renderMin(c11PInv), c11Tok{"dot", "."}, c11Tok{"atom", t.name})
	case "invoke":
		body = append(t.kids[0].renderMin(c11PInv), c11Tok{"dot", "."}, c11Tok{"atom", t.name}, c11Tok{"lp", "("})
		body = append(body, argToks(t.kids[1:], func(a *c11Tree) []c11Tok { return a.renderMin(0) })...)
		body = append(body, c11Tok{"rp", ")"})
	case "call":
		body = []c11Tok{{"atom", t.name}, {"lp", "("}}
		body = append(body, argToks(t.kids, func(a *c11Tree) []c11Tok { return a.renderMin(0) })...)
		body = append(body, c11Tok{"rp", ")"})
	case "index":
		body = append(t.kids[0].renderMin(c11PIdx), c11Tok{"lb", "["})
		body = append(body, t.kids[1].renderMin(0)...)
		body = append(body, c11Tok{"rb", "]"})
	}
	return paren(t.rootLevel() < p, body)
}

func (t *c11Tree) isAtomic() bool { return false } // full parentheses: every operand, atoms included

func (t *c11Tree) renderFull() []c11Tok {
	sub := func(e *c11Tree) []c11Tok { return paren(!e.isAtomic(), e.renderFull()) }
	switch t.kind {
	case "atom":
		return []c11Tok{{"atom", t.atom}}
	case "pol":
		return append([]c11Tok{{"op", c11Ops[t.op]}}, sub(t.kids[0])...)
	case "bin":
		return append(append(sub(t.kids[0]), c11Tok{"op", c11Ops[t.op]}), sub(t.kids[1])...)
	case "typeop":
		return append(append(sub(t.kids[0]), c11Tok{"op", c11Ops[t.op]}), qualifiedToks(t.ty)...)
	case "member":
		return append(sub(t.kids[0]), c11Tok{"dot", "."}, c11Tok{"atom", t.name})
	case "invoke":
		body := append(sub(t.kids[0]), c11Tok{"dot", "."}, c11Tok{"atom", t.name}, c11Tok{"lp", "("})
		body = append(body, argToks(t.kids[1:], func(a *c11Tree) []c11Tok { return a.renderFull() })...)
		return append(body, c11Tok{"rp", ")"})
	case "call":
		body := []c11Tok{{"atom", t.name}, {"lp", "("}}
		body = append(body, argToks(t.kids, func(a *c11Tree) []c11Tok { return a.renderFull() })...)
		return append(body, c11Tok{"rp", ")"})
	}
	body := append(sub(t.kids[0]), c11Tok{"lb", "["})
	body = append(body, t.kids[1].renderFull()...)
	return append(body, c11Tok{"rb", "]"})
}

// ---- interning and Coq rendering ------------------------------------------------------------------
type c11Intern struct{ ids map[string]uint64 }

func (in *c11Intern) id(s string) uint64 {
	if strings.HasSuffix(s, "#field") {
		return in.id(strings.TrimSuffix(s, "#field")) + 100000
	}
	if v, ok := in.ids[s]; ok {
		return v
	}
	v := uint64(len(in.ids) + 100)
	in.ids[s] = v
	return v
}

func (in *c11Intern) tree(t *c11Tree) string {
	kids := func(ks []*c11Tree) string {
		var xs []string
		for _, k := range ks {
			xs = append(xs, in.tree(k))
		}
		return coqList(xs)
	}
	switch t.kind {
	case "atom":
		return "(Atom " + coqN(in.id(t.atom)) + ")"
	case "pol":
		return fmt.Sprintf("(Pol %s %s)", coqN(uint64(t.op)), in.tree(t.kids[0]))
	case "bin":
		return fmt.Sprintf("(Bin %s %s %s)", coqN(uint64(t.op)), in.tree(t.kids[0]), in.tree(t.kids[1]))
	case "typeop":
		var ty []string
		for _, n := range t.ty {
			ty = append(ty, coqN(in.id(n)))
		}
		return fmt.Sprintf("(TypeOp %s %s %s)", coqN(uint64(t.op)), in.tree(t.kids[0]), coqList(ty))
	case "member":
		return fmt.Sprintf("(Member %s %s)", in.tree(t.kids[0]), coqN(in.id(t.name)))
	case "invoke":
		return fmt.Sprintf("(Invoke %s %s %s)", in.tree(t.kids[0]), coqN(in.id(t.name)), kids(t.kids[1:]))
	case "call":
		return fmt.Sprintf("(Call %s %s)", coqN(in.id(t.name)), kids(t.kids))
	}
	return fmt.Sprintf("(Index %s %s)", in.tree(t.kids[0]), in.tree(t.kids[1]))
}

func (in *c11Intern) toks(ts []c11Tok) string {
	var xs []string
	for _, t := range ts {
		switch t.kind {
		case "atom":
			xs = append(xs, "TAtom "+coqN(in.id(t.text)))
		case "op":
			xs = append(xs, "TOp "+coqN(uint64(c11OpID[t.text])))
		case "lp":
			xs = append(xs, "TLP")
		case "rp":
			xs = append(xs, "TRP")
		case "lb":
			xs = append(xs, "TLB")
		case "rb":
			xs = append(xs, "TRB")
		case "dot":
			xs = append(xs, "TDot")
		case "comma":
			xs = append(xs, "TComma")
		}
	}
	return coqList(xs)
}

// ---- reading DumpExpr back into a tree --------------------------------------------------------------
type sexp struct {
	atom string
	list []*sexp
}

func parseSexp(s string) *sexp {
	pos := 0
	var rec func() *sexp
	rec = func() *sexp {
		for pos < len(s) && s[pos] == ' ' {
			pos++
		}
		if s[pos] == '(' {
			pos++
			n := &sexp{}
			for {
				for pos < len(s) && s[pos] == ' ' {
					pos++
				}
				if s[pos] == ')' {
					pos++
					return n
				}
				n.list = append(n.list, rec())
			}
		}
		if s[pos] == '"' {
			end := pos + 1
			for s[end] != '"' || s[end-1] == '\\' {
				end++
			}
			str, err := strconv.Unquote(s[pos : end+1])
			if err != nil {
				str = s[pos+1 : end]
			}
			pos = end + 1
			return &sexp{atom: str}
		}
		start := pos
		for pos < len(s) && s[pos] != ' ' && s[pos] != ')' {
			pos++
		}
		return &sexp{atom: s[start:pos]}
	}
	return rec()
}

var c11LitDump = map[string]string{"Integer:1": "1", "Integer:2": "2", "Integer:0": "0", "String:a": "'a'", "Boolean:true": "true", "Boolean:false": "false", "{}": "{}", "Integer:3": "3"}

func dumpToTree(n *sexp) (*c11Tree, bool) {
	if len(n.list) == 0 {
		return nil, false
	}
	head := n.list[0].atom
	switch head {
	case "this":
		return &c11Tree{kind: "atom", atom: "$this"}, true
	case "roottype":
		return &c11Tree{kind: "atom", atom: n.list[1].atom}, true
	case "field":
		if n.list[1].atom == "Patient" {
			// a resource-type name compiled as a field access (the root flag was already set)
			return &c11Tree{kind: "atom", atom: "Patient#field"}, true
		}
		return &c11Tree{kind: "atom", atom: n.list[1].atom}, true
	case "lit":
		src, ok := c11LitDump[n.list[1].atom]
		return &c11Tree{kind: "atom", atom: src}, ok
	case "env":
		return &c11Tree{kind: "atom", atom: "%" + n.list[1].atom}, true
	case "neg":
		k, ok := dumpToTree(n.list[1])
		return &c11Tree{kind: "pol", op: 6, kids: []*c11Tree{k}}, ok
	case "bin":
		l, ok1 := dumpToTree(n.list[2])
		r, ok2 := dumpToTree(n.list[3])
		op, ok3 := c11OpID[n.list[1].atom]
		return &c11Tree{kind: "bin", op: op, kids: []*c11Tree{l, r}}, ok1 && ok2 && ok3
	case "typeop":
		k, ok := dumpToTree(n.list[3])
		ty := strings.Fields(strings.Trim(n.list[2].atom, "{}"))
		return &c11Tree{kind: "typeop", op: c11OpID[n.list[1].atom], ty: ty, kids: []*c11Tree{k}}, ok && len(ty) > 0
	case "call":
		t := &c11Tree{kind: "call", name: n.list[1].atom}
		for _, a := range n.list[2:] {
			k, ok := dumpToTree(a)
			if !ok {
				return nil, false
			}
			t.kids = append(t.kids, k)
		}
		return t, true
	case "seq":
		if len(n.list) != 3 {
			return nil, false
		}
		recv, ok := dumpToTree(n.list[1])
		if !ok {
			return nil, false
		}
		b := n.list[2]
		switch b.list[0].atom {
		case "field", "roottype": // (a resource-type name after a dot is the root type when no root was seen before it)
			return &c11Tree{kind: "member", name: b.list[1].atom, kids: []*c11Tree{recv}}, true
		case "call":
			t := &c11Tree{kind: "invoke", name: b.list[1].atom, kids: []*c11Tree{recv}}
			for _, a := range b.list[2:] {
				k, ok := dumpToTree(a)
				if !ok {
					return nil, false
				}
				t.kids = append(t.kids, k)
			}
			return t, true
		case "index":
			i, ok := dumpToTree(b.list[1])
			return &c11Tree{kind: "index", kids: []*c11Tree{recv, i}}, ok
		}
	}
	return nil, false
}

// ---- generation -----------------------------------------------------------------------------------------
func c11Gen(r *rng, depth int) *c11Tree {
	atoms := []string{"1", "2", "'a'", "true", "{}", "$this", "%v", "name", "active", "Patient", "given", "birthDate"}
	if depth <= 0 || r.intn(5) == 0 {
		return &c11Tree{kind: "atom", atom: pick(r, atoms)}
	}
	switch r.intn(14) {
	case 0:
		return &c11Tree{kind: "pol", op: pick(r, []int{5, 6, 6}), kids: []*c11Tree{c11Gen(r, depth-1)}}
	case 1, 2, 3, 4, 5, 6:
		ops := []int{1, 2, 3, 4, 5, 6, 7, 11, 12, 13, 14, 15, 17, 21, 22, 23, 24, 21, 22, 24, 15, 5, 6}
		if r.intn(12) == 0 {
			ops = []int{10, 19, 20} // alternatives the visitor does not support: both renderings must be rejected
		}
		return &c11Tree{kind: "bin", op: pick(r, ops), kids: []*c11Tree{c11Gen(r, depth-1), c11Gen(r, depth-1)}}
	case 7:
		return &c11Tree{kind: "typeop", op: pick(r, []int{8, 9}), ty: pick(r, [][]string{{"Integer"}, {"FHIR", "string"}, {"System", "Boolean"}, {"Patient"}, {"HumanName"}, {"String"}}), kids: []*c11Tree{c11Gen(r, depth-1)}}
	case 8, 9:
		return &c11Tree{kind: "member", name: pick(r, []string{"name", "given", "family", "active", "id", "value", "Patient", "Observation"}), kids: []*c11Tree{c11Gen(r, depth-1)}}
	case 10, 11:
		f := pick(r, []struct {
			n string
			k int
		}{{"exists", 0}, {"count", 0}, {"first", 0}, {"not", 0}, {"empty", 0}, {"toString", 0}, {"where", 1}, {"select", 1}, {"take", 1}, {"exists", 1}, {"all", 1}, {"iif", 2}, {"iif", 3}, {"substring", 2}, {"startsWith", 1}})
		t := &c11Tree{kind: "invoke", name: f.n, kids: []*c11Tree{c11Gen(r, depth-1)}}
		for i := 0; i < f.k; i++ {
			t.kids = append(t.kids, c11Gen(r, depth-2))
		}
		return t
	case 12:
		f := pick(r, []struct {
			n string
			k int
		}{{"exists", 0}, {"count", 0}, {"today", 0}, {"iif", 2}, {"iif", 3}, {"where", 1}, {"not", 0}})
		t := &c11Tree{kind: "call", name: f.n}
		for i := 0; i < f.k; i++ {
			t.kids = append(t.kids, c11Gen(r, depth-2))
		}
		return t
	}
	return &c11Tree{kind: "index", kids: []*c11Tree{c11Gen(r, depth-1), c11Gen(r, depth-2)}}
}

func c11Text(ts []c11Tok, gap func(i int, a, b c11Tok) string) string {
	var b strings.Builder
	for i, t := range ts {
		if i > 0 {
			b.WriteString(gap(i, ts[i-1], t))
		}
		b.WriteString(t.text)
	}
	return b.String()
}

func runC11(cfg config) {
	sink := newSink(cfg.out, "C11", "C11.Model", "N * case * obs", "judge", 150)
	r := &rng{s: cfg.seed*0x9e3779b97f4a7c15 + 11}
	input := []proto.Message{basePatient()}
	in := &c11Intern{ids: map[string]uint64{}}
	opts := []fhirpath.EvaluateOption{evalopts.EnvVariable("v", system.Integer(3))}
	nTrees := 1500
	if cfg.tier == "thorough" {
		nTrees = 30000
	}
	compile := func(text string) (*fhirpath.Expression, string, bool) {
		var e *fhirpath.Expression
		var err error
		panicked, _ := protect(func() { e, err = fhirpath.Compile(text) })
		if panicked || err != nil {
			return nil, "", false
		}
		return e, verifhook.DumpExpr(e), true
	}
	evalStr := func(e *fhirpath.Expression) string {
		var out system.Collection
		var err error
		panicked, msg := protect(func() { out, err = verifhook.Evaluate(e, input, opts...) })
		if panicked {
			return "panic:" + msg
		}
		if err != nil {
			return "error"
		}
		return fmt.Sprint(out)
	}
	space := func(int, c11Tok, c11Tok) string { return " " }
	var rendered []string
	for n := 0; n < nTrees; n++ {
		depth := 2 + r.intn(3)
		if n%10 == 0 {
			depth = 6
		}
		t := c11Gen(r, depth)
		if n%15 == 7 {
			// a deep, narrow tree: k levels alternating function arguments, binary operators and member access around one
			// atom (both renderings must compile however many levels the full one needs)
			k := 6 + (n/15)%14
			t = &c11Tree{kind: "atom", atom: pick(r, []string{"1", "true", "name", "$this"})}
			for lvl := 0; lvl < k; lvl++ {
				switch lvl % 4 {
				case 0:
					t = &c11Tree{kind: "invoke", name: pick(r, []string{"where", "select", "exists", "all"}), kids: []*c11Tree{{kind: "atom", atom: pick(r, []string{"name", "given", "Patient"})}, t}}
				case 1:
					t = &c11Tree{kind: "bin", op: pick(r, []int{1, 3, 11, 21, 22, 15}), kids: []*c11Tree{t, {kind: "atom", atom: pick(r, []string{"1", "2", "true"})}}}
				case 2:
					t = &c11Tree{kind: "call", name: "iif", kids: []*c11Tree{{kind: "atom", atom: "true"}, t}}
				default:
					t = &c11Tree{kind: "bin", op: pick(r, []int{2, 4, 12, 24}), kids: []*c11Tree{{kind: "atom", atom: "2"}, t}}
				}
			}
		}
		tmin, tfull := t.renderMin(0), t.renderFull()
		smin, sfull := c11Text(tmin, space), c11Text(tfull, space)
		emin, dmin, okmin := compile(smin)
		efull, dfull, okfull := compile(sfull)
		obsTree := func(ok bool, dump string) string {
			if !ok {
				return "None"
			}
			tr, good := dumpToTree(parseSexp(dump))
			if !good {
				return "(Some (Atom 0%N))" // a node the tree language has no name for: never equals a generated tree
			}
			return "(Some " + in.tree(tr) + ")"
		}
		evalsEqual, decoEqual, trailing, strSrc := true, true, true, true
		if okmin && okfull {
			evalsEqual = evalStr(emin) == evalStr(efull)
			strSrc = emin.String() == smin && efull.String() == sfull
			for _, deco := range [][2]string{{" ", ""}, {"", "\n"}, {"\n\t", "  \n"}, {"", " // c"}} {
				src := deco[0] + smin + deco[1]
				if e, _, ok := compile(src); !ok || e.String() != src {
					strSrc = false
				}
			}
		}
		if okmin {
			gaps := []func(int, c11Tok, c11Tok) string{
				func(int, c11Tok, c11Tok) string { return "\n" },
				func(int, c11Tok, c11Tok) string { return "\t" },
				func(int, c11Tok, c11Tok) string { return " /* c */ " },
				func(int, c11Tok, c11Tok) string { return " // c\n" },
				func(i int, a, b c11Tok) string { return pick(r, []string{" ", "\n", "\t ", " /* c */", " // x\n", "  "}) },
				func(i int, a, b c11Tok) string { // no gap around punctuation
					punct := func(t c11Tok) bool { return t.kind != "atom" && t.kind != "op" }
					if punct(a) || punct(b) {
						return ""
					}
					return " "
				},
			}
			for _, g := range gaps {
				_, d, ok := compile(c11Text(tmin, g))
				if !ok || d != dmin {
					decoEqual = false
				}
			}
			for _, tail := range []string{" )", " ]", " ,", " =", " . ."} {
				if _, _, ok := compile(smin + tail); ok {
					trailing = false
				}
			}
		}
		coq := fmt.Sprintf("(%s, %s, %s), (%s, %s, {| evals_equal := %s; decorations_equal := %s; trailing_rejected := %s; string_is_source := %s |})",
			in.tree(t), in.toks(tmin), in.toks(tfull), obsTree(okmin, dmin), obsTree(okfull, dfull), coqBool(evalsEqual), coqBool(decoEqual), coqBool(trailing), coqBool(strSrc))
		kind := "compiles"
		if !okmin && !okfull {
			kind = "rejected"
		} else if okmin != okfull {
			kind = "one-sided"
		}
		key := ""
		if okmin {
			key = smin
		}
		sink.add(coq, fmt.Sprintf("min: %s   full: %s   [min compiles=%v full compiles=%v]", smin, sfull, okmin, okfull), kind, key)
		if n%5 == 0 {
			rendered = append(rendered, c11Text(tmin, func(int, c11Tok, c11Tok) string { return pick(r, c11LexSeps) }))
		}
	}
	runC11Lex(cfg, sink, r, rendered)
	sink.finish("seeded expression trees up to depth 6 over all 13 precedence levels (invocation, indexer, polarity, multiplicative, additive incl. &, type, union, inequality, equality, membership, and, or/xor, implies), function arguments and parenthesised sub-terms; each printed with minimal and with full parentheses, compiled, its node tree read back (DumpExpr) and compared; six whitespace/comment decorations of the minimal text; five trailing-token extensions; evaluation of both renderings on a sample input; non-trivial = distinct texts that compile", false)
}
