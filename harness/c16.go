package main

import (
	"errors"
	"fmt"
	"sort"
	"strings"

	"github.com/verily-src/fhirpath-go/fhirpath"
	"github.com/verily-src/fhirpath-go/fhirpath/compopts"
	"github.com/verily-src/fhirpath-go/fhirpath/system"
	"github.com/verily-src/fhirpath-go/fhirpath/verifhook"
	"google.golang.org/protobuf/proto"
)

func init() { props["C16"] = runC16 }

// the N1 function list (names only; the argument counts live in coq/C16/Model.v)
var n1Names = []string{"empty", "exists", "all", "allTrue", "anyTrue", "allFalse", "anyFalse", "subsetOf", "supersetOf", "count",
	"distinct", "isDistinct", "where", "select", "repeat", "ofType", "single", "first", "last", "tail", "skip", "take", "intersect",
	"exclude", "union", "combine", "iif", "toBoolean", "convertsToBoolean", "toInteger", "convertsToInteger", "toDate", "convertsToDate",
	"toDateTime", "convertsToDateTime", "toDecimal", "convertsToDecimal", "toQuantity", "convertsToQuantity", "toString", "convertsToString",
	"toTime", "convertsToTime", "indexOf", "substring", "startsWith", "endsWith", "contains", "upper", "lower", "replace", "matches",
	"replaceMatches", "length", "toChars", "abs", "ceiling", "exp", "floor", "ln", "log", "power", "round", "sqrt", "truncate", "children",
	"descendants", "trace", "now", "timeOfDay", "today", "not", "is", "as"}

// receiver and well-typed arguments per specification signature
func c16Call(name string, k int) string {
	recv := "Patient.name"
	args := []string{"1", "2", "3", "4"}
	switch name {
	case "where", "all", "exists", "select", "repeat":
		args = []string{"$this.exists()", "true", "true", "true"}
	case "skip", "take":
		args = []string{"1", "1", "1", "1"}
	case "intersect", "exclude", "union", "combine", "subsetOf", "supersetOf":
		args = []string{"%context.name", "%context.name", "%context.name", "%context.name"}
	case "ofType", "is", "as":
		args = []string{"HumanName", "HumanName", "HumanName", "HumanName"}
	case "iif":
		recv = "Patient"
		args = []string{"true", "1", "2", "3"}
	case "extension":
		recv = "Patient"
		args = []string{"'http://example.org/x'", "'a'", "'b'", "'c'"}
	case "indexOf", "startsWith", "endsWith", "contains", "matches", "replace", "replaceMatches", "join":
		recv = "'abc'"
		args = []string{"'b'", "'x'", "'y'", "'z'"}
	case "substring":
		recv = "'abc'"
		args = []string{"1", "1", "1", "1"}
	case "upper", "lower", "length", "toChars":
		recv = "'abc'"
	case "abs", "ceiling", "exp", "floor", "ln", "sqrt", "truncate":
		recv = "4.5"
	case "log", "power":
		recv = "4.0"
		args = []string{"2.0", "2", "2", "2"}
	case "round":
		recv = "4.567"
		args = []string{"1", "1", "1", "1"}
	case "toQuantity", "convertsToQuantity":
		recv = "5"
		args = []string{"'mg'", "'mg'", "'mg'", "'mg'"}
	case "toBoolean", "convertsToBoolean", "toInteger", "convertsToInteger", "toDecimal", "convertsToDecimal", "toString", "convertsToString":
		recv = "1"
	case "toDate", "convertsToDate", "toDateTime", "convertsToDateTime":
		recv = "'2020-01-01'"
	case "toTime", "convertsToTime":
		recv = "'10:00:00'"
	case "trace":
		args = []string{"'t'", "$this", "1", "1"}
	case "now", "today", "timeOfDay":
		recv = "Patient"
	case "allTrue", "anyTrue", "allFalse", "anyFalse":
		recv = "Patient.communication.preferred"
	case "not":
		recv = "Patient.active"
	}
	return recv + "." + name + "(" + strings.Join(args[:k], ", ") + ")"
}

func runC16(cfg config) {
	sink := newSink(cfg.out, "C16", "C16.Model", "N * case * outcome", "(judge RUN.Gen_functable.base_table RUN.Gen_functable.experimental_table)", 400)
	sink.header = "From Coq Require Import String.\nFrom RUN Require Gen_functable.\n"
	input := []proto.Message{basePatient()}
	names := map[string]bool{}
	for _, n := range n1Names {
		names[n] = true
	}
	for n := range verifhook.TableBounds(true) {
		names[n] = true
	}
	for _, n := range []string{"Where", "EXISTS", "toquantity", "convertToDateTime", "frobnicate", "toQuantity2", "lowBoundary", "sum", "aggregate", "encode", "split"} {
		names[n] = true
	}
	var sorted []string
	for n := range names {
		sorted = append(sorted, n)
	}
	sort.Strings(sorted)
	// default, then WithExperimentalFuncs, then default again: a Compile call must not leak
	// functions into later calls (the third pass sees what the second left behind)
	for pass, exp := range []bool{false, true, false} {
		var copts []fhirpath.CompileOption
		if exp {
			copts = append(copts, compopts.WithExperimentalFuncs())
		}
		for _, n := range sorted {
			for k := 0; k <= 4; k++ {
				src := c16Call(n, k)
				var e *fhirpath.Expression
				var cerr, eerr error
				var out system.Collection
				panicked, msg := protect(func() {
					e, cerr = fhirpath.Compile(src, copts...)
					if cerr != nil {
						return
					}
					out, eerr = verifhook.Evaluate(e, input)
				})
				oc := ""
				switch {
				case panicked:
					oc = "OPanic"
				case cerr != nil && errors.Is(cerr, verifhook.ErrWrongArity):
					oc = "ORejectedArity"
				case cerr != nil && strings.Contains(cerr.Error(), "function identifier can't be resolved"):
					oc = "ORejectedUnresolved"
				case cerr != nil:
					oc = "ORejectedOther"
				case eerr != nil && errors.Is(eerr, verifhook.ErrWrongArity):
					oc = "OAcceptedArity"
				case eerr != nil && strings.Contains(eerr.Error(), "not yet implemented"):
					oc = "OAcceptedNotImpl"
				case eerr != nil:
					oc = "OAcceptedErr"
				default:
					oc = "OAcceptedOk"
				}
				human := oc
				if cerr != nil {
					human += " (" + cerr.Error() + ")"
				} else if eerr != nil {
					human += " (" + eerr.Error() + ")"
				} else if panicked {
					human += " (" + msg + ")"
				} else {
					human += fmt.Sprintf(" (%d items)", len(out))
				}
				key := ""
				if strings.HasPrefix(oc, "OAccepted") {
					key = fmt.Sprintf("%v/%s/%d", exp, n, k)
				}
				if pass == 2 {
					key = "" // repeats of pass 0 are not distinct cases
				}
				sink.add(fmt.Sprintf("(%s, %s%%string, %s), %s", coqBool(exp), "\""+n+"\"", coqZ(int64(k)), oc),
					fmt.Sprintf("pass=%d experimental=%v  %s => %s", pass, exp, src, human), oc, key)
				// the same name and count on an EMPTY receiver: a placeholder still says that it is not implemented, and nothing
				// that was accepted with a receiver is refused without one
				if pass < 2 {
					dot := strings.Index(src, "."+n+"(")
					for _, recv := range []string{"{}", "Patient.name.where(false)", "%context.maritalStatus"} {
						esrc := recv + src[dot:]
						var e2 *fhirpath.Expression
						var cerr2, eerr2 error
						pn, _ := protect(func() {
							e2, cerr2 = fhirpath.Compile(esrc, copts...)
							if cerr2 == nil {
								_, eerr2 = verifhook.Evaluate(e2, input)
							}
						})
						eoc := "OAcceptedOk"
						switch {
						case pn:
							eoc = "OPanic"
						case cerr2 != nil && errors.Is(cerr2, verifhook.ErrWrongArity):
							eoc = "ORejectedArity"
						case cerr2 != nil && strings.Contains(cerr2.Error(), "function identifier can't be resolved"):
							eoc = "ORejectedUnresolved"
						case cerr2 != nil:
							eoc = "ORejectedOther"
						case eerr2 != nil && errors.Is(eerr2, verifhook.ErrWrongArity):
							eoc = "OAcceptedArity"
						case eerr2 != nil && strings.Contains(eerr2.Error(), "not yet implemented"):
							eoc = "OAcceptedNotImpl"
						case eerr2 != nil:
							eoc = "OAcceptedErr"
						}
						sink.add(fmt.Sprintf("(%s, %s%%string, %s), %s", coqBool(exp), "\""+n+"\"", coqZ(int64(k)), eoc),
							fmt.Sprintf("pass=%d experimental=%v  %s => %s (empty receiver)", pass, exp, esrc, eoc), eoc, "")
					}
					// the written argument count is what is checked: `{}` is an argument like any other
					if k >= 1 {
						close := strings.LastIndex(src, ")")
						open := strings.Index(src, "."+n+"(") + len(n) + 2
						args := splitArgs(src[open:close])
						if len(args) == k {
							args[k-1] = "{}"
							bsrc := src[:open] + strings.Join(args, ", ") + ")"
							var cerr2 error
							pn, _ := protect(func() { _, cerr2 = fhirpath.Compile(bsrc, copts...) })
							boc := oc
							switch {
							case pn:
								boc = "OPanic"
							case cerr2 != nil && errors.Is(cerr2, verifhook.ErrWrongArity):
								boc = "ORejectedArity"
							case cerr2 != nil && strings.Contains(cerr2.Error(), "function identifier can't be resolved"):
								boc = "ORejectedUnresolved"
							case cerr2 != nil:
								boc = "ORejectedOther"
							case !strings.HasPrefix(oc, "OAccepted"):
								boc = "OAcceptedOk"
							}
							sink.add(fmt.Sprintf("(%s, %s%%string, %s), %s", coqBool(exp), "\""+n+"\"", coqZ(int64(k)), boc),
								fmt.Sprintf("pass=%d experimental=%v  %s => %s (compile only, last argument {})", pass, exp, bsrc, boc), boc, "")
						}
					}
				}
				// the same call in the other syntactic positions a sub-expression is compiled in: whether it is accepted
				// may not depend on the position
				if pass < 2 {
					for ci, ctx := range []string{"{} = %s", "{} and %s", "Patient.name[%s]", "iif(true, %s)", "Patient.select({} != %s)", "(%s)", "-(1) + %s"} {
						csrc := fmt.Sprintf(ctx, src)
						var cerr2 error
						pn, _ := protect(func() { _, cerr2 = fhirpath.Compile(csrc, copts...) })
						coc := oc
						switch {
						case pn:
							coc = "OPanic"
						case cerr2 != nil && errors.Is(cerr2, verifhook.ErrWrongArity):
							coc = "ORejectedArity"
						case cerr2 != nil && strings.Contains(cerr2.Error(), "function identifier can't be resolved"):
							coc = "ORejectedUnresolved"
						case cerr2 != nil:
							coc = "ORejectedOther"
						case !strings.HasPrefix(oc, "OAccepted"):
							coc = "OAcceptedOk"
						}
						sink.add(fmt.Sprintf("(%s, %s%%string, %s), %s", coqBool(exp), "\""+n+"\"", coqZ(int64(k)), coc),
							fmt.Sprintf("pass=%d experimental=%v  %s => %s (compile only, position %d)", pass, exp, csrc, coc, ci), coc, "")
					}
				}
			}
		}
	}
	sink.finish("exhaustive: every N1 name, every name of the base and experimental tables and a set of near-miss names x 0..4 arguments x {default, WithExperimentalFuncs}; non-trivial = distinct accepted (option, name, count) triples", true)
}
