package main

import (
	"fmt"
	"regexp"
	"strings"
	"time"

	dtpb "github.com/google/fhir/go/proto/google/fhir/proto/r4/core/datatypes_go_proto"
	"github.com/verily-src/fhirpath-go/fhirpath/system"
	"google.golang.org/protobuf/proto"
)

// unitTable interns quantity units: 1 = '1'; alphabetic words from 2; everything else from 1000.
type unitTable struct {
	alpha map[string]uint64
	other map[string]uint64
}

func newUnitTable() *unitTable {
	return &unitTable{alpha: map[string]uint64{}, other: map[string]uint64{}}
}

var reAlpha = regexp.MustCompile(`^[a-zA-Z]+$`)

func (u *unitTable) id(unit string) uint64 {
	if unit == "1" {
		return 1
	}
	if reAlpha.MatchString(unit) {
		if _, ok := u.alpha[unit]; !ok {
			u.alpha[unit] = uint64(len(u.alpha) + 2)
		}
		return u.alpha[unit]
	}
	if _, ok := u.other[unit]; !ok {
		u.other[unit] = uint64(len(u.other) + 1000)
	}
	return u.other[unit]
}

var reDTFrac = regexp.MustCompile(`^(\d{4})(?:-(\d\d)(?:-(\d\d))?)?T(?:(\d\d)(?::(\d\d)(?::(\d\d)(?:\.(\d+))?)?)?(Z|[+-]\d\d:\d\d)?)?$`)
var reTimeFrac = regexp.MustCompile(`^(\d\d)(?::(\d\d)(?::(\d\d)(?:\.(\d+))?)?)?$`)

func dimOf(y, m int64) int64 {
	switch m {
	case 2:
		if (y%4 == 0 && y%100 != 0) || y%400 == 0 {
			return 29
		}
		return 28
	case 4, 6, 9, 11:
		return 30
	}
	return 31
}

// dateComps recognises YYYY | YYYY-MM | YYYY-MM-DD with valid ranges.
func dateComps(s string) ([]int64, bool) {
	m := reDate.FindStringSubmatch(s)
	if m == nil || len(m[1]) != 4 {
		return nil, false
	}
	c := []int64{atoi(m[1])}
	if m[2] != "" {
		mo := atoi(m[2])
		if mo < 1 || mo > 12 {
			return nil, false
		}
		c = append(c, mo)
		if m[3] != "" {
			d := atoi(m[3])
			if d < 1 || d > dimOf(c[0], mo) {
				return nil, false
			}
			c = append(c, d)
		}
	}
	return c, true
}

// dateTimeComps recognises the DateTime string forms (a 'T' is required) and returns the UTC-normalised
// components up to the value's precision.  Fraction digits other than exactly three are accepted by the
// library's second-precision layouts and do not show in the value's precision.
func dateTimeComps(s string) ([]int64, bool) {
	m := reDTFrac.FindStringSubmatch(s)
	if m == nil {
		return nil, false
	}
	datePart := m[1]
	if m[2] != "" {
		datePart += "-" + m[2]
	}
	if m[3] != "" {
		datePart += "-" + m[3]
	}
	dc, ok := dateComps(datePart)
	if !ok {
		return nil, false
	}
	if m[4] == "" {
		return dc, true
	}
	if len(dc) != 3 {
		return nil, false
	}
	h, mi, sec, ns := atoi(m[4]), int64(0), int64(0), int64(0)
	prec := 4
	if h > 23 {
		return nil, false
	}
	if m[5] != "" {
		mi = atoi(m[5])
		prec = 5
		if mi > 59 {
			return nil, false
		}
	}
	if m[6] != "" {
		sec = atoi(m[6])
		prec = 6
		if sec > 59 {
			return nil, false
		}
	}
	if len(m[7]) == 3 { // other digit counts are read by a second-precision layout and never printed
		ns = atoi(m[7]) * 1000000
	}
	loc := time.UTC
	if m[8] != "" && m[8] != "Z" {
		sign := 1
		if m[8][0] == '-' {
			sign = -1
		}
		var hh, mm int
		fmt.Sscanf(m[8][1:], "%d:%d", &hh, &mm)
		if hh > 23 || mm > 59 {
			return nil, false
		}
		loc = time.FixedZone(m[8], sign*(hh*3600+mm*60))
	}
	t := time.Date(int(dc[0]), time.Month(dc[1]), int(dc[2]), int(h), int(mi), int(sec), int(ns), loc).UTC()
	all := []int64{int64(t.Year()), int64(t.Month()), int64(t.Day()), int64(t.Hour()), int64(t.Minute()), int64(t.Second())*1000000000 + int64(t.Nanosecond())}
	return all[:prec], true
}

func timeComps(s string) ([]int64, bool) {
	m := reTimeFrac.FindStringSubmatch(s)
	if m == nil {
		return nil, false
	}
	h := atoi(m[1])
	if h > 23 {
		return nil, false
	}
	c := []int64{h}
	if m[2] != "" {
		mi := atoi(m[2])
		if mi > 59 {
			return nil, false
		}
		c = append(c, mi)
		if m[3] != "" {
			sec := atoi(m[3])
			if sec > 59 {
				return nil, false
			}
			ns := int64(0)
			if len(m[4]) == 3 { // see dateTimeComps
				ns = atoi(m[4]) * 1000000
			}
			c = append(c, sec*1000000000+ns)
		}
	}
	return c, true
}

// svalOf renders a result item as a Coq `sval` (C05.Model), reading temporals from their printed form.
func svalOf(v any, units *unitTable) (string, bool) {
	switch x := v.(type) {
	case system.Boolean:
		return "VBool " + coqBool(bool(x)), true
	case system.Integer:
		return "VInt " + coqZ(int64(x)), true
	case system.Decimal:
		return strings.Replace(decToCoq(x.String()), "NDec", "VDec", 1), true
	case system.String:
		return "VStr " + coqUStr(string(x)), true
	case system.Date:
		if c, ok := dateComps(x.String()); ok {
			return "VDate " + zlist(c...), true
		}
	case system.DateTime:
		if c, ok := dateTimeComps(x.String()); ok {
			return "VDateTime " + zlist(c...), true
		}
	case system.Time:
		if c, ok := timeComps(x.String()); ok {
			return "VTime " + zlist(c...), true
		}
	case system.Quantity:
		parts := strings.SplitN(x.String(), " ", 2)
		unit := "1"
		if len(parts) == 2 {
			unit = parts[1]
		}
		return strings.Replace(decToCoq(parts[0]), "NDec", "VQty", 1) + " " + coqN(units.id(unit)), true
	case *dtpb.Boolean:
		return "VBool " + coqBool(x.Value), true
	case proto.Message:
		return "VComplex 0%N", true
	}
	return "", false
}
