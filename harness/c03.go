package main

import (
	"fmt"

	dtpb "github.com/google/fhir/go/proto/google/fhir/proto/r4/core/datatypes_go_proto"
	opb "github.com/google/fhir/go/proto/google/fhir/proto/r4/core/resources/observation_go_proto"
	ppb "github.com/google/fhir/go/proto/google/fhir/proto/r4/core/resources/patient_go_proto"
	"github.com/verily-src/fhirpath-go/fhirpath"
	"github.com/verily-src/fhirpath-go/fhirpath/compopts"
	"github.com/verily-src/fhirpath-go/fhirpath/evalopts"
	"github.com/verily-src/fhirpath-go/fhirpath/system"
	"github.com/verily-src/fhirpath-go/fhirpath/verifhook"
	"google.golang.org/protobuf/proto"
	"google.golang.org/protobuf/reflect/protoreflect"
)

func init() { props["C03"] = runC03 }

func detBytes(m proto.Message) string {
	b, err := proto.MarshalOptions{Deterministic: true}.Marshal(m)
	if err != nil {
		return "ERR:" + err.Error()
	}
	return string(b)
}

// collectPointers gathers every message reachable from m (Any not expanded).
func collectPointers(m protoreflect.Message, set map[proto.Message]bool) {
	set[m.Interface()] = true
	fds := m.Descriptor().Fields()
	for i := 0; i < fds.Len(); i++ {
		fd := fds.Get(i)
		if fd.Kind() != protoreflect.MessageKind || !m.Has(fd) || fd.IsMap() {
			continue
		}
		if fd.IsList() {
			l := m.Get(fd).List()
			for k := 0; k < l.Len(); k++ {
				collectPointers(l.Get(k).Message(), set)
			}
		} else {
			collectPointers(m.Get(fd).Message(), set)
		}
	}
}

type sentinel struct{ n int }

func summarize(c system.Collection, err error) string {
	if err != nil {
		return "error"
	}
	s := fmt.Sprintf("%d:", len(c))
	for _, it := range c {
		if pm, ok := it.(proto.Message); ok {
			s += fmt.Sprintf("[%s %x]", pm.ProtoReflect().Descriptor().Name(), detBytes(pm))
		} else {
			s += fmt.Sprintf("[%T %v]", it, it)
		}
	}
	return s
}

func runC03(cfg config) {
	sink := newSink(cfg.out, "C03", "C03.Model", "N * case * obs", "judge", 800)
	r := &rng{s: cfg.seed*0x9e3779b97f4a7c15 + 3}
	g := &genState{r: &rng{s: cfg.seed + 300}}
	scale := 1
	if cfg.tier == "thorough" {
		scale = 4
	}
	progs := programs(r, scale)
	compiled := 0
	var firstBad []string
	hist := map[string]int{}
	nres := 3
	for ri := 0; ri < nres; ri++ {
		var res proto.Message
		if ri == 0 {
			res = basePatient()
		} else {
			res = g.resource("Patient", 3)
		}
		pat := res.(*ppb.Patient)
		if pat.ManagingOrganization == nil || pat.ManagingOrganization.GetOrganizationId() == nil {
			pat.ManagingOrganization = &dtpb.Reference{Reference: &dtpb.Reference_OrganizationId{OrganizationId: &dtpb.ReferenceId{Value: "org1", History: &dtpb.Id{Value: "3"}}}}
		}
		// extensions in an order that an in-place filter would disturb, on the resource and on an element
		mkx := func(u string) *dtpb.Extension {
			return &dtpb.Extension{Url: &dtpb.Uri{Value: "http://example.org/" + u}, Value: &dtpb.Extension_ValueX{Choice: &dtpb.Extension_ValueX_StringValue{StringValue: &dtpb.String{Value: u}}}}
		}
		pat.Extension = []*dtpb.Extension{mkx("first"), mkx("second"), mkx("third"), mkx("second")}
		if len(pat.Name) == 0 {
			pat.Name = []*dtpb.HumanName{{Family: &dtpb.String{Value: "Doe"}, Given: []*dtpb.String{{Value: "Ann"}}}}
		}
		if len(pat.Name) < 2 {
			pat.Name = append(pat.Name, &dtpb.HumanName{Family: &dtpb.String{Value: "Roe"}, Given: []*dtpb.String{{Value: "Cy"}, {Value: "Di"}}})
		}
		pat.Name[0].Extension = []*dtpb.Extension{mkx("first"), mkx("second")}
		annElem := &dtpb.String{Value: "Ann"}
		for pi, src := range progs {
			e, err := fhirpath.Compile(src, compopts.WithExperimentalFuncs())
			if err != nil {
				hist["compile-error"]++
				continue
			}
			compiled++
			// environment: a collection with spare capacity whose elements alias the resource, an empty one with
			// spare capacity, the resource itself, two system values
			backing := make(system.Collection, 8)
			backing[0] = system.String("Ann")
			backing[1] = annElem // a FHIR primitive ELEMENT: a conversion to a System value may not be written back
			backing[2] = pat.Name[0]
			for i := 3; i < 8; i++ {
				backing[i] = &sentinel{i}
			}
			coll := backing[:3]
			backing2 := make(system.Collection, 4)
			for i := range backing2 {
				backing2[i] = &sentinel{100 + i}
			}
			empty := backing2[:0]
			snapshot := append(system.Collection(nil), backing...)
			snapshot2 := append(system.Collection(nil), backing2...)
			input := []proto.Message{res}
			before := detBytes(res)
			beforeClone := proto.Clone(res)
			opts := []fhirpath.EvaluateOption{evalopts.EnvVariable("coll", coll), evalopts.EnvVariable("empty", empty), evalopts.EnvVariable("res", res),
				evalopts.EnvVariable("str", system.String("s")), evalopts.EnvVariable("num", system.Integer(1))}
			var out system.Collection
			var eerr error
			panicked, _ := protect(func() { out, eerr = verifhook.Evaluate(e, input, opts...) })
			first := summarize(out, eerr)
			resSame := detBytes(res) == before && proto.Equal(res, beforeClone)
			envSame := len(coll) == 3 && coll[2] == any(pat.Name[0]) && coll[0] == system.String("Ann") && coll[1] == any(annElem) && annElem.Value == "Ann" && len(empty) == 0
			backingSame := true
			for i := range backing {
				if backing[i] != snapshot[i] {
					backingSame = false
				}
			}
			for i := range backing2 {
				if backing2[i] != snapshot2[i] {
					backingSame = false
				}
			}
			inputSame := len(input) == 1 && input[0] == res
			// results are the input's own nodes
			ptrs := map[proto.Message]bool{}
			collectPointers(res.ProtoReflect(), ptrs)
			nodesOK := true
			hasContained := len(pat.Contained) > 0
			if eerr == nil && !panicked {
				for _, it := range out {
					pm, ok := it.(proto.Message)
					if !ok || ptrs[pm] {
						continue
					}
					switch pm.(type) {
					case *dtpb.String: // the synthesized `reference` string
						continue
					}
					if hasContained {
						continue // a copy unpacked from an Any cannot be told from the outside
					}
					if _, isSent := it.(*sentinel); isSent {
						nodesOK = false
					}
					// a message that is equal to an input node but is not that node is a copy
					for q := range ptrs {
						if q.ProtoReflect().Descriptor() == pm.ProtoReflect().Descriptor() && proto.Equal(q, pm) {
							nodesOK = false
							break
						}
					}
				}
			}
			// the expression is unchanged: it gives the same result again, on a fresh copy of everything
			exprSame := true
			if !panicked {
				res2 := proto.Clone(beforeClone)
				pat2 := res2.(*ppb.Patient)
				b3 := make(system.Collection, 8)
				b3[0] = system.String("Ann")
				b3[1] = &dtpb.String{Value: "Ann"}
				b3[2] = pat2.Name[0]
				opts2 := []fhirpath.EvaluateOption{evalopts.EnvVariable("coll", b3[:3]), evalopts.EnvVariable("empty", make(system.Collection, 0, 4)), evalopts.EnvVariable("res", res2),
					evalopts.EnvVariable("str", system.String("s")), evalopts.EnvVariable("num", system.Integer(1))}
				var out2 system.Collection
				var err2 error
				p2, _ := protect(func() { out2, err2 = verifhook.Evaluate(e, []proto.Message{res2}, opts2...) })
				exprSame = !p2 && summarize(out2, err2) == first
				if usesClock(src) {
					exprSame = !p2
				}
			}
			ok := resSame && envSame && backingSame && inputSame && nodesOK && exprSame
			if !ok && len(firstBad) < 25 {
				firstBad = append(firstBad, fmt.Sprintf("%s: res=%v env=%v backing=%v input=%v nodes=%v expr=%v", src, resSame, envSame, backingSame, inputSame, nodesOK, exprSame))
			}
			k := "ok"
			if eerr != nil {
				k = "eval-error"
			}
			if panicked {
				k = "panic"
			}
			hist[k]++
			sink.add(fmt.Sprintf("%s, {| ob_resources_same := %s; ob_env_same := %s; ob_backing_same := %s; ob_input_slice_same := %s; ob_expression_same := %s; ob_results_are_input_nodes := %s; ob_panicked := %s |}",
				coqN(uint64(pi)), coqBool(resSame), coqBool(envSame), coqBool(backingSame), coqBool(inputSame), coqBool(exprSame), coqBool(nodesOK), coqBool(panicked)),
				fmt.Sprintf("resource %d: %s", ri, src), k, fmt.Sprintf("%s:%d", k, pi%400))
		}
	}
	// ---- elements whose stored value is unusual (a time of day outside [0, 24h), a date with a hidden time of day, a
	// decimal with trailing zeros or an exponent, a zone name): reading and converting them may not normalise them in place
	{
		odd := temporalObservation()
		odd.GetValue().GetTime().ValueUs = -50400000000 // -14h
		odd.Component[0].GetValue().GetTime().ValueUs = 90000000000 // 25h
		odd.Component[1].GetValue().GetTime().ValueUs = 86400000000 // 24h
		odd.GetEffective().GetDateTime().Timezone = "Europe/Paris"
		odd.Issued.Timezone = "-00:00"
		odd2 := &opb.Observation{Id: &dtpb.Id{Value: "o2"}, Code: &dtpb.CodeableConcept{Text: fstr("q")},
			Value: &opb.Observation_ValueX{Choice: &opb.Observation_ValueX_Quantity{Quantity: &dtpb.Quantity{Value: &dtpb.Decimal{Value: "1.500"}, Code: &dtpb.Code{Value: "mg"}, Unit: fstr("milligram")}}},
			Effective: &opb.Observation_EffectiveX{Choice: &opb.Observation_EffectiveX_DateTime{DateTime: &dtpb.DateTime{ValueUs: 1579268700123456, Timezone: "+05:30", Precision: dtpb.DateTime_MONTH}}},
			Component: []*opb.Observation_Component{{Code: &dtpb.CodeableConcept{Text: fstr("c")}, Value: &opb.Observation_Component_ValueX{Choice: &opb.Observation_Component_ValueX_Quantity{Quantity: &dtpb.Quantity{Value: &dtpb.Decimal{Value: "1e2"}}}}}}}
		oddPat := basePatient()
		oddPat.BirthDate = &dtpb.Date{ValueUs: 1579268700000000, Precision: dtpb.Date_YEAR, Timezone: "America/New_York"}
		oddProgs := []string{"%s.value", "%s.value < @T23:00:00", "%s.value = @T01:00:00", "%s.value.toString()", "%s.value.toTime()", "%s.value.value", "%s.component.value.where($this > @T00:00:00)", "%s.component.value.toString()",
			"%s.effective < now()", "%s.effective.toString()", "%s.effective = @2020-01", "%s.issued.toString()", "%s.issued > @2020", "%s.value + 1 hour", "%s.value.value + 1", "%s.value.value.toString()", "%s.value = 1.5 'mg'",
			"%s.value.toQuantity()", "%s.component.value.value.round(1)", "%s.component.value.value = 100", "%s.descendants().toString()", "%s.descendants().select($this = $this)", "%s.birthDate = @2020", "%s.birthDate.toString()", "%s.birthDate + 1 year"}
		for ri, res := range []proto.Message{odd, odd2, oddPat} {
			root := string(res.ProtoReflect().Descriptor().Name())
			for pi, ps := range oddProgs {
				src := fmt.Sprintf(ps, root)
				e, err := fhirpath.Compile(src, compopts.WithExperimentalFuncs())
				if err != nil {
					continue
				}
				before := detBytes(res)
				beforeClone := proto.Clone(res)
				panicked, _ := protect(func() { verifhook.Evaluate(e, []proto.Message{res}) })
				same := detBytes(res) == before && proto.Equal(res, beforeClone)
				if !same && len(firstBad) < 25 {
					firstBad = append(firstBad, fmt.Sprintf("%s on the resource with unusual stored values #%d: the resource changed", src, ri))
				}
				if !same { // the next program starts from the original again
					proto.Reset(res)
					proto.Merge(res, beforeClone)
				}
				sink.add(fmt.Sprintf("%s, {| ob_resources_same := %s; ob_env_same := true; ob_backing_same := true; ob_input_slice_same := true; ob_expression_same := true; ob_results_are_input_nodes := true; ob_panicked := %s |}",
					coqN(uint64(100000+ri*1000+pi)), coqBool(same), coqBool(panicked)), fmt.Sprintf("unusual stored values, resource %d: %s", ri, src), "odd", fmt.Sprintf("odd:%d:%d", ri, pi))
			}
		}
	}
	sink.extra["programs"] = len(progs)
	sink.extra["compiled_runs"] = compiled
	sink.extra["outcomes"] = hist
	sink.extra["first_bad"] = firstBad
	sink.finish("every operator and every (function, arity) of the function table over focus expressions and boundary arguments, on three Patient resources, with environment variables that alias the resource and carry spare capacity filled with sentinels; "+
		"deterministic serialisation + proto.Equal of the resource, elements / length / whole backing array of every environment collection, the input slice, a second evaluation, pointer identity of result elements", false)
}

func usesClock(src string) bool {
	for _, w := range []string{"now()", "today()", "timeOfDay()"} {
		if len(src) >= len(w) && containsStr(src, w) {
			return true
		}
	}
	return false
}
func containsStr(s, w string) bool {
	for i := 0; i+len(w) <= len(s); i++ {
		if s[i:i+len(w)] == w {
			return true
		}
	}
	return false
}
