package main

import (
	"encoding/json"
	"fmt"
	"sort"
	"strconv"
	"strings"

	"github.com/google/fhir/go/fhirversion"
	"github.com/google/fhir/go/jsonformat"
	dtpb "github.com/google/fhir/go/proto/google/fhir/proto/r4/core/datatypes_go_proto"
	bcrpb "github.com/google/fhir/go/proto/google/fhir/proto/r4/core/resources/bundle_and_contained_resource_go_proto"
	ppb "github.com/google/fhir/go/proto/google/fhir/proto/r4/core/resources/patient_go_proto"
	"github.com/verily-src/fhirpath-go/fhirpath"
	"github.com/verily-src/fhirpath-go/fhirpath/system"
	"github.com/verily-src/fhirpath-go/fhirpath/verifhook"
	"google.golang.org/protobuf/proto"
	"google.golang.org/protobuf/reflect/protoreflect"
	"google.golang.org/protobuf/types/known/anypb"
)

func init() { props["C20"] = runC20 }

func oneofFieldSet(m proto.Message, oneof string) string {
	r := m.ProtoReflect()
	oo := r.Descriptor().Oneofs().ByName(protoreflect.Name(oneof))
	if oo == nil {
		return ""
	}
	fd := r.WhichOneof(oo)
	if fd == nil {
		return ""
	}
	return string(fd.Name())
}

// ---- the message tree as protorange walks it ---------------------------------------------------------------------
type pstep struct {
	fd  protoreflect.FieldDescriptor
	idx int
}
type treeBuilder struct {
	pathOf  map[uint64][]pstep
	nextUID uint64
	uidOf   map[proto.Message]uint64
	tyIDs   map[string]uint64
	anyKids map[uint64]proto.Message // uid -> message copy, for nodes below an expanded Any
	nodes   int
}

func (tb *treeBuilder) tyID(full string) uint64 {
	if id, ok := tb.tyIDs[full]; ok {
		return id
	}
	id := uint64(len(tb.tyIDs) + 1)
	tb.tyIDs[full] = id
	return id
}

func coqLabel(name string, choice bool, idx int) string {
	i := "None"
	if idx >= 0 {
		i = "(Some " + coqN(uint64(idx)) + ")"
	}
	return fmt.Sprintf("{| l_name := %s; l_choice := %s; l_idx := %s |}", coqBytes(name), coqBool(choice), i)
}

func (tb *treeBuilder) build(m protoreflect.Message, belowAny bool, path []pstep) string {
	tb.nextUID++
	tb.nodes++
	uid := tb.nextUID
	if belowAny {
		tb.anyKids[uid] = m.Interface()
	} else {
		tb.uidOf[m.Interface()] = uid
		tb.pathOf[uid] = append([]pstep(nil), path...)
	}
	full := string(m.Descriptor().FullName())
	isCR := full == "google.fhir.r4.core.ContainedResource" || full == "google.protobuf.Any"
	var kids []string
	if full == "google.protobuf.Any" {
		if inner, err := anypb.UnmarshalNew(m.Interface().(*anypb.Any), proto.UnmarshalOptions{}); err == nil {
			kids = append(kids, fmt.Sprintf("(%s, %s)", coqLabel("(any)", false, -1), tb.build(inner.ProtoReflect(), true, nil)))
		}
	} else {
		fds := m.Descriptor().Fields()
		for i := 0; i < fds.Len(); i++ {
			fd := fds.Get(i)
			if fd.Kind() != protoreflect.MessageKind || !m.Has(fd) {
				continue
			}
			choice := fd.ContainingOneof() != nil && fd.ContainingOneof().Name() == "choice"
			if fd.IsList() {
				l := m.Get(fd).List()
				for k := 0; k < l.Len(); k++ {
					kids = append(kids, fmt.Sprintf("(%s, %s)", coqLabel(fd.JSONName(), choice, k), tb.build(l.Get(k).Message(), belowAny, append(path, pstep{fd, k}))))
				}
			} else if !fd.IsMap() {
				kids = append(kids, fmt.Sprintf("(%s, %s)", coqLabel(fd.JSONName(), choice, -1), tb.build(m.Get(fd).Message(), belowAny, append(path, pstep{fd, -1}))))
			}
		}
	}
	return fmt.Sprintf("(Node %s %s %s %s)", coqN(uid), coqN(tb.tyID(full)), coqBool(isCR), coqList(kids))
}

// ---- locating a path in the FHIR JSON tree ---------------------------------------------------------------------------
type jsonState struct{ val, shadow any }

func jsonLocate(root map[string]any, path string) (jsonState, bool) {
	toks := strings.Split(path, ".")
	if len(toks) == 0 || root["resourceType"] != toks[0] {
		return jsonState{}, false
	}
	st := jsonState{val: root}
	for _, tok := range toks[1:] {
		name, idx := tok, -1
		if i := strings.Index(tok, "["); i >= 0 && strings.HasSuffix(tok, "]") {
			name = tok[:i]
			n, err := strconv.Atoi(tok[i+1 : len(tok)-1])
			if err != nil {
				return jsonState{}, false
			}
			idx = n
		}
		obj, ok := st.val.(map[string]any)
		if !ok {
			obj, ok = st.shadow.(map[string]any)
			if !ok {
				return jsonState{}, false
			}
		}
		v, hasV := obj[name]
		sh, hasS := obj["_"+name]
		if !hasV && !hasS {
			return jsonState{}, false
		}
		if idx >= 0 {
			pick := func(x any, has bool) (any, bool) {
				if !has {
					return nil, false
				}
				arr, ok := x.([]any)
				if !ok || idx >= len(arr) {
					return nil, false
				}
				return arr[idx], arr[idx] != nil
			}
			var okV, okS bool
			v, okV = pick(v, hasV)
			sh, okS = pick(sh, hasS)
			if !okV && !okS {
				return jsonState{}, false
			}
		} else {
			if _, isArr := v.([]any); isArr {
				return jsonState{}, false // a list needs an index
			}
		}
		st = jsonState{val: v, shadow: sh}
	}
	return st, true
}

// jsonLocates: mark the element (found again in a clone through its proto path) and look for the mark at the
// labelled path of the clone's FHIR JSON.
func jsonLocates(mar *jsonformat.Marshaller, res proto.Message, steps []pstep, path string) bool {
	clone := proto.Clone(res)
	cur := clone.ProtoReflect()
	for _, st := range steps {
		if st.idx >= 0 {
			cur = cur.Get(st.fd).List().Get(st.idx).Message()
		} else {
			cur = cur.Mutable(st.fd).Message()
		}
	}
	const mark = "MARK-7f3a"
	isString := cur.Descriptor().FullName() == "google.fhir.r4.core.String"
	if isString {
		cur.Set(cur.Descriptor().Fields().ByName("value"), protoreflect.ValueOfString(mark))
	} else {
		idf := cur.Descriptor().Fields().ByName("id")
		if idf == nil || idf.Message() == nil {
			return false
		}
		cur.Set(idf, protoreflect.ValueOfMessage((&dtpb.String{Value: mark}).ProtoReflect()))
	}
	data, err := mar.MarshalResource(clone)
	if err != nil {
		return false
	}
	var root map[string]any
	if json.Unmarshal(data, &root) != nil {
		return false
	}
	st, ok := jsonLocate(root, path)
	if !ok {
		return false
	}
	if isString {
		return st.val == mark
	}
	for _, x := range []any{st.val, st.shadow} {
		if obj, ok := x.(map[string]any); ok && obj["id"] == mark {
			return true
		}
	}
	return false
}

func runC20(cfg config) {
	sink := newSink(cfg.out, "C20", "C19.Model C20.Model", "N * case * obs", "judge", 60)
	r := &rng{s: cfg.seed*0x9e3779b97f4a7c15 + 20}
	g := &genState{r: &rng{s: cfg.seed + 2000}}
	scale := 1
	if cfg.tier == "thorough" {
		scale = 6
	}
	mar, err := jsonformat.NewMarshaller(false, "", "", fhirversion.R4)
	must(err)
	types := verifhook.ResourceTypeNames()
	crFields := (&bcrpb.ContainedResource{}).ProtoReflect().Descriptor().Fields()

	// ---- CResType: every registry type --------------------------------------------------------------------------------
	for _, name := range types {
		newOK := false
		var res proto.Message
		protect(func() {
			a, err := verifhook.NewResourceFromString(name)
			b := verifhook.NewResource(name)
			newOK = err == nil && a != nil && b != nil && string(a.ProtoReflect().Descriptor().Name()) == name && string(b.ProtoReflect().Descriptor().Name()) == name
		})
		res = g.resource(name, 2)
		typeOf := ""
		protect(func() { typeOf = verifhook.ResourceTypeOf(res) })
		schemaField := ""
		for i := 0; i < crFields.Len(); i++ {
			if crFields.Get(i).Message() != nil && string(crFields.Get(i).Message().Name()) == name {
				schemaField = string(crFields.Get(i).Name())
			}
		}
		var cr *bcrpb.ContainedResource
		wrapField, typeOfCR := "", ""
		unwrapSame, entrySame := false, false
		protect(func() {
			cr = verifhook.WrapContained(res)
			wrapField = oneofFieldSet(cr, "oneof_resource")
			typeOfCR = verifhook.ContainedTypeOf(cr)
			unwrapSame = verifhook.UnwrapContained(cr) == res
		})
		protect(func() {
			entrySame = verifhook.UnwrapEntry(verifhook.NewCollectionEntry(res)) == res &&
				verifhook.UnwrapEntry(verifhook.NewPostEntry(res)) == res && verifhook.UnwrapEntry(verifhook.NewPutEntry(res)) == res
		})
		sink.add(fmt.Sprintf("CResType %s, OResType %s %s %s %s %s %s %s %s", coqBytes(name), coqBool(newOK), coqBytes(typeOf), coqBytes(verifhook.ContainedFieldOf(name)),
			coqBytes(wrapField), coqBytes(schemaField), coqBytes(typeOfCR), coqBool(unwrapSame), coqBool(entrySame)), "resource type "+name, "restype", "restype:"+name)
	}
	// names that are not registry types
	for _, name := range []string{"", "patient", "Nope", "DomainResource", "Resource", "ContainedResource", "HumanName"} {
		var err error
		pn, _ := protect(func() { _, err = verifhook.NewResourceFromString(name) })
		if pn || err == nil {
			sink.add(fmt.Sprintf("CResType %s, OResType true [] [] [] [] [] false false", coqBytes(name)), "NewFromString accepted or panicked on "+name, "restype:bad-accepted", "")
		}
	}
	sink.extra["registry_types"] = len(types)

	// ---- CElemType: every element registry name; the 49+ extension value types ---------------------------------------------
	vxFields := (&dtpb.Extension_ValueX{}).ProtoReflect().Descriptor().Fields()
	var vxNames []string
	for i := 0; i < vxFields.Len(); i++ {
		vxNames = append(vxNames, coqBytes(string(vxFields.Get(i).Name())))
	}
	nValueX := 0
	for _, name := range verifhook.ElementTypeNames() {
		schema := "None"
		for i := 0; i < vxFields.Len(); i++ {
			if vxFields.Get(i).Message() != nil && string(vxFields.Get(i).Message().Name()) == name {
				schema = "(Some " + coqBytes(string(vxFields.Get(i).Name())) + ")"
				nValueX++
			}
		}
		el := verifhook.NewElement(name)
		g.populate(el.ProtoReflect(), 1, 0.5)
		fromOK, unwrapSame, newSame := false, false, false
		setField := ""
		protect(func() {
			ext, err := verifhook.ExtensionFromElement("urn:x", el)
			fromOK = err == nil && ext != nil
			if fromOK {
				setField = oneofFieldSet(ext.GetValue(), "choice")
				unwrapSame = verifhook.ExtensionUnwrap(ext) == el && ext.GetUrl().GetValue() == "urn:x"
			}
		})
		protect(func() {
			ext, ok := verifhook.ExtensionNew("urn:y", el)
			newSame = ok && verifhook.ExtensionUnwrap(ext) == el && ext.GetUrl().GetValue() == "urn:y"
		})
		sink.add(fmt.Sprintf("CElemType %s %s %s, OElemType %s %s %s %s %s", coqBytes(name), coqList(vxNames), schema, coqBytes(verifhook.ExtensionFieldOf(name)),
			coqBool(fromOK), coqBytes(setField), coqBool(unwrapSame), coqBool(newSame)), "element type "+name, "elemtype", "elemtype:"+name)
	}
	sink.extra["extension_value_types"] = nValueX
	sink.extra["valuex_fields"] = vxFields.Len()

	// ---- CBundle ------------------------------------------------------------------------------------------------------------
	for i := 0; i < 60*scale; i++ {
		n := r.intn(7)
		var rs []proto.Message
		var entries []*bcrpb.Bundle_Entry
		var cs []string
		for k := 0; k < n; k++ {
			name := pick(r, types)
			res := g.resource(name, 1)
			rs = append(rs, res)
			switch r.intn(3) {
			case 0:
				entries = append(entries, verifhook.NewCollectionEntry(res))
			case 1:
				entries = append(entries, verifhook.NewPostEntry(res))
			default:
				entries = append(entries, verifhook.NewPutEntry(res))
			}
			cs = append(cs, fmt.Sprintf("(%s, %s)", coqBytes(name), coqN(uint64(k+1))))
		}
		var out []string
		protect(func() {
			for _, u := range verifhook.UnwrapBundle(verifhook.NewCollectionBundle(entries...)) {
				id := "None"
				for k, x := range rs {
					if x == u {
						id = "(Some " + coqN(uint64(k+1)) + ")"
					}
				}
				out = append(out, id)
			}
		})
		sink.add(fmt.Sprintf("CBundle %s, OBundle %s", coqList(cs), coqList(out)), fmt.Sprintf("bundle of %d entries", n), fmt.Sprintf("bundle:%d", n), fmt.Sprintf("bundle:%d:%d", n, i%5))
	}

	// ---- CExtOps --------------------------------------------------------------------------------------------------------------
	// urls 0..3 are plain; 4.. differ from an earlier one only in letter case or by a trailing character (other urls all the same)
	urlNames := []string{"urn:u0", "urn:u1", "urn:u2", "urn:u3", "urn:U0", "URN:u1", "urn:u2/", "urn:u", "Urn:U3"}
	urlOf := func(u int) string { return urlNames[u%len(urlNames)] }
	urlID := map[string]int{}
	for i, n := range urlNames {
		urlID[n] = i
	}
	mkExt := func(u, v int) *dtpb.Extension {
		return &dtpb.Extension{Url: &dtpb.Uri{Value: urlOf(u)}, Value: &dtpb.Extension_ValueX{Choice: &dtpb.Extension_ValueX_StringValue{StringValue: &dtpb.String{Value: fmt.Sprintf("v%d", v)}}}}
	}
	readExts := func(t interface{ GetExtension() []*dtpb.Extension }) string {
		var out []string
		for _, e := range t.GetExtension() {
			u, v := 0, 0
			u = urlID[e.GetUrl().GetValue()]
			switch x := verifhook.ExtensionUnwrap(e).(type) {
			case *dtpb.String:
				fmt.Sscanf(x.GetValue(), "v%d", &v)
			case *dtpb.Coding:
				fmt.Sscanf(x.GetCode().GetValue(), "v%d", &v)
			}
			out = append(out, fmt.Sprintf("(%s, %s)", coqN(uint64(u)), coqN(uint64(v))))
		}
		return coqList(out)
	}
	for i := 0; i < 400*scale; i++ {
		nextV := 1
		var target interface {
			proto.Message
			GetExtension() []*dtpb.Extension
		}
		if r.bool() {
			target = &ppb.Patient{}
		} else {
			target = &dtpb.HumanName{}
		}
		nInit := r.intn(7)
		nURL := 3 + r.intn(5)
		var initC []string
		var initE []*dtpb.Extension
		for k := 0; k < nInit; k++ {
			u := 1 + r.intn(nURL)
			if k > 0 && r.intn(3) == 0 { // runs of the same url
				u = urlID[initE[k-1].GetUrl().GetValue()]
			}
			initE = append(initE, mkExt(u, nextV))
			initC = append(initC, fmt.Sprintf("(%s, %s)", coqN(uint64(u)), coqN(uint64(nextV))))
			nextV++
		}
		if len(initE) > 0 {
			verifhook.ExtensionOverwrite(target, initE...)
		}
		var opsC, states []string
		panicked := false
		nOps := 1 + r.intn(5)
		kinds := ""
		for k := 0; k < nOps && !panicked; k++ {
			u := 1 + r.intn(nURL+1)
			var pn bool
			switch r.intn(6) {
			case 0, 1:
				v := nextV
				nextV++
				opsC = append(opsC, fmt.Sprintf("OpUpsert (%s, %s)", coqN(uint64(u)), coqN(uint64(v))))
				pn, _ = protect(func() { verifhook.ExtensionUpsert(target, mkExt(u, v)) })
				kinds += "U"
			case 2, 3:
				n := r.intn(4)
				var vs []string
				var vals []*dtpb.String
				var codings []*dtpb.Coding
				useCoding := r.bool()
				for j := 0; j < n; j++ {
					vs = append(vs, coqN(uint64(nextV)))
					vals = append(vals, &dtpb.String{Value: fmt.Sprintf("v%d", nextV)})
					codings = append(codings, &dtpb.Coding{Code: &dtpb.Code{Value: fmt.Sprintf("v%d", nextV)}})
					nextV++
				}
				opsC = append(opsC, fmt.Sprintf("OpSetByURL %s %s", coqN(uint64(u)), coqList(vs)))
				pn, _ = protect(func() {
					if useCoding {
						verifhook.ExtensionSetByURLCoding(target, urlOf(u), codings...)
					} else {
						verifhook.ExtensionSetByURLString(target, urlOf(u), vals...)
					}
				})
				kinds += "S"
			case 4:
				n := r.intn(3)
				var es []string
				var exts []*dtpb.Extension
				for j := 0; j < n; j++ {
					uu := 1 + r.intn(nURL+1)
					es = append(es, fmt.Sprintf("(%s, %s)", coqN(uint64(uu)), coqN(uint64(nextV))))
					exts = append(exts, mkExt(uu, nextV))
					nextV++
				}
				if r.intn(4) == 0 {
					opsC = append(opsC, fmt.Sprintf("OpOverwrite %s", coqList(es)))
					pn, _ = protect(func() { verifhook.ExtensionOverwrite(target, exts...) })
					kinds += "O"
				} else {
					opsC = append(opsC, fmt.Sprintf("OpAppend %s", coqList(es)))
					pn, _ = protect(func() { verifhook.ExtensionAppendInto(target, exts...) })
					kinds += "A"
				}
			default:
				if r.intn(3) == 0 {
					opsC = append(opsC, "OpClear")
					pn, _ = protect(func() { verifhook.ExtensionClear(target) })
					kinds += "C"
				} else {
					v := nextV
					nextV++
					opsC = append(opsC, fmt.Sprintf("OpUpsert (%s, %s)", coqN(uint64(u)), coqN(uint64(v))))
					pn, _ = protect(func() { verifhook.ExtensionUpsert(target, mkExt(u, v)) })
					kinds += "U"
				}
			}
			panicked = panicked || pn
			states = append(states, readExts(target))
		}
		sink.add(fmt.Sprintf("CExtOps %s %s, OExtOps %s %s", coqList(initC), coqList(opsC), coqList(states), coqBool(panicked)),
			fmt.Sprintf("extensions %s then %s", coqList(initC), strings.Join(opsC, "; ")), "extops:"+kinds[:1], "extops:"+kinds)
	}

	// ---- CExtract -------------------------------------------------------------------------------------------------------------
	kinds := []struct{ name, full string }{
		{"Reference", "google.fhir.r4.core.Reference"}, {"Identifier", "google.fhir.r4.core.Identifier"}, {"Coding", "google.fhir.r4.core.Coding"},
		{"Extension", "google.fhir.r4.core.Extension"}, {"String", "google.fhir.r4.core.String"}, {"DateTime", "google.fhir.r4.core.DateTime"},
	}
	tyIDs := map[string]uint64{}
	for i, k := range kinds {
		tyIDs[k.full] = uint64(i + 1) // Reference = 1 is known to the model
	}
	nExtract := 0
	totalNodes := 0
	exprCache := map[string]*fhirpath.Expression{}
	var jsonBad, fpBad []string
	var preparedX proto.Message
	doExtract := func(name string, depth int, keepContained bool) {
		res := preparedX
		if res == nil {
			res = g.resource(name, depth)
		}
		preparedX = nil
		for try := 0; keepContained && try < 20; try++ { // insist on a contained resource / a bundle entry
			fd := res.ProtoReflect().Descriptor().Fields().ByName("contained")
			if name == "Bundle" {
				fd = res.ProtoReflect().Descriptor().Fields().ByName("entry")
			}
			if fd == nil || res.ProtoReflect().Get(fd).List().Len() > 0 {
				break
			}
			res = g.resource(name, depth)
		}
		if !keepContained {
			if fd := res.ProtoReflect().Descriptor().Fields().ByName("contained"); fd != nil {
				res.ProtoReflect().Clear(fd)
			}
		}
		tb := &treeBuilder{uidOf: map[proto.Message]uint64{}, tyIDs: tyIDs, anyKids: map[uint64]proto.Message{}, pathOf: map[uint64][]pstep{}}
		tree := tb.build(res.ProtoReflect(), false, nil)
		if tb.nodes > 700 {
			return
		}
		totalNodes += tb.nodes
		var ts, results []string
		found := 0
		for _, k := range kinds {
			ts = append(ts, coqN(tb.tyID(k.full)))
			var wp []verifhook.ElemPath
			var all []proto.Message
			var e1, e2 error
			if pn, _ := protect(func() { wp, all, e1, e2 = verifhook.Extract(k.name, res) }); pn {
				results = append(results, "(None, None, false, false)")
				continue
			}
			usedAny := map[uint64]bool{}
			uidFor := func(el proto.Message) uint64 {
				if u, ok := tb.uidOf[el]; ok {
					return u
				}
				var ids []uint64
				for u := range tb.anyKids {
					ids = append(ids, u)
				}
				sort.Slice(ids, func(a, b int) bool { return ids[a] < ids[b] })
				for _, u := range ids {
					c := tb.anyKids[u]
					if !usedAny[u] && c.ProtoReflect().Descriptor() == el.ProtoReflect().Descriptor() && proto.Equal(c, el) {
						usedAny[u] = true
						return u
					}
				}
				return 0
			}
			wpC, allC := "None", "None"
			jsonOK, fpOK := true, true
			if e1 == nil {
				var items []string
				for _, e := range wp {
					items = append(items, fmt.Sprintf("(%s, %s)", coqBytes(e.Path), coqN(uidFor(e.Element))))
					found++
					if u := tb.uidOf[e.Element]; u == 0 || !jsonLocates(mar, res, tb.pathOf[u], e.Path) {
						jsonOK = false
						jsonBad = append(jsonBad, name+": "+e.Path)
					}
					// through FHIRPath, when no choice-typed step is involved
					if !pathHasChoice(res, e.Path, tb) {
						ex, ok := exprCache[e.Path]
						if !ok {
							ex, _ = fhirpath.Compile(e.Path)
							exprCache[e.Path] = ex
						}
						good := false
						if ex != nil {
							var out system.Collection
							var err error
							protect(func() { out, err = verifhook.Evaluate(ex, []proto.Message{res}) })
							if err == nil && len(out) == 1 {
								if pm, ok := out[0].(proto.Message); ok && (pm == e.Element || proto.Equal(pm, e.Element)) {
									good = true
								}
							}
						}
						if !good {
							fpOK = false
							fpBad = append(fpBad, name+": "+e.Path)
						}
					}
				}
				wpC = "(Some " + coqList(items) + ")"
			}
			usedAny = map[uint64]bool{}
			if e2 == nil {
				var items []string
				for _, el := range all {
					items = append(items, coqN(uidFor(el)))
				}
				allC = "(Some " + coqList(items) + ")"
			}
			results = append(results, fmt.Sprintf("(%s, %s, %s, %s)", wpC, allC, coqBool(jsonOK), coqBool(fpOK)))
		}
		nExtract++
		k := "extract"
		if keepContained {
			k += ":contained-kept"
		}
		sink.add(fmt.Sprintf("CExtract %s %s %s, OExtract %s", coqBytes(name), coqList(ts), tree, coqList(results)),
			fmt.Sprintf("extract from generated %s (%d nodes, %d elements found)", name, tb.nodes, found), k, fmt.Sprintf("extract:%s:%d", name, tb.nodes/20))
	}
	// elements below the date-like primitives (extensions of a date, of a dateTime in a choice, of an instant, of a time)
	xs := func(u string, nested ...*dtpb.Extension) *dtpb.Extension {
		e := &dtpb.Extension{Url: &dtpb.Uri{Value: "http://example.org/" + u}, Extension: nested}
		if len(nested) == 0 {
			e.Value = &dtpb.Extension_ValueX{Choice: &dtpb.Extension_ValueX_StringValue{StringValue: &dtpb.String{Value: u}}}
		}
		return e
	}
	{
		p := basePatient()
		p.BirthDate.Extension = []*dtpb.Extension{xs("a"), xs("b", xs("b1"), xs("b2"))}
		p.BirthDate.Id = &dtpb.String{Value: "bd"}
		p.Deceased = &ppb.Patient_DeceasedX{Choice: &ppb.Patient_DeceasedX_DateTime{DateTime: &dtpb.DateTime{ValueUs: 1710014400000000, Timezone: "Z", Precision: dtpb.DateTime_SECOND, Extension: []*dtpb.Extension{xs("d"), xs("e")}}}}
		p.Name[0].Period = &dtpb.Period{Start: &dtpb.DateTime{ValueUs: 1710014400000000, Timezone: "Z", Precision: dtpb.DateTime_DAY, Extension: []*dtpb.Extension{xs("s", xs("s1"))}}}
		preparedX = p
		doExtract("Patient", 2, false)
		o := temporalObservation()
		o.Issued.Extension = []*dtpb.Extension{xs("i"), xs("j")}
		o.GetValue().GetTime().Extension = []*dtpb.Extension{xs("t", xs("t1"))}
		o.GetEffective().GetDateTime().Extension = []*dtpb.Extension{xs("f"), xs("g")}
		o.Component[1].GetValue().GetTime().Extension = []*dtpb.Extension{xs("c")}
		preparedX = o
		doExtract("Observation", 2, false)
	}
	for _, name := range types {
		doExtract(name, 2, false)
	}
	for i := 0; i < 40*scale; i++ {
		doExtract(pick(r, types), 3, r.intn(4) == 0)
	}
	for i := 0; i < 4*scale; i++ {
		doExtract("Bundle", 3, true)
		doExtract(pick(r, []string{"Patient", "Observation", "Encounter", "MedicationRequest"}), 3, true)
	}
	if len(jsonBad) > 40 {
		jsonBad = jsonBad[:40]
	}
	if len(fpBad) > 40 {
		fpBad = fpBad[:40]
	}
	sink.extra["json_mismatch_examples"] = jsonBad
	sink.extra["fhirpath_mismatch_examples"] = fpBad
	sink.extra["extract_cases"] = nExtract
	sink.extra["extract_tree_nodes"] = totalNodes
	sink.finish("exhaustive over the registry types (New/TypeOf/Wrap/Unwrap/entries) and the element registry (extension value oneof); random bundles; random extension lists with repeated URLs x mutator sequences; "+
		"extraction of {Reference, Identifier, Coding, Extension, string, dateTime} from a generated resource of every type, each path located in the FHIR JSON and, without choice steps, through Evaluate", false)
}

// pathHasChoice: does the rendered path cross a member of a `choice` oneof?  Decided on the message tree, not
// on the string: follow the JSON names from the root.
func pathHasChoice(res proto.Message, path string, tb *treeBuilder) bool {
	toks := strings.Split(path, ".")
	cur := res.ProtoReflect()
	for _, tok := range toks[1:] {
		name, idx := tok, -1
		if i := strings.Index(tok, "["); i >= 0 {
			name = tok[:i]
			idx, _ = strconv.Atoi(tok[i+1 : len(tok)-1])
		}
		fds := cur.Descriptor().Fields()
		var next protoreflect.Message
		matched := false
		for i := 0; i < fds.Len() && !matched; i++ {
			fd := fds.Get(i)
			if fd.Kind() != protoreflect.MessageKind {
				continue
			}
			if fd.JSONName() == name {
				matched = true
				if fd.IsList() {
					if idx < 0 || idx >= cur.Get(fd).List().Len() {
						return true
					}
					next = cur.Get(fd).List().Get(idx).Message()
				} else {
					next = cur.Get(fd).Message()
				}
			}
		}
		if !matched {
			return true // the component is fieldName+ChoiceMember: a choice step
		}
		cur = next
	}
	return false
}
