package main

import (
	"fmt"
	"sort"
	"strings"

	"github.com/verily-src/fhirpath-go/fhirpath"
	"github.com/verily-src/fhirpath-go/fhirpath/compopts"
	"github.com/verily-src/fhirpath-go/fhirpath/evalopts"
	"github.com/verily-src/fhirpath-go/fhirpath/system"
	"github.com/verily-src/fhirpath-go/fhirpath/verifhook"
	"google.golang.org/protobuf/proto"
)

func init() { props["C07"] = runC07 }

// c07Run compiles and evaluates src; outcome class as a Coq constructor.
func c07Run(src string, input []proto.Message, copts []fhirpath.CompileOption) (string, string) {
	var out system.Collection
	var cerr, eerr error
	panicked, msg := protect(func() {
		var e *fhirpath.Expression
		e, cerr = fhirpath.Compile(src, copts...)
		if cerr != nil {
			return
		}
		out, eerr = verifhook.Evaluate(e, input, evalopts.EnvVariable("ve", system.Collection{}),
			evalopts.EnvVariable("vne", system.Collection{system.Collection{}, system.Collection{system.Collection{}}}))
	})
	switch {
	case panicked:
		return "OPanic", "panic: " + msg
	case cerr != nil:
		return "ORejected", "compile error: " + cerr.Error()
	case eerr != nil:
		return "OErr", "error: " + eerr.Error()
	case len(out) == 0:
		return "OEmpty", "{}"
	}
	return "OValue", fmt.Sprint(out)
}

func runC07(cfg config) {
	sink := newSink(cfg.out, "C07", "C16.Model C07.Model", "N * case * outcome", "(judge RUN.Gen_functable.base_table RUN.Gen_functable.experimental_table)", 400)
	sink.header = "From Coq Require Import String.\nFrom RUN Require Gen_functable.\n"
	input := []proto.Message{basePatient()}
	// the empty collection, as a literal, an absent element path and an empty environment variable
	empties := []struct{ kind, root, inner string }{
		{"literal", "{}", "{}"},
		{"absent-path", "Patient.maritalStatus", "%context.maritalStatus"},
		{"env", "%ve", "%ve"},
		{"env-nested", "%vne", "%vne"}, // empty only once nested empty collections are spliced in
		{"function-result", "Patient.name.given.skip(9)", "%context.name.given.skip(9)"},
		{"filter-result", "Patient.name.where(false)", "%context.name.where(false)"},
	}
	// ---- operators ------------------------------------------------------------------------
	type op struct{ coq, fmtSrc, operand string }
	ops := []op{
		{"OAdd", "%s + %s", "1"}, {"OSub", "%s - %s", "1"}, {"OMul", "%s * %s", "2"}, {"ODiv", "%s / %s", "2"},
		{"OIDiv", "%s div %s", "2"}, {"OMod", "%s mod %s", "2"},
		{"OLt", "%s < %s", "1"}, {"OLe", "%s <= %s", "1"}, {"OGt", "%s > %s", "1"}, {"OGe", "%s >= %s", "1"},
		{"OEq", "%s = %s", "1"}, {"ONe", "%s != %s", "1"}, {"OConcat", "%s & %s", "'a'"},
		{"OAdd", "%s + %s", "'s'"}, {"OAdd", "%s + %s", "@2020-01-01"}, {"OLt", "%s < %s", "@T10:00"}, {"OEq", "%s = %s", "Patient.name"},
		{"OAdd", "%s + %s", "1.5"}, {"OSub", "%s - %s", "2 days"}, {"OEq", "%s = %s", "Patient.active"},
		// the other operand is not a singleton primitive: empty still wins
		{"OAdd", "%s + %s", "Patient.name.given"}, {"OSub", "%s - %s", "Patient.name.first()"}, {"OMul", "%s * %s", "Patient.name"}, {"ODiv", "%s / %s", "Patient.name.given"},
		{"OIDiv", "%s div %s", "Patient"}, {"OMod", "%s mod %s", "Patient.communication"}, {"OLt", "%s < %s", "Patient.name.first()"}, {"OLe", "%s <= %s", "Patient.name.given"},
		{"OGt", "%s > %s", "Patient.name"}, {"OGe", "%s >= %s", "Patient.communication.preferred"}, {"ONe", "%s != %s", "Patient.name.given"},
	}
	for _, o := range ops {
		for _, e := range empties {
			for _, s := range []struct{ coq string; l, r bool }{{"SLeft", true, false}, {"SRight", false, true}, {"SBoth", true, true}} {
				l, r := o.operand, o.operand
				if s.l {
					l = e.root
				}
				if s.r {
					r = e.inner
					if !s.l {
						r = e.root
						if e.kind == "absent-path" {
							r = e.root // right operands are compiled with a fresh root flag
						}
					}
				}
				src := fmt.Sprintf(o.fmtSrc, l, r)
				oc, human := c07Run(src, input, nil)
				sink.add(fmt.Sprintf("COp %s %s, %s", o.coq, s.coq, oc), src+" => "+human, "op/"+oc, "op/"+o.coq+"/"+s.coq+"/"+e.kind+"/"+o.operand)
			}
		}
	}
	for _, e := range empties {
		for _, u := range []struct{ coq, src string }{
			{"OIs", "%s is Integer"}, {"OAs", "%s as Integer"}, {"OIs", "%s is Patient"}, {"OAs", "%s as FHIR.string"},
			{"ONeg", "-%s"}, {"OPos", "+%s"}, {"OIndexColl", "%s[0]"}, {"OIndexIdx", "Patient.name[%s]"}, {"OIndexIdx", "'a'.toChars()[%s]"},
		} {
			arg := e.root
			if strings.Contains(u.src, "[%s]") {
				arg = e.inner
				if e.kind == "absent-path" {
					arg = "Patient.maritalStatus"
				}
			}
			if e.kind == "literal" && (u.coq == "ONeg" || u.coq == "OPos" || u.coq == "OIs" || u.coq == "OAs" || u.coq == "OIndexColl") {
				arg = "(" + arg + ")"
			}
			src := fmt.Sprintf(u.src, arg)
			oc, human := c07Run(src, input, nil)
			sink.add(fmt.Sprintf("COp %s SLeft, %s", u.coq, oc), src+" => "+human, "op/"+oc, "op/"+u.coq+"/"+e.kind+"/"+u.src)
		}
	}
	// ---- functions ---------------------------------------------------------------------------
	names := map[string]bool{}
	for n := range verifhook.TableBounds(true) {
		names[n] = true
	}
	var sorted []string
	for n := range names {
		sorted = append(sorted, n)
	}
	sort.Strings(sorted)
	for _, exp := range []bool{false, true} {
		var copts []fhirpath.CompileOption
		if exp {
			copts = append(copts, compopts.WithExperimentalFuncs())
		}
		bounds := verifhook.TableBounds(exp)
		for _, n := range sorted {
			b, inTable := bounds[n]
			lo, hi := 0, 2
			if inTable {
				lo, hi = b[0], b[1]
				if lo > 0 {
					lo--
				}
				hi++
			}
			for k := lo; k <= hi && k <= 4; k++ {
				call := c16Call(n, k)
				dot := strings.Index(call, "."+n+"(")
				argsText := call[dot+1:]
				recv := call[:dot]
				for _, e := range empties {
					// (a) empty input
					src := e.root + "." + argsText
					if e.kind == "literal" {
						src = "{}." + argsText
					}
					oc, human := c07Run(src, input, copts)
					key := ""
					if oc != "ORejected" {
						key = fmt.Sprintf("in/%v/%s/%d/%s", exp, n, k, e.kind)
					}
					sink.add(fmt.Sprintf("CInput %s \"%s\"%%string %s, %s", coqBool(exp), n, coqZ(int64(k)), oc), src+" => "+human, "input/"+oc, key)
					// (b) empty argument at each position, for the usual receiver and for degenerate ones of the same type
					for pos := 0; pos < k; pos++ {
						for ri, rv := range c07ReceiversFor(n, recv) {
							parts := splitArgs(argsText[len(n)+1 : len(argsText)-1])
							parts[pos] = e.inner
							src := rv + "." + n + "(" + strings.Join(parts, ", ") + ")"
							oc, human := c07Run(src, input, copts)
							key := ""
							if oc != "ORejected" {
								key = fmt.Sprintf("arg/%v/%s/%d/%d/%s/%d", exp, n, k, pos, e.kind, ri)
							}
							sink.add(fmt.Sprintf("CArg %s \"%s\"%%string %s %s, %s", coqBool(exp), n, coqZ(int64(k)), coqZ(int64(pos)), oc), src+" => "+human, "arg/"+oc, key)
						}
					}
				}
			}
		}
	}
	sink.finish("exhaustive: every operator x operand position x empty source (literal {}, absent path, empty environment variable), and every name of the base and experimental tables x every arity Compile accepts (plus one below and one above) x empty input and empty argument at every position; non-trivial = compiled cases, distinct by (kind, name, arity, position, empty source)", true)
}

// splitArgs splits a comma-separated argument list (the arguments used here contain no nested commas
// except inside parentheses).
func splitArgs(s string) []string {
	var parts []string
	depth, start := 0, 0
	for i, c := range s {
		switch c {
		case '(':
			depth++
		case ')':
			depth--
		case ',':
			if depth == 0 {
				parts = append(parts, strings.TrimSpace(s[start:i]))
				start = i + 1
			}
		}
	}
	if strings.TrimSpace(s[start:]) != "" {
		parts = append(parts, strings.TrimSpace(s[start:]))
	}
	return parts
}

// c07Receivers: the receiver a call is usually made on, and degenerate receivers of the same type (the empty string,
// zero, a single item): an empty argument gives the same outcome whatever the receiver holds.
// c07ReceiversFor: conversion functions take a receiver of any type and branch on it before they look at their
// argument, so the empty argument is tried on a receiver of every System type and on FHIR elements.
func c07ReceiversFor(name, recv string) []string {
	rs := c07Receivers(recv)
	if strings.HasPrefix(name, "to") || strings.HasPrefix(name, "convertsTo") {
		for _, extra := range []string{"5", "1.5", "true", "'1 mg'", "1 'mg'", "2 days", "@2020-01-01", "@2020-01-01T10:00:00Z", "@T10:00", "Patient.active", "Patient.birthDate", "Patient.name.first()"} {
			dup := false
			for _, x := range rs {
				dup = dup || x == extra
			}
			if !dup {
				rs = append(rs, extra)
			}
		}
	}
	return rs
}

func c07Receivers(recv string) []string {
	switch {
	case strings.HasPrefix(recv, "'"):
		return []string{recv, "''", "'é'"}
	case recv == "4.5" || recv == "4.0" || recv == "4.567":
		return []string{recv, "1.0"}
	case recv == "5" || recv == "1":
		return []string{recv, "0"}
	case recv == "Patient.name":
		return []string{recv, "Patient.name.first()", "Patient.name.given"}
	}
	return []string{recv}
}
