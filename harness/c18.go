package main

import (
	"errors"
	"fmt"
	"hash/fnv"
	"sort"
	"strings"

	dtpb "github.com/google/fhir/go/proto/google/fhir/proto/r4/core/datatypes_go_proto"
	opb "github.com/google/fhir/go/proto/google/fhir/proto/r4/core/resources/organization_go_proto"
	ppb "github.com/google/fhir/go/proto/google/fhir/proto/r4/core/resources/patient_go_proto"
	rppb "github.com/google/fhir/go/proto/google/fhir/proto/r4/core/resources/related_person_go_proto"
	"github.com/verily-src/fhirpath-go/fhirpath"
	"github.com/verily-src/fhirpath-go/fhirpath/system"
	"github.com/verily-src/fhirpath-go/fhirpath/verifhook"
	"google.golang.org/protobuf/proto"
	"google.golang.org/protobuf/reflect/protoreflect"
	"google.golang.org/protobuf/types/known/anypb"
)

func init() { props["C18"] = runC18 }

// ---- the message tree -------------------------------------------------------------------------------------------
type physStep struct {
	num int
	idx int
}
type physNode struct {
	msg    protoreflect.Message
	path   []physStep
	parent *physNode
	fd     protoreflect.FieldDescriptor // the field of the parent that holds it
	expr   string                       // FHIRPath with indexes; "" when not addressable (wrappers)
	inAny  bool
}
type physTree struct {
	byPtr map[proto.Message]*physNode
	nodes []*physNode
	tyIDs map[string]int64
}

func scalarHash(m protoreflect.Message) int64 {
	h := fnv.New64a()
	fds := m.Descriptor().Fields()
	for i := 0; i < fds.Len(); i++ {
		fd := fds.Get(i)
		if fd.Kind() == protoreflect.MessageKind || !m.Has(fd) {
			continue
		}
		if fd.IsList() {
			l := m.Get(fd).List()
			for k := 0; k < l.Len(); k++ {
				fmt.Fprintf(h, "%d[%d]=%v;", fd.Number(), k, l.Get(k).Interface())
			}
		} else {
			fmt.Fprintf(h, "%d=%v;", fd.Number(), m.Get(fd).Interface())
		}
	}
	return int64(h.Sum64() >> 2)
}

func (pt *physTree) tyID(md protoreflect.MessageDescriptor) int64 {
	full := string(md.FullName())
	if id, ok := pt.tyIDs[full]; ok {
		return id
	}
	id := int64(len(pt.tyIDs) + 1)
	pt.tyIDs[full] = id
	return id
}

func isWrapperMsg(md protoreflect.MessageDescriptor) bool {
	return hasChoiceOneof(md) || md.FullName() == "google.fhir.r4.core.ContainedResource"
}

// build renders the tree and (when pt.byPtr != nil) records every node.
func (pt *physTree) build(m protoreflect.Message, parent *physNode, fd protoreflect.FieldDescriptor, path []physStep, expr string, record bool) string {
	var n *physNode
	if record {
		n = &physNode{msg: m, path: append([]physStep(nil), path...), parent: parent, fd: fd, expr: expr}
		pt.byPtr[m.Interface()] = n
		pt.nodes = append(pt.nodes, n)
	}
	var kids []string
	fds := m.Descriptor().Fields()
	// children sorted by field number
	var order []protoreflect.FieldDescriptor
	for i := 0; i < fds.Len(); i++ {
		if f := fds.Get(i); f.Kind() == protoreflect.MessageKind && m.Has(f) && !f.IsMap() {
			order = append(order, f)
		}
	}
	sort.Slice(order, func(a, b int) bool { return order[a].Number() < order[b].Number() })
	wrapper := isWrapperMsg(m.Descriptor())
	for _, f := range order {
		childExpr := func(k int) string {
			if expr == "" && !wrapper {
				return ""
			}
			if wrapper {
				return expr // the chosen value / the contained resource is reached by the wrapper's own path
			}
			e := expr + "." + renderName(f.JSONName())
			if k >= 0 {
				e += fmt.Sprintf("[%d]", k)
			}
			return e
		}
		if m.Descriptor().FullName() == "google.protobuf.Any" {
			continue
		}
		if f.IsList() {
			l := m.Get(f).List()
			for k := 0; k < l.Len(); k++ {
				kids = append(kids, fmt.Sprintf("(%d, %s)", f.Number(), pt.build(l.Get(k).Message(), n, f, append(path, physStep{int(f.Number()), k}), childExpr(k), record)))
			}
		} else {
			kids = append(kids, fmt.Sprintf("(%d, %s)", f.Number(), pt.build(m.Get(f).Message(), n, f, append(path, physStep{int(f.Number()), 0}), childExpr(-1), record)))
		}
	}
	return fmt.Sprintf("Node %d %d %s", pt.tyID(m.Descriptor()), scalarHash(m), coqList(kids))
}

func coqPhysPath(p []physStep) string {
	var xs []string
	for _, s := range p {
		xs = append(xs, fmt.Sprintf("(%d, %d%%nat)", s.num, s.idx))
	}
	return coqList(xs)
}

// ---- how a value has to be stored in a field of element type D --------------------------------------------------------
type storedForm struct {
	class int // 0 right type, 1 wrong type, 2 invalid code, 3 negative for unsigned
	msg   proto.Message
}

func stringValueOf(v proto.Message) (string, bool) {
	type stringable interface{ GetValue() string }
	if s, ok := v.(stringable); ok {
		return s.GetValue(), true
	}
	return "", false
}

func storedFormOf(d protoreflect.MessageDescriptor, v proto.Message) storedForm {
	vd := v.ProtoReflect().Descriptor()
	// a message with exactly one oneof other than Reference's: the member of the value's type
	if d.Oneofs().Len() == 1 && d.Oneofs().ByName("reference") == nil {
		fields := d.Fields()
		for i := 0; i < fields.Len(); i++ {
			f := fields.Get(i)
			if f.Message() != nil && f.Message() == vd {
				c := newMessage(d)
				c.Set(f, protoreflect.ValueOfMessage(v.ProtoReflect()))
				return storedForm{0, c.Interface()}
			}
		}
		return storedForm{1, nil}
	}
	valueField := d.Fields().ByName("value")
	s, ok := stringValueOf(v)
	if ok && valueField != nil && valueField.Kind() == protoreflect.EnumKind {
		// the patch package accepts a code only in kebab-case and looks its SCREAMING_SNAKE form up
		if s == "" || strings.ToLower(s) != s || strings.ContainsAny(s, "_ .") {
			return storedForm{2, nil}
		}
		ev := valueField.Enum().Values().ByName(protoreflect.Name(strings.ToUpper(strings.ReplaceAll(s, "-", "_"))))
		if ev == nil {
			return storedForm{2, nil}
		}
		c := newMessage(d)
		c.Set(valueField, protoreflect.ValueOfEnum(ev.Number()))
		return storedForm{0, c.Interface()}
	}
	if ok && valueField != nil && valueField.FullName() == "google.fhir.r4.core.ReferenceId.value" {
		return storedForm{0, &dtpb.ReferenceId{Value: s}}
	}
	if iv, ok := v.(*dtpb.Integer); ok && valueField != nil && d != vd {
		switch valueField.Kind() {
		case protoreflect.Int32Kind:
			c := newMessage(d)
			c.Set(valueField, protoreflect.ValueOfInt32(iv.GetValue()))
			return storedForm{0, c.Interface()}
		case protoreflect.Uint32Kind:
			if iv.GetValue() < 0 {
				return storedForm{3, nil}
			}
			c := newMessage(d)
			c.Set(valueField, protoreflect.ValueOfUint32(uint32(iv.GetValue())))
			return storedForm{0, c.Interface()}
		default:
			return storedForm{1, nil}
		}
	}
	if d == vd {
		return storedForm{0, v}
	}
	return storedForm{1, nil}
}

func runC18(cfg config) {
	sink := newSink(cfg.out, "C18", "C18.Model", "N * case * obs", "judge", 40)
	r := &rng{s: cfg.seed*0x9e3779b97f4a7c15 + 18}
	g := &genState{r: &rng{s: cfg.seed + 1800}}
	scale := 1
	if cfg.tier == "thorough" {
		scale = 5
	}
	types := verifhook.ResourceTypeNames()
	tyIDs := map[string]int64{}
	exprCache := map[string]*fhirpath.Expression{}
	var panics, others []string
	kindsHist := map[string]int{}

	render := func(m proto.Message) string {
		pt := &physTree{tyIDs: tyIDs}
		return pt.build(m.ProtoReflect(), nil, nil, nil, "", false)
	}
	// a value of message type d (populated), or of a type that is not d
	valueOf := func(d protoreflect.MessageDescriptor) proto.Message {
		m := newMessage(d)
		g.populate(m, 1, 0.6)
		g.setPrimitive(m)
		return m.Interface()
	}
	otherValue := func(d protoreflect.MessageDescriptor) proto.Message {
		cands := []proto.Message{&dtpb.Coding{Code: &dtpb.Code{Value: "c"}}, &dtpb.HumanName{Family: &dtpb.String{Value: "F"}}, &dtpb.Integer{Value: 4},
			&dtpb.String{Value: "s"}, &dtpb.Period{}, &dtpb.Boolean{Value: true}, &dtpb.Decimal{Value: "1.5"},
			// nested messages that share their short name with a message of another resource
			&opb.Organization_Contact{Purpose: &dtpb.CodeableConcept{Text: &dtpb.String{Value: "p"}}}, &rppb.RelatedPerson_Communication{Preferred: &dtpb.Boolean{Value: true}}, &ppb.Patient_Contact{}, &ppb.Patient_Communication{}}
		for tries := 0; tries < 20; tries++ {
			c := pick(r, cands)
			if storedFormOf(d, c).class == 1 {
				return c
			}
		}
		return nil
	}

	type forcedOp struct {
		kind, expr, field string
		value             proto.Message
	}
	var prepared proto.Message
	var forced []forcedOp
	doResource := func(name string, depth int, nOps int) {
		res := prepared
		if res == nil {
			res = g.resource(name, depth)
			if r.intn(3) == 0 {
				lengthenLists(r, res.ProtoReflect(), 0)
			}
		}
		script := forced
		prepared, forced = nil, nil
		var lastAdded string    // expression of an element just added (to delete it again)
		var lastReplaced string // expression of an element just replaced ...
		var lastOld proto.Message
		for opi := 0; opi < nOps; opi++ {
			pt := &physTree{byPtr: map[proto.Message]*physNode{}, tyIDs: tyIDs}
			before := pt.build(res.ProtoReflect(), nil, nil, nil, name, true)
			if len(pt.nodes) > 250 {
				return
			}
			// addressable elements (not wrappers)
			var elems []*physNode
			for _, n := range pt.nodes[1:] {
				if n.expr != "" && !isWrapperMsg(n.msg.Descriptor()) && n.msg.Descriptor().FullName() != "google.protobuf.Any" {
					elems = append(elems, n)
				}
			}
			if len(elems) == 0 {
				return
			}
			evaluate := func(src string) (system.Collection, int) {
				e, ok := exprCache[src]
				if !ok {
					var err error
					e, err = fhirpath.Compile(src)
					if err != nil {
						return nil, 9
					}
					exprCache[src] = e
				}
				var out system.Collection
				var err error
				if pn, _ := protect(func() { out, err = verifhook.Evaluate(e, []proto.Message{res}) }); pn {
					return nil, 10
				}
				if err != nil {
					if errors.Is(err, fhirpath.ErrInvalidField) {
						return nil, 3
					}
					return nil, 9
				}
				return out, 0
			}
			// the field value that holds an element: the element itself or its outermost wrapper
			holder := func(n *physNode) *physNode {
				for n.parent != nil && isWrapperMsg(n.parent.msg.Descriptor()) {
					n = n.parent
				}
				return n
			}
			type call struct {
				kind                                          string
				src                                           string
				evalErr, nresults, nparents                   int
				parent                                        *physNode
				hasParent                                     bool
				field                                         protoreflect.FieldDescriptor
				fieldNum, index                               int
				isList, fieldValid, populated, camel, inAny bool
				insertIndex                                   int
				value                                         proto.Message
				form                                          storedForm
				nilValue                                      bool
				run                                           func() error
			}
			c := call{camel: true, fieldValid: true}
			suffixes := []string{"", "", "", ".first()", ".last()", ".where(true)", ".where(true).first()", ".first().last()"}
			choose := r.intn(10)
			var fo *forcedOp
			if opi < len(script) {
				fo = &script[opi]
				choose = map[string]int{"delete": 0, "replace": 3, "add": 6}[fo.kind]
			}
			findElem := func(expr string) *physNode {
				for _, n := range append(elems, pt.nodes[0]) {
					if n.expr == expr {
						return n
					}
				}
				return nil
			}
			if fo != nil && findElem(fo.expr) == nil {
				continue
			}
			if fo != nil {
			} else if lastAdded != "" && r.intn(2) == 0 {
				choose = 100
			} else if lastReplaced != "" && r.intn(2) == 0 {
				choose = 101
			}
			targetFor := func(src string, deep bool) {
				out, code := evaluate(src)
				c.evalErr, c.nresults = code, len(out)
				if code == 0 && len(out) == 1 {
					if pm, ok := out[0].(proto.Message); ok {
						if _, known := pt.byPtr[pm]; !known && strings.Contains(src, ".contained") && !deep {
							// a copy unpacked from the Any of a contained resource
							c.parent, c.hasParent, c.inAny = pt.nodes[0], true, true
							return
						}
						if n, ok := pt.byPtr[pm]; ok {
							h := holder(n)
							scalarFirst := false // the patch package gives up at a populated scalar field in front of the target's field
							if h.parent != nil {
								pfs := h.parent.msg.Descriptor().Fields()
								for i := 0; i < pfs.Len() && pfs.Get(i) != h.fd; i++ {
									if pf := pfs.Get(i); pf.Kind() != protoreflect.MessageKind && !pf.IsList() && h.parent.msg.Has(pf) {
										scalarFirst = true
									}
								}
							}
							if h.parent != nil && !deep && !scalarFirst {
								c.parent, c.hasParent = h.parent, true
								c.field, c.fieldNum, c.isList = h.fd, int(h.fd.Number()), h.fd.IsList()
								c.index = h.path[len(h.path)-1].idx
							}
						}
					}
				}
			}
			switch {
			case choose == 100: // delete what was just added
				c.kind, c.src = "delete", lastAdded
				targetFor(c.src, false)
				c.run = func() error { return verifhook.PatchDelete(res, c.src) }
				lastAdded = ""
			case choose == 101: // replace back
				c.kind, c.src = "replace", lastReplaced
				targetFor(c.src, false)
				c.value = lastOld
				if c.hasParent {
					c.form = storedFormOf(elemDescriptor(c.field), c.value)
				}
				c.run = func() error { return verifhook.PatchReplace(res, c.src, c.value) }
				lastReplaced = ""
			case choose <= 2: // delete
				n := pick(r, elems)
				suf := pick(r, suffixes)
				if fo != nil {
					n, suf = findElem(fo.expr), ""
				}
				c.kind = "delete"
				c.src = n.expr + suf
				if fo == nil && r.intn(6) == 0 { // an un-indexed path: possibly several elements
					c.src = stripIndexes(n.expr)
				}
				if fo == nil && r.intn(12) == 0 {
					c.src = n.expr + ".nonexistent"
				}
				if fo == nil && r.intn(8) == 0 && res.ProtoReflect().Descriptor().Fields().ByName("contained") != nil {
					c.src = name + ".contained[0].id"
					suf = ""
				}
				targetFor(c.src, stepsAfterField(c.src) >= 2)
				c.run = func() error { return verifhook.PatchDelete(res, c.src) }
			case choose <= 5: // replace
				n := pick(r, elems)
				suf := pick(r, suffixes)
				if fo != nil {
					n, suf = findElem(fo.expr), ""
					if n == pt.nodes[0] {
						continue
					}
				}
				c.kind = "replace"
				c.src = n.expr + suf
				if fo == nil && r.intn(8) == 0 {
					c.src = stripIndexes(n.expr)
				}
				targetFor(c.src, stepsAfterField(c.src) >= 2)
				h := holder(n)
				d := elemDescriptor(h.fd)
				sel := r.intn(8)
				if fo != nil {
					sel, c.value = 100, fo.value
				}
				switch sel {
				case 100:
				case 0:
					c.nilValue = true
				case 1, 2:
					c.value = otherValue(d)
				case 3:
					c.value = pick(r, []proto.Message{&dtpb.Code{Value: "not-a-code"}, &dtpb.Code{Value: "Male"}, &dtpb.Integer{Value: -3}, &dtpb.Integer{Value: 7}, &dtpb.String{Value: "final"}})
				default:
					c.value = valueOf(n.msg.Descriptor())
				}
				if c.value == nil {
					c.nilValue = true
				}
				if !c.nilValue && c.hasParent {
					c.form = storedFormOf(elemDescriptor(c.field), c.value)
				}
				if !c.nilValue && c.hasParent && c.form.class == 0 && c.evalErr == 0 && c.nresults == 1 && suf == "" && c.src == n.expr {
					lastReplaced, lastOld = c.src, proto.Clone(holderValue(n))
				}
				c.run = func() error { return verifhook.PatchReplace(res, c.src, c.value) }
			case choose <= 7: // add
				n := pick(r, append(elems, pt.nodes[0]))
				if fo != nil {
					n = findElem(fo.expr)
				}
				c.kind = "add"
				c.src = n.expr
				if fo == nil && r.intn(10) == 0 {
					c.src = stripIndexes(n.expr)
				}
				out, code := evaluate(c.src)
				c.evalErr, c.nresults = code, len(out)
				var tgt *physNode
				if code == 0 && len(out) == 1 {
					if pm, ok := out[0].(proto.Message); ok {
						tgt = pt.byPtr[pm]
						if tgt == nil {
							// a value made by the evaluator (a reference string, the copy of a contained resource):
							// the addition goes to that value
							c.parent, c.hasParent, c.inAny = pt.nodes[0], true, true
						}
					}
				}
				// a field of the element's type
				md := n.msg.Descriptor()
				var mfields []protoreflect.FieldDescriptor
				for i := 0; i < md.Fields().Len(); i++ {
					if f := md.Fields().Get(i); f.Kind() == protoreflect.MessageKind && !f.IsMap() && f.Message().FullName() != "google.protobuf.Any" && f.ContainingOneof() == nil {
						mfields = append(mfields, f) // (members of Reference's oneof are no FHIR elements)
					}
				}
				fname := "nonexistent"
				var f protoreflect.FieldDescriptor
				if fo != nil {
					var only []protoreflect.FieldDescriptor
					for _, mf := range mfields {
						if mf.JSONName() == fo.field {
							only = append(only, mf)
						}
					}
					mfields = only
				}
				if len(mfields) > 0 && (fo != nil || r.intn(10) != 0) {
					f = pick(r, mfields)
					fname = f.JSONName()
					if strings.ToLower(fname[:1]) != fname[:1] || strings.ContainsAny(fname, "0123456789") || hasAcronym(fname) {
						f, fname = nil, "nonexistent" // names the snake-case conversion cannot find
					}
				}
				if fo == nil && r.intn(15) == 0 {
					fname, f = "given_name", nil
					c.camel = false
				}
				if tgt != nil {
					c.parent, c.hasParent = tgt, true
				}
				if f == nil {
					c.fieldValid = false
					c.value = &dtpb.String{Value: "x"}
				} else {
					c.field, c.fieldNum, c.isList = f, int(f.Number()), f.IsList()
					if tgt != nil {
						c.populated = tgt.msg.Has(f)
					}
					d := f.Message()
					sel := r.intn(8)
					if fo != nil {
						sel, c.value = 100, fo.value
					}
					switch sel {
					case 100:
					case 0:
						c.nilValue = true
					case 1:
						c.value = otherValue(d)
					case 2:
						c.value = pick(r, []proto.Message{&dtpb.Code{Value: "not-a-code"}, &dtpb.Integer{Value: -3}, &dtpb.Integer{Value: 7}, &dtpb.Code{Value: "final"}, &dtpb.Code{Value: "active"}, &dtpb.Code{Value: "male"}})
					default:
						if d.Oneofs().Len() == 1 && d.Oneofs().ByName("reference") == nil && d.Fields().Len() > 0 {
							mf := d.Fields().Get(r.intn(d.Fields().Len()))
							if mf.Message() != nil {
								c.value = valueOf(mf.Message())
							}
						} else {
							c.value = valueOf(d)
						}
					}
					if c.value == nil {
						c.nilValue = true
					} else {
						c.form = storedFormOf(d, c.value)
					}
				}
				fn := fname
				c.run = func() error { return verifhook.PatchAdd(res, c.src, fn, c.value) }
				if tgt != nil && f != nil && !c.nilValue && c.form.class == 0 && (f.IsList() || !c.populated) && tgt.expr != "" && c.src == n.expr && !isWrapperMsg(f.Message()) {
					k := 0
					if f.IsList() {
						k = tgt.msg.Get(f).List().Len()
						lastAdded = fmt.Sprintf("%s.%s[%d]", tgt.expr, renderName(f.JSONName()), k)
					} else {
						lastAdded = fmt.Sprintf("%s.%s", tgt.expr, renderName(f.JSONName()))
					}
				}
			case choose == 8: // insert
				// an element with a repeated message field
				var cands []*physNode
				for _, n := range append(elems, pt.nodes[0]) {
					md := n.msg.Descriptor()
					for i := 0; i < md.Fields().Len(); i++ {
						if f := md.Fields().Get(i); f.Kind() == protoreflect.MessageKind && f.IsList() && f.Message().FullName() != "google.protobuf.Any" {
							cands = append(cands, n)
							break
						}
					}
				}
				if len(cands) == 0 {
					continue
				}
				n := pick(r, cands)
				md := n.msg.Descriptor()
				var lf []protoreflect.FieldDescriptor
				for i := 0; i < md.Fields().Len(); i++ {
					if f := md.Fields().Get(i); f.Kind() == protoreflect.MessageKind && !f.IsMap() && f.Message().FullName() != "google.protobuf.Any" && (f.IsList() || r.intn(6) == 0) {
						if !hasAcronym(f.JSONName()) {
							lf = append(lf, f)
						}
					}
				}
				if len(lf) == 0 {
					continue
				}
				f := lf[0]
				for _, x := range lf { // prefer a populated list
					if n.msg.Has(x) && r.intn(2) == 0 {
						f = x
					}
				}
				c.kind = "insert"
				base := n.expr
				if r.intn(10) == 0 {
					base = stripIndexes(n.expr)
				} else if strings.HasSuffix(base, "[0]") && r.intn(3) == 0 {
					// the first of several parents reached through a prefix of the list instead of an index
					base = strings.TrimSuffix(base, "[0]") + pick(r, []string{".take(1)", ".take(1)", ".first()", ".skip(0).take(1)"})
				}
				c.src = base + "." + renderName(f.JSONName())
				pout, pcode := evaluate(base)
				out, code := evaluate(c.src)
				c.evalErr, c.nresults, c.nparents = code, len(out), len(pout)
				if pcode != 0 && code == 0 {
					c.nparents = 1
				}
				if code == 0 && len(pout) == 1 {
					if pm, ok := pout[0].(proto.Message); ok {
						if tgt, ok := pt.byPtr[pm]; ok {
							c.parent, c.hasParent = tgt, true
						}
					}
				}
				c.field, c.fieldNum, c.isList = f, int(f.Number()), f.IsList()
				if c.hasParent { // the same give-up at a populated scalar field in front of the list's field
					pfs := c.parent.msg.Descriptor().Fields()
					for i := 0; i < pfs.Len() && pfs.Get(i) != f; i++ {
						if pf := pfs.Get(i); pf.Kind() != protoreflect.MessageKind && !pf.IsList() && c.parent.msg.Has(pf) && n.msg.Has(f) {
							c.parent, c.hasParent = nil, false
							break
						}
					}
				}
				ln := 0
				if f.IsList() {
					ln = n.msg.Get(f).List().Len()
				}
				c.insertIndex = r.intn(ln+3) - 1
				d := f.Message()
				switch r.intn(6) {
				case 0:
					c.nilValue = true
				case 1:
					c.value = otherValue(d)
				default:
					c.value = valueOf(d)
				}
				if c.value == nil {
					c.nilValue = true
				} else {
					// Insert compares descriptors only: no wrapping, no normalisation
					if c.value.ProtoReflect().Descriptor() == d {
						c.form = storedForm{0, c.value}
					} else {
						c.form = storedForm{1, nil}
					}
				}
				idx := c.insertIndex
				c.run = func() error { return verifhook.PatchInsert(res, c.src, c.value, idx) }
			default: // move
				n := pick(r, elems)
				c.kind, c.src = "move", stripIndexes(n.expr)
				c.run = func() error { return verifhook.PatchMove(res, c.src, 0, 1) }
			}
			var valueBefore proto.Message
			if c.value != nil {
				valueBefore = proto.Clone(c.value)
			}
			var err error
			code := 0
			if pn, msg := protect(func() { err = c.run() }); pn {
				code = 10
				panics = append(panics, fmt.Sprintf("%s %s: %s", c.kind, c.src, msg))
			} else {
				code = verifhook.PatchErrCode(err)
				if code == 9 {
					if errors.Is(err, fhirpath.ErrInvalidField) {
						code = 3
					} else if c.evalErr == 9 {
						code = 9
					} else {
						others = append(others, fmt.Sprintf("%s %s: %v", c.kind, c.src, err))
					}
				}
			}
			after := render(res)
			valueSame := true
			if c.value != nil && code != 0 {
				valueSame = proto.Equal(valueBefore, c.value)
			}
			kindC := map[string]string{"delete": "KDelete", "replace": "KReplace", "add": "KAdd", "insert": "KInsert", "move": "KMove"}[c.kind]
			parentC := "None"
			if c.hasParent {
				parentC = "(Some " + coqPhysPath(c.parent.path) + ")"
			}
			cls := c.form.class
			if c.nilValue {
				cls = 4
			}
			storedC := "None"
			if c.form.msg != nil && cls == 0 {
				storedC = "(Some (" + render(c.form.msg) + "))"
			}
			if c.kind == "replace" || c.kind == "add" || c.kind == "insert" {
				if c.value != nil && cls == 0 && code == 0 {
					// the stored form was rendered after the call: the value is shared with the resource from here on
				}
			}
			oc := fmt.Sprintf("{| o_kind := %s; o_eval_err := %s; o_nresults := %s; o_nparents := %s; o_parent := %s; o_field := %d; o_index := %d%%nat; o_field_is_list := %s; o_field_valid := %s; o_field_populated := %s; o_name_camel := %s; o_insert_index := %s; o_value_class := %s; o_stored := %s; o_in_any := %s; o_found_in_last := %s |}",
				kindC, coqN(uint64(c.evalErr)), coqN(uint64(c.nresults)), coqN(uint64(c.nparents)), parentC, c.fieldNum, c.index, coqBool(c.isList), coqBool(c.fieldValid), coqBool(c.populated), coqBool(c.camel),
				coqZ(int64(c.insertIndex)), coqN(uint64(cls)), storedC, coqBool(c.inAny), coqBool(stepsAfterField(c.src) == 0 && c.parent != nil && len(c.parent.path) > 0 && !strings.HasSuffix(parentSrc(c.src), "]")))
			sink.add(fmt.Sprintf("(%s, %s), (%s, %s, %s)", oc, before, coqN(uint64(code)), after, coqBool(valueSame)),
				fmt.Sprintf("%s: %s %s (class %d, index %d) -> code %d", name, c.kind, c.src, cls, c.insertIndex, code), fmt.Sprintf("%s:code%d", c.kind, code), fmt.Sprintf("%s:%d:%d:%s", c.kind, code, cls, name))
			kindsHist[c.kind]++
		}
	}
	// ---- scripted histories: long lists deleted from the front and the middle; the same code stored twice, then one
	// of the two elements changed (the other may not follow) ------------------------------------------------------
	ext := func(u string) *dtpb.Extension {
		return &dtpb.Extension{Url: &dtpb.Uri{Value: "http://example.org/" + u}, Value: &dtpb.Extension_ValueX{Choice: &dtpb.Extension_ValueX_StringValue{StringValue: &dtpb.String{Value: u}}}}
	}
	longPatient := func() *ppb.Patient {
		p := &ppb.Patient{Id: &dtpb.Id{Value: "long"}}
		for i := 0; i < 5; i++ {
			p.Telecom = append(p.Telecom, &dtpb.ContactPoint{Value: &dtpb.String{Value: fmt.Sprintf("tel-%d", i)}, Rank: &dtpb.PositiveInt{Value: uint32(i + 1)}})
			p.Identifier = append(p.Identifier, &dtpb.Identifier{Value: &dtpb.String{Value: fmt.Sprintf("id-%d", i)}})
		}
		p.Name = []*dtpb.HumanName{{Family: &dtpb.String{Value: "Doe"}}}
		for i := 0; i < 6; i++ {
			p.Name[0].Given = append(p.Name[0].Given, &dtpb.String{Value: fmt.Sprintf("given-%d", i)})
		}
		return p
	}
	for _, first := range []int{0, 1, 2, 3} {
		prepared = longPatient()
		forced = []forcedOp{{kind: "delete", expr: fmt.Sprintf("Patient.telecom[%d]", first)}, {kind: "delete", expr: fmt.Sprintf("Patient.name[0].given[%d]", first+1)},
			{kind: "delete", expr: "Patient.identifier[0]"}, {kind: "delete", expr: fmt.Sprintf("Patient.telecom[%d]", first%2)}, {kind: "delete", expr: "Patient.name[0].given[0]"}}
		doResource("Patient", 2, 8)
	}
	for _, code := range []string{"phone", "email"} {
		prepared = longPatient()
		forced = []forcedOp{
			{kind: "add", expr: "Patient.telecom[0]", field: "system", value: &dtpb.Code{Value: code}},
			{kind: "add", expr: "Patient.telecom[1]", field: "system", value: &dtpb.Code{Value: code}},
			{kind: "add", expr: "Patient.telecom[0].system", field: "extension", value: ext("only-on-the-first")},
			{kind: "add", expr: "Patient.telecom[2]", field: "use", value: &dtpb.Code{Value: "home"}},
			{kind: "replace", expr: "Patient.telecom[2].use", value: &dtpb.Code{Value: "work"}},
			{kind: "add", expr: "Patient.telecom[3]", field: "use", value: &dtpb.Code{Value: "work"}},
			{kind: "add", expr: "Patient.telecom[3].use", field: "extension", value: ext("only-on-the-fourth")},
			{kind: "add", expr: "Patient", field: "gender", value: &dtpb.Code{Value: "female"}},
			{kind: "add", expr: "Patient.gender", field: "extension", value: ext("only-here")},
		}
		doResource("Patient", 2, 10)
	}
	{ // a multi-word code spelt with `_` where the value set has `-` is not a code of the value set: refused, nothing changes
		lp := longPatient()
		lp.Link = []*ppb.Patient_Link{{Other: &dtpb.Reference{Display: &dtpb.String{Value: "other"}}, Type: &ppb.Patient_Link_TypeCode{Value: 3}},
			{Other: &dtpb.Reference{Display: &dtpb.String{Value: "second"}}}}
		prepared = lp
		forced = []forcedOp{
			{kind: "replace", expr: "Patient.link[0].type", value: &dtpb.Code{Value: "replaced_by"}},
			{kind: "add", expr: "Patient.link[1]", field: "type", value: &dtpb.Code{Value: "replaced_by"}},
			{kind: "add", expr: "Patient.link[1]", field: "type", value: &dtpb.String{Value: "REPLACED-BY"}},
			{kind: "add", expr: "Patient.link[1]", field: "type", value: &dtpb.Code{Value: "replaced-by"}},
			{kind: "replace", expr: "Patient.link[0].type", value: &dtpb.Code{Value: "replaced-_by"}},
			{kind: "replace", expr: "Patient.link[0].type", value: &dtpb.Code{Value: "replaced-by"}},
		}
		doResource("Patient", 2, 7)
	}
	{ // the same code as in the history above, in another resource: nothing of the first may come along
		prepared = longPatient()
		forced = []forcedOp{{kind: "add", expr: "Patient.telecom[4]", field: "system", value: &dtpb.Code{Value: "phone"}}, {kind: "add", expr: "Patient", field: "gender", value: &dtpb.Code{Value: "female"}},
			{kind: "add", expr: "Patient.telecom[1]", field: "use", value: &dtpb.Code{Value: "work"}}}
		doResource("Patient", 2, 4)
	}
	{ // elements that exist and hold their zero value (false, 0, '', an unset code): Add must still refuse them
		zp := longPatient()
		zp.Active = &dtpb.Boolean{Value: false}
		zp.Gender = &ppb.Patient_GenderCode{}
		zp.Name[0].Family = &dtpb.String{Value: ""}
		zp.Telecom[0].Rank = &dtpb.PositiveInt{Value: 0}
		zp.MultipleBirth = &ppb.Patient_MultipleBirthX{Choice: &ppb.Patient_MultipleBirthX_Integer{Integer: &dtpb.Integer{Value: 0}}}
		prepared = zp
		forced = []forcedOp{{kind: "add", expr: "Patient", field: "active", value: &dtpb.Boolean{Value: true}}, {kind: "add", expr: "Patient", field: "gender", value: &dtpb.Code{Value: "male"}},
			{kind: "add", expr: "Patient.name[0]", field: "family", value: &dtpb.String{Value: "x"}}, {kind: "add", expr: "Patient.telecom[0]", field: "rank", value: &dtpb.PositiveInt{Value: 3}},
			{kind: "replace", expr: "Patient.active", value: &dtpb.Boolean{Value: true}}, {kind: "add", expr: "Patient", field: "active", value: &dtpb.Boolean{Value: false}},
			{kind: "delete", expr: "Patient.active"}, {kind: "add", expr: "Patient", field: "active", value: &dtpb.Boolean{Value: false}}, {kind: "add", expr: "Patient", field: "active", value: &dtpb.Boolean{Value: true}}}
		doResource("Patient", 2, 10)
	}
	for _, name := range types {
		doResource(name, 2, 7)
	}
	for i := 0; i < 25*scale; i++ {
		doResource(pick(r, types), 2, 12)
	}
	for i := 0; i < 4*scale; i++ {
		doResource("Bundle", 3, 10)
	}
	for i := 0; i < 6*scale; i++ { // resources whose nested elements share short names with others (Contact, Communication)
		doResource(pick(r, []string{"Patient", "Organization", "RelatedPerson"}), 3, 14)
	}
	if len(panics) > 30 {
		panics = panics[:30]
	}
	if len(others) > 30 {
		others = others[:30]
	}
	sink.extra["panic_examples"] = panics
	sink.extra["other_error_examples"] = others
	sink.extra["operations"] = kindsHist
	sink.finish("sequences of 7-12 patch calls on a generated resource of every registry type: delete / replace of indexed, un-indexed and filtered paths (first, last, where, two filters), add of valid, populated, non-existent and snake-case names, insert at every index in [-1, len+1], values of the right type, another type, codes, integers for unsigned types and nil; inverse pairs (add then delete, replace then replace back); move", false)
}

// stepsAfterField counts the steps after the last element name: an index and every function call. The patch
// package finds the parent only in the input of the last step or of the one before it.
func stepsAfterField(src string) int {
	n := strings.Count(src[strings.LastIndex(src, ".")+1:], "(")
	// walk back over trailing function calls
	rest := src
	count := 0
	for {
		i := strings.LastIndex(rest, ".")
		if i < 0 {
			break
		}
		last := rest[i+1:]
		if strings.Contains(last, "(") {
			count++
			rest = rest[:i]
			continue
		}
		if strings.HasSuffix(last, "]") {
			count++
		}
		break
	}
	_ = n
	return count
}

// parentSrc is the expression without its last step.
func parentSrc(src string) string {
	if i := strings.LastIndex(src, "."); i >= 0 {
		return src[:i]
	}
	return src
}

func hasAcronym(n string) bool {
	for i := 0; i+1 < len(n); i++ {
		if n[i] >= 'A' && n[i] <= 'Z' && n[i+1] >= 'A' && n[i+1] <= 'Z' {
			return true
		}
	}
	return false
}

func elemDescriptor(fd protoreflect.FieldDescriptor) protoreflect.MessageDescriptor { return fd.Message() }

func holderValue(n *physNode) proto.Message {
	for n.parent != nil && isWrapperMsg(n.parent.msg.Descriptor()) {
		n = n.parent
	}
	// the value the caller would supply to put it back: the element itself (the wrapper is rebuilt by Replace)
	m := n.msg
	for isWrapperMsg(m.Descriptor()) {
		fd := m.WhichOneof(m.Descriptor().Oneofs().Get(0))
		if fd == nil {
			break
		}
		m = m.Get(fd).Message()
	}
	return m.Interface()
}

func stripIndexes(e string) string {
	var sb strings.Builder
	depth := 0
	for _, c := range e {
		if c == '[' {
			depth++
			continue
		}
		if c == ']' {
			depth--
			continue
		}
		if depth == 0 {
			sb.WriteRune(c)
		}
	}
	return sb.String()
}

var _ = anypb.New

// lengthenLists grows some repeated message fields to three to six entries (copies told apart by their element id),
// so that operations in the middle and at the front of longer lists are exercised.
func lengthenLists(r *rng, m protoreflect.Message, depth int) {
	if depth > 2 || m.Descriptor().FullName() == "google.protobuf.Any" {
		return
	}
	fds := m.Descriptor().Fields()
	for i := 0; i < fds.Len(); i++ {
		fd := fds.Get(i)
		if fd.Kind() != protoreflect.MessageKind || fd.IsMap() || !m.Has(fd) {
			continue
		}
		if !fd.IsList() {
			lengthenLists(r, m.Get(fd).Message(), depth+1)
			continue
		}
		l := m.Mutable(fd).List()
		if l.Len() > 0 && fd.Message().FullName() != "google.protobuf.Any" && fd.Message().FullName() != "google.fhir.r4.core.ContainedResource" && r.intn(3) == 0 {
			n0 := l.Len()
			for k := n0; k < 3+r.intn(4); k++ {
				c := proto.Clone(l.Get(k % n0).Message().Interface()).ProtoReflect()
				if idf := c.Descriptor().Fields().ByName("id"); idf != nil && idf.Kind() == protoreflect.MessageKind && !idf.IsList() {
					idm := c.Mutable(idf).Message()
					if vf := idm.Descriptor().Fields().ByName("value"); vf != nil && vf.Kind() == protoreflect.StringKind {
						idm.Set(vf, protoreflect.ValueOfString(fmt.Sprintf("copy-%d", k)))
					}
				}
				l.Append(protoreflect.ValueOfMessage(c))
			}
		}
		for k := 0; k < l.Len() && k < 2; k++ {
			lengthenLists(r, l.Get(k).Message(), depth+1)
		}
	}
}
