module fpharness

go 1.22.2

require (
	github.com/google/fhir/go v0.7.4
	github.com/shopspring/decimal v1.4.0
	github.com/verily-src/fhirpath-go v0.0.0
	google.golang.org/protobuf v1.34.1
)

require (
	bitbucket.org/creachadair/stringset v0.0.9 // indirect
	github.com/antlr4-go/antlr/v4 v4.13.0 // indirect
	github.com/golang/protobuf v1.5.4 // indirect
	github.com/google/uuid v1.6.0 // indirect
	github.com/iancoleman/strcase v0.3.0 // indirect
	github.com/json-iterator/go v1.1.10 // indirect
	github.com/modern-go/concurrent v0.0.0-20180306012644-bacd9c7ef1dd // indirect
	github.com/modern-go/reflect2 v1.0.1 // indirect
	github.com/pkg/errors v0.9.1 // indirect
	github.com/serenize/snaker v0.0.0-20201027110005-a7ad2135616e // indirect
	golang.org/x/exp v0.0.0-20240416160154-fe59bbe5cc7f // indirect
)

replace github.com/verily-src/fhirpath-go => /repo
