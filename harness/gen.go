package main

import (
	"fmt"
	"sort"
	"strings"

	apb "github.com/google/fhir/go/proto/google/fhir/proto/annotations_go_proto"
	dtpb "github.com/google/fhir/go/proto/google/fhir/proto/r4/core/datatypes_go_proto"
	bcrpb "github.com/google/fhir/go/proto/google/fhir/proto/r4/core/resources/bundle_and_contained_resource_go_proto"
	"google.golang.org/protobuf/proto"
	"google.golang.org/protobuf/reflect/protoreflect"
	"google.golang.org/protobuf/types/dynamicpb"
	"google.golang.org/protobuf/types/known/anypb"
)

// Schema-driven resource generator: walks google/fhir's own descriptors (not /repo logic).

// resourceDescriptors returns the message descriptor of every resource type in ContainedResource's oneof.
func resourceDescriptors() []protoreflect.MessageDescriptor {
	var out []protoreflect.MessageDescriptor
	fields := (&bcrpb.ContainedResource{}).ProtoReflect().Descriptor().Fields()
	for i := 0; i < fields.Len(); i++ {
		out = append(out, fields.Get(i).Message())
	}
	return out
}

func sdKind(md protoreflect.MessageDescriptor) apb.StructureDefinitionKindValue {
	opts := md.Options()
	if opts == nil {
		return apb.StructureDefinitionKindValue_KIND_UNKNOWN
	}
	if v, ok := proto.GetExtension(opts, apb.E_StructureDefinitionKind).(apb.StructureDefinitionKindValue); ok {
		return v
	}
	return apb.StructureDefinitionKindValue_KIND_UNKNOWN
}

func isChoiceType(md protoreflect.MessageDescriptor) bool {
	if md.Options() == nil {
		return false
	}
	v, _ := proto.GetExtension(md.Options(), apb.E_IsChoiceType).(bool)
	return v
}

func valueSetURL(md protoreflect.MessageDescriptor) string {
	if md.Options() == nil {
		return ""
	}
	v, _ := proto.GetExtension(md.Options(), apb.E_FhirValuesetUrl).(string)
	return v
}

func newMessage(md protoreflect.MessageDescriptor) protoreflect.Message {
	mt, err := protoRegistryFind(md.FullName())
	if err == nil {
		return mt.New()
	}
	return dynamicpb.NewMessage(md)
}

type genState struct {
	r      *rng
	serial int
}

func (g *genState) str(prefix string) string {
	g.serial++
	return fmt.Sprintf("%s%d", prefix, g.serial)
}

var sampleStrings = []string{"alpha", "Béta", "γ δ", "x y", "a'b", "123"}

// setPrimitive fills a FHIR primitive message. Returns false if the message is not a known primitive.
func (g *genState) setPrimitive(m protoreflect.Message) bool {
	switch v := m.Interface().(type) {
	case *dtpb.Boolean:
		v.Value = g.r.bool()
	case *dtpb.String:
		v.Value = pick(g.r, sampleStrings)
	case *dtpb.Markdown:
		v.Value = "md " + pick(g.r, sampleStrings)
	case *dtpb.Code:
		v.Value = pick(g.r, []string{"c1", "c2", "final"})
	case *dtpb.Id:
		v.Value = g.str("id")
	case *dtpb.Uri:
		v.Value = "http://example.org/" + g.str("u")
	case *dtpb.Url:
		v.Value = "http://example.org/" + g.str("url")
	case *dtpb.Canonical:
		v.Value = "http://example.org/" + g.str("canon") + "|1.0"
	case *dtpb.Oid:
		v.Value = "urn:oid:1.2.3." + fmt.Sprint(g.r.intn(100))
	case *dtpb.Uuid:
		v.Value = fmt.Sprintf("urn:uuid:00000000-0000-4000-8000-%012d", g.r.intn(1000000))
	case *dtpb.Base64Binary:
		v.Value = [][]byte{{1, 2, byte(g.r.intn(200))}, {0xfb, 0xff, 0xfe}, {0x00, 0x3e, 0x3f, 0xff}, {0xff, 0xef, byte(g.r.intn(256)), 0xfa}}[g.r.intn(4)]
	case *dtpb.Integer:
		v.Value = int32(g.r.intn(2000) - 1000)
	case *dtpb.PositiveInt:
		v.Value = uint32(1 + g.r.intn(100))
	case *dtpb.UnsignedInt:
		v.Value = uint32(g.r.intn(100))
	case *dtpb.Decimal:
		v.Value = pick(g.r, []string{"1.5", "0.10", "-2.25", "100", "3.14159"})
	case *dtpb.Date:
		switch g.r.intn(3) {
		case 0:
			v.ValueUs, v.Precision = 1577836800000000, dtpb.Date_YEAR
		case 1:
			v.ValueUs, v.Precision = 1580515200000000, dtpb.Date_MONTH
		default:
			v.ValueUs, v.Precision = 1582934400000000, dtpb.Date_DAY
		}
		v.Timezone = "UTC"
	case *dtpb.DateTime:
		switch g.r.intn(6) {
		case 0:
			v.ValueUs, v.Precision, v.Timezone = 1577836800000000, dtpb.DateTime_YEAR, "UTC"
		case 1:
			v.ValueUs, v.Precision, v.Timezone = 1580515200000000, dtpb.DateTime_MONTH, "UTC"
		case 2:
			v.ValueUs, v.Precision, v.Timezone = 1582934400000000, dtpb.DateTime_DAY, "UTC"
		case 3:
			v.ValueUs, v.Precision, v.Timezone = 1582972215000000, dtpb.DateTime_SECOND, pick(g.r, []string{"UTC", "+05:30", "-11:00", "-03:30", "-09:30", "-00:30", "+05:45"})
		case 4:
			v.ValueUs, v.Precision, v.Timezone = 1582972215250000, dtpb.DateTime_MILLISECOND, pick(g.r, []string{"UTC", "+05:30", "-03:30", "-00:30"})
		default:
			v.ValueUs, v.Precision, v.Timezone = 1582972215250123, dtpb.DateTime_MICROSECOND, "-11:00"
		}
	case *dtpb.Instant:
		v.ValueUs, v.Precision, v.Timezone = 1582972215250000, dtpb.Instant_MILLISECOND, pick(g.r, []string{"UTC", "+05:30", "-03:30", "-09:30"})
		if g.r.bool() {
			v.ValueUs, v.Precision = 1582972215000000, dtpb.Instant_SECOND
		}
	case *dtpb.Time:
		v.ValueUs, v.Precision = 37815000000, dtpb.Time_SECOND
		if g.r.bool() {
			v.ValueUs, v.Precision = 37815250000, dtpb.Time_MILLISECOND
		}
	case *dtpb.Xhtml:
		v.Value = `<div xmlns="http://www.w3.org/1999/xhtml">text</div>`
	default:
		return false
	}
	return true
}

// populate fills message m from its descriptor.
func (g *genState) populate(m protoreflect.Message, depth int, fill float64) {
	md := m.Descriptor()
	if g.setPrimitive(m) {
		return
	}
	// code wrappers: a `value` field holding an enum or a string
	if vf := md.Fields().ByName("value"); vf != nil && strings.HasSuffix(string(md.Name()), "Code") && md.Fields().Len() <= 3 {
		switch vf.Kind() {
		case protoreflect.EnumKind:
			vals := vf.Enum().Values()
			if vals.Len() > 1 {
				m.Set(vf, protoreflect.ValueOfEnum(vals.Get(1+g.r.intn(vals.Len()-1)).Number()))
			}
			return
		case protoreflect.StringKind:
			m.Set(vf, protoreflect.ValueOfString(pick(g.r, []string{"application/json", "en-US", "text/plain"})))
			return
		}
	}
	// choice wrappers: exactly one alternative
	if isChoiceType(md) && md.Oneofs().Len() == 1 {
		alts := md.Oneofs().Get(0).Fields()
		fd := alts.Get(g.r.intn(alts.Len()))
		if fd.Kind() == protoreflect.MessageKind {
			sub := m.Mutable(fd).Message()
			g.populate(sub, depth-1, fill)
		}
		return
	}
	// references
	if ref, ok := m.Interface().(*dtpb.Reference); ok {
		g.populateReference(ref)
		return
	}
	if _, ok := m.Interface().(*anypb.Any); ok {
		return // contained resources are set by the caller
	}
	fields := md.Fields()
	for i := 0; i < fields.Len(); i++ {
		fd := fields.Get(i)
		name := string(fd.Name())
		if fd.Kind() != protoreflect.MessageKind {
			continue
		}
		p := fill
		switch name {
		case "id":
			p = 0.4
			if depth < 3 {
				p = 0.1
			}
		case "extension", "modifier_extension":
			p = 0.15
		case "meta", "implicit_rules", "language", "text":
			p = 0.3
		case "contained":
			p = 0.25
		}
		if depth <= 0 {
			p = 0
		}
		if float64(g.r.intn(1000))/1000.0 >= p {
			continue
		}
		fmd := fd.Message()
		if fmd.FullName() == "google.protobuf.Any" {
			if fd.IsList() && depth >= 2 {
				inner := g.resource(pick(g.r, []string{"Patient", "Observation", "Organization", "Practitioner"}), 1)
				cr := &bcrpb.ContainedResource{}
				setContained(cr, inner)
				if a, err := anypb.New(cr); err == nil {
					m.Mutable(fd).List().Append(protoreflect.ValueOfMessage(a.ProtoReflect()))
				}
			}
			continue
		}
		if fmd.FullName() == "google.fhir.r4.core.ContainedResource" {
			// Bundle.entry.resource and the like
			inner := g.resource(pick(g.r, []string{"Patient", "Observation", "Organization"}), 1)
			cr := m.Mutable(fd).Message().Interface().(*bcrpb.ContainedResource)
			setContained(cr, inner)
			continue
		}
		// extensions of extensions and deep recursion are cut by depth
		if fd.IsList() {
			n := 1 + g.r.intn(2)
			lst := m.Mutable(fd).List()
			for k := 0; k < n; k++ {
				sub := lst.NewElement().Message()
				g.populate(sub, depth-1, fill*0.8)
				if !isEmptyMessage(sub) {
					lst.Append(protoreflect.ValueOfMessage(sub))
				}
			}
			if lst.Len() == 0 {
				m.Clear(fd)
			}
		} else {
			sub := m.Mutable(fd).Message()
			g.populate(sub, depth-1, fill*0.8)
			if isEmptyMessage(sub) {
				m.Clear(fd)
			}
		}
	}
	// extensions need a url
	if ext, ok := m.Interface().(*dtpb.Extension); ok {
		if ext.Url == nil {
			ext.Url = &dtpb.Uri{Value: "http://example.org/ext/" + pick(g.r, []string{"a", "b", "c"})}
		}
	}
}

func isEmptyMessage(m protoreflect.Message) bool {
	empty := true
	m.Range(func(protoreflect.FieldDescriptor, protoreflect.Value) bool { empty = false; return false })
	return empty
}

func (g *genState) populateReference(ref *dtpb.Reference) {
	switch g.r.intn(6) {
	case 0:
		ref.Reference = &dtpb.Reference_PatientId{PatientId: &dtpb.ReferenceId{Value: g.str("p")}}
	case 1:
		ref.Reference = &dtpb.Reference_OrganizationId{OrganizationId: &dtpb.ReferenceId{Value: g.str("o"), History: &dtpb.Id{Value: "2"}}}
	case 2:
		ref.Reference = &dtpb.Reference_Uri{Uri: &dtpb.String{Value: "urn:uuid:00000000-0000-4000-8000-000000000001"}}
	case 3:
		ref.Reference = &dtpb.Reference_Fragment{Fragment: &dtpb.String{Value: g.str("frag")}}
	case 4:
		ref.Reference = &dtpb.Reference_Uri{Uri: &dtpb.String{Value: "http://example.org/fhir/Patient/" + g.str("x")}}
	default:
		// a typed reference to any resource type
		var names []string
		for f := range refOneofFields {
			if f != "resource_id" && f != "domain_resource_id" && f != "metadata_resource_id" {
				names = append(names, f)
			}
		}
		sort.Strings(names)
		rid := &dtpb.ReferenceId{Value: g.str("t")}
		if g.r.intn(3) == 0 {
			rid.History = &dtpb.Id{Value: "7"}
		}
		ref.ProtoReflect().Set(refOneofFields[pick(g.r, names)], protoreflect.ValueOfMessage(rid.ProtoReflect()))
	}
	if g.r.intn(3) == 0 {
		ref.Display = &dtpb.String{Value: "display"}
	}
}

func setContained(cr *bcrpb.ContainedResource, inner proto.Message) {
	fields := cr.ProtoReflect().Descriptor().Fields()
	for i := 0; i < fields.Len(); i++ {
		if fields.Get(i).Message().FullName() == inner.ProtoReflect().Descriptor().FullName() {
			cr.ProtoReflect().Set(fields.Get(i), protoreflect.ValueOfMessage(inner.ProtoReflect()))
			return
		}
	}
}

// resource builds a populated resource of the named type.
func (g *genState) resource(name string, depth int) proto.Message {
	for _, md := range resourceDescriptors() {
		if string(md.Name()) == name {
			m := newMessage(md)
			g.populate(m, depth, 0.55)
			// every resource gets an id so that it is identifiable
			if idf := md.Fields().ByName("id"); idf != nil && !m.Has(idf) {
				m.Set(idf, protoreflect.ValueOfMessage((&dtpb.Id{Value: g.str("r")}).ProtoReflect()))
			}
			return m.Interface()
		}
	}
	return nil
}

func resourceNames() []string {
	var out []string
	for _, md := range resourceDescriptors() {
		out = append(out, string(md.Name()))
	}
	return out
}
