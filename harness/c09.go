package main

import (
	"fmt"
	"os"
	"regexp"
	"strconv"
	"strings"

	"github.com/verily-src/fhirpath-go/fhirpath"
	"github.com/verily-src/fhirpath-go/fhirpath/evalopts"
	"github.com/verily-src/fhirpath-go/fhirpath/system"
	"github.com/verily-src/fhirpath-go/fhirpath/verifhook"
	"google.golang.org/protobuf/proto"
)

func init() { props["C09"] = runC09 }

type c09Val struct {
	coq, lit, kind string
}

func offCoq(off string) string {
	switch off {
	case "":
		return "None"
	case "Z":
		return "(Some 0%Z)"
	}
	sign := int64(1)
	if off[0] == '-' {
		sign = -1
	}
	var hh, mm int64
	fmt.Sscanf(off[1:], "%d:%d", &hh, &mm)
	return "(Some " + coqZ(sign*(hh*60+mm)) + ")"
}

func c09Date(y, m, d, prec int) c09Val {
	lit := []string{fmt.Sprintf("@%04d", y), fmt.Sprintf("@%04d-%02d", y, m), fmt.Sprintf("@%04d-%02d-%02d", y, m, d)}[prec]
	if prec < 1 {
		m = 1
	}
	if prec < 2 {
		d = 1
	}
	return c09Val{fmt.Sprintf("TDate %s %s %s %s", coqZ(int64(prec)), coqZ(int64(y)), coqZ(int64(m)), coqZ(int64(d))), lit, fmt.Sprintf("Date/p%d", prec)}
}

func c09DateTime(y, mo, d, h, mi, s, ms, prec int, off string) c09Val {
	v := c05DateTime(y, mo, d, h, mi, s, ms, prec, off)
	if prec < 1 {
		mo = 1
	}
	if prec < 2 {
		d = 1
	}
	if prec < 3 {
		h = 0
		off = ""
	}
	if prec < 4 {
		mi = 0
	}
	if prec < 5 {
		s = 0
	}
	if prec < 6 {
		ms = 0
	}
	return c09Val{fmt.Sprintf("TDateTime %s %s %s %s %s %s %s %s", coqZ(int64(prec)), coqZ(int64(y)), coqZ(int64(mo)), coqZ(int64(d)), coqZ(int64(h)), coqZ(int64(mi)), coqZ(int64(s*1000+ms)), offCoq(off)),
		v.lit, fmt.Sprintf("DateTime/p%d/%s", prec, off)}
}

func c09Time(h, mi, s, ms, prec int) c09Val {
	v := c05Time(h, mi, s, ms, prec-3)
	if prec < 4 {
		mi = 0
	}
	if prec < 5 {
		s = 0
	}
	if prec < 6 {
		ms = 0
	}
	return c09Val{fmt.Sprintf("TTime %s %s %s %s", coqZ(int64(prec)), coqZ(int64(h)), coqZ(int64(mi)), coqZ(int64(s*1000+ms))), v.lit, fmt.Sprintf("Time/p%d", prec)}
}

var (
	reDate = regexp.MustCompile(`^(\d{4,})(?:-(\d\d)(?:-(\d\d))?)?$`)
	reDT   = regexp.MustCompile(`^(\d{4,})(?:-(\d\d)(?:-(\d\d))?)?T(?:(\d\d)(?::(\d\d)(?::(\d\d)(?:\.(\d{3}))?)?)?(Z|[+-]\d\d:\d\d)?)?$`)
	reTime = regexp.MustCompile(`^(\d\d)(?::(\d\d)(?::(\d\d)(?:\.(\d{3}))?)?)?$`)
)

func atoi(s string) int64 { v, _ := strconv.ParseInt(s, 10, 64); return v }

// c09Parse turns the String() of a result value into a Coq tval.
func c09Parse(v any) (string, bool) {
	switch x := v.(type) {
	case system.Date:
		m := reDate.FindStringSubmatch(x.String())
		if m == nil {
			return "", false
		}
		prec, mo, d := int64(0), int64(1), int64(1)
		if m[2] != "" {
			prec, mo = 1, atoi(m[2])
		}
		if m[3] != "" {
			prec, d = 2, atoi(m[3])
		}
		return fmt.Sprintf("TDate %s %s %s %s", coqZ(prec), coqZ(atoi(m[1])), coqZ(mo), coqZ(d)), true
	case system.DateTime:
		m := reDT.FindStringSubmatch(x.String())
		if m == nil {
			return "", false
		}
		prec, mo, d, h, mi, s, ms := int64(0), int64(1), int64(1), int64(0), int64(0), int64(0), int64(0)
		if m[2] != "" {
			prec, mo = 1, atoi(m[2])
		}
		if m[3] != "" {
			prec, d = 2, atoi(m[3])
		}
		if m[4] != "" {
			prec, h = 3, atoi(m[4])
		}
		if m[5] != "" {
			prec, mi = 4, atoi(m[5])
		}
		if m[6] != "" {
			prec, s = 5, atoi(m[6])
		}
		if m[7] != "" {
			prec, ms = 6, atoi(m[7])
		}
		return fmt.Sprintf("TDateTime %s %s %s %s %s %s %s %s", coqZ(prec), coqZ(atoi(m[1])), coqZ(mo), coqZ(d), coqZ(h), coqZ(mi), coqZ(s*1000+ms), offCoq(m[8])), true
	case system.Time:
		m := reTime.FindStringSubmatch(x.String())
		if m == nil {
			return "", false
		}
		prec, mi, s, ms := int64(3), int64(0), int64(0), int64(0)
		if m[2] != "" {
			prec, mi = 4, atoi(m[2])
		}
		if m[3] != "" {
			prec, s = 5, atoi(m[3])
		}
		if m[4] != "" {
			prec, ms = 6, atoi(m[4])
		}
		return fmt.Sprintf("TTime %s %s %s %s", coqZ(prec), coqZ(atoi(m[1])), coqZ(mi), coqZ(s*1000+ms)), true
	}
	return "", false
}

func runC09(cfg config) {
	os.Setenv("TZ", "UTC")
	sink := newSink(cfg.out, "C09", "C08.Model C09.Model", "N * case * obs", "judge", 500)
	r := &rng{s: cfg.seed*0x9e3779b97f4a7c15 + 9}
	input := []proto.Message{basePatient()}
	var vals []c09Val
	// dates: month ends, leap days, year edges, plus (thorough) every day of a 4-year leap cycle
	type ymd struct{ y, m, d int }
	days := []ymd{{2020, 1, 31}, {2020, 2, 29}, {2020, 2, 28}, {2019, 2, 28}, {2020, 3, 31}, {2020, 12, 31}, {2021, 1, 1}, {2020, 6, 15}, {2000, 2, 29}, {1900, 2, 28},
		{2019, 12, 31}, {2020, 8, 31}, {2020, 10, 31}, {2020, 4, 30}, {1, 1, 1}, {9999, 12, 31}, {2023, 1, 30}, {2024, 2, 29}}
	if cfg.tier == "thorough" {
		for y := 2019; y <= 2022; y++ {
			for m := 1; m <= 12; m++ {
				for d := 1; d <= 31; d++ {
					if d <= map[bool]int{true: 29, false: 28}[y == 2020] || (m != 2 && d <= 30) || (d == 31 && (m == 1 || m == 3 || m == 5 || m == 7 || m == 8 || m == 10 || m == 12)) {
						days = append(days, ymd{y, m, d})
					}
				}
			}
		}
	}
	const boundaryDays = 18 // the hand-picked days: full treatment; the days of the leap cycle: day-precision Dates only
	for i, x := range days {
		for prec := 0; prec <= 2; prec++ {
			if i >= boundaryDays && prec != 2 {
				continue
			}
			vals = append(vals, c09Date(x.y, x.m, x.d, prec))
		}
	}
	for i, x := range days {
		if (i >= 14 && cfg.tier != "thorough") || i >= boundaryDays {
			break
		}
		for prec := 0; prec <= 6; prec++ {
			offs := []string{""}
			if prec >= 3 {
				offs = []string{"", "Z", "+05:30", "-11:00"}
			}
			for _, off := range offs {
				if cfg.tier != "thorough" && r.intn(3) != 0 {
					continue
				}
				vals = append(vals, c09DateTime(x.y, x.m, x.d, pick(r, []int{0, 10, 23}), pick(r, []int{0, 30, 59}), pick(r, []int{0, 15, 59}), pick(r, []int{0, 250, 999}), prec, off))
			}
		}
	}
	// values written with the offset a real zone uses just before its clocks change (Newfoundland, New York, London,
	// Chatham, Lord Howe): under such a process zone (harness seeds 4..7) the offset must be kept all the same
	for _, e := range []struct {
		y, m, d, h, mi int
		off           string
	}{{2020, 3, 7, 12, 0, "-03:30"}, {2020, 11, 1, 0, 30, "-02:30"}, {2020, 3, 7, 12, 0, "-05:00"}, {2020, 3, 28, 12, 0, "+00:00"}, {2020, 10, 24, 12, 0, "+01:00"},
		{2020, 4, 4, 12, 0, "+13:45"}, {2020, 9, 26, 12, 0, "+12:45"}, {2020, 10, 3, 12, 0, "+10:30"}, {2021, 4, 3, 12, 0, "+11:00"}} {
		vals = append(vals, c09DateTime(e.y, e.m, e.d, e.h, e.mi, 0, 0, 5, e.off), c09DateTime(e.y, e.m, e.d, e.h, e.mi, 0, 0, 4, e.off))
	}
	for _, t := range [][4]int{{0, 0, 0, 0}, {23, 59, 59, 999}, {10, 30, 15, 250}, {8, 0, 0, 0}, {12, 0, 0, 500}, {23, 0, 0, 0}, {0, 30, 0, 0}} {
		for prec := 3; prec <= 6; prec++ {
			vals = append(vals, c09Time(t[0], t[1], t[2], t[3], prec))
		}
	}
	units := []struct{ kw, coq string }{
		{"year", "UYear"}, {"years", "UYear"}, {"month", "UMonth"}, {"months", "UMonth"}, {"week", "UWeek"}, {"weeks", "UWeek"},
		{"day", "UDay"}, {"days", "UDay"}, {"hour", "UHour"}, {"hours", "UHour"}, {"minute", "UMinute"}, {"minutes", "UMinute"},
		{"second", "USecond"}, {"seconds", "USecond"}, {"millisecond", "UMs"}, {"milliseconds", "UMs"},
		{"mg", "UOther"}, {"d", "UOther"}, {"a", "UOther"}, {"mo", "UOther"}, {"wk", "UOther"}, {"h", "UOther"}, {"min", "UOther"}, {"s", "UOther"}, {"ms", "UOther"}, {"1", "UOther"},
	}
	amounts := []string{"0", "1", "11", "12", "13", "23", "24", "25", "59", "60", "61", "365", "366", "1000", "360", "364", "52", "53", "729", "730", "8700", "8759", "8760", "29", "30", "31", "719", "1.5", "0.5", "2.999", "-1", "-13", "-25", "-90", "-366", "-1.5"}
	nAmt := 3
	if cfg.tier == "thorough" {
		nAmt = len(amounts)
	}
	nBoundaryVals := boundaryDays * 3
	for vi, v := range vals {
		cycleDay := cfg.tier == "thorough" && strings.HasPrefix(v.lit, "@") && !strings.Contains(v.lit, "T") && vi >= nBoundaryVals && vi < len(days)+2*boundaryDays
		for ui, u := range units {
			if cfg.tier != "thorough" && u.coq == "UOther" && ui%3 != 0 {
				continue
			}
			if cycleDay && (u.coq == "UOther" || ui%2 == 1) {
				continue // the leap-cycle days: calendar keywords in the singular only
			}
			n := nAmt
			if cycleDay {
				n = 3
			}
			for k := 0; k < n; k++ {
				amt := amounts[k%len(amounts)]
				if cfg.tier != "thorough" || cycleDay {
					amt = pick(r, amounts)
				}
				q, err := system.ParseQuantity(amt, u.kw)
				if err != nil {
					continue
				}
				for _, op := range []struct{ src, coq string }{{"+", "AAdd"}, {"-", "ASub"}} {
					src := fmt.Sprintf("%s %s %%q", v.lit, op.src)
					var out system.Collection
					var eerr error
					panicked, _ := protect(func() {
						var e *fhirpath.Expression
						e, eerr = fhirpath.Compile(src)
						if eerr != nil {
							return
						}
						out, eerr = verifhook.Evaluate(e, input, evalopts.EnvVariable("q", q))
					})
					oc := ""
					switch {
					case panicked:
						oc = "Panic"
					case eerr != nil:
						oc = "Err"
					case len(out) == 1:
						if t, ok := c09Parse(out[0]); ok && c09ValueIsWhatItPrints(out[0]) {
							oc = "(Ok (" + t + "))"
						} else {
							oc = "Panic" // unreadable, or a value that is not the one it prints: no model outcome
						}
					default:
						oc = "Panic"
					}
					d := decToCoq(amt)
					ce := strings.TrimPrefix(d, "NDec ")
					sink.add(fmt.Sprintf("CArith %s (%s) %s %s, OT %s", op.coq, v.coq, u.coq, ce, oc),
						fmt.Sprintf("%s %s %s '%s' => %s", v.lit, op.src, amt, u.kw, oc), v.kind+"/"+u.coq, v.coq+op.coq+u.kw+amt)
				}
			}
		}
	}
	// quantities add / subtract only within one unit
	unitID := map[string]uint64{}
	uid := func(u string) uint64 {
		if _, ok := unitID[u]; !ok {
			unitID[u] = uint64(len(unitID) + 1)
		}
		return unitID[u]
	}
	qs := []struct{ n, u string }{{"1", "mg"}, {"2.5", "mg"}, {"1", "kg"}, {"3", "days"}, {"4", "day"}, {"-1.25", "mg"}, {"0", "1"}, {"7", "1"}}
	for _, a := range qs {
		for _, b := range qs {
			qa, _ := system.ParseQuantity(a.n, a.u)
			qb, _ := system.ParseQuantity(b.n, b.u)
			for _, op := range []struct{ src, coq string }{{"+", "QAdd"}, {"-", "QSub"}} {
				var out system.Collection
				var eerr error
				panicked, _ := protect(func() {
					var e *fhirpath.Expression
					e, eerr = fhirpath.Compile("%a " + op.src + " %b")
					if eerr != nil {
						return
					}
					out, eerr = verifhook.Evaluate(e, input, evalopts.EnvVariable("a", qa), evalopts.EnvVariable("b", qb))
				})
				oc := "Panic"
				if !panicked && eerr != nil {
					oc = "Err"
				} else if !panicked && len(out) == 1 {
					if q, ok := out[0].(system.Quantity); ok {
						parts := strings.SplitN(q.String(), " ", 2)
						if len(parts) == 2 {
							oc = fmt.Sprintf("(Ok (%s, %s))", strings.Replace(strings.TrimPrefix(decToCoq(parts[0]), "NDec "), " ", ", ", 1), coqN(uid(parts[1])))
						}
					}
				}
				da := strings.TrimPrefix(decToCoq(a.n), "NDec ")
				db := strings.TrimPrefix(decToCoq(b.n), "NDec ")
				sink.add(fmt.Sprintf("CQty %s %s %s %s %s, OQ %s", op.coq, da, coqN(uid(a.u)), db, coqN(uid(b.u)), oc),
					fmt.Sprintf("%s '%s' %s %s '%s' => %s", a.n, a.u, op.src, b.n, b.u, oc), "quantity", "q"+a.n+a.u+op.src+b.n+b.u)
			}
		}
	}
	sink.finish("month ends, leap days and year edges (thorough: every day of a 4-year leap cycle) x every Date/DateTime/Time precision x offsets {none, Z, +05:30, -11:00} plus nine values written with the offset of a real zone just before its clock change x every calendar keyword singular and plural and UCUM-style/other units x amounts {0,1,11,12,13,23,24,25,59,60,61,365,366,1000, fractional, negative} (quick: three seeded amounts per value and unit) x {+,-}; results are read back from the value's printed form; quantities added/subtracted over equal and different units; process time zone UTC", false)
}

// c09ValueIsWhatItPrints: the result, compared (with the comparison `=` uses) with the value its own printed form parses
// to, is equal -- a result that prints 22:30:00 but lies on another day, or hides digits below its precision, is not.
func c09ValueIsWhatItPrints(v any) bool {
	switch x := v.(type) {
	case system.Date:
		p, err := system.ParseDate(x.String())
		if err != nil {
			return false
		}
		eq, ok := p.TryEqual(x)
		return eq && ok
	case system.DateTime:
		p, err := system.ParseDateTime(x.String())
		if err != nil {
			return false
		}
		eq, ok := p.TryEqual(x)
		return eq && ok
	case system.Time:
		p, err := system.ParseTime(x.String())
		if err != nil {
			return false
		}
		eq, ok := p.TryEqual(x)
		return eq && ok
	}
	return true
}
