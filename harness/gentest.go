package main

import (
	"fmt"

	"github.com/google/fhir/go/fhirversion"
	"github.com/google/fhir/go/jsonformat"
)

func init() {
	props["gentest"] = func(cfg config) {
		m, err := jsonformat.NewMarshaller(false, "", "", fhirversion.R4)
		must(err)
		g := &genState{r: &rng{s: cfg.seed}}
		ok, bad, size := 0, 0, 0
		for _, n := range resourceNames() {
			for k := 0; k < 3; k++ {
				res := g.resource(n, 4)
				b, err := m.MarshalResource(res)
				if err != nil {
					bad++
					if bad < 8 {
						fmt.Println("marshal error", n, err)
					}
					continue
				}
				ok++
				size += len(b)
			}
		}
		fmt.Println("ok", ok, "bad", bad, "avg json bytes", size/(ok+1))
	}
}

func init() {
	props["typeprobe"] = func(cfg config) {
		dtFile := (&dtpbString{}).ProtoReflect().Descriptor().ParentFile()
		for i := 0; i < dtFile.Messages().Len(); i++ {
			md := dtFile.Messages().Get(i)
			if _, err := fhirpathCompile("1 is " + string(md.Name())); err != nil {
				fmt.Println("rejected:", md.Name(), sdKind(md))
			}
		}
	}
}
