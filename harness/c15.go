package main

import (
	"encoding/json"
	"fmt"
	"math"
	"os"
	"strings"

	"github.com/google/fhir/go/fhirversion"
	"github.com/google/fhir/go/jsonformat"
	dtpb "github.com/google/fhir/go/proto/google/fhir/proto/r4/core/datatypes_go_proto"
	opb "github.com/google/fhir/go/proto/google/fhir/proto/r4/core/resources/observation_go_proto"
	ppb "github.com/google/fhir/go/proto/google/fhir/proto/r4/core/resources/patient_go_proto"
	"github.com/verily-src/fhirpath-go/fhirpath"
	"github.com/verily-src/fhirpath-go/fhirpath/system"
	"github.com/verily-src/fhirpath-go/fhirpath/verifhook"
	"google.golang.org/protobuf/proto"
)

func init() { props["C15"] = runC15 }

func c15EvalString(src string, input []proto.Message) string {
	var out system.Collection
	var err error
	panicked, _ := protect(func() {
		var e *fhirpath.Expression
		e, err = fhirpath.Compile(src)
		if err != nil {
			return
		}
		out, err = verifhook.Evaluate(e, input)
	})
	switch {
	case panicked:
		return "OStr Panic"
	case err != nil:
		return "OStr Err"
	case len(out) == 1:
		if s, ok := out[0].(system.String); ok {
			return "OStr (Ok " + coqUStr(string(s)) + ")"
		}
	}
	return "OStr Panic"
}

func tzOffset(tz string) (int, bool) {
	switch tz {
	case "UTC", "Z", "+00:00", "-00:00", "":
		return 0, true
	}
	if len(tz) == 6 && (tz[0] == '+' || tz[0] == '-') {
		var hh, mm int
		fmt.Sscanf(tz[1:], "%d:%d", &hh, &mm)
		off := hh*60 + mm
		if tz[0] == '-' {
			off = -off
		}
		return off, true
	}
	return 0, false
}

func runC15(cfg config) {
	os.Setenv("TZ", "UTC")
	sink := newSink(cfg.out, "C15", "C08.Model C05.Model C15.Model", "N * case * obs", "judge", 500)
	sink.header = "From Coq Require Import String.\n"
	r := &rng{s: cfg.seed*0x9e3779b97f4a7c15 + 15}
	input := []proto.Message{basePatient()}
	// ---- (1) string literals ----------------------------------------------------------------------
	alpha := []rune{'a', '\'', '"', '`', '\\', '/', '\n', '\r', '\t', '\f', 'é', '😀', 'u', '0', '4', '1', 'q', ' '}
	escape := func(s string) string {
		var b strings.Builder
		for _, c := range s {
			switch c {
			case '\'':
				b.WriteString(`\'`)
			case '\\':
				b.WriteString(`\\`)
			case '\r':
				b.WriteString(`\r`)
			case '\t':
				b.WriteString(`\t`)
			case '\n':
				b.WriteString(`\n`)
			case '\f':
				b.WriteString(`\f`)
			default:
				b.WriteRune(c)
			}
		}
		return b.String()
	}
	var canon []string
	canon = append(canon, "")
	for _, a := range alpha { // exhaustive up to length 2 (quick) / 3 (thorough)
		canon = append(canon, string(a))
		for _, b := range alpha {
			canon = append(canon, string([]rune{a, b}))
			if cfg.tier == "thorough" {
				for _, c := range alpha {
					canon = append(canon, string([]rune{a, b, c}))
				}
			}
		}
	}
	nRand := 300
	if cfg.tier == "thorough" {
		nRand = 5000
	}
	for i := 0; i < nRand; i++ {
		n := 3 + r.intn(8)
		rs := make([]rune, n)
		for k := range rs {
			rs[k] = pick(r, alpha)
		}
		canon = append(canon, string(rs))
	}
	for _, s := range canon {
		src := "'" + escape(s) + "'"
		sink.add(fmt.Sprintf("CCanonical %s, %s", coqUStr(s), c15EvalString(src, input)), fmt.Sprintf("literal %q denotes %q", src, s), "canonical-literal", "canon|"+s)
	}
	// raw source texts: arbitrary backslash sequences (a quote only ever follows a backslash)
	rawAlpha := []string{"a", `\'`, `\"`, "\\`", `\\`, `\/`, `\f`, `\n`, `\r`, `\t`, `\q`, `A`, `€`, `😀`, `\uD83D`, `\u12`, `\uZZZZ`, `\ `, "é", "😀", `"`, "`", "/", "u", `é`, `\x`}
	var raws []string
	for _, a := range rawAlpha {
		raws = append(raws, a)
		for _, b := range rawAlpha {
			raws = append(raws, a+b)
		}
	}
	for i := 0; i < nRand; i++ {
		n := 3 + r.intn(5)
		s := ""
		for k := 0; k < n; k++ {
			s += pick(r, rawAlpha)
		}
		raws = append(raws, s)
	}
	for _, raw := range raws {
		if strings.HasSuffix(raw, `\`) && !strings.HasSuffix(raw, `\\`) {
			continue // would escape the closing quote
		}
		sink.add(fmt.Sprintf("CString %s, %s", coqUStr(raw), c15EvalString("'"+raw+"'", input)), fmt.Sprintf("source text %q", raw), "raw-literal", "raw|"+raw)
	}
	// ---- (2) integer narrowing: every pair of types, exhaustive 8-bit, boundary 16/32/64-bit values -------
	var patterns []uint64
	for b := 0; b < 256; b++ {
		patterns = append(patterns, uint64(b), uint64(int64(int8(b)))) // zero- and sign-extended bytes
	}
	for _, b := range []uint64{0x7fff, 0x8000, 0xffff, 0x10000, 0x7fffffff, 0x80000000, 0xffffffff, 0x100000000, 0x7fffffffffffffff, 0x8000000000000000, 0xffffffffffffffff,
		0xffffffffffff8000, 0xffffffffffff7fff, 0xffffffff80000000, 0xffffffff7fffffff, 0x00000000ffff8000, 32768, 65535, 65536, 40000} {
		patterns = append(patterns, b, b-1, b+1)
	}
	if cfg.tier == "thorough" {
		for b := 0; b < 65536; b += 7 {
			patterns = append(patterns, uint64(b), uint64(int64(int16(b))))
		}
	}
	valueOf := func(t string, bits uint64) string {
		switch t {
		case "int", "int64":
			return fmt.Sprint(int64(bits))
		case "int8":
			return fmt.Sprint(int8(bits))
		case "int16":
			return fmt.Sprint(int16(bits))
		case "int32":
			return fmt.Sprint(int32(bits))
		case "uint8":
			return fmt.Sprint(uint8(bits))
		case "uint16":
			return fmt.Sprint(uint16(bits))
		case "uint32":
			return fmt.Sprint(uint32(bits))
		}
		return fmt.Sprint(bits)
	}
	seenN := map[string]bool{}
	for _, from := range verifhook.NarrowTypes {
		for _, to := range verifhook.NarrowTypes {
			for _, bits := range patterns {
				v := valueOf(from, bits)
				key := from + ">" + to + ":" + v
				if seenN[key] {
					continue
				}
				seenN[key] = true
				res, ok, err := verifhook.Narrow(from, to, bits)
				must(err)
				sink.add(fmt.Sprintf("CNarrow \"%s\"%%string \"%s\"%%string %s, ONarrow %s %s", from, to, coqZs(v), coqZs(res), coqBool(ok)),
					fmt.Sprintf("narrow.ToInteger[%s](%s(%s)) = (%s, %v)", to, from, v, res, ok), "narrow", key)
			}
		}
	}
	// ---- (3) round trips observed natively ---------------------------------------------------------------------
	addRound := func(kind string, rep bool, kfc int, desc string, same bool) {
		sink.add(fmt.Sprintf("CRound %s %s %s %s, ORound %s", kind, coqBool(rep), coqN(uint64(kfc)), coqUStr(desc), coqBool(same)), desc+fmt.Sprintf(" => same=%v", same), kind, kind+"|"+desc)
	}
	evalBool := func(src string) (bool, bool) {
		e, err := fhirpath.Compile(src)
		if err != nil {
			return false, false
		}
		out, err := verifhook.Evaluate(e, input)
		if err != nil || len(out) != 1 {
			return false, false
		}
		b, ok := out[0].(system.Boolean)
		return bool(b), ok
	}
	// literal -> value -> canonical string -> literal: equal value
	for _, lit := range []string{"@T10:00:00", "@T10:00:00.000", "@T10:00:00.5", "@T10:00:00.25", "@T10:00:00.1234", "@T10:30", "@T10",
		"@2020-01-01T10:00:00.5Z", "@2020-01-01T10:00:00.500Z", "@2020-01-01T10:00:00Z", "@2020-01-01T10:00:00.12+05:30", "@2020-01-01T10:00:00", "@2020-01-01T10Z", "@2020-01T", "@2020T",
		"@2020-02-29", "@2020-02", "@2020", "1.50", "0.10", "100", "1.5 'mg'", "true"} {
		e, err := fhirpath.Compile("(" + lit + ").toString()")
		if err != nil {
			continue
		}
		out, err := verifhook.Evaluate(e, input)
		if err != nil || len(out) != 1 {
			continue
		}
		s := string(out[0].(system.String))
		prefix := ""
		if strings.HasPrefix(lit, "@T") {
			prefix = "@T"
		} else if strings.HasPrefix(lit, "@") {
			prefix = "@"
		}
		if strings.Contains(lit, "'") { // quantity: value unit -> value 'unit'
			parts := strings.SplitN(s, " ", 2)
			s = parts[0] + " '" + parts[1] + "'"
		}
		eq, ok := evalBool("(" + prefix + s + ") = (" + lit + ")")
		kfc := 0
		if i := strings.Index(lit, "."); i >= 0 && strings.HasPrefix(lit, "@") {
			digits := 0
			for _, c := range lit[i+1:] {
				if c < '0' || c > '9' {
					break
				}
				digits++
			}
			if digits != 3 {
				kfc = 2
			}
		}
		addRound("RLiteral", true, kfc, "literal "+lit+" -> toString -> literal "+prefix+s, ok && eq)
	}
	// number literal texts are decimal: leading zeros change nothing, other radixes and digit separators do not exist
	for _, c := range []struct{ src, want string }{{"010", "10"}, {"007", "7"}, {"08", "8"}, {"09", "9"}, {"00", "0"}, {"0100 + 1", "101"}, {"0777", "777"}, {"010.50", "10.5"}, {"0.10", "0.1"},
		{"'010'.toInteger()", "10"}, {"'08'.toInteger()", "8"}, {"'0777'.toDecimal()", "777.0"}, {"'abcdefghijkl'.substring(010)", "'kl'"}, {"2147483647", "2147483647"}, {"0000000001", "1"}} {
		eq, ok := evalBool("(" + c.src + ") = (" + c.want + ")")
		addRound("RLiteral", true, 0, "number text "+c.src+" reads "+c.want, ok && eq)
	}
	for _, src := range []string{"0x10", "0b11", "0o17", "1_000", "1e3", "0x1p4", "١٢"} {
		_, err := fhirpath.Compile(src)
		addRound("RLiteral", true, 0, "no such number literal: "+src, err != nil)
		e2, err2 := fhirpath.Compile("'" + src + "'.toInteger()")
		rejected := false
		if err2 == nil {
			out, err3 := verifhook.Evaluate(e2, input)
			rejected = err3 != nil || len(out) == 0
		}
		addRound("RLiteral", true, 0, "no such number text: '"+src+"'.toInteger()", rejected)
	}
	// System value -> FHIR primitive -> System value
	for _, lit := range []string{"2020", "2020-02", "2020-02-29"} {
		d := system.MustParseDate(lit)
		back, err := system.DateFromProto(d.ToProtoDate())
		addRound("RSysProtoSys", true, 0, "Date "+lit, err == nil && back.String() == d.String())
	}
	for _, c := range []struct {
		lit string
		rep bool
	}{{"2020T", true}, {"2020-02T", true}, {"2020-02-29T", true}, {"2020-02-29T10", false}, {"2020-02-29T10:30", false}, {"2020-02-29T10:30:15", false},
		{"2020-02-29T10:30:15Z", true}, {"2020-02-29T10:30:15+05:30", true}, {"2020-02-29T10:30:15.250-11:00", true}, {"2020-02-29T10:30:15.250", false}, {"2020-02-29T10:30+05:30", false}} {
		dt := system.MustParseDateTime(c.lit)
		back, err := system.DateTimeFromProto(dt.ToProtoDateTime())
		eq, _ := back.TryEqual(dt)
		addRound("RSysProtoSys", c.rep, 0, "DateTime "+c.lit, err == nil && back.String() == dt.String() && eq)
	}
	for _, c := range []struct {
		lit string
		rep bool
	}{{"10", false}, {"10:30", false}, {"10:30:15", true}, {"10:30:15.250", true}, {"23:59:59.999", true}, {"00:00:00", true}} {
		t := system.MustParseTime(c.lit)
		back := system.TimeFromProto(t.ToProtoTime())
		addRound("RSysProtoSys", c.rep, 0, "Time "+c.lit, back.String() == t.String())
	}
	for _, v := range []int32{0, 1, -1, math.MaxInt32, math.MinInt32} {
		back, err := system.From(system.Integer(v).ToProtoInteger())
		addRound("RSysProtoSys", true, 0, fmt.Sprintf("Integer %d", v), err == nil && back == system.Integer(v))
	}
	for _, d := range []string{"0", "1.5", "-2.25", "100.001", "0.1", "123456789.123456", "1234567890.12345678", "0.12345678901234567890", "99999999999999999999"} {
		dec := system.MustParseDecimal(d)
		back, err := system.From(dec.ToProtoDecimal())
		same := false
		if err == nil {
			if bd, ok := back.(system.Decimal); ok {
				same = bd.Equal(dec)
			}
		}
		digits := len(strings.TrimLeft(strings.ReplaceAll(strings.TrimPrefix(d, "-"), ".", ""), "0"))
		kfc := 0
		if digits > 15 {
			kfc = 3
		}
		addRound("RSysProtoSys", true, kfc, "Decimal "+d, same)
	}
	for _, q := range []struct{ n, u string }{{"5", "mg"}, {"1.5", "kg"}, {"7", ""}} {
		qv := system.MustParseQuantity(q.n, q.u)
		back, err := system.From(qv.ToProtoQuantity())
		same := false
		if err == nil {
			if bq, ok := back.(system.Quantity); ok {
				same = bq.Equal(qv)
			}
		}
		kfc := 0
		if q.u != "" {
			kfc = 4
		}
		addRound("RSysProtoSys", true, kfc, "Quantity "+q.n+" '"+q.u+"'", same)
	}
	// FHIR primitive -> System value -> FHIR primitive (every proto precision enum)
	const us = int64(1582972215250000) // 2020-02-29T10:30:15.25Z
	for _, p := range []dtpb.Date_Precision{dtpb.Date_YEAR, dtpb.Date_MONTH, dtpb.Date_DAY} {
		vus := map[dtpb.Date_Precision]int64{dtpb.Date_YEAR: 1577836800000000, dtpb.Date_MONTH: 1580515200000000, dtpb.Date_DAY: 1582934400000000}[p]
		pd := &dtpb.Date{ValueUs: vus, Precision: p, Timezone: "UTC"}
		sv, err := system.DateFromProto(pd)
		same := false
		if err == nil {
			p2 := sv.ToProtoDate()
			o1, _ := tzOffset(pd.Timezone)
			o2, ok2 := tzOffset(p2.Timezone)
			same = p2.ValueUs == pd.ValueUs && p2.Precision == pd.Precision && ok2 && o1 == o2
		}
		addRound("RProtoSysProto", true, 0, "Date proto precision "+p.String(), same)
	}
	// a date element in a zone other than UTC (the JSON parser's default zone): the calendar day it shows survives
	for _, zc := range []struct {
		tz  string
		vus int64
	}{{"+05:30", 1582914600000000}, {"-11:00", 1582974000000000}, {"+13:00", 1582887600000000}} { // local midnight of 2020-02-29
		for _, p := range []dtpb.Date_Precision{dtpb.Date_YEAR, dtpb.Date_MONTH, dtpb.Date_DAY, dtpb.Date_DAY + 100, dtpb.Date_MONTH + 100} {
			vus := zc.vus
			if p >= 100 { // the same element built from an instant during that day (fhir.Date(t)): 13:45:05 local time
				p -= 100
				vus += (13*3600 + 45*60 + 5) * 1000000
			}
			pd := &dtpb.Date{ValueUs: vus, Precision: p, Timezone: zc.tz}
			want := map[dtpb.Date_Precision]string{dtpb.Date_YEAR: "2020", dtpb.Date_MONTH: "2020-02", dtpb.Date_DAY: "2020-02-29"}[p]
			sv, err := system.DateFromProto(pd)
			same := false
			if err == nil {
				p2 := sv.ToProtoDate()
				sv2, err2 := system.DateFromProto(p2)
				lit, err3 := system.ParseDate(want)
				same = err2 == nil && err3 == nil && p2.Precision == p && strings.TrimPrefix(sv.String(), "@") == want && sv2.String() == sv.String() && sv.Equal(lit) && sv2.Equal(lit) && tryEq(sv, lit) && tryEq(lit, sv2) && p2.ValueUs == lit.ToProtoDate().ValueUs
			}
			addRound("RProtoSysProto", true, 0, fmt.Sprintf("Date proto precision %s tz %s value_us %d (calendar day)", p, zc.tz, vus), same)
		}
	}
	for _, p := range []dtpb.DateTime_Precision{dtpb.DateTime_YEAR, dtpb.DateTime_MONTH, dtpb.DateTime_DAY, dtpb.DateTime_SECOND, dtpb.DateTime_MILLISECOND, dtpb.DateTime_MICROSECOND} {
		for _, tz := range []string{"UTC", "+05:30", "-11:00"} {
			vus := us
			switch p {
			case dtpb.DateTime_YEAR:
				vus = 1577836800000000
			case dtpb.DateTime_MONTH:
				vus = 1580515200000000
			case dtpb.DateTime_DAY:
				vus = 1582934400000000
			case dtpb.DateTime_SECOND:
				vus = us / 1000000 * 1000000
			}
			if p <= dtpb.DateTime_DAY && tz != "UTC" {
				continue
			}
			pd := &dtpb.DateTime{ValueUs: vus, Precision: p, Timezone: tz}
			sv, err := system.DateTimeFromProto(pd)
			same := false
			if err == nil {
				p2 := sv.ToProtoDateTime()
				o1, _ := tzOffset(pd.Timezone)
				o2, ok2 := tzOffset(p2.Timezone)
				same = p2.ValueUs == pd.ValueUs && p2.Precision == pd.Precision && ok2 && o1 == o2
			}
			// System.DateTime holds milliseconds at most: MICROSECOND is not representable
			addRound("RProtoSysProto", p != dtpb.DateTime_MICROSECOND, 0, "DateTime proto precision "+p.String()+" tz "+tz, same)
		}
	}
	for _, p := range []dtpb.Time_Precision{dtpb.Time_SECOND, dtpb.Time_MILLISECOND, dtpb.Time_MICROSECOND} {
		vus := int64(37815250000)
		if p == dtpb.Time_SECOND {
			vus = 37815000000
		}
		pt := &dtpb.Time{ValueUs: vus, Precision: p}
		p2 := system.TimeFromProto(pt).ToProtoTime()
		addRound("RProtoSysProto", p != dtpb.Time_MICROSECOND, 0, "Time proto precision "+p.String(), p2.ValueUs == pt.ValueUs && p2.Precision == pt.Precision)
	}
	// a Time literal as an element: value_us is the time of day, within [0, 24h)
	for _, tl := range []struct {
		lit string
		us  int64
	}{{"10:30:15", 37815000000}, {"00:00:00", 0}, {"23:59:59.999", 86399999000}, {"00:00:00.001", 1000}, {"10:30:15.000", 37815000000}, {"00:00:00.000", 0}, {"12:00:00.500", 43200500000}, {"23:59:59.000", 86399000000}} {
		tv, err := system.ParseTime(tl.lit)
		ok := false
		if err == nil {
			pt := tv.ToProtoTime()
			back := system.TimeFromProto(pt)
			wantPrec := dtpb.Time_SECOND
			if strings.Contains(tl.lit, ".") {
				wantPrec = dtpb.Time_MILLISECOND // the precision is the literal's, also when the fraction is .000
			}
			ok = pt.ValueUs == tl.us && back.Equal(tv) && pt.Precision == wantPrec && back.String() == tv.String()
		}
		addRound("RSysProtoSys", true, 0, "Time "+tl.lit+" -> element: value_us within the day, and back", ok)
	}
	// ---- (4) FHIR primitive parse/format helpers, and agreement with google/fhir's JSON rendering --------------
	m, err := jsonformat.NewMarshaller(false, "", "", fhirversion.R4)
	must(err)
	jsonField := func(res proto.Message, field string) (string, bool) {
		b, err := m.Marshal(res)
		if err != nil {
			return "", false
		}
		var obj map[string]any
		if json.Unmarshal(b, &obj) != nil {
			return "", false
		}
		s, ok := obj[field].(string)
		return s, ok
	}
	fracs := []string{"", ".5", ".25", ".250", ".1234", ".12345", ".123456"}
	offs := []string{"Z", "+05:30", "-11:00", "+00:00", "-03:30", "-09:30", "-00:30", "+00:30", "+05:45", "+12:45", "-00:02", "+14:00", "-12:00"}
	for _, s := range []string{"2020", "2020-02", "2020-02-29", "0001-01-01", "9999-12-31"} {
		p, err := verifhook.ParseDate(s)
		if err != nil {
			continue
		}
		s2 := verifhook.DateToString(p)
		p2, err2 := verifhook.ParseDate(s2)
		addRound("RHelperParseFormat", true, 0, "fhir.ParseDate "+s, err2 == nil && proto.Equal(p, p2) && s2 == s)
		if js, ok := jsonField(&ppb.Patient{BirthDate: p}, "birthDate"); ok {
			addRound("RHelperJson", true, 0, "DateToString vs JSON "+s, js == s2)
		}
	}
	for _, base := range []string{"2020-02-29T10:30:15", "2020-12-31T23:59:59", "2020-01-01T00:00:00"} {
		for _, f := range fracs {
			for _, o := range offs {
				s := base + f + o
				kfc := 0
				if len(f) != 0 && len(f) != 4 && len(f) != 7 {
					kfc = 5
				}
				if p, err := verifhook.ParseDateTime(s); err == nil {
					s2 := verifhook.DateTimeToString(p)
					p2, err2 := verifhook.ParseDateTime(s2)
					addRound("RHelperParseFormat", true, kfc, "fhir.ParseDateTime "+s, err2 == nil && proto.Equal(p, p2) && (kfc != 0 || len(f) != 0 || o == "Z" || s2 == s))
					if js, ok := jsonField(&opb.Observation{Effective: &opb.Observation_EffectiveX{Choice: &opb.Observation_EffectiveX_DateTime{DateTime: p}}}, "effectiveDateTime"); ok {
						addRound("RHelperJson", true, kfc, "DateTimeToString vs JSON "+s, js == s2)
					}
				}
				if p, err := verifhook.ParseInstant(s); err == nil {
					s2 := verifhook.InstantToString(p)
					p2, err2 := verifhook.ParseInstant(s2)
					addRound("RHelperParseFormat", true, kfc, "fhir.ParseInstant "+s, err2 == nil && proto.Equal(p, p2) && (kfc != 0 || len(f) != 0 || o == "Z" || s2 == s))
					if js, ok := jsonField(&opb.Observation{Issued: p}, "issued"); ok {
						addRound("RHelperJson", true, kfc, "InstantToString vs JSON "+s, js == s2)
					}
				}
			}
		}
	}
	for _, s := range []string{"2020", "2020-02", "2020-02-29"} {
		if p, err := verifhook.ParseDateTime(s); err == nil {
			s2 := verifhook.DateTimeToString(p)
			p2, err2 := verifhook.ParseDateTime(s2)
			addRound("RHelperParseFormat", true, 0, "fhir.ParseDateTime "+s, err2 == nil && proto.Equal(p, p2) && s2 == s)
		}
	}
	for _, base := range []string{"10:30:15", "00:00:00", "23:59:59"} {
		for _, f := range fracs {
			s := base + f
			kfc := 0
			if len(f) != 0 && len(f) != 4 && len(f) != 7 {
				kfc = 5
			}
			if p, err := verifhook.ParseTime(s); err == nil {
				s2 := verifhook.TimeToString(p)
				p2, err2 := verifhook.ParseTime(s2)
				addRound("RHelperParseFormat", true, kfc, "fhir.ParseTime "+s, err2 == nil && proto.Equal(p, p2))
				if js, ok := jsonField(&opb.Observation{Value: &opb.Observation_ValueX{Choice: &opb.Observation_ValueX_Time{Time: p}}}, "valueTime"); ok {
					addRound("RHelperJson", true, kfc, "TimeToString vs JSON "+s, js == s2)
				}
			}
		}
	}
	sink.finish("string literals: every string of length <= 2 (thorough: 3) over an alphabet of every escape, quote, backslash, slash, control and non-ASCII character plus seeded longer strings, as canonical (escaped) literals and as raw source texts built from valid, invalid and truncated escape sequences; integer narrowing: all 11x11 type pairs x exhaustive 8-bit and boundary 16/32/64-bit values; System<->FHIR primitive conversion for every precision enum and offset form; FHIR primitive parse/format helpers over precision x fraction digits 0..6 x offset forms, compared with google/fhir's JSON rendering", false)
}

// tryEq: the comparison the `=` operator makes (Date.Equal compares the printed text only)
func tryEq(a, b system.Date) bool {
	eq, ok := a.TryEqual(b)
	return eq && ok
}
