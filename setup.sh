#!/bin/sh
# Run once after a fresh restore, offline.  Builds the Coq development (full .vo build),
# the translator and warms the Go build cache for the harness.
set -e
cd "$(dirname "$0")"
export GOFLAGS=-mod=mod GOPROXY=off GOSUMDB=off GOTOOLCHAIN=local CGO_ENABLED=0
mkdir -p bin evidence replays .work
(cd coq && coq_makefile -f _CoqProject -o Makefile && timeout 3000 make -j16)
(cd go2v && go build -o ../bin/go2v .)
(cd harness && go build -tags verif -o ../bin/fpharness .)
echo "setup done"
