(* C13/Model.v -- conversion functions toT / convertsToT.

   Mirrors funcs/impl/conversion.go To* / ConvertsTo* (after the fix: commits) and the string parsers
   they call (system.ParseBoolean/ParseInteger/ParseDecimal/ParseDate/ParseDateTime/ParseTime and the
   quantity regexp).  A String item carries what each target type reads it as, computed by the harness
   with its own recognisers of the FHIRPath string forms (independent of the library); every other item is
   a typed value.  Temporal values are component lists as in C05. *)
From FPV Require Import Base.Prelude C08.Model C05.Model.

Record strinfo := {
  as_bool : option bool; as_int : option Z; as_dec : option (Z * Z);
  as_date : option (list Z); as_dt : option (list Z); as_time : option (list Z);
  as_qty : option (Z * Z * N);
  lenient : bool   (* accepted by the library only because a literal prefix (@, @T) is trimmed *)
}.
Inductive item :=
| IVal (v : sval)
| IDateTime (utc local_date : list Z)     (* a DateTime: UTC-normalised components, and its date part in its own offset *)
| IStr (text : ustring) (info : strinfo).
Inductive target := TBool | TInt | TDec | TStr | TDate | TDateTime | TTime | TQty.

Definition has_type (t : target) (v : sval) : bool :=
  match t, v with
  | TBool, VBool _ | TInt, VInt _ | TDec, VDec _ _ | TStr, VStr _ | TDate, VDate _ | TDateTime, VDateTime _
  | TTime, VTime _ | TQty, VQty _ _ _ => true
  | _, _ => false
  end.

(* the FHIRPath conversion table *)
Definition conv_ref (t : target) (x : item) : option sval :=
  match t, x with
  | TBool, IVal (VBool b) => Some (VBool b)
  | TBool, IVal (VInt z) => if z =? 1 then Some (VBool true) else if z =? 0 then Some (VBool false) else None
  | TBool, IVal (VDec c e) => if dec_eqb c e 1 0 then Some (VBool true) else if dec_eqb c e 0 0 then Some (VBool false) else None
  | TBool, IStr _ i => option_map VBool (as_bool i)
  | TInt, IVal (VInt z) => Some (VInt z)
  | TInt, IVal (VBool b) => Some (VInt (if b then 1 else 0))
  | TInt, IStr _ i => option_map VInt (as_int i)
  | TDec, IVal (VDec c e) => Some (VDec c e)
  | TDec, IVal (VInt z) => Some (VDec z 0)
  | TDec, IVal (VBool b) => Some (VDec (if b then 1 else 0) 0)
  | TDec, IStr _ i => option_map (fun p => VDec (fst p) (snd p)) (as_dec i)
  | TStr, IStr s _ => Some (VStr s)
  | TStr, IVal (VComplex _) => None
  | TStr, IVal _ => Some (VStr [])          (* some string: its text is not modelled *)
  | TDate, IVal (VDate c) => Some (VDate c)
  | TDate, IVal (VDateTime c) => Some (VDate (firstn 3 c))
  | TDate, IDateTime _ l => Some (VDate l)
  | TDateTime, IDateTime c _ => Some (VDateTime c)
  | TStr, IDateTime _ _ => Some (VStr [])
  | TDate, IStr _ i => if lenient i then None else option_map VDate (as_date i)
  | TDateTime, IVal (VDateTime c) => Some (VDateTime c)
  | TDateTime, IVal (VDate c) => Some (VDateTime c)
  | TDateTime, IStr _ i => if lenient i then None else option_map VDateTime (as_dt i)
  | TTime, IVal (VTime c) => Some (VTime c)
  | TTime, IStr _ i => if lenient i then None else option_map VTime (as_time i)
  | TQty, IVal (VQty c e u) => Some (VQty c e u)
  | TQty, IVal (VInt z) => Some (VQty z 0 1)
  | TQty, IVal (VDec c e) => Some (VQty c e 1)
  | TQty, IVal (VBool b) => Some (VQty (if b then 1 else 0) 0 1)
  | TQty, IStr _ i => option_map (fun p => VQty (fst (fst p)) (snd (fst p)) (snd p)) (as_qty i)
  | _, _ => None
  end.

(* known-finding classes
   1: toString() on a complex element answers Boolean false (pinned by TestToString/returns_false_for_a_ppb.Patient)
   2: toInteger() on a string that is not an integer is an error instead of empty (pinned by TestToInteger/errors_if_input_is_not_convertible_to_system.Integer)
   3: a string carrying a literal prefix ('@2020-01-01', '@T10:00') is accepted by toDate/toDateTime/toTime *)
Definition kf_of (t : target) (x : item) : N :=
  match t, x with
  | TStr, IVal (VComplex _) => 1%N
  | TInt, IStr _ i => match as_int i with None => 2%N | Some _ => 0%N end
  | TDate, IStr _ i => if lenient i then match as_date i with Some _ => 3%N | None => 0%N end else 0%N
  | TDateTime, IStr _ i => if lenient i then match as_dt i with Some _ => 3%N | None => 0%N end else 0%N
  | TTime, IStr _ i => if lenient i then match as_time i with Some _ => 3%N | None => 0%N end else 0%N
  | _, _ => 0%N
  end.

Inductive oc := OEmpty | OVal (v : sval) | OErr | OPanic.

(* observed values are compared semantically; a toString result only by being a string *)
Definition sval_same (t : target) (a b : sval) : bool :=
  match t with
  | TStr => match a, b with VStr _, VStr _ => true | _, _ => false end
  | _ => match item_eq_ref a b with Some true => has_type t a && has_type t b | _ => false end
  end.
Definition oc_matches (t : target) (expected : option sval) (o : oc) : bool :=
  match expected, o with
  | None, OEmpty => true
  | Some v, OVal w => sval_same t v w
  | _, _ => false
  end.

(* what the code does: the table, except inside the classes *)
Definition model_allows (t : target) (x : item) (o : oc) : bool :=
  match kf_of t x with
  | 1%N => match o with OVal (VBool false) => true | _ => false end
  | 2%N => match o with OErr => true | _ => false end
  | 3%N => match o with OVal v => has_type t v | _ => false end
  | _ => oc_matches t (conv_ref t x) o
  end.

(* one case: target, item, and the outcomes of x.toT(), x.convertsToT(), x.toT().toT() and, for an x that
   already has type T, x.toString().toT() *)
Definition case := (target * item)%type.
Definition obs := (oc * oc * oc * oc)%type.

(* known-finding class 4: a Quantity whose unit is not a bare alphabetic word (the default unit '1',
   'mm[Hg]', 'kg/m2', ...) prints as `value unit` without quotes, which toQuantity() does not read back.
   Unit ids: 1 = the unit '1'; ids >= 1000 = other non-alphabetic units (assigned by the harness). *)
Definition kf_round (t : target) (x : item) : N :=
  match t, x with
  | TQty, IVal (VQty _ _ u) => if (u =? 1)%N || (1000 <=? u)%N then 4%N else 0%N
  | _, _ => 0%N
  end.
Definition round_expected (t : target) (x : item) : option sval :=
  match x with
  | IVal v => if has_type t v then Some v else None
  | IDateTime c _ => match t with TDateTime => Some (VDateTime c) | _ => None end
  | IStr s _ => match t with TStr => Some (VStr s) | _ => None end
  end.

Definition oc_same (t : target) (a b : oc) : bool :=
  match a, b with
  | OEmpty, OEmpty | OErr, OErr | OPanic, OPanic => true
  | OVal v, OVal w => match t with TStr => sval_same t v w | _ => sval_same t v w || (match v, w with VStr _, VStr _ => true | _, _ => false end) end
  | _, _ => false
  end.

Definition round_ok (t : target) (x : item) (o_round : oc) : bool :=
  match round_expected t x with
  | Some v => match o_round with OVal w => sval_same t v w | _ => false end
  | None => true       (* not applicable: x is not of type T *)
  end.

Definition agrees (c : case) (o : obs) : bool :=
  let '(t, x) := c in let '(o_to, o_conv, o_twice, o_round) := o in
  (match kf_round t x with 4%N => match o_round with OEmpty => true | _ => false end | _ => round_ok t x o_round end) &&
  model_allows t x o_to &&
  (* convertsToT is true exactly when toT gave a value (errors count as not convertible);
     in class 1 the Boolean false that toString() fabricates is reported as "not convertible" *)
  match o_conv with
  | OVal (VBool b) => Bool.eqb b (match kf_of t x, o_to with 1%N, _ => false | _, OVal _ => true | _, _ => false end)
  | _ => false end &&
  (* converting twice: the first result is already of type T (or the same failure) *)
  match kf_of t x with 1%N => true | _ => oc_same t o_to o_twice end.

Definition holds (c : case) (o : obs) : bool :=
  let '(t, x) := c in let '(o_to, o_conv, o_twice, o_round) := o in
  round_ok t x o_round &&
  oc_matches t (conv_ref t x) o_to &&
  match o_conv with OVal (VBool b) => Bool.eqb b (match o_to with OVal _ => true | _ => false end) | _ => false end &&
  oc_same t o_to o_twice.
Definition kf (c : case) : N := let '(t, x) := c in match kf_of t x with 0%N => kf_round t x | k => k end.

(* known finding 2 (toInteger on a string that is no integer is an error instead of empty) explains a failure
   only if the failure disappears once that error is read as empty; convertsToInteger answering true there, for
   instance, is a different violation and stays unlisted *)
Definition soften2 (x : oc) : oc := match x with OErr => OEmpty | _ => x end.
Definition explained_by_kf (c : case) (o : obs) : bool :=
  match kf c with
  | 2%N => let '(o_to, o_conv, o_twice, o_round) := o in holds c (soften2 o_to, o_conv, soften2 o_twice, soften2 o_round)
  | _ => true
  end.
Definition judge (x : N * case * obs) : verdict :=
  let '(id, c, o) := x in
  {| v_id := id; v_agree := agrees c o; v_holds := holds c o; v_kf := if explained_by_kf c o then kf c else 0%N |}.
