From FPV Require Import Base.Prelude C08.Model C05.Model C13.Model.

(* the result of a successful conversion always has the target type *)
Lemma to_result_has_type t x v : conv_ref t x = Some v -> has_type t v = true.
Proof.
  destruct t, x as [[b|s|z|c e|c|c|c|c e u|c]|u l|s i]; cbn [conv_ref]; try discriminate;
  try (intro H; inversion H; subst; reflexivity);
  try (destruct (_ =? 1); [intro H; inversion H; reflexivity|destruct (_ =? 0); [intro H; inversion H; reflexivity|discriminate]]);
  try (destruct (dec_eqb _ _ 1 0); [intro H; inversion H; reflexivity|destruct (dec_eqb _ _ 0 0); [intro H; inversion H; reflexivity|discriminate]]);
  try (destruct (lenient i); [discriminate|]);
  try (match goal with |- option_map _ ?o = _ -> _ => destruct o; cbn [option_map]; [intro H; inversion H; reflexivity|discriminate] end).
Qed.

(* converting an item that already has the target type returns it: hence toT().toT() = toT() *)
Lemma to_idempotent t x v : t <> TStr -> conv_ref t x = Some v -> conv_ref t (IVal v) = Some v.
Proof.
  intros Ht H. pose proof (to_result_has_type t x v H) as Hty.
  destruct t, v; cbn in Hty; try discriminate; try reflexivity. exfalso; apply Ht; reflexivity.
Qed.

(* an unconvertible item gives empty: never an error, never a value of another type *)
Lemma unconvertible_is_empty t x o : kf_of t x = 0%N -> conv_ref t x = None -> model_allows t x o = true -> o = OEmpty.
Proof. intros Hk Hn. unfold model_allows. rewrite Hk, Hn. destruct o; cbn; try discriminate. reflexivity. Qed.

(* outside the listed classes the model is the conversion table: agreeing outcomes satisfy the property *)
Lemma agree_implies_holds c o : kf c = 0%N -> agrees c o = true -> holds c o = true.
Proof.
  destruct c as [t x], o as [[[o_to o_conv] o_twice] o_round]. unfold kf, agrees, holds.
  destruct (kf_of t x) eqn:K; [|discriminate]. intro Hr. rewrite Hr.
  unfold model_allows. rewrite K.
  intro H. repeat (apply andb_prop in H; destruct H as [H ?]).
  repeat (apply andb_true_iff; split); try assumption.
Qed.

(* the conversion table itself (finite: targets x kinds of value), as a boolean matrix *)
Definition kind_of (v : sval) : N :=
  match v with VBool _ => 0 | VInt _ => 1 | VDec _ _ => 2 | VStr _ => 3 | VDate _ => 4 | VDateTime _ => 5 | VTime _ => 6 | VQty _ _ _ => 7 | VComplex _ => 8 end%N.
Lemma never_converts_across t v : conv_ref t (IVal v) <> None ->
  match t, v with
  | TBool, (VBool _ | VInt _ | VDec _ _) | TInt, (VInt _ | VBool _) | TDec, (VDec _ _ | VInt _ | VBool _)
  | TStr, (VBool _ | VInt _ | VDec _ _ | VStr _ | VDate _ | VDateTime _ | VTime _ | VQty _ _ _)
  | TDate, (VDate _ | VDateTime _) | TDateTime, (VDateTime _ | VDate _) | TTime, VTime _
  | TQty, (VQty _ _ _ | VInt _ | VDec _ _ | VBool _) => True
  | _, _ => False
  end.
Proof. destruct t, v; cbn [conv_ref]; intro H; try exact I; apply H; reflexivity. Qed.
