(* C12/Model.v -- `is` / `as` against the FHIR R4 and System type hierarchies.

   The declared type of a value is known to the harness independently of the library (from google/fhir's
   descriptor annotations: structure-definition kind, value-set url of code wrappers, nesting).  The
   reference hierarchy is written out here; the code's (reflection/type_specifier.go TypeOf, Is, parent,
   NewTypeSpecifier, NewQualifiedTypeSpecifier; elements.go; system/types.go IsValid) is modelled by the
   same chain (after the fix: commit typing nested components) and the `parent` switch tables regenerated
   from source are compared in Oblig/C12_gen.v. *)
From FPV Require Import Base.Prelude.
From Coq Require Import String.

Inductive dkind := KPrim | KComplex | KBackbone | KNestedElem | KResource | KSystem.
Definition decl := (dkind * string)%type.      (* the name is "" for backbone / nested elements *)
Inductive nspace := NFhir | NSystem.

Definition mem (s : string) (l : list string) : bool := existsb (String.eqb s) l.

(* ---- the reference hierarchy (R4) ------------------------------------------------------------------------- *)
Definition prim_parent (n : string) : option string :=
  if mem n ["code"; "markdown"; "id"]%string then Some "string"%string
  else if mem n ["unsignedInt"; "positiveInt"]%string then Some "integer"%string
  else if mem n ["url"; "canonical"; "uuid"; "oid"]%string then Some "uri"%string
  else None.
Definition quantity_specialisations : list string := ["Duration"; "MoneyQuantity"; "Age"; "Count"; "Distance"; "SimpleQuantity"]%string.
Definition backbone_datatypes : list string := ["Timing"; "Dosage"; "ElementDefinition"; "MarketingStatus"; "Population"; "ProdCharacteristic"; "ProductShelfLife"; "SubstanceAmount"]%string.
Definition non_domain_resources : list string := ["Bundle"; "Binary"; "Parameters"]%string.
Definition system_names : list string := ["String"; "Boolean"; "Integer"; "Decimal"; "Date"; "Time"; "DateTime"; "Quantity"; "Any"]%string.

(* all types a value of the declared type belongs to, most specific first *)
Definition supertypes (d : decl) : list (nspace * string) :=
  let '(k, n) := d in
  match k with
  | KPrim => (NFhir, n) :: (match prim_parent n with Some p => [(NFhir, p)] | None => [] end) ++ [(NFhir, "Element"%string)]
  | KComplex =>
      (NFhir, n) ::
      (if mem n quantity_specialisations then [(NFhir, "Quantity"%string)] else []) ++
      (if mem n backbone_datatypes then [(NFhir, "BackboneElement"%string)] else []) ++ [(NFhir, "Element"%string)]
  | KBackbone => [(NFhir, "BackboneElement"%string); (NFhir, "Element"%string)]
  | KNestedElem => [(NFhir, "Element"%string)]
  | KResource =>
      (NFhir, n) :: (if mem n non_domain_resources || String.eqb n "DomainResource" || String.eqb n "Resource" then [] else [(NFhir, "DomainResource"%string)])
      ++ [(NFhir, "Resource"%string)]
  | KSystem => [(NSystem, n); (NSystem, "Any"%string)]
  end.

Definition ns_eqb (a b : nspace) : bool := match a, b with NFhir, NFhir | NSystem, NSystem => true | _, _ => false end.
Definition subtype (d : decl) (t : nspace * string) : bool :=
  existsb (fun s => ns_eqb (fst s) (fst t) && String.eqb (snd s) (snd t)) (supertypes d).

(* a type specifier as written: optional namespace text, type name; and whether that name is a FHIR type
   name at all (known to the harness from the descriptor registry) *)
Record spec := { sp_ns : option string; sp_name : string; sp_is_fhir_name : bool }.
Definition resolve (s : spec) : option (nspace * string) :=
  match sp_ns s with
  | Some ns =>
      if String.eqb ns "FHIR" then (if sp_is_fhir_name s then Some (NFhir, sp_name s) else None)
      else if String.eqb ns "System" then (if mem (sp_name s) system_names then Some (NSystem, sp_name s) else None)
      else None
  | None =>
      if sp_is_fhir_name s then Some (NFhir, sp_name s)            (* FHIR first *)
      else if mem (sp_name s) system_names then Some (NSystem, sp_name s)
      else None
  end.

Inductive oc := OBool (b : bool) | OCompileErr | OEvalErr.
Definition oc_eqb (a b : oc) : bool :=
  match a, b with OBool x, OBool y => Bool.eqb x y | OCompileErr, OCompileErr | OEvalErr, OEvalErr => true | _, _ => false end.

Definition is_ref (d : decl) (s : spec) : oc :=
  match resolve s with Some t => OBool (subtype d t) | None => OCompileErr end.

(* case: declared type of the value, the specifier; observed: `x is T`, and whether `x as T` returned the
   value itself (its chosen value for a choice element) when `is` is true and empty otherwise *)
Definition case := (decl * spec)%type.
Definition obs := (oc * bool)%type.
Definition model (c : case) : oc := let '(d, s) := c in is_ref d s.
Definition agrees (c : case) (o : obs) : bool := oc_eqb (model c) (fst o).
Definition holds (c : case) (o : obs) : bool := oc_eqb (model c) (fst o) && snd o.
Definition kf (c : case) : N := 0%N.
Definition judge (x : N * case * obs) : verdict :=
  let '(id, c, o) := x in
  {| v_id := id; v_agree := agrees c o; v_holds := holds c o; v_kf := kf c |}.

(* the code's parent() as tables: (type name, parent name) for the special cases; everything else falls to
   Element (a datatype) or DomainResource (a resource) *)
Definition parent_special : list (string * string) :=
  [("code", "string"); ("markdown", "string"); ("id", "string");
   ("unsignedInt", "integer"); ("positiveInt", "integer");
   ("url", "uri"); ("canonical", "uri"); ("uuid", "uri"); ("oid", "uri");
   ("Duration", "Quantity"); ("MoneyQuantity", "Quantity"); ("Age", "Quantity"); ("Count", "Quantity"); ("Distance", "Quantity"); ("SimpleQuantity", "Quantity");
   ("Timing", "BackboneElement"); ("Dosage", "BackboneElement"); ("ElementDefinition", "BackboneElement");
   ("MarketingStatus", "BackboneElement"); ("Population", "BackboneElement"); ("ProdCharacteristic", "BackboneElement"); ("ProductShelfLife", "BackboneElement"); ("SubstanceAmount", "BackboneElement");
   ("Bundle", "Resource"); ("Binary", "Resource"); ("Parameters", "Resource"); ("DomainResource", "Resource")]%string.
