From FPV Require Import Base.Prelude C12.Model.
From Coq Require Import String.

Lemma subtype_refl d : subtype d (hd (NFhir, ""%string) (supertypes d)) = true.
Proof.
  destruct d as [[| | | | |] n]; cbn [supertypes hd subtype existsb fst snd ns_eqb]; rewrite ?String.eqb_refl; try reflexivity.
Qed.
(* every FHIR element is an Element, every resource a Resource, every System value an Any *)
Lemma element_top k n : (k = KPrim \/ k = KComplex \/ k = KBackbone \/ k = KNestedElem) -> subtype (k, n) (NFhir, "Element"%string) = true.
Proof.
  intros [-> |[-> |[-> | ->]]]; unfold subtype; cbn [supertypes].
  - cbn [existsb fst snd ns_eqb]. rewrite existsb_app. cbn. rewrite !orb_true_r. reflexivity.
  - cbn [existsb fst snd ns_eqb]. rewrite !existsb_app. cbn. rewrite !orb_true_r. reflexivity.
  - reflexivity.
  - reflexivity.
Qed.
Lemma resource_top n : subtype (KResource, n) (NFhir, "Resource"%string) = true.
Proof. unfold subtype. cbn [supertypes existsb fst snd ns_eqb]. rewrite existsb_app. cbn. rewrite !orb_true_r. reflexivity. Qed.
Lemma system_top n : subtype (KSystem, n) (NSystem, "Any"%string) = true.
Proof. unfold subtype. cbn. rewrite orb_true_r. reflexivity. Qed.
(* the two hierarchies never mix *)
Lemma namespaces_disjoint n t : subtype (KSystem, n) (NFhir, t) = false.
Proof. reflexivity. Qed.
Lemma fhir_never_system k n t : k <> KSystem -> subtype (k, n) (NSystem, t) = false.
Proof.
  intro H. destruct k; try (exfalso; apply H; reflexivity); unfold subtype; cbn [supertypes];
  repeat match goal with
         | |- context [prim_parent ?x] => destruct (prim_parent x)
         | |- context [if ?c then _ else _] => destruct c
         end; reflexivity.
Qed.
(* specialisations *)
Lemma primitive_specialises : forall n p, prim_parent n = Some p -> subtype (KPrim, n) (NFhir, p) = true.
Proof. intros n p H. unfold subtype. cbn [supertypes]. rewrite H. cbn. rewrite String.eqb_refl. rewrite orb_true_r. reflexivity. Qed.
Lemma backbone_is_backbone_and_element : subtype (KBackbone, ""%string) (NFhir, "BackboneElement"%string) = true /\ subtype (KBackbone, ""%string) (NFhir, "DomainResource"%string) = false.
Proof. split; reflexivity. Qed.
(* unknown names and namespaces are rejected *)
Lemma unknown_namespace_rejected ns n f d : ns <> "FHIR"%string -> ns <> "System"%string ->
  is_ref d {| sp_ns := Some ns; sp_name := n; sp_is_fhir_name := f |} = OCompileErr.
Proof. intros H1 H2. unfold is_ref, resolve. cbn [sp_ns sp_name sp_is_fhir_name]. apply String.eqb_neq in H1, H2. rewrite H1, H2. reflexivity. Qed.
Lemma unknown_type_rejected n d : mem n system_names = false ->
  is_ref d {| sp_ns := None; sp_name := n; sp_is_fhir_name := false |} = OCompileErr.
Proof. intro H. unfold is_ref, resolve. cbn [sp_ns sp_name sp_is_fhir_name]. rewrite H. reflexivity. Qed.
(* unqualified names resolve FHIR first *)
Lemma resolve_fhir_first n : resolve {| sp_ns := None; sp_name := n; sp_is_fhir_name := true |} = Some (NFhir, n).
Proof. reflexivity. Qed.
