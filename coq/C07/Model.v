(* C07/Model.v -- empty collections propagate through operators and functions.

   Mirrors the `len(..) == 0` guards of internal/expr/expressions.go (IndexExpression :377,
   EqualityExpression :417, IsExpression :465, AsExpression :494, ComparisonExpression :579,
   ArithmeticExpression :651, NegationExpression :777, ConcatExpression :714) and the
   empty-input behaviour of every entry of the function table (funcs/impl/*.go), classified per
   name.  The table itself is a parameter: the concrete table is regenerated from source by go2v and
   Oblig/C07_gen.v proves that every one of its names is classified here (so a new table entry
   without a classification breaks an obligation). *)
From FPV Require Import Base.Prelude C16.Model.
From Coq Require Import String.

Inductive oper :=
| OAdd | OSub | OMul | ODiv | OIDiv | OMod          (* arithmetic *)
| OLt | OLe | OGt | OGe                               (* comparison *)
| OEq | ONe                                           (* equality *)
| OIs | OAs                                           (* type operators: operand position only *)
| ONeg | OPos                                         (* polarity *)
| OIndexColl | OIndexIdx                              (* indexer: {}[0] and x[{}] *)
| OConcat.                                            (* & *)

Inductive side := SLeft | SRight | SBoth.

Inductive outcome := OEmpty | OValue | OErr | OPanic | ORejected.
Definition outcome_eqb (a b : outcome) : bool :=
  match a, b with
  | OEmpty, OEmpty | OValue, OValue | OErr, OErr | OPanic, OPanic | ORejected, ORejected => true
  | _, _ => false
  end.

(* behaviour on an empty INPUT collection *)
Inductive fclass := Aggregate | Propagates | Placeholder.
(* what an argument position expects *)
Inductive argkind := Criterion | CollectionArg | Single.

Definition aggregates : list string :=
  ["exists"; "empty"; "count"; "all"; "allTrue"; "anyTrue"; "allFalse"; "anyFalse"; "isDistinct"; "iif";
   "now"; "today"; "timeOfDay"]%string.
Definition placeholders : list string :=
  ["subsetOf"; "supersetOf"; "repeat"; "ofType"; "single"; "union"; "combine"; "trace"]%string.
Definition propagating : list string :=
  ["extension"; "distinct"; "where"; "select"; "first"; "last"; "tail"; "skip"; "take"; "intersect"; "exclude";
   "toBoolean"; "convertsToBoolean"; "toInteger"; "convertsToInteger"; "toDate"; "convertsToDate"; "toDateTime";
   "convertsToDateTime"; "toDecimal"; "convertsToDecimal"; "toQuantity"; "convertsToQuantity"; "toString";
   "convertsToString"; "toTime"; "convertsToTime"; "indexOf"; "substring"; "startsWith"; "endsWith"; "contains";
   "upper"; "lower"; "replace"; "matches"; "replaceMatches"; "length"; "toChars"; "abs"; "ceiling"; "exp"; "floor";
   "ln"; "log"; "power"; "round"; "sqrt"; "truncate"; "children"; "descendants"; "not"; "join"]%string.

Definition mem (s : string) (l : list string) : bool := existsb (String.eqb s) l.
Definition classify (n : string) : option fclass :=
  if mem n aggregates then Some Aggregate
  else if mem n placeholders then Some Placeholder
  else if mem n propagating then Some Propagates
  else None.

Definition arg_kind (n : string) (pos : Z) : argkind :=
  if mem n ["where"; "exists"; "all"; "select"; "repeat"]%string then Criterion
  else if String.eqb n "iif" then Criterion
  else if mem n ["intersect"; "exclude"; "union"; "combine"; "subsetOf"; "supersetOf"]%string then CollectionArg
  else Single.

Inductive case :=
| COp (o : oper) (s : side)
| CInput (experimental : bool) (name : string) (k : Z)          (* f applied to an empty input, k well-typed args *)
| CArg (experimental : bool) (name : string) (k pos : Z).        (* non-empty input, argument pos is empty *)

(* Known-finding class 1 (see /verif/known_findings.json, KF-C07-1): convertsToQuantity(unit) swallows the
   error raised for an empty unit argument and answers `false` -- a fabricated value where the property
   demands empty or an error. *)
Definition kf (c : case) : N :=
  match c with
  | CArg _ n 1 0 => if String.eqb n "convertsToQuantity" then 1%N else 0%N
  | _ => 0%N
  end.

(* does the model allow this outcome? (for Single arguments the code may answer empty or error) *)
Definition allows_core (base exp : table) (c : case) (o : outcome) : bool :=
  match c with
  | COp OConcat _ => outcome_eqb o OValue
  | COp _ _ => outcome_eqb o OEmpty
  | CInput x n k =>
      let t := table_for base exp x in
      match visit_function t n k with
      | Accepted =>
          match classify n with
          | Some Aggregate => outcome_eqb o OValue
          | Some Propagates => outcome_eqb o OEmpty
          | Some Placeholder => outcome_eqb o OErr
          | None => false
          end
      | _ => outcome_eqb o ORejected
      end
  | CArg x n k pos =>
      let t := table_for base exp x in
      match visit_function t n k with
      | Accepted =>
          match classify n with
          | Some Placeholder => outcome_eqb o OErr
          | None => false
          | Some _ =>
              match arg_kind n pos with
              | Single => outcome_eqb o OEmpty || outcome_eqb o OErr
              | Criterion =>
                  (* where/select: nothing selected; exists/all: false; iif: the chosen branch *)
                  if mem n ["where"; "select"]%string then outcome_eqb o OEmpty
                  else if String.eqb n "iif" then outcome_eqb o OEmpty || outcome_eqb o OValue
                  else outcome_eqb o OValue
              | CollectionArg =>
                  (* x.exclude({}) = x ; x.intersect({}) = {} *)
                  if String.eqb n "exclude" then outcome_eqb o OValue else outcome_eqb o OEmpty
              end
          end
      | _ => outcome_eqb o ORejected
      end
  end.

Definition allows (base exp : table) (c : case) (o : outcome) : bool :=
  if (kf c =? 1)%N then outcome_eqb o OValue else allows_core base exp c o.

(* the property *)
Definition holds (base exp : table) (c : case) (o : outcome) : bool :=
  match c with
  | COp OConcat _ => outcome_eqb o OValue
  | COp _ _ => outcome_eqb o OEmpty
  | CInput x n k =>
      let t := table_for base exp x in
      match visit_function t n k with
      | Accepted =>
          match lookup t n with
          | Some e =>
              if negb (implemented e) then outcome_eqb o OErr
              else if mem n aggregates then negb (outcome_eqb o OPanic)
              else outcome_eqb o OEmpty
          | None => false
          end
      | _ => outcome_eqb o ORejected
      end
  | CArg x n k pos =>
      let t := table_for base exp x in
      match visit_function t n k with
      | Accepted =>
          match arg_kind n pos with
          | Single => outcome_eqb o OEmpty || outcome_eqb o OErr
          | _ => negb (outcome_eqb o OPanic)
          end
      | _ => outcome_eqb o ORejected
      end
  end.

Definition judge (base exp : table) (x : N * case * outcome) : verdict :=
  let '(id, c, o) := x in
  {| v_id := id; v_agree := allows base exp c o; v_holds := holds base exp c o; v_kf := kf c |}.

(* every name of a table is classified, and classified consistently with the table's own notion of
   "implemented" *)
Definition table_classified (t : table) : bool :=
  forallb (fun e => match classify (e_name e) with
                    | Some Placeholder => negb (implemented e)
                    | Some _ => implemented e
                    | None => false
                    end) t.
