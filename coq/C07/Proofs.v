From FPV Require Import Base.Prelude C16.Model C07.Model.
From Coq Require Import String.

Lemma outcome_eqb_eq a b : outcome_eqb a b = true <-> a = b.
Proof. destruct a, b; cbn; split; intro H; try reflexivity; try discriminate. Qed.

(* every operator other than & yields empty when an operand (either or both) is empty *)
Lemma empty_propagates_operators o s out : o <> OConcat -> allows [] [] (COp o s) out = true -> out = OEmpty.
Proof. intros Ho H. unfold allows in H. cbn [kf N.eqb] in H. destruct o; try (exfalso; apply Ho; reflexivity); cbn in H; apply outcome_eqb_eq in H; exact H. Qed.
Lemma concat_treats_empty_as_string s out : allows [] [] (COp OConcat s) out = true -> out = OValue.
Proof. intro H. unfold allows in H. cbn in H. apply outcome_eqb_eq in H. exact H. Qed.

(* a classified table: what the model allows on an empty input is what the property demands *)
Lemma classify_placeholder_not_aggregate n : classify n = Some Placeholder -> mem n aggregates = false.
Proof. unfold classify. destruct (mem n aggregates); [discriminate|reflexivity]. Qed.
Lemma classify_propagates_not_aggregate n : classify n = Some Propagates -> mem n aggregates = false.
Proof. unfold classify. destruct (mem n aggregates); [discriminate|reflexivity]. Qed.
Lemma classify_aggregate n : classify n = Some Aggregate -> mem n aggregates = true.
Proof. unfold classify. destruct (mem n aggregates); [reflexivity|]. destruct (mem n placeholders); [discriminate|]. destruct (mem n propagating); discriminate. Qed.

Lemma lookup_forallb (t : table) (P : entry -> bool) n e : forallb P t = true -> lookup t n = Some e -> P e = true.
Proof.
  induction t as [|e0 t IH]; cbn; [discriminate|]. intros H L. apply andb_prop in H as [H0 H1].
  destruct (String.eqb (e_name e0) n); [inversion L; subst; exact H0|exact (IH H1 L)].
Qed.
Lemma lookup_name (t : table) n e : lookup t n = Some e -> e_name e = n.
Proof.
  induction t as [|e0 t IH]; cbn; [discriminate|].
  destruct (String.eqb (e_name e0) n) eqn:E; [intro H; inversion H; subst; apply String.eqb_eq; exact E|exact IH].
Qed.

(* For every table whose names are all classified: an outcome the model allows satisfies the property.
   In particular: every implemented non-aggregate function yields empty on an empty input, a Single
   argument that is empty yields empty or an error, never a value. *)
Lemma allows_implies_holds base exp c o :
  table_classified (merge_experimental base exp) = true -> table_classified base = true ->
  kf c = 0%N ->
  allows base exp c o = true -> holds base exp c o = true.
Proof.
  intros Hfull Hbase Hkf. unfold allows. rewrite Hkf. cbn [N.eqb].
  destruct c as [op s|x n k|x n k pos]; cbn [allows_core holds].
  - destruct op; intro H; exact H.
  - set (t := table_for base exp x).
    assert (Ht : table_classified t = true) by (unfold t, table_for; destruct x; assumption).
    unfold visit_function. destruct (lookup t n) as [e|] eqn:L; [|intro H; exact H].
    destruct ((k <? e_min e) || (e_max e <? k)); [intro H; exact H|].
    pose proof (lookup_forallb t _ n e Ht L) as Hc. cbn in Hc. rewrite (lookup_name t n e L) in Hc.
    destruct (classify n) as [[| |]|] eqn:C; try discriminate.
    + rewrite Hc. cbn [negb]. rewrite (classify_aggregate n C). intro H. apply outcome_eqb_eq in H; subst. reflexivity.
    + rewrite Hc. cbn [negb]. rewrite (classify_propagates_not_aggregate n C). intro H; exact H.
    + rewrite Hc. intro H; exact H.
  - set (t := table_for base exp x).
    unfold visit_function. destruct (lookup t n) as [e|] eqn:L; [|intro H; exact H].
    destruct ((k <? e_min e) || (e_max e <? k)); [intro H; exact H|].
    destruct (classify n) as [[| |]|] eqn:C; try discriminate.
    + destruct (arg_kind n pos); try (intro H; exact H).
      * destruct (mem n ["where"%string; "select"%string]); [intro H; apply outcome_eqb_eq in H; subst; reflexivity|].
        destruct (String.eqb n "iif"); intro H; [destruct o; try discriminate; reflexivity|apply outcome_eqb_eq in H; subst; reflexivity].
      * destruct (String.eqb n "exclude"); intro H; apply outcome_eqb_eq in H; subst; reflexivity.
    + destruct (arg_kind n pos); try (intro H; exact H).
      * destruct (mem n ["where"%string; "select"%string]); [intro H; apply outcome_eqb_eq in H; subst; reflexivity|].
        destruct (String.eqb n "iif"); intro H; [destruct o; try discriminate; reflexivity|apply outcome_eqb_eq in H; subst; reflexivity].
      * destruct (String.eqb n "exclude"); intro H; apply outcome_eqb_eq in H; subst; reflexivity.
    + intro H. apply outcome_eqb_eq in H; subst. destruct (arg_kind n pos); reflexivity.
Qed.

Lemma allowed_never_panics base exp c : allows base exp c OPanic = false.
Proof.
  unfold allows. destruct (kf c =? 1)%N; [reflexivity|].
  destruct c as [op s|x n k|x n k pos]; cbn [allows_core].
  - destruct op; reflexivity.
  - destruct (visit_function _ n k); try reflexivity. destruct (classify n) as [[| |]|]; reflexivity.
  - destruct (visit_function _ n k); try reflexivity. destruct (classify n) as [[| |]|]; try reflexivity;
    destruct (arg_kind n pos); try reflexivity;
    try (destruct (mem n _); [reflexivity|]; destruct (String.eqb n "iif"); reflexivity);
    destruct (String.eqb n "exclude"); reflexivity.
Qed.

(* the known finding is a genuine counterexample to the unrestricted statement *)
Lemma allows_implies_holds_refuted :
  exists base c o, table_classified base = true /\ allows base [] c o = true /\ holds base [] c o = false.
Proof.
  exists [("convertsToQuantity"%string, "ConvertsToQuantity"%string, 0, 1)], (CArg false "convertsToQuantity" 1 0), OValue.
  vm_compute. repeat split.
Qed.
