(* C06/Model.v -- model of the Boolean operators and of the singleton-evaluation rule.

   Mirrors (file:line at the pinned commit):
     system/collection.go:80  Collection.ToSingletonBoolean   -> to_singleton_boolean
     system/collection.go:107 Collection.ToBool               -> to_bool
     internal/expr/booleans.go:5-47 evaluateAnd/Or/Xor/Implies -> evaluate_and ... (hand-written
        twin of the functions that go2v regenerates from source; Oblig/C06_gen.v proves them equal)
     internal/expr/expressions.go:536 BooleanExpression.Evaluate -> bool_expr
     internal/funcs/impl/not.go Not                            -> fn_not
     internal/funcs/impl/filtering.go:12 Where                 -> where_one
     internal/funcs/impl/existence.go:81 All, :123 Exists      -> all_one, exists_one
     internal/funcs/impl/conversion.go:578 Iif                 -> iif_one
     fhirpath.go EvaluateAsBool                                -> as_bool
   Items are abstracted to what the code inspects: "is a Boolean (System or FHIR) with value b"
   or "anything else". *)
From FPV Require Import Base.Prelude.

Inductive item := IBool (b : bool) | IOther.
Definition item_eqb (x y : item) : bool :=
  match x, y with
  | IBool a, IBool b => Bool.eqb a b
  | IOther, IOther => true
  | _, _ => false
  end.
Definition coll := list item.
Definition coll_eqb := list_eqb item_eqb.

(* ---- the reference: Kleene's strong three-valued logic ------------------- *)
Inductive tv := T | F | U.
Definition tv_eqb (a b : tv) : bool :=
  match a, b with T, T | F, F | U, U => true | _, _ => false end.
Definition k_and (a b : tv) : tv :=
  match a, b with
  | F, _ | _, F => F
  | T, T => T
  | _, _ => U
  end.
Definition k_or (a b : tv) : tv :=
  match a, b with
  | T, _ | _, T => T
  | F, F => F
  | _, _ => U
  end.
Definition k_not (a : tv) : tv := match a with T => F | F => T | U => U end.
Definition k_xor (a b : tv) : tv :=
  match a, b with
  | U, _ | _, U => U
  | T, T | F, F => F
  | _, _ => T
  end.
Definition k_implies (a b : tv) : tv :=
  match a, b with
  | F, _ => T
  | _, T => T
  | T, F => F
  | _, _ => U
  end.

Inductive bop := OpAnd | OpOr | OpXor | OpImplies.
Definition kleene (op : bop) : tv -> tv -> tv :=
  match op with OpAnd => k_and | OpOr => k_or | OpXor => k_xor | OpImplies => k_implies end.

(* operand form of a collection, as the property defines it *)
Inductive form := FTv (t : tv) | FMulti.
Definition form_of (c : coll) : form :=
  match c with
  | [] => FTv U
  | [IBool true] => FTv T
  | [IBool false] => FTv F
  | [IOther] => FTv T
  | _ :: _ :: _ => FMulti
  end.
Definition of_tv (t : tv) : coll :=
  match t with T => [IBool true] | F => [IBool false] | U => [] end.

(* ---- the code ------------------------------------------------------------ *)
Definition to_singleton_boolean (c : coll) : res (list bool) :=
  match c with
  | [] => Ok []
  | [IBool b] => Ok [b]
  | [IOther] => Ok [true]
  | _ :: _ :: _ => Err
  end.

Definition to_bool (c : coll) : res bool :=
  match c with
  | [] => Ok false
  | [IBool b] => Ok b
  | [IOther] => Ok true
  | _ :: _ :: _ => Err
  end.

(* hand-written twins of booleans.go, over the slices ToSingletonBoolean returns *)
Definition hd0 (l : list bool) : bool := match l with b :: _ => b | [] => false end.
Definition evaluate_and (l r : list bool) : list bool :=
  if (0 <? go_len l) && (0 <? go_len r) then [hd0 l && hd0 r]
  else if ((go_len l =? 1) && negb (hd0 l)) || ((go_len r =? 1) && negb (hd0 r)) then [false]
  else [].
Definition evaluate_or (l r : list bool) : list bool :=
  if (0 <? go_len l) && (0 <? go_len r) then [hd0 l || hd0 r]
  else if ((go_len l =? 1) && hd0 l) || ((go_len r =? 1) && hd0 r) then [true]
  else [].
Definition evaluate_xor (l r : list bool) : list bool :=
  if (0 <? go_len l) && (0 <? go_len r) then [xorb (hd0 l) (hd0 r)] else [].
Definition evaluate_implies (l r : list bool) : list bool :=
  if (0 <? go_len l) && (0 <? go_len r) then [negb (hd0 l) || hd0 r]
  else if ((0 <? go_len l) && negb (hd0 l)) || ((0 <? go_len r) && hd0 r) then [true]
  else [].
Definition table (op : bop) : list bool -> list bool -> list bool :=
  match op with
  | OpAnd => evaluate_and | OpOr => evaluate_or | OpXor => evaluate_xor | OpImplies => evaluate_implies
  end.

Definition bools_to_coll (l : list bool) : coll := map IBool l.

(* BooleanExpression.Evaluate once both sub-expressions have produced l and r *)
Definition bool_expr (op : bop) (l r : coll) : res coll :=
  match to_singleton_boolean l with
  | Ok lb =>
      match to_singleton_boolean r with
      | Ok rb => Ok (bools_to_coll (table op lb rb))
      | Err => Err | Panic => Panic
      end
  | Err => Err | Panic => Panic
  end.

Definition fn_not (c : coll) : res coll :=
  match to_singleton_boolean c with
  | Ok [] => Ok []
  | Ok (b :: _) => Ok [IBool (negb b)]
  | Err => Err | Panic => Panic
  end.

(* where(criterion) applied to a one-item input whose criterion evaluates to c:
   true = the item is kept *)
Definition where_one (c : coll) : res bool :=
  match c with
  | [] => Ok false
  | _ => match to_singleton_boolean c with
         | Ok (b :: _) => Ok b
         | Ok [] => Panic            (* pass[0] on an empty slice; unreachable, see where_one_no_panic *)
         | Err => Err | Panic => Panic
         end
  end.
Definition exists_one (c : coll) : res bool := where_one c.
Definition all_one (c : coll) : res bool := to_bool c.
(* iif(criterion, true, false) *)
Definition iif_one (c : coll) : res bool := to_bool c.
Definition as_bool (c : coll) : res bool := to_bool c.

(* ---- correspondence cases --------------------------------------------------- *)
Inductive case :=
| CBool (op : bop) (l r : coll)
| CNot (c : coll)
| CWhere (c : coll)
| CExists (c : coll)
| CAll (c : coll)
| CIif (c : coll)
| CAsBool (c : coll)
| COperand (c : coll).       (* an operand form on its own: what it was declared to be *)

Definition outcome := res coll.
Definition outcome_eqb : outcome -> outcome -> bool := res_eqb coll_eqb.
Definition of_resbool (r : res bool) : outcome :=
  match r with Ok b => Ok [IBool b] | Err => Err | Panic => Panic end.

Definition model (c : case) : outcome :=
  match c with
  | CBool op l r => bool_expr op l r
  | CNot c => fn_not c
  | CWhere c => of_resbool (where_one c)
  | CExists c => of_resbool (exists_one c)
  | CAll c => of_resbool (all_one c)
  | CIif c => of_resbool (iif_one c)
  | CAsBool c => of_resbool (as_bool c)
  | COperand c => Ok c
  end.

(* ---- the property as a specification over forms ------------------------------ *)
Definition spec_truthy (c : coll) : outcome :=      (* empty counts as false *)
  match form_of c with
  | FMulti => Err
  | FTv T => Ok [IBool true]
  | FTv _ => Ok [IBool false]
  end.
Definition spec (c : case) : outcome :=
  match c with
  | CBool op l r =>
      match form_of l, form_of r with
      | FTv a, FTv b => Ok (of_tv (kleene op a b))
      | _, _ => Err
      end
  | CNot c => match form_of c with FTv a => Ok (of_tv (k_not a)) | FMulti => Err end
  | CWhere c | CExists c | CAll c | CIif c | CAsBool c => spec_truthy c
  | COperand c => Ok c
  end.

Definition holds (c : case) (o : outcome) : bool := outcome_eqb (spec c) o.
Definition kf (c : case) : N := 0%N.

Definition judge (x : N * case * outcome) : verdict :=
  let '(id, c, o) := x in
  {| v_id := id; v_agree := outcome_eqb (model c) o; v_holds := holds c o; v_kf := kf c |}.
