(* C06/Proofs.v -- lemmas behind Props/C06.v *)
From FPV Require Import Base.Prelude C06.Model.

Lemma item_eqb_refl x : item_eqb x x = true.
Proof. destruct x as [[|]|]; reflexivity. Qed.
Lemma coll_eqb_refl c : coll_eqb c c = true.
Proof. induction c as [|x c IH]; cbn; [reflexivity|]. rewrite item_eqb_refl. exact IH. Qed.
Lemma outcome_eqb_refl o : outcome_eqb o o = true.
Proof. destruct o; cbn; try reflexivity. apply coll_eqb_refl. Qed.

Lemma item_eqb_eq x y : item_eqb x y = true -> x = y.
Proof. destruct x as [[|]|], y as [[|]|]; cbn; intro H; try discriminate; reflexivity. Qed.
Lemma coll_eqb_eq c : forall d, coll_eqb c d = true -> c = d.
Proof.
  induction c as [|x c IH]; intros [|y d] H; cbn in H; try discriminate; [reflexivity|].
  apply andb_prop in H as [H1 H2]. apply item_eqb_eq in H1. apply IH in H2. subst. reflexivity.
Qed.
Lemma outcome_eqb_eq a b : outcome_eqb a b = true -> a = b.
Proof. destruct a, b; cbn; intro H; try discriminate; try reflexivity. f_equal. apply coll_eqb_eq. exact H. Qed.

(* the shape analysis every proof below uses: a collection is [], one item, or two-or-more *)
Ltac shape c := destruct c as [|[[|]|] [|? ?]].

(* the model equals the specification for every case: collections of any length, any items *)
Lemma model_is_spec : forall c, model c = spec c.
Proof.
  intros [op l r|c|c|c|c|c|c|c].
  - shape l; shape r; destruct op; reflexivity.
  - shape c; reflexivity.
  - shape c; reflexivity.
  - shape c; reflexivity.
  - shape c; reflexivity.
  - shape c; reflexivity.
  - shape c; reflexivity.
  - reflexivity.
Qed.

Lemma boolean_op_table op l r :
  bool_expr op l r =
  match form_of l, form_of r with
  | FTv a, FTv b => Ok (of_tv (kleene op a b))
  | _, _ => Err
  end.
Proof. exact (model_is_spec (CBool op l r)). Qed.

Lemma not_table c :
  fn_not c = match form_of c with FTv a => Ok (of_tv (k_not a)) | FMulti => Err end.
Proof. exact (model_is_spec (CNot c)). Qed.

Lemma multi_item_is_error_left op l r : form_of l = FMulti -> bool_expr op l r = Err.
Proof. intro H. rewrite boolean_op_table, H. reflexivity. Qed.
Lemma multi_item_is_error_right op l r : form_of r = FMulti -> bool_expr op l r = Err.
Proof. intro H. rewrite boolean_op_table, H. destruct (form_of l); reflexivity. Qed.

(* algebraic laws on the reference *)
Lemma k_and_comm a b : k_and a b = k_and b a. Proof. destruct a, b; reflexivity. Qed.
Lemma k_or_comm a b : k_or a b = k_or b a. Proof. destruct a, b; reflexivity. Qed.
Lemma k_xor_comm a b : k_xor a b = k_xor b a. Proof. destruct a, b; reflexivity. Qed.
Lemma k_de_morgan_and a b : k_not (k_and a b) = k_or (k_not a) (k_not b). Proof. destruct a, b; reflexivity. Qed.
Lemma k_de_morgan_or a b : k_not (k_or a b) = k_and (k_not a) (k_not b). Proof. destruct a, b; reflexivity. Qed.
Lemma k_implies_not_or a b : k_implies a b = k_or (k_not a) b. Proof. destruct a, b; reflexivity. Qed.

(* ... and on the model, for arbitrary operand collections *)
Lemma and_comm l r : bool_expr OpAnd l r = bool_expr OpAnd r l.
Proof. shape l; shape r; reflexivity. Qed.
Lemma or_comm l r : bool_expr OpOr l r = bool_expr OpOr r l.
Proof. shape l; shape r; reflexivity. Qed.
Lemma xor_comm l r : bool_expr OpXor l r = bool_expr OpXor r l.
Proof. shape l; shape r; reflexivity. Qed.

Definition res_bind {A B} (m : res A) (f : A -> res B) : res B :=
  match m with Ok x => f x | Err => Err | Panic => Panic end.

(* (l and r).not() = l.not() or r.not()   whenever both operands are singletons or empty *)
Lemma de_morgan_and l r :
  form_of l <> FMulti -> form_of r <> FMulti ->
  res_bind (bool_expr OpAnd l r) fn_not =
  res_bind (fn_not l) (fun nl => res_bind (fn_not r) (fun nr => bool_expr OpOr nl nr)).
Proof. shape l; shape r; cbn; intros H1 H2; try reflexivity; try (exfalso; apply H1; reflexivity); exfalso; apply H2; reflexivity. Qed.
Lemma de_morgan_or l r :
  form_of l <> FMulti -> form_of r <> FMulti ->
  res_bind (bool_expr OpOr l r) fn_not =
  res_bind (fn_not l) (fun nl => res_bind (fn_not r) (fun nr => bool_expr OpAnd nl nr)).
Proof. shape l; shape r; cbn; intros H1 H2; try reflexivity; try (exfalso; apply H1; reflexivity); exfalso; apply H2; reflexivity. Qed.
Lemma implies_is_not_or l r :
  form_of l <> FMulti -> form_of r <> FMulti ->
  bool_expr OpImplies l r = res_bind (fn_not l) (fun nl => bool_expr OpOr nl r).
Proof. shape l; shape r; cbn; intros H1 H2; try reflexivity; try (exfalso; apply H1; reflexivity); exfalso; apply H2; reflexivity. Qed.

(* criteria and EvaluateAsBool follow the same singleton rule *)
Lemma criterion_rule c :
  of_resbool (where_one c) = spec_truthy c /\ of_resbool (exists_one c) = spec_truthy c /\
  of_resbool (all_one c) = spec_truthy c /\ of_resbool (iif_one c) = spec_truthy c /\
  of_resbool (as_bool c) = spec_truthy c.
Proof. repeat split; shape c; reflexivity. Qed.

Lemma where_one_no_panic c : where_one c <> Panic.
Proof. shape c; discriminate. Qed.
Lemma model_never_panics c : model c <> Panic.
Proof. rewrite model_is_spec. destruct c as [op l r|c|c|c|c|c|c|c]; cbn; try (shape c; discriminate).
  shape l; shape r; discriminate. Qed.

Lemma holds_model c : holds c (model c) = true.
Proof. unfold holds. rewrite model_is_spec. apply outcome_eqb_refl. Qed.

(* an implementation outcome that agrees with the model satisfies the property *)
Lemma agree_implies_holds c o : outcome_eqb (model c) o = true -> holds c o = true.
Proof. intro H. apply outcome_eqb_eq in H. subst. apply holds_model. Qed.
