(* C05/Model.v -- equality and ordering.

   Values (what system.From / the literal parser produce):
     numbers   Integer z | Decimal coef*10^expn   (compared by exact value after Normalize's promotion)
     strings   lists of code points (Go's < on valid UTF-8 is code-point order)
     temporals the list of UTC-normalised components up to the value's own precision:
               Date [y], [y;m], [y;m;d]; DateTime [y] .. [y;m;d;h;mi;ns-of-minute]; Time [h] .. [h;mi;ns-of-minute]
               (the last component of a second/millisecond-precision value is sec*10^9+nanos, as in getComponents)
     quantities (number, unit)
     complex elements: an equality class (structural equality = proto.Equal)
   Mirrors system/cmp.go TryEqual, system/types.go Normalize, the TryEqual/Less methods of
   date.go, date_time.go, time.go, quantity.go, primitives.go, system/collection.go:39
   Collection.TryEqual (after the fix: commit), and expressions.go EqualityExpression :417 /
   ComparisonExpression :579.  time.Equal/Before on two values of one layout are modelled as the
   lexicographic comparison of all their components. *)
From FPV Require Import Base.Prelude C08.Model.

Inductive sval :=
| VBool (b : bool)
| VStr (s : ustring)
| VInt (z : Z)
| VDec (c e : Z)
| VDate (comps : list Z)
| VDateTime (comps : list Z)
| VTime (comps : list Z)
| VQty (c e : Z) (unit : N)
| VComplex (cls : N).

(* ---- three-way comparison results ------------------------------------------------------------ *)
Inductive cmp := CLt | CEq | CGt | CUnknown.    (* CUnknown: shared components equal, precisions differ / units differ *)

Definition cmp_Z (a b : Z) : cmp := if a <? b then CLt else if a =? b then CEq else CGt.
Definition cmp_dec (c1 e1 c2 e2 : Z) : cmp := let '(a, b, _) := align c1 e1 c2 e2 in cmp_Z a b.
Fixpoint cmp_str (a b : ustring) : cmp :=
  match a, b with
  | [], [] => CEq
  | [], _ :: _ => CLt
  | _ :: _, [] => CGt
  | x :: a', y :: b' => if (x <? y)%N then CLt else if (y <? x)%N then CGt else cmp_str a' b'
  end.
(* lexicographic on the shared prefix; a proper prefix is "unknown" *)
Fixpoint cmp_comps (a b : list Z) : cmp :=
  match a, b with
  | [], [] => CEq
  | [], _ :: _ | _ :: _, [] => CUnknown
  | x :: a', y :: b' => if x <? y then CLt else if y <? x then CGt else cmp_comps a' b'
  end.

(* ---- the reference comparison ------------------------------------------------------------------- *)
Inductive refcmp := RCmp (c : cmp) | RNe (* comparable for equality only: not equal *) | RMismatch.

Definition num_of (v : sval) : option (Z * Z) :=
  match v with VInt z => Some (z, 0) | VDec c e => Some (c, e) | _ => None end.

Definition cmp_ref (a b : sval) : refcmp :=
  match a, b with
  | VBool x, VBool y => if Bool.eqb x y then RCmp CEq else RNe
  | VStr x, VStr y => RCmp (cmp_str x y)
  | (VInt _ | VDec _ _), (VInt _ | VDec _ _) =>
      match num_of a, num_of b with
      | Some (c1, e1), Some (c2, e2) => RCmp (cmp_dec c1 e1 c2 e2)
      | _, _ => RMismatch
      end
  | VDate x, VDate y | VDateTime x, VDateTime y | VTime x, VTime y
  | VDate x, VDateTime y | VDateTime x, VDate y => RCmp (cmp_comps x y)
  | VQty c1 e1 u1, VQty c2 e2 u2 => if N.eqb u1 u2 then RCmp (cmp_dec c1 e1 c2 e2) else RCmp CUnknown
  (* a bare number converts implicitly to a Quantity of unit '1' (unit id 1) *)
  | (VInt _ | VDec _ _), VQty c2 e2 u2 =>
      match num_of a with
      | Some (c1, e1) => if N.eqb u2 1 then RCmp (cmp_dec c1 e1 c2 e2) else RCmp CUnknown
      | None => RMismatch
      end
  | VQty c1 e1 u1, (VInt _ | VDec _ _) =>
      match num_of b with
      | Some (c2, e2) => if N.eqb u1 1 then RCmp (cmp_dec c1 e1 c2 e2) else RCmp CUnknown
      | None => RMismatch
      end
  | VComplex x, VComplex y => if N.eqb x y then RCmp CEq else RNe
  | _, _ => RMismatch
  end.

(* result of an operator on two singletons: Some b / None = empty ; error *)
Inductive op := OpEq | OpNe | OpLt | OpLe | OpGt | OpGe.
Definition ores := res (option bool).

Definition is_bool (v : sval) := match v with VBool _ => true | _ => false end.
Definition is_complex (v : sval) := match v with VComplex _ => true | _ => false end.

Definition ref_op (o : op) (a b : sval) : ores :=
  match o with
  | OpEq | OpNe =>
      let neg := match o with OpNe => true | _ => false end in
      match cmp_ref a b with
      | RCmp CEq => Ok (Some (negb neg))
      | RCmp CUnknown => Ok None
      | RCmp _ | RNe | RMismatch => Ok (Some neg)
      end
  | _ =>
      if is_bool a || is_bool b || is_complex a || is_complex b then Err
      else match cmp_ref a b with
           | RCmp CUnknown => Ok None
           | RCmp c => Ok (Some (match o, c with
                                 | OpLt, CLt | OpGt, CGt => true
                                 | OpLe, (CLt | CEq) | OpGe, (CGt | CEq) => true
                                 | _, _ => false end))
           | RNe | RMismatch => Err
           end
  end.

(* ---- the code -------------------------------------------------------------------------------------- *)
(* Normalize(from, to) *)
Definition normalize (from to : sval) : sval :=
  match from, to with
  | VInt z, VDec _ _ => VDec z 0
  | VInt z, VQty _ _ u => VQty z 0 u
  | VDec c e, VQty _ _ u => VQty c e u
  | VDate x, VDateTime _ => VDateTime x
  | _, _ => from
  end.

(* system.TryEqual after normalisation: (value, has-value) *)
Definition try_equal (a0 b0 : sval) : option bool :=
  let a := normalize a0 b0 in
  let b := normalize b0 a0 in
  match a, b with
  | VBool x, VBool y => Some (Bool.eqb x y)
  | VStr x, VStr y => Some (ustr_eqb x y)
  | VInt x, VInt y => Some (x =? y)
  | VDec c1 e1, VDec c2 e2 => Some (dec_eqb c1 e1 c2 e2)
  | VDate x, VDate y | VDateTime x, VDateTime y | VTime x, VTime y =>
      match cmp_comps x y with CEq => Some true | CUnknown => None | _ => Some false end
  | VQty c1 e1 u1, VQty c2 e2 u2 => if N.eqb u1 u2 then Some (dec_eqb c1 e1 c2 e2) else None
  | _, _ => Some false
  end.

(* Less: Ok b | mismatched precision/unit (-> empty) | type mismatch (-> error) *)
Inductive lessres := LOk (b : bool) | LUnknown | LErr.
Definition less (a b : sval) : lessres :=
  match a, b with
  | VStr x, VStr y => LOk (match cmp_str x y with CLt => true | _ => false end)
  | VInt x, VInt y => LOk (x <? y)
  | VDec c1 e1, VDec c2 e2 => LOk (match cmp_dec c1 e1 c2 e2 with CLt => true | _ => false end)
  | VDate x, VDate y | VDateTime x, VDateTime y | VTime x, VTime y =>
      match cmp_comps x y with CLt => LOk true | CUnknown => LUnknown | _ => LOk false end
  | VQty c1 e1 u1, VQty c2 e2 u2 =>
      if N.eqb u1 u2 then LOk (match cmp_dec c1 e1 c2 e2 with CLt => true | _ => false end) else LUnknown
  | _, _ => LErr
  end.

(* Collection.TryEqual *)
Definition is_primitive (v : sval) : bool := negb (is_complex v).
(* the decision Collection.TryEqual takes for one pair of items *)
Definition item_try (a b : sval) : option bool :=
  if negb (Bool.eqb (is_primitive a) (is_primitive b)) then Some false
  else if negb (is_primitive a) then
    match a, b with VComplex x, VComplex y => Some (N.eqb x y) | _, _ => Some false end
  else try_equal a b.
Fixpoint coll_try_equal_pairs (l r : list sval) : option bool :=
  match l, r with
  | a :: l', b :: r' =>
      match item_try a b with
      | None => None
      | Some false => Some false
      | Some true => coll_try_equal_pairs l' r'
      end
  | _, _ => Some true
  end.
Definition coll_try_equal (l r : list sval) : option bool :=
  if negb (Nat.eqb (length l) (length r)) then Some false else coll_try_equal_pairs l r.

(* EqualityExpression / ComparisonExpression once both operands have been evaluated *)
Definition model_op (o : op) (l r : list sval) : ores :=
  match o with
  | OpEq | OpNe =>
      match l, r with
      | [], _ | _, [] => Ok None
      | _, _ => match coll_try_equal l r with
                | None => Ok None
                | Some b => Ok (Some (match o with OpNe => negb b | _ => b end))
                end
      end
  | _ =>
      match l, r with
      | [], _ | _, [] => Ok None
      | [a0], [b0] =>
          if is_complex a0 || is_complex b0 then Err else
          let a := normalize a0 b0 in
          let b := normalize b0 a0 in
          match less a b with
          | LUnknown => Ok None
          | LErr => Err
          | LOk lt =>
              match less b a with
              | LUnknown => Ok None
              | LErr => Err
              | LOk gt => Ok (Some (match o with OpLt => lt | OpGt => gt | OpLe => negb gt | _ => negb lt end))
              end
          end
      | _, _ => Err
      end
  end.

(* ---- known-finding class: a bare number compared with a Quantity -------------------------------------
   Normalize gives the number the quantity's own unit (5 = 5 'mg' is true); FHIRPath's implicit
   conversion gives it the unit '1'.  KF-C05-1. *)
Definition is_num (v : sval) := match v with VInt _ | VDec _ _ => true | _ => false end.
Definition is_qty (v : sval) := match v with VQty _ _ _ => true | _ => false end.
Definition kf_pair (a b : sval) : bool := (is_num a && is_qty b) || (is_qty a && is_num b).

(* ---- the property on collections of any length -------------------------------------------------------- *)
(* item equality for collection comparison *)
Definition item_eq_ref (a b : sval) : option bool :=
  match cmp_ref a b with RCmp CEq => Some true | RCmp CUnknown => None | _ => Some false end.
Fixpoint coll_eq_ref_pairs (l r : list sval) : option bool :=
  match l, r with
  | a :: l', b :: r' =>
      match item_eq_ref a b with
      | Some false => Some false
      | None => None
      | Some true => coll_eq_ref_pairs l' r'
      end
  | _, _ => Some true
  end.
Definition spec_op (o : op) (l r : list sval) : ores :=
  match l, r with
  | [], _ | _, [] => Ok None
  | _, _ =>
      match o with
      | OpEq | OpNe =>
          if negb (Nat.eqb (length l) (length r)) then Ok (Some (match o with OpNe => true | _ => false end))
          else match coll_eq_ref_pairs l r with
               | None => Ok None
               | Some b => Ok (Some (match o with OpNe => negb b | _ => b end))
               end
      | _ => match l, r with [a], [b] => ref_op o a b | _, _ => Err end
      end
  end.

Definition ores_eqb (a b : ores) : bool :=
  res_eqb (fun x y => match x, y with None, None => true | Some u, Some v => Bool.eqb u v | _, _ => false end) a b.

Definition case := (op * list sval * list sval)%type.
Definition model (c : case) : ores := let '(o, l, r) := c in model_op o l r.
Definition holds (c : case) (o : ores) : bool := let '(p, l, r) := c in ores_eqb (spec_op p l r) o.
Fixpoint any_kf_pair (l r : list sval) : bool :=
  match l, r with a :: l', b :: r' => kf_pair a b || any_kf_pair l' r' | _, _ => false end.
Definition kf (c : case) : N := let '(_, l, r) := c in if any_kf_pair l r then 1%N else 0%N.

Definition judge (x : N * case * ores) : verdict :=
  let '(id, c, o) := x in
  {| v_id := id; v_agree := ores_eqb (model c) o; v_holds := holds c o; v_kf := kf c |}.
