From FPV Require Import Base.Prelude C08.Model C05.Model.

(* ---- generic facts about three-way comparisons ------------------------------------------------ *)
Definition flip (c : cmp) : cmp := match c with CLt => CGt | CGt => CLt | x => x end.

Lemma cmp_Z_flip a b : cmp_Z b a = flip (cmp_Z a b).
Proof. unfold cmp_Z. destruct (a <? b) eqn:E1, (b <? a) eqn:E2, (a =? b) eqn:E3, (b =? a) eqn:E4; cbn; try reflexivity; lia. Qed.
Lemma cmp_Z_eq a b : cmp_Z a b = CEq <-> a = b.
Proof. unfold cmp_Z. destruct (a <? b) eqn:E1, (a =? b) eqn:E3; split; intro H; try discriminate; try reflexivity; lia. Qed.
Lemma cmp_Z_lt a b : cmp_Z a b = CLt <-> a < b.
Proof. unfold cmp_Z. destruct (a <? b) eqn:E1, (a =? b) eqn:E3; split; intro H; try discriminate; try reflexivity; lia. Qed.
Lemma cmp_Z_gt a b : cmp_Z a b = CGt <-> b < a.
Proof. unfold cmp_Z. destruct (a <? b) eqn:E1, (a =? b) eqn:E3; split; intro H; try discriminate; try reflexivity; lia. Qed.
Lemma cmp_Z_not_unknown a b : cmp_Z a b <> CUnknown.
Proof. unfold cmp_Z. destruct (a <? b), (a =? b); discriminate. Qed.

Lemma align_sym c1 e1 c2 e2 : align c2 e2 c1 e1 = let '(a, b, m) := align c1 e1 c2 e2 in (b, a, m).
Proof. unfold align. rewrite (Z.min_comm e2 e1). reflexivity. Qed.
Lemma cmp_dec_flip c1 e1 c2 e2 : cmp_dec c2 e2 c1 e1 = flip (cmp_dec c1 e1 c2 e2).
Proof. unfold cmp_dec. rewrite align_sym. destruct (align c1 e1 c2 e2) as [[a b] m]. apply cmp_Z_flip. Qed.
Lemma cmp_dec_eq_dec_eqb c1 e1 c2 e2 : dec_eqb c1 e1 c2 e2 = match cmp_dec c1 e1 c2 e2 with CEq => true | _ => false end.
Proof.
  unfold dec_eqb, cmp_dec. destruct (align c1 e1 c2 e2) as [[a b] m]. unfold cmp_Z.
  destruct (a <? b) eqn:E1, (a =? b) eqn:E2; try reflexivity; lia.
Qed.
Lemma cmp_dec_not_unknown c1 e1 c2 e2 : cmp_dec c1 e1 c2 e2 <> CUnknown.
Proof. unfold cmp_dec. destruct (align c1 e1 c2 e2) as [[a b] m]. apply cmp_Z_not_unknown. Qed.

Lemma cmp_str_flip a : forall b, cmp_str b a = flip (cmp_str a b).
Proof.
  induction a as [|x a IH]; intros [|y b]; cbn [cmp_str]; try reflexivity.
  destruct (x <? y)%N eqn:E1, (y <? x)%N eqn:E2; cbn; try reflexivity; try lia. apply IH.
Qed.
Lemma cmp_str_eq a : forall b, ustr_eqb a b = match cmp_str a b with CEq => true | _ => false end.
Proof.
  induction a as [|x a IH]; intros [|y b]; cbn [cmp_str ustr_eqb]; try reflexivity.
  destruct (x <? y)%N eqn:E1, (y <? x)%N eqn:E2; try (assert (E : (x =? y)%N = false) by lia; rewrite E; reflexivity).
  assert (E : (x =? y)%N = true) by lia. rewrite E. cbn. apply IH.
Qed.
Lemma cmp_str_not_unknown a : forall b, cmp_str a b <> CUnknown.
Proof. induction a as [|x a IH]; intros [|y b]; cbn; try discriminate. destruct (x <? y)%N, (y <? x)%N; try discriminate. apply IH. Qed.

Lemma cmp_comps_flip a : forall b, cmp_comps b a = flip (cmp_comps a b).
Proof.
  induction a as [|x a IH]; intros [|y b]; cbn [cmp_comps]; try reflexivity.
  destruct (x <? y) eqn:E1, (y <? x) eqn:E2; cbn; try reflexivity; try lia. apply IH.
Qed.

Lemma flip_involutive c : flip (flip c) = c. Proof. destruct c; reflexivity. Qed.

(* ---- transitivity of < on each carrier -------------------------------------------------------------- *)
Lemma cmp_str_lt_trans a : forall b c, cmp_str a b = CLt -> cmp_str b c = CLt -> cmp_str a c = CLt.
Proof.
  induction a as [|x a IH]; intros [|y b] [|z c]; cbn [cmp_str]; try discriminate; try reflexivity.
  destruct (x <? y)%N eqn:E1, (y <? x)%N eqn:E2; try discriminate; try lia;
  destruct (y <? z)%N eqn:E3, (z <? y)%N eqn:E4; try discriminate; try lia; intros H1 H2.
  - assert (E : (x <? z)%N = true) by lia. rewrite E. reflexivity.
  - assert (E : (x <? z)%N = true) by lia. rewrite E. reflexivity.
  - assert (E : (x <? z)%N = true) by lia. rewrite E. reflexivity.
  - assert (E : (x <? z)%N = false) by lia. assert (E' : (z <? x)%N = false) by lia. rewrite E, E'. exact (IH b c H1 H2).
Qed.
Lemma cmp_comps_lt_trans a : forall b c, cmp_comps a b = CLt -> cmp_comps b c = CLt -> cmp_comps a c = CLt.
Proof.
  induction a as [|x a IH]; intros [|y b] [|z c]; cbn [cmp_comps]; try discriminate; try reflexivity.
  destruct (x <? y) eqn:E1, (y <? x) eqn:E2; try discriminate; try lia;
  destruct (y <? z) eqn:E3, (z <? y) eqn:E4; try discriminate; try lia; intros H1 H2.
  - assert (E : x <? z = true) by lia. rewrite E. reflexivity.
  - assert (E : x <? z = true) by lia. rewrite E. reflexivity.
  - assert (E : x <? z = true) by lia. rewrite E. reflexivity.
  - assert (E : x <? z = false) by lia. assert (E' : z <? x = false) by lia. rewrite E, E'. exact (IH b c H1 H2).
Qed.

(* decimals: comparing at any common scale k <= min e1 e2 gives the same answer *)
Lemma pow10_nonneg n : 0 <= n -> pow10 n = 10 ^ n.
Proof. intro H. unfold pow10. assert (E : n <? 0 = false) by lia. rewrite E. reflexivity. Qed.
Lemma cmp_Z_scale a b p : 0 < p -> cmp_Z (a * p) (b * p) = cmp_Z a b.
Proof.
  intro Hp. unfold cmp_Z.
  destruct (a <? b) eqn:E1; [assert (E : a * p <? b * p = true) by nia; rewrite E; reflexivity|].
  assert (E : a * p <? b * p = false) by nia. rewrite E.
  destruct (a =? b) eqn:E2; [assert (E' : a * p =? b * p = true) by nia; rewrite E'; reflexivity|].
  assert (E' : a * p =? b * p = false) by nia. rewrite E'. reflexivity.
Qed.
Lemma cmp_dec_scale c1 e1 c2 e2 k : k <= Z.min e1 e2 ->
  cmp_dec c1 e1 c2 e2 = cmp_Z (c1 * 10 ^ (e1 - k)) (c2 * 10 ^ (e2 - k)).
Proof.
  intro Hk. unfold cmp_dec, align. set (m := Z.min e1 e2).
  rewrite !pow10_nonneg by lia.
  replace (e1 - k) with ((e1 - m) + (m - k)) by lia. replace (e2 - k) with ((e2 - m) + (m - k)) by lia.
  rewrite !Z.pow_add_r by lia. rewrite !Z.mul_assoc. symmetry. apply cmp_Z_scale. apply Z.pow_pos_nonneg; lia.
Qed.
Lemma cmp_dec_lt_trans c1 e1 c2 e2 c3 e3 :
  cmp_dec c1 e1 c2 e2 = CLt -> cmp_dec c2 e2 c3 e3 = CLt -> cmp_dec c1 e1 c3 e3 = CLt.
Proof.
  set (k := Z.min e1 (Z.min e2 e3)).
  rewrite (cmp_dec_scale c1 e1 c2 e2 k) by lia. rewrite (cmp_dec_scale c2 e2 c3 e3 k) by lia. rewrite (cmp_dec_scale c1 e1 c3 e3 k) by lia.
  rewrite !cmp_Z_lt. lia.
Qed.

(* ---- the model equals the reference outside the known-finding class ------------------------------------ *)
Lemma cmp_dec_int x y : cmp_dec x 0 y 0 = cmp_Z x y.
Proof. unfold cmp_dec, align. cbn. rewrite !Z.mul_1_r. reflexivity. Qed.
Lemma dec_eqb_int x y : dec_eqb x 0 y 0 = (x =? y).
Proof. unfold dec_eqb, align. cbn. rewrite !Z.mul_1_r. reflexivity. Qed.
Lemma cmp_Z_eqb x y : (x =? y) = match cmp_Z x y with CEq => true | _ => false end.
Proof. unfold cmp_Z. destruct (x <? y) eqn:E1, (x =? y) eqn:E2; try reflexivity; lia. Qed.
Lemma cmp_Z_ltb x y : (x <? y) = match cmp_Z x y with CLt => true | _ => false end.
Proof. unfold cmp_Z. destruct (x <? y) eqn:E1, (x =? y) eqn:E2; try reflexivity; lia. Qed.

Ltac cmp_cases c := let E := fresh "E" in destruct c eqn:E; cbn; try reflexivity.

Ltac by_cmp_str := match goal with |- context [cmp_str ?x ?y] => pose proof (cmp_str_not_unknown x y); destruct (cmp_str x y) end; try reflexivity; try contradiction.
Ltac by_cmp_Z := match goal with |- context [cmp_Z ?x ?y] => pose proof (cmp_Z_not_unknown x y); destruct (cmp_Z x y) end; try reflexivity; try contradiction.
Ltac by_cmp_dec := match goal with |- context [cmp_dec ?a ?b ?c ?d] => pose proof (cmp_dec_not_unknown a b c d); destruct (cmp_dec a b c d) end; try reflexivity; try contradiction.
Ltac by_cmp_comps := match goal with |- context [cmp_comps ?x ?y] => destruct (cmp_comps x y) end; try reflexivity.

Lemma item_try_ref a b : kf_pair a b = false -> item_try a b = item_eq_ref a b.
Proof.
  intro Hkf. destruct a as [x|x|x|c1 e1|x|x|x|c1 e1 u1|x], b as [y|y|y|c2 e2|y|y|y|c2 e2 u2|y];
    cbn in Hkf; try discriminate; unfold item_try, item_eq_ref; cbn [is_primitive is_complex negb Bool.eqb try_equal normalize cmp_ref num_of]; try reflexivity.
  all: try (destruct (Bool.eqb _ _); reflexivity).
  all: try (rewrite cmp_str_eq; by_cmp_str).
  all: try (rewrite cmp_dec_int, cmp_Z_eqb; by_cmp_Z).
  all: try (destruct (N.eqb u1 u2); [|reflexivity]).
  all: try (rewrite cmp_dec_eq_dec_eqb; by_cmp_dec).
  all: try by_cmp_comps.
  all: try (destruct (N.eqb _ _); reflexivity).
Qed.

Lemma coll_pairs_ref l : forall r, any_kf_pair l r = false -> coll_try_equal_pairs l r = coll_eq_ref_pairs l r.
Proof.
  induction l as [|a l IH]; intros [|b r] H; try reflexivity.
  cbn [any_kf_pair] in H. apply orb_false_iff in H as [H1 H2]. cbn [coll_try_equal_pairs coll_eq_ref_pairs].
  rewrite (item_try_ref a b H1). destruct (item_eq_ref a b) as [[|]|]; try reflexivity. exact (IH r H2).
Qed.

(* ordering: what Less answers in both directions, against the reference *)
Lemma less_ref a b : kf_pair a b = false -> is_bool a || is_bool b || is_complex a || is_complex b = false ->
  let a' := normalize a b in let b' := normalize b a in
  match cmp_ref a b with
  | RCmp CUnknown => less a' b' = LUnknown
  | RCmp c => less a' b' = LOk (match c with CLt => true | _ => false end) /\ less b' a' = LOk (match c with CGt => true | _ => false end)
  | _ => less a' b' = LErr
  end.
Proof.
  intros Hkf Hb. destruct a as [x|x|x|c1 e1|x|x|x|c1 e1 u1|x], b as [y|y|y|c2 e2|y|y|y|c2 e2 u2|y];
    cbn in Hkf, Hb; try discriminate; cbn [normalize cmp_ref num_of less]; try reflexivity.
  all: try (rewrite (cmp_str_flip x y); pose proof (cmp_str_not_unknown x y); destruct (cmp_str x y); try contradiction; split; reflexivity).
  all: try (rewrite cmp_dec_int, !cmp_Z_ltb, (cmp_Z_flip x y); pose proof (cmp_Z_not_unknown x y); destruct (cmp_Z x y); try contradiction; split; reflexivity).
  all: try (rewrite (N.eqb_sym u2 u1); destruct (N.eqb u1 u2); [|reflexivity]).
  all: try (match goal with |- context [cmp_dec ?p ?q ?r ?t] => rewrite (cmp_dec_flip p q r t); pose proof (cmp_dec_not_unknown p q r t); destruct (cmp_dec p q r t) end; try contradiction; split; reflexivity).
  all: try (rewrite (cmp_comps_flip x y); destruct (cmp_comps x y); try split; reflexivity).
Qed.

Lemma ores_eqb_refl o : ores_eqb o o = true.
Proof. destruct o as [[[|]|]| |]; reflexivity. Qed.

Lemma model_is_spec_eq (neg : bool) l r : any_kf_pair l r = false ->
  model_op (if neg then OpNe else OpEq) l r = spec_op (if neg then OpNe else OpEq) l r.
Proof.
  intro Hkf. destruct l as [|a l]; [destruct neg; reflexivity|]. destruct r as [|b r]; [destruct neg; reflexivity|].
  assert (H : forall o, (o = OpEq \/ o = OpNe) -> model_op o (a :: l) (b :: r) = spec_op o (a :: l) (b :: r)).
  { intros o Ho. unfold model_op, spec_op, coll_try_equal.
    destruct Ho as [-> | ->];
    (destruct (negb (Nat.eqb (length (a :: l)) (length (b :: r)))); [reflexivity|];
     rewrite (coll_pairs_ref (a :: l) (b :: r) Hkf); destruct (coll_eq_ref_pairs (a :: l) (b :: r)) as [[|]|]; reflexivity). }
  destruct neg; apply H; auto.
Qed.

Lemma model_is_spec_ord o a b : (o = OpLt \/ o = OpLe \/ o = OpGt \/ o = OpGe) -> kf_pair a b = false ->
  model_op o [a] [b] = ref_op o a b.
Proof.
  intros Ho Hkf.
  assert (Hm : model_op o [a] [b] =
          if is_complex a || is_complex b then Err else
          match less (normalize a b) (normalize b a) with
          | LUnknown => Ok None | LErr => Err
          | LOk lt => match less (normalize b a) (normalize a b) with
                      | LUnknown => Ok None | LErr => Err
                      | LOk gt => Ok (Some (match o with OpLt => lt | OpGt => gt | OpLe => negb gt | _ => negb lt end))
                      end
          end) by (destruct Ho as [-> |[-> |[-> | ->]]]; reflexivity).
  rewrite Hm. clear Hm.
  assert (Hr : ref_op o a b =
          if is_bool a || is_bool b || is_complex a || is_complex b then Err
          else match cmp_ref a b with
               | RCmp CUnknown => Ok None
               | RCmp c => Ok (Some (match o, c with
                                     | OpLt, CLt | OpGt, CGt => true
                                     | OpLe, (CLt | CEq) | OpGe, (CGt | CEq) => true
                                     | _, _ => false end))
               | RNe | RMismatch => Err
               end) by (destruct Ho as [-> |[-> |[-> | ->]]]; reflexivity).
  rewrite Hr. clear Hr.
  destruct (is_bool a || is_bool b || is_complex a || is_complex b) eqn:Hb.
  - destruct (is_complex a || is_complex b) eqn:Hc; [reflexivity|].
    destruct a, b; cbn in Hb, Hc; try discriminate; reflexivity.
  - assert (Hc : is_complex a || is_complex b = false) by (destruct (is_bool a), (is_bool b), (is_complex a), (is_complex b); cbn in Hb; try discriminate; reflexivity).
    rewrite Hc. pose proof (less_ref a b Hkf Hb) as H. cbn zeta in H.
    destruct (cmp_ref a b) as [[| | |]| |]; try (destruct H as [H1 H2]; rewrite H1, H2; destruct Ho as [-> |[-> |[-> | ->]]]; reflexivity); rewrite H; reflexivity.
Qed.

Theorem model_is_spec o l r : any_kf_pair l r = false -> model_op o l r = spec_op o l r.
Proof.
  intro Hkf. destruct o.
  - exact (model_is_spec_eq false l r Hkf).
  - exact (model_is_spec_eq true l r Hkf).
  - destruct l as [|a [|a2 l]]; [reflexivity| |destruct r as [|b [|b2 r]]; reflexivity].
    destruct r as [|b [|b2 r]]; [reflexivity| |reflexivity].
    cbn [any_kf_pair] in Hkf. rewrite orb_false_r in Hkf. rewrite model_is_spec_ord by auto. reflexivity.
  - destruct l as [|a [|a2 l]]; [reflexivity| |destruct r as [|b [|b2 r]]; reflexivity].
    destruct r as [|b [|b2 r]]; [reflexivity| |reflexivity].
    cbn [any_kf_pair] in Hkf. rewrite orb_false_r in Hkf. rewrite model_is_spec_ord by auto. reflexivity.
  - destruct l as [|a [|a2 l]]; [reflexivity| |destruct r as [|b [|b2 r]]; reflexivity].
    destruct r as [|b [|b2 r]]; [reflexivity| |reflexivity].
    cbn [any_kf_pair] in Hkf. rewrite orb_false_r in Hkf. rewrite model_is_spec_ord by auto. reflexivity.
  - destruct l as [|a [|a2 l]]; [reflexivity| |destruct r as [|b [|b2 r]]; reflexivity].
    destruct r as [|b [|b2 r]]; [reflexivity| |reflexivity].
    cbn [any_kf_pair] in Hkf. rewrite orb_false_r in Hkf. rewrite model_is_spec_ord by auto. reflexivity.
Qed.

Theorem holds_model c : kf c = 0%N -> holds c (model c) = true.
Proof.
  destruct c as [[o l] r]. unfold kf, holds, model. destruct (any_kf_pair l r) eqn:E; [discriminate|]. intros _.
  rewrite (model_is_spec o l r E). apply ores_eqb_refl.
Qed.

(* ---- laws of the reference order (hence of the model outside the finding) ----------------------------- *)
Definition flipr (r : refcmp) : refcmp := match r with RCmp c => RCmp (flip c) | x => x end.
Lemma cmp_ref_flip a b : cmp_ref b a = flipr (cmp_ref a b).
Proof.
  destruct a as [x|x|x|c1 e1|x|x|x|c1 e1 u1|x], b as [y|y|y|c2 e2|y|y|y|c2 e2 u2|y]; cbn [cmp_ref num_of flipr]; try reflexivity.
  all: try (destruct x, y; reflexivity).
  all: try (rewrite (cmp_str_flip x y); reflexivity).
  all: try (rewrite (N.eqb_sym u2 u1); destruct (N.eqb u1 u2); [|reflexivity]).
  all: try (destruct (N.eqb _ 1); [|reflexivity]).
  all: try (match goal with |- RCmp (cmp_dec ?p ?q ?r ?t) = _ => rewrite (cmp_dec_flip r t p q) end; reflexivity).
  all: try (rewrite (cmp_comps_flip x y); reflexivity).
  all: try (rewrite (N.eqb_sym y x); destruct (N.eqb x y); reflexivity).
Qed.

Definition omap (f : bool -> bool) (r : ores) : ores :=
  match r with Ok (Some b) => Ok (Some (f b)) | x => x end.

Lemma eq_sym_ref a b : ref_op OpEq a b = ref_op OpEq b a.
Proof. unfold ref_op. rewrite (cmp_ref_flip a b). destruct (cmp_ref a b) as [[| | |]| |]; reflexivity. Qed.
Lemma ne_is_negation a b : ref_op OpNe a b = omap negb (ref_op OpEq a b).
Proof. unfold ref_op. destruct (cmp_ref a b) as [[| | |]| |]; reflexivity. Qed.
Lemma lt_gt_converse a b : ref_op OpLt a b = ref_op OpGt b a.
Proof.
  unfold ref_op. rewrite (cmp_ref_flip a b).
  replace (is_bool b || is_bool a || is_complex b || is_complex a) with (is_bool a || is_bool b || is_complex a || is_complex b)
    by (destruct (is_bool a), (is_bool b), (is_complex a), (is_complex b); reflexivity).
  destruct (is_bool a || is_bool b || is_complex a || is_complex b); [reflexivity|].
  destruct (cmp_ref a b) as [[| | |]| |]; reflexivity.
Qed.
Lemma le_iff_not_gt a b : ref_op OpLe a b = omap negb (ref_op OpGt a b).
Proof.
  unfold ref_op. destruct (is_bool a || is_bool b || is_complex a || is_complex b); [reflexivity|].
  destruct (cmp_ref a b) as [[| | |]| |]; reflexivity.
Qed.
Lemma ge_iff_not_lt a b : ref_op OpGe a b = omap negb (ref_op OpLt a b).
Proof.
  unfold ref_op. destruct (is_bool a || is_bool b || is_complex a || is_complex b); [reflexivity|].
  destruct (cmp_ref a b) as [[| | |]| |]; reflexivity.
Qed.
(* at most one of <, =, > holds *)
Lemma at_most_one a b :
  let t o := match ref_op o a b with Ok (Some true) => true | _ => false end in
  (t OpLt && t OpEq = false) /\ (t OpLt && t OpGt = false) /\ (t OpEq && t OpGt = false).
Proof.
  cbn zeta. unfold ref_op. destruct (is_bool a || is_bool b || is_complex a || is_complex b);
  destruct (cmp_ref a b) as [[| | |]| |]; repeat split; reflexivity.
Qed.

Lemma lt_true_inv a b : ref_op OpLt a b = Ok (Some true) ->
  cmp_ref a b = RCmp CLt /\ is_bool a || is_bool b || is_complex a || is_complex b = false.
Proof.
  unfold ref_op. destruct (is_bool a || is_bool b || is_complex a || is_complex b); [discriminate|].
  destruct (cmp_ref a b) as [[| | |]| |]; try discriminate. intros _. split; reflexivity.
Qed.

Lemma cmp_ref_lt_trans a b c : cmp_ref a b = RCmp CLt -> cmp_ref b c = RCmp CLt -> cmp_ref a c = RCmp CLt.
Proof.
  destruct a as [x|x|x|c1 e1|x|x|x|c1 e1 u1|x], b as [y|y|y|c2 e2|y|y|y|c2 e2 u2|y]; cbn [cmp_ref num_of]; try discriminate;
  try (destruct (Bool.eqb _ _); discriminate); try (destruct (N.eqb x y); discriminate);
  destruct c as [z|z|z|c3 e3|z|z|z|c3 e3 u3|z]; cbn [cmp_ref num_of]; try discriminate;
  try (destruct (Bool.eqb _ _); discriminate); try (destruct (N.eqb _ _); discriminate).
  all: try (intros H1 H2; injection H1 as H1; injection H2 as H2; f_equal; exact (cmp_str_lt_trans _ _ _ H1 H2)).
  all: try (intros H1 H2; injection H1 as H1; injection H2 as H2; f_equal; exact (cmp_comps_lt_trans _ _ _ H1 H2)).
  all: repeat match goal with |- context [N.eqb ?p ?q] => let E := fresh "E" in destruct (N.eqb p q) eqn:E; try discriminate end.
  all: try (intros H1 H2; injection H1 as H1; injection H2 as H2; f_equal; exact (cmp_dec_lt_trans _ _ _ _ _ _ H1 H2)).
  all: repeat match goal with H : N.eqb _ _ = true |- _ => apply N.eqb_eq in H | H : N.eqb _ _ = false |- _ => apply N.eqb_neq in H end; subst; try congruence.
Qed.

Theorem lt_trans a b c : ref_op OpLt a b = Ok (Some true) -> ref_op OpLt b c = Ok (Some true) -> ref_op OpLt a c = Ok (Some true).
Proof.
  intros H1 H2. apply lt_true_inv in H1 as [H1 B1]. apply lt_true_inv in H2 as [H2 B2].
  unfold ref_op. rewrite (cmp_ref_lt_trans a b c H1 H2).
  assert (B : is_bool a || is_bool c || is_complex a || is_complex c = false)
    by (destruct (is_bool a), (is_bool b), (is_bool c), (is_complex a), (is_complex b), (is_complex c); cbn in *; try discriminate; reflexivity).
  rewrite B. reflexivity.
Qed.

Lemma empty_operand_gives_empty o l : spec_op o [] l = Ok None /\ spec_op o l [] = Ok None.
Proof. split; destruct o, l; reflexivity. Qed.

(* two collections are equal iff same length and every corresponding pair is equal -- every pair *)
Lemma coll_eq_every_pair l : forall r, length l = length r ->
  (coll_eq_ref_pairs l r = Some true <-> Forall2 (fun a b => item_eq_ref a b = Some true) l r).
Proof.
  induction l as [|a l IH]; intros [|b r] Hlen; cbn in Hlen; try discriminate.
  - split; [constructor|reflexivity].
  - cbn [coll_eq_ref_pairs]. split.
    + destruct (item_eq_ref a b) as [[|]|] eqn:E; try discriminate. intro H. constructor; [exact E|]. apply IH; [lia|exact H].
    + intro H. inversion H; subst. rewrite H3. apply IH; [lia|assumption].
Qed.
Lemma coll_eq_false_at_a_pair l : forall r, coll_eq_ref_pairs l r = Some false -> exists a b, In a l /\ In b r /\ item_eq_ref a b = Some false.
Proof.
  induction l as [|a l IH]; intros [|b r]; cbn [coll_eq_ref_pairs]; try discriminate.
  destruct (item_eq_ref a b) as [[|]|] eqn:E; try discriminate.
  - intro H. destruct (IH r H) as [x [y [Hx [Hy Hxy]]]]. exists x, y. repeat split; [right; exact Hx|right; exact Hy|exact Hxy].
  - intros _. exists a, b. repeat split; [left; reflexivity|left; reflexivity|exact E].
Qed.
