From FPV Require Import Base.Prelude C16.Model.
From Coq Require Import String.

Lemma lookup_in t n e : lookup t n = Some e -> In e t /\ e_name e = n.
Proof.
  induction t as [|e0 t IH]; cbn; [discriminate|].
  destruct (String.eqb (e_name e0) n) eqn:E.
  - intro H; inversion H; subst. split; [left; reflexivity|apply String.eqb_eq; exact E].
  - intro H. destruct (IH H) as [H1 H2]. split; [right; exact H1|exact H2].
Qed.
Lemma lookup_none t n : lookup t n = None -> forall e, In e t -> e_name e <> n.
Proof.
  induction t as [|e0 t IH]; cbn; intros H e He; [contradiction|].
  destruct (String.eqb (e_name e0) n) eqn:E; [discriminate|].
  destruct He as [<-|He]; [apply String.eqb_neq; exact E|exact (IH H e He)].
Qed.
Lemma lookup_unique t : names_unique t = true -> forall e, In e t -> lookup t (e_name e) = Some e.
Proof.
  induction t as [|e0 t IH]; cbn; intros Hu e He; [contradiction|].
  destruct (lookup t (e_name e0)) eqn:L0; [discriminate|].
  destruct He as [<-|He].
  - rewrite String.eqb_refl. reflexivity.
  - destruct (String.eqb (e_name e0) (e_name e)) eqn:E.
    + apply String.eqb_eq in E. exfalso. exact (lookup_none t _ L0 e He (eq_sym E)).
    + exact (IH Hu e He).
Qed.

(* Compile accepts a call exactly when the name is in the table and the count is within bounds *)
Lemma accepts_iff t name k : names_unique t = true ->
  (visit_function t name k = Accepted <->
   exists e, In e t /\ e_name e = name /\ e_min e <= k <= e_max e).
Proof.
  intro Hu. unfold visit_function. split.
  - destruct (lookup t name) as [e|] eqn:L; [|discriminate].
    destruct ((k <? e_min e) || (e_max e <? k)) eqn:B; [discriminate|]. intros _.
    apply lookup_in in L as [H1 H2]. exists e. repeat split; try assumption; lia.
  - intros [e [He [Hn Hb]]]. subst name. rewrite (lookup_unique t Hu e He).
    assert (B : (k <? e_min e) || (e_max e <? k) = false) by lia. rewrite B. reflexivity.
Qed.
Lemma unknown_name_rejected t name k : (forall e, In e t -> e_name e <> name) -> visit_function t name k = RejectedUnresolved.
Proof.
  intro H. unfold visit_function. destruct (lookup t name) as [e|] eqn:L; [|reflexivity].
  apply lookup_in in L as [H1 H2]. exfalso. exact (H e H1 H2).
Qed.

(* merging the experimental table never changes what a base name means *)
Lemma merge_keeps_base base exp n e : lookup base n = Some e -> lookup (merge_experimental base exp) n = Some e.
Proof.
  unfold merge_experimental. generalize (filter (fun e0 : entry => match lookup base (e_name e0) with Some _ => false | None => true end) exp) as tl.
  induction base as [|e0 b IH]; cbn; intros tl; [discriminate|].
  destruct (String.eqb (e_name e0) n); [auto|]. apply IH.
Qed.
Lemma lookup_app_none a b n : lookup a n = None -> lookup (a ++ b) n = lookup b n.
Proof. induction a as [|e0 a IH]; cbn; [reflexivity|]. destruct (String.eqb (e_name e0) n); [discriminate|exact IH]. Qed.

(* an outcome the model agrees with satisfies the property unless it is an arity complaint
   at evaluation (which is exactly what the property forbids) *)
Lemma agrees_holds base exp c o : agrees base exp c o = true -> o <> OAcceptedArity -> holds base exp c o = true.
Proof.
  destruct c as [[x n] k]. unfold agrees, holds.
  destruct (visit_function _ n k); try (intros H _; exact H).
  destruct (lookup _ n) as [e|]; [|intros H _; exact H].
  destruct (implemented e); destruct o; intros H Ha; try discriminate; try reflexivity; exfalso; apply Ha; reflexivity.
Qed.
