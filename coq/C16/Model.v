(* C16/Model.v -- the function table and VisitFunction's compile-time check.

   Mirrors:
     internal/parser/visitor.go:452 VisitFunction      -> visit_function
     internal/funcs/table.go baseTable/experimentalTable -> a parameter `tbl` of every definition;
        the concrete tables are regenerated from source by go2v (RUN.Gen_functable) on every run
     internal/funcs/table.go AddExperimentalFuncs        -> merge_experimental
     internal/funcs/function.go notImplemented           -> entries whose implementation is ""
   N1 is the function list of the FHIRPath N1 specification with the argument counts it allows
   (typed in by hand; trusted input). *)
From FPV Require Import Base.Prelude.
From Coq Require Import String Ascii.

Definition entry := (string * string * Z * Z)%type.     (* name, impl ("" = placeholder), min, max *)
Definition e_name (e : entry) : string := let '(n, _, _, _) := e in n.
Definition e_impl (e : entry) : string := let '(_, i, _, _) := e in i.
Definition e_min (e : entry) : Z := let '(_, _, a, _) := e in a.
Definition e_max (e : entry) : Z := let '(_, _, _, b) := e in b.
Definition table := list entry.

Fixpoint lookup (t : table) (n : string) : option entry :=
  match t with
  | [] => None
  | e :: t' => if String.eqb (e_name e) n then Some e else lookup t' n
  end.

(* AddExperimentalFuncs: existing names are not overridden *)
Definition merge_experimental (base exp : table) : table :=
  base ++ filter (fun e => match lookup base (e_name e) with Some _ => false | None => true end) exp.

Inductive compile_verdict := Accepted | RejectedUnresolved | RejectedArity.

Definition visit_function (t : table) (name : string) (k : Z) : compile_verdict :=
  match lookup t name with
  | None => RejectedUnresolved
  | Some e => if (k <? e_min e) || (e_max e <? k) then RejectedArity else Accepted
  end.

Definition implemented (e : entry) : bool := negb (String.eqb (e_impl e) ""%string).

(* first letter upper-cased: toQuantity -> ToQuantity *)
Definition upper_ascii (c : ascii) : ascii :=
  let n := nat_of_ascii c in
  if (Nat.leb 97 n && Nat.leb n 122)%bool then ascii_of_nat (n - 32) else c.
Definition capitalise (s : string) : string :=
  match s with EmptyString => s | String c r => String (upper_ascii c) r end.

(* ---- the N1 function list (name, allowed argument counts as an interval) --------- *)
Definition N1 : list (string * Z * Z) := ([
  ("empty",0,0); ("exists",0,1); ("all",1,1); ("allTrue",0,0); ("anyTrue",0,0); ("allFalse",0,0); ("anyFalse",0,0);
  ("subsetOf",1,1); ("supersetOf",1,1); ("count",0,0); ("distinct",0,0); ("isDistinct",0,0);
  ("where",1,1); ("select",1,1); ("repeat",1,1); ("ofType",1,1);
  ("single",0,0); ("first",0,0); ("last",0,0); ("tail",0,0); ("skip",1,1); ("take",1,1); ("intersect",1,1); ("exclude",1,1);
  ("union",1,1); ("combine",1,1);
  ("iif",2,3); ("toBoolean",0,0); ("convertsToBoolean",0,0); ("toInteger",0,0); ("convertsToInteger",0,0);
  ("toDate",0,0); ("convertsToDate",0,0); ("toDateTime",0,0); ("convertsToDateTime",0,0);
  ("toDecimal",0,0); ("convertsToDecimal",0,0); ("toQuantity",0,1); ("convertsToQuantity",0,1);
  ("toString",0,0); ("convertsToString",0,0); ("toTime",0,0); ("convertsToTime",0,0);
  ("indexOf",1,1); ("substring",1,2); ("startsWith",1,1); ("endsWith",1,1); ("contains",1,1); ("upper",0,0); ("lower",0,0);
  ("replace",2,2); ("matches",1,1); ("replaceMatches",2,2); ("length",0,0); ("toChars",0,0);
  ("abs",0,0); ("ceiling",0,0); ("exp",0,0); ("floor",0,0); ("ln",0,0); ("log",1,1); ("power",1,1); ("round",0,1);
  ("sqrt",0,0); ("truncate",0,0);
  ("children",0,0); ("descendants",0,0);
  ("trace",1,2); ("now",0,0); ("timeOfDay",0,0); ("today",0,0);
  ("not",0,0); ("is",1,1); ("as",1,1)
])%string.

(* every implemented entry is bound to the implementation of its own name *)
Definition bound_to_same_name (t : table) : bool :=
  forallb (fun e => negb (implemented e) || String.eqb (e_impl e) (capitalise (e_name e))) t.
(* placeholders carry arity 0..0 *)
Definition placeholders_zero_arity (t : table) : bool :=
  forallb (fun e => implemented e || ((e_min e =? 0) && (e_max e =? 0))) t.
(* every N1 name that the table implements has exactly the specification's bounds;
   every N1 name is either in the table or (is/as function forms) known to be absent *)
Definition n1_arities_match (t : table) : bool :=
  forallb (fun '(n, a, b) =>
             match lookup t n with
             | Some e => negb (implemented e) || ((e_min e =? a) && (e_max e =? b))
             | None => String.eqb n "is"%string || String.eqb n "as"%string
             end) N1.
(* names are unique and bounds are well-formed *)
Fixpoint names_unique (t : table) : bool :=
  match t with
  | [] => true
  | e :: t' => match lookup t' (e_name e) with Some _ => false | None => names_unique t' end
  end.
Definition bounds_wf (t : table) : bool := forallb (fun e => (0 <=? e_min e) && (e_min e <=? e_max e)) t.
(* every implemented table name outside N1 is one of the documented R4 additions *)
Definition extra_names (t : table) : list string :=
  map e_name (filter (fun e => negb (existsb (fun '(n, _, _) => String.eqb n (e_name e)) N1)) t).

(* ---- correspondence cases ------------------------------------------------------------ *)
Inductive outcome :=
| OAcceptedOk            (* compiled; evaluation returned a collection *)
| OAcceptedErr           (* compiled; evaluation returned an error that is not an arity complaint *)
| OAcceptedArity         (* compiled; evaluation failed with an arity complaint *)
| OAcceptedNotImpl       (* compiled; evaluation said "not yet implemented" *)
| ORejectedUnresolved
| ORejectedArity
| ORejectedOther
| OPanic.

Definition outcome_eqb (a b : outcome) : bool :=
  match a, b with
  | OAcceptedOk, OAcceptedOk | OAcceptedErr, OAcceptedErr | OAcceptedArity, OAcceptedArity
  | OAcceptedNotImpl, OAcceptedNotImpl | ORejectedUnresolved, ORejectedUnresolved
  | ORejectedArity, ORejectedArity | ORejectedOther, ORejectedOther | OPanic, OPanic => true
  | _, _ => false
  end.

(* case: experimental option on?, name, number of arguments *)
Definition case := (bool * string * Z)%type.

Definition table_for (base exp : table) (experimental : bool) : table :=
  if experimental then merge_experimental base exp else base.

(* what the model predicts: the compile verdict, and for placeholders the evaluation error *)
Definition agrees (base exp : table) (c : case) (o : outcome) : bool :=
  let '(x, n, k) := c in
  let t := table_for base exp x in
  match visit_function t n k with
  | RejectedUnresolved => outcome_eqb o ORejectedUnresolved
  | RejectedArity => outcome_eqb o ORejectedArity
  | Accepted =>
      match lookup t n with
      | Some e => if implemented e
                  then match o with OAcceptedOk | OAcceptedErr | OAcceptedArity => true | _ => false end
                  else outcome_eqb o OAcceptedNotImpl
      | None => false
      end
  end.

(* the property: accepted exactly per table and bounds; an accepted call never fails with an arity
   complaint; unimplemented names give an error, never a value *)
Definition holds (base exp : table) (c : case) (o : outcome) : bool :=
  let '(x, n, k) := c in
  let t := table_for base exp x in
  match visit_function t n k with
  | RejectedUnresolved => outcome_eqb o ORejectedUnresolved
  | RejectedArity => outcome_eqb o ORejectedArity
  | Accepted =>
      match lookup t n with
      | Some e => if implemented e
                  then match o with OAcceptedOk | OAcceptedErr => true | _ => false end
                  else match o with OAcceptedNotImpl | OAcceptedErr => true | _ => false end
      | None => false
      end
  end.

Definition judge (base exp : table) (x : N * case * outcome) : verdict :=
  let '(id, c, o) := x in
  {| v_id := id; v_agree := agrees base exp c o; v_holds := holds base exp c o; v_kf := 0%N |}.
