(* C01/Proofs.v -- no model of the development ever takes the outcome Panic. *)
From FPV Require Import Base.Prelude C01.Model.
From FPV Require C02.Model C02.Proofs C06.Model C06.Proofs C08.Model C18.Model C18.Proofs C19.Model C19.Proofs.

(* arithmetic: every operator on every pair of numbers, zero divisors and int32 limits included *)
Lemma int_or_empty_total z : C08.Model.int_or_empty z <> Panic.
Proof. unfold C08.Model.int_or_empty. destruct (in32b z); discriminate. Qed.
Lemma arith_total op a b : C08.Model.arith op a b <> Panic.
Proof.
  destruct a as [i|c e|], b as [j|c2 e2|]; cbn [C08.Model.arith]; try discriminate;
  destruct op; cbn [C08.Model.int_binop C08.Model.dec_binop];
  try apply int_or_empty_total; try discriminate;
  match goal with |- context [if ?x then _ else _] => destruct x end; try discriminate; apply int_or_empty_total.
Qed.
Lemma unary_total op a : C08.Model.unary op a <> Panic.
Proof.
  destruct op, a; cbn [C08.Model.unary]; try apply int_or_empty_total; try discriminate;
  repeat match goal with |- context [if ?x then _ else _] => destruct x end; try discriminate; try apply int_or_empty_total.
Qed.

(* navigation: every path over every tree and schema *)
Lemma navigate_total sc : forall p first items, C02.Model.navigate sc first p items <> Panic.
Proof.
  induction p as [|s p IH]; intros first items; [discriminate|].
  destruct s as [n|k]; cbn [C02.Model.navigate].
  - destruct (first && C19.Model.is_type n); [apply IH|].
    unfold C02.Model.field_step. destruct (forallb _ items); [apply IH|discriminate].
  - apply IH.
Qed.

(* FHIRPatch: the expected outcome of every call is a value or one of the seven error kinds, never a crash *)
Lemma value_error_codes cls w code : C18.Model.value_error cls w = Some code -> code = w \/ code = 2%N \/ code = 4%N.
Proof.
  unfold C18.Model.value_error. destruct (cls =? 1)%N; [intro H; inversion H; auto|].
  destruct (cls =? 2)%N; [intro H; inversion H; auto|]. destruct (cls =? 3)%N; [intro H; inversion H; auto|discriminate].
Qed.
Lemma patch_expected_never_crashes c t : C18.Model.o_eval_err c <> 10%N -> fst (C18.Model.expected c t) <> 10%N.
Proof.
  intro He. unfold C18.Model.expected.
  repeat (match goal with
          | |- context [match ?x with _ => _ end] => destruct x eqn:?
          end; cbn [fst snd]; try discriminate; try exact He).
  all: match goal with
       | H : C18.Model.value_error _ ?w = Some ?code |- _ =>
           destruct (value_error_codes _ _ _ H) as [-> | [-> | ->]]; discriminate
       end.
Qed.
