(* C01/Model.v -- totality: every call returns a value or an error.

   The content of C01 in the proof assistant is (a) that none of the models of the development -- arithmetic,
   navigation, boolean logic, conversions, the reference parsers, FHIRPatch -- ever takes the outcome Panic, on
   any input (Props/C01.v collects those theorems; each model is tied to the code by its own correspondence, which
   compares the panic outcome too), and (b) an inventory of every place where the source can panic by its own
   decision (explicit panic, Must* helper, unchecked type assertion), re-read by go2v on every run
   (Oblig/C01_gen.v).  What remains is observation: one case per call made by the harness. *)
From FPV Require Import Base.Prelude.

Inductive call_kind := KCompile | KEvaluate | KEvaluateAs | KPatch | KPatchCompile.
Record observed := { ob_kind : call_kind; ob_panicked : bool; ob_timed_out : bool }.
Definition case := N.             (* index of the call in the replay listing *)
Definition obs := observed.
Definition total (o : observed) : bool := negb (ob_panicked o) && negb (ob_timed_out o).
Definition agrees (c : case) (o : obs) : bool := total o.
Definition holds (c : case) (o : obs) : bool := total o.
Definition kf (c : case) : N := 0%N.
Definition judge (x : N * case * obs) : verdict :=
  let '(id, c, o) := x in
  {| v_id := id; v_agree := agrees c o; v_holds := holds c o; v_kf := kf c |}.
