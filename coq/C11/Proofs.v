(* C11/Proofs.v -- the precedence-climbing parser of C11/Model.v inverts the minimal-parenthesis printer.
   Proved here for the binary-operator core of the tree language (atoms, binary operators of every level,
   parenthesised sub-terms), for ANY precedence table, trees of ANY depth.  The proof follows the round-0
   spike: fuel monotonicity, then the key lemma "parsing the rendering of t at a level p0 <= p behaves like
   continuing the operator loop with t as the left operand". *)
From FPV Require Import Base.Prelude C11.Model.

Section P.
Variable T : ptable.

(* the binary core *)
Fixpoint binary_core (t : tree) : Prop :=
  match t with
  | Atom _ => True
  | Bin o l r => is_type_op T o = false /\ (prec T o <= p_invoke T)%nat /\ binary_core l /\ binary_core r
  | _ => False
  end.

(* ---- fuel monotonicity (all five mutually recursive functions at once) ------------------------------- *)
Lemma parse_qualified_mono f : forall ts x, parse_qualified f ts = Some x -> forall f', (f <= f')%nat -> parse_qualified f' ts = Some x.
Proof.
  induction f as [|f IH]; intros ts x H f' Hf; [discriminate|]. destruct f' as [|f']; [lia|]. cbn [parse_qualified] in *.
  destruct ts as [|[n| | | | | | |] rest]; try discriminate.
  destruct rest as [|[m| | | | | | |] rest']; try exact H.
  destruct rest' as [|[m| | | | | | |] rest'']; try exact H.
  destruct (parse_qualified f (TAtom m :: rest'')) as [[q r]|] eqn:E; [|discriminate].
  rewrite (IH _ _ E f') by lia. exact H.
Qed.


(* ---- unfolding equations (folded form of one step of each function) ------------------------------------- *)
Lemma parse_expr_S f p ts : parse_expr T (S f) p ts =
  match parse_prefix T f ts with Some (a, rest) => loop T f p a rest | None => None end.
Proof. reflexivity. Qed.
Lemma parse_prefix_S f ts : parse_prefix T (S f) ts =
    match ts with
    | TOp o :: rest =>
        if is_polarity T o then
          match parse_expr T f (p_polarity T) rest with
          | Some (e, rest') => Some (Pol o e, rest')
          | None => None
          end
        else None
    | TAtom a :: TLP :: TRP :: rest => Some (Call a [], rest)
    | TAtom a :: TLP :: rest =>
        match parse_args T f rest with
        | Some (args, rest') => Some (Call a args, rest')
        | None => None
        end
    | TAtom a :: rest => Some (Atom a, rest)
    | TLP :: rest =>
        match parse_expr T f 0 rest with
        | Some (t, TRP :: rest') => Some (t, rest')
        | _ => None
        end
    | _ => None
    end.
Proof. reflexivity. Qed.
Lemma parse_args_S f ts : parse_args T (S f) ts =
    match parse_expr T f 0 ts with
    | Some (e, TRP :: rest) => Some ([e], rest)
    | Some (e, TComma :: rest) =>
        match parse_args T f rest with
        | Some (es, rest') => Some (e :: es, rest')
        | None => None
        end
    | _ => None
    end.
Proof. reflexivity. Qed.
Lemma loop_S f p lhs ts : loop T (S f) p lhs ts =
    match ts with
    | TDot :: TAtom n :: TLP :: TRP :: rest =>
        if Nat.leb p (p_invoke T) then loop T f p (Invoke lhs n []) rest else Some (lhs, ts)
    | TDot :: TAtom n :: TLP :: rest =>
        if Nat.leb p (p_invoke T) then
          match parse_args T f rest with
          | Some (args, rest') => loop T f p (Invoke lhs n args) rest'
          | None => None
          end
        else Some (lhs, ts)
    | TDot :: TAtom n :: rest =>
        if Nat.leb p (p_invoke T) then loop T f p (Member lhs n) rest else Some (lhs, ts)
    | TLB :: rest =>
        if Nat.leb p (p_index T) then
          match parse_expr T f 0 rest with
          | Some (i, TRB :: rest') => loop T f p (Index lhs i) rest'
          | _ => None
          end
        else Some (lhs, ts)
    | TOp o :: rest =>
        if Nat.leb p (prec T o) then
          if is_type_op T o then
            match parse_qualified f rest with
            | Some (ty, rest') => loop T f p (TypeOp o lhs ty) rest'
            | None => None
            end
          else
            match parse_expr T f (S (prec T o)) rest with
            | Some (rhs, rest') => loop T f p (Bin o lhs rhs) rest'
            | None => None
            end
        else Some (lhs, ts)
    | _ => Some (lhs, ts)
    end.
Proof. reflexivity. Qed.

Lemma mono : forall f,
  (forall p ts x, parse_expr T f p ts = Some x -> forall f', (f <= f')%nat -> parse_expr T f' p ts = Some x) /\
  (forall ts x, parse_prefix T f ts = Some x -> forall f', (f <= f')%nat -> parse_prefix T f' ts = Some x) /\
  (forall ts x, parse_args T f ts = Some x -> forall f', (f <= f')%nat -> parse_args T f' ts = Some x) /\
  (forall p l ts x, loop T f p l ts = Some x -> forall f', (f <= f')%nat -> loop T f' p l ts = Some x).
Proof.
  induction f as [|f [IHe [IHp [IHa IHl]]]]; [repeat split; intros; discriminate|].
  repeat split.
  - intros p ts x H f' Hf. destruct f' as [|f']; [lia|]. rewrite !parse_expr_S in *.
    destruct (parse_prefix T f ts) as [[a rest]|] eqn:E; [|discriminate].
    rewrite (IHp _ _ E f') by lia. apply IHl; [exact H|lia].
  - intros ts x H f' Hf. destruct f' as [|f']; [lia|]. rewrite !parse_prefix_S in *.
    destruct ts as [|[a|o| | | | | |] rest]; try discriminate.
    + destruct rest as [|[a2|o2| | | | | |] rest']; try exact H.
      destruct rest' as [|[a3|o3| | | | | |] rest'']; try exact H;
      try (destruct (parse_args T f _) as [[args r]|] eqn:E; [|discriminate]; rewrite (IHa _ _ E f') by lia; exact H).
    + destruct (is_polarity T o); [|discriminate].
      destruct (parse_expr T f (p_polarity T) rest) as [[e r]|] eqn:E; [|discriminate].
      rewrite (IHe _ _ _ E f') by lia. exact H.
    + destruct (parse_expr T f 0 rest) as [[t r]|] eqn:E; [|discriminate].
      rewrite (IHe _ _ _ E f') by lia. exact H.
  - intros ts x H f' Hf. destruct f' as [|f']; [lia|]. rewrite !parse_args_S in *.
    destruct (parse_expr T f 0 ts) as [[e r]|] eqn:E; [|discriminate].
    rewrite (IHe _ _ _ E f') by lia.
    destruct r as [|[a|o| | | | | |] r']; try discriminate; try exact H.
    destruct (parse_args T f r') as [[es r'']|] eqn:E2; [|discriminate].
    rewrite (IHa _ _ E2 f') by lia. exact H.
  - intros p l ts x H f' Hf. destruct f' as [|f']; [lia|]. rewrite !loop_S in *.
    destruct ts as [|[a|o| | | | | |] rest]; try exact H.
    + (* TOp *)
      destruct (Nat.leb p (prec T o)); [|exact H].
      destruct (is_type_op T o).
      * destruct (parse_qualified f rest) as [[ty r]|] eqn:E; [|discriminate].
        rewrite (parse_qualified_mono f _ _ E f') by lia. apply IHl; [exact H|lia].
      * destruct (parse_expr T f (S (prec T o)) rest) as [[rhs r]|] eqn:E; [|discriminate].
        rewrite (IHe _ _ _ E f') by lia. apply IHl; [exact H|lia].
    + (* TLB *)
      destruct (Nat.leb p (p_index T)); [|exact H].
      destruct (parse_expr T f 0 rest) as [[i r]|] eqn:E; [|discriminate].
      rewrite (IHe _ _ _ E f') by lia.
      destruct r as [|[a|o| | | | | |] r']; try discriminate. apply IHl; [exact H|lia].
    + (* TDot *)
      destruct rest as [|[n|o| | | | | |] rest']; try exact H.
      destruct rest' as [|[n2|o2| | | | | |] rest'']; try (destruct (Nat.leb p (p_invoke T)); [apply IHl; [exact H|lia]|exact H]).
      destruct rest'' as [|[n3|o3| | | | | |] rest3];
      try (destruct (Nat.leb p (p_invoke T)); [|exact H];
           destruct (parse_args T f _) as [[args r]|] eqn:E; [|discriminate];
           rewrite (IHa _ _ E f') by lia; apply IHl; [exact H|lia]).
      destruct (Nat.leb p (p_invoke T)); [apply IHl; [exact H|lia]|exact H].
Qed.
Definition mono_e f := proj1 (mono f).
Definition mono_l f := proj2 (proj2 (proj2 (mono f))).

(* ---- side conditions ----------------------------------------------------------------------------------- *)
(* what may follow an expression: nothing, a closing token, a comma, or an operator *)
Definition head_le (q : nat) (rest : list tok) : Prop :=
  match rest with
  | [] | TRP :: _ | TRB :: _ | TComma :: _ => True
  | TOp o :: _ => (prec T o <= q)%nat
  | _ => False
  end.
Definition inner_ok (p : nat) (t : tree) (rest : list tok) : Prop :=
  match t with
  | Bin o _ _ => if Nat.ltb (prec T o) p then True else head_le (prec T o) rest
  | _ => True
  end.
Definition plain_follow (rest : list tok) : Prop :=
  match rest with [] | TRP :: _ | TRB :: _ | TComma :: _ | TOp _ :: _ => True | _ => False end.
Definition follow_ok (p : nat) (rest : list tok) : Prop :=
  match rest with
  | [] | TRP :: _ | TRB :: _ | TComma :: _ => True
  | TOp o :: _ => (prec T o < p)%nat
  | _ => False
  end.

Lemma root_level_bin o l r : root_level T (Bin o l r) = prec T o. Proof. reflexivity. Qed.
Lemma root_level_atom a : root_level T (Atom a) = S (p_invoke T). Proof. reflexivity. Qed.

(* parse_prefix on an atom that is not followed by '(' *)
Lemma prefix_atom f a rest : plain_follow rest -> parse_prefix T (S f) (TAtom a :: rest) = Some (Atom a, rest).
Proof. intro H. rewrite parse_prefix_S. destruct rest as [|[x|o| | | | | |] r]; try reflexivity; cbn in H; contradiction. Qed.

Lemma head_le_plain q rest : head_le q rest -> plain_follow rest.
Proof. destruct rest as [|[x|o| | | | | |] r]; cbn; auto. Qed.

(* ---- the key lemma ------------------------------------------------------------------------------------------ *)
Lemma key : forall t, binary_core t -> forall p0 p rest res f,
  (p0 <= p)%nat -> (p <= S (p_invoke T))%nat -> inner_ok p t rest -> plain_follow rest ->
  loop T f p0 t rest = Some res ->
  exists f0, forall f', (f0 <= f')%nat -> parse_expr T f' p0 (render_min T p t ++ rest) = Some res.
Proof.
  induction t as [a|o e IHe|o l IHl r IHr|o e IHe ty|e IHe n|e IHe fn args|fn args|e IHe i IHi];
    intros Hcore p0 p rest res f Hp Hpmax Hin Hplain Hloop; cbn [binary_core] in Hcore; try contradiction.
  - (* atom *)
    exists (S (S f)). intros f' Hf. destruct f' as [|[|f']]; try lia.
    cbn [render_min]. rewrite root_level_atom.
    assert (E : Nat.ltb (S (p_invoke T)) p = false) by (apply Nat.ltb_ge; lia). rewrite E. cbn [paren app].
    rewrite parse_expr_S. rewrite (prefix_atom f' a rest Hplain). apply (mono_l f); [exact Hloop|lia].
  - (* binary operator *)
    destruct Hcore as [Hty [Hpo' [Hcl Hcr]]].
    cbn [render_min]. rewrite root_level_bin. cbn [inner_ok] in Hin.
    assert (Hpo : (prec T o <= p_invoke T)%nat \/ (p_invoke T < prec T o)%nat) by lia.
    destruct (Nat.ltb (prec T o) p) eqn:Eparen; cbn [paren].
    + (* parenthesised *)
      apply Nat.ltb_lt in Eparen.
      assert (Hbody : exists f1, forall f', (f1 <= f')%nat ->
                parse_expr T f' 0 (render_min T (prec T o) l ++ TOp o :: render_min T (S (prec T o)) r ++ TRP :: rest)
                = Some (Bin o l r, TRP :: rest)).
      { assert (Hr : exists fr, forall f', (fr <= f')%nat ->
                  parse_expr T f' (S (prec T o)) (render_min T (S (prec T o)) r ++ TRP :: rest) = Some (r, TRP :: rest)).
        { apply (IHr Hcr (S (prec T o)) (S (prec T o)) (TRP :: rest) (r, TRP :: rest) 1%nat); [lia|lia| |exact I|change 1%nat with (S 0); rewrite loop_S; reflexivity].
          destruct r as [|? ? | o' ? ?| | | | |]; cbn [inner_ok head_le]; try exact I. destruct (Nat.ltb _ _); exact I. }
        destruct Hr as [fr Hr].
        apply (IHl Hcl 0%nat (prec T o) (TOp o :: render_min T (S (prec T o)) r ++ TRP :: rest) (Bin o l r, TRP :: rest) (S (S fr))); [lia|lia| |exact I|].
        { destruct l as [|? ? | o' ? ?| | | | |]; cbn [inner_ok head_le]; try exact I.
          destruct (Nat.ltb (prec T o') (prec T o)) eqn:E; [exact I|]. apply Nat.ltb_ge in E. exact E. }
        { rewrite loop_S. replace (Nat.leb 0 (prec T o)) with true by (symmetry; apply Nat.leb_le; lia). rewrite Hty.
          rewrite (Hr (S fr)) by lia. rewrite loop_S. reflexivity. } }
      destruct Hbody as [f1 Hbody].
      exists (S (S (f1 + f))). intros f' Hf. destruct f' as [|[|f']]; try lia.
      assert (Heq : (TLP :: (render_min T (prec T o) l ++ TOp o :: render_min T (S (prec T o)) r) ++ [TRP]) ++ rest
                    = TLP :: render_min T (prec T o) l ++ TOp o :: render_min T (S (prec T o)) r ++ TRP :: rest).
      { cbn [app]. f_equal. rewrite <- !app_assoc. cbn [app]. reflexivity. }
      rewrite Heq. rewrite parse_expr_S, parse_prefix_S.
      rewrite (Hbody f') by lia. apply (mono_l f); [exact Hloop|lia].
    + (* no parentheses: prec o >= p >= p0 *)
      apply Nat.ltb_ge in Eparen.
      assert (Hr : exists fr, forall f', (fr <= f')%nat ->
                parse_expr T f' (S (prec T o)) (render_min T (S (prec T o)) r ++ rest) = Some (r, rest)).
      { apply (IHr Hcr (S (prec T o)) (S (prec T o)) rest (r, rest) 1%nat); [lia|lia| |exact Hplain|].
        - destruct r as [|? ? | o' ? ?| | | | |]; cbn [inner_ok head_le]; try exact I.
          destruct (Nat.ltb (prec T o') (S (prec T o))) eqn:E; [exact I|]. apply Nat.ltb_ge in E.
          destruct rest as [|[x|o2| | | | | |] ?]; cbn [head_le] in *; try exact I; try contradiction. lia.
        - change 1%nat with (S 0). rewrite loop_S. destruct rest as [|[x|o2| | | | | |] ?]; try reflexivity; cbn in Hplain; try contradiction.
          cbn [head_le] in Hin. assert (H : Nat.leb (S (prec T o)) (prec T o2) = false) by (apply Nat.leb_gt; lia). rewrite H. reflexivity. }
      destruct Hr as [fr Hr].
      destruct (IHl Hcl p0 (prec T o) (TOp o :: render_min T (S (prec T o)) r ++ rest) res (S (fr + f))) as [fl Hl]; [lia|lia| |exact I| |].
      { destruct l as [|? ? | o' ? ?| | | | |]; cbn [inner_ok head_le]; try exact I.
        destruct (Nat.ltb (prec T o') (prec T o)) eqn:E; [exact I|]. apply Nat.ltb_ge in E. exact E. }
      { rewrite loop_S. assert (H : Nat.leb p0 (prec T o) = true) by (apply Nat.leb_le; lia). rewrite H, Hty.
        rewrite (Hr (fr + f)%nat) by lia. apply (mono_l f); [exact Hloop|lia]. }
      exists fl. intros f' Hf. rewrite <- app_assoc. cbn [app]. apply Hl; exact Hf.
Qed.

(* every tree of the binary core, of any depth, printed with minimal parentheses at level p, parses back to
   itself, leaving exactly the rest *)
Theorem parse_render_min_binary : forall t p rest, binary_core t -> (p <= S (p_invoke T))%nat -> follow_ok p rest ->
  exists f0, forall f, (f0 <= f)%nat -> parse_expr T f p (render_min T p t ++ rest) = Some (t, rest).
Proof.
  intros t p rest Hc Hp Hf.
  assert (Hplain : plain_follow rest) by (destruct rest as [|[x|o| | | | | |] ?]; cbn in *; auto).
  apply (key t Hc p p rest (t, rest) 1%nat); [lia|exact Hp| |exact Hplain|].
  - destruct t as [|? ? | o l r| | | | |]; cbn [inner_ok head_le]; try exact I.
    destruct (Nat.ltb (prec T o) p) eqn:E; [exact I|]. apply Nat.ltb_ge in E.
    destruct rest as [|[x|o2| | | | | |] ?]; cbn [head_le follow_ok] in *; try exact I; try contradiction. lia.
  - change 1%nat with (S 0). rewrite loop_S. destruct rest as [|[x|o2| | | | | |] ?]; try reflexivity; cbn in Hf; try contradiction.
    assert (H : Nat.leb p (prec T o2) = false) by (apply Nat.leb_gt; lia). rewrite H. reflexivity.
Qed.

(* the whole input is consumed: a program parses only if nothing is left over *)
Lemma whole_input_consumed ts t : parse_prog T ts = Some t ->
  exists f, parse_expr T f 0 ts = Some (t, []).
Proof.
  unfold parse_prog. destruct (parse_expr T _ 0 ts) as [[t' rest]|] eqn:E; [|discriminate].
  destruct rest; [|discriminate]. intro H. inversion H; subst. eexists. exact E.
Qed.
End P.
