(* C11/LexerInsert.v -- inserting whitespace at ANY token boundary of ANY source leaves the token stream of the lexer
   model unchanged, also where the source has no gap at that boundary (`1+2` versus `1 + 2`). *)
From FPV Require Import Base.Prelude C11.Lexer C11.LexerProofs.
Local Open Scope N_scope.

Ltac norm_app := repeat first [rewrite <- app_assoc | progress cbn [app]].

(* ---- the hidden-channel automaton ------------------------------------------------------------------------------------ *)
Lemma skipm_top_line_some : forall s, skipm MTop s <> None /\ skipm MLine s <> None.
Proof.
  induction s as [|c s [IH1 IH2]]; [split; discriminate|]. split.
  - cbn [skipm]. destruct (is_ws c); [exact IH1|]. destruct (c =? 47); [|discriminate].
    destruct s as [|d s']; [discriminate|]. destruct (d =? 47); [exact IH2|].
    destruct (d =? 42); [|discriminate]. destruct (skipm MOpen (d :: s')); discriminate.
  - cbn [skipm]. destruct (is_nl c); assumption.
Qed.

Lemma block_ws : forall g b m, wsne g -> m = MBlock \/ m = MStar -> skipm m (g ++ b) = skipm MBlock b.
Proof.
  intros g b m Hg Hm. destruct (wsne_head g Hg) as (w & g' & -> & Hw). destruct Hg as [_ Hall].
  unfold wsall in Hall. cbn [forallb] in Hall. apply andb_prop in Hall as [_ Hall].
  assert (forall g0, forallb is_ws g0 = true -> skipm MBlock (g0 ++ b) = skipm MBlock b) as K.
  { induction g0 as [|x g0 IH]; intros Hx; [reflexivity|]. cbn [forallb] in Hx. apply andb_prop in Hx as [Hx1 Hx2].
    cbn [app skipm]. replace (x =? 42) with false by (unfold is_ws in Hx1; lia). apply IH. exact Hx2. }
  cbn [app skipm]. destruct Hm as [-> | ->].
  - replace (w =? 42) with false by (unfold is_ws in Hw; lia). apply K. exact Hall.
  - replace (w =? 47) with false by (unfold is_ws in Hw; lia). replace (w =? 42) with false by (unfold is_ws in Hw; lia).
    apply K. exact Hall.
Qed.

Lemma star_none_block : forall b, skipm MStar b = None -> skipm MBlock b = None.
Proof.
  intros [|c b] H; [reflexivity|]. cbn [skipm] in *. destruct (c =? 47) eqn:E47.
  - exfalso. exact (proj1 (skipm_top_line_some b) H).
  - destruct (c =? 42); exact H.
Qed.

(* a comment that never closes does not close because whitespace is inserted into it *)
Lemma block_unclosed_ins : forall a b g m, wsne g -> m = MBlock \/ m = MStar ->
  skipm m (a ++ b) = None -> skipm m (a ++ g ++ b) = None.
Proof.
  induction a as [|x a IH]; intros b g m Hg Hm H.
  - cbn [app] in *. rewrite (block_ws g b m Hg Hm). destruct Hm as [-> | ->]; [exact H|apply star_none_block; exact H].
  - cbn [app skipm] in *. destruct Hm as [-> | ->].
    + destruct (x =? 42); apply IH; auto.
    + destruct (x =? 47) eqn:E47.
      * exfalso. exact (proj1 (skipm_top_line_some (a ++ b)) H).
      * destruct (x =? 42); apply IH; auto.
Qed.

Lemma skipm_top_slash : forall t, skipm MTop (47 :: t) =
  match t with
  | d :: _ => if d =? 47 then skipm MLine t
              else if d =? 42 then match skipm MOpen t with Some x => Some x | None => Some (47 :: t) end
              else Some (47 :: t)
  | [] => Some (47 :: t)
  end.
Proof. reflexivity. Qed.

Lemma head_preserved : forall (gp : list N) c r r' d t, gp ++ c :: r = d :: t -> exists t', gp ++ c :: r' = d :: t'.
Proof. intros [|x gp] c r r' d t H; cbn in *; inversion H; subst; eauto. Qed.

(* the position handed over is a `/*` that never closes (ANTLR's fallback: the `/` is a division) *)
Definition starts_open (s : list N) : Prop := match s with c :: d :: _ => c = 47 /\ d = 42 | _ => False end.
(* what may be inserted behind a handed-over position s1: text that starts with whitespace and, if s1 is such an
   opener, is whitespace only (a comment in the inserted text would close it) *)
Definition gap_for (s1 g : list N) : Prop := ws_head g /\ (wsne g \/ ~ starts_open s1).

(* the automaton hands over the same position when such text is inserted anywhere after the first character of what it
   hands over *)
Lemma skipm_stable : forall s m s1, skipm m s = Some s1 -> s1 <> [] ->
  exists gp, s = gp ++ s1 /\
    forall g c r r', s1 = c :: r -> gap_for s1 g -> ins g r r' -> skipm m (gp ++ c :: r') = Some (c :: r').
Proof.
  induction s as [|c0 s0 IH]; intros m s1 H Hne.
  - destruct m; cbn in H; inversion H; subst; contradiction.
  - (* a helper for the recursive cases *)
    assert (forall m', skipm m' s0 = Some s1 ->
              (forall t, skipm m (c0 :: t) = skipm m' t) ->
              exists gp, c0 :: s0 = gp ++ s1 /\
                forall g c r r', s1 = c :: r -> gap_for s1 g -> ins g r r' -> skipm m (gp ++ c :: r') = Some (c :: r')) as Rec.
    { intros m' H' Hstep. destruct (IH m' s1 H' Hne) as (gp & E & K). exists (c0 :: gp). split; [cbn; f_equal; exact E|].
      intros g c r r' E1 Hg Hi. cbn [app]. rewrite Hstep. apply (K g c r r' E1 Hg Hi). }
    destruct m.
    + (* MTop *)
      cbn [skipm] in H. destruct (is_ws c0) eqn:Hw.
      { apply (Rec MTop H). intros t. cbn [skipm]. rewrite Hw. reflexivity. }
      destruct (c0 =? 47) eqn:E47.
      2:{ inversion H; subst. exists []. split; [reflexivity|]. intros g c r r' E1 Hg Hi. inversion E1; subst.
          cbn [app skipm]. rewrite Hw, E47. reflexivity. }
      apply N.eqb_eq in E47. subst c0.
      destruct s0 as [|d t0].
      { inversion H; subst. exists []. split; [reflexivity|]. intros g c r r' E1 Hg (a & b & Er & ->).
        injection E1 as Ec Er0. subst c r.
        destruct a; [|discriminate]. destruct b; [|discriminate]. destruct (proj1 Hg) as (w & g' & -> & Hw').
        cbn [app]. rewrite skipm_top_slash.
        replace (w =? 47) with false by (unfold is_ws in Hw'; lia).
        replace (w =? 42) with false by (unfold is_ws in Hw'; lia). reflexivity. }
      destruct (d =? 47) eqn:D47.
      { destruct (IH MLine s1 H Hne) as (gp & E & K). exists (47 :: gp). split; [cbn; f_equal; exact E|].
        intros g c r r' E1 Hg Hi. subst s1. destruct (head_preserved gp c r r' d t0 (eq_sym E)) as (t' & Et).
        cbn [app]. rewrite skipm_top_slash. rewrite Et, D47. rewrite <- Et. apply (K g c r r' eq_refl Hg Hi). }
      destruct (d =? 42) eqn:D42.
      { destruct (skipm MOpen (d :: t0)) as [x|] eqn:HO.
        - inversion H; subst x. destruct (IH MOpen s1 HO Hne) as (gp & E & K). exists (47 :: gp). split; [cbn; f_equal; exact E|].
          intros g c r r' E1 Hg Hi. subst s1. destruct (head_preserved gp c r r' d t0 (eq_sym E)) as (t' & Et).
          cbn [app]. rewrite skipm_top_slash. rewrite Et, D47, D42. rewrite <- Et. rewrite (K g c r r' eq_refl Hg Hi). reflexivity.
        - inversion H; subst s1. exists []. split; [reflexivity|]. intros g c r r' E1 Hg (a & b & Er & ->).
          injection E1 as Ec Er0. subst c r.
          destruct (proj1 Hg) as (w & g' & Eg & Hw').
          destruct a as [|x a].
          + subst g. cbn [app]. rewrite skipm_top_slash. replace (w =? 47) with false by (unfold is_ws in Hw'; lia).
            replace (w =? 42) with false by (unfold is_ws in Hw'; lia). reflexivity.
          + cbn [app] in Er. injection Er as Ex Et0. subst x t0. cbn [app]. rewrite skipm_top_slash. rewrite D47, D42.
            cbn [skipm] in HO. cbn [skipm].
            destruct (proj2 Hg) as [Hws | Hno].
            * rewrite (block_unclosed_ins a b g MBlock Hws (or_introl eq_refl) HO). reflexivity.
            * exfalso. apply Hno. cbn. split; [reflexivity|]. apply N.eqb_eq. exact D42. }
      inversion H; subst s1. exists []. split; [reflexivity|]. intros g c r r' E1 Hg (a & b & Er & ->).
      injection E1 as Ec Er0. subst c r.
      destruct (proj1 Hg) as (w & g' & Eg & Hw').
      destruct a as [|x a].
      * subst g. cbn [app]. rewrite skipm_top_slash. replace (w =? 47) with false by (unfold is_ws in Hw'; lia).
        replace (w =? 42) with false by (unfold is_ws in Hw'; lia). reflexivity.
      * cbn [app] in Er. injection Er as Ex Et0. subst x t0. cbn [app]. rewrite skipm_top_slash. rewrite D47, D42. reflexivity.
    + (* MLine *)
      cbn [skipm] in H. destruct (is_nl c0) eqn:Hn.
      * apply (Rec MTop H). intros t. cbn [skipm]. rewrite Hn. reflexivity.
      * apply (Rec MLine H). intros t. cbn [skipm]. rewrite Hn. reflexivity.
    + (* MOpen *)
      cbn [skipm] in H. apply (Rec MBlock H). intros t. reflexivity.
    + (* MBlock *)
      cbn [skipm] in H. destruct (c0 =? 42) eqn:E.
      * apply (Rec MStar H). intros t. cbn [skipm]. rewrite E. reflexivity.
      * apply (Rec MBlock H). intros t. cbn [skipm]. rewrite E. reflexivity.
    + (* MStar *)
      cbn [skipm] in H. destruct (c0 =? 47) eqn:E1.
      * apply (Rec MTop H). intros t. cbn [skipm]. rewrite E1. reflexivity.
      * destruct (c0 =? 42) eqn:E2.
        -- apply (Rec MStar H). intros t. cbn [skipm]. rewrite E1, E2. reflexivity.
        -- apply (Rec MBlock H). intros t. cbn [skipm]. rewrite E1, E2. reflexivity.
Qed.

(* ---- token boundaries ----------------------------------------------------------------------------------------------- *)
(* reachP ok s b: b is s itself or what is left of s right after one of its default-channel tokens; every position
   the automaton handed over on the way satisfies ok *)
Inductive reachP (ok : list N -> Prop) : list N -> list N -> Prop :=
| reachP_here : forall s, reachP ok s s
| reachP_tok : forall s c r0 l r b,
    skipm MTop s = Some (c :: r0) -> ok (c :: r0) -> scan (c :: r0) = Some (l, r) -> reachP ok r b -> reachP ok s b.
Definition reach : list N -> list N -> Prop := reachP (fun _ => True).
(* ... and no token before the boundary is the `/` of a `/*` that never closes *)
Definition reach_closed : list N -> list N -> Prop := reachP (fun s1 => ~ starts_open s1).

Lemma reachP_suffix : forall ok s b, reachP ok s b -> exists pre, s = pre ++ b.
Proof.
  induction 1 as [s | s c r0 l r b Hk _ Hs _ (x & Ex)].
  - exists []. reflexivity.
  - destruct (skipm_stable s MTop (c :: r0) Hk ltac:(discriminate)) as (gp & E & _).
    destruct (scan_stable _ _ _ Hs) as (E2 & _ & _).
    exists (gp ++ l ++ x). rewrite E, E2, Ex. rewrite <- !app_assoc. reflexivity.
Qed.

(* a gap: text that starts with whitespace and that the hidden-channel automaton skips whatever follows *)
Definition gap_ok (g : list N) : Prop := ws_head g /\ forall t, skipm MTop (g ++ t) = skipm MTop t.

Theorem lex_insert_general : forall ok s b, reachP ok s b -> forall pre g f, s = pre ++ b -> gap_ok g ->
  (forall s1, ok s1 -> wsne g \/ ~ starts_open s1) ->
  lex f (pre ++ g ++ b) = lex f (pre ++ b).
Proof.
  induction 1 as [s | s c r0 l r b Hk Hok Hs Hr IH]; intros pre g f E Hg Hall.
  - assert (pre = []) as ->.
    { apply (f_equal (@length N)) in E. rewrite app_length in E. destruct pre; [reflexivity|cbn in E; lia]. }
    cbn [app]. destruct f as [|f]; [reflexivity|]. cbn [lex]. rewrite (proj2 Hg s). reflexivity.
  - destruct (skipm_stable s MTop (c :: r0) Hk ltac:(discriminate)) as (gp & Es & K).
    destruct (scan_stable _ _ _ Hs) as (E2 & Hl & L).
    destruct (reachP_suffix _ _ _ Hr) as (x & Ex).
    destruct l as [|c' l']; [contradiction|]. cbn [app] in E2. inversion E2; subst c'.
    assert (pre = gp ++ (c :: l') ++ x) as ->.
    { apply (app_inv_tail b). rewrite <- E, Es. rewrite H1, Ex. norm_app. reflexivity. }
    rewrite <- E.
    destruct f as [|f]; [reflexivity|].
    assert (ins g r0 (l' ++ x ++ g ++ b)) as Hi0.
    { exists (l' ++ x), b. rewrite H1, Ex. split; norm_app; reflexivity. }
    assert (ins g r (x ++ g ++ b)) as Hi. { exists x, b. split; [exact Ex|reflexivity]. }
    assert (gap_for (c :: r0) g) as Hgf. { split; [exact (proj1 Hg)|exact (Hall _ Hok)]. }
    replace ((gp ++ (c :: l') ++ x) ++ g ++ b) with (gp ++ c :: (l' ++ x ++ g ++ b))
      by (norm_app; reflexivity).
    cbn [lex]. rewrite (K g c r0 _ eq_refl Hgf Hi0). rewrite Hk.
    change (c :: l' ++ x ++ g ++ b) with ((c :: l') ++ x ++ g ++ b).
    rewrite (L _ (sim_of_ins_head g r _ (proj1 Hg) Hi)). rewrite Hs.
    rewrite (IH x g f Ex Hg Hall). rewrite <- Ex. reflexivity.
Qed.

Lemma gap_ok_ws : forall g, wsne g -> gap_ok g.
Proof.
  intros g Hg. split.
  - destruct (wsne_head g Hg) as (w & g' & E & Hw). exists w, g'. auto.
  - intros t. apply skipm_ws_prefix. exact (proj2 Hg).
Qed.
Lemma gap_ok_app : forall g1 g2, gap_ok g1 -> gap_ok g2 -> gap_ok (g1 ++ g2).
Proof.
  intros g1 g2 [(w & g' & -> & Hw) H1] [_ H2]. split.
  - exists w, (g' ++ g2). split; [reflexivity|exact Hw].
  - intros t. rewrite <- app_assoc, H1, H2. reflexivity.
Qed.
(* whitespace, then a line comment with its newline *)
Lemma skipm_one_ws : forall w t, is_ws w = true -> skipm MTop (w :: t) = skipm MTop t.
Proof. intros w t Hw. apply (skipm_ws_prefix [w] t). unfold wsall. cbn [forallb]. rewrite Hw. reflexivity. Qed.
Lemma gap_ok_line_comment : forall w body nl, is_ws w = true ->
  forallb (fun c => negb (is_nl c)) body = true -> is_nl nl = true -> gap_ok (w :: 47 :: 47 :: body ++ [nl]).
Proof.
  intros w body nl Hw Hb Hn. split; [exists w, (47 :: 47 :: body ++ [nl]); auto|].
  intros t. cbn [app]. rewrite (skipm_one_ws w _ Hw). rewrite <- app_assoc. cbn [app]. apply skipm_line_comment; assumption.
Qed.
(* whitespace, then a block comment whose body the automaton leaves at its closing `*/` *)
Definition closes (body : list N) : Prop := forall t, skipm MBlock (body ++ 42 :: 47 :: t) = skipm MTop t.
Lemma gap_ok_block_comment : forall w body, is_ws w = true -> closes body -> gap_ok (w :: 47 :: 42 :: body ++ [42; 47]).
Proof.
  intros w body Hw Hc. split; [exists w, (47 :: 42 :: body ++ [42; 47]); auto|].
  intros t. cbn [app]. rewrite (skipm_one_ws w _ Hw). rewrite skipm_top_slash.
  change (42 =? 47) with false. change (42 =? 42) with true. cbv iota.
  change (skipm MOpen (42 :: (body ++ [42; 47]) ++ t)) with (skipm MBlock ((body ++ [42; 47]) ++ t)).
  rewrite <- app_assoc. cbn [app]. rewrite (Hc t).
  destruct (skipm MTop t) eqn:E; [reflexivity|]. exfalso. exact (proj1 (skipm_top_line_some t) E).
Qed.
Example closes_example : closes [32; 99; 42; 32; 47; 32] /\ closes [] /\ closes [10; 47; 47; 32; 39].
Proof. repeat split; intros t; reflexivity. Qed.

(* the two instances *)
Theorem lex_insert_ws : forall s b, reach s b -> forall pre g f, s = pre ++ b -> wsne g ->
  lex f (pre ++ g ++ b) = lex f (pre ++ b).
Proof.
  intros s b H pre g f E Hg. apply (lex_insert_general _ s b H pre g f E (gap_ok_ws g Hg)). intros s1 _. left. exact Hg.
Qed.
Theorem lex_insert_gap : forall s b, reach_closed s b -> forall pre g f, s = pre ++ b -> gap_ok g ->
  lex f (pre ++ g ++ b) = lex f (pre ++ b).
Proof.
  intros s b H pre g f E Hg. apply (lex_insert_general _ s b H pre g f E Hg). intros s1 Hs1. right. exact Hs1.
Qed.

(* non-vacuity: in `1+2.5<=x` the text `2.5<=x` starts right after a token (the `+`), and so does `<=x` *)
Example reach_example :
  reach [49; 43; 50; 46; 53; 60; 61; 120] [50; 46; 53; 60; 61; 120] /\ reach [49; 43; 50; 46; 53; 60; 61; 120] [60; 61; 120].
Proof.
  split.
  - eapply reachP_tok; [reflexivity|exact I|reflexivity|]. eapply reachP_tok; [reflexivity|exact I|reflexivity|]. apply reachP_here.
  - eapply reachP_tok; [reflexivity|exact I|reflexivity|]. eapply reachP_tok; [reflexivity|exact I|reflexivity|].
    eapply reachP_tok; [reflexivity|exact I|reflexivity|]. apply reachP_here.
Qed.
(* `a/b`: right after the `/` (a division: nothing is open) a comment gap may go in, provided it starts with a blank *)
Example reach_closed_example : reach_closed [97; 47; 98] [98] /\ gap_ok ([32; 47; 42; 32; 99; 32; 42; 47] ++ [10]).
Proof.
  split.
  - eapply reachP_tok; [reflexivity|cbn; intros [E _]; discriminate|reflexivity|].
    eapply reachP_tok; [reflexivity|unfold starts_open; intros [_ E]; discriminate E|reflexivity|]. apply reachP_here.
  - apply gap_ok_app.
    + apply (gap_ok_block_comment 32 [32; 99; 32]); [reflexivity|intros t; reflexivity].
    + apply gap_ok_ws. split; [discriminate|reflexivity].
Qed.
