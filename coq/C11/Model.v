(* C11/Model.v -- tokens, expression trees, the two printers and a precedence-climbing parser that
   mirrors what ANTLR generates for the left-recursive rule `expression` of fhirpath.g4
   (precedence predicate k on each alternative, right operand parsed at k+1, prefix operand at k,
   suffix alternatives consume no operand).  The precedence table is a parameter of everything here;
   the table of the grammar is regenerated from fhirpath.g4 by go2v (RUN.Gen_grammar) and
   Oblig/C11_gen.v proves it equal to `fhirpath_table`, and the generated parser's numbers consistent
   with it.  Atoms (literals, identifiers, $this, %vars) and names are interned numbers. *)
From FPV Require Import Base.Prelude.
From Coq Require Import String.

Inductive tok :=
| TAtom (a : N)           (* literal, identifier, $this, %var, {} *)
| TOp (o : N)             (* any operator keyword or symbol, incl. + - is as *)
| TLP | TRP | TLB | TRB | TDot | TComma.

Inductive tree :=
| Atom (a : N)
| Pol (o : N) (e : tree)
| Bin (o : N) (l r : tree)
| TypeOp (o : N) (e : tree) (ty : list N)          (* e is/as ns.name *)
| Member (e : tree) (name : N)                      (* e.name *)
| Invoke (e : tree) (f : N) (args : list tree)      (* e.f(args) *)
| Call (f : N) (args : list tree)                   (* f(args) *)
| Index (e i : tree).                               (* e[i] *)

(* operator ids (fixed by the harness): the table maps an operator to its level *)
Record ptable := { prec : N -> nat; is_type_op : N -> bool; is_polarity : N -> bool;
                   p_polarity : nat; p_index : nat; p_invoke : nat }.

Definition tok_eqb (a b : tok) : bool :=
  match a, b with
  | TAtom x, TAtom y | TOp x, TOp y => N.eqb x y
  | TLP, TLP | TRP, TRP | TLB, TLB | TRB, TRB | TDot, TDot | TComma, TComma => true
  | _, _ => false
  end.

Section WithTable.
Variable T : ptable.

(* ---- printers ---------------------------------------------------------------------------------- *)
(* level at which a tree's root binds *)
Definition root_level (t : tree) : nat :=
  match t with
  | Atom _ | Call _ _ => S (p_invoke T)
  | Pol _ _ => p_polarity T
  | Bin o _ _ | TypeOp o _ _ => prec T o
  | Member _ _ | Invoke _ _ _ => p_invoke T
  | Index _ _ => p_index T
  end.
Definition paren (b : bool) (ts : list tok) : list tok := if b then TLP :: ts ++ [TRP] else ts.
Fixpoint intersperse (sep : tok) (xs : list (list tok)) : list tok :=
  match xs with
  | [] => []
  | [x] => x
  | x :: rest => x ++ sep :: intersperse sep rest
  end.
Fixpoint qualified (ty : list N) : list tok :=
  match ty with
  | [] => []
  | [n] => [TAtom n]
  | n :: rest => TAtom n :: TDot :: qualified rest
  end.

(* minimal parentheses: an operand is parenthesised only when it binds looser than the position needs *)
Fixpoint render_min (p : nat) (t : tree) : list tok :=
  let body :=
    match t with
    | Atom a => [TAtom a]
    | Pol o e => TOp o :: render_min (p_polarity T) e
    | Bin o l r => render_min (prec T o) l ++ TOp o :: render_min (S (prec T o)) r
    | TypeOp o e ty => render_min (prec T o) e ++ TOp o :: qualified ty
    | Member e n => render_min (p_invoke T) e ++ [TDot; TAtom n]
    | Invoke e f args => render_min (p_invoke T) e ++ TDot :: TAtom f :: TLP :: intersperse TComma (map (render_min 0) args) ++ [TRP]
    | Call f args => TAtom f :: TLP :: intersperse TComma (map (render_min 0) args) ++ [TRP]
    | Index e i => render_min (p_index T) e ++ TLB :: render_min 0 i ++ [TRB]
    end in
  paren (Nat.ltb (root_level t) p) body.

(* full parentheses: every operand, atoms included, is parenthesised *)
Definition is_atomic (t : tree) : bool := false.
Fixpoint render_full (t : tree) : list tok :=
  let sub (e : tree) := paren (negb (is_atomic e)) (render_full e) in
  match t with
  | Atom a => [TAtom a]
  | Pol o e => TOp o :: paren (negb (is_atomic e)) (render_full e)
  | Bin o l r => paren (negb (is_atomic l)) (render_full l) ++ TOp o :: paren (negb (is_atomic r)) (render_full r)
  | TypeOp o e ty => paren (negb (is_atomic e)) (render_full e) ++ TOp o :: qualified ty
  | Member e n => paren (negb (is_atomic e)) (render_full e) ++ [TDot; TAtom n]
  | Invoke e f args => paren (negb (is_atomic e)) (render_full e) ++ TDot :: TAtom f :: TLP :: intersperse TComma (map render_full args) ++ [TRP]
  | Call f args => TAtom f :: TLP :: intersperse TComma (map render_full args) ++ [TRP]
  | Index e i => paren (negb (is_atomic e)) (render_full e) ++ TLB :: render_full i ++ [TRB]
  end.

(* ---- the parser ---------------------------------------------------------------------------------------- *)
Fixpoint parse_qualified (fuel : nat) (ts : list tok) : option (list N * list tok) :=
  match fuel with O => None | S f =>
    match ts with
    | TAtom n :: TDot :: TAtom m :: rest =>
        match parse_qualified f (TAtom m :: rest) with Some (q, r) => Some (n :: q, r) | None => None end
    | TAtom n :: rest => Some ([n], rest)
    | _ => None
    end
  end.

Fixpoint parse_expr (fuel p : nat) (ts : list tok) {struct fuel} : option (tree * list tok) :=
  match fuel with O => None | S f =>
    match parse_prefix f ts with
    | Some (a, rest) => loop f p a rest
    | None => None
    end
  end
with parse_prefix (fuel : nat) (ts : list tok) {struct fuel} : option (tree * list tok) :=
  match fuel with O => None | S f =>
    match ts with
    | TOp o :: rest =>
        if is_polarity T o then
          match parse_expr f (p_polarity T) rest with
          | Some (e, rest') => Some (Pol o e, rest')
          | None => None
          end
        else None
    | TAtom a :: TLP :: TRP :: rest => Some (Call a [], rest)
    | TAtom a :: TLP :: rest =>
        match parse_args f rest with
        | Some (args, rest') => Some (Call a args, rest')
        | None => None
        end
    | TAtom a :: rest => Some (Atom a, rest)
    | TLP :: rest =>
        match parse_expr f 0 rest with
        | Some (t, TRP :: rest') => Some (t, rest')
        | _ => None
        end
    | _ => None
    end
  end
with parse_args (fuel : nat) (ts : list tok) {struct fuel} : option (list tree * list tok) :=
  (* one or more comma-separated expressions followed by ')' *)
  match fuel with O => None | S f =>
    match parse_expr f 0 ts with
    | Some (e, TRP :: rest) => Some ([e], rest)
    | Some (e, TComma :: rest) =>
        match parse_args f rest with
        | Some (es, rest') => Some (e :: es, rest')
        | None => None
        end
    | _ => None
    end
  end
with loop (fuel p : nat) (lhs : tree) (ts : list tok) {struct fuel} : option (tree * list tok) :=
  match fuel with O => None | S f =>
    match ts with
    | TDot :: TAtom n :: TLP :: TRP :: rest =>
        if Nat.leb p (p_invoke T) then loop f p (Invoke lhs n []) rest else Some (lhs, ts)
    | TDot :: TAtom n :: TLP :: rest =>
        if Nat.leb p (p_invoke T) then
          match parse_args f rest with
          | Some (args, rest') => loop f p (Invoke lhs n args) rest'
          | None => None
          end
        else Some (lhs, ts)
    | TDot :: TAtom n :: rest =>
        if Nat.leb p (p_invoke T) then loop f p (Member lhs n) rest else Some (lhs, ts)
    | TLB :: rest =>
        if Nat.leb p (p_index T) then
          match parse_expr f 0 rest with
          | Some (i, TRB :: rest') => loop f p (Index lhs i) rest'
          | _ => None
          end
        else Some (lhs, ts)
    | TOp o :: rest =>
        if Nat.leb p (prec T o) then
          if is_type_op T o then
            match parse_qualified f rest with
            | Some (ty, rest') => loop f p (TypeOp o lhs ty) rest'
            | None => None
            end
          else
            match parse_expr f (S (prec T o)) rest with
            | Some (rhs, rest') => loop f p (Bin o lhs rhs) rest'
            | None => None
            end
        else Some (lhs, ts)
    | _ => Some (lhs, ts)
    end
  end.

(* prog : expression EOF *)
Definition parse_prog (ts : list tok) : option tree :=
  match parse_expr (4 * List.length ts + 8) 0 ts with
  | Some (t, []) => Some t
  | _ => None
  end.
End WithTable.

(* ---- the table of fhirpath.g4 ---------------------------------------------------------------------------- *)
(* operator ids: 1 * 2 / 3 div 4 mod | 5 + 6 - 7 & | 8 is 9 as | 10 '|' | 11 <= 12 < 13 > 14 >= |
   15 = 16 ~ 17 != 18 !~ | 19 in 20 contains | 21 and | 22 or 23 xor | 24 implies *)
Definition fhirpath_prec (o : N) : nat :=
  if (o <=? 4)%N then 10%nat else if (o <=? 7)%N then 9%nat else if (o <=? 9)%N then 8%nat else if (o =? 10)%N then 7%nat
  else if (o <=? 14)%N then 6%nat else if (o <=? 18)%N then 5%nat else if (o <=? 20)%N then 4%nat else if (o =? 21)%N then 3%nat
  else if (o <=? 23)%N then 2%nat else 1%nat.
Definition fhirpath_table : ptable :=
  {| prec := fhirpath_prec; is_type_op := fun o => (o =? 8)%N || (o =? 9)%N; is_polarity := fun o => (o =? 5)%N || (o =? 6)%N;
     p_polarity := 11%nat; p_index := 12%nat; p_invoke := 13%nat |}.
Definition op_names : list (N * string) :=
  [(1, "*"); (2, "/"); (3, "div"); (4, "mod"); (5, "+"); (6, "-"); (7, "&"); (8, "is"); (9, "as"); (10, "|");
   (11, "<="); (12, "<"); (13, ">"); (14, ">="); (15, "="); (16, "~"); (17, "!="); (18, "!~"); (19, "in"); (20, "contains");
   (21, "and"); (22, "or"); (23, "xor"); (24, "implies")]%N%string.

(* ---- equality on trees (for the checker) -------------------------------------------------------------------- *)
Fixpoint tree_eqb (a b : tree) : bool :=
  let fix list_eq (xs ys : list tree) : bool :=
    match xs, ys with
    | [], [] => true
    | x :: xs', y :: ys' => tree_eqb x y && list_eq xs' ys'
    | _, _ => false
    end in
  match a, b with
  | Atom x, Atom y => N.eqb x y
  | Pol o e, Pol o' e' => N.eqb o o' && tree_eqb e e'
  | Bin o l r, Bin o' l' r' => N.eqb o o' && tree_eqb l l' && tree_eqb r r'
  | TypeOp o e ty, TypeOp o' e' ty' => N.eqb o o' && tree_eqb e e' && list_eqb N.eqb ty ty'
  | Member e n, Member e' n' => tree_eqb e e' && N.eqb n n'
  | Invoke e f xs, Invoke e' f' ys => tree_eqb e e' && N.eqb f f' && list_eq xs ys
  | Call f xs, Call f' ys => N.eqb f f' && list_eq xs ys
  | Index e i, Index e' i' => tree_eqb e e' && tree_eqb i i'
  | _, _ => false
  end.

(* unary plus builds no node in the compiled expression; a type specifier is compared by its type name
   (the compiled node holds the resolved namespace) *)
Definition last_name (ty : list N) : list N := match rev ty with n :: _ => [n] | [] => [] end.
(* atoms numbered from 100000 are identifiers that the visitor compiled as a field although they name a
   resource type (id - 100000 is the identifier): for the comparison with the source tree they are the
   identifier; the two renderings are also compared without this normalisation *)
Fixpoint drop_plus (t : tree) : tree :=
  match t with
  | Atom a => Atom (if (100000 <=? a)%N then a - 100000 else a)%N
  | Pol o e => if (o =? 5)%N then drop_plus e else Pol o (drop_plus e)
  | Bin o l r => Bin o (drop_plus l) (drop_plus r)
  | TypeOp o e ty => TypeOp o (drop_plus e) (last_name ty)
  | Member e n => Member (drop_plus e) n
  | Invoke e f xs => Invoke (drop_plus e) f (map drop_plus xs)
  | Call f xs => Call f (map drop_plus xs)
  | Index e i => Index (drop_plus e) (drop_plus i)
  end.

(* ---- correspondence case ---------------------------------------------------------------------------------------
   t: the generated tree; toks_min / toks_full: the token lists the harness printed (before decoration);
   observed: the trees read back from the node trees of Compile(min text) and Compile(full text), or None when
   Compile rejected the text; flags: what the harness observed natively. *)
Record flags := {
  evals_equal : bool;        (* both compiled expressions evaluate identically on the sample inputs *)
  decorations_equal : bool;  (* every whitespace/comment decoration of the min text compiles to the same node tree *)
  trailing_rejected : bool;  (* the text extended with a trailing token is rejected *)
  string_is_source : bool    (* Expression.String() returns the source text *)
}.
Definition case := (tree * list tok * list tok)%type.
Definition obs := (option tree * option tree * flags)%type.

Definition toks_eqb := list_eqb tok_eqb.
Definition otree_eqb (a b : option tree) : bool :=
  match a, b with Some x, Some y => tree_eqb x y | None, None => true | _, _ => false end.

Definition agrees (c : case) (o : obs) : bool :=
  let '(t, tmin, tfull) := c in let '(omin, ofull, fl) := o in
  (* the harness's printers are the model's printers *)
  toks_eqb (render_min fhirpath_table 0 t) tmin && toks_eqb (render_full t) tfull &&
  (* ANTLR's parse of either text, when Compile accepts it, is the model parser's parse *)
  match omin with Some x => otree_eqb (option_map drop_plus (parse_prog fhirpath_table tmin)) (Some (drop_plus x)) | None => true end &&
  match ofull with Some x => otree_eqb (option_map drop_plus (parse_prog fhirpath_table tfull)) (Some (drop_plus x)) | None => true end.

Definition holds (c : case) (o : obs) : bool :=
  let '(t, tmin, tfull) := c in let '(omin, ofull, fl) := o in
  (* one rendering compiles iff the other does, to the same node tree, which is the tree itself *)
  otree_eqb omin ofull &&
  match omin with Some x => tree_eqb (drop_plus x) (drop_plus t) | None => true end &&
  evals_equal fl && decorations_equal fl && trailing_rejected fl && string_is_source fl.
Definition kf (c : case) : N := 0%N.

Definition judge (x : N * case * obs) : verdict :=
  let '(id, c, o) := x in
  {| v_id := id; v_agree := agrees c o; v_holds := holds c o; v_kf := kf c |}.

(* ---- consistency of a regenerated grammar description with fhirpath_table -------------------------------- *)
Definition op_id (name : string) : option N :=
  match find (fun p => String.eqb (snd p) name) op_names with Some (o, _) => Some o | None => None end.
Definition alt_ok (a : string * string * Z * list string) : bool :=
  let '(label, shape, pr, toks) := a in
  if String.eqb shape "binary" then
    forallb (fun t => match op_id t with
                      | Some o => (Z.of_nat (prec fhirpath_table o) =? pr) && negb (is_type_op fhirpath_table o)
                      | None => false end) toks
  else if String.eqb shape "typeop" then
    forallb (fun t => match op_id t with
                      | Some o => (Z.of_nat (prec fhirpath_table o) =? pr) && is_type_op fhirpath_table o
                      | None => false end) toks
  else if String.eqb shape "prefix" then
    (Z.of_nat (p_polarity fhirpath_table) =? pr) &&
    forallb (fun t => match op_id t with Some o => is_polarity fhirpath_table o | None => false end) toks
  else if String.eqb shape "indexer" then Z.of_nat (p_index fhirpath_table) =? pr
  else if String.eqb shape "invocation" then Z.of_nat (p_invoke fhirpath_table) =? pr
  else String.eqb shape "term".
(* every operator of the model's table appears in some alternative of the grammar *)
Definition all_ops_covered (alts : list (string * string * Z * list string)) : bool :=
  forallb (fun p => existsb (fun a => let '(_, _, _, toks) := a in existsb (String.eqb (snd p)) toks) alts) op_names.
(* the generated parser is left-associative on every binary level: right operand parsed one level higher *)
Definition levels_left_assoc (alts : list (string * string * Z * list string)) (levels : list (Z * Z)) : bool :=
  forallb (fun a => let '(_, shape, pr, _) := a in
                    if String.eqb shape "binary" then existsb (fun l => (fst l =? pr) && (snd l =? pr + 1)) levels
                                                     && negb (existsb (fun l => (fst l =? pr) && negb (snd l =? pr + 1) && negb (snd l =? -1)) levels)
                    else true) alts.
