(* C11/Lexer.v -- a character-level model of the lexer ANTLR generates from the lexical rules of fhirpath.g4
   (fhirpath/internal/grammar/fhirpath_lexer.go), over bytes.  Hidden-channel tokens (WS, COMMENT, LINE_COMMENT)
   are consumed by the automaton `skipm`; default-channel tokens are cut by `scan` (longest match; keywords and
   IDENTIFIER have the same extent, so only the text of a token is modelled, which is what the parser sees).
   Modelled: WS, both comment forms, IDENTIFIER / keywords, `$this` `$index` `$total`, NUMBER, STRING and
   DELIMITEDIDENTIFIER with the escape-first reading of `(ESC | .)*?`, every operator and punctuation literal.
   DATE / DATETIME / TIME literals are a small grammar of nested optional parts (`gram`, `run`).
   NOT modelled (lex answers None and the judge says so): the
   fallback reading of a quoted token in which a backslash is taken as an ordinary character because the
   escape-first reading never finds a closing quote.  No proofs here. *)
From FPV Require Import Base.Prelude.
Local Open Scope N_scope.

Definition is_ws (c : N) : bool := (c =? 32) || (c =? 9) || (c =? 10) || (c =? 13).
Definition is_nl (c : N) : bool := (c =? 10) || (c =? 13).
Definition is_digit (c : N) : bool := (48 <=? c) && (c <=? 57).
Definition is_alpha (c : N) : bool := ((65 <=? c) && (c <=? 90)) || ((97 <=? c) && (c <=? 122)) || (c =? 95).
Definition is_idc (c : N) : bool := is_alpha c || is_digit c.

Fixpoint span (p : N -> bool) (s : list N) : list N * list N :=
  match s with
  | c :: r => if p c then let (a, b) := span p r in (c :: a, b) else ([], s)
  | [] => ([], [])
  end.

(* ---- hidden channel: whitespace, // line comments, /* block comments */ ------------------------------------- *)
Inductive mode := MTop | MLine | MOpen | MBlock | MStar.
(* skipm m s: the rest of s after every leading hidden token.  In the block modes None = this comment never closes;
   the generated lexer then takes the `/` as the division operator (COMMENT does not match, '/' does), so MTop
   answers the position of that `/`. *)
Fixpoint skipm (m : mode) (s : list N) : option (list N) :=
  match s with
  | [] => match m with MTop | MLine => Some [] | _ => None end
  | c :: r =>
    match m with
    | MTop => if is_ws c then skipm MTop r
              else if c =? 47 then
                match r with
                | d :: _ => if d =? 47 then skipm MLine r
                          else if d =? 42 then match skipm MOpen r with Some x => Some x | None => Some s end
                          else Some s
                | [] => Some s
                end
              else Some s
    | MLine => if is_nl c then skipm MTop r else skipm MLine r
    | MOpen => skipm MBlock r                         (* the `*` of the opening `/*` *)
    | MBlock => if c =? 42 then skipm MStar r else skipm MBlock r
    | MStar => if c =? 47 then skipm MTop r else if c =? 42 then skipm MStar r else skipm MBlock r
    end
  end.

(* ---- default channel ------------------------------------------------------------------------------------------ *)
(* the body of a quoted token after the opening quote q, escape-first: a backslash takes the next character with it *)
Fixpoint scan_q (q : N) (esc : bool) (s : list N) : option (list N * list N) :=
  match s with
  | [] => None
  | c :: r =>
    if esc then match scan_q q false r with Some (a, b) => Some (c :: a, b) | None => None end
    else if c =? q then Some ([c], r)
    else match scan_q q (c =? 92) r with Some (a, b) => Some (c :: a, b) | None => None end
  end.

Fixpoint strip_prefix (p s : list N) : option (list N) :=
  match p, s with
  | [], _ => Some s
  | x :: p', y :: s' => if x =? y then strip_prefix p' s' else None
  | _ :: _, [] => None
  end.

Definition kw_this : list N := [116; 104; 105; 115].
Definition kw_index : list N := [105; 110; 100; 101; 120].
Definition kw_total : list N := [116; 111; 116; 97; 108].

(* NUMBER continues over `.` only when a digit follows it *)
Definition frac_follows (r : list N) : bool :=
  match r with d :: e :: _ => (d =? 46) && is_digit e | _ => false end.
Definition eq_follows (r : list N) : bool := match r with d :: _ => d =? 61 | [] => false end.

(* . [ ] + - * / & | = ~ ( ) { } % , *)
Definition is_single (c : N) : bool :=
  existsb (N.eqb c) [46; 91; 93; 43; 45; 42; 47; 38; 124; 61; 126; 40; 41; 123; 125; 37; 44].

(* ---- DATE / DATETIME / TIME literals: nested optional parts, each all-or-nothing, taken greedily ------------------- *)
(* a fixed-length pattern: one character class per position; all of it or nothing *)
Fixpoint take_pat (ps : list (N -> bool)) (s : list N) : option (list N * list N) :=
  match ps, s with
  | [], _ => Some ([], s)
  | p :: ps', c :: r => if p c then match take_pat ps' r with Some (l, r') => Some (c :: l, r') | None => None end else None
  | _ :: _, [] => None
  end.
Inductive gram :=
| GEnd
| GDigits                                      (* any further digits, then the end *)
| GReq (ps : list (N -> bool)) (k : gram)      (* the pattern, then k *)
| GOpt (inner k : gram).                       (* inner if all of its required part is there, then k *)
Fixpoint run (g : gram) (s : list N) : option (list N * list N) :=
  match g with
  | GEnd => Some ([], s)
  | GDigits => Some (span is_digit s)
  | GReq ps k => match take_pat ps s with
                 | Some (l, r) => match run k r with Some (l2, r2) => Some (l ++ l2, r2) | None => None end
                 | None => None
                 end
  | GOpt inner k => match run inner s with
                    | Some (l, r) => match run k r with Some (l2, r2) => Some (l ++ l2, r2) | None => None end
                    | None => run k s
                    end
  end.
Definition is_c (x : N) (c : N) : bool := c =? x.
Definition is_pm (c : N) : bool := (c =? 43) || (c =? 45).
Definition dd := [is_digit; is_digit].
(* TIMEFORMAT: dd (: dd (: dd (. d+)?)?)? *)
Definition g_time (k : gram) : gram :=
  GReq dd (GOpt (GReq (is_c 58 :: dd) (GOpt (GReq (is_c 58 :: dd) (GOpt (GReq [is_c 46; is_digit] GDigits) GEnd)) GEnd)) k).
(* TIMEZONEOFFSETFORMAT: Z | (+|-) dd : dd *)
Definition g_tz : gram := GOpt (GReq [is_c 90] GEnd) (GOpt (GReq (is_pm :: dd ++ is_c 58 :: dd) GEnd) GEnd).
(* after `@`:  T TIMEFORMAT  |  dddd (- dd (- dd)?)? (T (TIMEFORMAT tz?)?)? *)
Definition g_timelit : gram := GReq [is_c 84] (g_time GEnd).
Definition g_datelit : gram :=
  GReq [is_digit; is_digit; is_digit; is_digit]
    (GOpt (GReq (is_c 45 :: dd) (GOpt (GReq (is_c 45 :: dd) GEnd) GEnd))
      (GOpt (GReq [is_c 84] (GOpt (g_time g_tz) GEnd)) GEnd)).
Definition scan_at (s : list N) : option (list N * list N) :=
  match run g_timelit s with
  | Some x => Some x
  | None => run g_datelit s
  end.

(* one default-channel token: (text, rest); None = no lexer rule matches here (or not modelled) *)
Definition scan (s : list N) : option (list N * list N) :=
  match s with
  | [] => None
  | c :: r =>
    if is_alpha c then let (a, b) := span is_idc r in Some (c :: a, b)
    else if is_digit c then
      let (a, b) := span is_digit r in
      if frac_follows b then
        match b with
        | d :: b1 => let (a2, b2) := span is_digit b1 in Some (c :: a ++ d :: a2, b2)
        | [] => None
        end
      else Some (c :: a, b)
    else if (c =? 39) || (c =? 96) then
      match scan_q c false r with Some (a, b) => Some (c :: a, b) | None => None end
    else if c =? 64 then
      match scan_at r with Some (a, b) => Some (c :: a, b) | None => None end
    else if c =? 36 then
      match strip_prefix kw_this r with
      | Some b => Some (c :: kw_this, b)
      | None => match strip_prefix kw_index r with
                | Some b => Some (c :: kw_index, b)
                | None => match strip_prefix kw_total r with
                          | Some b => Some (c :: kw_total, b)
                          | None => None
                          end
                end
      end
    else if (c =? 60) || (c =? 62) then
      if eq_follows r then Some ([c; 61], tl r) else Some ([c], r)
    else if c =? 33 then
      match r with
      | d :: r' => if (d =? 61) || (d =? 126) then Some ([c; d], r') else None
      | [] => None
      end
    else if is_single c then Some ([c], r)
    else None
  end.

(* the token texts of a source; fuel counts tokens (S (length s) always suffices) *)
Fixpoint lex (fuel : nat) (s : list N) : option (list (list N)) :=
  match fuel with
  | O => None
  | S f =>
    match skipm MTop s with
    | None => None
    | Some [] => Some []
    | Some (c :: r0) =>
      match scan (c :: r0) with
      | Some (l, r) => match lex f r with Some ts => Some (l :: ts) | None => None end
      | None => None
      end
    end
  end.
Definition lex_all (s : list N) : option (list (list N)) := lex (S (length s)) s.

(* ---- correspondence with the generated lexer --------------------------------------------------------------------- *)
(* one case: a source and a variant of it in which the harness inserted whitespace / comments at token boundaries
   reported by the generated lexer; observation: the generated lexer's default-channel token texts of both
   (None = the lexer reported an error) *)
Definition lcase := (list N * list N)%type.
Definition lobs := (option (list (list N)) * option (list (list N)) * bool * bool)%type.
Definition toks_eqb := list_eqb (list_eqb N.eqb).
Definition otoks_eqb (a b : option (list (list N))) : bool :=
  match a, b with Some x, Some y => toks_eqb x y | None, None => true | _, _ => false end.
Definition unmodelled (s : list N) : bool := existsb (fun c => c =? 92) s.
(* the model answers exactly what the generated lexer answers, except on the unmodelled form (a source with a
   backslash on which the model fails), where a model None says nothing *)
Definition agrees1 (s : list N) (o : option (list (list N))) : bool :=
  match lex_all s with
  | Some ts => otoks_eqb (Some ts) o
  | None => unmodelled s || otoks_eqb None o
  end.
Definition lagrees (c : lcase) (o : lobs) : bool :=
  let '(o1, o2, _, _) := o in agrees1 (fst c) o1 && agrees1 (snd c) o2.
(* the property on the implementation's own answers: Compile accepts the variant iff it accepts the source, and an
   accepted source and its variant have the same token stream.  A rejected source may turn into an accepted one
   only when it contains `/*` that never closes (ANTLR lexes that as `/` `*`; text appended later can close it). *)
Fixpoint has_open (s : list N) : bool :=      (* the bytes `/` `*` next to each other *)
  match s with c :: ((d :: _) as r) => ((c =? 47) && (d =? 42)) || has_open r | _ => false end.
Definition lholds (c : lcase) (o : lobs) : bool :=
  let '(o1, o2, c1, c2) := o in
  if c1 then c2 && otoks_eqb o1 o2
  else negb c2 || has_open (fst c).   (* text after an opener that never closes is not "between tokens" *)
Definition ljudge (x : N * lcase * lobs) : verdict :=
  let '(id, c, o) := x in
  {| v_id := id; v_agree := lagrees c o; v_holds := lholds c o; v_kf := 0 |}.
