(* C11/ProofsFull.v -- the round trip for the WHOLE tree language: atoms, polarity, binary operators, is/as with
   qualified type names, member access, function and method invocation with argument lists, indexers.
   For any precedence table in which every binary / type operator binds looser than polarity, and polarity
   looser than indexers and invocations (as in fhirpath.g4), every well-formed tree of any size, printed with
   minimal parentheses, is parsed back to itself. *)
From FPV Require Import Base.Prelude C11.Model C11.Proofs.
Local Open Scope nat_scope.

Section F.
Variable T : ptable.
Hypothesis pol_lt_index : (p_polarity T < p_index T)%nat.
Hypothesis pol_lt_invoke : (p_polarity T < p_invoke T)%nat.
Hypothesis index_le : (p_index T <= S (p_invoke T))%nat.

Definition mono_p f := proj1 (proj2 (mono T f)).
Definition mono_a f := proj1 (proj2 (proj2 (mono T f))).

(* ---- size, well-formedness ------------------------------------------------------------------------------------- *)
Fixpoint size (t : tree) : nat :=
  match t with
  | Atom _ => 1
  | Pol _ e => S (size e)
  | Bin _ l r => S (size l + size r)
  | TypeOp _ e _ => S (size e)
  | Member e _ => S (size e)
  | Invoke e _ args => S (size e + (fix sz (l : list tree) : nat := match l with [] => 0 | x :: r => size x + sz r end) args)
  | Call _ args => S ((fix sz (l : list tree) : nat := match l with [] => 0 | x :: r => size x + sz r end) args)
  | Index e i => S (size e + size i)
  end.
Fixpoint sizes (l : list tree) : nat := match l with [] => 0 | x :: r => size x + sizes r end.
Lemma sz_sizes : forall args, (fix sz (l : list tree) : nat := match l with [] => 0 | x :: r => size x + sz r end) args = sizes args.
Proof. induction args as [|x r IH]; [reflexivity|]. cbn [sizes]. rewrite <- IH. reflexivity. Qed.
Lemma size_call f args : size (Call f args) = S (sizes args).
Proof. rewrite <- sz_sizes. reflexivity. Qed.
Lemma size_invoke e f args : size (Invoke e f args) = S (size e + sizes args).
Proof. rewrite <- sz_sizes. reflexivity. Qed.

Fixpoint wf (t : tree) : Prop :=
  match t with
  | Atom _ => True
  | Pol o e => is_polarity T o = true /\ wf e
  | Bin o l r => is_type_op T o = false /\ (prec T o < p_polarity T)%nat /\ wf l /\ wf r
  | TypeOp o e ty => is_type_op T o = true /\ (prec T o < p_polarity T)%nat /\ ty <> [] /\ wf e
  | Member e _ => wf e
  | Invoke e _ args => wf e /\ (fix all (l : list tree) : Prop := match l with [] => True | x :: r => wf x /\ all r end) args
  | Call _ args => (fix all (l : list tree) : Prop := match l with [] => True | x :: r => wf x /\ all r end) args
  | Index e i => wf e /\ wf i
  end.
Fixpoint wfs (l : list tree) : Prop := match l with [] => True | x :: r => wf x /\ wfs r end.
Lemma wf_call f args : wf (Call f args) <-> wfs args.
Proof. cbn [wf]. induction args as [|x r IH]; [tauto|]. cbn [wfs]. tauto. Qed.
Lemma wf_invoke e f args : wf (Invoke e f args) <-> wf e /\ wfs args.
Proof. cbn [wf]. assert (H : (fix all (l : list tree) : Prop := match l with [] => True | x :: r => wf x /\ all r end) args <-> wfs args).
  { induction args as [|x r IH]; [tauto|]. cbn [wfs]. tauto. } tauto. Qed.

(* ---- what follows an expression ----------------------------------------------------------------------------------- *)
Definition head_level (rest : list tok) : option nat :=
  match rest with
  | TOp o :: _ => Some (prec T o)
  | TDot :: _ => Some (p_invoke T)
  | TLB :: _ => Some (p_index T)
  | _ => None
  end.
(* a loop running at level q would take the head of rest *)
Definition absorbs (q : nat) (rest : list tok) : bool :=
  match head_level rest with Some l => Nat.leb q l | None => false end.
Definition nolp (rest : list tok) : Prop := match rest with TLP :: _ => False | _ => True end.
Definition nodot (rest : list tok) : Prop := match rest with TDot :: _ => False | _ => True end.

(* the condition under which the un-parenthesised rendering of t can be followed by rest *)
Definition inner_ok' (p : nat) (t : tree) (rest : list tok) : Prop :=
  if Nat.ltb (root_level T t) p then True
  else match t with
       | Bin o _ _ => absorbs (S (prec T o)) rest = false
       | TypeOp _ _ _ => nodot rest
       | Pol _ _ => absorbs (p_polarity T) rest = false
       | _ => True
       end.

Lemma absorbs_mono q q' rest : (q <= q')%nat -> absorbs q rest = false -> absorbs q' rest = false.
Proof.
  unfold absorbs. destruct (head_level rest) as [l|]; [|reflexivity].
  intros H E. apply Nat.leb_gt in E. apply Nat.leb_gt. lia.
Qed.

(* a loop whose level the head of rest does not reach stops at once *)
Lemma loop_stops f q e rest : absorbs q rest = false -> loop T (S f) q e rest = Some (e, rest).
Proof.
  intro H. rewrite loop_S. unfold absorbs, head_level in H.
  destruct rest as [|[a|o| | | | | |] r]; try reflexivity.
  - rewrite H. reflexivity.
  - rewrite H. reflexivity.
  - destruct r as [|[n|o| | | | | |] r']; try reflexivity.
    destruct r' as [|[n2|o2| | | | | |] r'']; try (rewrite H; reflexivity).
    destruct r'' as [|[n3|o3| | | | | |] r3]; rewrite H; reflexivity.
Qed.

(* renderings start with an atom, an operator or an opening parenthesis *)
Definition starts_ok (ts : list tok) : Prop :=
  match ts with TAtom _ :: _ | TOp _ :: _ | TLP :: _ => True | _ => False end.
Lemma starts_ok_app a b : starts_ok a -> starts_ok (a ++ b).
Proof. destruct a as [|[x|o| | | | | |] r]; cbn; intro H; try exact I; contradiction. Qed.
Lemma render_starts : forall t p, starts_ok (render_min T p t).
Proof.
  induction t as [a|o e IHe|o l IHl r IHr|o e IHe ty|e IHe n|e IHe fn args|fn args|e IHe i IHi]; intro p;
    cbn [render_min]; destruct (Nat.ltb _ p); cbn [paren]; try exact I;
    try (apply starts_ok_app; apply IHe); try (apply starts_ok_app; apply IHl).
Qed.

(* qualified type names *)
Lemma parse_qualified_render : forall ty rest f, ty <> [] -> nodot rest -> (List.length ty <= f)%nat ->
  parse_qualified f (qualified ty ++ rest) = Some (ty, rest).
Proof.
  clear pol_lt_index pol_lt_invoke index_le.
  induction ty as [|n ty IH]; intros rest f Hne Hnd Hf; [contradiction|].
  destruct f as [|f]; [cbn in Hf; lia|].
  destruct ty as [|m ty'].
  - cbn [qualified app parse_qualified]. destruct rest as [|[x|o| | | | | |] r]; try reflexivity. cbn in Hnd. contradiction.
  - change (qualified (n :: m :: ty') ++ rest) with (TAtom n :: TDot :: qualified (m :: ty') ++ rest).
    assert (Hs : exists r', qualified (m :: ty') ++ rest = TAtom m :: r').
    { cbn [qualified]. destruct ty'; cbn; eexists; reflexivity. }
    destruct Hs as [r' Hr']. cbn [parse_qualified]. rewrite Hr'. rewrite <- Hr'.
    rewrite (IH rest f) by (try discriminate; try exact Hnd; cbn in Hf |- *; lia). reflexivity.
Qed.

(* ---- the rendering, one level unfolded ----------------------------------------------------------------------------- *)
Definition body (t : tree) : list tok :=
  match t with
  | Atom a => [TAtom a]
  | Pol o e => TOp o :: render_min T (p_polarity T) e
  | Bin o l r => render_min T (prec T o) l ++ TOp o :: render_min T (S (prec T o)) r
  | TypeOp o e ty => render_min T (prec T o) e ++ TOp o :: qualified ty
  | Member e n => render_min T (p_invoke T) e ++ [TDot; TAtom n]
  | Invoke e f args => render_min T (p_invoke T) e ++ TDot :: TAtom f :: TLP :: intersperse TComma (map (render_min T 0) args) ++ [TRP]
  | Call f args => TAtom f :: TLP :: intersperse TComma (map (render_min T 0) args) ++ [TRP]
  | Index e i => render_min T (p_index T) e ++ TLB :: render_min T 0 i ++ [TRB]
  end.
Lemma render_min_unfold p t : render_min T p t = paren (Nat.ltb (root_level T t) p) (body t).
Proof. destruct t; reflexivity. Qed.

Definition tail_ok (t : tree) (rest : list tok) : Prop :=
  match t with
  | Bin o _ _ => absorbs (S (prec T o)) rest = false
  | TypeOp _ _ _ => nodot rest
  | Pol _ _ => absorbs (p_polarity T) rest = false
  | _ => True
  end.
Lemma inner_ok'_unfold p t rest : inner_ok' p t rest = if Nat.ltb (root_level T t) p then True else tail_ok t rest.
Proof. destruct t; reflexivity. Qed.

Lemma tail_from_absorbs c q rest : wf c -> q <= root_level T c -> absorbs q rest = false -> tail_ok c rest.
Proof.
  intros Hw Hq Ha. destruct c as [a|o e|o l r|o e ty|e n|e fn args|fn args|e i]; cbn [tail_ok root_level] in *; try exact I.
  - apply (absorbs_mono q); [exact Hq|exact Ha].
  - apply (absorbs_mono q); [lia|exact Ha].
  - destruct Hw as [_ [Hp _]]. destruct rest as [|[x|o2| | | | | |] r']; cbn; try exact I.
    unfold absorbs, head_level in Ha. apply Nat.leb_gt in Ha. lia.
Qed.
Lemma tail_after_op c o r : wf c -> prec T o <= root_level T c -> prec T o < p_polarity T -> tail_ok c (TOp o :: r).
Proof.
  intros Hw Hq Hp. destruct c as [a|o' e|o' l' r'|o' e ty|e n|e fn args|fn args|e i]; cbn [tail_ok root_level] in *; try exact I.
  - unfold absorbs, head_level. apply Nat.leb_gt. lia.
  - unfold absorbs, head_level. apply Nat.leb_gt. lia.
Qed.
Lemma tail_high c rest : wf c -> p_polarity T < root_level T c -> tail_ok c rest.
Proof.
  intros Hw Hq. destruct c as [a|o e|o l r|o e ty|e n|e fn args|fn args|e i]; cbn [tail_ok root_level wf] in *; try exact I; lia.
Qed.
Lemma inner_from_tail q c rest : (q <= root_level T c -> tail_ok c rest) -> inner_ok' q c rest.
Proof. intro H. rewrite inner_ok'_unfold. destruct (Nat.ltb (root_level T c) q) eqn:E; [exact I|]. apply Nat.ltb_ge in E. exact (H E). Qed.

Lemma root_level_le t : wf t -> root_level T t <= S (p_invoke T).
Proof.
  destruct t as [a|o e|o l r|o e ty|e n|e fn args|fn args|e i]; cbn [root_level wf]; intro Hw; lia.
Qed.

Definition Key (t : tree) : Prop := forall p0 p rest res f,
  p0 <= p -> p <= S (p_invoke T) -> inner_ok' p t rest -> nolp rest ->
  loop T f p0 t rest = Some res ->
  exists f0, forall f', f0 <= f' -> parse_expr T f' p0 (render_min T p t ++ rest) = Some res.
Definition Body (t : tree) : Prop := forall p0 p rest res f,
  p0 <= p -> p <= root_level T t -> tail_ok t rest -> nolp rest ->
  loop T f p0 t rest = Some res ->
  exists f0, forall f', f0 <= f' -> parse_expr T f' p0 (body t ++ rest) = Some res.

Lemma key_of_body t : wf t -> Body t -> Key t.
Proof.
  intros Hw HB p0 p rest res f Hp0 Hp Hin Hnl Hloop.
  rewrite render_min_unfold. rewrite inner_ok'_unfold in Hin.
  destruct (Nat.ltb (root_level T t) p) eqn:E; cbn [paren].
  - (* parenthesised *)
    destruct (HB 0 (root_level T t) (TRP :: rest) (t, TRP :: rest) 1) as [f1 H1]; [lia|lia| |exact I|reflexivity|].
    { destruct t; cbn [tail_ok]; try exact I; reflexivity. }
    exists (S (S (f1 + f))). intros f' Hf. destruct f' as [|[|f']]; try lia.
    replace ((TLP :: body t ++ [TRP]) ++ rest) with (TLP :: body t ++ TRP :: rest) by (cbn [app]; rewrite <- app_assoc; reflexivity).
    rewrite parse_expr_S, parse_prefix_S. rewrite (H1 f') by lia. apply (mono_l T f); [exact Hloop|lia].
  - apply Nat.ltb_ge in E. apply (HB p0 p rest res f); assumption.
Qed.

(* ---- one lemma per node kind: the body parses, given the key property of the children ------------------------ *)
Lemma prefix_atom' f a rest : nolp rest -> parse_prefix T (S f) (TAtom a :: rest) = Some (Atom a, rest).
Proof. intro H. rewrite parse_prefix_S. destruct rest as [|[x|o| | | | | |] r]; try reflexivity. cbn in H. contradiction. Qed.

Lemma body_atom a : Body (Atom a).
Proof.
  intros p0 p rest res f Hp0 Hp _ Hnl Hloop. exists (S (S f)). intros f' Hf. destruct f' as [|[|f']]; try lia.
  cbn [body app]. rewrite parse_expr_S, (prefix_atom' f' a rest Hnl). apply (mono_l T f); [exact Hloop|lia].
Qed.

Lemma body_pol o e : wf (Pol o e) -> Key e -> Body (Pol o e).
Proof.
  intros [Hpol Hwe] Ke p0 p rest res f Hp0 Hp Htail Hnl Hloop. cbn [tail_ok] in Htail.
  destruct (Ke (p_polarity T) (p_polarity T) rest (e, rest) 1) as [f1 H1]; [lia|lia| |exact Hnl|apply loop_stops; exact Htail|].
  { apply inner_from_tail. intro Hq. apply (tail_from_absorbs e (p_polarity T)); assumption. }
  exists (S (S (f1 + f))). intros f' Hf. destruct f' as [|[|f']]; try lia.
  cbn [body app]. rewrite parse_expr_S, parse_prefix_S, Hpol, (H1 f') by lia. apply (mono_l T f); [exact Hloop|lia].
Qed.

Lemma body_bin o l r : wf (Bin o l r) -> Key l -> Key r -> Body (Bin o l r).
Proof.
  intros [Hty [Hpo [Hwl Hwr]]] Kl Kr p0 p rest res f Hp0 Hp Htail Hnl Hloop. cbn [tail_ok root_level] in Htail, Hp.
  destruct (Kr (S (prec T o)) (S (prec T o)) rest (r, rest) 1) as [fr Hr]; [lia|lia| |exact Hnl|apply loop_stops; exact Htail|].
  { apply inner_from_tail. intro Hq. apply (tail_from_absorbs r (S (prec T o))); assumption. }
  destruct (Kl p0 (prec T o) (TOp o :: render_min T (S (prec T o)) r ++ rest) res (S (fr + f))) as [fl Hl]; [lia|lia| |exact I| |].
  { apply inner_from_tail. intro Hq. apply tail_after_op; assumption. }
  { rewrite loop_S. assert (H : Nat.leb p0 (prec T o) = true) by (apply Nat.leb_le; lia). rewrite H, Hty.
    rewrite (Hr (fr + f)) by lia. apply (mono_l T f); [exact Hloop|lia]. }
  exists fl. intros f' Hf. cbn [body]. rewrite <- app_assoc. cbn [app]. apply Hl. exact Hf.
Qed.

Lemma body_typeop o e ty : wf (TypeOp o e ty) -> Key e -> Body (TypeOp o e ty).
Proof.
  intros [Hty [Hpo [Hne Hwe]]] Ke p0 p rest res f Hp0 Hp Htail Hnl Hloop. cbn [tail_ok root_level] in Htail, Hp.
  destruct (Ke p0 (prec T o) (TOp o :: qualified ty ++ rest) res (S (List.length ty + f))) as [fe He]; [lia|lia| |exact I| |].
  { apply inner_from_tail. intro Hq. apply tail_after_op; assumption. }
  { rewrite loop_S. assert (H : Nat.leb p0 (prec T o) = true) by (apply Nat.leb_le; lia). rewrite H, Hty.
    rewrite (parse_qualified_render ty rest (List.length ty + f) Hne Htail) by lia. apply (mono_l T f); [exact Hloop|lia]. }
  exists fe. intros f' Hf. cbn [body]. rewrite <- app_assoc. cbn [app]. apply He. exact Hf.
Qed.

Lemma loop_member f p0 e n rest : nolp rest -> p0 <= p_invoke T ->
  loop T (S f) p0 e (TDot :: TAtom n :: rest) = loop T f p0 (Member e n) rest.
Proof.
  intros Hnl Hp. rewrite loop_S. assert (H : Nat.leb p0 (p_invoke T) = true) by (apply Nat.leb_le; exact Hp).
  destruct rest as [|[x|o| | | | | |] r]; try (rewrite H; reflexivity). cbn in Hnl. contradiction.
Qed.

Lemma body_member e n : wf (Member e n) -> Key e -> Body (Member e n).
Proof.
  intros Hwe Ke p0 p rest res f Hp0 Hp _ Hnl Hloop. cbn [wf root_level] in Hwe, Hp.
  destruct (Ke p0 (p_invoke T) (TDot :: TAtom n :: rest) res (S f)) as [fe He]; [lia|lia| |exact I| |].
  { apply inner_from_tail. intro Hq. apply tail_high; [exact Hwe|lia]. }
  { rewrite loop_member by (assumption || lia). exact Hloop. }
  exists fe. intros f' Hf. cbn [body]. rewrite <- app_assoc. cbn [app]. apply He. exact Hf.
Qed.

Lemma closer_tail c rest : wf c -> head_level rest = None -> nodot rest -> tail_ok c rest.
Proof.
  intros Hw Hh Hd. destruct c; cbn [tail_ok]; try exact I; try exact Hd; unfold absorbs; rewrite Hh; reflexivity.
Qed.

Lemma body_index e i : wf (Index e i) -> Key e -> Key i -> Body (Index e i).
Proof.
  intros [Hwe Hwi] Ke Ki p0 p rest res f Hp0 Hp _ Hnl Hloop. cbn [root_level] in Hp.
  destruct (Ki 0 0 (TRB :: rest) (i, TRB :: rest) 1) as [fi Hi]; [lia|lia| |exact I|reflexivity|].
  { apply inner_from_tail. intros _. apply closer_tail; [exact Hwi|reflexivity|exact I]. }
  destruct (Ke p0 (p_index T) (TLB :: render_min T 0 i ++ TRB :: rest) res (S (fi + f))) as [fe He]; [lia|lia| |exact I| |].
  { apply inner_from_tail. intro Hq. apply tail_high; [exact Hwe|lia]. }
  { rewrite loop_S. assert (H : Nat.leb p0 (p_index T) = true) by (apply Nat.leb_le; lia). rewrite H.
    rewrite (Hi (fi + f)) by lia. apply (mono_l T f); [exact Hloop|lia]. }
  exists fe. intros f' Hf. cbn [body]. rewrite <- !app_assoc. cbn [app]. rewrite <- app_assoc. cbn [app]. apply He. exact Hf.
Qed.

(* argument lists *)
Lemma args_parse : forall args rest, args <> [] -> (forall a, In a args -> wf a /\ Key a) ->
  exists f0, forall f', f0 <= f' ->
    parse_args T f' (intersperse TComma (map (render_min T 0) args) ++ TRP :: rest) = Some (args, rest).
Proof.
  induction args as [|a args IH]; intros rest Hne Hall; [contradiction|].
  destruct (Hall a (or_introl eq_refl)) as [Hwa Ka].
  destruct args as [|b args'].
  - cbn [map intersperse].
    destruct (Ka 0 0 (TRP :: rest) (a, TRP :: rest) 1) as [f1 H1]; [lia|lia| |exact I|reflexivity|].
    { apply inner_from_tail. intros _. apply closer_tail; [exact Hwa|reflexivity|exact I]. }
    exists (S f1). intros f' Hf. destruct f' as [|f']; [lia|]. rewrite parse_args_S, (H1 f') by lia. reflexivity.
  - destruct (IH rest ltac:(discriminate) (fun x Hx => Hall x (or_intror Hx))) as [f2 H2].
    set (X := intersperse TComma (map (render_min T 0) (b :: args'))) in *.
    assert (EX : intersperse TComma (map (render_min T 0) (a :: b :: args')) = render_min T 0 a ++ TComma :: X) by reflexivity.
    rewrite EX.
    destruct (Ka 0 0 (TComma :: X ++ TRP :: rest) (a, TComma :: X ++ TRP :: rest) 1) as [f1 H1]; [lia|lia| |exact I|reflexivity|].
    { apply inner_from_tail. intros _. apply closer_tail; [exact Hwa|reflexivity|exact I]. }
    exists (S (f1 + f2)). intros f' Hf. destruct f' as [|f']; [lia|].
    rewrite <- app_assoc. cbn [app]. rewrite parse_args_S, (H1 f') by lia. rewrite (H2 f') by lia. reflexivity.
Qed.

Lemma args_text_starts args : args <> [] -> starts_ok (intersperse TComma (map (render_min T 0) args)).
Proof.
  destruct args as [|a [|b r]]; intro H; [contradiction| |]; cbn [map intersperse].
  - apply render_starts.
  - apply starts_ok_app. apply render_starts.
Qed.

Lemma body_call fn args : (forall a, In a args -> wf a /\ Key a) -> Body (Call fn args).
Proof.
  intros Hall p0 p rest res f Hp0 Hp _ Hnl Hloop.
  cbn [body]. set (X := intersperse TComma (map (render_min T 0) args)).
  replace ((TAtom fn :: TLP :: X ++ [TRP]) ++ rest) with (TAtom fn :: TLP :: X ++ TRP :: rest) by (cbn [app]; rewrite <- app_assoc; reflexivity).
  destruct args as [|a args'].
  - exists (S (S f)). intros f' Hf. destruct f' as [|[|f']]; try lia.
    subst X. cbn [map intersperse app]. rewrite parse_expr_S, parse_prefix_S. apply (mono_l T f); [exact Hloop|lia].
  - destruct (args_parse (a :: args') rest ltac:(discriminate) Hall) as [fa Ha]. fold X in Ha.
    pose proof (args_text_starts (a :: args') ltac:(discriminate)) as Hst. fold X in Hst.
    exists (S (S (fa + f))). intros f' Hf. destruct f' as [|[|f']]; try lia.
    rewrite parse_expr_S, parse_prefix_S.
    destruct X as [|[x|o| | | | | |] X']; cbn in Hst; try contradiction; cbn [app] in *;
      rewrite (Ha f') by lia; apply (mono_l T f); (exact Hloop || lia).
Qed.

Lemma body_invoke e fn args : wf e -> Key e -> (forall a, In a args -> wf a /\ Key a) -> Body (Invoke e fn args).
Proof.
  intros Hwe Ke Hall p0 p rest res f Hp0 Hp _ Hnl Hloop. cbn [root_level] in Hp.
  cbn [body]. set (X := intersperse TComma (map (render_min T 0) args)).
  replace ((render_min T (p_invoke T) e ++ TDot :: TAtom fn :: TLP :: X ++ [TRP]) ++ rest)
    with (render_min T (p_invoke T) e ++ TDot :: TAtom fn :: TLP :: X ++ TRP :: rest)
    by (rewrite <- app_assoc; cbn [app]; rewrite <- app_assoc; reflexivity).
  assert (Hleb : Nat.leb p0 (p_invoke T) = true) by (apply Nat.leb_le; lia).
  assert (Hin : inner_ok' (p_invoke T) e (TDot :: TAtom fn :: TLP :: X ++ TRP :: rest)).
  { apply inner_from_tail. intro Hq. apply tail_high; [exact Hwe|lia]. }
  destruct args as [|a args'].
  - destruct (Ke p0 (p_invoke T) (TDot :: TAtom fn :: TLP :: X ++ TRP :: rest) res (S f)) as [fe He]; [lia|lia|exact Hin|exact I| |].
    { subst X. cbn [map intersperse app]. rewrite loop_S, Hleb. exact Hloop. }
    exists fe. intros f' Hf. apply He. exact Hf.
  - destruct (args_parse (a :: args') rest ltac:(discriminate) Hall) as [fa Ha]. fold X in Ha.
    pose proof (args_text_starts (a :: args') ltac:(discriminate)) as Hst. fold X in Hst.
    destruct (Ke p0 (p_invoke T) (TDot :: TAtom fn :: TLP :: X ++ TRP :: rest) res (S (fa + f))) as [fe He]; [lia|lia|exact Hin|exact I| |].
    { rewrite loop_S.
      destruct X as [|[x|o| | | | | |] X']; cbn in Hst; try contradiction; cbn [app] in *;
        rewrite Hleb, (Ha (fa + f)) by lia; apply (mono_l T f); (exact Hloop || lia). }
    exists fe. intros f' Hf. apply He. exact Hf.
Qed.

(* ---- every well-formed tree ------------------------------------------------------------------------------------------ *)
Lemma size_in a args : In a args -> size a <= sizes args.
Proof. clear pol_lt_index pol_lt_invoke index_le. induction args as [|x r IH]; [contradiction|]. intros [->|H]; cbn [sizes]; [lia|]. specialize (IH H). lia. Qed.
Lemma wfs_in a args : wfs args -> In a args -> wf a.
Proof. induction args as [|x r IH]; [contradiction|]. intros [Hx Hr] [->|H]; [exact Hx|exact (IH Hr H)]. Qed.

Theorem key_all : forall n t, size t < n -> wf t -> Key t.
Proof.
  induction n as [|n IH]; intros t Hs Hw; [lia|].
  apply key_of_body; [exact Hw|].
  destruct t as [a|o e|o l r|o e ty|e nm|e fn args|fn args|e i].
  - apply body_atom.
  - cbn [size] in Hs. apply body_pol; [exact Hw|]. apply IH; [lia|]. destruct Hw as [_ H]. exact H.
  - cbn [size] in Hs. destruct Hw as [H1 [H2 [Hwl Hwr]]]. apply body_bin; [cbn [wf]; tauto| |]; apply IH; (lia || assumption).
  - cbn [size] in Hs. destruct Hw as [H1 [H2 [H3 Hwe]]]. apply body_typeop; [cbn [wf]; tauto|]. apply IH; (lia || assumption).
  - cbn [size] in Hs. apply body_member; [exact Hw|]. apply IH; [lia|exact Hw].
  - rewrite size_invoke in Hs. apply wf_invoke in Hw as [Hwe Hwa]. apply body_invoke; [exact Hwe|apply IH; [lia|exact Hwe]|].
    intros a Ha. pose proof (size_in a args Ha). pose proof (wfs_in a args Hwa Ha) as Hwx. split; [exact Hwx|]. apply IH; [lia|exact Hwx].
  - rewrite size_call in Hs. apply wf_call in Hw. apply body_call.
    intros a Ha. pose proof (size_in a args Ha). pose proof (wfs_in a args Hw Ha) as Hwx. split; [exact Hwx|]. apply IH; [lia|exact Hwx].
  - cbn [size] in Hs. destruct Hw as [Hwe Hwi]. apply body_index; [cbn [wf]; tauto| |]; apply IH; (lia || assumption).
Qed.


(* every well-formed tree of any size, printed with minimal parentheses at level p and followed by anything a loop
   at level p leaves alone (the end, a closing token, a comma, a looser operator), is parsed back to itself, leaving
   exactly the rest *)
Theorem parse_render_min_full : forall t p rest, wf t -> p <= S (p_invoke T) -> absorbs p rest = false -> nolp rest ->
  exists f0, forall f, f0 <= f -> parse_expr T f p (render_min T p t ++ rest) = Some (t, rest).
Proof.
  intros t p rest Hw Hp Ha Hnl.
  apply (key_all (S (size t)) t (Nat.lt_succ_diag_r _) Hw p p rest (t, rest) 1); [lia|exact Hp| |exact Hnl|apply loop_stops; exact Ha].
  apply inner_from_tail. intro Hq. apply (tail_from_absorbs t p); assumption.
Qed.

(* the whole program: whenever the parser answers, it answers the tree that was printed *)
Corollary parse_prog_render_min t : wf t -> forall t', parse_prog T (render_min T 0 t) = Some t' -> t' = t.
Proof.
  intros Hw t' H. destruct (parse_render_min_full t 0 [] Hw ltac:(lia) eq_refl I) as [f0 H0].
  rewrite app_nil_r in H0. unfold parse_prog in H.
  set (F := 4 * List.length (render_min T 0 t) + 8) in H.
  destruct (parse_expr T F 0 (render_min T 0 t)) as [[t1 r1]|] eqn:E; [|discriminate].
  destruct r1; [|discriminate]. inversion H; subst t1. clear H.
  pose proof (mono_e T F 0 _ _ E (F + f0) ltac:(lia)) as H1. rewrite (H0 (F + f0)) in H1 by lia. inversion H1. reflexivity.
Qed.
End F.


(* ==== the full-parenthesis printer ================================================================================= *)
Section G.
Variable T : ptable.
Hypothesis pol_lt_index : p_polarity T < p_index T.
Hypothesis pol_lt_invoke : p_polarity T < p_invoke T.
Hypothesis index_le : p_index T <= S (p_invoke T).

Lemma render_full_unfold t : render_full t =
  match t with
  | Atom a => [TAtom a]
  | Pol o e => TOp o :: (TLP :: render_full e ++ [TRP])
  | Bin o l r => (TLP :: render_full l ++ [TRP]) ++ TOp o :: (TLP :: render_full r ++ [TRP])
  | TypeOp o e ty => (TLP :: render_full e ++ [TRP]) ++ TOp o :: qualified ty
  | Member e n => (TLP :: render_full e ++ [TRP]) ++ [TDot; TAtom n]
  | Invoke e f args => (TLP :: render_full e ++ [TRP]) ++ TDot :: TAtom f :: TLP :: intersperse TComma (map render_full args) ++ [TRP]
  | Call f args => TAtom f :: TLP :: intersperse TComma (map render_full args) ++ [TRP]
  | Index e i => (TLP :: render_full e ++ [TRP]) ++ TLB :: render_full i ++ [TRB]
  end.
Proof. destruct t; reflexivity. Qed.

Definition FKey (t : tree) : Prop := forall p0 rest res f,
  p0 <= root_level T t -> tail_ok T t rest -> nolp rest ->
  loop T f p0 t rest = Some res ->
  exists f0, forall f', f0 <= f' -> parse_expr T f' p0 (render_full t ++ rest) = Some res.

(* a parenthesised operand is read back by parse_prefix *)
Lemma operand t rest : wf T t -> FKey t ->
  exists f0, forall f', f0 <= f' -> parse_prefix T f' (TLP :: render_full t ++ TRP :: rest) = Some (t, rest).
Proof.
  intros Hw K. destruct (K 0 (TRP :: rest) (t, TRP :: rest) 1) as [f1 H1]; [lia| |exact I|reflexivity|].
  { apply closer_tail; [exact Hw|reflexivity|exact I]. }
  exists (S f1). intros f' Hf. destruct f' as [|f']; [lia|]. rewrite parse_prefix_S, (H1 f') by lia. reflexivity.
Qed.
Lemma reassoc (a : list tok) b rest : (TLP :: a ++ [TRP]) ++ b ++ rest = TLP :: a ++ TRP :: b ++ rest.
Proof. cbn [app]. rewrite <- app_assoc. reflexivity. Qed.

Lemma render_full_starts : forall t, starts_ok (render_full t).
Proof. intro t. rewrite render_full_unfold. destruct t; cbn; exact I. Qed.

Lemma fargs_parse : forall args rest, args <> [] -> (forall a, In a args -> wf T a /\ FKey a) ->
  exists f0, forall f', f0 <= f' ->
    parse_args T f' (intersperse TComma (map render_full args) ++ TRP :: rest) = Some (args, rest).
Proof.
  induction args as [|a args IH]; intros rest Hne Hall; [contradiction|].
  destruct (Hall a (or_introl eq_refl)) as [Hwa Ka].
  destruct args as [|b args'].
  - cbn [map intersperse].
    destruct (Ka 0 (TRP :: rest) (a, TRP :: rest) 1) as [f1 H1]; [lia| |exact I|reflexivity|].
    { apply closer_tail; [exact Hwa|reflexivity|exact I]. }
    exists (S f1). intros f' Hf. destruct f' as [|f']; [lia|]. rewrite parse_args_S, (H1 f') by lia. reflexivity.
  - destruct (IH rest ltac:(discriminate) (fun x Hx => Hall x (or_intror Hx))) as [f2 H2].
    set (X := intersperse TComma (map render_full (b :: args'))) in *.
    assert (EX : intersperse TComma (map render_full (a :: b :: args')) = render_full a ++ TComma :: X) by reflexivity.
    rewrite EX.
    destruct (Ka 0 (TComma :: X ++ TRP :: rest) (a, TComma :: X ++ TRP :: rest) 1) as [f1 H1]; [lia| |exact I|reflexivity|].
    { apply closer_tail; [exact Hwa|reflexivity|exact I]. }
    exists (S (f1 + f2)). intros f' Hf. destruct f' as [|f']; [lia|].
    rewrite <- app_assoc. cbn [app]. rewrite parse_args_S, (H1 f') by lia. rewrite (H2 f') by lia. reflexivity.
Qed.
Lemma fargs_text_starts args : args <> [] -> starts_ok (intersperse TComma (map render_full args)).
Proof.
  destruct args as [|a [|b r]]; intro H; [contradiction| |]; cbn [map intersperse].
  - apply render_full_starts.
  - apply starts_ok_app. apply render_full_starts.
Qed.

Theorem fkey_all : forall n t, size t < n -> wf T t -> FKey t.
Proof.
  induction n as [|n IH]; intros t Hs Hw; [lia|].
  intros p0 rest res f Hp0 Htail Hnl Hloop. rewrite render_full_unfold.
  destruct t as [a|o e|o l r|o e ty|e nm|e fn args|fn args|e i].
  - (* atom *)
    exists (S (S f)). intros f' Hf. destruct f' as [|[|f']]; try lia.
    cbn [app]. rewrite parse_expr_S, (prefix_atom' T f' a rest Hnl). apply (mono_l T f); [exact Hloop|lia].
  - (* polarity *)
    cbn [size] in Hs. destruct Hw as [Hpol Hwe]. cbn [tail_ok] in Htail.
    destruct (operand e rest Hwe (IH e ltac:(lia) Hwe)) as [f1 H1].
    exists (S (S (S (S (f1 + f))))). intros f' Hf. destruct f' as [|[|[|[|f']]]]; try lia.
    replace ((TOp o :: TLP :: render_full e ++ [TRP]) ++ rest) with (TOp o :: TLP :: render_full e ++ TRP :: rest) by (cbn [app]; rewrite <- app_assoc; reflexivity).
    rewrite parse_expr_S, parse_prefix_S, Hpol. rewrite parse_expr_S, (H1 (S f')) by lia.
    rewrite (loop_stops T f' (p_polarity T) e rest Htail). apply (mono_l T f); [exact Hloop|lia].
  - (* binary *)
    cbn [size] in Hs. destruct Hw as [Hty [Hpo [Hwl Hwr]]]. cbn [tail_ok root_level] in Htail, Hp0.
    destruct (operand r rest Hwr (IH r ltac:(lia) Hwr)) as [fr Hr].
    destruct (operand l (TOp o :: TLP :: render_full r ++ TRP :: rest) Hwl (IH l ltac:(lia) Hwl)) as [fl Hl].
    exists (S (S (S (S (fl + fr + f))))). intros f' Hf. destruct f' as [|[|[|[|f']]]]; try lia.
    rewrite <- app_assoc. rewrite reassoc. cbn [app]. rewrite <- app_assoc. cbn [app].
    rewrite parse_expr_S, (Hl (S (S (S f')))) by lia.
    rewrite loop_S. assert (H : Nat.leb p0 (prec T o) = true) by (apply Nat.leb_le; lia). rewrite H, Hty.
    rewrite parse_expr_S, (Hr (S f')) by lia. rewrite (loop_stops T f' (S (prec T o)) r rest Htail).
    apply (mono_l T f); [exact Hloop|lia].
  - (* type operator *)
    cbn [size] in Hs. destruct Hw as [Hty [Hpo [Hne Hwe]]]. cbn [tail_ok root_level] in Htail, Hp0.
    destruct (operand e (TOp o :: qualified ty ++ rest) Hwe (IH e ltac:(lia) Hwe)) as [fe He].
    exists (S (S (fe + List.length ty + f))). intros f' Hf. destruct f' as [|[|f']]; try lia.
    rewrite <- app_assoc. rewrite reassoc. cbn [app].
    rewrite parse_expr_S, (He (S f')) by lia.
    rewrite loop_S. assert (H : Nat.leb p0 (prec T o) = true) by (apply Nat.leb_le; lia). rewrite H, Hty.
    rewrite (parse_qualified_render ty rest f' Hne Htail) by lia. apply (mono_l T f); [exact Hloop|lia].
  - (* member *)
    cbn [size] in Hs. cbn [wf root_level] in Hw, Hp0.
    destruct (operand e (TDot :: TAtom nm :: rest) Hw (IH e ltac:(lia) Hw)) as [fe He].
    exists (S (S (fe + f))). intros f' Hf. destruct f' as [|[|f']]; try lia.
    replace ((TLP :: render_full e ++ [TRP]) ++ [TDot; TAtom nm]) with ((TLP :: render_full e ++ [TRP]) ++ [TDot; TAtom nm] ++ []) by (rewrite app_nil_r; reflexivity).
    rewrite <- app_assoc. rewrite reassoc. cbn [app].
    rewrite parse_expr_S, (He (S f')) by lia. rewrite (loop_member T f' p0 e nm rest Hnl Hp0). apply (mono_l T f); [exact Hloop|lia].
  - (* method invocation *)
    rewrite size_invoke in Hs. apply (wf_invoke T) in Hw as [Hwe Hwa]. cbn [root_level] in Hp0.
    set (X := intersperse TComma (map render_full args)).
    assert (Hleb : Nat.leb p0 (p_invoke T) = true) by (apply Nat.leb_le; exact Hp0).
    destruct (operand e (TDot :: TAtom fn :: TLP :: X ++ TRP :: rest) Hwe (IH e ltac:(lia) Hwe)) as [fe He].
    assert (Htext : ((TLP :: render_full e ++ [TRP]) ++ TDot :: TAtom fn :: TLP :: X ++ [TRP]) ++ rest
                    = TLP :: render_full e ++ TRP :: TDot :: TAtom fn :: TLP :: X ++ TRP :: rest).
    { cbn [app]. repeat (rewrite <- app_assoc; cbn [app]). reflexivity. }
    rewrite Htext.
    destruct args as [|a args'].
    + exists (S (S (fe + f))). intros f' Hf. destruct f' as [|[|f']]; try lia.
      rewrite parse_expr_S, (He (S f')) by lia. subst X. cbn [map intersperse app]. rewrite loop_S, Hleb.
      apply (mono_l T f); [exact Hloop|lia].
    + assert (Hall : forall x, In x (a :: args') -> wf T x /\ FKey x).
      { intros x Hx. pose proof (size_in x _ Hx). pose proof (wfs_in T x _ Hwa Hx) as Hwx. split; [exact Hwx|]. apply IH; [lia|exact Hwx]. }
      destruct (fargs_parse (a :: args') rest ltac:(discriminate) Hall) as [fa Ha]. fold X in Ha.
      pose proof (fargs_text_starts (a :: args') ltac:(discriminate)) as Hst. fold X in Hst.
      exists (S (S (fe + fa + f))). intros f' Hf. destruct f' as [|[|f']]; try lia.
      rewrite parse_expr_S, (He (S f')) by lia. rewrite loop_S.
      destruct X as [|[x|o| | | | | |] X']; cbn in Hst; try contradiction; cbn [app] in *;
        rewrite Hleb, (Ha f') by lia; apply (mono_l T f); (exact Hloop || lia).
  - (* function call *)
    rewrite size_call in Hs. apply (wf_call T) in Hw.
    set (X := intersperse TComma (map render_full args)).
    replace ((TAtom fn :: TLP :: X ++ [TRP]) ++ rest) with (TAtom fn :: TLP :: X ++ TRP :: rest) by (cbn [app]; rewrite <- app_assoc; reflexivity).
    destruct args as [|a args'].
    + exists (S (S f)). intros f' Hf. destruct f' as [|[|f']]; try lia.
      subst X. cbn [map intersperse app]. rewrite parse_expr_S, parse_prefix_S. apply (mono_l T f); [exact Hloop|lia].
    + assert (Hall : forall x, In x (a :: args') -> wf T x /\ FKey x).
      { intros x Hx. pose proof (size_in x _ Hx). pose proof (wfs_in T x _ Hw Hx) as Hwx. split; [exact Hwx|]. apply IH; [lia|exact Hwx]. }
      destruct (fargs_parse (a :: args') rest ltac:(discriminate) Hall) as [fa Ha]. fold X in Ha.
      pose proof (fargs_text_starts (a :: args') ltac:(discriminate)) as Hst. fold X in Hst.
      exists (S (S (fa + f))). intros f' Hf. destruct f' as [|[|f']]; try lia.
      rewrite parse_expr_S, parse_prefix_S.
      destruct X as [|[x|o| | | | | |] X']; cbn in Hst; try contradiction; cbn [app] in *;
        rewrite (Ha f') by lia; apply (mono_l T f); (exact Hloop || lia).
  - (* indexer *)
    cbn [size] in Hs. destruct Hw as [Hwe Hwi]. cbn [root_level] in Hp0.
    destruct (IH i ltac:(lia) Hwi 0 (TRB :: rest) (i, TRB :: rest) 1) as [fi Hi]; [lia| |exact I|reflexivity|].
    { apply closer_tail; [exact Hwi|reflexivity|exact I]. }
    destruct (operand e (TLB :: render_full i ++ TRB :: rest) Hwe (IH e ltac:(lia) Hwe)) as [fe He].
    exists (S (S (fe + fi + f))). intros f' Hf. destruct f' as [|[|f']]; try lia.
    assert (Htext : ((TLP :: render_full e ++ [TRP]) ++ TLB :: render_full i ++ [TRB]) ++ rest
                    = TLP :: render_full e ++ TRP :: TLB :: render_full i ++ TRB :: rest).
    { cbn [app]. repeat (rewrite <- app_assoc; cbn [app]). reflexivity. }
    rewrite Htext. rewrite parse_expr_S, (He (S f')) by lia.
    rewrite loop_S. assert (H : Nat.leb p0 (p_index T) = true) by (apply Nat.leb_le; lia). rewrite H.
    rewrite (Hi f') by lia. apply (mono_l T f); [exact Hloop|lia].
Qed.

(* the fully parenthesised rendering of a well-formed tree parses back to it *)
Theorem parse_render_full : forall t rest, wf T t -> tail_ok T t rest -> nolp rest -> absorbs T 0 rest = false ->
  exists f0, forall f, f0 <= f -> parse_expr T f 0 (render_full t ++ rest) = Some (t, rest).
Proof.
  intros t rest Hw Ht Hnl Ha.
  apply (fkey_all (S (size t)) t (Nat.lt_succ_diag_r _) Hw 0 rest (t, rest) 1); [lia|exact Ht|exact Hnl|apply loop_stops; exact Ha].
Qed.
Corollary parse_prog_render_full t : wf T t -> forall t', parse_prog T (render_full t) = Some t' -> t' = t.
Proof.
  intros Hw t' H.
  destruct (parse_render_full t [] Hw ltac:(apply closer_tail; [exact Hw|reflexivity|exact I]) I eq_refl) as [f0 H0].
  rewrite app_nil_r in H0. unfold parse_prog in H.
  set (F := 4 * List.length (render_full t) + 8) in H.
  destruct (parse_expr T F 0 (render_full t)) as [[t1 r1]|] eqn:E; [|discriminate].
  destruct r1; [|discriminate]. inversion H; subst t1. clear H.
  pose proof (mono_e T F 0 _ _ E (F + f0) ltac:(lia)) as H1. rewrite (H0 (F + f0)) in H1 by lia. inversion H1. reflexivity.
Qed.
(* hence both renderings of a tree denote the same tree *)
Corollary renderings_agree t : wf T t -> forall a b,
  parse_prog T (render_min T 0 t) = Some a -> parse_prog T (render_full t) = Some b -> a = b.
Proof.
  intros Hw a b Ha Hb.
  rewrite (parse_prog_render_min T pol_lt_index pol_lt_invoke index_le t Hw a Ha).
  rewrite (parse_prog_render_full t Hw b Hb). reflexivity.
Qed.
End G.

(* the table of fhirpath.g4 meets the three side conditions, and a tree using every node kind is well-formed *)
Example fhirpath_table_conditions :
  p_polarity fhirpath_table < p_index fhirpath_table /\ p_polarity fhirpath_table < p_invoke fhirpath_table
  /\ p_index fhirpath_table <= S (p_invoke fhirpath_table).
Proof. cbn. lia. Qed.
Definition example_tree : tree :=
  Bin 24 (TypeOp 8 (Invoke (Member (Atom 1) 2) 3 [Bin 5 (Atom 4) (Pol 6 (Atom 5)); Call 6 []]) [7%N; 8%N])
         (Index (Call 9 [Atom 10]) (Bin 1 (Atom 11) (Atom 12))).
Example example_tree_wf : wf fhirpath_table example_tree.
Proof. cbn. repeat split; try reflexivity; try lia; try discriminate. Qed.
Example example_tree_roundtrip : parse_prog fhirpath_table (render_min fhirpath_table 0 example_tree) = Some example_tree.
Proof. vm_compute. reflexivity. Qed.
