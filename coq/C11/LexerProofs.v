(* C11/LexerProofs.v -- lemmas about the lexer model of C11/Lexer.v. *)
From FPV Require Import Base.Prelude C11.Lexer.
Local Open Scope N_scope.

Definition wsall (g : list N) : Prop := forallb is_ws g = true.
Definition wsne (g : list N) : Prop := g <> [] /\ wsall g.

(* ---- hidden channel ------------------------------------------------------------------------------------------- *)
Lemma skipm_ws_prefix : forall g s, wsall g -> skipm MTop (g ++ s) = skipm MTop s.
Proof.
  induction g as [|w g IH]; intros s H; [reflexivity|].
  unfold wsall in H. cbn [forallb] in H. apply andb_prop in H as [Hw Hg].
  cbn [app skipm]. rewrite Hw. apply IH. exact Hg.
Qed.

(* a line comment up to and including its newline is skipped *)
Lemma skipm_line_comment : forall body s nl,
  forallb (fun c => negb (is_nl c)) body = true -> is_nl nl = true ->
  skipm MTop (47 :: 47 :: body ++ nl :: s) = skipm MTop s.
Proof.
  intros body s nl Hb Hn. cbn [skipm is_ws]. cbn.
  assert (forall b, forallb (fun c => negb (is_nl c)) b = true -> skipm MLine (b ++ nl :: s) = skipm MTop s) as H.
  { induction b as [|c b IH]; intros Hb'.
    - cbn [app skipm]. rewrite Hn. reflexivity.
    - cbn [forallb] in Hb'. apply andb_prop in Hb' as [Hc Hb'].
      cbn [app skipm]. destruct (is_nl c); [discriminate|]. apply IH. exact Hb'. }
  assert (skipm MLine (47 :: body ++ nl :: s) = skipm MTop s) as H2.
  { apply (H (47 :: body)). cbn [forallb]. rewrite Hb. reflexivity. }
  exact H2.
Qed.

(* ---- span ------------------------------------------------------------------------------------------------------- *)
Definition stops (p : N -> bool) (b : list N) : Prop := match b with [] => True | c :: _ => p c = false end.

Lemma span_intro : forall p a b, forallb p a = true -> stops p b -> span p (a ++ b) = (a, b).
Proof.
  induction a as [|c a IH]; intros b Ha Hb.
  - cbn [app]. destruct b as [|d b]; [reflexivity|]. cbn in Hb. cbn [span]. rewrite Hb. reflexivity.
  - cbn [forallb] in Ha. apply andb_prop in Ha as [Hc Ha]. cbn [app span]. rewrite Hc. rewrite (IH b Ha Hb). reflexivity.
Qed.

Lemma span_spec : forall p s a b, span p s = (a, b) -> s = a ++ b /\ forallb p a = true /\ stops p b.
Proof.
  induction s as [|c s IH]; intros a b H.
  - cbn in H. inversion H; subst. repeat split.
  - cbn [span] in H. destruct (p c) eqn:Hc.
    + destruct (span p s) as [a' b'] eqn:Hs. inversion H; subst. destruct (IH a' b eq_refl) as (E & Fa & St).
      subst s. repeat split; [cbn [forallb]; rewrite Hc; exact Fa | exact St].
    + inversion H; subst. repeat split. exact Hc.
Qed.

Lemma ws_not_idc : forall w, is_ws w = true -> is_idc w = false.
Proof. intros w H. unfold is_ws, is_idc, is_alpha, is_digit in *. lia. Qed.
Lemma ws_not_digit : forall w, is_ws w = true -> is_digit w = false.
Proof. intros w H. unfold is_ws, is_digit in *. lia. Qed.

(* ---- quoted tokens end at their closing quote whatever follows ------------------------------------------------------ *)
Lemma scan_q_local : forall q s e a b, scan_q q e s = Some (a, b) ->
  s = a ++ b /\ forall b', scan_q q e (a ++ b') = Some (a, b').
Proof.
  induction s as [|c s IH]; intros e a b H; [discriminate|].
  cbn [scan_q] in H. destruct e.
  - destruct (scan_q q false s) as [[a' b0]|] eqn:Hs; [|discriminate]. inversion H; subst.
    destruct (IH _ _ _ Hs) as [E L]. split; [cbn; f_equal; exact E|].
    intros b'. cbn [app scan_q]. rewrite L. reflexivity.
  - destruct (c =? q) eqn:Hq.
    + inversion H; subst. split; [reflexivity|]. intros b'. cbn [app scan_q]. rewrite Hq. reflexivity.
    + destruct (scan_q q (c =? 92) s) as [[a' b0]|] eqn:Hs; [|discriminate]. inversion H; subst.
      destruct (IH _ _ _ Hs) as [E L]. split; [cbn; f_equal; exact E|].
      intros b'. cbn [app scan_q]. rewrite Hq. rewrite L. reflexivity.
Qed.

Lemma strip_prefix_local : forall p s r, strip_prefix p s = Some r -> s = p ++ r /\ forall r', strip_prefix p (p ++ r') = Some r'.
Proof.
  induction p as [|x p IH]; intros s r H.
  - cbn in H. inversion H; subst. split; reflexivity.
  - destruct s as [|y s]; [discriminate|]. cbn [strip_prefix] in H. destruct (x =? y) eqn:E; [|discriminate].
    apply N.eqb_eq in E. subst y. destruct (IH _ _ H) as [E1 L]. split; [cbn; f_equal; exact E1|].
    intros r'. cbn [app strip_prefix]. rewrite N.eqb_refl. apply L.
Qed.

Definition ws_led (r : list N) : Prop := match r with [] => True | w :: _ => is_ws w = true end.

(* ---- what may change behind a token without moving its end ------------------------------------------------------- *)
Definition ins (g r r' : list N) : Prop := exists a b, r = a ++ b /\ r' = a ++ g ++ b.
Lemma wsne_head : forall g, wsne g -> exists w g', g = w :: g' /\ is_ws w = true.
Proof.
  intros [|w g'] [Hne Hall]; [contradiction|]. unfold wsall in Hall. cbn [forallb] in Hall.
  apply andb_prop in Hall as [Hw _]. eauto.
Qed.
(* sim r r': from some point on, r' is r unchanged, or nothing, or text that starts with whitespace *)
Definition sim (r r' : list N) : Prop :=
  exists x t t', r = x ++ t /\ r' = x ++ t' /\ (t' = t \/ t' = [] \/ exists w t'', t' = w :: t'' /\ is_ws w = true).
Lemma sim_refl : forall r, sim r r.
Proof. intros r. exists r, [], []. rewrite app_nil_r. auto. Qed.
Lemma sim_prefix : forall y r r', sim r r' -> sim (y ++ r) (y ++ r').
Proof. intros y r r' (x & t & t' & -> & -> & H). exists (y ++ x), t, t'. rewrite <- !app_assoc. auto. Qed.
Lemma sim_of_ins : forall g r r', wsne g -> ins g r r' -> sim r r'.
Proof.
  intros g r r' Hg (a & b & -> & ->). destruct (wsne_head g Hg) as (w & g' & -> & Hw).
  exists a, b, ((w :: g') ++ b). repeat split. right. right. exists w, (g' ++ b). split; [reflexivity|exact Hw].
Qed.
Definition ws_head (g : list N) : Prop := exists w g', g = w :: g' /\ is_ws w = true.
Lemma sim_of_ins_head : forall g r r', ws_head g -> ins g r r' -> sim r r'.
Proof.
  intros g r r' (w & g' & -> & Hw) (a & b & -> & ->).
  exists a, b, ((w :: g') ++ b). repeat split. right. right. exists w, (g' ++ b). split; [reflexivity|exact Hw].
Qed.
Lemma sim_of_ws_led : forall r r', ws_led r' -> sim r r'.
Proof.
  intros r [|w r'] H; exists [], r; [exists []|exists (w :: r')]; cbn; repeat split; auto.
  right. right. exists w, r'. split; [reflexivity|exact H].
Qed.
Lemma sim_cons : forall r r', sim r r' ->
  r' = r \/ r' = [] \/ (exists w t, r' = w :: t /\ is_ws w = true) \/ (exists c u u', r = c :: u /\ r' = c :: u' /\ sim u u').
Proof.
  intros r r' (x & t & t' & -> & -> & H). destruct x as [|c x].
  - cbn. destruct H as [-> | [-> | (w & t'' & -> & Hw)]].
    + left. reflexivity.
    + right. left. reflexivity.
    + right. right. left. exists w, t''. split; [reflexivity|exact Hw].
  - right. right. right. exists c, (x ++ t), (x ++ t'). repeat split. exists x, t, t'. auto.
Qed.

Lemma sim_stops : forall p r r', (forall w, is_ws w = true -> p w = false) -> sim r r' -> stops p r -> stops p r'.
Proof.
  intros p r r' Hp Hs H. destruct (sim_cons _ _ Hs) as [-> | [-> | [(w & t & -> & Hw) | (c & u & u' & -> & -> & _)]]]; cbn in *; auto.
Qed.
Lemma sim_frac_follows : forall r r', sim r r' -> frac_follows r = false -> frac_follows r' = false.
Proof.
  intros r r' Hs H. destruct (sim_cons _ _ Hs) as [-> | [-> | [(w & t & -> & Hw) | (c & u & u' & -> & -> & Hs2)]]]; auto.
  - cbn [frac_follows]. destruct t; replace (w =? 46) with false by (unfold is_ws in Hw; lia); reflexivity.
  - destruct (sim_cons _ _ Hs2) as [-> | [-> | [(w & t & -> & Hw) | (d & v & v' & -> & -> & _)]]]; auto.
    + cbn [frac_follows]. rewrite (ws_not_digit w Hw). apply andb_false_r.
Qed.
Lemma sim_eq_follows : forall r r', sim r r' -> eq_follows r = false -> eq_follows r' = false.
Proof.
  intros r r' Hs H. destruct (sim_cons _ _ Hs) as [-> | [-> | [(w & t & -> & Hw) | (c & u & u' & -> & -> & _)]]]; auto.
  cbn. unfold is_ws in Hw. lia.
Qed.
Definition follows_like (r r' : list N) : Prop :=
  (stops is_idc r -> stops is_idc r') /\ (stops is_digit r -> stops is_digit r') /\
  (frac_follows r = false -> frac_follows r' = false) /\ (eq_follows r = false -> eq_follows r' = false).
Lemma follows_like_sim : forall r r', sim r r' -> follows_like r r'.
Proof.
  intros r r' H. repeat split.
  - apply (sim_stops _ r r' ws_not_idc H).
  - apply (sim_stops _ r r' ws_not_digit H).
  - apply (sim_frac_follows r r' H).
  - apply (sim_eq_follows r r' H).
Qed.
Lemma frac_true_shape : forall d a2 b2, frac_follows (d :: a2 ++ b2) = true -> stops is_digit b2 ->
  d = 46 /\ exists e a2', a2 = e :: a2'.
Proof.
  intros d a2 b2 Hf St. cbn [frac_follows] in Hf. destruct a2 as [|e a2'].
  - cbn [app] in Hf. destruct b2 as [|e b2]; [discriminate|]. apply andb_prop in Hf as [_ Hf2].
    cbn in St. rewrite St in Hf2. discriminate.
  - cbn [app] in Hf. apply andb_prop in Hf as [Hf1 _]. split; [lia|eauto].
Qed.

(* ---- the literal grammar -------------------------------------------------------------------------------------------- *)
Definition wsfree (ps : list (N -> bool)) : Prop := Forall (fun p => forall w, is_ws w = true -> p w = false) ps.
Fixpoint total (g : gram) : Prop :=
  match g with GEnd | GDigits => True | GOpt _ k => total k | GReq _ _ => False end.
Fixpoint gwf (g : gram) : Prop :=
  match g with
  | GEnd | GDigits => True
  | GReq ps k => wsfree ps /\ gwf k
  | GOpt inner k => gwf inner /\ gwf k /\ total k
  end.
Lemma total_some : forall g, total g -> forall s, run g s <> None.
Proof.
  induction g as [| |ps k IHk|inner IHi k IHk]; intros T s; cbn in *; try discriminate; try contradiction.
  destruct (run inner s) as [[l r]|].
  - destruct (run k r) as [[l2 r2]|] eqn:E; [discriminate|]. exfalso. exact (IHk T r E).
  - apply IHk. exact T.
Qed.
Lemma take_pat_some : forall ps s l r, take_pat ps s = Some (l, r) -> s = l ++ r /\ forall r', take_pat ps (l ++ r') = Some (l, r').
Proof.
  induction ps as [|p ps IH]; intros s l r H.
  - cbn in H. inversion H; subst. split; reflexivity.
  - destruct s as [|c s]; [discriminate|]. cbn [take_pat] in H. destruct (p c) eqn:Hp; [|discriminate].
    destruct (take_pat ps s) as [[l0 r0]|] eqn:E; [|discriminate]. inversion H; subst.
    destruct (IH _ _ _ E) as [E1 L]. split; [cbn; f_equal; exact E1|]. intros r'. cbn [app take_pat]. rewrite Hp, L. reflexivity.
Qed.
Lemma take_pat_sim : forall ps s s' l r, wsfree ps -> take_pat ps s = Some (l, r) -> sim s s' ->
  take_pat ps s' = None \/ exists r', take_pat ps s' = Some (l, r') /\ sim r r'.
Proof.
  induction ps as [|p ps IH]; intros s s' l r W H Hs.
  - cbn in H. inversion H; subst. right. exists s'. split; [reflexivity|exact Hs].
  - inversion W as [|? ? Wp Wps]; subst. destruct s as [|c s]; [discriminate|]. cbn [take_pat] in H.
    destruct (p c) eqn:Hp; [|discriminate]. destruct (take_pat ps s) as [[l0 r0]|] eqn:E; [|discriminate]. inversion H; subst.
    destruct (sim_cons _ _ Hs) as [-> | [-> | [(w & t & -> & Hw) | (c' & u & u' & E1 & -> & Hs2)]]].
    + right. exists r. split; [cbn [take_pat]; rewrite Hp, E; reflexivity|apply sim_refl].
    + left. reflexivity.
    + left. cbn [take_pat]. rewrite (Wp w Hw). reflexivity.
    + inversion E1; subst c' u. cbn [take_pat]. rewrite Hp.
      destruct (IH _ _ _ _ Wps E Hs2) as [-> | (r' & -> & Hr)]; [left; reflexivity|right; eauto].
Qed.
Lemma take_pat_none_sim : forall ps s s', wsfree ps -> take_pat ps s = None -> sim s s' -> take_pat ps s' = None.
Proof.
  induction ps as [|p ps IH]; intros s s' W H Hs; [discriminate|].
  inversion W as [|? ? Wp Wps]; subst.
  destruct (sim_cons _ _ Hs) as [-> | [-> | [(w & t & -> & Hw) | (c & u & u' & -> & -> & Hs2)]]]; auto.
  - cbn [take_pat]. rewrite (Wp w Hw). reflexivity.
  - cbn [take_pat] in *. destruct (p c); [|reflexivity].
    destruct (take_pat ps u) as [[l0 r0]|] eqn:E; [discriminate|]. rewrite (IH _ _ Wps E Hs2). reflexivity.
Qed.
Lemma run_none_sim : forall g, gwf g -> forall s s', run g s = None -> sim s s' -> run g s' = None.
Proof.
  induction g as [| |ps k IHk|inner IHi k IHk]; intros W s s' H Hs; cbn [run] in *; try discriminate.
  - destruct W as [Wps Wk]. destruct (take_pat ps s) as [[l r]|] eqn:E.
    + destruct (run k r) as [[l2 r2]|] eqn:Ek; [discriminate|].
      destruct (take_pat_sim _ _ _ _ _ Wps E Hs) as [-> | (r' & -> & Hr)]; [reflexivity|].
      rewrite (IHk Wk _ _ Ek Hr). reflexivity.
    + rewrite (take_pat_none_sim _ _ _ Wps E Hs). reflexivity.
  - destruct W as (Wi & Wk & Tk). exfalso.
    destruct (run inner s) as [[l r]|].
    + destruct (run k r) as [[l2 r2]|] eqn:Ek; [discriminate|]. exact (total_some k Tk r Ek).
    + exact (total_some k Tk s H).
Qed.
Lemma run_stable : forall g, gwf g -> forall s l r, run g s = Some (l, r) ->
  s = l ++ r /\ forall r', sim r r' -> run g (l ++ r') = Some (l, r').
Proof.
  induction g as [| |ps k IHk|inner IHi k IHk]; intros W s l r H; cbn [run] in H.
  - inversion H; subst. split; [reflexivity|]. intros r' _. reflexivity.
  - inversion H as [Hsp]. destruct (span_spec _ _ _ _ Hsp) as (E & Fa & St). split; [exact E|].
    intros r' Hs. cbn [run]. rewrite (span_intro is_digit l r' Fa (sim_stops _ _ _ ws_not_digit Hs St)). reflexivity.
  - destruct W as [Wps Wk]. destruct (take_pat ps s) as [[l1 r1]|] eqn:E; [|discriminate].
    destruct (run k r1) as [[l2 r2]|] eqn:Ek; [|discriminate]. inversion H; subst.
    destruct (take_pat_some _ _ _ _ E) as [E1 L1]. destruct (IHk Wk _ _ _ Ek) as [E2 L2]. split.
    + rewrite E1, E2, app_assoc. reflexivity.
    + intros r' Hs. cbn [run]. rewrite <- app_assoc, L1, (L2 r' Hs). reflexivity.
  - destruct W as (Wi & Wk & Tk). destruct (run inner s) as [[l1 r1]|] eqn:Ei.
    + destruct (run k r1) as [[l2 r2]|] eqn:Ek; [|discriminate]. inversion H; subst.
      destruct (IHi Wi _ _ _ Ei) as [E1 L1]. destruct (IHk Wk _ _ _ Ek) as [E2 L2]. split.
      * rewrite E1, E2, app_assoc. reflexivity.
      * intros r' Hs. cbn [run]. rewrite <- app_assoc. rewrite (L1 (l2 ++ r')).
        -- rewrite (L2 r' Hs). reflexivity.
        -- rewrite E2. apply sim_prefix. exact Hs.
    + destruct (IHk Wk _ _ _ H) as [E2 L2]. split; [exact E2|].
      intros r' Hs. cbn [run]. rewrite (run_none_sim inner Wi s (l ++ r') Ei).
      * apply L2. exact Hs.
      * rewrite E2. apply sim_prefix. exact Hs.
Qed.
Ltac wsfree_tac := repeat constructor; intros w Hw; unfold is_c, is_pm, is_digit, is_ws in *; lia.
Lemma gwf_timelit : gwf g_timelit.
Proof. cbn. repeat split; try wsfree_tac. Qed.
Lemma gwf_datelit : gwf g_datelit.
Proof. cbn. repeat split; try wsfree_tac. Qed.
Lemma scan_at_stable : forall s l r, scan_at s = Some (l, r) ->
  s = l ++ r /\ forall r', sim r r' -> scan_at (l ++ r') = Some (l, r').
Proof.
  intros s l r H. unfold scan_at in *. destruct (run g_timelit s) as [[l1 r1]|] eqn:E1.
  - inversion H; subst. destruct (run_stable _ gwf_timelit _ _ _ E1) as [E L]. split; [exact E|].
    intros r' Hs. rewrite (L r' Hs). reflexivity.
  - destruct (run_stable _ gwf_datelit _ _ _ H) as [E L]. split; [exact E|].
    intros r' Hs. rewrite (run_none_sim _ gwf_timelit s (l ++ r') E1).
    + apply L. exact Hs.
    + rewrite E. apply sim_prefix. exact Hs.
Qed.

Theorem scan_stable : forall s l r, scan s = Some (l, r) ->
  s = l ++ r /\ l <> [] /\ forall r', sim r r' -> scan (l ++ r') = Some (l, r').
Proof.
  intros s l r H. destruct s as [|c s]; [discriminate|]. cbn [scan] in H.
  destruct (is_alpha c) eqn:Ha.
  { destruct (span is_idc s) as [a b] eqn:Hs. inversion H; subst. destruct (span_spec _ _ _ _ Hs) as (E & Fa & St).
    subst s. repeat split; [discriminate|]. intros r' Hsim. destruct (follows_like_sim _ _ Hsim) as (F1 & _). cbn [app scan]. rewrite Ha.
    rewrite (span_intro is_idc a r' Fa (F1 St)). reflexivity. }
  destruct (is_digit c) eqn:Hd.
  { destruct (span is_digit s) as [a b] eqn:Hs. destruct (span_spec _ _ _ _ Hs) as (E & Fa & St). subst s.
    destruct (frac_follows b) eqn:Hf.
    - destruct b as [|d b1]; [discriminate|]. destruct (span is_digit b1) as [a2 b2] eqn:Hs2.
      inversion H; subst. destruct (span_spec _ _ _ _ Hs2) as (E2 & Fa2 & St2). subst b1.
      destruct (frac_true_shape _ _ _ Hf St2) as [Hd46 (e & a2' & Ea2)].
      subst d a2. repeat split.
      + cbn. f_equal. rewrite <- app_assoc. reflexivity.
      + discriminate.
      + intros r' Hsim. destruct (follows_like_sim _ _ Hsim) as (_ & F2 & _). cbn [app scan]. rewrite Ha, Hd.
        rewrite <- app_assoc. cbn [app].
        rewrite (span_intro is_digit a (46 :: e :: a2' ++ r') Fa) by (cbn; reflexivity).
        cbn [forallb] in Fa2. apply andb_prop in Fa2 as [He Fa2].
        cbn [frac_follows]. rewrite He. cbn [N.eqb Pos.eqb andb].
        replace (span is_digit (e :: a2' ++ r')) with (e :: a2', r').
        * reflexivity.
        * symmetry. apply (span_intro is_digit (e :: a2') r'); [cbn [forallb]; rewrite He; exact Fa2|].
          exact (F2 St2).
    - inversion H; subst. repeat split; [discriminate|]. intros r' Hsim. destruct (follows_like_sim _ _ Hsim) as (_ & F2 & F3 & _). cbn [app scan]. rewrite Ha, Hd.
      rewrite (span_intro is_digit a r' Fa (F2 St)). rewrite (F3 Hf). reflexivity. }
  destruct ((c =? 39) || (c =? 96)) eqn:Hq.
  { destruct (scan_q c false s) as [[a b]|] eqn:Hs; [|discriminate]. inversion H; subst.
    destruct (scan_q_local _ _ _ _ _ Hs) as [E L]. subst s. repeat split; [discriminate|].
    intros r' Hsim. cbn [app scan]. rewrite Ha, Hd, Hq, L. reflexivity. }
  destruct (c =? 64) eqn:H64.
  { destruct (scan_at s) as [[a b]|] eqn:Hs; [|discriminate]. inversion H; subst.
    destruct (scan_at_stable _ _ _ Hs) as [E L]. subst s. repeat split; [discriminate|].
    intros r' Hsim. cbn [app scan]. rewrite Ha, Hd, Hq, H64, (L r' Hsim). reflexivity. }
  destruct (c =? 36) eqn:H36.
  { destruct (strip_prefix kw_this s) as [b|] eqn:H1.
    { inversion H; subst. destruct (strip_prefix_local _ _ _ H1) as [E L]. subst s. repeat split; [discriminate|].
      intros r' Hsim. cbn [app scan]. rewrite Ha, Hd, Hq, H64, H36. rewrite L. reflexivity. }
    destruct (strip_prefix kw_index s) as [b|] eqn:H2.
    { inversion H; subst. destruct (strip_prefix_local _ _ _ H2) as [E L]. subst s. repeat split; [discriminate|].
      intros r' Hsim. cbn [app scan]. rewrite Ha, Hd, Hq, H64, H36.
      replace (strip_prefix kw_this (kw_index ++ r')) with (@None (list N)) by reflexivity. rewrite L. reflexivity. }
    destruct (strip_prefix kw_total s) as [b|] eqn:H3; [|discriminate].
    inversion H; subst. destruct (strip_prefix_local _ _ _ H3) as [E L]. subst s. repeat split; [discriminate|].
    intros r' Hsim. cbn [app scan]. rewrite Ha, Hd, Hq, H64, H36.
    replace (strip_prefix kw_this (kw_total ++ r')) with (@None (list N)) by reflexivity.
    replace (strip_prefix kw_index (kw_total ++ r')) with (@None (list N)) by reflexivity. rewrite L. reflexivity. }
  destruct ((c =? 60) || (c =? 62)) eqn:Hlt.
  { destruct (eq_follows s) eqn:He.
    - inversion H; subst. destruct s as [|d s]; [discriminate|]. cbn [eq_follows] in He. apply N.eqb_eq in He. subst d.
      repeat split; [discriminate|]. intros r' Hsim. cbn [app scan]. rewrite Ha, Hd, Hq, H64, H36, Hlt. reflexivity.
    - inversion H; subst. repeat split; [discriminate|]. intros r' Hsim. destruct (follows_like_sim _ _ Hsim) as (_ & _ & _ & F4). cbn [app scan]. rewrite Ha, Hd, Hq, H64, H36, Hlt.
      rewrite (F4 He). reflexivity. }
  destruct (c =? 33) eqn:H33.
  { destruct s as [|d s]; [discriminate|]. destruct ((d =? 61) || (d =? 126)) eqn:Hd2; [|discriminate].
    inversion H; subst. repeat split; [discriminate|]. intros r' Hsim. cbn [app scan]. rewrite Ha, Hd, Hq, H64, H36, Hlt, H33, Hd2. reflexivity. }
  destruct (is_single c) eqn:Hs1; [|discriminate].
  inversion H; subst. repeat split; [discriminate|]. intros r' Hsim. cbn [app scan]. rewrite Ha, Hd, Hq, H64, H36, Hlt, H33, Hs1. reflexivity.
Qed.


(* ---- a token followed by a whitespace character ends where it ended, whatever comes after ------------------------------ *)
(* `scan (l ++ r) = Some (l, r)` with r empty or starting with whitespace: l is a whole token there. *)

Lemma stops_ws_led : forall p r, (forall w, is_ws w = true -> p w = false) -> ws_led r -> stops p r.
Proof. intros p [|w r] Hp H; cbn in *; auto. Qed.

Lemma frac_follows_ws_led : forall r, ws_led r -> frac_follows r = false.
Proof.
  intros [|w [|e r]] H; try reflexivity. cbn in H. cbn [frac_follows].
  replace (w =? 46) with false; [reflexivity|]. unfold is_ws in H. lia.
Qed.
Lemma eq_follows_ws_led : forall r, ws_led r -> eq_follows r = false.
Proof. intros [|w r] H; try reflexivity. cbn in *. unfold is_ws in H. lia. Qed.

Lemma app_cons_assoc : forall (a : list N) x b, (a ++ [x]) ++ b = a ++ x :: b.
Proof. intros. rewrite <- app_assoc. reflexivity. Qed.

Theorem scan_token_then_ws : forall s l r, scan s = Some (l, r) -> ws_led r ->
  s = l ++ r /\ l <> [] /\ forall r', ws_led r' -> scan (l ++ r') = Some (l, r').
Proof.
  intros s l r H _. destruct (scan_stable _ _ _ H) as (E & Hl & L). repeat split; [exact E|exact Hl|].
  intros r' Hr'. apply L. apply sim_of_ws_led. exact Hr'.
Qed.

(* a token never starts with whitespace, so the automaton hands it over untouched -- unless it starts `//` or a
   closed `/*`, which scan never produces followed by whitespace-led text *)
Lemma skipm_at_token : forall l r, (exists s r0, scan s = Some (l, r0)) -> l <> [] -> ws_led r -> skipm MTop (l ++ r) = Some (l ++ r).
Proof.
  intros l r (s & r0 & H) Hl Hr. destruct s as [|c s]; [discriminate|]. cbn [scan] in H.
  assert (forall l' , l = c :: l' -> (c = 47 -> l' = []) -> is_ws c = false -> skipm MTop (l ++ r) = Some (l ++ r)) as K.
  { intros l' El H47 Hw. subst l. cbn [app skipm]. rewrite Hw. destruct (c =? 47) eqn:E47; [|reflexivity].
    apply N.eqb_eq in E47. rewrite (H47 E47). cbn [app]. destruct r as [|w r]; [reflexivity|]. cbn in Hr.
    replace (w =? 47) with false by (unfold is_ws in Hr; lia). replace (w =? 42) with false by (unfold is_ws in Hr; lia). reflexivity. }
  destruct (is_alpha c) eqn:Ha.
  { destruct (span is_idc s) as [a b]. inversion H; subst. eapply K; [reflexivity| |].
    - intros ->. discriminate.
    - unfold is_alpha, is_ws in *. lia. }
  destruct (is_digit c) eqn:Hd.
  { assert (is_ws c = false) by (unfold is_digit, is_ws in *; lia). assert (c <> 47) by (unfold is_digit in Hd; lia).
    destruct (span is_digit s) as [a b]. destruct (frac_follows b).
    - destruct b as [|d b1]; [discriminate|]. destruct (span is_digit b1). inversion H; subst. eapply K; [reflexivity|congruence|assumption].
    - inversion H; subst. eapply K; [reflexivity|congruence|assumption]. }
  destruct ((c =? 39) || (c =? 96)) eqn:Hq.
  { destruct (scan_q c false s) as [[a b]|]; [|discriminate]. inversion H; subst. eapply K; [reflexivity| |].
    - intros ->. discriminate.
    - unfold is_ws. lia. }
  destruct (c =? 64) eqn:H64.
  { apply N.eqb_eq in H64. subst c. destruct (scan_at s) as [[a b]|]; [|discriminate]. inversion H; subst.
    eapply K; [reflexivity|discriminate|reflexivity]. }
  destruct (c =? 36) eqn:H36.
  { apply N.eqb_eq in H36. subst c.
    destruct (strip_prefix kw_this s); [inversion H; subst; eapply K; [reflexivity|discriminate|reflexivity]|].
    destruct (strip_prefix kw_index s); [inversion H; subst; eapply K; [reflexivity|discriminate|reflexivity]|].
    destruct (strip_prefix kw_total s); [inversion H; subst; eapply K; [reflexivity|discriminate|reflexivity]|discriminate]. }
  destruct ((c =? 60) || (c =? 62)) eqn:Hlt.
  { assert (is_ws c = false) by (unfold is_ws; lia). assert (c <> 47) by lia.
    destruct (eq_follows s); inversion H; subst; (eapply K; [reflexivity|congruence|assumption]). }
  destruct (c =? 33) eqn:H33.
  { apply N.eqb_eq in H33. subst c. destruct s as [|d s]; [discriminate|]. destruct ((d =? 61) || (d =? 126)); [|discriminate].
    inversion H; subst. eapply K; [reflexivity|discriminate|reflexivity]. }
  destruct (is_single c) eqn:Hs1; [|discriminate]. inversion H; subst.
  eapply K; [reflexivity|reflexivity|].
  unfold is_single in Hs1. cbn [existsb] in Hs1. unfold is_ws. lia.
Qed.

(* ---- whitespace-separated token texts lex to themselves, whatever the whitespace is ------------------------------------- *)
(* a token text: scan cuts exactly it from itself *)
Definition lexeme (l : list N) : Prop := scan l = Some (l, []).

(* lexemes interleaved with gaps: g0 l1 g1 l2 g2 ... ln gn *)
Fixpoint weave (g0 : list N) (lgs : list (list N * list N)) : list N :=
  match lgs with
  | [] => g0
  | (l, g) :: rest => g0 ++ l ++ weave g rest
  end.

Lemma weave_ws_led : forall g lgs, wsne g -> ws_led (weave g lgs).
Proof.
  intros g lgs [Hne Hall]. destruct g as [|w g]; [contradiction|].
  unfold wsall in Hall. cbn [forallb] in Hall. apply andb_prop in Hall as [Hw _].
  destruct lgs as [|[l g1] rest]; cbn; exact Hw.
Qed.

Lemma lex_step_token : forall f l r, lexeme l -> ws_led r -> lex (S f) (l ++ r) = match lex f r with Some ts => Some (l :: ts) | None => None end.
Proof.
  intros f l r Hl Hr. unfold lexeme in Hl.
  destruct (scan_token_then_ws _ _ _ Hl I) as (_ & Hne & L).
  cbn [lex]. rewrite (skipm_at_token l r (ex_intro _ l (ex_intro _ [] Hl)) Hne Hr).
  destruct l as [|c l']; [contradiction|]. cbn [app].
  change (c :: l' ++ r) with ((c :: l') ++ r). rewrite (L r Hr). reflexivity.
Qed.

Theorem lex_weave : forall lgs g0 f,
  wsall g0 ->
  Forall (fun lg => lexeme (fst lg)) lgs ->
  (* every gap but the last is non-empty whitespace; the last may be empty *)
  (forall i lg, nth_error lgs i = Some lg -> S i < length lgs -> wsne (snd lg))%nat ->
  (forall lg, nth_error lgs (pred (length lgs)) = Some lg -> wsall (snd lg)) ->
  (length lgs < f)%nat ->
  lex f (weave g0 lgs) = Some (map fst lgs).
Proof.
  induction lgs as [|[l g] rest IH]; intros g0 f Hg0 Hlex Hmid Hlast Hf.
  - cbn [weave map]. destruct f as [|f]; [cbn in Hf; lia|]. cbn [lex].
    rewrite <- (app_nil_r g0). rewrite (skipm_ws_prefix g0 [] Hg0). reflexivity.
  - inversion Hlex as [|? ? Hl Hrest]; subst. cbn [fst] in Hl.
    destruct f as [|f]; [cbn in Hf; lia|]. cbn [weave map fst].
    (* leading whitespace *)
    assert (lex (S f) (g0 ++ l ++ weave g rest) = lex (S f) (l ++ weave g rest)) as E.
    { cbn [lex]. rewrite (skipm_ws_prefix g0 _ Hg0). reflexivity. }
    rewrite E.
    assert (wsall g) as Hgall.
    { destruct rest as [|lg2 rest'].
      - apply (Hlast (l, g)). reflexivity.
      - apply (Hmid 0%nat (l, g)); [reflexivity|cbn; lia]. }
    assert (ws_led (weave g rest)) as Hled.
    { destruct rest as [|lg2 rest'].
      - cbn [weave]. destruct g as [|w g']; [exact I|]. unfold wsall in Hgall. cbn [forallb] in Hgall.
        apply andb_prop in Hgall as [Hw _]. exact Hw.
      - apply weave_ws_led. apply (Hmid 0%nat (l, g)); [reflexivity|cbn; lia]. }
    rewrite (lex_step_token f l _ Hl Hled).
    rewrite (IH g f Hgall Hrest).
    + reflexivity.
    + intros i lg Hn Hi. apply (Hmid (S i) lg); [exact Hn|cbn; lia].
    + intros lg Hn. destruct rest as [|lg2 rest']; [cbn in Hn; discriminate|].
      apply Hlast. cbn [length pred] in *. exact Hn.
    + cbn in Hf. lia.
Qed.

(* two renderings of the same token texts that differ only in their (non-empty) whitespace have the same token stream *)
Corollary lex_whitespace_irrelevant : forall ls gs1 gs2 g1 g2 f,
  length gs1 = length ls -> length gs2 = length ls ->
  Forall lexeme ls -> Forall wsne gs1 -> Forall wsne gs2 -> wsall g1 -> wsall g2 -> (length ls < f)%nat ->
  lex f (weave g1 (combine ls gs1)) = lex f (weave g2 (combine ls gs2)).
Proof.
  intros ls gs1 gs2 g1 g2 f L1 L2 Hl H1 H2 Hg1 Hg2 Hf.
  assert (forall gs g0, length gs = length ls -> Forall wsne gs -> wsall g0 -> lex f (weave g0 (combine ls gs)) = Some ls) as K.
  { intros gs g0 L Hgs Hg0.
    assert (map fst (combine ls gs) = ls) as Em.
    { clear - L. revert gs L. induction ls as [|x ls IH]; intros [|g gs] L; try discriminate; [reflexivity|].
      cbn. f_equal. apply IH. cbn in L. lia. }
    rewrite <- Em at 2. apply lex_weave.
    - exact Hg0.
    - apply Forall_forall. intros [l g] Hin. cbn [fst]. apply in_combine_l in Hin. rewrite Forall_forall in Hl. apply Hl. exact Hin.
    - intros i [l g] Hn _. cbn [snd]. apply nth_error_In in Hn. apply in_combine_r in Hn. rewrite Forall_forall in Hgs. apply Hgs. exact Hn.
    - intros [l g] Hn. cbn [snd]. apply nth_error_In in Hn. apply in_combine_r in Hn. rewrite Forall_forall in Hgs. apply (Hgs g Hn).
    - rewrite combine_length, L, Nat.min_id. exact Hf. }
  rewrite (K gs1 g1 L1 H1 Hg1), (K gs2 g2 L2 H2 Hg2). reflexivity.
Qed.

(* leading whitespace never matters, for any source at all *)
Theorem lex_leading_ws : forall g s f, wsall g -> lex f (g ++ s) = lex f s.
Proof. intros g s [|f] H; [reflexivity|]. cbn [lex]. rewrite (skipm_ws_prefix g s H). reflexivity. Qed.

(* non-vacuity: concrete lexemes of every class *)
Example lexeme_examples :
  Forall lexeme [[97;95;49]; [49;50;46;53]; [39;97;92;39;98;39]; [36;116;104;105;115]; [60;61]; [33;126]; [47]; [96;32;96];
                 [64;50;48;50;48;45;48;51;84;49;48;58;51;48;90]; [64;84;49;48;58;51;48;58;49;53;46;53]].
Proof. repeat constructor. Qed.
