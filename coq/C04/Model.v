(* C04/Model.v -- what an evaluation may depend on.

   (1) Compile histories: the function table a Compile call works with is a clone of the base table, changed
       only by that call's options; the base and experimental tables are never written.
   (2) One instant per evaluation: now(), today() and timeOfDay() are three renderings of Context.Now.
   (3) Interleavings: calls that read a shared state nobody writes and write only their own state can be
       interleaved in any order without affecting each other.  Tie A (Oblig/C04_gen.v) checks on the source that
       no function of the evaluator writes a package-level variable; C03 checks that inputs are not written. *)
From FPV Require Import Base.Prelude.

(* ---- (1) compile histories ----------------------------------------------------------------------------------- *)
Inductive copt := OAddFn (name : N) (sig_ok : bool) | OExperimental | OPermissive | OTransform.
Definition table := list N.
Definition mem (n : N) (t : table) : bool := existsb (N.eqb n) t.
Record gstate := { g_base : table; g_exper : table }.

(* every option is applied, in order, to the clone; the errors are joined (opts.ApplyOptions), so a compile fails
   when any option failed: a name that already exists, a bad signature, a second transform.  A failed AddFunction
   adds nothing. *)
Fixpoint apply_all (g : gstate) (t : table) (transform failed : bool) (os : list copt) : bool * table :=
  match os with
  | [] => (failed, t)
  | OAddFn n ok :: r =>
      if mem n t || negb ok then apply_all g t transform true r else apply_all g (n :: t) transform failed r
  | OExperimental :: r => apply_all g (t ++ filter (fun n => negb (mem n t)) (g_exper g)) transform failed r
  | OPermissive :: r => apply_all g t transform failed r
  | OTransform :: r => if transform then apply_all g t true true r else apply_all g t true failed r
  end.
Definition apply_opts (g : gstate) (t : table) (transform : bool) (os : list copt) : N + table :=
  let '(failed, t') := apply_all g t transform false os in if failed then inl 1%N else inr t'.
Definition compile (g : gstate) (os : list copt) : gstate * (N + table) := (g, apply_opts g (g_base g) false os).
Fixpoint run_history (g : gstate) (h : list (list copt)) : gstate * list (N + table) :=
  match h with
  | [] => (g, [])
  | os :: r => let '(g1, res) := compile g os in let '(g2, rest) := run_history g1 r in (g2, res :: rest)
  end.
(* the seeded alternative: the experimental merge shares one table between compiles *)
Definition compile_shared (g : gstate) (shared : table) (os : list copt) : table * (N + table) :=
  match apply_opts g shared false os with
  | inr t => (t, inr t)
  | inl e => (shared, inl e)
  end.

(* ---- (2) the clock ------------------------------------------------------------------------------------------------ *)
Record instant := { i_year : Z; i_month : Z; i_day : Z; i_hour : Z; i_min : Z; i_sec : Z; i_ms : Z; i_offset_min : Z }.
Definition fp_now (t : instant) := (i_year t, i_month t, i_day t, i_hour t, i_min t, i_sec t, i_ms t, i_offset_min t).
Definition fp_today (t : instant) := (i_year t, i_month t, i_day t).
Definition fp_time_of_day (t : instant) := (i_hour t, i_min t, i_sec t, i_ms t).

(* ---- (3) interleavings ------------------------------------------------------------------------------------------ *)
Section Interleaving.
  Variable G L : Type.
  Variable step : nat -> G -> L -> L.          (* call i reads the shared state and updates its own *)
  Definition locals := nat -> L.
  Definition upd_local (ls : locals) (i : nat) (l : L) : locals := fun j => if Nat.eqb j i then l else ls j.
  Definition sched_step (g : G) (ls : locals) (i : nat) : locals := upd_local ls i (step i g (ls i)).
  Definition run_schedule (g : G) (ls : locals) (sched : list nat) : locals := fold_left (sched_step g) sched ls.
  Fixpoint iter_steps (i : nat) (g : G) (n : nat) (l : L) : L := match n with O => l | S n' => iter_steps i g n' (step i g l) end.
  Definition count_occ_nat (i : nat) (sched : list nat) : nat := List.length (filter (Nat.eqb i) sched).
End Interleaving.

(* ---- correspondence cases ---------------------------------------------------------------------------------------- *)
Inductive case :=
| CHistory (base exper : table) (h : list (list copt)) (probes : list N)
| CClock (t : instant)
| CRun (prog : N).
Inductive obs :=
| OHistory (steps : list (N + list bool))         (* per compile: error code, or visibility of every probe name *)
| OClock (now : Z * Z * Z * Z * Z * Z * Z * Z) (today : Z * Z * Z) (tod : Z * Z * Z * Z) (same_in_every_tz : bool)
| ORun (repeat_same concurrent_same no_race no_crash : bool).

Definition res_eqb (a b : N + list bool) : bool :=
  match a, b with
  | inl x, inl y => (x =? y)%N
  | inr x, inr y => list_eqb Bool.eqb x y
  | _, _ => false
  end.
Definition model_history (base exper : table) (h : list (list copt)) (probes : list N) : list (N + list bool) :=
  map (fun r => match r with inl e => inl e | inr t => inr (map (fun p => mem p t) probes) end)
      (snd (run_history {| g_base := base; g_exper := exper |} h)).
Definition z8_eqb (a b : Z * Z * Z * Z * Z * Z * Z * Z) : bool :=
  let '(a1, a2, a3, a4, a5, a6, a7, a8) := a in let '(b1, b2, b3, b4, b5, b6, b7, b8) := b in
  (a1 =? b1) && (a2 =? b2) && (a3 =? b3) && (a4 =? b4) && (a5 =? b5) && (a6 =? b6) && (a7 =? b7) && (a8 =? b8).
Definition z3_eqb (a b : Z * Z * Z) : bool := let '(a1, a2, a3) := a in let '(b1, b2, b3) := b in (a1 =? b1) && (a2 =? b2) && (a3 =? b3).
Definition z4_eqb (a b : Z * Z * Z * Z) : bool := let '(a1, a2, a3, a4) := a in let '(b1, b2, b3, b4) := b in (a1 =? b1) && (a2 =? b2) && (a3 =? b3) && (a4 =? b4).

Definition agrees (c : case) (o : obs) : bool :=
  match c, o with
  | CHistory base exper h probes, OHistory steps => list_eqb res_eqb (model_history base exper h probes) steps
  | CClock t, OClock n d tod _ => z8_eqb (fp_now t) n && z3_eqb (fp_today t) d && z4_eqb (fp_time_of_day t) tod
  | CRun _, ORun a b c' d => a && b && c' && d
  | _, _ => false
  end.
(* isolation, stated on what was observed: every compile behaves as if it were the only one *)
Definition alone (base exper : table) (os : list copt) (probes : list N) : N + list bool :=
  match snd (compile {| g_base := base; g_exper := exper |} os) with inl e => inl e | inr t => inr (map (fun p => mem p t) probes) end.
Definition holds (c : case) (o : obs) : bool :=
  match c, o with
  | CHistory base exper h probes, OHistory steps => list_eqb res_eqb (map (fun os => alone base exper os probes) h) steps
  | CClock t, OClock n d tod tz =>
      let '(y, mo, dd, hh, mi, ss, ms, off) := n in
      z3_eqb d (y, mo, dd) && z4_eqb tod (hh, mi, ss, ms) && z8_eqb (fp_now t) n && tz
  | CRun _, ORun a b c' d => a && b && c' && d
  | _, _ => false
  end.
Definition kf (c : case) : N := 0%N.
Definition judge (x : N * case * obs) : verdict :=
  let '(id, c, o) := x in
  {| v_id := id; v_agree := agrees c o; v_holds := holds c o; v_kf := kf c |}.
