(* C04/Proofs.v *)
From FPV Require Import Base.Prelude C04.Model.

(* ---- compile histories: every compile is as if it were alone, and the tables are what they were ------ *)
Lemma compile_keeps_state g os : fst (compile g os) = g.
Proof. reflexivity. Qed.
Theorem history_isolated : forall h g, fst (run_history g h) = g /\ snd (run_history g h) = map (fun os => snd (compile g os)) h.
Proof.
  induction h as [|os r IH]; intro g; [split; reflexivity|].
  cbn [run_history compile]. destruct (IH g) as [H1 H2].
  destruct (run_history g r) as [g2 rest]. cbn [fst snd] in *. subst. split; reflexivity.
Qed.
Lemma failed_stays_failed g : forall os t tr, fst (apply_all g t tr true os) = true.
Proof.
  induction os as [|o os IH]; intros t tr; [reflexivity|].
  destruct o as [n ok| | |]; cbn [apply_all]; try apply IH.
  - destruct (mem n t || negb ok); apply IH.
  - destruct tr; apply IH.
Qed.
(* a name that is in the table -- every built-in is -- can neither be replaced nor registered again *)
Theorem existing_name_refused g t tr n ok os : mem n t = true -> apply_opts g t tr (OAddFn n ok :: os) = inl 1%N.
Proof.
  intro H. unfold apply_opts. cbn [apply_all]. rewrite H. cbn [orb].
  pose proof (failed_stays_failed g os t tr) as Hf. destruct (apply_all g t tr true os) as [f t']. cbn in Hf. subst f. reflexivity.
Qed.
Lemma apply_all_grows g : forall os t tr f n, mem n t = true -> mem n (snd (apply_all g t tr f os)) = true.
Proof.
  induction os as [|o os IH]; intros t tr f n Hn; [exact Hn|].
  destruct o as [m ok| | |]; cbn [apply_all].
  - destruct (mem m t || negb ok); [apply IH; exact Hn|]. apply IH. unfold mem in *. cbn [existsb]. rewrite Hn. apply orb_true_r.
  - apply IH. unfold mem in *. rewrite existsb_app, Hn. reflexivity.
  - apply IH. exact Hn.
  - destruct tr; apply IH; exact Hn.
Qed.
Theorem builtins_always_visible g os t : snd (compile g os) = inr t -> forall n, mem n (g_base g) = true -> mem n t = true.
Proof.
  cbn. unfold apply_opts. intros H n Hn. pose proof (apply_all_grows g os (g_base g) false false n Hn) as Hg.
  destruct (apply_all g (g_base g) false false os) as [f t']. destruct f; [discriminate|]. inversion H; subst. exact Hg.
Qed.
(* a function registered through an option is visible in that compile ... *)
Theorem custom_function_visible g n : mem n (g_base g) = false ->
  exists t, snd (compile g [OAddFn n true]) = inr t /\ mem n t = true.
Proof.
  intro Hb. cbn. unfold apply_opts. cbn [apply_all]. rewrite Hb. cbn. eexists. split; [reflexivity|].
  unfold mem. cbn. rewrite N.eqb_refl. reflexivity.
Qed.
(* ... and in no other: a later compile without that option does not see it (whatever came before) *)
Lemma apply_all_no_new_name g n : mem n (g_exper g) = false -> forall os t tr f,
  (forall m ok, In (OAddFn m ok) os -> m <> n) -> mem n t = false -> mem n (snd (apply_all g t tr f os)) = false.
Proof.
  intro He. induction os as [|o os IH]; intros t tr f Hos H0; [exact H0|].
  assert (Hos' : forall m ok, In (OAddFn m ok) os -> m <> n) by (intros m ok Hin; exact (Hos m ok (or_intror Hin))).
  destruct o as [m ok| | |]; cbn [apply_all].
  - destruct (mem m t || negb ok); [apply IH; assumption|]. apply IH; [exact Hos'|].
    unfold mem in *. cbn [existsb]. rewrite H0, orb_false_r. apply N.eqb_neq. intro E. subst m.
    exact (Hos n ok (or_introl eq_refl) eq_refl).
  - apply IH; [exact Hos'|]. unfold mem in *. rewrite existsb_app, H0. cbn [orb].
    destruct (existsb (N.eqb n) (filter (fun n0 => negb (existsb (N.eqb n0) t)) (g_exper g))) eqn:E; [|reflexivity].
    apply existsb_exists in E as [x [Hx Hxn]]. apply filter_In in Hx as [Hx _]. apply N.eqb_eq in Hxn. subst x.
    assert (existsb (N.eqb n) (g_exper g) = true) by (apply existsb_exists; exists n; split; [exact Hx|apply N.eqb_refl]).
    congruence.
  - apply IH; assumption.
  - destruct tr; apply IH; assumption.
Qed.
Theorem custom_function_not_visible_later g n h os t :
  mem n (g_base g) = false -> mem n (g_exper g) = false -> (forall m ok, In (OAddFn m ok) os -> m <> n) ->
  nth_error (snd (run_history g (h ++ [os]))) (List.length h) = Some (inr t) -> mem n t = false.
Proof.
  intros Hb He Hos Hn. destruct (history_isolated (h ++ [os]) g) as [_ H2]. rewrite H2 in Hn.
  rewrite map_app in Hn. rewrite nth_error_app2 in Hn by (rewrite map_length; lia).
  rewrite map_length, Nat.sub_diag in Hn. cbn in Hn. inversion Hn as [H]. clear Hn H2.
  unfold apply_opts in H. pose proof (apply_all_no_new_name g n He os (g_base g) false false Hos Hb) as Hg.
  destruct (apply_all g (g_base g) false false os) as [f t']. destruct f; [discriminate|]. inversion H; subst. exact Hg.
Qed.
(* the shared-table alternative is not isolated: a registration leaks into the next compile *)
Lemma shared_table_leaks : exists g shared n,
  let '(shared1, _) := compile_shared g shared [OAddFn n true] in
  snd (compile_shared g shared1 []) <> snd (compile_shared g shared []).
Proof. exists {| g_base := [1%N]; g_exper := [] |}, [1%N], 7%N. cbn. discriminate. Qed.

(* ---- one instant -------------------------------------------------------------------------------------------------- *)
Theorem one_instant t :
  let '(y, mo, d, h, mi, s, ms, off) := fp_now t in fp_today t = (y, mo, d) /\ fp_time_of_day t = (h, mi, s, ms).
Proof. destruct t; cbn. split; reflexivity. Qed.

(* ---- interleavings -------------------------------------------------------------------------------------------------- *)
Section I.
  Variable G L : Type.
  Variable step : nat -> G -> L -> L.
  Lemma iter_steps_snoc i g n l : iter_steps G L step i g (S n) l = step i g (iter_steps G L step i g n l).
  Proof. revert l. induction n as [|n IH]; intro l; [reflexivity|]. cbn [iter_steps] in *. rewrite IH. reflexivity. Qed.

  (* whatever the schedule, the state of call i is what i alone computes in as many steps as it was given *)
  Theorem interleaving_independent g : forall sched ls i,
    run_schedule G L step g ls sched i = iter_steps G L step i g (count_occ_nat i sched) (ls i).
  Proof.
    unfold run_schedule. induction sched as [|j sched IH] using rev_ind; intros ls i; [reflexivity|].
    rewrite fold_left_app. cbn [fold_left]. unfold sched_step at 1, upd_local.
    unfold count_occ_nat. rewrite filter_app, app_length. cbn [filter].
    destruct (Nat.eqb i j) eqn:E.
    - apply Nat.eqb_eq in E. subst j. cbn [List.length]. rewrite Nat.add_1_r, iter_steps_snoc.
      f_equal. apply IH.
    - cbn [List.length]. rewrite Nat.add_0_r. apply IH.
  Qed.
  (* hence two schedules that give every call the same number of steps end in the same states *)
  Corollary schedules_equivalent g ls s1 s2 :
    (forall i, count_occ_nat i s1 = count_occ_nat i s2) ->
    forall i, run_schedule G L step g ls s1 i = run_schedule G L step g ls s2 i.
  Proof. intros H i. rewrite !interleaving_independent, H. reflexivity. Qed.
End I.
