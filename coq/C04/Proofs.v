(* C04/Proofs.v *)
From FPV Require Import Base.Prelude C04.Model.

(* ---- compile histories: every compile is as if it were alone, and the tables are what they were ------ *)
Lemma compile_keeps_state g os : fst (compile g os) = g.
Proof. reflexivity. Qed.
Theorem history_isolated : forall h g, fst (run_history g h) = g /\ snd (run_history g h) = map (fun os => snd (compile g os)) h.
Proof.
  induction h as [|os r IH]; intro g; [split; reflexivity|].
  cbn [run_history compile]. destruct (IH g) as [H1 H2].
  destruct (run_history g r) as [g2 rest]. cbn [fst snd] in *. subst. split; reflexivity.
Qed.
(* a name that is in the table -- every built-in is -- can neither be replaced nor registered again *)
Theorem existing_name_refused g t tr n ok os : mem n t = true -> apply_opts g t tr (OAddFn n ok :: os) = inl 2%N.
Proof. intro H. cbn. rewrite H. reflexivity. Qed.
Lemma apply_opts_grows g : forall os t tr t', apply_opts g t tr os = inr t' -> forall n, mem n t = true -> mem n t' = true.
Proof.
  induction os as [|o os IH]; intros t tr t' H n Hn.
  - cbn in H. inversion H; subst. exact Hn.
  - destruct o as [m ok| | |]; cbn [apply_opts] in H.
    + destruct (mem m t); [discriminate|]. destruct ok; [|discriminate]. cbn [negb] in H.
      apply (IH _ _ _ H). unfold mem in *. cbn [existsb]. rewrite Hn. apply orb_true_r.
    + apply (IH _ _ _ H). unfold mem in *. rewrite existsb_app, Hn. reflexivity.
    + apply (IH _ _ _ H). exact Hn.
    + destruct tr; [discriminate|]. apply (IH _ _ _ H). exact Hn.
Qed.
Theorem builtins_always_visible g os t : snd (compile g os) = inr t -> forall n, mem n (g_base g) = true -> mem n t = true.
Proof. cbn. intros H n Hn. exact (apply_opts_grows g os _ _ _ H n Hn). Qed.
(* a function registered through an option is visible in that compile ... *)
Theorem custom_function_visible g n : mem n (g_base g) = false ->
  exists t, snd (compile g [OAddFn n true]) = inr t /\ mem n t = true.
Proof.
  intro Hb. cbn. rewrite Hb. cbn. eexists. split; [reflexivity|]. unfold mem. cbn. rewrite N.eqb_refl. reflexivity.
Qed.
(* ... and in no other: a later compile without that option does not see it (whatever came before) *)
Theorem custom_function_not_visible_later g n h os t :
  mem n (g_base g) = false -> mem n (g_exper g) = false -> (forall m ok, In (OAddFn m ok) os -> m <> n) ->
  nth_error (snd (run_history g (h ++ [os]))) (List.length h) = Some (inr t) -> mem n t = false.
Proof.
  intros Hb He Hos Hn. destruct (history_isolated (h ++ [os]) g) as [_ H2]. rewrite H2 in Hn.
  rewrite map_app in Hn. rewrite nth_error_app2 in Hn by (rewrite map_length; lia).
  rewrite map_length, Nat.sub_diag in Hn. cbn in Hn. inversion Hn as [H]. clear Hn H2.
  assert (Hgen : forall os t0 tr t', (forall m ok, In (OAddFn m ok) os -> m <> n) -> mem n t0 = false ->
            apply_opts g t0 tr os = inr t' -> mem n t' = false).
  { clear - He. induction os as [|o os IH]; intros t0 tr t' Hos H0 H.
    - cbn in H. inversion H; subst. exact H0.
    - destruct o as [m ok| | |]; cbn [apply_opts] in H.
      + destruct (mem m t0); [discriminate|]. destruct ok; [|discriminate]. cbn [negb] in H.
        apply (IH _ _ _ (fun m' ok' Hin => Hos m' ok' (or_intror Hin))) in H; [exact H|].
        unfold mem in *. cbn [existsb]. rewrite H0, orb_false_r. apply N.eqb_neq. intro E. subst m.
        exact (Hos n true (or_introl eq_refl) eq_refl).
      + apply (IH _ _ _ (fun m' ok' Hin => Hos m' ok' (or_intror Hin))) in H; [exact H|].
        unfold mem in *. rewrite existsb_app, H0. cbn [orb].
        destruct (existsb (N.eqb n) (filter (fun n0 => negb (existsb (N.eqb n0) t0)) (g_exper g))) eqn:E; [|reflexivity].
        apply existsb_exists in E as [x [Hx Hxn]]. apply filter_In in Hx as [Hx _]. apply N.eqb_eq in Hxn. subst x.
        assert (existsb (N.eqb n) (g_exper g) = true) by (apply existsb_exists; exists n; split; [exact Hx|apply N.eqb_refl]).
        unfold mem in He. congruence.
      + apply (IH _ _ _ (fun m' ok' Hin => Hos m' ok' (or_intror Hin))) in H; assumption.
      + destruct tr; [discriminate|]. apply (IH _ _ _ (fun m' ok' Hin => Hos m' ok' (or_intror Hin))) in H; assumption. }
  exact (Hgen os _ _ _ Hos Hb H).
Qed.
(* the shared-table alternative is not isolated: a registration leaks into the next compile *)
Lemma shared_table_leaks : exists g shared n,
  let '(shared1, _) := compile_shared g shared [OAddFn n true] in
  snd (compile_shared g shared1 []) <> snd (compile_shared g shared []).
Proof. exists {| g_base := [1%N]; g_exper := [] |}, [1%N], 7%N. cbn. discriminate. Qed.

(* ---- one instant -------------------------------------------------------------------------------------------------- *)
Theorem one_instant t :
  let '(y, mo, d, h, mi, s, ms, off) := fp_now t in fp_today t = (y, mo, d) /\ fp_time_of_day t = (h, mi, s, ms).
Proof. destruct t; cbn. split; reflexivity. Qed.

(* ---- interleavings -------------------------------------------------------------------------------------------------- *)
Section I.
  Variable G L : Type.
  Variable step : nat -> G -> L -> L.
  Lemma iter_steps_snoc i g n l : iter_steps G L step i g (S n) l = step i g (iter_steps G L step i g n l).
  Proof. revert l. induction n as [|n IH]; intro l; [reflexivity|]. cbn [iter_steps] in *. rewrite IH. reflexivity. Qed.

  (* whatever the schedule, the state of call i is what i alone computes in as many steps as it was given *)
  Theorem interleaving_independent g : forall sched ls i,
    run_schedule G L step g ls sched i = iter_steps G L step i g (count_occ_nat i sched) (ls i).
  Proof.
    unfold run_schedule. induction sched as [|j sched IH] using rev_ind; intros ls i; [reflexivity|].
    rewrite fold_left_app. cbn [fold_left]. unfold sched_step at 1, upd_local.
    unfold count_occ_nat. rewrite filter_app, app_length. cbn [filter].
    destruct (Nat.eqb i j) eqn:E.
    - apply Nat.eqb_eq in E. subst j. cbn [List.length]. rewrite Nat.add_1_r, iter_steps_snoc.
      f_equal. apply IH.
    - cbn [List.length]. rewrite Nat.add_0_r. apply IH.
  Qed.
  (* hence two schedules that give every call the same number of steps end in the same states *)
  Corollary schedules_equivalent g ls s1 s2 :
    (forall i, count_occ_nat i s1 = count_occ_nat i s2) ->
    forall i, run_schedule G L step g ls s1 i = run_schedule G L step g ls s2 i.
  Proof. intros H i. rewrite !interleaving_independent, H. reflexivity. Qed.
End I.
