(* C19/Proofs.v *)
From FPV Require Import Base.Prelude C19.Model.
From Coq Require Import String Ascii.

(* ---- byte strings ------------------------------------------------------------------------------------ *)
Lemma beqb_eq a b : beqb a b = true <-> a = b.
Proof. apply ustr_eqb_eq. Qed.
Lemma beqb_refl a : beqb a a = true.
Proof. apply beqb_eq. reflexivity. Qed.
Lemma beqb_neq a b : beqb a b = false <-> a <> b.
Proof.
  split.
  - intros H E. apply beqb_eq in E. congruence.
  - intro H. destruct (beqb a b) eqn:E; [apply beqb_eq in E; contradiction|reflexivity].
Qed.
Lemma beqb_sym a b : beqb a b = beqb b a.
Proof.
  destruct (beqb a b) eqn:E.
  - apply beqb_eq in E. subst. symmetry. apply beqb_refl.
  - symmetry. apply beqb_neq. apply beqb_neq in E. congruence.
Qed.

Lemma bmem_app c a b : bmem c (a ++ b) = bmem c a || bmem c b.
Proof. unfold bmem. apply existsb_app. Qed.
Lemma bmem_cons c x a : bmem c (x :: a) = (c =? x)%N || bmem c a.
Proof. reflexivity. Qed.
Lemma bmem_forallb (cls : N -> bool) c s : cls c = false -> forallb cls s = true -> bmem c s = false.
Proof.
  intros Hc. induction s as [|x s IH]; cbn [forallb bmem existsb]; intro H; [reflexivity|].
  apply andb_prop in H as [Hx Hs]. fold (bmem c s). rewrite (IH Hs).
  destruct (N.eqb_spec c x) as [->|_]; [congruence|reflexivity].
Qed.

(* ---- split and join ------------------------------------------------------------------------------------- *)
Definition nosep (sep : N) (s : bytes) : Prop := bmem sep s = false.

Lemma split_nonnil sep s : split sep s <> [].
Proof.
  destruct s as [|c r]; cbn [split]; [discriminate|].
  destruct (c =? sep)%N; [discriminate|]. destruct (split sep r); discriminate.
Qed.
Lemma split_nosep sep a : nosep sep a -> split sep a = [a].
Proof.
  unfold nosep. induction a as [|c a IH]; intro H; [reflexivity|].
  rewrite bmem_cons in H. apply orb_false_elim in H as [Hc Ha].
  cbn [split]. rewrite N.eqb_sym, Hc. rewrite (IH Ha). reflexivity.
Qed.
Lemma split_app sep a r : nosep sep a -> split sep (a ++ sep :: r) = a :: split sep r.
Proof.
  unfold nosep. induction a as [|c a IH]; intro H.
  - cbn [app split]. rewrite N.eqb_refl. reflexivity.
  - rewrite bmem_cons in H. apply orb_false_elim in H as [Hc Ha].
    cbn [app split]. rewrite N.eqb_sym, Hc. rewrite (IH Ha). reflexivity.
Qed.
Lemma join_cons2 sep x y l : join sep (x :: y :: l) = x ++ sep :: join sep (y :: l).
Proof. reflexivity. Qed.
Lemma split_join sep l : l <> [] -> Forall (nosep sep) l -> split sep (join sep l) = l.
Proof.
  induction l as [|x l IH]; intros Hne Hall; [contradiction|].
  inversion Hall as [|? ? Hx Hl]; subst.
  destruct l as [|y l]; [cbn [join]; apply split_nosep; exact Hx|].
  rewrite join_cons2, split_app by exact Hx. rewrite IH; [reflexivity|discriminate|exact Hl].
Qed.
Lemma join_split sep s : join sep (split sep s) = s.
Proof.
  induction s as [|c r IH]; [reflexivity|].
  cbn [split]. destruct (c =? sep)%N eqn:E.
  - apply N.eqb_eq in E. subst c.
    destruct (split sep r) as [|h t] eqn:Es; [exfalso; exact (split_nonnil _ _ Es)|].
    rewrite join_cons2. cbn [app]. rewrite IH. reflexivity.
  - destruct (split sep r) as [|h t] eqn:Es; [exfalso; exact (split_nonnil _ _ Es)|].
    destruct t as [|h2 t]; cbn [join] in *; [rewrite IH; reflexivity|].
    cbn [app]. rewrite <- IH. reflexivity.
Qed.
Lemma join_app sep P Q : P <> [] -> Q <> [] -> join sep (P ++ Q) = join sep P ++ sep :: join sep Q.
Proof.
  intros HP HQ. induction P as [|x P IH]; [contradiction|].
  destruct P as [|y P].
  - cbn [app]. destruct Q as [|q Q]; [contradiction|]. reflexivity.
  - change ((x :: y :: P) ++ Q) with (x :: y :: (P ++ Q)). rewrite !join_cons2.
    change (y :: P ++ Q) with ((y :: P) ++ Q). rewrite IH by discriminate. rewrite <- app_assoc. reflexivity.
Qed.
Lemma split_nosep_all sep s : Forall (nosep sep) (split sep s).
Proof.
  induction s as [|c r IH]; [repeat constructor|].
  cbn [split]. destruct (c =? sep)%N eqn:E; [constructor; [reflexivity|exact IH]|].
  destruct (split sep r) as [|h t]; [repeat constructor; unfold nosep; rewrite bmem_cons, N.eqb_sym, E; reflexivity|].
  inversion IH; subst. constructor; [|assumption].
  unfold nosep in *. rewrite bmem_cons, N.eqb_sym, E. assumption.
Qed.

(* ---- trimming ---------------------------------------------------------------------------------------------- *)
Lemma trimr_snoc_sep c s : trimr c (s ++ [c]) = trimr c s.
Proof. unfold trimr. rewrite rev_app_distr. cbn [rev app drop_while]. rewrite N.eqb_refl. reflexivity. Qed.
Lemma trimr_snoc_other c s x : x <> c -> trimr c (s ++ [x]) = s ++ [x].
Proof.
  intro H. unfold trimr. rewrite rev_app_distr. cbn [rev app drop_while].
  destruct (N.eqb_spec c x) as [->|_]; [contradiction|].
  change (x :: rev s) with (rev [x] ++ rev s). rewrite <- rev_app_distr. apply rev_involutive.
Qed.
Lemma trimr_nil c : trimr c [] = [].
Proof. reflexivity. Qed.

(* ---- character classes and names ---------------------------------------------------------------------- *)
Lemma is_id_chars s : is_id s = true -> forallb id_char s = true.
Proof. unfold is_id. intro H. apply andb_prop in H as [_ H]. exact H. Qed.
Lemma is_id_nonnil s : is_id s = true -> s <> [].
Proof. intros H E. subst. discriminate. Qed.
Lemma is_id_no c s : id_char c = false -> is_id s = true -> bmem c s = false.
Proof. intros Hc H. apply (bmem_forallb id_char); [exact Hc|apply is_id_chars; exact H]. Qed.

Lemma existsb_beqb_In s l : existsb (beqb s) l = true -> In s l.
Proof. intro H. apply existsb_exists in H as [x [Hin Hx]]. apply beqb_eq in Hx. subst. exact Hin. Qed.
Lemma rest_types_alpha_all : forallb (forallb is_alpha) rest_types = true.
Proof. vm_compute. reflexivity. Qed.
Lemma rest_type_alpha t : is_rest_type t = true -> forallb is_alpha t = true.
Proof. intro H. apply existsb_beqb_In in H. exact (proj1 (forallb_forall _ _) rest_types_alpha_all t H). Qed.
Lemma rest_type_is_type t : is_rest_type t = true -> is_type t = true.
Proof. intro H. unfold is_type, registry_types. cbn [existsb]. unfold is_rest_type in H. rewrite H. apply orb_true_r. Qed.
Lemma rest_type_no c t : is_alpha c = false -> is_rest_type t = true -> bmem c t = false.
Proof. intros Hc H. apply (bmem_forallb is_alpha); [exact Hc|apply rest_type_alpha; exact H]. Qed.
Lemma rest_type_not_history t : is_rest_type t = true -> beqb t history = false.
Proof.
  intro H. apply beqb_neq. intro E. subst. apply rest_type_alpha in H. vm_compute in H. discriminate.
Qed.
Lemma rest_type_nonnil t : is_rest_type t = true -> t <> [].
Proof. intros H E. subst. vm_compute in H. discriminate. Qed.
Lemma history_no c : bmem c history = (c =? 95)%N || bmem c (bs "history").
Proof. reflexivity. Qed.

(* ---- the shape of a formatted REST reference ------------------------------------------------------------ *)
Definition tail_segs (ty id ver : bytes) : list bytes :=
  ty :: id :: (match ver with [] => [] | _ :: _ => [history; ver] end).
Lemma fmt_identity_join ty id ver : fmt_identity ty id ver = join slash (tail_segs ty id ver).
Proof. unfold fmt_identity, tail_segs. destruct ver; cbn [join]; [rewrite app_nil_r|]; reflexivity. Qed.

Definition ver_ok (ver : bytes) : Prop := ver = [] \/ is_id ver = true.

Lemma tail_segs_nosep ty id ver : is_rest_type ty = true -> is_id id = true -> ver_ok ver -> Forall (nosep slash) (tail_segs ty id ver).
Proof.
  intros Ht Hi Hv. unfold tail_segs.
  constructor; [apply rest_type_no; [reflexivity|exact Ht]|].
  constructor; [apply is_id_no; [reflexivity|exact Hi]|].
  destruct ver as [|v ver]; [constructor|].
  destruct Hv as [Hv|Hv]; [discriminate|].
  constructor; [reflexivity|]. constructor; [apply is_id_no; [reflexivity|exact Hv]|constructor].
Qed.

(* matching the reversed segments *)
Lemma try_plain_tail P ty id : is_id id = true -> is_rest_type ty = true -> prefix_ok P = true ->
  try_plain (id :: ty :: rev P) = Some (P, ty, id, []).
Proof. intros Hi Ht HP. cbn [try_plain]. rewrite rev_involutive, Hi, Ht, HP. reflexivity. Qed.
Lemma try_versioned_plain_none P ty id : is_rest_type ty = true -> try_versioned (id :: ty :: rev P) = None.
Proof.
  intro Ht. cbn [try_versioned]. destruct (rev P) as [|a [|b rp]]; try reflexivity.
  rewrite (rest_type_not_history _ Ht). reflexivity.
Qed.
Lemma try_versioned_tail P ty id ver : is_id id = true -> is_id ver = true -> is_rest_type ty = true -> prefix_ok P = true ->
  try_versioned (ver :: history :: id :: ty :: rev P) = Some (P, ty, id, ver).
Proof. intros Hi Hv Ht HP. cbn [try_versioned]. rewrite rev_involutive, beqb_refl, Hi, Hv, Ht, HP. reflexivity. Qed.

Lemma rest_match_join P ty id ver :
  Forall (nosep slash) P -> prefix_ok P = true -> is_rest_type ty = true -> is_id id = true -> ver_ok ver ->
  rest_match (join slash (P ++ tail_segs ty id ver)) = Some (P, ty, id, ver).
Proof.
  intros HPn HP Ht Hi Hv. unfold rest_match.
  rewrite split_join.
  2:{ unfold tail_segs. destruct P; discriminate. }
  2:{ apply Forall_app. split; [exact HPn|apply tail_segs_nosep; assumption]. }
  rewrite rev_app_distr. unfold tail_segs.
  destruct ver as [|v ver'].
  - cbn [rev app]. rewrite try_versioned_plain_none by exact Ht. apply try_plain_tail; assumption.
  - destruct Hv as [Hv|Hv]; [discriminate|]. cbn [rev app].
    rewrite try_versioned_tail by assumption. reflexivity.
Qed.

(* ---- canonical service bases ------------------------------------------------------------------------------ *)
Definition canonical_base_segs (P : list bytes) : Prop := valid_base_segs base_char P = true /\ last P [] <> [].

Lemma valid_base_shape cls P : valid_base_segs cls P = true ->
  exists sch s segs, P = sch :: [] :: s :: segs /\ scheme_seg sch = true /\ forallb (forallb cls) (s :: segs) = true.
Proof.
  unfold valid_base_segs. destruct P as [|sch [|e segs]]; try discriminate.
  destruct e; [|discriminate]. destruct segs as [|s segs]; [discriminate|].
  intro H. apply andb_prop in H as [H1 H2]. exists sch, s, segs. repeat split; assumption.
Qed.
Lemma scheme_seg_cases sch : scheme_seg sch = true -> sch = bs "http:" \/ sch = bs "https:".
Proof. unfold scheme_seg. intro H. apply orb_prop in H as [H|H]; apply beqb_eq in H; auto. Qed.
Lemma valid_base_nosep cls P : cls slash = false -> valid_base_segs cls P = true -> Forall (nosep slash) P.
Proof.
  intros Hc H. destruct (valid_base_shape _ _ H) as [sch [s [segs [-> [Hs Hall]]]]].
  constructor; [destruct (scheme_seg_cases _ Hs) as [-> | ->]; reflexivity|].
  constructor; [reflexivity|].
  apply Forall_forall. intros x Hx. apply (bmem_forallb cls); [exact Hc|].
  exact (proj1 (forallb_forall _ _) Hall x Hx).
Qed.
Lemma valid_base_no cls c P : cls c = false -> bmem c (bs "http:") = false -> bmem c (bs "https:") = false ->
  valid_base_segs cls P = true -> Forall (fun s => bmem c s = false) P.
Proof.
  intros Hc H1 H2 H. destruct (valid_base_shape _ _ H) as [sch [s [segs [-> [Hs Hall]]]]].
  constructor; [destruct (scheme_seg_cases _ Hs) as [-> | ->]; assumption|].
  constructor; [reflexivity|].
  apply Forall_forall. intros x Hx. apply (bmem_forallb cls); [exact Hc|].
  exact (proj1 (forallb_forall _ _) Hall x Hx).
Qed.

Lemma join_snoc sep P x : P <> [] -> join sep (P ++ [x]) = join sep P ++ sep :: x.
Proof. intro H. rewrite join_app by (assumption || discriminate). reflexivity. Qed.

Lemma last_snoc_inv (P : list bytes) : P <> [] -> exists Q x, P = Q ++ [x] /\ last P [] = x.
Proof.
  intro H. destruct (exists_last H) as [Q [x E]]. exists Q, x. split; [exact E|]. subst. apply last_last.
Qed.

Lemma base_of_canonical P : canonical_base_segs P -> base_of P = join slash P.
Proof.
  intros [Hv Hl]. pose proof (valid_base_nosep _ _ eq_refl Hv) as Hn.
  destruct (valid_base_shape _ _ Hv) as [sch [s [segs [E _]]]].
  destruct (last_snoc_inv P) as [Q [x [EQ Ex]]]; [subst; discriminate|].
  rewrite Ex in Hl. unfold base_of.
  assert (HQ : Q <> []). { intro. subst Q. subst P. cbn in EQ. discriminate. }
  rewrite EQ, join_snoc by exact HQ.
  destruct (exists_last Hl) as [y [c Ey]]. subst x.
  assert (Hc : c <> slash).
  { intro. subst c. rewrite EQ in Hn. apply Forall_app in Hn as [_ Hn]. inversion Hn as [|? ? Hx _]; subst. try rewrite Ey in Hx.
    unfold nosep in Hx. rewrite bmem_app in Hx. cbn in Hx. rewrite orb_true_r in Hx. discriminate. }
  try rewrite Ey.
  replace (join slash Q ++ slash :: y ++ [c]) with ((join slash Q ++ slash :: y) ++ [c]) by (rewrite <- app_assoc; reflexivity).
  apply trimr_snoc_other. exact Hc.
Qed.

Lemma valid_join_nonnil P : valid_base_segs base_char P = true -> exists c b, join slash P = c :: b /\ c <> hash.
Proof.
  intros Hv. destruct (valid_base_shape _ _ Hv) as [sch [s [segs [-> [Hs _]]]]].
  destruct (scheme_seg_cases _ Hs) as [-> | ->]; cbn; eexists; eexists; (split; [reflexivity|discriminate]).
Qed.
Lemma prefix_ok_cases P : prefix_ok P = true -> P = [] \/ valid_base_segs base_char P = true.
Proof. destruct P; [left; reflexivity|right; assumption]. Qed.

(* ---- Theorem A: format then parse, REST references ------------------------------------------------------- *)
Definition base_ok (P : list bytes) : Prop := P = [] \/ canonical_base_segs P.

Lemma format_rest_join P ty id ver : prefix_ok P = true ->
  format (LRest (join slash P) ty id ver) = join slash (P ++ tail_segs ty id ver).
Proof.
  intros H. destruct (prefix_ok_cases _ H) as [-> | HP]; [cbn [join format app]; apply fmt_identity_join|].
  destruct (valid_join_nonnil _ HP) as [c [b [E _]]].
  cbn [format]. rewrite E, <- E. rewrite join_app.
  - rewrite <- app_assoc. cbn [app]. rewrite fmt_identity_join. reflexivity.
  - intro. subst. discriminate.
  - discriminate.
Qed.

Lemma base_ok_facts P : base_ok P -> Forall (nosep slash) P /\ prefix_ok P = true /\ base_of P = join slash P
  /\ Forall (fun s => bmem hash s = false) P /\ Forall (fun s => bmem bar s = false) P.
Proof.
  intros [-> | HP]; [repeat split; constructor|].
  pose proof HP as [Hv Hl]. repeat split.
  - apply (valid_base_nosep _ _ eq_refl Hv).
  - unfold prefix_ok. destruct P; [discriminate|exact Hv].
  - apply base_of_canonical. exact HP.
  - apply (valid_base_no base_char hash); try reflexivity. exact Hv.
  - apply (valid_base_no base_char bar); try reflexivity. exact Hv.
Qed.

Lemma bmem_join c sep l : (c =? sep)%N = false -> Forall (fun s => bmem c s = false) l -> bmem c (join sep l) = false.
Proof.
  intros Hc. induction l as [|x l IH]; intro H; [reflexivity|].
  inversion H as [|? ? Hx Hl]; subst. destruct l as [|y l]; [exact Hx|].
  rewrite join_cons2, bmem_app, bmem_cons, Hx, Hc, (IH Hl). reflexivity.
Qed.

Lemma tail_segs_no c ty id ver : is_alpha c = false -> id_char c = false -> bmem c history = false ->
  is_rest_type ty = true -> is_id id = true -> ver_ok ver -> Forall (fun s => bmem c s = false) (tail_segs ty id ver).
Proof.
  intros H1 H2 H3 Ht Hi Hv. unfold tail_segs.
  constructor; [apply rest_type_no; assumption|].
  constructor; [apply is_id_no; assumption|].
  destruct ver as [|v ver]; [constructor|].
  destruct Hv as [Hv|Hv]; [discriminate|].
  constructor; [exact H3|]. constructor; [apply is_id_no; assumption|constructor].
Qed.

Theorem format_parse_rest orc P ty id ver :
  base_ok P -> is_rest_type ty = true -> is_id id = true -> ver_ok ver ->
  parse_uri orc (format (LRest (join slash P) ty id ver)) = Ok (LRest (join slash P) ty id ver).
Proof.
  intros HP Ht Hi Hv.
  destruct (base_ok_facts _ HP) as [Hn [Hpre [Hbase [Hh Hb]]]].
  rewrite format_rest_join by exact Hpre.
  set (u := join slash (P ++ tail_segs ty id ver)).
  assert (Hm : rest_match u = Some (P, ty, id, ver)) by (apply rest_match_join; assumption).
  assert (Hhash : bmem hash u = false).
  { apply bmem_join; [reflexivity|]. apply Forall_app. split; [exact Hh|apply tail_segs_no; auto]. }
  assert (Hbar : bmem bar u = false).
  { apply bmem_join; [reflexivity|]. apply Forall_app. split; [exact Hb|apply tail_segs_no; auto]. }
  unfold parse_uri. destruct u as [|c r] eqn:Eu.
  - (* impossible: the type is not empty *)
    exfalso. unfold rest_match in Hm. cbn in Hm. discriminate.
  - rewrite bmem_cons in Hhash. apply orb_false_elim in Hhash as [Hc Hr].
    rewrite N.eqb_sym in Hc. rewrite Hc. rewrite bmem_cons, N.eqb_sym, Hc, Hr. cbn [orb].
    rewrite Hbar, Hm, Hbase. reflexivity.
Qed.

(* ---- Theorem B: parse, format, parse ------------------------------------------------------------------------- *)
Lemma rest_match_inv u P ty id ver : rest_match u = Some (P, ty, id, ver) ->
  is_id id = true /\ is_rest_type ty = true /\ prefix_ok P = true /\ ver_ok ver /\ split slash u = P ++ tail_segs ty id ver.
Proof.
  unfold rest_match. intro H.
  assert (Hrev : split slash u = rev (rev (split slash u))) by (symmetry; apply rev_involutive).
  destruct (try_versioned (rev (split slash u))) as [x|] eqn:Ev.
  - inversion H; subst x. clear H. unfold try_versioned in Ev.
    destruct (rev (split slash u)) as [|v [|h [|i [|t rp]]]]; try discriminate.
    destruct (beqb h history && is_id v && is_id i && is_rest_type t && prefix_ok (rev rp)) eqn:Ec; [|discriminate].
    inversion Ev; subst. clear Ev.
    apply andb_prop in Ec as [Ec Hp]. apply andb_prop in Ec as [Ec Ht]. apply andb_prop in Ec as [Ec Hi].
    apply andb_prop in Ec as [Eh Hv]. apply beqb_eq in Eh. subst h.
    repeat split; try assumption; [right; exact Hv|].
    rewrite Hrev. cbn [rev]. unfold tail_segs. destruct ver as [|c ver']; [discriminate|].
    rewrite <- !app_assoc. reflexivity.
  - unfold try_plain in H. destruct (rev (split slash u)) as [|i [|t rp]]; try discriminate.
    destruct (is_id i && is_rest_type t && prefix_ok (rev rp)) eqn:Ec; [|discriminate].
    inversion H; subst. clear H.
    apply andb_prop in Ec as [Ec Hp]. apply andb_prop in Ec as [Hi Ht].
    repeat split; try assumption; [left; reflexivity|].
    rewrite Hrev. cbn [rev]. unfold tail_segs. rewrite <- !app_assoc. reflexivity.
Qed.

Lemma scheme_trimr sch : scheme_seg sch = true -> trimr slash sch = sch.
Proof. intro H. destruct (scheme_seg_cases _ H) as [-> | ->]; reflexivity. Qed.

Lemma base_of_snoc_nil Q : Q <> [] -> base_of (Q ++ [[]]) = base_of Q.
Proof. intro H. unfold base_of. rewrite join_snoc by exact H. apply trimr_snoc_sep. Qed.

Lemma base_of_strip : forall P, valid_base_segs base_char P = true ->
  scheme_seg (base_of P) = true \/ exists P', canonical_base_segs P' /\ base_of P = join slash P'.
Proof.
  induction P as [|x Q IH] using rev_ind; intro Hv; [discriminate|].
  destruct x as [|c x'].
  - (* a trailing empty segment: one more trailing slash *)
    assert (HQ : Q <> []) by (intro; subst; discriminate).
    rewrite base_of_snoc_nil by exact HQ.
    destruct (valid_base_shape _ _ Hv) as [sch [s [segs [E [Hs Hall]]]]].
    destruct Q as [|a [|b [|c' rest]]]; try discriminate.
    + (* Q = [sch; []] *)
      cbn [app] in E. inversion E; subst. left. unfold base_of. cbn [join].
      rewrite trimr_snoc_sep. rewrite scheme_trimr by exact Hs. exact Hs.
    + cbn [app] in E. inversion E; subst. apply IH.
      unfold valid_base_segs. rewrite Hs. cbn [andb].
      change (s :: rest ++ [[]]) with ((s :: rest) ++ [[]]) in Hall. rewrite forallb_app in Hall.
      apply andb_prop in Hall as [Hall _]. exact Hall.
  - right. exists (Q ++ [c :: x']). assert (Hc : canonical_base_segs (Q ++ [c :: x'])).
    { split; [exact Hv|]. rewrite last_last. discriminate. }
    split; [exact Hc|apply base_of_canonical; exact Hc].
Qed.

Definition nondegenerate (l : lit) : Prop := match l with LRest b _ _ _ => degenerate_base b = false | _ => True end.

Theorem parse_format_parse orc u l : parse_uri orc u = Ok l -> nondegenerate l -> parse_uri orc (format l) = Ok l.
Proof.
  unfold parse_uri at 1. destruct u as [|c r]; [discriminate|].
  destruct (c =? hash)%N eqn:Ec.
  - apply N.eqb_eq in Ec. subst c. destruct r as [|c' r'].
    + intro H; inversion H; subst. reflexivity.
    + destruct (is_id (c' :: r')) eqn:Ei; [|discriminate]. intros H _; inversion H; subst.
      cbn [format parse_uri]. rewrite N.eqb_refl, Ei. reflexivity.
  - destruct (bmem hash (c :: r)) eqn:Eh; [discriminate|].
    destruct (bmem bar (c :: r)) eqn:Eb; [discriminate|].
    destruct (rest_match (c :: r)) as [[[[P ty] id] ver]|] eqn:Em.
    + intros H Hnd; inversion H; subst. clear H. cbn [nondegenerate] in Hnd.
      destruct (rest_match_inv _ _ _ _ _ Em) as [Hi [Ht [Hp [Hv _]]]].
      destruct (prefix_ok_cases _ Hp) as [-> | Hvalid].
      * change (base_of []) with (join slash []). apply format_parse_rest; [left; reflexivity|assumption..].
      * destruct (base_of_strip _ Hvalid) as [Hdeg | [P' [Hc E]]]; [unfold degenerate_base in Hnd; congruence|].
        rewrite E. apply format_parse_rest; [right; exact Hc|assumption..].
    + destruct (orc (c :: r)) as [|[|] [|]] eqn:Eo; try discriminate.
      intros H _; inversion H; subst. cbn [format]. unfold parse_uri. rewrite Ec, Eh, Eb, Em, Eo. reflexivity.
Qed.

(* ... and the formatted text is the input itself unless the base carried redundant trailing slashes *)
Theorem parse_format_identity orc u l : parse_uri orc u = Ok l -> redundant u = false -> format l = u.
Proof.
  unfold parse_uri. destruct u as [|c r]; [discriminate|].
  destruct (c =? hash)%N eqn:Ec.
  - apply N.eqb_eq in Ec. subst c. destruct r as [|c' r'].
    + intro H; inversion H; subst. reflexivity.
    + destruct (is_id (c' :: r')); [|discriminate]. intros H _; inversion H; subst. reflexivity.
  - destruct (bmem hash (c :: r)); [discriminate|]. destruct (bmem bar (c :: r)); [discriminate|].
    unfold redundant. destruct (rest_match (c :: r)) as [[[[P ty] id] ver]|] eqn:Em.
    + intros H Hr; inversion H; subst. clear H.
      apply negb_false_iff in Hr. apply beqb_eq in Hr.
      destruct (rest_match_inv _ _ _ _ _ Em) as [_ [_ [Hp [_ Hs]]]].
      rewrite Hr, format_rest_join by exact Hp. rewrite <- Hs. apply join_split.
    + destruct (orc (c :: r)) as [|[|] [|]]; try discriminate. intros H _; inversion H; subst. reflexivity.
Qed.

(* nothing panics *)
Theorem parse_uri_total orc u : parse_uri orc u <> Panic.
Proof.
  unfold parse_uri. destruct u as [|c r]; [discriminate|].
  destruct (c =? hash)%N; [destruct r; [discriminate|destruct (is_id _); discriminate]|].
  destruct (bmem hash _); [discriminate|]. destruct (bmem bar _); [discriminate|].
  destruct (rest_match _) as [[[[? ?] ?] ?]|]; [discriminate|]. destruct (orc _) as [|[|] [|]]; discriminate.
Qed.

(* ---- strong and weak references to the same resource ---------------------------------------------------- *)
Lemma strong_field_roundtrip_all : forallb (fun t => beqb (strong_type (strong_field t)) t) registry_types = true.
Proof. vm_compute. reflexivity. Qed.
Lemma strong_field_roundtrip t : is_type t = true -> strong_type (strong_field t) = t.
Proof.
  intro H. apply existsb_beqb_In in H. apply beqb_eq.
  exact (proj1 (forallb_forall _ _) strong_field_roundtrip_all t H).
Qed.

Lemma ident_eqb_refl i : ident_eqb i i = true.
Proof. destruct i as [[t i] v]. cbn. rewrite !beqb_refl. reflexivity. Qed.

Lemma parse_weak orc ty id ver : is_rest_type ty = true -> is_id id = true -> ver_ok ver ->
  parse_uri orc (fmt_identity ty id ver) = Ok (LRest [] ty id ver).
Proof. intros. apply (format_parse_rest orc [] ty id ver); [left; reflexivity|assumption..]. Qed.

Theorem strong_weak_same orc ty id ver : is_rest_type ty = true -> is_id id = true -> ver_ok ver ->
  let s := strong_ref ty id ver in let w := weak_ref ty id ver in
  literal_of orc s = LOk (Some ty, LRest [] ty id ver) /\
  literal_of orc w = LOk (Some ty, LRest [] ty id ver) /\
  identity_of orc s = Ok (ty, id, ver) /\ identity_of orc w = Ok (ty, id, ver) /\
  ref_is orc s w = true /\ ref_is orc w s = true /\
  fp_reference s = fp_reference w.
Proof.
  intros Ht Hi Hv s w. pose proof (rest_type_is_type _ Ht) as Hty.
  assert (Es : identity_of orc s = Ok (ty, id, ver)).
  { unfold s, strong_ref, identity_of. cbn [rf_ref]. rewrite strong_field_roundtrip by exact Hty. unfold new_identity. rewrite Hty. reflexivity. }
  assert (Ew : identity_of orc w = Ok (ty, id, ver)).
  { unfold w, weak_ref, identity_of. cbn [rf_ref]. rewrite parse_weak by assumption. reflexivity. }
  repeat split.
  - unfold s, strong_ref, literal_of. cbn [rf_type rf_ref]. rewrite Hty, strong_field_roundtrip by exact Hty. rewrite Hty, beqb_refl. reflexivity.
  - unfold w, weak_ref, literal_of. cbn [rf_type rf_ref]. rewrite parse_weak by assumption. reflexivity.
  - exact Es.
  - exact Ew.
  - unfold ref_is. rewrite Es, Ew, ident_eqb_refl. cbn. rewrite ?orb_true_r. reflexivity.
  - unfold ref_is. rewrite Es, Ew, ident_eqb_refl. cbn. rewrite ?orb_true_r. reflexivity.
  - unfold s, w, strong_ref, weak_ref, fp_reference. cbn [rf_ref]. rewrite strong_field_roundtrip by exact Hty. reflexivity.
Qed.

(* ---- Is is an equivalence ------------------------------------------------------------------------------------ *)
Lemma opt_beqb_eq a b : opt_beqb a b = true <-> a = b.
Proof.
  destruct a, b; cbn; split; intro H; try discriminate; try reflexivity.
  - apply beqb_eq in H. subst. reflexivity.
  - inversion H. apply beqb_refl.
Qed.
Lemma refsum_eqb_eq a b : refsum_eqb a b = true <-> a = b.
Proof.
  destruct a, b; cbn; split; intro H; try discriminate; try reflexivity.
  - apply beqb_eq in H. subst. reflexivity.
  - inversion H. apply beqb_refl.
  - apply beqb_eq in H. subst. reflexivity.
  - inversion H. apply beqb_refl.
  - apply andb_prop in H as [H H3]. apply andb_prop in H as [H1 H2].
    apply beqb_eq in H1, H2, H3. subst. reflexivity.
  - inversion H. rewrite !beqb_refl. reflexivity.
Qed.
Lemma ref_eqb_eq a b : ref_eqb a b = true <-> a = b.
Proof.
  destruct a as [t1 r1 i1 o1], b as [t2 r2 i2 o2]. unfold ref_eqb. cbn [rf_type rf_ref rf_ident rf_other]. split; intro H.
  - apply andb_prop in H as [H H4]. apply andb_prop in H as [H H3]. apply andb_prop in H as [H1 H2].
    apply opt_beqb_eq in H1. apply refsum_eqb_eq in H2. apply N.eqb_eq in H3, H4. subst. reflexivity.
  - inversion H. subst. rewrite (proj2 (opt_beqb_eq t2 t2) eq_refl), (proj2 (refsum_eqb_eq r2 r2) eq_refl), !N.eqb_refl. reflexivity.
Qed.
Lemma ident_eqb_eq i j : ident_eqb i j = true <-> i = j.
Proof.
  destruct i as [[t1 i1] v1], j as [[t2 i2] v2]. cbn. split; intro H.
  - apply andb_prop in H as [H H3]. apply andb_prop in H as [H1 H2]. apply beqb_eq in H1, H2, H3. subst. reflexivity.
  - inversion H. rewrite !beqb_refl. reflexivity.
Qed.

(* the part of Is below proto.Equal *)
Definition same_target (orc : oracle) (a b : reference) : bool :=
  (rf_ident a =? rf_ident b)%N &&
  (if has_ref a || has_ref b then
     match identity_of orc a, identity_of orc b with Ok i, Ok j => ident_eqb i j | _, _ => false end
   else true).
Lemma ref_is_unfold orc a b : ref_is orc a b = ref_eqb a b || same_target orc a b.
Proof. reflexivity. Qed.
Lemma no_ref_no_identity orc a : has_ref a = false -> identity_of orc a = Err.
Proof. unfold has_ref, identity_of. destruct (rf_ref a); try discriminate. reflexivity. Qed.

Lemma same_target_sym orc a b : same_target orc a b = same_target orc b a.
Proof.
  unfold same_target. rewrite N.eqb_sym, (orb_comm (has_ref a)).
  destruct (identity_of orc a) as [i| |], (identity_of orc b) as [j| |]; try reflexivity.
  replace (ident_eqb j i) with (ident_eqb i j); [reflexivity|].
  destruct (ident_eqb i j) eqn:E.
  - apply ident_eqb_eq in E. subst. symmetry. apply ident_eqb_refl.
  - destruct (ident_eqb j i) eqn:E'; [|reflexivity]. apply ident_eqb_eq in E'. subst. rewrite ident_eqb_refl in E. discriminate.
Qed.
Lemma same_target_trans orc a b c : same_target orc a b = true -> same_target orc b c = true -> same_target orc a c = true.
Proof.
  unfold same_target. intros H1 H2.
  apply andb_prop in H1 as [I1 R1]. apply andb_prop in H2 as [I2 R2].
  apply N.eqb_eq in I1, I2. rewrite I1, I2, N.eqb_refl. cbn [andb].
  destruct (has_ref b) eqn:Hb.
  - rewrite orb_true_r in R1. cbn [orb] in R2.
    destruct (identity_of orc a) as [i| |]; try discriminate.
    destruct (identity_of orc b) as [j| |]; try discriminate.
    destruct (identity_of orc c) as [k| |]; try discriminate.
    apply ident_eqb_eq in R1, R2. subst. rewrite ident_eqb_refl. destruct (has_ref a || has_ref c); reflexivity.
  - rewrite (no_ref_no_identity _ _ Hb) in R1, R2. rewrite orb_false_r in R1. cbn [orb] in R2.
    destruct (has_ref a); [destruct (identity_of orc a); discriminate|].
    destruct (has_ref c); [discriminate|]. reflexivity.
Qed.

Theorem ref_is_refl orc a : ref_is orc a a = true.
Proof. rewrite ref_is_unfold, (proj2 (ref_eqb_eq a a) eq_refl). reflexivity. Qed.
Theorem ref_is_sym orc a b : ref_is orc a b = ref_is orc b a.
Proof.
  rewrite !ref_is_unfold, same_target_sym. f_equal.
  destruct (ref_eqb a b) eqn:E.
  - apply ref_eqb_eq in E. subst. symmetry. apply ref_eqb_eq. reflexivity.
  - destruct (ref_eqb b a) eqn:E'; [|reflexivity]. apply ref_eqb_eq in E'. subst.
    rewrite (proj2 (ref_eqb_eq a a) eq_refl) in E. discriminate.
Qed.
Theorem ref_is_trans orc a b c : ref_is orc a b = true -> ref_is orc b c = true -> ref_is orc a c = true.
Proof.
  rewrite !ref_is_unfold. intros H1 H2.
  apply orb_prop in H1 as [H1|H1]; [apply ref_eqb_eq in H1; subst; exact H2|].
  apply orb_prop in H2 as [H2|H2]; [apply ref_eqb_eq in H2; subst; rewrite H1; apply orb_true_r|].
  rewrite (same_target_trans _ _ _ _ H1 H2). apply orb_true_r.
Qed.

(* ---- canonicals ------------------------------------------------------------------------------------------------- *)
Lemma span_app_stop p a c r : forallb p a = true -> p c = false -> span p (a ++ c :: r) = (a, c :: r).
Proof.
  induction a as [|x a IH]; cbn [forallb app span]; intros Ha Hc; [rewrite Hc; reflexivity|].
  apply andb_prop in Ha as [Hx Ha]. rewrite Hx, (IH Ha Hc). reflexivity.
Qed.
Lemma span_all p a : forallb p a = true -> span p a = (a, []).
Proof.
  induction a as [|x a IH]; cbn [forallb span]; intro Ha; [reflexivity|].
  apply andb_prop in Ha as [Hx Ha]. rewrite Hx, (IH Ha). reflexivity.
Qed.
Lemma span_max_all p a : forall n, forallb p a = true -> (List.length a <= n)%nat -> span_max n p a = (a, []).
Proof.
  induction a as [|x a IH]; intros n Ha Hn; [destruct n; reflexivity|].
  cbn [forallb] in Ha. apply andb_prop in Ha as [Hx Ha]. cbn [List.length] in Hn.
  destruct n as [|n]; [lia|]. cbn [span_max]. rewrite Hx, (IH n Ha) by lia. reflexivity.
Qed.

Definition url_char (x : N) : bool := negb (x =? bar)%N && negb (x =? hash)%N.

Theorem canon_split_join url ver frag : wf_canon (url, ver, frag) = true ->
  canon_parse (canon_format (url, ver, frag)) = Ok (url, ver, frag).
Proof.
  unfold wf_canon. intro H.
  apply andb_prop in H as [H Hlen]. apply andb_prop in H as [H Hf]. apply andb_prop in H as [H Hv].
  apply andb_prop in H as [Hne Hu]. apply negb_true_iff in Hne. apply beqb_neq in Hne.
  apply Nat.leb_le in Hlen. fold url_char in Hu.
  unfold canon_format, canon_parse. fold url_char.
  destruct url as [|u0 url']; [contradiction|].
  destruct ver as [|v0 ver'], frag as [|f0 frag'].
  - rewrite !app_nil_r. rewrite span_all by exact Hu. reflexivity.
  - rewrite app_nil_l. rewrite (span_app_stop url_char (u0 :: url') hash (f0 :: frag')) by (exact Hu || reflexivity).
    change (hash =? bar)%N with false. change (hash =? hash)%N with true. cbn iota.
    rewrite span_max_all by (exact Hf || exact Hlen). reflexivity.
  - rewrite app_nil_r. rewrite (span_app_stop url_char (u0 :: url') bar (v0 :: ver')) by (exact Hu || reflexivity).
    change (bar =? bar)%N with true. cbn iota.
    rewrite span_all by exact Hv. reflexivity.
  - change ((bar :: v0 :: ver') ++ hash :: f0 :: frag') with (bar :: (v0 :: ver') ++ hash :: f0 :: frag').
    rewrite (span_app_stop url_char (u0 :: url') bar ((v0 :: ver') ++ hash :: f0 :: frag')) by (exact Hu || reflexivity).
    change (bar =? bar)%N with true. cbn iota.
    rewrite (span_app_stop canon_char (v0 :: ver') hash (f0 :: frag')) by (exact Hv || reflexivity).
    change (hash =? hash)%N with true. cbn iota.
    rewrite span_max_all by (exact Hf || exact Hlen). reflexivity.
Qed.

Theorem canon_parse_total c : canon_parse c <> Panic.
Proof.
  unfold canon_parse. destruct (span _ c) as [url r1]. destruct url; [discriminate|].
  destruct r1 as [|x t]; [discriminate|]. destruct (x =? bar)%N; [|discriminate].
  destruct (span canon_char t) as [v r]. destruct v; discriminate.
Qed.

(* ---- identity strings ------------------------------------------------------------------------------------------------ *)
Theorem identity_relative_roundtrip ty id ver : is_type ty = true -> nosep slash ty -> nosep slash id -> id <> [] ->
  (ver = [] \/ (nosep slash ver)) ->
  id_from_relative (fmt_identity ty id ver) = Ok (ty, id, ver).
Proof.
  intros Ht Hnt Hni Hne Hv. rewrite fmt_identity_join. unfold id_from_relative, tail_segs.
  destruct ver as [|v ver'].
  - rewrite split_join; [|discriminate|repeat constructor; assumption].
    unfold new_identity. rewrite Ht. reflexivity.
  - destruct Hv as [Hv|Hv]; [discriminate|].
    rewrite split_join; [|discriminate|repeat constructor; try assumption; reflexivity].
    rewrite beqb_refl. unfold new_identity. rewrite Ht. reflexivity.
Qed.

(* ---- non-vacuity: the premises are met by concrete references ------------------------------------------ *)
Example base_ok_example : base_ok [bs "https:"; []; bs "fhir.example.org:8080"; bs "base"; bs "r4"].
Proof. right. split; [reflexivity|discriminate]. Qed.
Example rest_example : forall orc,
  parse_uri orc (bs "https://fhir.example.org:8080/base/r4/MedicinalProductPackaged/a-b.c/_history/2")
  = Ok (LRest (bs "https://fhir.example.org:8080/base/r4") (bs "MedicinalProductPackaged") (bs "a-b.c") (bs "2")).
Proof. intro orc. vm_compute. reflexivity. Qed.
Example redundant_example : forall orc,
  parse_uri orc (bs "http://a//Patient/1") = Ok (LRest (bs "http://a") (bs "Patient") (bs "1") []) /\ redundant (bs "http://a//Patient/1") = true.
Proof. intro orc. split; vm_compute; reflexivity. Qed.
(* known finding 1: the statement without the non-degeneracy premise is false of the code *)
Lemma parse_format_parse_unguarded_refuted :
  exists orc u l, parse_uri orc u = Ok l /\ parse_uri orc (format l) <> Ok l.
Proof.
  exists (fun _ => UOk true true), (bs "http:///Patient/1"), (LRest (bs "http:") (bs "Patient") (bs "1") []).
  split; [vm_compute; reflexivity|vm_compute; discriminate].
Qed.
(* known finding 2: Parameters is a registry type and has a strong field, but no REST reference *)
Lemma parameters_weak_refuted : forall orc, orc (bs "Parameters/1") = UErr ->
  is_type (bs "Parameters") = true /\ parse_uri orc (fmt_identity (bs "Parameters") (bs "1") []) = Err.
Proof.
  intros orc H. split; [vm_compute; reflexivity|].
  change (fmt_identity (bs "Parameters") (bs "1") []) with (bs "Parameters/1").
  unfold parse_uri. change (bs "Parameters/1") with (80%N :: bs "arameters/1") at 1.
  cbv beta iota. change ((80 =? hash)%N) with false. cbv iota.
  change (bmem hash (80%N :: bs "arameters/1")) with false. change (bmem bar (80%N :: bs "arameters/1")) with false. cbv iota.
  change (rest_match (80%N :: bs "arameters/1")) with (@None (list bytes * bytes * bytes * bytes)). cbv iota.
  change (80%N :: bs "arameters/1") with (bs "Parameters/1"). rewrite H. reflexivity.
Qed.
Example canon_example : wf_canon (bs "http://hl7.org/fhir/ValueSet/x", bs "4.0.1-ballot", bs "a_b") = true.
Proof. reflexivity. Qed.
