(* C19/Bridge.v -- the model satisfies the property predicate: for every case outside the known-finding classes,
   what the model computes passes `holds`. *)
From FPV Require Import Base.Prelude C19.Model C19.Proofs.

Lemma opt_beqb_refl a : opt_beqb a a = true.
Proof. apply opt_beqb_eq. reflexivity. Qed.
Lemma lit_eqb_refl l : lit_eqb l l = true.
Proof. destruct l; cbn; rewrite ?beqb_refl; reflexivity. Qed.
Lemma olit_eqb_refl o : olit_eqb o o = true.
Proof. destruct o; cbn; [rewrite opt_beqb_refl, lit_eqb_refl, beqb_refl; reflexivity|apply N.eqb_refl|reflexivity]. Qed.

Lemma new_identity_no_panic ty id ver : new_identity ty id ver <> Panic.
Proof. unfold new_identity. destruct (is_type ty); discriminate. Qed.
Lemma oident_of_res_no_panic r : r <> Panic -> oident_panics (oident_of_res r) = false.
Proof. destruct r; cbn; [reflexivity|reflexivity|contradiction]. Qed.
Lemma id_from_relative_total u : id_from_relative u <> Panic.
Proof.
  unfold id_from_relative. destruct (split slash u) as [|a [|b [|c [|d [|e r]]]]]; try discriminate; try apply new_identity_no_panic.
  destruct (beqb c history); [apply new_identity_no_panic|discriminate].
Qed.
Lemma id_from_url_total u : id_from_url u <> Panic.
Proof.
  unfold id_from_url. destruct (rev (split slash u)) as [|a [|b r]]; try discriminate.
  destruct (is_id a && negb (beqb _ [])); [apply new_identity_no_panic|discriminate].
Qed.
Lemma id_from_history_url_total u : id_from_history_url u <> Panic.
Proof.
  unfold id_from_history_url. destruct (rev (split slash u)) as [|a [|b [|c [|d [|e r]]]]]; try discriminate.
  match goal with |- context [if ?x then _ else _] => destruct x end; [apply new_identity_no_panic|discriminate].
Qed.
Lemma id_from_lit_total abs r : r <> Panic -> id_from_lit abs r <> Panic.
Proof.
  intro H. destruct r as [l| |]; [|discriminate|contradiction]. destruct l; cbn; try discriminate.
  destruct (abs && beqb base []); discriminate.
Qed.

(* a reference string: the model's outcome passes the predicate unless the base is degenerate (known finding 1) *)
Theorem model_holds_uri u tbl : kf (CUri u tbl) = 0%N -> holds (CUri u tbl) (model (CUri u tbl)) = true.
Proof.
  intro Hk. cbn [model holds]. set (orc := orc_of tbl).
  pose proof (parse_uri_total orc u) as Hp.
  rewrite !oident_of_res_no_panic by (try apply id_from_lit_total; try apply id_from_relative_total; try apply id_from_url_total; try apply id_from_history_url_total; exact Hp).
  destruct (parse_uri orc u) as [l| |] eqn:E; [|reflexivity|contradiction].
  cbn [olit_of_res olit_panics orb negb andb].
  (* the base is not degenerate *)
  assert (Hnd : nondegenerate l).
  { destruct l as [f|b ty id ver|x]; cbn [nondegenerate]; try exact I.
    cbn [kf] in Hk. unfold parse_uri in E. destruct u as [|c r]; [discriminate|].
    destruct (c =? hash)%N; [destruct r; [discriminate|destruct (is_id _); discriminate]|].
    destruct (bmem hash (c :: r)); [discriminate|]. destruct (bmem bar (c :: r)); [discriminate|].
    destruct (rest_match (c :: r)) as [[[[P ty'] id'] ver']|]; [|destruct (orc (c :: r)) as [|[|] [|]]; discriminate].
    inversion E; subst. destruct (degenerate_base (base_of P)); [discriminate|reflexivity]. }
  rewrite (parse_format_parse orc u l E Hnd). cbn [olit_of_res]. rewrite olit_eqb_refl. cbn [andb].
  destruct (redundant u) eqn:Er; [reflexivity|]. cbn [orb].
  rewrite (parse_format_identity orc u l E Er). apply beqb_refl.
Qed.

(* canonical.New then parse: well-formed parts come back *)
Lemma canon_eqb_refl p : canon_eqb p p = true.
Proof. destruct p as [[u v] f]. cbn. rewrite !beqb_refl. reflexivity. Qed.
Theorem model_holds_canon_new url ver frag : holds (CCanonNew url ver frag) (model (CCanonNew url ver frag)) = true.
Proof.
  cbn [model holds]. destruct (wf_canon (url, ver, frag)) eqn:W; [|reflexivity].
  rewrite (canon_split_join url ver frag W). rewrite canon_eqb_refl, beqb_refl. reflexivity.
Qed.
Theorem model_holds_canon c : holds (CCanon c) (model (CCanon c)) = true.
Proof.
  cbn [model holds]. pose proof (canon_parse_total c) as H. destruct (canon_parse c) as [p| |]; [|reflexivity|contradiction].
  cbn [negb andb]. destruct (beqb (canon_format p) c); reflexivity.
Qed.

(* strong vs weak: outside Parameters (known finding 2) *)
Theorem model_holds_strong ty id ver tbl : kf (CStrong ty id ver tbl) = 0%N -> holds (CStrong ty id ver tbl) (model (CStrong ty id ver tbl)) = true.
Proof.
  intro Hk. cbn [kf] in Hk. destruct (beqb ty parameters) eqn:Ep; [discriminate|].
  cbn [model holds]. set (orc := orc_of tbl).
  destruct (valid_parts ty id ver) eqn:V.
  - unfold valid_parts in V. apply andb_prop in V as [V Hv]. apply andb_prop in V as [Ht Hi].
    assert (Hrt : is_rest_type ty = true).
    { unfold is_type, registry_types in Ht. cbn [existsb] in Ht. fold parameters in Ht. rewrite Ep in Ht. exact Ht. }
    assert (Hver : ver_ok ver) by (destruct ver; [left; reflexivity|right; exact Hv]).
    destruct (strong_weak_same orc ty id ver Hrt Hi Hver) as [H1 [H2 [H3 [H4 [H5 [H6 H7]]]]]].
    rewrite H1, H2, H3, H4, H5, H6. cbn [olit_of_lres olit_panics oident_of_res oident_panics orb negb andb].
    rewrite opt_beqb_refl, lit_eqb_refl, beqb_refl. cbn [andb].
    rewrite H7. destruct (fp_reference (weak_ref ty id ver)) as [w|] eqn:Ew; [|cbn in Ew; discriminate].
    rewrite beqb_refl, ident_eqb_refl. reflexivity.
  - (* not valid parts: only the absence of panics is required *)
    assert (Hs : olit_panics (olit_of_lres (literal_of orc (strong_ref ty id ver))) = false).
    { unfold literal_of, strong_ref. cbn [rf_type rf_ref]. destruct (is_type ty); [|reflexivity].
      destruct (is_type (strong_type (strong_field ty))); [|reflexivity]. destruct (beqb ty (strong_type (strong_field ty))); reflexivity. }
    assert (Hw : olit_panics (olit_of_lres (literal_of orc (weak_ref ty id ver))) = false).
    { unfold literal_of, weak_ref. cbn [rf_type rf_ref]. pose proof (parse_uri_total orc (fmt_identity ty id ver)) as Hp.
      destruct (parse_uri orc (fmt_identity ty id ver)) as [l| |]; [|reflexivity|contradiction]. destruct l; reflexivity. }
    rewrite Hs, Hw.
    rewrite !oident_of_res_no_panic; [reflexivity| |].
    + unfold identity_of, weak_ref. cbn [rf_ref]. apply id_from_lit_total. apply parse_uri_total.
    + unfold identity_of, strong_ref. cbn [rf_ref]. apply new_identity_no_panic.
Qed.

(* Is over any three references is an equivalence on them *)
Theorem model_holds_is a b c tbl : holds (CIs a b c tbl) (model (CIs a b c tbl)) = true.
Proof.
  cbn [model holds map fst snd equivalence9]. set (orc := orc_of tbl).
  rewrite !ref_is_refl. cbn [andb].
  rewrite (ref_is_sym orc b a), (ref_is_sym orc c a), (ref_is_sym orc c b). rewrite !eqb_reflx. cbn [andb].
  destruct (ref_is orc a b) eqn:Eab, (ref_is orc b c) eqn:Ebc, (ref_is orc a c) eqn:Eac; try reflexivity; exfalso.
  - pose proof (ref_is_trans orc a b c Eab Ebc). congruence.
  - rewrite (ref_is_sym orc a b) in Eab. pose proof (ref_is_trans orc b a c Eab Eac). congruence.
  - rewrite (ref_is_sym orc b c) in Ebc. pose proof (ref_is_trans orc a c b Eac Ebc). congruence.
Qed.
