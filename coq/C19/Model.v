(* C19/Model.v -- references, identities, canonicals as functions on byte strings.

   Go strings are byte strings and every regular expression involved is written over ASCII classes (a
   negated class matches any byte sequence Go decodes, invalid UTF-8 included), so the model works on lists
   of bytes.  Each regular expression is modelled by a hand-written recogniser; Oblig/C19_gen.v ties the
   text of the expressions compiled by the code to the text these recognisers were written for.

   net/url.Parse (standard library, not part of the repository) is an oracle: the harness reports, for each
   string it is asked about, whether it parsed, whether Scheme is non-empty and whether Opaque or the
   slash-trimmed Path is non-empty. *)
From FPV Require Import Base.Prelude.
From Coq Require Import String Ascii.

Definition bytes := list N.
Definition bs (s : string) : bytes := map N_of_ascii (list_ascii_of_string s).
Definition beqb : bytes -> bytes -> bool := ustr_eqb.
Definition bmem (c : N) (s : bytes) : bool := existsb (N.eqb c) s.

Definition slash : N := 47%N.
Definition hash : N := 35%N.
Definition bar : N := 124%N.

(* ---- strings.Split / Join / TrimRight on one separator -------------------------------------------- *)
Fixpoint split (sep : N) (s : bytes) : list bytes :=
  match s with
  | [] => [[]]
  | c :: r => if (c =? sep)%N then [] :: split sep r
              else match split sep r with
                   | h :: t => (c :: h) :: t
                   | [] => [[c]]
                   end
  end.
Fixpoint join (sep : N) (l : list bytes) : bytes :=
  match l with
  | [] => []
  | x :: r => match r with [] => x | _ :: _ => x ++ sep :: join sep r end
  end.
Fixpoint drop_while (p : N -> bool) (s : bytes) : bytes :=
  match s with
  | c :: r => if p c then drop_while p r else s
  | [] => []
  end.
Definition trimr (c : N) (s : bytes) : bytes := rev (drop_while (N.eqb c) (rev s)).
Definition triml (c : N) (s : bytes) : bytes := drop_while (N.eqb c) s.
Fixpoint span (p : N -> bool) (s : bytes) : bytes * bytes :=
  match s with
  | c :: r => if p c then let '(a, b) := span p r in (c :: a, b) else ([], s)
  | [] => ([], [])
  end.
Fixpoint span_max (n : nat) (p : N -> bool) (s : bytes) : bytes * bytes :=
  match n, s with
  | S n', c :: r => if p c then let '(a, b) := span_max n' p r in (c :: a, b) else ([], s)
  | _, _ => ([], s)
  end.

(* ---- character classes ---------------------------------------------------------------------------- *)
Definition is_upper (c : N) : bool := (65 <=? c)%N && (c <=? 90)%N.
Definition is_lower (c : N) : bool := (97 <=? c)%N && (c <=? 122)%N.
Definition is_digit (c : N) : bool := (48 <=? c)%N && (c <=? 57)%N.
Definition is_alpha (c : N) : bool := is_upper c || is_lower c.
Definition is_alnum (c : N) : bool := is_alpha c || is_digit c.
Definition id_char (c : N) : bool := is_alnum c || (c =? 45)%N || (c =? 46)%N.                 (* [A-Za-z0-9\-\.] *)
Definition base_char_strict (c : N) : bool :=                                                      (* [A-Za-z0-9\-\\\.\:\%\$] *)
  is_alnum c || (c =? 45)%N || (c =? 92)%N || (c =? 46)%N || (c =? 58)%N || (c =? 37)%N || (c =? 36)%N.
Definition base_char (c : N) : bool := base_char_strict c || (c =? 95)%N.                      (* ... plus \_ *)
Definition canon_char (c : N) : bool := ((65 <=? c)%N && (c <=? 122)%N) || is_digit c || (c =? 45)%N || (c =? 95)%N || (c =? 46)%N.   (* [A-z0-9-_\.] *)

(* ^[A-Za-z0-9\-\.]{1,64}$ *)
Definition is_id (s : bytes) : bool := (1 <=? List.length s)%nat && (List.length s <=? 64)%nat && forallb id_char s.

(* ---- resource type names ----------------------------------------------------------------------------- *)
Definition rest_type_names : list string :=
  ["Account"; "ActivityDefinition"; "AdverseEvent"; "AllergyIntolerance"; "Appointment"; "AppointmentResponse"; 
   "AuditEvent"; "Basic"; "Binary"; "BiologicallyDerivedProduct"; "BodyStructure"; "Bundle"; "CapabilityStatement"; 
   "CarePlan"; "CareTeam"; "CatalogEntry"; "ChargeItem"; "ChargeItemDefinition"; "Claim"; "ClaimResponse"; 
   "ClinicalImpression"; "CodeSystem"; "Communication"; "CommunicationRequest"; "CompartmentDefinition"; 
   "Composition"; "ConceptMap"; "Condition"; "Consent"; "Contract"; "Coverage"; "CoverageEligibilityRequest"; 
   "CoverageEligibilityResponse"; "DetectedIssue"; "Device"; "DeviceDefinition"; "DeviceMetric"; "DeviceRequest"; 
   "DeviceUseStatement"; "DiagnosticReport"; "DocumentManifest"; "DocumentReference"; "EffectEvidenceSynthesis"; 
   "Encounter"; "Endpoint"; "EnrollmentRequest"; "EnrollmentResponse"; "EpisodeOfCare"; "EventDefinition"; 
   "Evidence"; "EvidenceVariable"; "ExampleScenario"; "ExplanationOfBenefit"; "FamilyMemberHistory"; "Flag"; "Goal"; 
   "GraphDefinition"; "Group"; "GuidanceResponse"; "HealthcareService"; "ImagingStudy"; "Immunization"; 
   "ImmunizationEvaluation"; "ImmunizationRecommendation"; "ImplementationGuide"; "InsurancePlan"; "Invoice"; 
   "Library"; "Linkage"; "List"; "Location"; "Measure"; "MeasureReport"; "Media"; "Medication"; 
   "MedicationAdministration"; "MedicationDispense"; "MedicationKnowledge"; "MedicationRequest"; 
   "MedicationStatement"; "MedicinalProduct"; "MedicinalProductAuthorization"; "MedicinalProductContraindication"; 
   "MedicinalProductIndication"; "MedicinalProductIngredient"; "MedicinalProductInteraction"; 
   "MedicinalProductManufactured"; "MedicinalProductPackaged"; "MedicinalProductPharmaceutical"; 
   "MedicinalProductUndesirableEffect"; "MessageDefinition"; "MessageHeader"; "MolecularSequence"; "NamingSystem"; 
   "NutritionOrder"; "Observation"; "ObservationDefinition"; "OperationDefinition"; "OperationOutcome"; 
   "Organization"; "OrganizationAffiliation"; "Patient"; "PaymentNotice"; "PaymentReconciliation"; "Person"; 
   "PlanDefinition"; "Practitioner"; "PractitionerRole"; "Procedure"; "Provenance"; "Questionnaire"; 
   "QuestionnaireResponse"; "RelatedPerson"; "RequestGroup"; "ResearchDefinition"; "ResearchElementDefinition"; 
   "ResearchStudy"; "ResearchSubject"; "RiskAssessment"; "RiskEvidenceSynthesis"; "Schedule"; "SearchParameter"; 
   "ServiceRequest"; "Slot"; "Specimen"; "SpecimenDefinition"; "StructureDefinition"; "StructureMap"; "Subscription"; 
   "Substance"; "SubstanceNucleicAcid"; "SubstancePolymer"; "SubstanceProtein"; "SubstanceReferenceInformation"; 
   "SubstanceSourceMaterial"; "SubstanceSpecification"; "SupplyDelivery"; "SupplyRequest"; "Task"; 
   "TerminologyCapabilities"; "TestReport"; "TestScript"; "ValueSet"; "VerificationResult"; "VisionPrescription"]%string.
(* the registry (protofields.Resources) additionally knows Parameters *)
Definition rest_types : list bytes := map bs rest_type_names.
Definition registry_types : list bytes := bs "Parameters" :: rest_types.
Definition is_rest_type (s : bytes) : bool := existsb (beqb s) rest_types.
Definition is_type (s : bytes) : bool := existsb (beqb s) registry_types.

(* ---- the REST reference regular expression ------------------------------------------------------------
   ^((http|https)://([cls]*/)+)?(TYPE)/ID(/_history/ID)?$   -- anchored at both ends; TYPE and ID contain no
   slash, so the match is decided on the slash-separated segments read from the right. *)
Definition history : bytes := bs "_history".
Definition scheme_seg (s : bytes) : bool := beqb s (bs "http:") || beqb s (bs "https:").
Definition valid_base_segs (cls : N -> bool) (P : list bytes) : bool :=
  match P with
  | sch :: e :: segs =>
      match e, segs with
      | [], _ :: _ => scheme_seg sch && forallb (forallb cls) segs
      | _, _ => false
      end
  | _ => false
  end.
Definition prefix_ok (P : list bytes) : bool := match P with [] => true | _ :: _ => valid_base_segs base_char P end.

Definition try_versioned (rs : list bytes) : option (list bytes * bytes * bytes * bytes) :=
  match rs with
  | ver :: h :: id :: ty :: rp =>
      if beqb h history && is_id ver && is_id id && is_rest_type ty && prefix_ok (rev rp) then Some (rev rp, ty, id, ver) else None
  | _ => None
  end.
Definition try_plain (rs : list bytes) : option (list bytes * bytes * bytes * bytes) :=
  match rs with
  | id :: ty :: rp => if is_id id && is_rest_type ty && prefix_ok (rev rp) then Some (rev rp, ty, id, []) else None
  | _ => None
  end.
Definition rest_match (u : bytes) : option (list bytes * bytes * bytes * bytes) :=
  let rs := rev (split slash u) in
  match try_versioned rs with Some x => Some x | None => try_plain rs end.

(* ---- LiteralInfo ------------------------------------------------------------------------------------- *)
Inductive lit := LFrag (f : bytes) | LRest (base ty id ver : bytes) | LNonRest (u : bytes).
Definition lit_eqb (a b : lit) : bool :=
  match a, b with
  | LFrag f, LFrag g => beqb f g
  | LRest b1 t1 i1 v1, LRest b2 t2 i2 v2 => beqb b1 b2 && beqb t1 t2 && beqb i1 i2 && beqb v1 v2
  | LNonRest u, LNonRest v => beqb u v
  | _, _ => false
  end.

Inductive urlres := UErr | UOk (scheme_nonempty opaque_or_path : bool).
Definition oracle := bytes -> urlres.

(* the service base URL: everything before the type, trailing slashes trimmed *)
Definition base_of (P : list bytes) : bytes := trimr slash (join slash P).

Definition parse_uri (orc : oracle) (u : bytes) : res lit :=
  match u with
  | [] => Err                                                  (* after the fix; u[0] used to panic *)
  | c :: r =>
      if (c =? hash)%N then (match r with [] => Ok (LFrag []) | _ :: _ => if is_id r then Ok (LFrag r) else Err end)
      else if bmem hash u then Err
      else if bmem bar u then Err
      else match rest_match u with
           | Some (P, ty, id, ver) => Ok (LRest (base_of P) ty id ver)
           | None => match orc u with
                     | UOk true true => Ok (LNonRest u)
                     | _ => Err
                     end
           end
  end.

Definition fmt_identity (ty id ver : bytes) : bytes :=
  ty ++ slash :: id ++ (match ver with [] => [] | _ :: _ => slash :: history ++ slash :: ver end).
Definition format (l : lit) : bytes :=
  match l with
  | LFrag f => hash :: f
  | LRest b ty id ver => (match b with [] => [] | _ :: _ => b ++ [slash] end) ++ fmt_identity ty id ver
  | LNonRest u => u
  end.

(* WithServiceBaseURL accepts "" or anything that matches ^(http|https)://([strict]*/)+$ once a slash is added *)
Definition valid_service_base (b : bytes) : bool :=
  match b with
  | [] => true
  | _ :: _ => match rev (split slash (b ++ [slash])) with
              | [] :: rp => valid_base_segs base_char_strict (rev rp)
              | _ => false
              end
  end.

(* ---- identities from URL-ish strings ---------------------------------------------------------------- *)
Definition ident := (bytes * bytes * bytes)%type.      (* type, id, version ([] = none) *)
Definition ident_eqb (a b : ident) : bool :=
  let '(t1, i1, v1) := a in let '(t2, i2, v2) := b in beqb t1 t2 && beqb i1 i2 && beqb v1 v2.

(* resource.NewIdentity: only the type is validated *)
Definition new_identity (ty id ver : bytes) : res ident := if is_type ty then Ok (ty, id, ver) else Err.

(* resource.NewIdentityFromURL: ([A-Za-z]+)/([0-9A-Za-z.-]{1,64})$ , leftmost match *)
Definition id_from_url (u : bytes) : res ident :=
  match rev (split slash u) with
  | id :: seg :: _ =>
      let ty := rev (fst (span is_alpha (rev seg))) in
      if is_id id && negb (beqb ty []) then new_identity ty id [] else Err
  | _ => Err
  end.
(* resource.NewIdentityFromHistoryURL: ^.*/([A-Za-z]+)/(ID)/_history/(ID)$ ; the dot does not match a newline *)
Definition id_from_history_url (u : bytes) : res ident :=
  match rev (split slash u) with
  | ver :: h :: id :: ty :: p :: rp =>
      if beqb h history && is_id ver && is_id id && negb (beqb ty []) && forallb is_alpha ty
         && negb (bmem 10%N (join slash (rev (p :: rp))))
      then new_identity ty id ver else Err
  | _ => Err
  end.
(* reference.IdentityFromRelativeURI: split on slashes, nothing but the type is validated *)
Definition id_from_relative (u : bytes) : res ident :=
  match split slash u with
  | [ty; id] => new_identity ty id []
  | [ty; id; h; ver] => if beqb h history then new_identity ty id ver else Err
  | _ => Err
  end.
Definition id_from_lit (absolute : bool) (r : res lit) : res ident :=
  match r with
  | Ok (LRest b ty id ver) => if absolute && beqb b [] then Err else Ok (ty, id, ver)
  | Ok _ => Err
  | Err => Err
  | Panic => Panic
  end.

(* ---- canonicals: ^(url [^|#]+)(\|(version [A-z0-9-_\.]+))?(#(fragment [A-z0-9-_\.]{1,64}))?  (no end anchor) *)
Definition canon := (bytes * bytes * bytes)%type.
Definition canon_parse (c : bytes) : res canon :=
  let '(url, r1) := span (fun x => negb (x =? bar)%N && negb (x =? hash)%N) c in
  match url with
  | [] => Err                                         (* after the fix; match[i] on a nil match used to panic *)
  | _ :: _ =>
      let '(ver, r2) := match r1 with
                        | x :: t => if (x =? bar)%N then (let '(v, r) := span canon_char t in match v with [] => ([], r1) | _ :: _ => (v, r) end) else ([], r1)
                        | [] => ([], r1)
                        end in
      let frag := match r2 with
                  | x :: t => if (x =? hash)%N then fst (span_max 64 canon_char t) else []
                  | [] => []
                  end in
      Ok (url, ver, frag)
  end.
Definition canon_format (p : canon) : bytes :=
  let '(url, ver, frag) := p in
  url ++ (match ver with [] => [] | _ :: _ => bar :: ver end) ++ (match frag with [] => [] | _ :: _ => hash :: frag end).
Definition wf_canon (p : canon) : bool :=
  let '(url, ver, frag) := p in
  negb (beqb url []) && forallb (fun x => negb (x =? bar)%N && negb (x =? hash)%N) url
  && forallb canon_char ver && forallb canon_char frag && (List.length frag <=? 64)%nat.
Definition canon_eqb (a b : canon) : bool :=
  let '(u1, v1, f1) := a in let '(u2, v2, f2) := b in beqb u1 u2 && beqb v1 v2 && beqb f1 f2.

(* ---- strong references: oneof field name <-> type name ---------------------------------------------- *)
Definition to_upper (c : N) : N := if is_lower c then (c - 32)%N else c.
Definition to_lower (c : N) : N := if is_upper c then (c + 32)%N else c.
Definition cap (s : bytes) : bytes := match s with c :: r => to_upper c :: r | [] => [] end.
Definition camel (s : bytes) : bytes := List.concat (map cap (split 95%N s)).
Fixpoint snake_tail (s : bytes) : bytes :=
  match s with
  | c :: r => if is_upper c then 95%N :: to_lower c :: snake_tail r else c :: snake_tail r
  | [] => []
  end.
Definition snake (s : bytes) : bytes := match s with c :: r => to_lower c :: snake_tail r | [] => [] end.
Definition id_suffix : bytes := bs "_id".
Definition cut_id_suffix (f : bytes) : bytes :=
  let n := (List.length f - 3)%nat in if beqb (skipn n f) id_suffix then firstn n f else f.
Definition strong_type (field : bytes) : bytes := camel (cut_id_suffix field).
Definition strong_field (ty : bytes) : bytes := snake ty ++ id_suffix.

(* ---- the Reference element ------------------------------------------------------------------------------ *)
Inductive refsum := RNone | RUri (u : bytes) | RFrag (f : bytes) | RStrong (field id ver : bytes).
Record reference := { rf_type : option bytes; rf_ref : refsum; rf_ident : N; rf_other : N }.

Definition opt_beqb (a b : option bytes) : bool :=
  match a, b with Some x, Some y => beqb x y | None, None => true | _, _ => false end.
Definition refsum_eqb (a b : refsum) : bool :=
  match a, b with
  | RNone, RNone => true
  | RUri u, RUri v => beqb u v
  | RFrag f, RFrag g => beqb f g
  | RStrong f1 i1 v1, RStrong f2 i2 v2 => beqb f1 f2 && beqb i1 i2 && beqb v1 v2
  | _, _ => false
  end.
Definition ref_eqb (a b : reference) : bool :=
  opt_beqb (rf_type a) (rf_type b) && refsum_eqb (rf_ref a) (rf_ref b) && (rf_ident a =? rf_ident b)%N && (rf_other a =? rf_other b)%N.

Inductive lres (A : Type) := LOk (v : A) | LErr (code : N) | LPanic.
Arguments LOk {A} v. Arguments LErr {A} code. Arguments LPanic {A}.

(* reference.LiteralInfoOf; error codes: 1 type invalid, 2 explicit fragment invalid, 3 weak invalid,
   4 type inconsistent, 5 not a literal, 6 strong invalid *)
Definition literal_of (orc : oracle) (r : reference) : lres (option bytes * lit) :=
  match (match rf_type r with Some t => if is_type t then Some (Some t) else None | None => Some None end) with
  | None => LErr 1
  | Some explicit =>
      match rf_ref r with
      | RFrag f => (match f with [] => LOk (explicit, LFrag f) | _ :: _ => if is_id f then LOk (explicit, LFrag f) else LErr 2 end)
      | RUri u =>
          match parse_uri orc u with
          | Panic => LPanic
          | Err => LErr 3
          | Ok (LRest b ty id ver) =>
              (match explicit with
               | Some t => if beqb t ty then LOk (Some ty, LRest b ty id ver) else LErr 4
               | None => LOk (Some ty, LRest b ty id ver)
               end)
          | Ok l => LOk (explicit, l)
          end
      | RStrong field id ver =>
          let ty := strong_type field in
          if is_type ty then
            (match explicit with
             | Some t => if beqb t ty then LOk (Some ty, LRest [] ty id ver) else LErr 4
             | None => LOk (Some ty, LRest [] ty id ver)
             end)
          else LErr 6
      | RNone => LErr 5
      end
  end.

(* reference.IdentityOf *)
Definition identity_of (orc : oracle) (r : reference) : res ident :=
  match rf_ref r with
  | RFrag f => match rf_type r with Some t => new_identity t f [] | None => Err end
  | RUri u => id_from_lit false (parse_uri orc u)
  | RStrong field id ver => new_identity (strong_type field) id ver
  | RNone => Err
  end.

(* reference.Is *)
Definition has_ref (r : reference) : bool := match rf_ref r with RNone => false | _ => true end.
Definition ref_is (orc : oracle) (a b : reference) : bool :=
  ref_eqb a b ||
  ((rf_ident a =? rf_ident b)%N &&
   (if has_ref a || has_ref b then
      match identity_of orc a, identity_of orc b with
      | Ok i, Ok j => ident_eqb i j
      | _, _ => false
      end
    else true)).

(* FHIRPath: the `reference` field of a Reference element *)
Definition fp_reference (r : reference) : option bytes :=
  match rf_ref r with
  | RNone => None
  | RUri u => Some u
  | RFrag f => Some (hash :: f)
  | RStrong field id ver => Some (fmt_identity (strong_type field) id ver)
  end.

(* ---- correspondence cases -------------------------------------------------------------------------------- *)
Definition orc_of (tbl : list (bytes * urlres)) : oracle :=
  fun u => match find (fun p => beqb (fst p) u) tbl with Some (_, r) => r | None => UErr end.

Inductive olit := OLit (ty : option bytes) (l : lit) (uristring : bytes) | OErr (code : N) | OPanic.
Inductive oident := OIdent (i : ident) | OIErr | OIPanic.
Definition olit_eqb (a b : olit) : bool :=
  match a, b with
  | OLit t1 l1 s1, OLit t2 l2 s2 => opt_beqb t1 t2 && lit_eqb l1 l2 && beqb s1 s2
  | OErr c, OErr d => (c =? d)%N
  | OPanic, OPanic => true
  | _, _ => false
  end.
Definition oident_eqb (a b : oident) : bool :=
  match a, b with
  | OIdent i, OIdent j => ident_eqb i j
  | OIErr, OIErr => true
  | OIPanic, OIPanic => true
  | _, _ => false
  end.
Definition lit_type (l : lit) : option bytes := match l with LRest _ ty _ _ => Some ty | _ => None end.
Definition olit_of_res (r : res lit) : olit :=
  match r with Ok l => OLit (lit_type l) l (format l) | Err => OErr 0 | Panic => OPanic end.
Definition olit_of_lres (r : lres (option bytes * lit)) : olit :=
  match r with LOk (t, l) => OLit t l (format l) | LErr c => OErr c | LPanic => OPanic end.
Definition oident_of_res (r : res ident) : oident :=
  match r with Ok i => OIdent i | Err => OIErr | Panic => OIPanic end.
Definition olit_panics (o : olit) : bool := match o with OPanic => true | _ => false end.
Definition oident_panics (o : oident) : bool := match o with OIPanic => true | _ => false end.

Inductive case :=
| CUri (u : bytes) (tbl : list (bytes * urlres))
| CIdent (ty id ver base : bytes) (tbl : list (bytes * urlres))
| CStrong (ty id ver : bytes) (tbl : list (bytes * urlres))
| CRef (r : reference) (tbl : list (bytes * urlres))
| CIs (a b c : reference) (tbl : list (bytes * urlres))
| CCanon (c : bytes)
| CCanonNew (url ver frag : bytes)
| CField (ty field : bytes).

Inductive obs :=
| OUri (parse : olit) (fromURL fromAbs fromRel newFromURL newFromHist : oident)
| OIdentO (strs : option (bytes * bytes * option bytes * bytes)) (parsed withbase reparsed : olit)
| OStrong (built : option (bytes * bytes * bytes)) (lstrong lweak : olit) (is_sw is_ws : bool) (fp_s fp_w : option bytes) (id_s id_w : oident)
| ORef (l : olit) (i : oident) (fp : option bytes)
| OIs (m : list bool)
| OCanon (r : option (canon * bytes)) (panicked : bool)
| OCanonNew (s : bytes) (r : option (canon * bytes))
| OField (camel_back : bytes).

(* redundant slashes: the base in front of the type ends in more than one slash *)
Definition redundant (u : bytes) : bool :=
  match rest_match u with Some (P, _, _, _) => negb (beqb (base_of P) (join slash P)) | None => false end.
(* known finding 1: the base is nothing but a scheme and slashes (http:///Patient/1); trimming eats into the
   scheme separator and the formatted string is no longer a REST reference *)
Definition degenerate_base (b : bytes) : bool := scheme_seg b.
Definition strong_ref (ty id ver : bytes) : reference :=
  {| rf_type := Some ty; rf_ref := RStrong (strong_field ty) id ver; rf_ident := 0; rf_other := 0 |}.
Definition weak_ref (ty id ver : bytes) : reference :=
  {| rf_type := None; rf_ref := RUri (fmt_identity ty id ver); rf_ident := 0; rf_other := 0 |}.
Definition valid_parts (ty id ver : bytes) : bool := is_type ty && is_id id && (match ver with [] => true | _ :: _ => is_id ver end).

Definition with_base (orc : oracle) (ty id ver base : bytes) : olit :=
  match parse_uri orc (fmt_identity ty id ver) with
  | Ok (LRest _ t i v) => if valid_service_base base then OLit (Some t) (LRest base t i v) (format (LRest base t i v)) else OErr 7
  | Ok l => if valid_service_base base then OLit (lit_type l) l (format l) else OErr 7
  | Err => OErr 0
  | Panic => OPanic
  end.

Definition model (c : case) : obs :=
  match c with
  | CUri u tbl =>
      let orc := orc_of tbl in
      let p := parse_uri orc u in
      OUri (olit_of_res p) (oident_of_res (id_from_lit false p)) (oident_of_res (id_from_lit true p))
           (oident_of_res (id_from_relative u)) (oident_of_res (id_from_url u)) (oident_of_res (id_from_history_url u))
  | CIdent ty id ver base tbl =>
      let orc := orc_of tbl in
      match new_identity ty id ver with
      | Ok _ =>
          let s := fmt_identity ty id ver in
          let wb := with_base orc ty id ver base in
          OIdentO (Some (s, ty ++ slash :: id, (match ver with [] => None | _ :: _ => Some s end), s))
                  (olit_of_res (parse_uri orc s)) wb
                  (match wb with OLit _ _ s2 => olit_of_res (parse_uri orc s2) | o => o end)
      | _ => OIdentO None (OErr 0) (OErr 0) (OErr 0)
      end
  | CStrong ty id ver tbl =>
      let orc := orc_of tbl in
      let s := strong_ref ty id ver in let w := weak_ref ty id ver in
      OStrong (Some (strong_field ty, id, ver)) (olit_of_lres (literal_of orc s)) (olit_of_lres (literal_of orc w))
              (ref_is orc s w) (ref_is orc w s) (fp_reference s) (fp_reference w)
              (oident_of_res (identity_of orc s)) (oident_of_res (identity_of orc w))
  | CRef r tbl =>
      let orc := orc_of tbl in
      ORef (olit_of_lres (literal_of orc r)) (oident_of_res (identity_of orc r)) (fp_reference r)
  | CIs a b c tbl =>
      let orc := orc_of tbl in
      OIs (map (fun p => ref_is orc (fst p) (snd p)) [(a,a);(a,b);(a,c);(b,a);(b,b);(b,c);(c,a);(c,b);(c,c)])
  | CCanon c =>
      match canon_parse c with
      | Ok p => OCanon (Some (p, canon_format p)) false
      | Err => OCanon None false
      | Panic => OCanon None true
      end
  | CCanonNew url ver frag =>
      let s := canon_format (url, ver, frag) in
      OCanonNew s (match canon_parse s with Ok p => Some (p, canon_format p) | _ => None end)
  | CField ty field => OField (strong_type field)
  end.

Definition oo_beqb (a b : option bytes) := opt_beqb a b.
Definition ocanon_eqb (a b : option (canon * bytes)) : bool :=
  match a, b with
  | Some (p, s), Some (q, t) => canon_eqb p q && beqb s t
  | None, None => true
  | _, _ => false
  end.
Definition obs_eqb (a b : obs) : bool :=
  match a, b with
  | OUri p1 a1 b1 c1 d1 e1, OUri p2 a2 b2 c2 d2 e2 =>
      olit_eqb p1 p2 && oident_eqb a1 a2 && oident_eqb b1 b2 && oident_eqb c1 c2 && oident_eqb d1 d2 && oident_eqb e1 e2
  | OIdentO s1 p1 w1 r1, OIdentO s2 p2 w2 r2 =>
      (match s1, s2 with
       | Some (a1, b1, c1, d1), Some (a2, b2, c2, d2) => beqb a1 a2 && beqb b1 b2 && opt_beqb c1 c2 && beqb d1 d2
       | None, None => true
       | _, _ => false
       end) && olit_eqb p1 p2 && olit_eqb w1 w2 && olit_eqb r1 r2
  | OStrong b1 ls1 lw1 x1 y1 fs1 fw1 is1 iw1, OStrong b2 ls2 lw2 x2 y2 fs2 fw2 is2 iw2 =>
      (match b1, b2 with
       | Some (f1, i1, v1), Some (f2, i2, v2) => beqb f1 f2 && beqb i1 i2 && beqb v1 v2
       | None, None => true
       | _, _ => false
       end) && olit_eqb ls1 ls2 && olit_eqb lw1 lw2 && Bool.eqb x1 x2 && Bool.eqb y1 y2 && opt_beqb fs1 fs2 && opt_beqb fw1 fw2
      && oident_eqb is1 is2 && oident_eqb iw1 iw2
  | ORef l1 i1 f1, ORef l2 i2 f2 => olit_eqb l1 l2 && oident_eqb i1 i2 && opt_beqb f1 f2
  | OIs m1, OIs m2 => list_eqb Bool.eqb m1 m2
  | OCanon r1 p1, OCanon r2 p2 => ocanon_eqb r1 r2 && Bool.eqb p1 p2
  | OCanonNew s1 r1, OCanonNew s2 r2 => beqb s1 s2 && ocanon_eqb r1 r2
  | OField a1, OField a2 => beqb a1 a2
  | _, _ => false
  end.
Definition agrees (c : case) (o : obs) : bool := obs_eqb (model c) o.

(* ---- the property on what was observed --------------------------------------------------------------- *)
Definition equivalence9 (m : list bool) : bool :=
  match m with
  | [aa; ab; ac; ba; bb; bc; ca; cb; cc] =>
      aa && bb && cc && Bool.eqb ab ba && Bool.eqb ac ca && Bool.eqb bc cb
      && implb (ab && bc) ac && implb (ab && ac) bc && implb (ac && bc) ab
  | _ => false
  end.
Definition trim_base (b : bytes) : bytes := trimr slash b.

Definition holds (c : case) (o : obs) : bool :=
  match c, o with
  | CUri u tbl, OUri p a b r n h =>
      negb (olit_panics p || oident_panics a || oident_panics b || oident_panics r || oident_panics n || oident_panics h)
      && (match p with
          | OLit t l s =>
              (* parse-format-parse: same information; identical text without redundant slashes *)
              olit_eqb (olit_of_res (parse_uri (orc_of tbl) s)) (OLit t l s) && (redundant u || beqb s u)
          | _ => true
          end)
  | CIdent ty id ver base tbl, OIdentO strs parsed wb re =>
      negb (olit_panics parsed || olit_panics wb || olit_panics re)
      && (if valid_parts ty id ver then
            (match strs, parsed with
             | Some (s, _, _, _), OLit t (LRest b ty' id' ver') _ => beqb b [] && beqb ty' ty && beqb id' id && beqb ver' ver
             | _, _ => false
             end)
            && (if valid_service_base base then
                  match re with
                  | OLit t (LRest b ty' id' ver') _ => beqb b (trim_base base) && beqb ty' ty && beqb id' id && beqb ver' ver
                  | _ => false
                  end
                else true)
          else true)
  | CStrong ty id ver tbl, OStrong built ls lw x y fs fw is iw =>
      negb (olit_panics ls || olit_panics lw || oident_panics is || oident_panics iw)
      && (if valid_parts ty id ver then
            (match ls, lw with
             | OLit t1 l1 s1, OLit t2 l2 s2 => opt_beqb t1 t2 && lit_eqb l1 l2 && beqb s1 s2
             | _, _ => false
             end) && x && y
            && (match fs, fw with Some a, Some b => beqb a b | _, _ => false end)
            && (match is, iw with OIdent i, OIdent j => ident_eqb i j && ident_eqb i (ty, id, ver) | _, _ => false end)
          else true)
  | CRef r tbl, ORef l i fp => negb (olit_panics l || oident_panics i)
  | CIs a b c' tbl, OIs m => equivalence9 m
  | CCanon c', OCanon r p =>
      negb p && (match r with Some (q, s) => if beqb (canon_format q) c' then beqb s c' else true | None => true end)
  | CCanonNew url ver frag, OCanonNew s r =>
      if wf_canon (url, ver, frag) then
        match r with Some (q, s') => canon_eqb q (url, ver, frag) && beqb s' s | None => false end
      else true
  | CField ty field, OField back => beqb back ty
  | _, _ => false
  end.

Definition parameters : bytes := bs "Parameters".
Definition kf (c : case) : N :=
  match c with
  | CUri u _ => (match rest_match u with Some (P, _, _, _) => if degenerate_base (base_of P) then 1 else 0 | None => 0 end)%N
  | CIdent ty _ _ base _ => (if beqb ty parameters then 2 else if degenerate_base (trim_base base) then 1 else 0)%N
  | CStrong ty _ _ _ => (if beqb ty parameters then 2 else 0)%N
  | _ => 0%N
  end.

Definition judge (x : N * case * obs) : verdict :=
  let '(id, c, o) := x in
  {| v_id := id; v_agree := agrees c o; v_holds := holds c o; v_kf := kf c |}.
