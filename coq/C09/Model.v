(* C09/Model.v -- date/time arithmetic.

   Mirrors (after the fix: commits) system/date.go Date.Add/Sub, addMonth, addYear; system/date_time.go
   DateTime.Add/Sub, roundToDateTimePrecision; system/time.go Time.Add/Sub, roundToTimePrecision, wrapToDay;
   system/quantity.go timeDuration, toYears, toMonths, Quantity.Add/Sub; internal/expr/arithmetic.go
   EvaluateAdd/EvaluateSub dispatch.
   Go's time.AddDate followed by the addMonth/addYear day correction is modelled as "clamp to the last day
   of the month"; wall-clock arithmetic at a fixed offset is modelled on (day number, millisecond of day)
   using Base/Cal.v.  Values carry their own precision and offset, which the operations never touch. *)
From FPV Require Import Base.Prelude Base.Cal C08.Model.

Inductive unit_kw := UYear | UMonth | UWeek | UDay | UHour | UMinute | USecond | UMs | UOther.

(* prec: Date 0 year / 1 month / 2 day.  DateTime 0..2 as Date, 3 hour, 4 minute, 5 second, 6 millisecond.
   Time 3 hour, 4 minute, 5 second, 6 millisecond.   msm = milliseconds within the minute (sec*1000+ms). *)
Inductive tval :=
| TDate (prec y m d : Z)
| TDateTime (prec y m d h mi msm : Z) (off : option Z)
| TTime (prec h mi msm : Z).

Inductive aop := AAdd | ASub.

(* ---- calendar helpers --------------------------------------------------------------------- *)
Definition leap := leapb.
Definition dim := dimb.
(* month arithmetic: (y, m) + k months, m in 1..12 *)
Definition add_months_ym (y m k : Z) : Z * Z :=
  let t := y * 12 + (m - 1) + k in (t / 12, t mod 12 + 1).
Definition add_months_clamp (y m d k : Z) : Z * Z * Z :=
  let '(y', m') := add_months_ym y m k in (y', m', Z.min d (dim y' m')).
Definition add_days (y m d k : Z) : Z * Z * Z := civil_from_days (days_from_civil y m d + k).

(* ---- quantities --------------------------------------------------------------------------------- *)
(* IntPart of the amount (fraction dropped, toward zero) *)
Definition amount_int (c e : Z) : Z := dec_trunc c e.
(* milliseconds of a `seconds` amount: Round(3).Shift(3).IntPart() *)
Definition amount_ms_of_seconds (c e : Z) : Z :=
  match dec_round c e 3 with NDec c' e' => dec_trunc c' (e' + 3) | _ => 0 end.

Definition to_years (u : unit_kw) (v : Z) : option Z :=
  match u with
  | UYear => Some v
  | UMonth => Some (Z.quot v 12)
  | UWeek => Some (Z.quot (v * 7) 365)
  | UDay => Some (Z.quot v 365)
  | UHour => Some (Z.quot v (365 * 24))
  | UMinute => Some (Z.quot v (365 * 24 * 60))
  | USecond => Some (Z.quot v (365 * 24 * 60 * 60))
  | UMs => Some (Z.quot (Z.quot v (365 * 24 * 60 * 60)) 1000)
  | UOther => None
  end.
Definition to_months (u : unit_kw) (v : Z) : option Z :=
  match u with
  | UYear => Some (v * 12)
  | UMonth => Some v
  | UWeek => Some (Z.quot (v * 7) 30)
  | UDay => Some (Z.quot v 30)
  | UHour => Some (Z.quot v (30 * 24))
  | UMinute => Some (Z.quot v (30 * 24 * 60))
  | USecond => Some (Z.quot v (30 * 24 * 60 * 60))
  | UMs => Some (Z.quot (Z.quot v (30 * 24 * 60 * 60)) 1000)
  | UOther => None
  end.
(* duration in milliseconds of a clock-unit amount *)
Definition duration_ms (u : unit_kw) (c e : Z) : option Z :=
  match u with
  | UHour => Some (amount_int c e * 3600000)
  | UMinute => Some (amount_int c e * 60000)
  | USecond => Some (amount_ms_of_seconds c e)
  | UMs => Some (amount_int c e)
  | _ => None
  end.
(* whole units of the value's precision, fraction dropped toward zero *)
Definition round_to_prec (prec d : Z) : Z :=
  let unit := if prec <=? 2 then 86400000 else if prec =? 3 then 3600000 else if prec =? 4 then 60000
              else if prec =? 5 then 1000 else 1 in
  Z.quot d unit * unit.

Definition sgn_of (o : aop) : Z := match o with AAdd => 1 | ASub => -1 end.

(* wall-clock arithmetic on (y,m,d,h,mi,msm) by a number of milliseconds *)
Definition shift_ms (y m d h mi msm delta : Z) : Z * Z * Z * Z * Z * Z :=
  let total := days_from_civil y m d * 86400000 + h * 3600000 + mi * 60000 + msm + delta in
  let dn := total / 86400000 in
  let r := total mod 86400000 in
  let '(y', m', d') := civil_from_days dn in
  (y', m', d', r / 3600000, (r mod 3600000) / 60000, r mod 60000).

(* ---- the reference computation ---------------------------------------------------------------------- *)
Definition ref_arith (o : aop) (x : tval) (u : unit_kw) (c e : Z) : res tval :=
  let s := sgn_of o in
  let v := amount_int c e in
  match x with
  | TDate prec y m d =>
      if prec =? 0 then match to_years u v with Some k => Ok (TDate prec (y + s * k) m d) | None => Err end
      else if prec =? 1 then
        match to_months u v with
        | Some k => let '(y', m') := add_months_ym y m (s * k) in Ok (TDate prec y' m' d)
        | None => Err
        end
      else
        match u with
        | UYear => let '(y', m', d') := add_months_clamp y m d (s * v * 12) in Ok (TDate prec y' m' d')
        | UMonth => let '(y', m', d') := add_months_clamp y m d (s * v) in Ok (TDate prec y' m' d')
        | UWeek => let '(y', m', d') := add_days y m d (s * v * 7) in Ok (TDate prec y' m' d')
        | UDay => let '(y', m', d') := add_days y m d (s * v) in Ok (TDate prec y' m' d')
        | UOther => Err
        | _ => (* finer than a day: whole days *)
            match duration_ms u c e with
            | Some dur => let '(y', m', d') := add_days y m d (s * Z.quot dur 86400000) in Ok (TDate prec y' m' d')
            | None => Err
            end
        end
  | TDateTime prec y m d h mi msm off =>
      if prec =? 0 then match to_years u v with Some k => Ok (TDateTime prec (y + s * k) m d h mi msm off) | None => Err end
      else if prec =? 1 then
        match to_months u v with
        | Some k => let '(y', m') := add_months_ym y m (s * k) in Ok (TDateTime prec y' m' d h mi msm off)
        | None => Err
        end
      else
        match u with
        | UYear => let '(y', m', d') := add_months_clamp y m d (s * v * 12) in Ok (TDateTime prec y' m' d' h mi msm off)
        | UMonth => let '(y', m', d') := add_months_clamp y m d (s * v) in Ok (TDateTime prec y' m' d' h mi msm off)
        | UWeek => let '(y', m', d') := add_days y m d (s * v * 7) in Ok (TDateTime prec y' m' d' h mi msm off)
        | UDay => let '(y', m', d') := add_days y m d (s * v) in Ok (TDateTime prec y' m' d' h mi msm off)
        | UOther => Err
        | _ =>
            match duration_ms u c e with
            | Some dur =>
                let '(y', m', d', h', mi', msm') := shift_ms y m d h mi msm (s * round_to_prec prec dur) in
                Ok (TDateTime prec y' m' d' h' mi' msm' off)
            | None => Err
            end
        end
  | TTime prec h mi msm =>
      match duration_ms u c e with
      | Some dur =>
          let total := h * 3600000 + mi * 60000 + msm + s * round_to_prec prec dur in
          let r := total mod 86400000 in
          Ok (TTime prec (r / 3600000) ((r mod 3600000) / 60000) (r mod 60000))
      | None => Err
      end
  end.

(* ---- known-finding classes ------------------------------------------------------------------------------
   1: a day-precision Date plus/minus hours/minutes/seconds/milliseconds is rejected as a unit mismatch
      (pinned by TestDateAdd_ReturnsSum/returns_error_on_unsupported_time-valued_quantity) instead of being
      converted to whole days.
   2: a second-precision (no milliseconds) DateTime or Time with a sub-second amount: Add truncates the
      result, Sub keeps hidden sub-second digits that the value no longer prints. *)
Definition is_clock_unit (u : unit_kw) : bool := match u with UHour | UMinute | USecond | UMs => true | _ => false end.
Definition kf_of (x : tval) (u : unit_kw) (c e : Z) : N :=
  match x with
  | TDate prec _ _ _ => if (prec =? 2) && is_clock_unit u then 1%N else 0%N
  | TDateTime prec _ _ _ _ _ _ _ | TTime prec _ _ _ =>
      if (prec =? 5) && is_clock_unit u
      then match duration_ms u c e with Some d => if d mod 1000 =? 0 then 0%N else 2%N | None => 0%N end
      else 0%N
  end.

(* the code: the reference except inside the classes *)
Inductive modelres := MExact (r : res tval) | MUnmodelled.
Definition model_arith (o : aop) (x : tval) (u : unit_kw) (c e : Z) : modelres :=
  match kf_of x u c e with
  | 1%N => MExact Err
  | 2%N => MUnmodelled
  | _ => MExact (ref_arith o x u c e)
  end.

Definition tval_eqb (a b : tval) : bool :=
  match a, b with
  | TDate p y m d, TDate p' y' m' d' => (p =? p') && (y =? y') && (m =? m') && (d =? d')
  | TDateTime p y m d h mi s o, TDateTime p' y' m' d' h' mi' s' o' =>
      (p =? p') && (y =? y') && (m =? m') && (d =? d') && (h =? h') && (mi =? mi') && (s =? s') &&
      match o, o' with None, None => true | Some a, Some b => a =? b | _, _ => false end
  | TTime p h mi s, TTime p' h' mi' s' => (p =? p') && (h =? h') && (mi =? mi') && (s =? s')
  | _, _ => false
  end.
Definition outcome := res tval.
Definition outcome_eqb : outcome -> outcome -> bool := res_eqb tval_eqb.

(* quantities: add / subtract only within one unit *)
Inductive qcase := QAdd | QSub.

Inductive case :=
| CArith (o : aop) (x : tval) (u : unit_kw) (c e : Z)
| CQty (o : qcase) (c1 e1 : Z) (u1 : N) (c2 e2 : Z) (u2 : N).
Inductive obs := OT (r : res tval) | OQ (r : res (Z * Z * N)).

Definition q_ref (o : qcase) c1 e1 (u1 : N) c2 e2 (u2 : N) : res (Z * Z * N) :=
  if N.eqb u1 u2 then
    match (match o with QAdd => dec_add c1 e1 c2 e2 | QSub => dec_sub c1 e1 c2 e2 end) with
    | NDec c e => Ok (c, e, u1) | _ => Err end
  else Err.
Definition q_eqb (a b : res (Z * Z * N)) : bool :=
  res_eqb (fun x y => let '(c1, e1, u1) := x in let '(c2, e2, u2) := y in dec_eqb c1 e1 c2 e2 && N.eqb u1 u2) a b.

(* results outside the years 0001..9999 cannot be represented by the value types: out of the domain *)
Definition year_of (t : tval) : Z := match t with TDate _ y _ _ | TDateTime _ y _ _ _ _ _ _ => y | TTime _ _ _ _ => 2000 end.
Definition in_domain (o : aop) (x : tval) (u : unit_kw) (c e : Z) : bool :=
  match ref_arith o x u c e with Ok t => (1 <=? year_of t) && (year_of t <=? 9999) | _ => true end.

Definition agrees (c : case) (o : obs) : bool :=
  match c, o with
  | CArith op x u cc e, OT r =>
      if negb (in_domain op x u cc e) then true else
      match model_arith op x u cc e with MExact m => outcome_eqb m r | MUnmodelled => true end
  | CQty op c1 e1 u1 c2 e2 u2, OQ r => q_eqb (q_ref op c1 e1 u1 c2 e2 u2) r
  | _, _ => false
  end.
Definition holds (c : case) (o : obs) : bool :=
  match c, o with
  | CArith op x u cc e, OT r => negb (in_domain op x u cc e) || outcome_eqb (ref_arith op x u cc e) r
  | CQty op c1 e1 u1 c2 e2 u2, OQ r => q_eqb (q_ref op c1 e1 u1 c2 e2 u2) r
  | _, _ => false
  end.
Definition kf (c : case) : N := match c with CArith _ x u cc e => kf_of x u cc e | _ => 0%N end.

Definition judge (x : N * case * obs) : verdict :=
  let '(id, c, o) := x in
  {| v_id := id; v_agree := agrees c o; v_holds := holds c o; v_kf := kf c |}.
