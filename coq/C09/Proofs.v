From FPV Require Import Base.Prelude Base.Cal C08.Model C09.Model.
Ltac Zify.zify_post_hook ::= Z.div_mod_to_equations.

(* ---- days ------------------------------------------------------------------------------------------- *)
Lemma add_days_daynum y m d k : let '(y', m', d') := add_days y m d k in days_from_civil y' m' d' = days_from_civil y m d + k.
Proof.
  unfold add_days. pose proof (days_civil_roundtrip (days_from_civil y m d + k)) as H.
  destruct (civil_from_days (days_from_civil y m d + k)) as [[y' m'] d']. tauto.
Qed.
(* (x + k days) - k days = x, for every valid date and every integer k *)
Lemma add_days_inverse y m d k : valid_civil y m d ->
  let '(y', m', d') := add_days y m d k in add_days y' m' d' (- k) = (y, m, d).
Proof.
  intro Hv. pose proof (add_days_daynum y m d k) as H. destruct (add_days y m d k) as [[y' m'] d'].
  unfold add_days. rewrite H. replace (days_from_civil y m d + k + - k) with (days_from_civil y m d) by lia.
  apply civil_days_roundtrip. exact Hv.
Qed.
Lemma add_days_compose y m d a b : valid_civil y m d ->
  let '(y', m', d') := add_days y m d a in add_days y' m' d' b = add_days y m d (a + b).
Proof.
  intro Hv. pose proof (add_days_daynum y m d a) as H. destruct (add_days y m d a) as [[y' m'] d'].
  unfold add_days. rewrite H. f_equal. lia.
Qed.
(* monotone in the amount: more days never gives an earlier date *)
Lemma add_days_monotone y m d a b : a <= b ->
  let '(y1, m1, d1) := add_days y m d a in let '(y2, m2, d2) := add_days y m d b in
  days_from_civil y1 m1 d1 <= days_from_civil y2 m2 d2.
Proof.
  intro Hab. pose proof (add_days_daynum y m d a) as Ha. pose proof (add_days_daynum y m d b) as Hb.
  destruct (add_days y m d a) as [[y1 m1] d1]. destruct (add_days y m d b) as [[y2 m2] d2]. lia.
Qed.

(* ---- months ----------------------------------------------------------------------------------------- *)
Lemma add_months_ym_range y m k : let '(y', m') := add_months_ym y m k in 1 <= m' <= 12.
Proof. unfold add_months_ym. pose proof (Z.mod_pos_bound (y * 12 + (m - 1) + k) 12 ltac:(lia)). lia. Qed.
Lemma add_months_ym_inverse y m k : 1 <= m <= 12 ->
  let '(y', m') := add_months_ym y m k in add_months_ym y' m' (- k) = (y, m).
Proof.
  intro Hm. unfold add_months_ym.
  set (t := y * 12 + (m - 1) + k).
  replace (t / 12 * 12 + (t mod 12 + 1 - 1) + - k) with (y * 12 + (m - 1)) by (pose proof (Z.div_mod t 12 ltac:(lia)); unfold t in *; lia).
  f_equal.
  - symmetry. apply (Z.div_unique _ 12 y (m - 1)); lia.
  - replace ((y * 12 + (m - 1)) mod 12) with (m - 1) by (apply (Z.mod_unique _ 12 y (m - 1)); lia). lia.
Qed.
Lemma dim_ge_28 y m : 28 <= dim y m.
Proof. unfold dim, dimb. destruct (m =? 2); [destruct (leapb y); lia|destruct ((m =? 4) || (m =? 6) || (m =? 9) || (m =? 11)); lia]. Qed.
Lemma dim_le_31 y m : dim y m <= 31.
Proof. unfold dim, dimb. destruct (m =? 2); [destruct (leapb y); lia|destruct ((m =? 4) || (m =? 6) || (m =? 9) || (m =? 11)); lia]. Qed.
(* years and months clamp to the end of the month *)
Lemma add_months_clamps y m d k : let '(y', m', d') := add_months_clamp y m d k in d' = Z.min d (dim y' m') /\ 1 <= m' <= 12.
Proof. unfold add_months_clamp. pose proof (add_months_ym_range y m k). destruct (add_months_ym y m k) as [y' m']. split; [reflexivity|exact H]. Qed.
(* (x + k months) - k months = x whenever no month-end clamping occurs (day <= 28 suffices) *)
Lemma add_months_inverse y m d k : 1 <= m <= 12 -> d <= 28 ->
  let '(y', m', d') := add_months_clamp y m d k in add_months_clamp y' m' d' (- k) = (y, m, d).
Proof.
  intros Hm Hd. unfold add_months_clamp.
  pose proof (add_months_ym_inverse y m k Hm) as H. destruct (add_months_ym y m k) as [y' m'].
  rewrite H. pose proof (dim_ge_28 y' m'). pose proof (dim_ge_28 y m).
  rewrite (Z.min_l d (dim y' m')) by lia. rewrite Z.min_l by lia. reflexivity.
Qed.
Lemma add_months_inverse_general y m d k : 1 <= m <= 12 ->
  (let '(y', m') := add_months_ym y m k in d <= dim y' m') -> d <= dim y m ->
  let '(y', m', d') := add_months_clamp y m d k in add_months_clamp y' m' d' (- k) = (y, m, d).
Proof.
  intros Hm Hnc Hd. unfold add_months_clamp.
  pose proof (add_months_ym_inverse y m k Hm) as H. destruct (add_months_ym y m k) as [y' m'].
  rewrite H. rewrite (Z.min_l d (dim y' m')) by lia. rewrite Z.min_l by lia. reflexivity.
Qed.

(* ---- clock arithmetic --------------------------------------------------------------------------------- *)
Lemma time_wraps_midnight o prec h mi msm u c e t :
  ref_arith o (TTime prec h mi msm) u c e = Ok t ->
  exists h' mi' msm', t = TTime prec h' mi' msm' /\ 0 <= h' < 24 /\ 0 <= mi' < 60 /\ 0 <= msm' < 60000.
Proof.
  cbn [ref_arith]. destruct (duration_ms u c e) as [dur|]; [|discriminate]. intro H. inversion H; subst; clear H.
  set (total := h * 3600000 + mi * 60000 + msm + sgn_of o * round_to_prec prec dur).
  pose proof (Z.mod_pos_bound total 86400000 ltac:(lia)) as Hr. set (r := total mod 86400000) in *.
  exists (r / 3600000), (r mod 3600000 / 60000), (r mod 60000). repeat split; try lia.
Qed.

(* ---- structure: type, precision and offset never change; bad units are errors ---------------------------- *)
Definition same_shape (x t : tval) : Prop :=
  match x, t with
  | TDate p _ _ _, TDate p' _ _ _ => p = p'
  | TDateTime p _ _ _ _ _ _ off, TDateTime p' _ _ _ _ _ _ off' => p = p' /\ off = off'
  | TTime p _ _ _, TTime p' _ _ _ => p = p'
  | _, _ => False
  end.
Lemma preserves_type_precision_offset o x u c e t : ref_arith o x u c e = Ok t -> same_shape x t.
Proof.
  destruct x as [prec y m d|prec y m d h mi msm off|prec h mi msm]; cbn [ref_arith].
  - destruct (prec =? 0); [destruct (to_years u _); [|discriminate]; intro H; inversion H; reflexivity|].
    destruct (prec =? 1); [destruct (to_months u _); [|discriminate]; destruct (add_months_ym _ _ _); intro H; inversion H; reflexivity|].
    destruct u; try discriminate;
    try (destruct (add_months_clamp _ _ _ _) as [[? ?] ?]; intro H; inversion H; reflexivity);
    try (destruct (add_days _ _ _ _) as [[? ?] ?]; intro H; inversion H; reflexivity);
    (destruct (duration_ms _ c e); [|discriminate]; destruct (add_days _ _ _ _) as [[? ?] ?]; intro H; inversion H; reflexivity).
  - destruct (prec =? 0); [destruct (to_years u _); [|discriminate]; intro H; inversion H; split; reflexivity|].
    destruct (prec =? 1); [destruct (to_months u _); [|discriminate]; destruct (add_months_ym _ _ _); intro H; inversion H; split; reflexivity|].
    destruct u; try discriminate;
    try (destruct (add_months_clamp _ _ _ _) as [[? ?] ?]; intro H; inversion H; split; reflexivity);
    try (destruct (add_days _ _ _ _) as [[? ?] ?]; intro H; inversion H; split; reflexivity);
    (destruct (duration_ms _ c e); [|discriminate]; destruct (shift_ms _ _ _ _ _ _ _) as [[[[[? ?] ?] ?] ?] ?]; intro H; inversion H; split; reflexivity).
  - destruct (duration_ms u c e); [|discriminate]. intro H; inversion H; reflexivity.
Qed.
Lemma bad_unit_is_error o x c e : ref_arith o x UOther c e = Err.
Proof.
  destruct x as [prec y m d|prec y m d h mi msm off|prec h mi msm]; cbn [ref_arith to_years to_months duration_ms];
  try (destruct (prec =? 0); [reflexivity|destruct (prec =? 1); reflexivity]); reflexivity.
Qed.
Lemma calendar_unit_on_time_is_error o prec h mi msm u c e : is_clock_unit u = false -> ref_arith o (TTime prec h mi msm) u c e = Err.
Proof. destruct u; cbn; try discriminate; reflexivity. Qed.

(* a week is seven days (integer amounts) *)
Lemma dec_trunc_int v : amount_int v 0 = v.
Proof. unfold amount_int, dec_trunc. cbn. lia. Qed.
Lemma week_is_7_days o x v : ref_arith o x UWeek v 0 = ref_arith o x UDay (7 * v) 0.
Proof.
  destruct x as [prec y m d|prec y m d h mi msm off|prec h mi msm]; cbn [ref_arith to_years to_months duration_ms]; rewrite ?dec_trunc_int;
  try reflexivity;
  replace (7 * v) with (v * 7) by lia;
  replace (sgn_of o * (v * 7)) with (sgn_of o * v * 7) by lia; reflexivity.
Qed.

(* quantities add and subtract only within one unit *)
Lemma quantity_same_unit_only o c1 e1 u1 c2 e2 u2 : u1 <> u2 -> q_ref o c1 e1 u1 c2 e2 u2 = Err.
Proof. intro H. unfold q_ref. apply N.eqb_neq in H. rewrite H. reflexivity. Qed.
Lemma quantity_same_unit_exact c1 e1 u c2 e2 :
  q_ref QAdd c1 e1 u c2 e2 u = (let '(a, b, m) := align c1 e1 c2 e2 in Ok (a + b, m, u)) /\
  q_ref QSub c1 e1 u c2 e2 u = (let '(a, b, m) := align c1 e1 c2 e2 in Ok (a - b, m, u)).
Proof. unfold q_ref, dec_add, dec_sub. rewrite N.eqb_refl. destruct (align c1 e1 c2 e2) as [[a b] m]. split; reflexivity. Qed.

(* the model is the reference outside the two listed classes *)
Lemma model_is_ref o x u c e : kf_of x u c e = 0%N -> model_arith o x u c e = MExact (ref_arith o x u c e).
Proof. intro H. unfold model_arith. rewrite H. reflexivity. Qed.
Lemma outcome_eqb_refl (r : outcome) : outcome_eqb r r = true.
Proof.
  destruct r as [t| |]; cbn; try reflexivity.
  destruct t as [p y m d|p y m d h mi s o|p h mi s]; cbn; rewrite ?Z.eqb_refl; try reflexivity. destruct o; [apply Z.eqb_refl|reflexivity].
Qed.
Lemma holds_model_arith o x u c e : kf_of x u c e = 0%N ->
  holds (CArith o x u c e) (OT (ref_arith o x u c e)) = true /\ agrees (CArith o x u c e) (OT (ref_arith o x u c e)) = true.
Proof.
  intro H. cbn [holds agrees]. rewrite (model_is_ref o x u c e H). rewrite outcome_eqb_refl. split; [apply orb_true_r|].
  destruct (negb _); reflexivity.
Qed.

(* at the level of values: (x + n days) - n days = x, and (x + k months) - k months = x without clamping *)
Theorem date_add_sub_days_inverse y m d n : valid_civil y m d ->
  exists t, ref_arith AAdd (TDate 2 y m d) UDay n 0 = Ok t /\ ref_arith ASub t UDay n 0 = Ok (TDate 2 y m d).
Proof.
  intro Hv. cbn [ref_arith]. replace (2 =? 0) with false by reflexivity. replace (2 =? 1) with false by reflexivity.
  rewrite dec_trunc_int. cbn [sgn_of]. rewrite Z.mul_1_l.
  pose proof (add_days_inverse y m d n Hv) as H.
  destruct (add_days y m d n) as [[y' m'] d']. exists (TDate 2 y' m' d'). split; [reflexivity|].
  cbn [ref_arith]. replace (2 =? 0) with false by reflexivity. replace (2 =? 1) with false by reflexivity.
  rewrite dec_trunc_int. cbn [sgn_of]. replace (-1 * n) with (- n) by lia. rewrite H. reflexivity.
Qed.
Theorem date_add_sub_months_inverse y m d k : 1 <= m <= 12 -> d <= 28 ->
  exists t, ref_arith AAdd (TDate 2 y m d) UMonth k 0 = Ok t /\ ref_arith ASub t UMonth k 0 = Ok (TDate 2 y m d).
Proof.
  intros Hm Hd. cbn [ref_arith]. replace (2 =? 0) with false by reflexivity. replace (2 =? 1) with false by reflexivity.
  rewrite dec_trunc_int. cbn [sgn_of]. rewrite Z.mul_1_l.
  pose proof (add_months_inverse y m d k Hm Hd) as H.
  destruct (add_months_clamp y m d k) as [[y' m'] d']. exists (TDate 2 y' m' d'). split; [reflexivity|].
  cbn [ref_arith]. replace (2 =? 0) with false by reflexivity. replace (2 =? 1) with false by reflexivity.
  rewrite dec_trunc_int. cbn [sgn_of]. replace (-1 * k) with (- k) by lia. rewrite H. reflexivity.
Qed.
