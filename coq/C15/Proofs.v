From FPV Require Import Base.Prelude C15.Model.

(* ---- unescape (escape s) = s, for the code and for the reference, all strings ---------------------- *)
Lemma unescape_escape_char keep c rest :
  unescape_gen keep (escape_char c ++ rest) = c :: unescape_gen keep rest.
Proof.
  unfold escape_char.
  destruct (c =? 39)%N eqn:E1; [apply N.eqb_eq in E1; subst; reflexivity|].
  destruct (c =? 92)%N eqn:E2; [apply N.eqb_eq in E2; subst; reflexivity|].
  destruct (c =? 13)%N eqn:E3; [apply N.eqb_eq in E3; subst; reflexivity|].
  destruct (c =? 9)%N eqn:E4; [apply N.eqb_eq in E4; subst; reflexivity|].
  destruct (c =? 10)%N eqn:E5; [apply N.eqb_eq in E5; subst; reflexivity|].
  destruct (c =? 12)%N eqn:E6; [apply N.eqb_eq in E6; subst; reflexivity|].
  cbn [app unescape_gen]. unfold bs. rewrite E2. reflexivity.
Qed.
Theorem unescape_escape keep s : unescape_gen keep (escape s) = s.
Proof.
  unfold escape. induction s as [|c s IH]; [reflexivity|].
  cbn [flat_map]. rewrite unescape_escape_char. rewrite IH. reflexivity.
Qed.

(* every FHIRPath escape decodes (finite list, by computation) *)
Lemma each_escape_decodes :
  map (fun p => unescape_code [bs; fst p]) [(39, 39); (34, 34); (96, 96); (92, 92); (47, 47); (102, 12); (110, 10); (114, 13); (116, 9)]%N
  = map (fun p => [snd p]) [(39, 39); (34, 34); (96, 96); (92, 92); (47, 47); (102, 12); (110, 10); (114, 13); (116, 9)]%N.
Proof. reflexivity. Qed.
Lemma unicode_escape_decodes :
  unescape_code [bs; 117; 48; 48; 52; 49]%N = [65]%N /\                                   (* A = A *)
  unescape_code [bs; 117; 50; 48; 65; 67]%N = [8364]%N /\                                 (* € = euro sign *)
  unescape_code [bs; 117; 68; 56; 51; 68; bs; 117; 68; 69; 48; 48]%N = [128512]%N.        (* surrogate pair = U+1F600 *)
Proof. repeat split. Qed.

(* ---- where no stray backslash occurs the code is the reference -------------------------------------------- *)
Lemma code_is_ref_bounded n : forall s, (length s <= n)%nat -> has_stray_backslash s = false -> unescape_code s = unescape_ref s.
Proof.
  unfold unescape_code, unescape_ref.
  induction n as [|n IH]; intros s Hlen Hs.
  - destruct s; [reflexivity|cbn in Hlen; lia].
  - destruct s as [|c rest]; [reflexivity|]. cbn [length] in Hlen.
    cbn [has_stray_backslash unescape_gen] in *.
    destruct (negb (c =? bs)%N).
    + f_equal. apply IH; [lia|exact Hs].
    + destruct rest as [|x rest']; [discriminate|]. cbn [length] in Hlen.
      destruct (simple_escape x).
      * f_equal. apply IH; [lia|exact Hs].
      * destruct (x =? 117)%N; [|discriminate].
        destruct rest' as [|a [|b [|c' [|d rest4]]]]; try discriminate. cbn [length] in Hlen.
        destruct (hex4 a b c' d) as [u|]; [|discriminate].
        destruct (is_surrogate u); [|f_equal; apply IH; [lia|exact Hs]].
        destruct rest4 as [|b1 [|u1 [|e [|f [|g [|h rest10]]]]]]; try reflexivity; try (f_equal; apply IH; [cbn [length] in *; lia|exact Hs]).
        cbn [length] in Hlen.
        destruct ((b1 =? bs)%N && (u1 =? 117)%N) eqn:Eb; [|f_equal; apply IH; [cbn [length]; lia|exact Hs]].
        apply andb_prop in Eb as [Eb1 Eb2]. apply N.eqb_eq in Eb1, Eb2. subst b1 u1.
        destruct (hex4 e f g h) as [lo|] eqn:Eh; [|f_equal; apply IH; [cbn [length]; lia|exact Hs]].
        destruct (is_high u && is_low lo); [|f_equal; apply IH; [cbn [length]; lia|exact Hs]].
        f_equal. apply IH; [lia|].
        change (has_stray_backslash (bs :: 117%N :: e :: f :: g :: h :: rest10))
          with (match hex4 e f g h with Some _ => has_stray_backslash rest10 | None => true end) in Hs.
        rewrite Eh in Hs. exact Hs.
Qed.
Theorem code_is_ref s : has_stray_backslash s = false -> unescape_code s = unescape_ref s.
Proof. apply (code_is_ref_bounded (length s)). lia. Qed.
(* ... and where one occurs they differ (the finding) *)
Lemma code_is_ref_refuted : exists s, unescape_code s <> unescape_ref s.
Proof. exists [97; bs; 113; 98]%N. vm_compute. discriminate. Qed.

(* ---- narrowing ------------------------------------------------------------------------------------------------ *)
Lemma narrow_ok_iff_representable from to v : model (CNarrow from to v) = Some (ONarrow v (representable to v)).
Proof. reflexivity. Qed.
Lemma representable_spec t v : representable t v = true <-> type_lo t <= v <= type_hi t.
Proof. unfold representable. rewrite andb_true_iff, !Z.leb_le. tauto. Qed.

(* ---- agreeing outcomes satisfy the property outside the listed classes ---------------------------------------- *)
Lemma ustr_eqb_refl s : ustr_eqb s s = true. Proof. apply ustr_eqb_eq. reflexivity. Qed.
Lemma agree_implies_holds c o : kf c = 0%N -> agrees c o = true -> holds c o = true.
Proof.
  destruct c as [src|s|from to v|k rep kfc desc]; cbn [kf agrees model holds].
  - destruct (has_stray_backslash src) eqn:E; [discriminate|]. intros _.
    destruct o as [[r| |]| |]; cbn; try discriminate. rewrite <- (code_is_ref src E). intro H. apply ustr_eqb_eq in H. subst. apply ustr_eqb_refl.
  - intros _. destruct o as [[r| |]| |]; cbn; try discriminate. unfold unescape_code. rewrite (unescape_escape false s).
    intro H. apply ustr_eqb_eq in H. subst. apply ustr_eqb_refl.
  - intros _. destruct o as [|r ok|]; cbn; try discriminate.
    intro H. apply andb_prop in H as [H1 H2]. apply eqb_prop in H1. subst ok.
    rewrite eqb_reflx. cbn. destruct (representable to v); [|reflexivity]. apply Z.eqb_eq in H2. subst. apply Z.eqb_refl.
  - intro Hk. subst kfc. destruct o as [| |same]; cbn; try discriminate. intro H. apply eqb_prop in H. subst. destruct same; reflexivity.
Qed.
