(* C10/Model.v -- filtering, projection, subsetting and set functions over collections.

   Items are abstracted to their equality class (a number): two items are equal in FHIRPath's sense
   (system.Equal after system.From for primitives, proto.Equal for complex elements) iff their classes
   are equal.  The harness computes classes independently of the library (numeric value, string
   value, deterministic serialisation of complex elements).
   Mirrors:
     funcs/impl/filtering.go:12 Where; projection.go:14 Select; existence.go All/Exists/Empty/Count
     funcs/impl/subsetting.go First/Last/Tail/Skip/Take/Intersect/Exclude/Distinct/IsDistinct
     internal/expr/expressions.go:377 IndexExpression
   The criterion of where/exists/all is represented by its per-item value (true / false / empty /
   multi-item), the projection of select by its per-item result. *)
From FPV Require Import Base.Prelude.

Definition coll := list N.
Inductive crit := KT | KF | KE | KM.       (* criterion value for one item: true, false, empty, multi-item *)

Fixpoint memb (x : N) (l : coll) : bool :=
  match l with [] => false | y :: l' => N.eqb x y || memb x l' end.

(* ---- the code ---------------------------------------------------------------------- *)
(* Where: items whose criterion is empty are skipped; a multi-item criterion is an error *)
Fixpoint where_ (c : coll) (k : list crit) : res coll :=
  match c, k with
  | [], _ => Ok []
  | x :: c', kx :: k' =>
      match kx with
      | KM => Err
      | KT => match where_ c' k' with Ok r => Ok (x :: r) | e => e end
      | _ => where_ c' k'
      end
  | _ :: _, [] => Err
  end.
Definition exists_p (c : coll) (k : list crit) : res bool :=
  match where_ c k with Ok r => Ok (negb (Nat.eqb (length r) 0)) | Err => Err | Panic => Panic end.
(* All: stops at the first item whose criterion is not true (empty counts as false); multi-item errors *)
Fixpoint all_p (c : coll) (k : list crit) : res bool :=
  match c, k with
  | [], _ => Ok true
  | _ :: c', kx :: k' =>
      match kx with
      | KM => Err
      | KT => all_p c' k'
      | _ => Ok false
      end
  | _ :: _, [] => Err
  end.
Definition select_ (per : list coll) : coll := concat per.
Definition count_ (c : coll) : Z := go_len c.
Definition empty_ (c : coll) : bool := go_len c =? 0.
Definition exists_ (c : coll) : bool := 0 <? go_len c.

Definition first_ (c : coll) : coll := match c with [] => [] | x :: _ => [x] end.
Definition last_ (c : coll) : coll := match c with [] => [] | _ => [List.last c 0%N] end.
Definition tail_ (c : coll) : coll := match c with [] => [] | _ :: t => t end.
Definition skip_ (c : coll) (n : Z) : coll :=
  match c with
  | [] => []
  | _ => if n <=? 0 then c else if go_len c <=? n then [] else skipn (Z.to_nat n) c
  end.
Definition take_ (c : coll) (n : Z) : coll :=
  match c with
  | [] => []
  | _ => if n <=? 0 then [] else if go_len c <=? n then c else firstn (Z.to_nat n) c
  end.
Definition index_ (c : coll) (i : Z) : coll :=
  if (go_len c <=? i) || (i <? 0) then [] else match nth_error c (Z.to_nat i) with Some x => [x] | None => [] end.

(* Distinct: keep an item unless an equal one was already kept *)
Fixpoint distinct_acc (acc c : coll) : coll :=
  match c with
  | [] => acc
  | x :: c' => if memb x acc then distinct_acc acc c' else distinct_acc (acc ++ [x]) c'
  end.
Definition distinct_ (c : coll) : coll := distinct_acc [] c.
Definition is_distinct_ (c : coll) : bool := Nat.eqb (length (distinct_ c)) (length c).

(* Exclude as implemented: the items of c not in d, FOLLOWED BY the items of d not in c.
   The second part is known finding KF-C10-1 (pinned by an existing test, so not repaired). *)
Definition exclude_spec (c d : coll) : coll := filter (fun x => negb (memb x d)) c.
Definition exclude_ (c d : coll) : coll :=
  match c with
  | [] => []
  | _ => exclude_spec c d ++ filter (fun x => negb (memb x c)) d
  end.
(* Intersect (after the fix): for each item of c, for each equal item of d, one copy; then de-duplicated *)
Definition intersect_raw (c d : coll) : coll :=
  flat_map (fun x => filter (fun y => N.eqb x y) d) c.
Definition intersect_ (c d : coll) : coll :=
  match c with [] => [] | _ => distinct_ (intersect_raw c d) end.

(* ---- correspondence cases -------------------------------------------------------------- *)
Inductive case :=
| CWhere (c : coll) (k : list crit)
| CExistsP (c : coll) (k : list crit)
| CAllP (c : coll) (k : list crit)
| CSelect (per : list coll)
| CCount (c : coll) | CEmpty (c : coll) | CExists (c : coll)
| CFirst (c : coll) | CLast (c : coll) | CTail (c : coll)
| CSkip (c : coll) (n : Z) | CTake (c : coll) (n : Z) | CIndex (c : coll) (i : Z)
| CDistinct (c : coll) | CIsDistinct (c : coll)
| CExclude (c d : coll) | CIntersect (c d : coll).

(* observed results: a collection as the classes of its items, with the harness's verdict on whether
   every complex element in it is one of the input's own nodes and no item is nil *)
Inductive out := OColl (l : coll) (own_nodes_no_nil : bool) | OBool (b : bool) | OInt (z : Z).
Definition outcome := res out.
Definition out_eqb (a b : out) : bool :=
  match a, b with
  | OColl l x, OColl m y => list_eqb N.eqb l m && Bool.eqb x y
  | OBool x, OBool y => Bool.eqb x y
  | OInt x, OInt y => x =? y
  | _, _ => false
  end.
Definition outcome_eqb : outcome -> outcome -> bool := res_eqb out_eqb.
Definition ocoll (r : res coll) : outcome := match r with Ok l => Ok (OColl l true) | Err => Err | Panic => Panic end.
Definition obool (r : res bool) : outcome := match r with Ok b => Ok (OBool b) | Err => Err | Panic => Panic end.

Definition model (c : case) : outcome :=
  match c with
  | CWhere c k => ocoll (where_ c k)
  | CExistsP c k => obool (exists_p c k)
  | CAllP c k => obool (all_p c k)
  | CSelect per => Ok (OColl (select_ per) true)
  | CCount c => Ok (OInt (count_ c))
  | CEmpty c => Ok (OBool (empty_ c))
  | CExists c => Ok (OBool (exists_ c))
  | CFirst c => Ok (OColl (first_ c) true)
  | CLast c => Ok (OColl (last_ c) true)
  | CTail c => Ok (OColl (tail_ c) true)
  | CSkip c n => Ok (OColl (skip_ c n) true)
  | CTake c n => Ok (OColl (take_ c n) true)
  | CIndex c i => Ok (OColl (index_ c i) true)
  | CDistinct c => Ok (OColl (distinct_ c) true)
  | CIsDistinct c => Ok (OBool (is_distinct_ c))
  | CExclude c d => Ok (OColl (exclude_ c d) true)
  | CIntersect c d => Ok (OColl (intersect_ c d) true)
  end.

(* ---- the property as a specification on lists ----------------------------------------------- *)
Definition crit_true (k : crit) : bool := match k with KT => true | _ => false end.
Definition has_multi (k : list crit) : bool := existsb (fun x => match x with KM => true | _ => false end) k.
Fixpoint filter2 (c : coll) (k : list crit) : coll :=
  match c, k with
  | x :: c', kx :: k' => if crit_true kx then x :: filter2 c' k' else filter2 c' k'
  | _, _ => []
  end.
Fixpoint nodupb (l : coll) : bool := match l with [] => true | x :: l' => negb (memb x l') && nodupb l' end.
Definition same_set (a b : coll) : bool := forallb (fun x => memb x b) a && forallb (fun x => memb x a) b.
(* skipn / firstn with the count clamped to the length (so that evaluating the specification never
   builds a unary number the size of MaxInt32); Proofs.v shows these are skipn / firstn *)
Definition clampn (n : Z) (c : coll) : nat := Z.to_nat (Z.min n (go_len c)).
Definition skipz (n : Z) (c : coll) : coll := if n <=? 0 then c else skipn (clampn n c) c.
Definition takez (n : Z) (c : coll) : coll := if n <=? 0 then [] else firstn (clampn n c) c.

Definition spec_holds (c : case) (o : outcome) : bool :=
  match c with
  | CWhere c k =>
      if has_multi (firstn (length c) k) then match o with Err => true | _ => false end
      else outcome_eqb o (Ok (OColl (filter2 c k) true))
  | CExistsP c k =>
      if has_multi (firstn (length c) k) then match o with Err => true | _ => false end
      else outcome_eqb o (Ok (OBool (negb (Nat.eqb (length (filter2 c k)) 0))))
  | CAllP c k =>
      let k' := firstn (length c) k in
      if forallb crit_true k' then outcome_eqb o (Ok (OBool true))
      else if has_multi k' then match o with Err | Ok (OBool false) => true | _ => false end
      else outcome_eqb o (Ok (OBool false))
  | CSelect per => outcome_eqb o (Ok (OColl (concat per) true))
  | CCount c => outcome_eqb o (Ok (OInt (Z.of_nat (length c))))
  | CEmpty c => outcome_eqb o (Ok (OBool (Nat.eqb (length c) 0)))
  | CExists c => outcome_eqb o (Ok (OBool (negb (Nat.eqb (length c) 0))))
  | CFirst c => outcome_eqb o (Ok (OColl (firstn 1 c) true))
  | CLast c => outcome_eqb o (Ok (OColl (skipn (length c - 1) c) true))
  | CTail c => outcome_eqb o (Ok (OColl (skipn 1 c) true))
  | CSkip c n => outcome_eqb o (Ok (OColl (skipz n c) true))
  | CTake c n => outcome_eqb o (Ok (OColl (takez n c) true))
  | CIndex c i => outcome_eqb o (Ok (OColl (if i <? 0 then [] else firstn 1 (skipn (clampn i c) c)) true))
  | CDistinct c =>
      match o with
      | Ok (OColl r true) => nodupb r && same_set r c && list_eqb N.eqb r (distinct_ c)
      | _ => false
      end
  | CIsDistinct c => outcome_eqb o (Ok (OBool (nodupb c)))
  | CExclude c d => outcome_eqb o (Ok (OColl (exclude_spec c d) true))
  | CIntersect c d =>
      match o with
      | Ok (OColl r true) => nodupb r && forallb (fun x => memb x c && memb x d) r
                             && forallb (fun x => negb (memb x d) || memb x r) c
      | _ => false
      end
  end.
Definition holds := spec_holds.

(* known finding KF-C10-1: exclude() also returns the items of its argument that are not in the input *)
Definition kf (c : case) : N :=
  match c with
  | CExclude ((_ :: _) as c) d => if existsb (fun x => negb (memb x c)) d then 1%N else 0%N
  | _ => 0%N
  end.

Definition judge (x : N * case * outcome) : verdict :=
  let '(id, c, o) := x in
  {| v_id := id; v_agree := outcome_eqb (model c) o; v_holds := holds c o; v_kf := kf c |}.
