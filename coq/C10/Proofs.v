From FPV Require Import Base.Prelude C10.Model.

(* ---- where / exists / all ---------------------------------------------------------------- *)
Lemma where_is_filter c : forall k, (length c <= length k)%nat -> has_multi (firstn (length c) k) = false ->
  where_ c k = Ok (filter2 c k).
Proof.
  induction c as [|x c IH]; intros k Hl Hm; [reflexivity|].
  destruct k as [|kx k]; [cbn in Hl; lia|]. cbn in Hl.
  cbn [length firstn has_multi existsb] in Hm. apply orb_false_iff in Hm as [Hx Hm].
  cbn [where_ filter2]. destruct kx; try discriminate; cbn [crit_true];
  rewrite (IH k ltac:(lia) Hm); reflexivity.
Qed.
Lemma where_multi_is_error c : forall k, (length c <= length k)%nat -> has_multi (firstn (length c) k) = true ->
  where_ c k = Err.
Proof.
  induction c as [|x c IH]; intros k Hl Hm; [cbn in Hm; discriminate|].
  destruct k as [|kx k]; [cbn in Hl; lia|]. cbn in Hl.
  cbn [length firstn has_multi existsb] in Hm. cbn [where_].
  destruct kx; try reflexivity; cbn in Hm; rewrite (IH k ltac:(lia) Hm); reflexivity.
Qed.
Lemma filter2_subsequence c : forall k x, In x (filter2 c k) -> In x c.
Proof.
  induction c as [|y c IH]; intros k x H; [destruct k; exact H|].
  destruct k as [|ky k]; [cbn in H; contradiction|]. cbn in H.
  destruct (crit_true ky); [destruct H as [->|H]; [left; reflexivity|right; exact (IH k x H)]|right; exact (IH k x H)].
Qed.
Lemma exists_is_where_exists c k : exists_p c k = match where_ c k with Ok r => Ok (exists_ r) | Err => Err | Panic => Panic end.
Proof. unfold exists_p, exists_, go_len. destruct (where_ c k) as [r| |]; try reflexivity. destruct r; reflexivity. Qed.
Lemma all_is_forall c : forall k, (length c <= length k)%nat -> has_multi (firstn (length c) k) = false ->
  all_p c k = Ok (forallb crit_true (firstn (length c) k)).
Proof.
  induction c as [|x c IH]; intros k Hl Hm; [reflexivity|].
  destruct k as [|kx k]; [cbn in Hl; lia|]. cbn in Hl.
  cbn [length firstn has_multi existsb] in Hm. apply orb_false_iff in Hm as [Hx Hm].
  cbn [all_p length firstn forallb]. destruct kx; try discriminate; cbn [crit_true andb]; try reflexivity.
  exact (IH k ltac:(lia) Hm).
Qed.
Lemma empty_is_count_zero c : empty_ c = (count_ c =? 0).
Proof. reflexivity. Qed.

(* ---- positional subsetting ------------------------------------------------------------------ *)
Lemma go_len_nonneg {A} (l : list A) : 0 <= go_len l. Proof. unfold go_len. lia. Qed.
Lemma skipn_clamp c n : 0 <= n -> skipn (clampn n c) c = skipn (Z.to_nat n) c.
Proof.
  intro Hn. unfold clampn, go_len. destruct (Z_le_gt_dec n (Z.of_nat (length c))).
  - rewrite Z.min_l by lia. reflexivity.
  - rewrite Z.min_r by lia. rewrite !skipn_all2 by lia. reflexivity.
Qed.
Lemma firstn_clamp c n : 0 <= n -> firstn (clampn n c) c = firstn (Z.to_nat n) c.
Proof.
  intro Hn. unfold clampn, go_len. destruct (Z_le_gt_dec n (Z.of_nat (length c))).
  - rewrite Z.min_l by lia. reflexivity.
  - rewrite Z.min_r by lia. rewrite !firstn_all2 by lia. reflexivity.
Qed.
Lemma skip_is_skipz c n : skip_ c n = skipz n c.
Proof.
  unfold skip_, skipz. destruct (n <=? 0) eqn:E; [destruct c; reflexivity|]. rewrite skipn_clamp by lia.
  unfold go_len. destruct c as [|x c]; [destruct (Z.to_nat n); reflexivity|].
  destruct (Z.of_nat (length (x :: c)) <=? n) eqn:E2; [|reflexivity].
  symmetry. apply skipn_all2. lia.
Qed.
Lemma take_is_takez c n : take_ c n = takez n c.
Proof.
  unfold take_, takez. destruct (n <=? 0) eqn:E; [destruct c; reflexivity|]. rewrite firstn_clamp by lia.
  unfold go_len. destruct c as [|x c]; [destruct (Z.to_nat n); reflexivity|].
  destruct (Z.of_nat (length (x :: c)) <=? n) eqn:E2; [|reflexivity].
  symmetry. apply firstn_all2. lia.
Qed.
Lemma skipz_is_skipn c n : skipz n c = skipn (Z.to_nat n) c.
Proof. unfold skipz. destruct (n <=? 0) eqn:E; [replace (Z.to_nat n) with 0%nat by lia; reflexivity|apply skipn_clamp; lia]. Qed.
Lemma takez_is_firstn c n : takez n c = firstn (Z.to_nat n) c.
Proof. unfold takez. destruct (n <=? 0) eqn:E; [replace (Z.to_nat n) with 0%nat by lia; reflexivity|apply firstn_clamp; lia]. Qed.
Lemma take_skip_partition c n : take_ c n ++ skip_ c n = c.
Proof. rewrite take_is_takez, skip_is_skipz, takez_is_firstn, skipz_is_skipn. apply firstn_skipn. Qed.
Lemma first_is_take1 c : first_ c = take_ c 1.
Proof. rewrite take_is_takez, takez_is_firstn. destruct c; reflexivity. Qed.
Lemma first_is_index0 c : first_ c = index_ c 0.
Proof. unfold index_, go_len. destruct c as [|x c]; [reflexivity|]. cbn [length]. replace (Z.of_nat (S (length c)) <=? 0) with false by lia. reflexivity. Qed.
Lemma tail_is_skip1 c : tail_ c = skip_ c 1.
Proof. rewrite skip_is_skipz, skipz_is_skipn. destruct c; reflexivity. Qed.
Lemma skipn_length_cons (x : N) c : skipn (length c) (x :: c) = [List.last (x :: c) 0%N].
Proof.
  revert x. induction c as [|y c IH]; intros x; [reflexivity|].
  cbn [length skipn]. rewrite IH. reflexivity.
Qed.
Lemma last_is_skip_count_minus1 c : last_ c = skip_ c (count_ c - 1).
Proof.
  rewrite skip_is_skipz, skipz_is_skipn. unfold count_, go_len, last_.
  destruct c as [|x c]; [reflexivity|].
  replace (Z.to_nat (Z.of_nat (length (x :: c)) - 1)) with (length c) by (cbn [length]; lia).
  symmetry. apply skipn_length_cons.
Qed.
Lemma index_spec c i : index_ c i = if i <? 0 then [] else firstn 1 (skipn (clampn i c) c).
Proof.
  destruct (i <? 0) eqn:E; [unfold index_; rewrite E, orb_true_r; reflexivity|]. rewrite skipn_clamp by lia.
  unfold index_, go_len. rewrite E, orb_false_r.
  destruct (Z.of_nat (length c) <=? i) eqn:E2.
  - rewrite skipn_all2 by lia. reflexivity.
  - assert (H : (Z.to_nat i < length c)%nat) by lia. revert H. generalize (Z.to_nat i) as n. clear.
    induction c as [|x c IH]; intros n H; [cbn in H; lia|]. destruct n; [reflexivity|]. cbn. apply IH. cbn in H. lia.
Qed.

(* ---- equality-based functions -------------------------------------------------------------------- *)
Lemma memb_In x l : memb x l = true <-> In x l.
Proof.
  induction l as [|y l IH]; cbn; [split; [discriminate|contradiction]|].
  rewrite orb_true_iff, IH, N.eqb_eq. split; intros [H|H]; auto.
Qed.
Lemma memb_app x a b : memb x (a ++ b) = memb x a || memb x b.
Proof. induction a as [|y a IH]; cbn; [reflexivity|]. rewrite IH, orb_assoc. reflexivity. Qed.

Lemma distinct_acc_mem acc c x : memb x (distinct_acc acc c) = memb x acc || memb x c.
Proof.
  revert acc. induction c as [|y c IH]; intros acc; cbn [distinct_acc memb]; [rewrite orb_false_r; reflexivity|].
  destruct (memb y acc) eqn:E.
  - rewrite IH. destruct (N.eqb x y) eqn:Exy; [apply N.eqb_eq in Exy; subst; rewrite E; reflexivity|reflexivity].
  - rewrite IH, memb_app. cbn [memb]. rewrite orb_false_r, <- orb_assoc. reflexivity.
Qed.
Lemma nodupb_app_single acc y : nodupb acc = true -> memb y acc = false -> nodupb (acc ++ [y]) = true.
Proof.
  induction acc as [|z acc IH]; cbn; intros Hn Hm; [reflexivity|].
  apply andb_prop in Hn as [Hz Hn]. apply orb_false_iff in Hm as [Hyz Hm].
  rewrite memb_app. cbn [memb]. rewrite orb_false_r.
  apply negb_true_iff in Hz. rewrite Hz. cbn.
  assert (N.eqb z y = false) by (rewrite N.eqb_sym; exact Hyz). rewrite H. cbn. exact (IH Hn Hm).
Qed.
Lemma distinct_acc_nodup acc c : nodupb acc = true -> nodupb (distinct_acc acc c) = true.
Proof.
  revert acc. induction c as [|y c IH]; intros acc Hn; cbn [distinct_acc]; [exact Hn|].
  destruct (memb y acc) eqn:E; [exact (IH acc Hn)|]. apply IH. apply nodupb_app_single; assumption.
Qed.
Lemma distinct_nodup c : nodupb (distinct_ c) = true.
Proof. apply distinct_acc_nodup. reflexivity. Qed.
Lemma distinct_covers c x : memb x (distinct_ c) = memb x c.
Proof. unfold distinct_. rewrite distinct_acc_mem. reflexivity. Qed.

Lemma distinct_acc_length acc c : (length (distinct_acc acc c) <= length acc + length c)%nat.
Proof.
  revert acc. induction c as [|y c IH]; intros acc; cbn [distinct_acc length]; [lia|].
  destruct (memb y acc); [specialize (IH acc); lia|]. specialize (IH (acc ++ [y])). rewrite app_length in IH. cbn in IH. lia.
Qed.
Lemma distinct_acc_full acc c : length (distinct_acc acc c) = (length acc + length c)%nat <->
  (nodupb c = true /\ forallb (fun y => negb (memb y acc)) c = true).
Proof.
  revert acc. induction c as [|y c IH]; intros acc; cbn [distinct_acc length nodupb forallb].
  - split; [intros _; split; reflexivity|intros _; lia].
  - destruct (memb y acc) eqn:E.
    + pose proof (distinct_acc_length acc c). split; [intro H1; lia|]. cbn. intros [_ H1]. discriminate.
    + cbn [negb andb].
      assert (Hlen: (length (acc ++ [y]) + length c = length acc + S (length c))%nat) by (rewrite app_length; cbn [length]; lia).
      rewrite <- Hlen. rewrite (IH (acc ++ [y])).
      assert (Heq : forallb (fun y0 => negb (memb y0 (acc ++ [y]))) c = negb (memb y c) && forallb (fun y0 => negb (memb y0 acc)) c).
      { clear. induction c as [|z c IHc]; cbn [forallb memb]; [reflexivity|].
        rewrite IHc, memb_app. cbn [memb]. rewrite orb_false_r. rewrite (N.eqb_sym y z).
        destruct (memb z acc), (N.eqb z y), (memb y c), (forallb _ c); reflexivity. }
      rewrite Heq. split.
      * intros [H1 H2]. apply andb_prop in H2 as [H2 H3]. split; [rewrite H2, H1; reflexivity|exact H3].
      * intros [H1 H2]. apply andb_prop in H1 as [H1 H3]. split; [exact H3|rewrite H1, H2; reflexivity].
Qed.
Lemma is_distinct_iff_nodup c : is_distinct_ c = nodupb c.
Proof.
  unfold is_distinct_, distinct_.
  pose proof (distinct_acc_full [] c) as H. cbn [length plus] in H.
  assert (Hf : forallb (fun y => negb (memb y [])) c = true) by (clear; induction c; cbn; auto).
  destruct (nodupb c) eqn:En.
  - apply Nat.eqb_eq. apply H. split; [reflexivity|exact Hf].
  - apply Nat.eqb_neq. intro Hc. apply H in Hc as [Hc _]. discriminate.
Qed.
Lemma is_distinct_iff_count c : is_distinct_ c = (count_ c =? count_ (distinct_ c)).
Proof. unfold is_distinct_, count_, go_len. destruct (Nat.eqb _ _) eqn:E; [apply Nat.eqb_eq in E|apply Nat.eqb_neq in E]; lia. Qed.

Lemma filter_none (f : N -> bool) l : forallb (fun x => negb (f x)) l = true -> filter f l = [].
Proof. induction l as [|x l IH]; cbn; [reflexivity|]. intro H. apply andb_prop in H as [H1 H2]. apply negb_true_iff in H1. rewrite H1. exact (IH H2). Qed.
Lemma exclude_is_spec c d : kf (CExclude c d) = 0%N -> exclude_ c d = exclude_spec c d.
Proof.
  destruct c as [|x c]; [reflexivity|]. cbn [kf]. remember (x :: c) as l eqn:Hl.
  destruct (existsb _ d) eqn:E; [discriminate|]. intros _.
  unfold exclude_. rewrite Hl. rewrite <- Hl. rewrite filter_none; [apply app_nil_r|].
  clear - E. induction d as [|y d IH]; cbn [existsb forallb] in *; [reflexivity|]. apply orb_false_iff in E as [E1 E2].
  rewrite E1. exact (IH E2).
Qed.
Lemma exclude_spec_mem c d x : memb x (exclude_spec c d) = memb x c && negb (memb x d).
Proof.
  unfold exclude_spec. induction c as [|y c IH]; cbn [filter memb]; [reflexivity|].
  destruct (memb y d) eqn:E; cbn [negb].
  - rewrite IH. destruct (N.eqb x y) eqn:Exy; [apply N.eqb_eq in Exy; subst; rewrite E; cbn; destruct (memb y c); reflexivity|reflexivity].
  - cbn [memb]. rewrite IH. destruct (N.eqb x y) eqn:Exy; [apply N.eqb_eq in Exy; subst; rewrite E; reflexivity|reflexivity].
Qed.
Lemma exclude_refuted : exists c d, exclude_ c d <> exclude_spec c d.
Proof. exists [1%N], [2%N]. vm_compute. discriminate. Qed.

Lemma intersect_raw_mem c d x : memb x (intersect_raw c d) = memb x c && memb x d.
Proof.
  unfold intersect_raw. induction c as [|y c IH]; cbn [flat_map memb]; [reflexivity|].
  rewrite memb_app, IH.
  assert (H : memb x (filter (fun y0 => N.eqb y y0) d) = N.eqb x y && memb x d).
  { clear. induction d as [|z d IHd]; cbn [filter memb]; [rewrite andb_false_r; reflexivity|].
    destruct (N.eqb y z) eqn:E; cbn [memb]; rewrite IHd.
    - apply N.eqb_eq in E; subst. destruct (N.eqb x z); reflexivity.
    - destruct (N.eqb x y) eqn:E2; [apply N.eqb_eq in E2; subst; rewrite E; reflexivity|reflexivity]. }
  rewrite H. destruct (N.eqb x y), (memb x c), (memb x d); reflexivity.
Qed.
Lemma intersect_mem c d x : memb x (intersect_ c d) = memb x c && memb x d.
Proof. destruct c as [|y c]; [reflexivity|]. unfold intersect_. rewrite distinct_covers. apply intersect_raw_mem. Qed.
Lemma intersect_nodup c d : nodupb (intersect_ c d) = true.
Proof. destruct c; [reflexivity|apply distinct_nodup]. Qed.

(* ---- the model satisfies the property predicate outside the known-finding class -------------- *)
Lemma list_eqb_refl l : list_eqb N.eqb l l = true.
Proof. induction l as [|x l IH]; cbn; [reflexivity|]. rewrite N.eqb_refl. exact IH. Qed.
Lemma out_eqb_refl o : out_eqb o o = true.
Proof. destruct o as [l b|b|z]; cbn; [rewrite list_eqb_refl; destruct b; reflexivity|destruct b; reflexivity|apply Z.eqb_refl]. Qed.
Lemma outcome_eqb_refl o : outcome_eqb o o = true.
Proof. destruct o; cbn; try reflexivity. apply out_eqb_refl. Qed.

Lemma all_p_not_all_true c : forall k, (length c <= length k)%nat ->
  forallb crit_true (firstn (length c) k) = false -> all_p c k = Err \/ all_p c k = Ok false.
Proof.
  induction c as [|x c IH]; intros k Hl Hf; [cbn in Hf; discriminate|].
  destruct k as [|kx k]; [cbn in Hl; lia|]. cbn in Hl. cbn [length firstn forallb] in Hf. cbn [all_p].
  destruct kx; cbn [crit_true andb] in Hf; try (right; reflexivity); try (left; reflexivity).
  exact (IH k ltac:(lia) Hf).
Qed.
Lemma all_true_no_multi k : forallb crit_true k = true -> has_multi k = false.
Proof. induction k as [|x k IH]; cbn; [reflexivity|]. intro H. apply andb_prop in H as [H1 H2]. destruct x; try discriminate. exact (IH H2). Qed.

Definition wf_case (c : case) : Prop :=
  match c with
  | CWhere c k | CExistsP c k | CAllP c k => (length c <= length k)%nat
  | _ => True
  end.

Lemma forallb_memb_self (f : N -> bool) l : (forall x, memb x l = true -> f x = true) -> forallb f l = true.
Proof.
  induction l as [|y l IH]; intros H; cbn; [reflexivity|].
  rewrite (H y) by (cbn; rewrite N.eqb_refl; reflexivity). apply IH. intros x Hx. apply H. cbn. rewrite Hx, orb_true_r. reflexivity.
Qed.

Theorem holds_model c : wf_case c -> kf c = 0%N -> holds c (model c) = true.
Proof.
  intros Hwf Hkf. destruct c as [c k|c k|c k|per|c|c|c|c|c|c|c n|c n|c i|c|c|c d|c d]; cbn [holds spec_holds model wf_case] in *.
  - destruct (has_multi _) eqn:M; [rewrite (where_multi_is_error c k Hwf M); reflexivity|].
    rewrite (where_is_filter c k Hwf M). apply outcome_eqb_refl.
  - unfold exists_p. destruct (has_multi _) eqn:M; [rewrite (where_multi_is_error c k Hwf M); reflexivity|].
    rewrite (where_is_filter c k Hwf M). apply outcome_eqb_refl.
  - destruct (forallb crit_true _) eqn:F.
    + rewrite (all_is_forall c k Hwf (all_true_no_multi _ F)), F. reflexivity.
    + destruct (has_multi _) eqn:M.
      * destruct (all_p_not_all_true c k Hwf F) as [-> | ->]; reflexivity.
      * rewrite (all_is_forall c k Hwf M), F. reflexivity.
  - apply outcome_eqb_refl.
  - apply outcome_eqb_refl.
  - unfold empty_, go_len. destruct c; reflexivity.
  - unfold exists_, go_len. destruct c; reflexivity.
  - destruct c; cbn [first_ firstn]; apply outcome_eqb_refl.
  - rewrite last_is_skip_count_minus1, skip_is_skipz, skipz_is_skipn. unfold count_, go_len.
    replace (Z.to_nat (Z.of_nat (length c) - 1)) with (length c - 1)%nat by lia. apply outcome_eqb_refl.
  - rewrite tail_is_skip1, skip_is_skipz, skipz_is_skipn. apply outcome_eqb_refl.
  - rewrite skip_is_skipz. apply outcome_eqb_refl.
  - rewrite take_is_takez. apply outcome_eqb_refl.
  - rewrite index_spec. apply outcome_eqb_refl.
  - rewrite distinct_nodup, list_eqb_refl. cbn [andb]. rewrite andb_true_r. unfold same_set.
    rewrite andb_true_iff. split; apply forallb_memb_self; intros x Hx; [rewrite <- distinct_covers|rewrite distinct_covers]; exact Hx.
  - rewrite is_distinct_iff_nodup. destruct (nodupb c); reflexivity.
  - rewrite (exclude_is_spec c d Hkf). apply outcome_eqb_refl.
  - rewrite intersect_nodup. cbn [andb]. rewrite andb_true_iff. split.
    + apply forallb_memb_self. intros x Hx. rewrite intersect_mem in Hx. exact Hx.
    + apply forallb_memb_self. intros x Hx. rewrite intersect_mem, Hx. cbn. destruct (memb x d); reflexivity.
Qed.

Lemma agree_implies_holds c o : wf_case c -> kf c = 0%N -> outcome_eqb (model c) o = true -> holds c o = true.
Proof.
  intros Hwf Hkf H.
  assert (E : model c = o).
  { clear - H. destruct (model c) as [a| |], o as [b| |]; cbn in H; try discriminate; try reflexivity. f_equal.
    destruct a as [l x|x|x], b as [m y|y|y]; cbn in H; try discriminate.
    - apply andb_prop in H as [H1 H2]. apply eqb_prop in H2. subst. f_equal.
      revert m H1. induction l as [|u l IH]; intros [|v m] H1; cbn in H1; try discriminate; [reflexivity|].
      apply andb_prop in H1 as [Ha Hb]. apply N.eqb_eq in Ha. subst. f_equal. exact (IH m Hb).
    - apply eqb_prop in H. subst. reflexivity.
    - apply Z.eqb_eq in H. subst. reflexivity. }
  subst. apply holds_model; assumption.
Qed.
