From FPV Require Import Base.Prelude C14.Model.

Lemma ustr_eqb_refl s : ustr_eqb s s = true.
Proof. apply ustr_eqb_eq. reflexivity. Qed.

Lemma prefixb_spec t : forall s, prefixb t s = true <-> firstn (length t) s = t /\ (length t <= length s)%nat.
Proof.
  induction t as [|x t IH]; intros s; cbn [prefixb length firstn].
  - split; [intros _; split; [reflexivity|lia]|reflexivity].
  - destruct s as [|y s]; cbn [length firstn].
    + split; [discriminate|intros [H _]; discriminate].
    + rewrite andb_true_iff, N.eqb_eq, IH. split.
      * intros [-> [H1 H2]]. split; [rewrite H1; reflexivity|lia].
      * intros [H1 H2]. inversion H1 as [[Hx Ht]]. rewrite Ht. repeat split; try reflexivity; try exact Ht; lia.
Qed.
Lemma prefixb_app t s : prefixb t (t ++ s) = true.
Proof. induction t as [|x t IH]; cbn; [reflexivity|]. rewrite N.eqb_refl. exact IH. Qed.

(* ---- length / toChars ------------------------------------------------------------------------- *)
Lemma length_is_count s : length_ s = Z.of_nat (length s). Proof. reflexivity. Qed.
Lemma toChars_count_is_length s : go_len (to_chars s) = length_ s.
Proof. unfold go_len, to_chars, length_. rewrite map_length. reflexivity. Qed.
Lemma toChars_concat s : concat (to_chars s) = s.
Proof. unfold to_chars. induction s as [|c s IH]; cbn [map concat app]; [reflexivity|]. rewrite IH. reflexivity. Qed.

(* ---- substring --------------------------------------------------------------------------------- *)
Lemma firstn_min_len {A} (l : list A) n m : (length l <= m)%nat -> firstn (Nat.min n m) l = firstn n l.
Proof.
  intro H. destruct (Nat.le_gt_cases n m); [rewrite Nat.min_l by lia; reflexivity|].
  rewrite Nat.min_r by lia. rewrite !firstn_all2 by lia. reflexivity.
Qed.
Lemma substring_is_ref s st l : (match l with Some n => 0 <= n | None => True end) -> substring s st l = ref_substring s st l.
Proof.
  intro Hl. unfold substring, ref_substring, go_len.
  destruct ((st <? 0) || (Z.of_nat (length s) <=? st)) eqn:E; [reflexivity|].
  destruct l as [n|]; [|reflexivity].
  assert (En : n <? 0 = false) by lia. rewrite En.
  replace (Z.to_nat (Z.min n (Z.of_nat (length s)))) with (Nat.min (Z.to_nat n) (length s)) by lia.
  rewrite firstn_min_len by (rewrite skipn_length; lia).
  destruct ((-1 <? n) && (st + n <? Z.of_nat (length s))) eqn:E2; [reflexivity|].
  f_equal. symmetry. apply firstn_all2. rewrite skipn_length. lia.
Qed.
(* the reference is the plain list specification *)
Lemma ref_substring_plain s st n : 0 <= n -> 0 <= st < Z.of_nat (length s) ->
  ref_substring s st (Some n) = Some (firstn (Z.to_nat n) (skipn (Z.to_nat st) s)).
Proof.
  intros Hn Hst. unfold ref_substring.
  assert (E : (st <? 0) || (Z.of_nat (length s) <=? st) = false) by lia. rewrite E.
  assert (En : n <? 0 = false) by lia. rewrite En. f_equal.
  replace (Z.to_nat (Z.min n (Z.of_nat (length s)))) with (Nat.min (Z.to_nat n) (length s)) by lia.
  apply firstn_min_len. rewrite skipn_length. lia.
Qed.
Lemma substring_out_of_range_is_empty s st l : st < 0 \/ Z.of_nat (length s) <= st -> substring s st l = None.
Proof. intro H. unfold substring, go_len. assert (E : (st <? 0) || (Z.of_nat (length s) <=? st) = true) by lia. rewrite E. reflexivity. Qed.
(* s.substring(0,k) & s.substring(k) = s  (an empty collection counts as '' under &) *)
Definition str_or_empty (o : option ustring) : ustring := match o with Some r => r | None => [] end.
Lemma substring_split s k : 0 <= k ->
  str_or_empty (substring s 0 (Some k)) ++ str_or_empty (substring s k None) = s.
Proof.
  intro Hk. rewrite substring_is_ref by exact Hk. rewrite substring_is_ref by exact I.
  destruct s as [|x s].
  - unfold ref_substring. cbn [length Z.of_nat]. replace (0 <? 0) with false by reflexivity. replace (0 <=? 0) with true by reflexivity.
    replace (0 <=? k) with true by lia. rewrite !orb_true_r. reflexivity.
  - rewrite ref_substring_plain by (cbn [length]; lia). cbn [str_or_empty Z.to_nat skipn].
    unfold ref_substring. assert (Ek : k <? 0 = false) by lia. rewrite Ek. cbn [orb].
    destruct (Z.of_nat (length (x :: s)) <=? k) eqn:E1; cbn [str_or_empty].
    + rewrite firstn_all2 by lia. apply app_nil_r.
    + apply firstn_skipn.
Qed.

(* ---- indexOf / startsWith / contains -------------------------------------------------------------- *)
Lemma index_from_shift s t : forall i, index_from s t i = if 0 <=? index_from s t 0 then i + index_from s t 0 else -1.
Proof.
  induction s as [|x s IH]; intros i; cbn [index_from].
  - destruct (prefixb t []); cbn; [rewrite Z.add_0_r; reflexivity|reflexivity].
  - destruct (prefixb t (x :: s)); [cbn; rewrite Z.add_0_r; reflexivity|].
    rewrite (IH (i + 1)), (IH (0 + 1)).
    destruct (0 <=? index_from s t 0) eqn:E.
    + replace (0 <=? 0 + 1 + index_from s t 0) with true by lia. lia.
    + reflexivity.
Qed.
Lemma index_from_range s t : forall i, index_from s t i = -1 \/ i <= index_from s t i <= i + Z.of_nat (length s).
Proof.
  induction s as [|x s IH]; intros i; cbn [index_from length].
  - destruct (prefixb t []); [right; lia|left; reflexivity].
  - destruct (prefixb t (x :: s)); [right; lia|]. destruct (IH (i + 1)) as [H|H]; [left; exact H|right; lia].
Qed.
Lemma indexOf_then_startsWith s t : forall i, 0 <= index_of s t -> index_of s t = i ->
  starts_with (skipn (Z.to_nat i) s) t = true.
Proof.
  unfold index_of, starts_with. induction s as [|x s IH]; intros i Hi Heq; cbn [index_from] in *.
  - destruct (prefixb t []) eqn:P; [subst; exact P|lia].
  - destruct (prefixb t (x :: s)) eqn:P; [subst; exact P|].
    rewrite index_from_shift in Hi, Heq. destruct (0 <=? index_from s t 0) eqn:E; [|lia].
    assert (Hi' : 0 <= index_from s t 0) by lia.
    replace (Z.to_nat i) with (S (Z.to_nat (index_from s t 0))) by lia. cbn [skipn].
    apply IH; [exact Hi'|reflexivity].
Qed.
Lemma contains_iff_indexOf s t : containsb s t = (0 <=? index_of s t).
Proof.
  unfold index_of. induction s as [|x s IH]; cbn [containsb index_from].
  - destruct (prefixb t []); reflexivity.
  - destruct (prefixb t (x :: s)); [reflexivity|]. cbn [orb]. rewrite IH, (index_from_shift s t (0 + 1)).
    destruct (0 <=? index_from s t 0) eqn:E; [lia|reflexivity].
Qed.
Lemma starts_with_is_prefix s t : starts_with s t = ustr_eqb (firstn (length t) s) t.
Proof.
  unfold starts_with. destruct (prefixb t s) eqn:P.
  - apply prefixb_spec in P as [P _]. rewrite P. symmetry. apply ustr_eqb_refl.
  - symmetry. destruct (ustr_eqb _ t) eqn:E; [|reflexivity]. apply ustr_eqb_eq in E.
    assert (prefixb t s = true); [|congruence]. apply prefixb_spec. split; [exact E|].
    rewrite <- E at 1. rewrite firstn_length. lia.
Qed.
Lemma ends_with_is_suffix s t : ends_with s t = ustr_eqb (skipn (length s - length t) s) t && Nat.leb (length t) (length s).
Proof.
  unfold ends_with. rewrite starts_with_is_prefix || idtac.
  destruct (Nat.leb (length t) (length s)) eqn:L.
  - apply Nat.leb_le in L. rewrite andb_true_r.
    assert (Hrev : firstn (length (rev t)) (rev s) = rev (skipn (length s - length t) s)).
    { rewrite rev_length. rewrite <- (firstn_skipn (length s - length t) s) at 1.
      rewrite rev_app_distr. rewrite firstn_app. rewrite rev_length, skipn_length.
      replace (length t - (length s - (length s - length t)))%nat with 0%nat by lia. cbn [firstn]. rewrite app_nil_r.
      apply firstn_all2. rewrite rev_length, skipn_length. lia. }
    destruct (prefixb (rev t) (rev s)) eqn:P.
    + apply prefixb_spec in P as [P _]. rewrite Hrev in P. apply (f_equal (@rev N)) in P. rewrite !rev_involutive in P.
      rewrite P. symmetry. apply ustr_eqb_refl.
    + symmetry. destruct (ustr_eqb _ t) eqn:E; [|reflexivity]. apply ustr_eqb_eq in E.
      assert (prefixb (rev t) (rev s) = true); [|congruence]. apply prefixb_spec. split; [|rewrite !rev_length; lia].
      rewrite Hrev, E. reflexivity.
  - rewrite andb_false_r. apply Nat.leb_gt in L.
    destruct (prefixb (rev t) (rev s)) eqn:P; [|reflexivity]. apply prefixb_spec in P as [_ P]. rewrite !rev_length in P. lia.
Qed.

(* ---- the model satisfies the property predicate ----------------------------------------------------- *)
Lemma out_eqb_refl o : out_eqb o o = true.
Proof.
  destruct o as [s b|z|b|  |l b| ]; cbn; try reflexivity.
  - rewrite ustr_eqb_refl. destruct b; reflexivity.
  - apply Z.eqb_refl.
  - destruct b; reflexivity.
  - assert (H : list_eqb ustr_eqb l l = true) by (induction l as [|x l IH]; cbn; [reflexivity|rewrite ustr_eqb_refl; exact IH]).
    rewrite H. destruct b; reflexivity.
Qed.
Lemma outcome_eqb_refl o : outcome_eqb o o = true.
Proof. destruct o; cbn; try reflexivity. apply out_eqb_refl. Qed.
Lemma case_agrees_map f s : case_agrees f s (map f s) = true.
Proof. induction s as [|x s IH]; cbn; [reflexivity|]. rewrite N.eqb_refl, IH. destruct (is_ascii x); reflexivity. Qed.

(* cutting a string at any position k >= 0 (also beyond its end, also the empty string) and joining the parts *)
Lemma split_join_identity s k : 0 <= k -> opt_str (substring s 0 (Some k)) ++ opt_str (substring s k None) = s.
Proof.
  intros Hk. rewrite (substring_is_ref s 0 (Some k)) by lia. rewrite (substring_is_ref s k None) by exact I.
  unfold ref_substring. cbn [Z.ltb Z.compare orb].
  destruct (Z.of_nat (length s) <=? 0) eqn:E0.
  - apply Z.leb_le in E0. destruct s as [|x s]; [|cbn [length] in E0; lia].
    destruct ((k <? 0) || (Z.of_nat (length (@nil N)) <=? k)); cbn [opt_str app]; [reflexivity|]. destruct (Z.to_nat k); reflexivity.
  - apply Z.leb_gt in E0.
    replace (k <? 0) with false by (symmetry; apply Z.ltb_ge; lia). cbn [orb].
    change (skipn (Z.to_nat 0) s) with s.
    destruct (Z.of_nat (length s) <=? k) eqn:E1.
    + apply Z.leb_le in E1. cbn [opt_str]. rewrite app_nil_r. rewrite Z.min_r by lia. rewrite Nat2Z.id. apply firstn_all.
    + apply Z.leb_gt in E1. cbn [opt_str]. rewrite Z.min_l by lia. apply firstn_skipn.
Qed.

Theorem holds_model c : holds c (model c) = true.
Proof.
  destruct c as [s|s st l|s t|s|s t|s t|s t|s p r|s|s|s k]; cbn [holds model].
  - apply outcome_eqb_refl.
  - destruct l as [n|].
    + destruct (n <? 0) eqn:E.
      * destruct (substring s st (Some n)); reflexivity.
      * rewrite substring_is_ref by lia. apply outcome_eqb_refl.
    + rewrite substring_is_ref by exact I. apply outcome_eqb_refl.
  - apply outcome_eqb_refl.
  - apply outcome_eqb_refl.
  - rewrite starts_with_is_prefix. apply outcome_eqb_refl.
  - rewrite ends_with_is_suffix. apply outcome_eqb_refl.
  - rewrite contains_iff_indexOf. apply outcome_eqb_refl.
  - apply outcome_eqb_refl.
  - apply case_agrees_map.
  - apply case_agrees_map.
  - destruct (k <? 0) eqn:E; [reflexivity|]. apply Z.ltb_ge in E. rewrite split_join_identity by exact E. apply outcome_eqb_refl.
Qed.
