(* C14/Model.v -- string functions over Unicode characters.
   A string is the list of its code points (Base.Prelude.ustring).  Mirrors, after the fix: commit that
   made them character-based, funcs/impl/strings.go Length, Substring, IndexOf, ToChars, StartsWith,
   EndsWith, Contains, Replace, Upper, Lower (Go's strings.Index/HasPrefix/HasSuffix/Contains/
   ReplaceAll/Split on valid UTF-8 are modelled on code-point lists). *)
From FPV Require Import Base.Prelude.

Fixpoint prefixb (t s : ustring) : bool :=
  match t, s with
  | [], _ => true
  | x :: t', y :: s' => N.eqb x y && prefixb t' s'
  | _ :: _, [] => false
  end.

(* first position (in characters) at which t occurs in s, scanning from position i; -1 if none *)
Fixpoint index_from (s t : ustring) (i : Z) : Z :=
  if prefixb t s then i
  else match s with
       | [] => -1
       | _ :: s' => index_from s' t (i + 1)
       end.
Definition index_of (s t : ustring) : Z := index_from s t 0.
Fixpoint containsb (s t : ustring) : bool :=
  prefixb t s || match s with [] => false | _ :: s' => containsb s' t end.
Definition starts_with (s t : ustring) : bool := prefixb t s.
Definition ends_with (s t : ustring) : bool := prefixb (rev t) (rev s).
Definition length_ (s : ustring) : Z := go_len s.
Definition to_chars (s : ustring) : list ustring := map (fun c => [c]) s.

(* Substring(start [, length]) -> None = the empty collection *)
Definition substring (s : ustring) (start : Z) (len : option Z) : option ustring :=
  if (start <? 0) || (go_len s <=? start) then None
  else
    let tl := skipn (Z.to_nat start) s in
    match len with
    | Some l => if (-1 <? l) && (start + l <? go_len s) then Some (firstn (Z.to_nat l) tl) else Some tl
    | None => Some tl
    end.

(* strings.ReplaceAll: an empty pattern matches before every character and at the end *)
Fixpoint replace_fuel (fuel : nat) (s p r : ustring) : ustring :=
  match fuel with
  | O => s
  | S f =>
      match s with
      | [] => []
      | x :: s' => if prefixb p s then r ++ replace_fuel f (skipn (length p) s) p r
                   else x :: replace_fuel f s' p r
      end
  end.
Definition replace_ (s p r : ustring) : ustring :=
  match p with
  | [] => r ++ flat_map (fun c => c :: r) s
  | _ => replace_fuel (S (length s)) s p r
  end.

Definition upper_ascii (c : N) : N := if (97 <=? c)%N && (c <=? 122)%N then (c - 32)%N else c.
Definition lower_ascii (c : N) : N := if (65 <=? c)%N && (c <=? 90)%N then (c + 32)%N else c.
Definition is_ascii (c : N) : bool := (c <? 128)%N.

(* ---- cases / outcomes --------------------------------------------------------------------- *)
Inductive case :=
| CLength (s : ustring)
| CSubstring (s : ustring) (start : Z) (len : option Z)
| CIndexOf (s t : ustring)
| CToChars (s : ustring)
| CStartsWith (s t : ustring) | CEndsWith (s t : ustring) | CContains (s t : ustring)
| CReplace (s p r : ustring)
| CUpper (s : ustring) | CLower (s : ustring)
| CSplit (s : ustring) (k : Z).      (* s.substring(0, k) & s.substring(k): the two parts joined (an empty part joins as '') *)
Definition opt_str (o : option ustring) : ustring := match o with Some r => r | None => [] end.

Inductive out :=
| OStr (s : ustring) (valid_utf8 : bool)
| OInt (z : Z) | OBool (b : bool) | OEmpty
| OChars (l : list ustring) (valid_utf8 : bool)
| OOther.
Definition outcome := res out.

Definition out_eqb (a b : out) : bool :=
  match a, b with
  | OStr s x, OStr t y => ustr_eqb s t && Bool.eqb x y
  | OInt x, OInt y => x =? y
  | OBool x, OBool y => Bool.eqb x y
  | OEmpty, OEmpty => true
  | OChars l x, OChars m y => list_eqb ustr_eqb l m && Bool.eqb x y
  | OOther, OOther => true
  | _, _ => false
  end.
Definition outcome_eqb : outcome -> outcome -> bool := res_eqb out_eqb.

(* upper/lower: exact on ASCII, any same-length answer elsewhere (Unicode case tables are not modelled) *)
Fixpoint case_agrees (f : N -> N) (s r : ustring) : bool :=
  match s, r with
  | [], [] => true
  | x :: s', y :: r' => (if is_ascii x then N.eqb (f x) y else true) && case_agrees f s' r'
  | _, _ => false
  end.

Definition model (c : case) : outcome :=
  match c with
  | CLength s => Ok (OInt (length_ s))
  | CSubstring s st l => match substring s st l with Some r => Ok (OStr r true) | None => Ok OEmpty end
  | CIndexOf s t => Ok (OInt (index_of s t))
  | CToChars s => Ok (OChars (to_chars s) true)
  | CStartsWith s t => Ok (OBool (starts_with s t))
  | CEndsWith s t => Ok (OBool (ends_with s t))
  | CContains s t => Ok (OBool (containsb s t))
  | CReplace s p r => Ok (OStr (replace_ s p r) true)
  | CUpper s => Ok (OStr (map upper_ascii s) true)
  | CLower s => Ok (OStr (map lower_ascii s) true)
  | CSplit s k => Ok (OStr (opt_str (substring s 0 (Some k)) ++ opt_str (substring s k None)) true)
  end.

Definition agrees (c : case) (o : outcome) : bool :=
  match c, o with
  | CUpper s, Ok (OStr r true) => case_agrees upper_ascii s r
  | CLower s, Ok (OStr r true) => case_agrees lower_ascii s r
  | _, _ => outcome_eqb (model c) o
  end.

(* ---- the reference, stated independently on lists --------------------------------------------- *)
(* t occurs in s at character position i *)
Definition occurs_at (s t : ustring) (i : nat) : Prop := firstn (length t) (skipn i s) = t /\ (i + length t <= length s)%nat.

Definition ref_substring (s : ustring) (start : Z) (len : option Z) : option ustring :=
  if (start <? 0) || (Z.of_nat (length s) <=? start) then None
  else match len with
       | None => Some (skipn (Z.to_nat start) s)
       | Some l => if l <? 0 then Some (skipn (Z.to_nat start) s)   (* unspecified by FHIRPath; the code returns the tail *)
                   else Some (firstn (Z.to_nat (Z.min l (Z.of_nat (length s)))) (skipn (Z.to_nat start) s))
                   (* = firstn l ...: the count is clamped so that evaluation never builds a huge unary number *)
       end.

Definition holds (c : case) (o : outcome) : bool :=
  match c with
  | CLength s => outcome_eqb o (Ok (OInt (Z.of_nat (length s))))
  | CSubstring s st l =>
      match l with
      | Some n => if n <? 0
                  then match o with Ok (OStr _ true) | Ok OEmpty => true | _ => false end   (* unspecified *)
                  else outcome_eqb o (match ref_substring s st l with Some r => Ok (OStr r true) | None => Ok OEmpty end)
      | None => outcome_eqb o (match ref_substring s st l with Some r => Ok (OStr r true) | None => Ok OEmpty end)
      end
  | CIndexOf s t => outcome_eqb o (Ok (OInt (index_of s t)))
  | CToChars s => outcome_eqb o (Ok (OChars (map (fun c => [c]) s) true))
  | CStartsWith s t => outcome_eqb o (Ok (OBool (ustr_eqb (firstn (length t) s) t)))
  | CEndsWith s t => outcome_eqb o (Ok (OBool (ustr_eqb (skipn (length s - length t) s) t && Nat.leb (length t) (length s))))
  | CContains s t => outcome_eqb o (Ok (OBool (0 <=? index_of s t)))
  | CReplace s p r => outcome_eqb o (Ok (OStr (replace_ s p r) true))
  | CUpper s => match o with Ok (OStr r true) => case_agrees upper_ascii s r | _ => false end
  | CLower s => match o with Ok (OStr r true) => case_agrees lower_ascii s r | _ => false end
  | CSplit s k => if k <? 0 then true else outcome_eqb o (Ok (OStr s true))    (* cutting anywhere and joining gives s back *)
  end.
Definition kf (c : case) : N := 0%N.

Definition judge (x : N * case * outcome) : verdict :=
  let '(id, c, o) := x in
  {| v_id := id; v_agree := agrees c o; v_holds := holds c o; v_kf := kf c |}.
