(* C03/Proofs.v -- the discipline is sound: a run of operations drawn from a checked statement set never
   changes an array that existed before the run. *)
From FPV Require Import Base.Prelude C03.Model.

Lemma upd_length {A} (l : list A) i f : List.length (upd l i f) = List.length l.
Proof. revert i. induction l as [|a r IH]; intros [|i]; cbn; try reflexivity. rewrite IH. reflexivity. Qed.
Lemma nth_upd_other {A} (l : list A) i j f d : i <> j -> nth j (upd l i f) d = nth j l d.
Proof.
  revert i j. induction l as [|a r IH]; intros [|i] [|j] H; cbn; try reflexivity; try contradiction.
  apply IH. intro. subst. apply H. reflexivity.
Qed.
Lemma nth_app_old {A} (l m : list A) j d : (j < List.length l)%nat -> nth j (l ++ m) d = nth j l d.
Proof. intro H. apply app_nth1. exact H. Qed.

(* the invariant: fresh variables point at arrays made during the run; the old arrays are what they were *)
Definition inv (c : cls) (n0 : nat) (h0 : heap) (st : heap * env) : Prop :=
  let '(h, e) := st in
  (forall x, c x = true -> (n0 <= s_arr (e x))%nat) /\
  (n0 <= List.length h)%nat /\
  (forall a, (a < n0)%nat -> nth a h [] = nth a h0 []).

Lemma exec_preserves c n0 h0 st o : stmt_ok c (stmt_of o) = true -> inv c n0 h0 st -> inv c n0 h0 (exec st o).
Proof.
  destruct st as [h e]. intros Hok [Hfresh [Hlen Hold]].
  destruct o as [x cp|x y v|x y lo hi|x i v|x s]; cbn [stmt_of stmt_ok exec] in *.
  - (* alloc *)
    repeat split.
    + intros z Hz. unfold set_var. destruct (Nat.eqb z x); [cbn; lia|apply Hfresh; exact Hz].
    + rewrite app_length. lia.
    + intros a Ha. rewrite nth_app_old by lia. apply Hold. exact Ha.
  - (* append: y is fresh *)
    pose proof (Hfresh y Hok) as Hy.
    destruct (s_off (e y) + s_len (e y) <? List.length (nth (s_arr (e y)) h []))%nat.
    + repeat split.
      * intros z Hz. unfold set_var. destruct (Nat.eqb z x); [cbn; exact Hy|apply Hfresh; exact Hz].
      * rewrite upd_length. exact Hlen.
      * intros a Ha. rewrite nth_upd_other by lia. apply Hold. exact Ha.
    + repeat split.
      * intros z Hz. unfold set_var. destruct (Nat.eqb z x); [cbn; lia|apply Hfresh; exact Hz].
      * rewrite app_length. lia.
      * intros a Ha. rewrite nth_app_old by lia. apply Hold. exact Ha.
  - (* alias *)
    repeat split; try assumption.
    intros z Hz. unfold set_var. destruct (Nat.eqb z x) eqn:E; [|apply Hfresh; exact Hz].
    apply Nat.eqb_eq in E. subst z. rewrite Hz in Hok. cbn in Hok. cbn. apply Hfresh. exact Hok.
  - (* write: x is fresh *)
    pose proof (Hfresh x Hok) as Hx.
    destruct (i <? s_len (e x))%nat; [|repeat split; assumption].
    repeat split; try assumption.
    + rewrite upd_length. exact Hlen.
    + intros a Ha. rewrite nth_upd_other by lia. apply Hold. exact Ha.
  - (* a slice of unknown origin goes to a variable that is not fresh *)
    repeat split; try assumption.
    intros z Hz. unfold set_var. destruct (Nat.eqb z x) eqn:E; [|apply Hfresh; exact Hz].
    apply Nat.eqb_eq in E. subst z. rewrite Hz in Hok. discriminate.
Qed.

Lemma run_inv c (ss : list stmt) n0 h0 : check c ss = true ->
  forall ops st, (forall o, In o ops -> In (stmt_of o) ss) -> inv c n0 h0 st -> inv c n0 h0 (fold_left exec ops st).
Proof.
  intros Hc. induction ops as [|o ops IH]; intros st Hin H0; [exact H0|].
  cbn [fold_left]. apply IH.
  - intros o' Ho'. apply Hin. right. exact Ho'.
  - apply exec_preserves; [|exact H0].
    unfold check in Hc. exact (proj1 (forallb_forall _ _) Hc _ (Hin o (or_introl eq_refl))).
Qed.

Theorem discipline_sound c (ss : list stmt) : check c ss = true ->
  forall ops n0 h0 e0, (forall o, In o ops -> In (stmt_of o) ss) ->
  (forall x, c x = true -> (n0 <= s_arr (e0 x))%nat) -> (n0 <= List.length h0)%nat ->
  forall a, (a < n0)%nat -> nth a (fst (run ops (h0, e0))) [] = nth a h0 [].
Proof.
  intros Hc ops n0 h0 e0 Hin Hf Hl.
  assert (Hinv : inv c n0 h0 (run ops (h0, e0))).
  { apply (run_inv c ss n0 h0 Hc ops (h0, e0) Hin). repeat split; auto. }
  destruct (run ops (h0, e0)) as [h e]. destruct Hinv as [_ [_ Hold]]. exact Hold.
Qed.

Lemma firstn_ext {A} (d : A) : forall n (h h0 : list A), (n <= List.length h)%nat -> (n <= List.length h0)%nat ->
  (forall a, (a < n)%nat -> nth a h d = nth a h0 d) -> firstn n h = firstn n h0.
Proof.
  induction n as [|n IH]; intros h h0 Hl1 Hl2 H; [reflexivity|].
  destruct h as [|a h']; [cbn in Hl1; lia|]. destruct h0 as [|b h0']; [cbn in Hl2; lia|].
  cbn [firstn]. f_equal.
  - exact (H 0%nat ltac:(lia)).
  - apply IH; [cbn in Hl1; lia|cbn in Hl2; lia|]. intros a0 Ha0. exact (H (S a0) ltac:(lia)).
Qed.

(* the old arrays are intact as whole arrays: spare capacity included *)
Corollary old_arrays_intact c ss : check c ss = true ->
  forall ops n0 h0 e0, (forall o, In o ops -> In (stmt_of o) ss) ->
  (forall x, c x = true -> (n0 <= s_arr (e0 x))%nat) -> (n0 <= List.length h0)%nat ->
  firstn n0 (fst (run ops (h0, e0))) = firstn n0 h0.
Proof.
  intros Hc ops n0 h0 e0 Hin Hf Hl.
  assert (Hinv : inv c n0 h0 (run ops (h0, e0))).
  { apply (run_inv c ss n0 h0 Hc ops (h0, e0) Hin). repeat split; auto. }
  destruct (run ops (h0, e0)) as [h e] eqn:E. destruct Hinv as [_ [Hl' Hold]]. cbn [fst].
  apply (firstn_ext []); assumption.
Qed.

(* non-vacuity: filtering into a fresh result, as the functions of the evaluator do; and the seeded defect,
   compacting into the input, which the check rejects and which does overwrite the input's array *)
Definition filter_like : list stmt := [SAlloc 1; SAppend 1 1].                 (* var result; result = append(result, v) *)
Definition compact_in_place : list stmt := [SAlias 1 0; SAppend 1 1].          (* result := input[:0]; result = append(result, v) *)
Example filter_like_ok : check (infer 2 [0%nat] filter_like) filter_like = true.
Proof. reflexivity. Qed.
Example compact_rejected : check (infer 2 [0%nat] compact_in_place) compact_in_place = false.
Proof. reflexivity. Qed.
Example compact_overwrites :
  let h0 := [[1; 2; 2; 3]%N] in
  let e0 := fun x => if Nat.eqb x 0 then mkS 0 0 4 else mkS 1 0 0 in
  nth 0 (fst (run [OSub 1 0 0 0; OAppend 1 1 9%N] (h0, e0))) [] = [9; 2; 2; 3]%N.
Proof. reflexivity. Qed.
