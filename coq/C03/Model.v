(* C03/Model.v -- Go slices over a heap of backing arrays, and a flow-insensitive write discipline.

   A slice is a window (array, offset, length) on a backing array whose size is the capacity.  append writes
   in place when the window can grow inside its array and allocates a new array otherwise; x[i] = v, sort and
   copy write in place; y[lo:hi] and plain assignment alias.  A function body is abstracted (by go2v, from the
   Go source, regenerated on every run) into the SET of its slice statements; loops, branches and closures
   are covered because the theorem holds for every sequence of operations drawn from that set.  Variables
   are classified fresh (every value they ever hold was allocated by this function) or not (parameters,
   receivers, results of calls). *)
From FPV Require Import Base.Prelude.
From Coq Require Import String.

Definition V := N.
Record slice := mkS { s_arr : nat; s_off : nat; s_len : nat }.
Definition heap := list (list V).
Definition env := nat -> slice.

Inductive stmt :=
| SAlloc (x : nat)                 (* x = nil, T{...}, make(...), var x T *)
| SAppend (x y : nat)              (* x = append(y, ...) *)
| SAlias (x y : nat)               (* x = y, x = y[lo:hi] *)
| SWrite (x : nat)                 (* x[i] = v, sort(x), copy(x, ...) *)
| SUnknown (x : nat).              (* x = f(...) *)

Inductive op :=
| OAlloc (x : nat) (c : nat)
| OAppend (x y : nat) (v : V)
| OSub (x y : nat) (lo hi : nat)
| OWrite (x : nat) (i : nat) (v : V)
| OUnknown (x : nat) (s : slice).
Definition stmt_of (o : op) : stmt :=
  match o with
  | OAlloc x _ => SAlloc x
  | OAppend x y _ => SAppend x y
  | OSub x y _ _ => SAlias x y
  | OWrite x _ _ => SWrite x
  | OUnknown x _ => SUnknown x
  end.

Fixpoint upd {A} (l : list A) (i : nat) (f : A -> A) : list A :=
  match l, i with
  | [], _ => []
  | a :: r, O => f a :: r
  | a :: r, S i' => a :: upd r i' f
  end.
Definition set_var (e : env) (x : nat) (s : slice) : env := fun y => if Nat.eqb y x then s else e y.

Definition exec (st : heap * env) (o : op) : heap * env :=
  let '(h, e) := st in
  match o with
  | OAlloc x c => (h ++ [repeat 0%N c], set_var e x (mkS (List.length h) 0 0))
  | OAppend x y v =>
      let s := e y in
      let a := nth (s_arr s) h [] in
      if (s_off s + s_len s <? List.length a)%nat
      then (upd h (s_arr s) (fun arr => upd arr (s_off s + s_len s) (fun _ => v)), set_var e x (mkS (s_arr s) (s_off s) (S (s_len s))))
      else (h ++ [firstn (s_len s) (skipn (s_off s) a) ++ v :: repeat 0%N (S (s_len s))], set_var e x (mkS (List.length h) 0 (S (s_len s))))
  | OSub x y lo hi => let s := e y in (h, set_var e x (mkS (s_arr s) (s_off s + lo) (hi - lo)))
  | OWrite x i v =>
      let s := e x in
      if (i <? s_len s)%nat then (upd h (s_arr s) (fun arr => upd arr (s_off s + i) (fun _ => v)), e) else (h, e)
  | OUnknown x s => (h, set_var e x s)
  end.
Definition run (ops : list op) (st : heap * env) : heap * env := fold_left exec ops st.

(* ---- the discipline ----------------------------------------------------------------------------------------- *)
Definition cls := nat -> bool.          (* true: fresh *)
Definition stmt_ok (c : cls) (s : stmt) : bool :=
  match s with
  | SAlloc _ => true
  | SAppend x y => c y
  | SAlias x y => implb (c x) (c y)
  | SWrite x => c x
  | SUnknown x => negb (c x)
  end.
Definition check (c : cls) (ss : list stmt) : bool := forallb (stmt_ok c) ss.

(* classification: every variable that is no parameter starts fresh and loses that when it may receive a
   value that is not *)
Definition mem_nat (x : nat) (l : list nat) : bool := existsb (Nat.eqb x) l.
Definition demote (ss : list stmt) (bad : list nat) : list nat :=
  fold_left (fun acc s =>
    match s with
    | SAlias x y => if mem_nat y acc && negb (mem_nat x acc) then x :: acc else acc
    | SUnknown x => if mem_nat x acc then acc else x :: acc
    | _ => acc
    end) ss bad.
Fixpoint iterate {A} (n : nat) (f : A -> A) (a : A) : A := match n with O => a | S n' => iterate n' f (f a) end.
Definition infer (nvars : nat) (params : list nat) (ss : list stmt) : cls :=
  let bad := iterate (S nvars) (demote ss) params in fun x => negb (mem_nat x bad).

Definition fn := (string * nat * list nat * list stmt)%type.      (* name, number of variables, parameters, statements *)
Definition fn_ok (f : fn) : bool := let '(_, nvars, params, ss) := f in check (infer nvars params ss) ss.

(* ---- correspondence cases: what the harness observed around one Evaluate call ------------------------------- *)
Record observed := {
  ob_resources_same : bool;        (* deterministic serialisation and proto.Equal of every input resource *)
  ob_env_same : bool;              (* every environment value: elements, length *)
  ob_backing_same : bool;          (* the whole backing array of every environment collection, spare capacity included *)
  ob_input_slice_same : bool;      (* the caller's input slice *)
  ob_expression_same : bool;       (* the compiled expression evaluates to the same thing again *)
  ob_results_are_input_nodes : bool; (* every FHIR element in the result is reachable from an input by pointer, or is not a message of an input type at all *)
  ob_panicked : bool
}.
Definition case := N.              (* index of the program in the replay listing *)
Definition obs := observed.
Definition model (c : case) : observed :=
  {| ob_resources_same := true; ob_env_same := true; ob_backing_same := true; ob_input_slice_same := true;
     ob_expression_same := true; ob_results_are_input_nodes := true; ob_panicked := false |}.
Definition all_same (o : observed) : bool :=
  ob_resources_same o && ob_env_same o && ob_backing_same o && ob_input_slice_same o && ob_expression_same o && ob_results_are_input_nodes o.
Definition agrees (c : case) (o : obs) : bool := all_same o.
Definition holds (c : case) (o : obs) : bool := all_same o.
Definition kf (c : case) : N := 0%N.
Definition judge (x : N * case * obs) : verdict :=
  let '(id, c, o) := x in
  {| v_id := id; v_agree := agrees c o; v_holds := holds c o; v_kf := kf c |}.
