(* C08/ProofsDec.v -- the property predicate holds on the model when an operand is a Decimal: Add, Sub, Mul are
   exact; div and mod give the truncated quotient of the exact ratio and the matching remainder; `/` is within
   10^-16.  Exponents of any sign and size. *)
From FPV Require Import Base.Prelude Base.Int32 C08.Model C08.Proofs.
Ltac Zify.zify_post_hook ::= Z.div_mod_to_equations.

(* every power of ten of the model is 10^(max 0 x) *)
Definition P (x : Z) : Z := 10 ^ (Z.max 0 x).
Lemma pow10_P x : pow10 x = P x.
Proof. unfold pow10, P. destruct (x <? 0) eqn:E; [rewrite Z.max_l by lia; reflexivity|rewrite Z.max_r by lia; reflexivity]. Qed.
Lemma P_pos x : 0 < P x.
Proof. unfold P. apply Z.pow_pos_nonneg; lia. Qed.
Lemma P_mul a b : P a * P b = 10 ^ (Z.max 0 a + Z.max 0 b).
Proof. unfold P. rewrite Z.pow_add_r by lia. reflexivity. Qed.
(* products of powers are compared by their exponents *)
Lemma P2_eq a b c d : Z.max 0 a + Z.max 0 b = Z.max 0 c + Z.max 0 d -> P a * P b = P c * P d.
Proof. intro H. rewrite !P_mul, H. reflexivity. Qed.
Lemma P3_eq a b c d e : Z.max 0 a + Z.max 0 b + Z.max 0 c = Z.max 0 d + Z.max 0 e -> P a * P b * P c = P d * P e.
Proof. intro H. unfold P. rewrite <- !Z.pow_add_r by lia. f_equal. exact H. Qed.
Lemma P_one a : a <= 0 -> P a = 1.
Proof. intro H. unfold P. rewrite Z.max_l by lia. reflexivity. Qed.

Lemma frac_P c e : frac c e = (c * P e, P (- e)).
Proof.
  unfold frac. destruct (0 <=? e) eqn:E.
  - rewrite pow10_P, (P_one (- e)) by lia. reflexivity.
  - rewrite pow10_P, (P_one e) by lia. rewrite Z.mul_1_r. reflexivity.
Qed.
Lemma dec_is_P c e p q : dec_is c e p q = (c * P e * q =? p * P (- e)).
Proof.
  unfold dec_is. destruct (0 <=? e) eqn:E.
  - rewrite pow10_P, (P_one (- e)) by lia. rewrite Z.mul_1_r. reflexivity.
  - rewrite pow10_P, (P_one e) by lia. rewrite Z.mul_1_r. reflexivity.
Qed.
Lemma align_P c1 e1 c2 e2 : align c1 e1 c2 e2 = (c1 * P (e1 - Z.min e1 e2), c2 * P (e2 - Z.min e1 e2), Z.min e1 e2).
Proof. unfold align. rewrite !pow10_P. reflexivity. Qed.

(* the two alignment identities: the aligned coefficient, scaled back, is the operand's fraction *)
Lemma align_left c e m d : m <= e -> c * P (e - m) * P m * P (- e) * d = c * P e * d * P (- m).
Proof.
  intro H. replace (c * P (e - m) * P m * P (- e) * d) with (c * d * (P (e - m) * P m * P (- e))) by ring.
  replace (c * P e * d * P (- m)) with (c * d * (P e * P (- m))) by ring.
  f_equal. apply P3_eq. lia.
Qed.

Definition is_dec_pair (a b : num) : Prop :=
  match a, b with
  | NInt _, NInt _ => False
  | NOther, _ | _, NOther => False
  | _, _ => True
  end.

Lemma holds_add_sub_dec c1 e1 c2 e2 (sub : bool) :
  let '(a, b, m) := align c1 e1 c2 e2 in
  let '(n1, d1) := frac c1 e1 in let '(n2, d2) := frac c2 e2 in
  dec_is (if sub then a - b else a + b) m (if sub then n1 * d2 - n2 * d1 else n1 * d2 + n2 * d1) (d1 * d2) = true.
Proof.
  rewrite align_P, !frac_P, dec_is_P. apply Z.eqb_eq.
  set (m := Z.min e1 e2).
  assert (H1 := align_left c1 e1 m (P (- e2)) ltac:(unfold m; lia)).
  assert (H2 := align_left c2 e2 m (P (- e1)) ltac:(unfold m; lia)).
  destruct sub; nia.
Qed.

Lemma holds_mul_dec c1 e1 c2 e2 :
  let '(n1, d1) := frac c1 e1 in let '(n2, d2) := frac c2 e2 in
  dec_is (c1 * c2) (e1 + e2) (n1 * n2) (d1 * d2) = true.
Proof.
  rewrite !frac_P, dec_is_P. apply Z.eqb_eq.
  replace (c1 * c2 * P (e1 + e2) * (P (- e1) * P (- e2))) with (c1 * c2 * (P (e1 + e2) * P (- e1) * P (- e2))) by ring.
  replace (c1 * P e1 * (c2 * P e2) * P (- (e1 + e2))) with (c1 * c2 * (P e1 * P e2 * P (- (e1 + e2)))) by ring.
  f_equal. unfold P. rewrite <- !Z.pow_add_r by lia. f_equal. lia.
Qed.

(* ---- quotients ---------------------------------------------------------------------------------------------------- *)
Lemma nonzero_scaled c x : c <> 0 -> c * P x <> 0.
Proof. intros H E. pose proof (P_pos x). nia. Qed.

(* numerator and denominator of the library's integer division are the exact fraction's, both divided by one power of ten *)
Lemma div_parts_scale c1 e1 c2 e2 :
  let G := Z.max 0 e1 + Z.max 0 (- e2) - Z.max 0 (e1 - e2) in
  0 <= G /\ c1 * P e1 * P (- e2) = c1 * P (e1 - e2) * 10 ^ G /\ P (- e1) * (c2 * P e2) = c2 * P (- (e1 - e2)) * 10 ^ G.
Proof.
  intro G. assert (HG : 0 <= G) by (unfold G; lia). split; [exact HG|]. split.
  - replace (c1 * P e1 * P (- e2)) with (c1 * (P e1 * P (- e2))) by ring.
    replace (c1 * P (e1 - e2) * 10 ^ G) with (c1 * (P (e1 - e2) * 10 ^ G)) by ring. f_equal.
    unfold P. rewrite <- !Z.pow_add_r by lia. f_equal. unfold G. lia.
  - replace (P (- e1) * (c2 * P e2)) with (c2 * (P (- e1) * P e2)) by ring.
    replace (c2 * P (- (e1 - e2)) * 10 ^ G) with (c2 * (P (- (e1 - e2)) * 10 ^ G)) by ring. f_equal.
    unfold P. rewrite <- !Z.pow_add_r by lia. f_equal. unfold G. lia.
Qed.

Lemma dec_quot_exact c1 e1 c2 e2 : c2 <> 0 ->
  let '(n1, d1) := frac c1 e1 in let '(n2, d2) := frac c2 e2 in
  dec_quot c1 e1 c2 e2 = Z.quot (n1 * d2) (d1 * n2).
Proof.
  intro Hc. rewrite !frac_P. unfold dec_quot, div_parts. rewrite !pow10_P.
  replace (e1 - e2 + 0) with (e1 - e2) by lia.
  destruct (div_parts_scale c1 e1 c2 e2) as [HG [H1 H2]]. cbv zeta in *.
  set (G := Z.max 0 e1 + Z.max 0 (- e2) - Z.max 0 (e1 - e2)) in *.
  rewrite H1, H2. symmetry. apply Z.quot_mul_cancel_r.
  - apply nonzero_scaled. exact Hc.
  - apply Z.pow_nonzero; lia.
Qed.

(* the aligned coefficients have the same ratio *)
Lemma aligned_quot c1 e1 c2 e2 : c2 <> 0 ->
  let m := Z.min e1 e2 in
  let '(n1, d1) := frac c1 e1 in let '(n2, d2) := frac c2 e2 in
  Z.quot (c1 * P (e1 - m)) (c2 * P (e2 - m)) = Z.quot (n1 * d2) (d1 * n2).
Proof.
  intros Hc m. rewrite !frac_P.
  set (G := Z.max 0 (- e1) + Z.max 0 (- e2) + m).
  assert (HG : 0 <= G) by (unfold G, m; lia).
  assert (H1 : c1 * P e1 * P (- e2) = c1 * P (e1 - m) * 10 ^ G).
  { replace (c1 * P e1 * P (- e2)) with (c1 * (P e1 * P (- e2))) by ring.
    replace (c1 * P (e1 - m) * 10 ^ G) with (c1 * (P (e1 - m) * 10 ^ G)) by ring. f_equal.
    unfold P. rewrite <- !Z.pow_add_r by (unfold m; lia). f_equal. unfold G, m. lia. }
  assert (H2 : P (- e1) * (c2 * P e2) = c2 * P (e2 - m) * 10 ^ G).
  { replace (P (- e1) * (c2 * P e2)) with (c2 * (P (- e1) * P e2)) by ring.
    replace (c2 * P (e2 - m) * 10 ^ G) with (c2 * (P (e2 - m) * 10 ^ G)) by ring. f_equal.
    unfold P. rewrite <- !Z.pow_add_r by (unfold m; lia). f_equal. unfold G, m. lia. }
  rewrite H1, H2. symmetry. apply Z.quot_mul_cancel_r.
  - apply nonzero_scaled. exact Hc.
  - apply Z.pow_nonzero; lia.
Qed.

Lemma holds_mod_dec c1 e1 c2 e2 : c2 <> 0 ->
  let '(a, b, m) := align c1 e1 c2 e2 in
  let '(n1, d1) := frac c1 e1 in let '(n2, d2) := frac c2 e2 in
  dec_is (Z.rem a b) m (n1 * d2 - n2 * d1 * Z.quot (n1 * d2) (d1 * n2)) (d1 * d2) = true.
Proof.
  intro Hc. pose proof (aligned_quot c1 e1 c2 e2 Hc) as Hq. cbv zeta in Hq.
  rewrite align_P. rewrite !frac_P in *. rewrite dec_is_P. apply Z.eqb_eq.
  set (m := Z.min e1 e2) in *.
  set (a := c1 * P (e1 - m)) in *. set (b := c2 * P (e2 - m)) in *.
  rewrite <- Hq. set (t := Z.quot a b).
  assert (Hb : b <> 0) by (apply nonzero_scaled; exact Hc).
  assert (Hr : Z.rem a b = a - b * t) by (pose proof (Z.quot_rem' a b); unfold t; lia).
  rewrite Hr.
  assert (H1 := align_left c1 e1 m (P (- e2)) ltac:(unfold m; lia)).
  assert (H2 := align_left c2 e2 m (P (- e1)) ltac:(unfold m; lia)).
  fold a in H1. fold b in H2.
  transitivity (a * P m * P (- e1) * P (- e2) - t * (b * P m * P (- e2) * P (- e1))); [ring|].
  rewrite H1, H2. ring.
Qed.

(* ---- `/`: within 10^-16 of the exact ratio ------------------------------------------------------------------------- *)
Lemma holds_div_dec c1 e1 c2 e2 : c2 <> 0 ->
  let '(n1, d1) := frac c1 e1 in let '(n2, d2) := frac c2 e2 in
  match dec_div c1 e1 c2 e2 with
  | NDec c e => dec_within16 c e (n1 * d2) (d1 * n2) = true
  | _ => False
  end.
Proof.
  intro Hc. rewrite !frac_P. unfold dec_div, div_parts. rewrite !pow10_P.
  set (k := e1 - e2 + 16). set (n := c1 * P k). set (d := c2 * P (- k)).
  unfold dec_within16. replace (16 + -16) with 0 by lia. cbn [Z.leb Z.compare]. rewrite !pow10_P.
  replace (P 0) with 1 by reflexivity. rewrite Z.mul_1_r.
  set (R := round_half_away n d). set (p := c1 * P e1 * P (- e2)). set (q := P (- e1) * (c2 * P e2)).
  assert (Hd : d <> 0) by (apply nonzero_scaled; exact Hc).
  pose proof (round_half_away_bound n d Hd) as Hb. fold R in Hb.
  (* the library's fraction is the exact one scaled by 10^16 *)
  assert (Hx : n * q = p * P 16 * d).
  { unfold n, q, p, d.
    replace (c1 * P k * (P (- e1) * (c2 * P e2))) with (c1 * c2 * (P k * P (- e1) * P e2)) by ring.
    replace (c1 * P e1 * P (- e2) * P 16 * (c2 * P (- k))) with (c1 * c2 * (P e1 * P (- e2) * P 16 * P (- k))) by ring.
    f_equal. unfold P. rewrite <- !Z.pow_add_r by lia. f_equal. unfold k. lia. }
  apply Z.leb_le.
  assert (Hk : (R * q - p * P 16) * d = q * (R * d - n)) by nia.
  assert (Hab : Z.abs (R * q - p * P 16) * Z.abs d = Z.abs q * Z.abs (R * d - n)) by (rewrite <- !Z.abs_mul; f_equal; exact Hk).
  assert (Hdpos : 0 < Z.abs d) by lia.
  assert (H2 : 2 * Z.abs (R * q - p * P 16) * Z.abs d <= Z.abs q * Z.abs d).
  { rewrite <- Z.mul_assoc, Hab. replace (2 * (Z.abs q * Z.abs (R * d - n))) with (Z.abs q * (2 * Z.abs (R * d - n))) by ring.
    apply Z.mul_le_mono_nonneg_l; [apply Z.abs_nonneg|exact Hb]. }
  assert (H3 : 2 * Z.abs (R * q - p * P 16) <= Z.abs q) by (apply (Z.mul_le_mono_pos_r _ _ (Z.abs d)); [exact Hdpos|exact H2]).
  pose proof (Z.abs_nonneg (R * q - p * P 16)). lia.
Qed.

(* ---- assembly: binary operators with at least one Decimal operand ------------------------------------------------- *)
Lemma frac_num_zero c e : (fst (frac c e) =? 0) = (c =? 0).
Proof.
  rewrite frac_P. cbn [fst]. pose proof (P_pos e).
  destruct (c =? 0) eqn:E; [apply Z.eqb_eq in E; subst; apply Z.eqb_eq; lia|].
  apply Z.eqb_neq in E. apply Z.eqb_neq. nia.
Qed.

Lemma holds_dec_binop op c1 e1 c2 e2 (ints : bool) : ints = false ->
  (let '(n1, d1) := frac c1 e1 in let '(n2, d2) := frac c2 e2 in
   match op with
   | Add | Sub | Mul =>
       let '(p, q) := match op with
                      | Add => (n1 * d2 + n2 * d1, d1 * d2)
                      | Sub => (n1 * d2 - n2 * d1, d1 * d2)
                      | _ => (n1 * n2, d1 * d2) end in
       match dec_binop op c1 e1 c2 e2 with Ok (Some (NDec c e)) => dec_is c e p q | _ => false end
   | Div =>
       if n2 =? 0 then match dec_binop op c1 e1 c2 e2 with Ok None => true | _ => false end
       else match dec_binop op c1 e1 c2 e2 with Ok (Some (NDec c e)) => dec_within16 c e (n1 * d2) (d1 * n2) | _ => false end
   | IDiv =>
       if n2 =? 0 then match dec_binop op c1 e1 c2 e2 with Ok None => true | _ => false end
       else let t := Z.quot (n1 * d2) (d1 * n2) in
            match dec_binop op c1 e1 c2 e2 with
            | Ok (Some (NInt r)) => in32b t && (r =? t)
            | Ok None => negb (in32b t)
            | _ => false
            end
   | Mod =>
       if n2 =? 0 then match dec_binop op c1 e1 c2 e2 with Ok None => true | _ => false end
       else let t := Z.quot (n1 * d2) (d1 * n2) in
            match dec_binop op c1 e1 c2 e2 with Ok (Some (NDec c e)) => dec_is c e (n1 * d2 - n2 * d1 * t) (d1 * d2) | _ => false end
   end) = true.
Proof.
  intros _. pose proof (frac_num_zero c2 e2) as Hz.
  destruct (frac c1 e1) as [n1 d1] eqn:F1. destruct (frac c2 e2) as [n2 d2] eqn:F2. cbn [fst] in Hz.
  destruct op; cbn [dec_binop].
  - pose proof (holds_add_sub_dec c1 e1 c2 e2 false) as H. unfold dec_add. destruct (align c1 e1 c2 e2) as [[a b] m]. rewrite F1, F2 in H. exact H.
  - pose proof (holds_add_sub_dec c1 e1 c2 e2 true) as H. unfold dec_sub. destruct (align c1 e1 c2 e2) as [[a b] m]. rewrite F1, F2 in H. exact H.
  - pose proof (holds_mul_dec c1 e1 c2 e2) as H. unfold dec_mul. rewrite F1, F2 in H. exact H.
  - rewrite Hz. destruct (c2 =? 0) eqn:Ec; [reflexivity|]. apply Z.eqb_neq in Ec.
    pose proof (holds_div_dec c1 e1 c2 e2 Ec) as H. rewrite F1, F2 in H. destruct (dec_div c1 e1 c2 e2); try contradiction. exact H.
  - rewrite Hz. destruct (c2 =? 0) eqn:Ec; [reflexivity|]. apply Z.eqb_neq in Ec.
    pose proof (dec_quot_exact c1 e1 c2 e2 Ec) as H. rewrite F1, F2 in H. rewrite <- H.
    unfold int_or_empty. destruct (in32b (dec_quot c1 e1 c2 e2)) eqn:E; cbn; [rewrite Z.eqb_refl; reflexivity|reflexivity].
  - rewrite Hz. destruct (c2 =? 0) eqn:Ec; [reflexivity|]. apply Z.eqb_neq in Ec.
    pose proof (holds_mod_dec c1 e1 c2 e2 Ec) as H. unfold dec_rem. destruct (align c1 e1 c2 e2) as [[a b] m]. rewrite F1, F2 in H. exact H.
Qed.

(* for every pair of numbers of which at least one is a Decimal, every operator: the model satisfies the property *)
Theorem holds_model_dec_bin op a b : is_dec_pair a b ->
  holds (CBin op a b) (model (CBin op a b)) = true.
Proof.
  intro Hp. cbn [holds model]. unfold holds_bin.
  destruct a as [i|c1 e1|], b as [j|c2 e2|]; cbn in Hp; try contradiction; cbn [as_dec is_int andb arith].
  - pose proof (holds_dec_binop op i 0 c2 e2 false eq_refl) as H.
    destruct (frac i 0) as [n1 d1], (frac c2 e2) as [n2 d2]. destruct op; exact H.
  - pose proof (holds_dec_binop op c1 e1 j 0 false eq_refl) as H.
    destruct (frac c1 e1) as [n1 d1], (frac j 0) as [n2 d2]. destruct op; exact H.
  - pose proof (holds_dec_binop op c1 e1 c2 e2 false eq_refl) as H.
    destruct (frac c1 e1) as [n1 d1], (frac c2 e2) as [n2 d2]. destruct op; exact H.
Qed.

(* ---- unary operators on a Decimal ------------------------------------------------------------------------------------ *)
Lemma round_half_away_exact x d : d <> 0 -> round_half_away (x * d) d = x.
Proof.
  intro Hd. unfold round_half_away. rewrite Z.quot_mul by exact Hd. rewrite Z.rem_mul by exact Hd.
  cbn [Z.abs Z.mul]. destruct (0 <? Z.abs d) eqn:E; [reflexivity|]. apply Z.ltb_ge in E. lia.
Qed.
Lemma sgn_scale n g : 0 < g -> sgn (n * g) = sgn n.
Proof. intro Hg. unfold sgn. destruct (n <? 0) eqn:E1, (n * g <? 0) eqn:E2; try nia; try reflexivity; destruct (n =? 0) eqn:E3, (n * g =? 0) eqn:E4; try nia; reflexivity. Qed.
Lemma round_half_away_scale n d g : d <> 0 -> 0 < g -> round_half_away (n * g) (d * g) = round_half_away n d.
Proof.
  intros Hd Hg. unfold round_half_away.
  rewrite Z.quot_mul_cancel_r by lia. rewrite Z.mul_rem_distr_r by lia.
  rewrite !sgn_scale by exact Hg. rewrite !Z.abs_mul, (Z.abs_eq g) by lia.
  destruct (2 * Z.abs (Z.rem n d) <? Z.abs d) eqn:E1, (2 * (Z.abs (Z.rem n d) * g) <? Z.abs d * g) eqn:E2; try reflexivity; nia.
Qed.

Theorem holds_model_dec_un op c e : holds (CUn op (NDec c e)) (model (CUn op (NDec c e))) = true.
Proof.
  cbn [holds model]. unfold holds_un. cbn [as_dec is_int unary]. rewrite frac_P. cbv beta iota.
  pose proof (P_pos e) as Hpe. pose proof (P_pos (- e)) as Hpn.
  destruct op as [| | | | |p]; cbn [unary]; cbv beta iota.
  - rewrite dec_is_P. apply Z.eqb_eq. ring.
  - rewrite dec_is_P. apply Z.eqb_eq. rewrite Z.abs_mul, (Z.abs_eq (P e)) by lia. ring.
  - (* ceiling *)
    assert (E : dec_ceil c e = - (- (c * P e) / P (- e))).
    { unfold dec_ceil. destruct (0 <=? e) eqn:E.
      - rewrite pow10_P, (P_one (- e)) by lia. rewrite Z.div_1_r. lia.
      - rewrite pow10_P, (P_one e) by lia. rewrite Z.mul_1_r. reflexivity. }
    rewrite <- E. unfold int_or_empty. destruct (in32b (dec_ceil c e)); cbn; [rewrite Z.eqb_refl|]; reflexivity.
  - assert (E : dec_floor c e = c * P e / P (- e)).
    { unfold dec_floor. destruct (0 <=? e) eqn:E.
      - rewrite pow10_P, (P_one (- e)) by lia. rewrite Z.div_1_r. reflexivity.
      - rewrite pow10_P, (P_one e) by lia. rewrite Z.mul_1_r. reflexivity. }
    rewrite <- E. unfold int_or_empty. destruct (in32b (dec_floor c e)); cbn; [rewrite Z.eqb_refl|]; reflexivity.
  - assert (E : dec_trunc c e = Z.quot (c * P e) (P (- e))).
    { unfold dec_trunc. destruct (0 <=? e) eqn:E.
      - rewrite pow10_P, (P_one (- e)) by lia. rewrite Z.quot_1_r. reflexivity.
      - rewrite pow10_P, (P_one e) by lia. rewrite Z.mul_1_r. reflexivity. }
    rewrite <- E. unfold int_or_empty. destruct (in32b (dec_trunc c e)); cbn; [rewrite Z.eqb_refl|]; reflexivity.
  - (* round(p) *)
    destruct (p <? 0) eqn:Ep; [reflexivity|]. apply Z.ltb_ge in Ep.
    unfold dec_round. rewrite !pow10_P. pose proof (P_pos p) as Hpp.
    destruct (- p <=? e) eqn:E1.
    + apply Z.leb_le in E1. rewrite dec_is_P. apply Z.eqb_eq.
      (* the quotient is an integer: c * 10^(p + e) when e < 0, everything when e >= 0 *)
      assert (Ht : round_half_away (c * P e * P p) (P (- e)) * P (- e) = c * P e * P p).
      { assert (Hx : c * P e * P p = c * 10 ^ (Z.max 0 e + p - Z.max 0 (- e)) * P (- e)).
        { replace (c * 10 ^ (Z.max 0 e + p - Z.max 0 (- e)) * P (- e)) with (c * (10 ^ (Z.max 0 e + p - Z.max 0 (- e)) * P (- e))) by ring.
          replace (c * P e * P p) with (c * (P e * P p)) by ring. f_equal.
          unfold P. rewrite <- !Z.pow_add_r by lia. f_equal. lia. }
        rewrite Hx at 1. rewrite round_half_away_exact by lia. symmetry. exact Hx. }
      nia.
    + apply Z.leb_gt in E1. rewrite dec_is_P. apply Z.eqb_eq.
      rewrite Z.opp_involutive, (P_one e), (P_one (- p)) by lia. rewrite !Z.mul_1_r.
      assert (Hs : round_half_away (c * P p) (P (- e)) = round_half_away c (P (- p - e))).
      { assert (Hd : P (- e) = P (- p - e) * P p).
        { unfold P. rewrite <- Z.pow_add_r by lia. f_equal. lia. }
        pose proof (P_pos (- p - e)). rewrite Hd. apply round_half_away_scale; lia. }
      rewrite Hs. reflexivity.
Qed.

(* round(p) of an Integer *)
Lemma holds_model_int_round p i : holds (CUn (Round p) (NInt i)) (model (CUn (Round p) (NInt i))) = true.
Proof.
  cbn [holds model]. unfold holds_un. cbn [as_dec is_int unary]. rewrite frac_P. cbv beta iota.
  destruct (p <? 0) eqn:Ep; [reflexivity|]. apply Z.ltb_ge in Ep.
  rewrite dec_is_P, !pow10_P. apply Z.eqb_eq.
  replace (P 0) with 1 by reflexivity. replace (P (- 0)) with 1 by reflexivity. rewrite !Z.mul_1_r.
  replace (i * P p) with (i * P p * 1) at 2 by ring. rewrite round_half_away_exact by lia. reflexivity.
Qed.

(* the whole statement: on well-formed operands (Integers are int32) the model satisfies the property predicate *)
Theorem holds_model c : (match c with CBin _ a b => wf_num a /\ wf_num b | CUn _ a => wf_num a end) -> holds c (model c) = true.
Proof.
  destruct c as [op a b|op a].
  - intros [Ha Hb]. destruct a as [i|c1 e1|], b as [j|c2 e2|]; cbn in Ha, Hb; try contradiction.
    + apply holds_model_int_bin; assumption.
    + apply holds_model_dec_bin. exact I.
    + apply holds_model_dec_bin. exact I.
    + apply holds_model_dec_bin. exact I.
  - intro Ha. destruct a as [i|c e|]; cbn in Ha; try contradiction.
    + destruct op as [| | | | |p]; [exact (holds_model_int_un Neg i Ha)|exact (holds_model_int_un Abs i Ha)|exact (holds_model_int_un Ceiling i Ha)
                                  |exact (holds_model_int_un Floor i Ha)|exact (holds_model_int_un Truncate i Ha)|apply holds_model_int_round].
    + apply holds_model_dec_un.
Qed.
