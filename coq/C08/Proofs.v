(* C08/Proofs.v *)
From FPV Require Import Base.Prelude Base.Int32 C08.Model.
Ltac Zify.zify_post_hook ::= Z.div_mod_to_equations.

Lemma pow10_0 : pow10 0 = 1. Proof. reflexivity. Qed.
Lemma pow10_pos n : 0 < pow10 n.
Proof. unfold pow10. destruct (n <? 0) eqn:E; [lia|]. apply Z.pow_pos_nonneg; lia. Qed.

(* ---- round_half_away: within half a unit, ties away from zero ---------------- *)
Lemma round_half_away_bound n d : d <> 0 ->
  2 * Z.abs (round_half_away n d * d - n) <= Z.abs d.
Proof.
  intro Hd. unfold round_half_away.
  pose proof (Z.quot_rem' n d) as Hqr.
  pose proof (Z.rem_bound_abs n d Hd) as Hrb.
  assert (Hsign: Z.rem n d = 0 \/ (0 < n /\ 0 < Z.rem n d) \/ (n < 0 /\ Z.rem n d < 0)).
  { destruct (Z.eq_dec (Z.rem n d) 0) as [E|E]; [left; exact E|right].
    destruct (Z_lt_le_dec n 0) as [Hn|Hn].
    - right. split; [exact Hn|]. pose proof (Z.rem_nonpos n d Hd ltac:(lia)). lia.
    - left. pose proof (Z.rem_nonneg n d Hd Hn). split; lia. }
  destruct (2 * Z.abs (Z.rem n d) <? Z.abs d) eqn:E.
  - apply Z.ltb_lt in E. replace (n ÷ d * d - n) with (- Z.rem n d) by lia. rewrite Z.abs_opp. lia.
  - apply Z.ltb_ge in E.
    unfold sgn.
    destruct Hsign as [H0|[[Hn Hr]|[Hn Hr]]].
    + rewrite H0 in E. cbn in E. lia.
    + destruct (n <? 0) eqn:En; [lia|]. destruct (n =? 0) eqn:En0; [lia|].
      destruct (d <? 0) eqn:Ed; [|destruct (d =? 0) eqn:Ed0; [lia|]]; nia.
    + destruct (n <? 0) eqn:En; [|lia].
      destruct (d <? 0) eqn:Ed; [|destruct (d =? 0) eqn:Ed0; [lia|]]; nia.
Qed.

(* ---- Integer x Integer ---------------------------------------------------------- *)
Lemma in32b_true z : in32 z -> in32b z = true. Proof. apply in32b_spec. Qed.

Lemma int_add_exact i j : int_binop Add i j = if in32b (i + j) then Ok (Some (NInt (i + j))) else Ok None.
Proof. reflexivity. Qed.
Lemma int_sub_exact i j : int_binop Sub i j = if in32b (i - j) then Ok (Some (NInt (i - j))) else Ok None.
Proof. reflexivity. Qed.
Lemma int_mul_exact i j : int_binop Mul i j = if in32b (i * j) then Ok (Some (NInt (i * j))) else Ok None.
Proof. reflexivity. Qed.

Lemma div_by_zero_empty op a b :
  (op = Div \/ op = IDiv \/ op = Mod) -> fst (as_dec b) = 0 -> a <> NOther -> b <> NOther -> arith op a b = Ok None.
Proof.
  intros Hop Hz Ha Hb. destruct a as [i|c1 e1|], b as [j|c2 e2|]; cbn in Hz, Ha, Hb; try contradiction; subst;
  destruct Hop as [->|[->| ->]]; reflexivity.
Qed.

Lemma int_div_mod_identity i j r q : j <> 0 ->
  int_binop IDiv i j = Ok (Some (NInt q)) -> int_binop Mod i j = Ok (Some (NInt r)) -> i = q * j + r.
Proof.
  intros Hj. cbn. assert (E: j =? 0 = false) by lia. rewrite E. unfold int_or_empty.
  destruct (in32b (i ÷ j)); intros H1 H2; inversion H1; inversion H2; subst.
  pose proof (Z.quot_rem' i j). lia.
Qed.

Lemma min_div_minus1_empty : arith IDiv (NInt min32) (NInt (-1)) = Ok None.
Proof. reflexivity. Qed.
Lemma negate_min_empty : unary Neg (NInt min32) = Ok None.
Proof. reflexivity. Qed.
Lemma abs_min_empty : unary Abs (NInt min32) = Ok None.
Proof. reflexivity. Qed.

(* every Integer result of the model is an int32: never a wrapped number.  All Integer-typed
   results flow through int_or_empty, except Mod on two int32 (|rem| <= |i|) and the identity
   cases of ceiling/floor/truncate on an Integer. *)
Lemma int_or_empty_in_range z r : int_or_empty z = Ok (Some (NInt r)) -> in32 r /\ r = z.
Proof. unfold int_or_empty. destruct (in32b z) eqn:E; intro H; inversion H; subst. split; [apply in32b_spec; exact E|reflexivity]. Qed.
Lemma int_or_empty_out_of_range z : ~ in32 z -> int_or_empty z = Ok None.
Proof. intro H. unfold int_or_empty. apply in32b_false in H. rewrite H. reflexivity. Qed.
Lemma int_mod_in_range i j : in32 i -> j <> 0 -> in32 (Z.rem i j).
Proof.
  unfold in32. intros Hi Hj.
  assert (H: Z.abs (Z.rem i j) <= Z.abs i).
  { rewrite <- Z.rem_abs by exact Hj. apply Z.rem_le; lia. }
  lia.
Qed.

(* the property predicate holds on the model for Integer operands *)
Lemma frac_int i : frac i 0 = (i, 1).
Proof. unfold frac. cbn. rewrite Z.mul_1_r. reflexivity. Qed.

Lemma holds_model_int_bin op i j : in32 i -> in32 j -> holds (CBin op (NInt i) (NInt j)) (model (CBin op (NInt i) (NInt j))) = true.
Proof.
  intros Hi Hj. cbn [holds model arith holds_bin as_dec is_int andb].
  rewrite !frac_int. rewrite !Z.mul_1_r, ?Z.mul_1_l.
  destruct op; cbn [int_binop].
  - unfold int_or_empty. destruct (in32b (i + j)) eqn:E; cbn; [rewrite Z.eqb_refl|]; reflexivity.
  - unfold int_or_empty. destruct (in32b (i - j)) eqn:E; cbn; [rewrite Z.eqb_refl|]; reflexivity.
  - unfold int_or_empty. destruct (in32b (i * j)) eqn:E; cbn; [rewrite Z.eqb_refl|]; reflexivity.
  - destruct (j =? 0) eqn:Ej; [reflexivity|].
    unfold dec_div, div_parts, dec_within16.
    replace (0 - 0 + 16) with 16 by lia. replace (16 + -16) with 0 by lia.
    replace (0 <=? 0) with true by reflexivity. rewrite pow10_0.
    replace (pow10 (- (16))) with 1 by reflexivity.
    rewrite !Z.mul_1_r.
    apply Z.leb_le.
    pose proof (round_half_away_bound (i * pow10 16) j ltac:(lia)). lia.
  - destruct (j =? 0) eqn:Ej; [reflexivity|].
    unfold int_or_empty. destruct (in32b (i ÷ j)) eqn:E; cbn; [rewrite Z.eqb_refl|]; reflexivity.
  - destruct (j =? 0) eqn:Ej; [reflexivity|].
    apply Z.eqb_eq. pose proof (Z.quot_rem' i j). lia.
Qed.

Lemma holds_model_int_un op i : in32 i ->
  match op with Round _ => True | _ => holds (CUn op (NInt i)) (model (CUn op (NInt i))) = true end.
Proof.
  intros Hi. destruct op; cbn [holds model unary holds_un as_dec is_int]; try exact I; rewrite frac_int.
  - unfold int_or_empty. destruct (in32b (- i)) eqn:E; cbn; [rewrite Z.eqb_refl|]; reflexivity.
  - unfold int_or_empty. destruct (in32b (Z.abs i)) eqn:E; cbn; [rewrite Z.eqb_refl|]; reflexivity.
  - replace (- (- i / 1)) with i by (rewrite Z.div_1_r; lia). rewrite (in32b_true i Hi), Z.eqb_refl. reflexivity.
  - rewrite Z.div_1_r. rewrite (in32b_true i Hi), Z.eqb_refl. reflexivity.
  - rewrite Z.quot_1_r. rewrite (in32b_true i Hi), Z.eqb_refl. reflexivity.
Qed.
