From FPV Require Import Base.Prelude C18.Model C18.Proofs.
From FPV Require C01.Proofs.

Lemma tree_eqb_refl : forall t, tree_eqb t t = true.
Proof.
  fix IH 1. intros [ty h kids]. cbn [tree_eqb]. rewrite !Z.eqb_refl. cbn [andb].
  induction kids as [|[n c] r IHr]; [reflexivity|].
  rewrite Z.eqb_refl, (IH c). cbn [andb]. exact IHr.
Qed.

(* what the model expects of a call passes the property predicate: an error leaves the tree as it was, a success
   is the operation on the tree -- outside the known finding (targets made by the evaluator) *)
Theorem model_holds_patch c t : kf (c, t) = 0%N -> o_eval_err c <> 10%N ->
  holds (c, t) (fst (expected c t), snd (expected c t), true) = true.
Proof.
  intros Hk He. unfold kf in Hk. cbn [fst] in Hk. destruct (o_in_any c) eqn:Ea; [discriminate|].
  unfold holds. destruct (expected c t) as [code after] eqn:E. cbn [fst snd].
  pose proof (failure_is_atomic c t) as Hat. rewrite E in Hat. cbn [fst snd] in Hat.
  pose proof (C01.Proofs.patch_expected_never_crashes c t He) as Hnc. rewrite E in Hnc. cbn [fst] in Hnc.
  assert (Hn10 : (code =? 10)%N = false) by (apply N.eqb_neq; exact Hnc). rewrite Hn10.
  destruct (code =? 0)%N eqn:E0.
  - apply N.eqb_eq in E0. subst code. rewrite ?N.eqb_refl, tree_eqb_refl, Ea. reflexivity.
  - apply N.eqb_neq in E0. rewrite (Hat E0), tree_eqb_refl. cbn. reflexivity.
Qed.
