(* C18/Proofs.v *)
From FPV Require Import Base.Prelude C18.Model.

(* ---- one node's children ------------------------------------------------------------------------------------ *)
Lemma splice_roundtrip n i (F G : tree -> option (list tree)) : forall kids kids' c c1,
  nth_key n i kids = Some c -> splice_key n i F kids = Some kids' -> F c = Some [c1] -> G c1 = Some [c] ->
  splice_key n i G kids' = Some kids.
Proof.
  revert i. induction kids as [|[k x] r IH] using list_ind; intros; try discriminate.
Abort.

Lemma splice_roundtrip n (F G : tree -> option (list tree)) : forall kids i kids' c c1,
  nth_key n i kids = Some c -> splice_key n i F kids = Some kids' -> F c = Some [c1] -> G c1 = Some [c] ->
  splice_key n i G kids' = Some kids.
Proof.
  induction kids as [|[k x] r IH]; intros i kids' c c1 Hn Hs HF HG; [discriminate|].
  cbn [nth_key splice_key] in *. destruct (k =? n) eqn:E.
  - destruct i as [|i'].
    + inversion Hn; subst x. rewrite HF in Hs. cbn in Hs. inversion Hs; subst kids'.
      cbn [splice_key]. apply Z.eqb_eq in E. subst k. rewrite Z.eqb_refl, HG. reflexivity.
    + destruct (splice_key n i' F r) as [r'|] eqn:Er; [|discriminate]. cbn in Hs. inversion Hs; subst kids'.
      cbn [splice_key]. rewrite E, (IH i' r' c c1 Hn Er HF HG). reflexivity.
  - destruct (splice_key n i F r) as [r'|] eqn:Er; [|discriminate]. cbn in Hs. inversion Hs; subst kids'.
    cbn [splice_key]. rewrite E, (IH i r' c c1 Hn Er HF HG). reflexivity.
Qed.

Lemma splice_read_back n (F : tree -> option (list tree)) : forall kids i kids' c c1,
  nth_key n i kids = Some c -> splice_key n i F kids = Some kids' -> F c = Some [c1] -> nth_key n i kids' = Some c1.
Proof.
  induction kids as [|[k x] r IH]; intros i kids' c c1 Hn Hs HF; [discriminate|].
  cbn [nth_key splice_key] in *. destruct (k =? n) eqn:E.
  - destruct i as [|i'].
    + inversion Hn; subst x. rewrite HF in Hs. cbn in Hs. inversion Hs; subst kids'.
      cbn [nth_key]. apply Z.eqb_eq in E. subst k. rewrite Z.eqb_refl. reflexivity.
    + destruct (splice_key n i' F r) as [r'|] eqn:Er; [|discriminate]. cbn in Hs. inversion Hs; subst kids'.
      cbn [nth_key]. rewrite E. exact (IH i' r' c c1 Hn Er HF).
  - destruct (splice_key n i F r) as [r'|] eqn:Er; [|discriminate]. cbn in Hs. inversion Hs; subst kids'.
    cbn [nth_key]. rewrite E. exact (IH i r' c c1 Hn Er HF).
Qed.

(* children with another key, or at another position of the same key, are untouched by a one-for-one splice *)
Lemma splice_frame n (F : tree -> option (list tree)) : forall kids i kids' m j,
  splice_key n i F kids = Some kids' -> (forall c cs, F c = Some cs -> exists c1, cs = [c1]) ->
  (m <> n \/ j <> i) -> nth_key m j kids' = nth_key m j kids.
Proof.
  induction kids as [|[k x] r IH]; intros i kids' m j Hs H1 Hd; [discriminate|].
  cbn [splice_key] in Hs. destruct (k =? n) eqn:E.
  - destruct i as [|i'].
    + destruct (F x) as [cs|] eqn:EF; [|discriminate]. destruct (H1 _ _ EF) as [c1 ->]. cbn in Hs. inversion Hs; subst kids'.
      cbn [nth_key]. apply Z.eqb_eq in E. subst k. destruct (n =? m) eqn:Em; [|reflexivity].
      apply Z.eqb_eq in Em. subst m. destruct j as [|j']; [destruct Hd as [Hd|Hd]; contradiction|reflexivity].
    + destruct (splice_key n i' F r) as [r'|] eqn:Er; [|discriminate]. cbn in Hs. inversion Hs; subst kids'.
      cbn [nth_key]. destruct (k =? m) eqn:Em.
      * destruct j as [|j']; [reflexivity|]. apply (IH i' r' m j' Er H1).
        apply Z.eqb_eq in E, Em. subst. destruct Hd as [Hd|Hd]; [left; exact Hd|right; congruence].
      * apply (IH i' r' m j Er H1). destruct Hd as [Hd|Hd]; [left; exact Hd|].
        apply Z.eqb_eq in E. subst k. left. intro. subst m. rewrite Z.eqb_refl in Em. discriminate.
  - destruct (splice_key n i F r) as [r'|] eqn:Er; [|discriminate]. cbn in Hs. inversion Hs; subst kids'.
    cbn [nth_key]. destruct (k =? m) eqn:Em.
    + destruct j as [|j']; [reflexivity|]. apply (IH i r' m j' Er H1).
      destruct Hd as [Hd|Hd]; [left; exact Hd|].
      left. apply Z.eqb_eq in Em. subst m. intro. subst k. rewrite Z.eqb_refl in E. discriminate.
    + apply (IH i r' m j Er H1 Hd).
Qed.

(* sorted children: keys do not decrease *)
Fixpoint sorted_keys (kids : list (Z * tree)) : bool :=
  match kids with
  | [] => true
  | (k, _) :: r => match r with [] => true | (k2, _) :: _ => (k <=? k2) && sorted_keys r end
  end.
Lemma sorted_tail k c r : sorted_keys ((k, c) :: r) = true -> sorted_keys r = true.
Proof. cbn [sorted_keys]. destruct r as [|[k2 c2] r']; [reflexivity|]. intro H. apply andb_prop in H as [_ H]. exact H. Qed.
Lemma sorted_count_zero n : forall kids k c, sorted_keys ((k, c) :: kids) = true -> n < k -> count_key n ((k, c) :: kids) = 0%nat.
Proof.
  unfold count_key. induction kids as [|[k2 c2] r IH]; intros k c Hs Hlt; cbn [filter fst].
  - destruct (k =? n) eqn:E; [apply Z.eqb_eq in E; lia|reflexivity].
  - destruct (k =? n) eqn:E; [apply Z.eqb_eq in E; lia|].
    cbn [sorted_keys] in Hs. apply andb_prop in Hs as [Hk Hs]. apply Z.leb_le in Hk.
    apply (IH k2 c2 Hs). lia.
Qed.

(* add then delete the added child: the children are as before *)
Lemma delete_added n v : forall kids, sorted_keys kids = true ->
  splice_key n (count_key n kids) (fun _ => Some []) (add_key n v kids) = Some kids.
Proof.
  induction kids as [|[k c] r IH]; intro Hs.
  - cbn. rewrite Z.eqb_refl. reflexivity.
  - cbn [add_key]. destruct (k <=? n) eqn:Ele.
    + apply Z.leb_le in Ele. pose proof (sorted_tail _ _ _ Hs) as Hr. specialize (IH Hr).
      unfold count_key in *. cbn [filter fst]. destruct (k =? n) eqn:E; cbn [List.length splice_key]; rewrite E, IH; reflexivity.
    + apply Z.leb_gt in Ele. rewrite (sorted_count_zero n r k c Hs Ele).
      cbn [splice_key]. rewrite Z.eqb_refl. reflexivity.
Qed.
Lemma added_is_last n v : forall kids, sorted_keys kids = true ->
  nth_key n (count_key n kids) (add_key n v kids) = Some v.
Proof.
  induction kids as [|[k c] r IH]; intro Hs.
  - cbn. rewrite Z.eqb_refl. reflexivity.
  - cbn [add_key]. destruct (k <=? n) eqn:Ele.
    + pose proof (sorted_tail _ _ _ Hs) as Hr. specialize (IH Hr).
      unfold count_key in *. cbn [filter fst]. destruct (k =? n) eqn:E; cbn [List.length nth_key]; rewrite E, IH; reflexivity.
    + apply Z.leb_gt in Ele. rewrite (sorted_count_zero n r k c Hs Ele). cbn [nth_key]. rewrite Z.eqb_refl. reflexivity.
Qed.
(* insert in front of the idx-th child, then delete the idx-th child *)
Lemma delete_inserted n v : forall kids idx kids',
  splice_key n idx (fun c => Some [v; c]) kids = Some kids' -> splice_key n idx (fun _ => Some []) kids' = Some kids.
Proof.
  induction kids as [|[k c] r IH]; intros idx kids' Hs; [discriminate|].
  cbn [splice_key] in Hs. destruct (k =? n) eqn:E.
  - destruct idx as [|i'].
    + cbn in Hs. inversion Hs; subst kids'. cbn [splice_key]. rewrite Z.eqb_refl. cbn. apply Z.eqb_eq in E. subst k. reflexivity.
    + destruct (splice_key n i' _ r) as [r'|] eqn:Er; [|discriminate]. cbn in Hs. inversion Hs; subst kids'.
      cbn [splice_key]. rewrite E, (IH i' r' Er). reflexivity.
  - destruct (splice_key n idx _ r) as [r'|] eqn:Er; [|discriminate]. cbn in Hs. inversion Hs; subst kids'.
    cbn [splice_key]. rewrite E, (IH idx r' Er). reflexivity.
Qed.
Lemma inserted_read_back n v : forall kids idx kids',
  splice_key n idx (fun c => Some [v; c]) kids = Some kids' -> nth_key n idx kids' = Some v.
Proof.
  induction kids as [|[k c] r IH]; intros idx kids' Hs; [discriminate|].
  cbn [splice_key] in Hs. destruct (k =? n) eqn:E.
  - destruct idx as [|i'].
    + cbn in Hs. inversion Hs; subst kids'. cbn [nth_key]. rewrite Z.eqb_refl. reflexivity.
    + destruct (splice_key n i' _ r) as [r'|] eqn:Er; [|discriminate]. cbn in Hs. inversion Hs; subst kids'.
      cbn [nth_key]. rewrite E. exact (IH i' r' Er).
  - destruct (splice_key n idx _ r) as [r'|] eqn:Er; [|discriminate]. cbn in Hs. inversion Hs; subst kids'.
    cbn [nth_key]. rewrite E. exact (IH idx r' Er).
Qed.

(* ---- along a path ---------------------------------------------------------------------------------------------- *)
Lemma modify_inverse_at (f g : tree -> option tree) : forall p t t' s,
  get p t = Some s -> modify p f t = Some t' -> (forall s', f s = Some s' -> g s' = Some s) -> modify p g t' = Some t.
Proof.
  induction p as [|[n i] p IH]; intros t t' s Hg Hm Hfg.
  - cbn in *. inversion Hg; subst. apply Hfg. exact Hm.
  - destruct t as [ty h kids]. cbn [get kids_of modify] in *.
    destruct (nth_key n i kids) as [c|] eqn:En; [|discriminate].
    destruct (splice_key n i _ kids) as [kids'|] eqn:Es; [|discriminate]. cbn in Hm. inversion Hm; subst t'.
    cbn [modify].
    (* what the splice did to c *)
    destruct (modify p f c) as [c1|] eqn:Ec.
    + assert (Hback : modify p g c1 = Some c) by exact (IH c c1 s Hg Ec Hfg).
      rewrite (splice_roundtrip n _ (fun x => option_map (fun c' => [c']) (modify p g x)) kids i kids' c c1 En Es).
      * reflexivity.
      * rewrite Ec. reflexivity.
      * rewrite Hback. reflexivity.
    + exfalso. clear - En Es Ec. revert i kids' En Es. induction kids as [|[k x] r IHk]; intros i kids' En Es; [discriminate|].
      cbn [nth_key splice_key] in *. destruct (k =? n).
      * destruct i as [|i']; [inversion En; subst x; rewrite Ec in Es; discriminate|].
        destruct (splice_key n i' _ r) as [r'|] eqn:Er; [|discriminate]. exact (IHk i' r' En Er).
      * destruct (splice_key n i _ r) as [r'|] eqn:Er; [|discriminate]. exact (IHk i r' En Er).
Qed.

Lemma modify_read_back (f : tree -> option tree) : forall p t t' s s',
  get p t = Some s -> modify p f t = Some t' -> f s = Some s' -> get p t' = Some s'.
Proof.
  induction p as [|[n i] p IH]; intros t t' s s' Hg Hm Hf.
  - cbn in *. inversion Hg; subst. congruence.
  - destruct t as [ty h kids]. cbn [get kids_of modify] in *.
    destruct (nth_key n i kids) as [c|] eqn:En; [|discriminate].
    destruct (splice_key n i _ kids) as [kids'|] eqn:Es; [|discriminate]. cbn in Hm. inversion Hm; subst t'.
    cbn [get kids_of].
    destruct (modify p f c) as [c1|] eqn:Ec.
    + rewrite (splice_read_back n _ kids i kids' c c1 En Es); [exact (IH c c1 s s' Hg Ec Hf)|rewrite Ec; reflexivity].
    + exfalso. clear - En Es Ec. revert i kids' En Es. induction kids as [|[k x] r IHk]; intros i kids' En Es; [discriminate|].
      cbn [nth_key splice_key] in *. destruct (k =? n).
      * destruct i as [|i']; [inversion En; subst x; rewrite Ec in Es; discriminate|].
        destruct (splice_key n i' _ r) as [r'|] eqn:Er; [|discriminate]. exact (IHk i' r' En Er).
      * destruct (splice_key n i _ r) as [r'|] eqn:Er; [|discriminate]. exact (IHk i r' En Er).
Qed.

(* ---- the operations ------------------------------------------------------------------------------------------------ *)
Definition sorted_at (p : path) (t : tree) : Prop := exists s, get p t = Some s /\ sorted_keys (kids_of s) = true.

Theorem add_then_delete p n v t t1 s : get p t = Some s -> sorted_keys (kids_of s) = true ->
  add_at p n v t = Some t1 -> delete_at p n (count_key n (kids_of s)) t1 = Some t.
Proof.
  intros Hg Hs Ha. unfold add_at, delete_at in *.
  apply (modify_inverse_at _ _ p t t1 s Hg Ha).
  intros s' Hf. destruct s as [ty h kids]. cbn [on_kids option_map kids_of] in *. inversion Hf; subst s'.
  cbn [on_kids]. rewrite (delete_added n v kids Hs). reflexivity.
Qed.
Theorem add_read_back p n v t t1 s : get p t = Some s -> sorted_keys (kids_of s) = true ->
  add_at p n v t = Some t1 -> get (p ++ [(n, count_key n (kids_of s))]) t1 = Some v.
Proof.
  intros Hg Hs Ha. unfold add_at in Ha. destruct s as [ty h kids].
  assert (H1 : get p t1 = Some (Node ty h (add_key n v kids))) by (apply (modify_read_back _ p t t1 _ _ Hg Ha); reflexivity).
  clear Ha Hg. revert t1 H1. induction p as [|[m j] p IH]; intros t1 H1.
  - cbn in H1. inversion H1; subst t1. cbn [app get kids_of]. cbn [kids_of] in Hs. rewrite (added_is_last n v kids Hs). reflexivity.
  - cbn [app get] in *. destruct (nth_key m j (kids_of t1)) as [c|]; [|discriminate]. exact (IH c H1).
Qed.
Theorem replace_then_replace_back p n i v t t1 s old : get p t = Some s -> nth_key n i (kids_of s) = Some old ->
  replace_at p n i v t = Some t1 -> replace_at p n i old t1 = Some t.
Proof.
  intros Hg Hn Hr. unfold replace_at in *.
  apply (modify_inverse_at _ _ p t t1 s Hg Hr).
  intros s' Hf. destruct s as [ty h kids]. cbn [on_kids option_map kids_of] in *.
  destruct (splice_key n i (fun _ => Some [v]) kids) as [kids'|] eqn:Es; [|discriminate]. cbn in Hf. inversion Hf; subst s'.
  cbn [on_kids]. rewrite (splice_roundtrip n _ (fun _ => Some [old]) kids i kids' old v Hn Es eq_refl eq_refl). reflexivity.
Qed.
Theorem replace_read_back p n i v t t1 s old : get p t = Some s -> nth_key n i (kids_of s) = Some old ->
  replace_at p n i v t = Some t1 -> get (p ++ [(n, i)]) t1 = Some v.
Proof.
  intros Hg Hn Hr. unfold replace_at in Hr. destruct s as [ty h kids]. cbn [kids_of] in Hn.
  destruct (splice_key n i (fun _ => Some [v]) kids) as [kids'|] eqn:Es.
  2:{ exfalso. clear - Hn Es. revert i Hn Es. induction kids as [|[k x] r IHk]; intros i Hn Es; [discriminate|].
      cbn [nth_key splice_key] in *. destruct (k =? n).
      - destruct i as [|i']; [discriminate|]. destruct (splice_key n i' _ r) eqn:Er; [discriminate|]. exact (IHk i' Hn Er).
      - destruct (splice_key n i _ r) eqn:Er; [discriminate|]. exact (IHk i Hn Er). }
  assert (H1 : get p t1 = Some (Node ty h kids')).
  { apply (modify_read_back _ p t t1 _ _ Hg Hr). cbn [on_kids]. rewrite Es. reflexivity. }
  pose proof (splice_read_back n _ kids i kids' old v Hn Es eq_refl) as Hv.
  clear Hr Hg. revert t1 H1. induction p as [|[m j] p IH]; intros t1 H1.
  - cbn in H1. inversion H1; subst t1. cbn [app get kids_of]. rewrite Hv. reflexivity.
  - cbn [app get] in *. destruct (nth_key m j (kids_of t1)) as [c|]; [|discriminate]. exact (IH c H1).
Qed.
(* the frame of a replacement: any other child of the same parent is what it was *)
Theorem replace_frame_siblings p n i v t t1 s s1 m j : get p t = Some s -> replace_at p n i v t = Some t1 -> get p t1 = Some s1 ->
  (m <> n \/ j <> i) -> nth_key m j (kids_of s1) = nth_key m j (kids_of s).
Proof.
  intros Hg Hr Hg1 Hd. unfold replace_at in Hr. destruct s as [ty h kids].
  destruct (on_kids (splice_key n i (fun _ => Some [v])) (Node ty h kids)) as [s'|] eqn:Ef.
  - pose proof (modify_read_back _ p t t1 _ _ Hg Hr Ef) as H1. rewrite Hg1 in H1. inversion H1; subst s1.
    cbn [on_kids] in Ef. destruct (splice_key n i _ kids) as [kids'|] eqn:Es; [|discriminate]. cbn in Ef. inversion Ef; subst s'.
    cbn [kids_of]. apply (splice_frame n _ kids i kids' m j Es); [|exact Hd].
    intros c cs H. inversion H. eexists; reflexivity.
  - exfalso. clear - Hg Hr Ef. revert t t1 Hg Hr. induction p as [|[a b] p IH]; intros t t1 Hg Hr.
    + cbn [get modify] in *. inversion Hg; subst t. rewrite Hr in Ef. discriminate.
    + destruct t as [ty' h' kids0]. cbn [get kids_of modify] in *.
      destruct (nth_key a b kids0) as [c|] eqn:En; [|discriminate].
      destruct (splice_key a b _ kids0) as [kids0'|] eqn:Es; [|discriminate].
      destruct (modify p (on_kids (splice_key n i (fun _ => Some [v]))) c) as [c1|] eqn:Ec; [exact (IH c c1 Hg Ec)|].
      clear - En Es Ec. revert b kids0' En Es. induction kids0 as [|[k x] r IHk]; intros b kids0' En Es; [discriminate|].
      cbn [nth_key splice_key] in *. destruct (k =? a).
      * destruct b as [|b']; [inversion En; subst x; rewrite Ec in Es; discriminate|].
        destruct (splice_key a b' _ r) as [r'|] eqn:Er; [|discriminate]. exact (IHk b' r' En Er).
      * destruct (splice_key a b _ r) as [r'|] eqn:Er; [|discriminate]. exact (IHk b r' En Er).
Qed.
Theorem insert_then_delete p n idx v t t1 s : get p t = Some s -> (idx < count_key n (kids_of s))%nat ->
  insert_at p n idx v t = Some t1 -> delete_at p n idx t1 = Some t.
Proof.
  intros Hg Hlt Hi. unfold insert_at, delete_at in *.
  apply (modify_inverse_at _ _ p t t1 s Hg Hi).
  intros s' Hf. destruct s as [ty h kids]. cbn [on_kids option_map kids_of] in *.
  apply Nat.ltb_lt in Hlt. rewrite Hlt in Hf.
  destruct (splice_key n idx (fun c => Some [v; c]) kids) as [kids'|] eqn:Es; [|discriminate]. cbn in Hf. inversion Hf; subst s'.
  cbn [on_kids]. rewrite (delete_inserted n v kids idx kids' Es). reflexivity.
Qed.

(* an operation that fails leaves the resource as it was *)
Theorem failure_is_atomic c t : fst (expected c t) <> 0%N -> snd (expected c t) = t.
Proof.
  unfold expected. intro H.
  repeat (match goal with
          | |- context [match ?x with _ => _ end] => destruct x eqn:?
          | H : context [match ?x with _ => _ end] |- _ => destruct x eqn:?
          end; cbn [fst snd] in *; try reflexivity; try (exfalso; apply H; reflexivity)).
Qed.
(* move is not implemented *)
Theorem move_not_implemented c t : o_kind c = KMove -> expected c t = (7%N, t).
Proof. unfold expected. intros ->. reflexivity. Qed.

(* non-vacuity *)
Definition ex_tree : tree := Node 1 10 [(2, Node 2 20 [(1, Node 3 30 [])]); (2, Node 2 21 []); (5, Node 4 40 [])].
Example ex_ops :
  add_at [] 2 (Node 2 22 []) ex_tree = Some (Node 1 10 [(2, Node 2 20 [(1, Node 3 30 [])]); (2, Node 2 21 []); (2, Node 2 22 []); (5, Node 4 40 [])])
  /\ delete_at [] 2 0%nat ex_tree = Some (Node 1 10 [(2, Node 2 21 []); (5, Node 4 40 [])])
  /\ insert_at [] 2 1%nat (Node 2 22 []) ex_tree = Some (Node 1 10 [(2, Node 2 20 [(1, Node 3 30 [])]); (2, Node 2 22 []); (2, Node 2 21 []); (5, Node 4 40 [])])
  /\ replace_at [(2, 0%nat)] 1 0%nat (Node 3 31 []) ex_tree = Some (Node 1 10 [(2, Node 2 20 [(1, Node 3 31 [])]); (2, Node 2 21 []); (5, Node 4 40 [])])
  /\ sorted_keys (kids_of ex_tree) = true.
Proof. repeat split; vm_compute; reflexivity. Qed.
