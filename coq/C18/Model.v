(* C18/Model.v -- FHIRPatch operations as surgery on the message tree of a resource.

   The tree is the populated proto message tree: one node per message (choice wrappers, contained-resource
   wrappers included), its scalar fields summarised by a hash, its message-valued fields as children keyed by
   field number (children sorted by key, the elements of a repeated field contiguous and in list order).
   A path selects a child by (field number, index among the children with that key), step by step.
   The harness reads the tree before and after each call, locates the target of the evaluated expression by
   pointer identity before the call, and computes from the descriptors how the supplied value has to be
   stored (wrapped in its choice message, converted to the enumerated code type). *)
From FPV Require Import Base.Prelude.

Inductive tree := Node (ty h : Z) (kids : list (Z * tree)).
Definition kids_of (t : tree) := match t with Node _ _ k => k end.
Definition path := list (Z * nat).

Fixpoint tree_eqb (a b : tree) : bool :=
  match a, b with
  | Node t1 h1 k1, Node t2 h2 k2 =>
      (t1 =? t2) && (h1 =? h2) &&
      (fix go (x y : list (Z * tree)) : bool :=
         match x, y with
         | [], [] => true
         | (n1, c1) :: x', (n2, c2) :: y' => (n1 =? n2) && tree_eqb c1 c2 && go x' y'
         | _, _ => false
         end) k1 k2
  end.

(* ---- one node's children ------------------------------------------------------------------------------------ *)
Fixpoint nth_key (n : Z) (i : nat) (kids : list (Z * tree)) : option tree :=
  match kids with
  | [] => None
  | (k, c) :: r => if (k =? n) then match i with O => Some c | S i' => nth_key n i' r end else nth_key n i r
  end.
(* replace the i-th child with key n by a list of children of the same key (none: delete; one: replace;
   two: insert in front of it) *)
Fixpoint splice_key (n : Z) (i : nat) (f : tree -> option (list tree)) (kids : list (Z * tree)) : option (list (Z * tree)) :=
  match kids with
  | [] => None
  | (k, c) :: r =>
      if (k =? n) then
        match i with
        | O => option_map (fun cs => map (fun x => (n, x)) cs ++ r) (f c)
        | S i' => option_map (cons (k, c)) (splice_key n i' f r)
        end
      else option_map (cons (k, c)) (splice_key n i f r)
  end.
(* a new child with key n after every child whose key is at most n *)
Fixpoint add_key (n : Z) (v : tree) (kids : list (Z * tree)) : list (Z * tree) :=
  match kids with
  | [] => [(n, v)]
  | (k, c) :: r => if (k <=? n) then (k, c) :: add_key n v r else (n, v) :: kids
  end.
Definition count_key (n : Z) (kids : list (Z * tree)) : nat := List.length (filter (fun kc => (fst kc =? n)) kids).

(* ---- along a path -------------------------------------------------------------------------------------------- *)
Fixpoint get (p : path) (t : tree) : option tree :=
  match p with
  | [] => Some t
  | (n, i) :: p' => match nth_key n i (kids_of t) with Some c => get p' c | None => None end
  end.
Fixpoint modify (p : path) (f : tree -> option tree) (t : tree) : option tree :=
  match p with
  | [] => f t
  | (n, i) :: p' =>
      match t with
      | Node ty h kids => option_map (Node ty h) (splice_key n i (fun c => option_map (fun c' => [c']) (modify p' f c)) kids)
      end
  end.

Definition on_kids (f : list (Z * tree) -> option (list (Z * tree))) (t : tree) : option tree :=
  match t with Node ty h kids => option_map (Node ty h) (f kids) end.

(* the four operations, where they succeed *)
Definition delete_at (parent : path) (n : Z) (i : nat) : tree -> option tree :=
  modify parent (on_kids (splice_key n i (fun _ => Some []))).
Definition replace_at (parent : path) (n : Z) (i : nat) (v : tree) : tree -> option tree :=
  modify parent (on_kids (splice_key n i (fun _ => Some [v]))).
Definition add_at (parent : path) (n : Z) (v : tree) : tree -> option tree :=
  modify parent (on_kids (fun kids => Some (add_key n v kids))).
Definition insert_at (parent : path) (n : Z) (idx : nat) (v : tree) : tree -> option tree :=
  modify parent (on_kids (fun kids =>
    if (idx <? count_key n kids)%nat then splice_key n idx (fun c => Some [v; c]) kids
    else if (idx =? count_key n kids)%nat && (0 <? idx)%nat then Some (add_key n v kids)
    else None)).

(* ---- what a call must do -------------------------------------------------------------------------------------- *)
Inductive opk := KDelete | KReplace | KAdd | KInsert | KMove.
Record opcase := {
  o_kind : opk;
  o_eval_err : N;               (* error code of compiling / evaluating the expression, 0 = none *)
  o_nresults : N;               (* size of the evaluated collection *)
  o_nparents : N;               (* insert: size of the collection the last step was applied to *)
  o_parent : option path;       (* the message that holds the field: None when the target is no message of the resource *)
  o_field : Z;                  (* field number *)
  o_index : nat;                (* delete / replace: position among the children of that field *)
  o_field_is_list : bool;
  o_field_valid : bool;         (* add: the name is an element of the type *)
  o_field_populated : bool;
  o_name_camel : bool;          (* add: the name is in lowerCamelCase *)
  o_insert_index : Z;
  o_value_class : N;            (* 0 right type, 1 wrong type, 2 invalid code, 3 negative for an unsigned type, 4 nil *)
  o_stored : option tree;       (* the value as it has to be stored *)
  o_in_any : bool;              (* the target is a value made by the evaluator (copy of a contained resource, reference string) *)
  o_found_in_last : bool        (* replace: the parent is in the input of the last step only (then a value error of the
                                   first attempt is overwritten by the not-patchable error of the second) *)
}.

(* error codes: 1 invalid input, 2 invalid enum, 3 invalid field, 4 invalid unsigned int, 5 not singleton,
   6 not patchable, 7 not implemented *)
Definition value_error (cls : N) (wrong_type_code : N) : option N :=
  if (cls =? 1)%N then Some wrong_type_code else if (cls =? 2)%N then Some 2%N else if (cls =? 3)%N then Some 4%N else None.

Definition expected (c : opcase) (before : tree) : N * tree :=
  let fail (code : N) := (code, before) in
  let apply (r : option tree) :=
    if o_in_any c then (0%N, before)       (* the copy is patched, not the resource: known finding 1 *)
    else match r with Some t => (0%N, t) | None => fail 6%N end in
  match o_kind c with
  | KMove => fail 7%N
  | KDelete =>
      if negb (o_eval_err c =? 0)%N then fail (o_eval_err c)
      else if (o_nresults c =? 0)%N then (0%N, before)
      else if negb (o_nresults c =? 1)%N then fail 5%N
      else match o_parent c with
           | None => fail 6%N
           | Some p =>
               apply (delete_at p (o_field c) (o_index c) before)
           end
  | KReplace =>
      if (o_value_class c =? 4)%N then fail 1%N
      else if negb (o_eval_err c =? 0)%N then fail (o_eval_err c)
      else if negb (o_nresults c =? 1)%N then fail 5%N
      else match o_parent c with
           | None => fail 6%N
           | Some p =>
               match value_error (o_value_class c) 1 with
               | Some code => if o_found_in_last c then fail 6%N else fail code
               | None => match o_stored c with Some v => apply (replace_at p (o_field c) (o_index c) v before) | None => fail 1%N end
               end
           end
  | KAdd =>
      if negb (o_name_camel c) then fail 3%N
      else if (o_value_class c =? 4)%N then fail 1%N
      else if negb (o_eval_err c =? 0)%N then fail (o_eval_err c)
      else if negb (o_nresults c =? 1)%N then fail 5%N
      else match o_parent c with
           | None => fail 6%N
           | Some p =>
               if negb (o_field_valid c) then fail 3%N
               else if negb (o_field_is_list c) && o_field_populated c then fail 6%N
               else match value_error (o_value_class c) 1 with
                    | Some code => fail code
                    | None => match o_stored c with Some v => apply (add_at p (o_field c) v before) | None => fail 1%N end
                    end
           end
  | KInsert =>
      if (o_value_class c =? 4)%N then fail 1%N
      else if negb (o_eval_err c =? 0)%N then fail (o_eval_err c)
      else if negb (o_nparents c =? 1)%N then fail 5%N
      else match o_parent c with
           | None => fail 6%N
           | Some p =>
               if (o_nresults c =? 0)%N || negb (o_field_is_list c) then fail 6%N
               else if (o_insert_index c <? 0) then fail 6%N
               else match value_error (o_value_class c) 6 with
                    | Some code => if (Z.to_nat (o_insert_index c) <=? 1000)%nat then
                                     (match insert_at p (o_field c) (Z.to_nat (o_insert_index c)) (Node 0 0 []) before with
                                      | Some _ => fail code | None => fail 6%N end)
                                   else fail 6%N
                    | None => match o_stored c with
                              | Some v => if (o_insert_index c <=? 1000) then apply (insert_at p (o_field c) (Z.to_nat (o_insert_index c)) v before) else fail 6%N
                              | None => fail 6%N
                              end
                    end
           end
  end.

(* ---- correspondence ------------------------------------------------------------------------------------------------ *)
Definition case := (opcase * tree)%type.                  (* the call, the tree before *)
Definition obs := (N * tree * bool)%type.                 (* error code, the tree after, the value is as it was *)

Definition agrees (c : case) (o : obs) : bool :=
  let '(oc, before) := c in let '(code, after, _) := o in
  let '(ecode, eafter) := expected oc before in
  (code =? ecode)%N && tree_eqb after eafter.
Definition holds (c : case) (o : obs) : bool :=
  let '(oc, before) := c in let '(code, after, value_same) := o in
  let '(ecode, eafter) := expected oc before in
  (* an error leaves everything as it was; a success is exactly the operation on the tree *)
  (if (code =? 0)%N then (ecode =? 0)%N && tree_eqb after eafter else tree_eqb after before && value_same && negb (ecode =? 0)%N)
  && negb (code =? 10)%N
  (* a successful delete / replace / add / insert of something that is there changes the tree *)
  && (if (code =? 0)%N && o_in_any oc then negb (tree_eqb after before) || (o_nresults oc =? 0)%N else true).
(* known finding 1: the target lies inside a contained resource: the evaluator hands out a copy unpacked from
   the Any, the patch is applied to the copy, the call reports success and the resource is unchanged *)
Definition kf (c : case) : N := if o_in_any (fst c) then 1%N else 0%N.
Definition judge (x : N * case * obs) : verdict :=
  let '(id, c, o) := x in
  {| v_id := id; v_agree := agrees c o; v_holds := holds c o; v_kf := kf c |}.
