(* Oblig/C01_gen.v -- over RUN.Gen_panicsites (explicit panic calls, Must* helpers and single-value type assertions
   in the packages behind Compile, Evaluate and Patch, re-read by go2v): the inventory is the reviewed one.
   Reviewed as follows.  panic(err): only inside the Must* constructors, which the library itself calls on text it
   has just formatted (numbers it printed, the fixed time layouts, literals).  Type assertions in the visitor: on the
   results of its own Visit* methods and on ANTLR terminal nodes at fixed child positions of a rule that matched.
   ToFunction: after reflect has checked the signature.  conversion.go / cmp.go / collection.go: guarded by the
   type switch or the convertsTo* test on the line above.  unwrapReference: the oneof member is a ReferenceId by
   construction of the Reference message. *)
From FPV Require Import Base.Prelude.
From Coq Require Import String.
From RUN Require Gen_panicsites.
Local Open Scope string_scope.

Definition reviewed_panic_sites : list (string * string * string) := [
  ("fhirpath/fhirpath.go:MustCompile", "panic", "panic(err)");
  ("fhirpath/internal/expr/expressions.go:FieldExpression.unwrapReference", "assert", "rv.Get(field).Message().Interface().(*dtpb.ReferenceId)");
  ("fhirpath/internal/funcs/function.go:ToFunction", "assert", "output[0].Interface().(system.Collection)");
  ("fhirpath/internal/funcs/function.go:ToFunction", "assert", "output[0].Interface().(system.Collection)");
  ("fhirpath/internal/funcs/impl/conversion.go:ToDecimal", "assert", "value.(system.Boolean)");
  ("fhirpath/internal/funcs/impl/conversion.go:ToDecimal", "must", "system.MustParseDecimal(""1.0"")");
  ("fhirpath/internal/funcs/impl/conversion.go:ToDecimal", "must", "system.MustParseDecimal(""0.0"")");
  ("fhirpath/internal/funcs/impl/conversion.go:ToInteger", "assert", "value.(system.Boolean)");
  ("fhirpath/internal/funcs/impl/conversion.go:ToQuantity", "must", "system.MustParseQuantity(fmt.Sprintf(""%v"", value), matches[unit])");
  ("fhirpath/internal/funcs/impl/conversion.go:ToQuantity", "must", "system.MustParseQuantity(fmt.Sprintf(""%v"", value), matches[t])");
  ("fhirpath/internal/funcs/impl/conversion.go:ToQuantity", "must", "system.MustParseQuantity(fmt.Sprintf(""%v"", value), DefaultQuantityUnit)");
  ("fhirpath/internal/funcs/impl/conversion.go:ToQuantity", "must", "system.MustParseQuantity(res[0], res[1])");
  ("fhirpath/internal/funcs/impl/conversion.go:ToQuantity", "must", "system.MustParseQuantity(""1.0"", DefaultQuantityUnit)");
  ("fhirpath/internal/funcs/impl/conversion.go:ToQuantity", "must", "system.MustParseQuantity(""0.0"", DefaultQuantityUnit)");
  ("fhirpath/internal/funcs/impl/conversion.go:parseHumanDuration", "must", "regexp.MustCompile(`(\d+)\s*(\w+)`)");
  ("fhirpath/internal/funcs/impl/math.go:Exp", "must", "system.MustParseDecimal(fmt.Sprintf(""%v"", res))");
  ("fhirpath/internal/funcs/impl/math.go:Round", "must", "system.MustParseDecimal(fmt.Sprintf(""%d"", number))");
  ("fhirpath/internal/funcs/impl/utility.go:TimeOfDay", "must", "system.MustParseTime(timeString)");
  ("fhirpath/internal/parser/visitor.go:FHIRPathVisitor.VisitProg", "assert", "v.Visit(ctx.Expression()).(*VisitResult)");
  ("fhirpath/internal/parser/visitor.go:FHIRPathVisitor.VisitIndexerExpression", "assert", "v.Visit(ctx.Expression(0)).(*VisitResult)");
  ("fhirpath/internal/parser/visitor.go:FHIRPathVisitor.VisitIndexerExpression", "assert", "v.clone().Visit(ctx.Expression(1)).(*VisitResult)");
  ("fhirpath/internal/parser/visitor.go:FHIRPathVisitor.VisitPolarityExpression", "assert", "ctx.GetChild(0).(antlr.TerminalNode)");
  ("fhirpath/internal/parser/visitor.go:FHIRPathVisitor.VisitPolarityExpression", "assert", "v.Visit(ctx.Expression()).(*VisitResult)");
  ("fhirpath/internal/parser/visitor.go:FHIRPathVisitor.VisitAdditiveExpression", "assert", "v.Visit(ctx.Expression(0)).(*VisitResult)");
  ("fhirpath/internal/parser/visitor.go:FHIRPathVisitor.VisitAdditiveExpression", "assert", "v.clone().Visit(ctx.Expression(1)).(*VisitResult)");
  ("fhirpath/internal/parser/visitor.go:FHIRPathVisitor.VisitAdditiveExpression", "assert", "ctx.GetChild(1).(antlr.TerminalNode)");
  ("fhirpath/internal/parser/visitor.go:FHIRPathVisitor.VisitMultiplicativeExpression", "assert", "v.Visit(ctx.Expression(0)).(*VisitResult)");
  ("fhirpath/internal/parser/visitor.go:FHIRPathVisitor.VisitMultiplicativeExpression", "assert", "v.clone().Visit(ctx.Expression(1)).(*VisitResult)");
  ("fhirpath/internal/parser/visitor.go:FHIRPathVisitor.VisitMultiplicativeExpression", "assert", "ctx.GetChild(1).(antlr.TerminalNode)");
  ("fhirpath/internal/parser/visitor.go:FHIRPathVisitor.VisitOrExpression", "assert", "v.Visit(ctx.Expression(0)).(*VisitResult)");
  ("fhirpath/internal/parser/visitor.go:FHIRPathVisitor.VisitOrExpression", "assert", "v.clone().Visit(ctx.Expression(1)).(*VisitResult)");
  ("fhirpath/internal/parser/visitor.go:FHIRPathVisitor.VisitOrExpression", "assert", "ctx.GetChild(1).(antlr.TerminalNode)");
  ("fhirpath/internal/parser/visitor.go:FHIRPathVisitor.VisitAndExpression", "assert", "v.Visit(ctx.Expression(0)).(*VisitResult)");
  ("fhirpath/internal/parser/visitor.go:FHIRPathVisitor.VisitAndExpression", "assert", "v.clone().Visit(ctx.Expression(1)).(*VisitResult)");
  ("fhirpath/internal/parser/visitor.go:FHIRPathVisitor.VisitInequalityExpression", "assert", "v.Visit(ctx.Expression(0)).(*VisitResult)");
  ("fhirpath/internal/parser/visitor.go:FHIRPathVisitor.VisitInequalityExpression", "assert", "v.clone().Visit(ctx.Expression(1)).(*VisitResult)");
  ("fhirpath/internal/parser/visitor.go:FHIRPathVisitor.VisitInequalityExpression", "assert", "ctx.GetChild(1).(antlr.TerminalNode)");
  ("fhirpath/internal/parser/visitor.go:FHIRPathVisitor.VisitInvocationExpression", "assert", "v.Visit(ctx.Expression()).(*VisitResult)");
  ("fhirpath/internal/parser/visitor.go:FHIRPathVisitor.VisitInvocationExpression", "assert", "v.Visit(ctx.Invocation()).(*VisitResult)");
  ("fhirpath/internal/parser/visitor.go:FHIRPathVisitor.VisitEqualityExpression", "assert", "v.Visit(ctx.Expression(0)).(*VisitResult)");
  ("fhirpath/internal/parser/visitor.go:FHIRPathVisitor.VisitEqualityExpression", "assert", "v.clone().Visit(ctx.Expression(1)).(*VisitResult)");
  ("fhirpath/internal/parser/visitor.go:FHIRPathVisitor.VisitEqualityExpression", "assert", "ctx.GetChild(1).(antlr.TerminalNode)");
  ("fhirpath/internal/parser/visitor.go:FHIRPathVisitor.VisitImpliesExpression", "assert", "v.Visit(ctx.Expression(0)).(*VisitResult)");
  ("fhirpath/internal/parser/visitor.go:FHIRPathVisitor.VisitImpliesExpression", "assert", "v.clone().Visit(ctx.Expression(1)).(*VisitResult)");
  ("fhirpath/internal/parser/visitor.go:FHIRPathVisitor.VisitTypeExpression", "assert", "v.Visit(ctx.Expression()).(*VisitResult)");
  ("fhirpath/internal/parser/visitor.go:FHIRPathVisitor.VisitTypeExpression", "assert", "v.Visit(ctx.TypeSpecifier()).(*typeResult)");
  ("fhirpath/internal/parser/visitor.go:FHIRPathVisitor.VisitTypeExpression", "assert", "ctx.GetChild(1).(antlr.TerminalNode)");
  ("fhirpath/internal/parser/visitor.go:FHIRPathVisitor.VisitFunction", "assert", "v.Visit(args).([]*VisitResult)");
  ("fhirpath/internal/parser/visitor.go:FHIRPathVisitor.VisitParamList", "assert", "v.Visit(e).(*VisitResult)");
  ("fhirpath/internal/parser/visitor.go:FHIRPathVisitor.VisitTypeSpecifier", "assert", "v.Visit(ctx.QualifiedIdentifier()).([]string)");
  ("fhirpath/internal/reflection/type_specifier.go:MustCreateTypeSpecifier", "panic", "panic(err)");
  ("fhirpath/system/cmp.go:callEqual", "assert", "got.(bool)");
  ("fhirpath/system/collection.go:Collection.TryEqual", "assert", "c[i].(fhir.Base)");
  ("fhirpath/system/collection.go:Collection.TryEqual", "assert", "other[i].(fhir.Base)");
  ("fhirpath/system/date.go:MustParseDate", "panic", "panic(err)");
  ("fhirpath/system/date_time.go:MustParseDateTime", "panic", "panic(err)");
  ("fhirpath/system/primitives.go:MustParseDecimal", "panic", "panic(err)");
  ("fhirpath/system/quantity.go:MustParseQuantity", "panic", "panic(err)");
  ("fhirpath/system/time.go:MustParseTime", "panic", "panic(err)")
].

Lemma oblig_panic_site_inventory : Gen_panicsites.panic_sites = reviewed_panic_sites.
Proof. reflexivity. Qed.
Lemma oblig_panic_site_count : List.length Gen_panicsites.panic_sites = 59%nat.
Proof. reflexivity. Qed.
