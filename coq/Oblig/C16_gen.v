(* Oblig/C16_gen.v -- finite obligations over the function tables regenerated from
   fhirpath/internal/funcs/table.go (RUN.Gen_functable).  Each is decided by vm_compute over the
   whole (finite) table; the bound is the table itself. *)
From FPV Require Import Base.Prelude C16.Model.
From Coq Require Import String.
From RUN Require Gen_functable.

Definition base := Gen_functable.base_table.
Definition exper := Gen_functable.experimental_table.
Definition full := merge_experimental base exper.

Theorem gen_names_unique : names_unique base = true /\ names_unique exper = true /\ names_unique full = true.
Proof. vm_compute. repeat split. Qed.
Theorem gen_bounds_wf : bounds_wf full = true.
Proof. vm_compute. reflexivity. Qed.
(* every implemented entry is bound to the implementation of that same name *)
Theorem gen_implemented_bound_to_same_name : bound_to_same_name full = true.
Proof. vm_compute. reflexivity. Qed.
(* every N1 function the table implements is registered with exactly the specification's argument counts,
   and every N1 name is present (implemented or as an explicit placeholder) except the function forms
   of is/as, which Compile rejects as unresolved *)
Theorem gen_n1_arities_match : n1_arities_match base = true.
Proof. vm_compute. reflexivity. Qed.
Theorem gen_placeholders_zero_arity : placeholders_zero_arity full = true.
Proof. vm_compute. reflexivity. Qed.
(* the only names outside N1 are the R4 `extension` function and the experimental `join` *)
Theorem gen_extra_names : extra_names full = ["extension"; "join"]%string.
Proof. vm_compute. reflexivity. Qed.
Print Assumptions gen_n1_arities_match.
