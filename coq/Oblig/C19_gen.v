(* Oblig/C19_gen.v -- over RUN.Gen_regexes (the regular expressions compiled by internal/element/reference,
   internal/fhir, internal/resource and internal/element/canonical, re-read by go2v): their text is the
   text the recognisers of C19/Model.v were written for, and the alternation of type names inside the REST
   expression is the model's list. *)
From FPV Require Import Base.Prelude C19.Model.
From Coq Require Import String.
From RUN Require Gen_regexes.
Local Open Scope string_scope.

Lemma oblig_rest_types : Gen_regexes.re_rest_types = rest_type_names.
Proof. vm_compute. reflexivity. Qed.
Lemma oblig_rest_shape : Gen_regexes.re_rest_shape =
  "^((http|https):\/\/([A-Za-z0-9\-\\\.\:\%\$\_]*\/)+)?(@TYPES@)\/[A-Za-z0-9\-\.]{1,64}(\/_history\/[A-Za-z0-9\-\.]{1,64})?$".
Proof. reflexivity. Qed.
Lemma oblig_base_regex : Gen_regexes.re_restFHIRServiceBaseURLRegex = "^(http|https):\/\/([A-Za-z0-9\-\\\.\:\%\$]*\/)+$".
Proof. reflexivity. Qed.
Lemma oblig_id_regex : Gen_regexes.re_idRegexp = "^[A-Za-z0-9\-\.]{1,64}$".
Proof. reflexivity. Qed.
Lemma oblig_url_regex : Gen_regexes.re_urlRegexp = "([A-Za-z]+)/([0-9A-Za-z.-]{1,64})$".
Proof. reflexivity. Qed.
Lemma oblig_history_regex : Gen_regexes.re_historyURLRegexp = "^.*/([A-Za-z]+)/([0-9A-Za-z.-]{1,64})/_history/([0-9A-Za-z.-]{1,64})$".
Proof. reflexivity. Qed.
Lemma oblig_canonical_regex : Gen_regexes.re_canonicalRegExp = "^(?P<url>[^|#]+)(\|(?P<version>[A-z0-9-_\.]+))?(#(?P<fragment>[A-z0-9-_\.]{1,64}))?".
Proof. reflexivity. Qed.
