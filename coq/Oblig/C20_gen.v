(* Oblig/C20_gen.v -- over RUN.Gen_snakecase (protofields/strcase.go toSnakeCase and fields.go
   typeToExtensionFieldName, re-read by go2v): the passes are the two the model's pass1 / pass2 were written
   for, in that order, followed by ToLower; the only special case is string -> string_value. *)
From FPV Require Import Base.Prelude C19.Model C19.Proofs C20.Model.
From Coq Require Import String.
From RUN Require Gen_snakecase.
Local Open Scope string_scope.

Lemma oblig_snake_passes : Gen_snakecase.snake_passes = [("(.)([A-Z][a-z]+)", "${1}_${2}"); ("([a-z0-9])([A-Z])", "${1}_${2}")].
Proof. reflexivity. Qed.
Lemma oblig_snake_final : Gen_snakecase.snake_final = "strings.ToLower".
Proof. reflexivity. Qed.
Lemma oblig_ext_special : Gen_snakecase.ext_special = [("string", "string_value")].
Proof. reflexivity. Qed.
(* the special case read from the source is the one ext_field applies *)
Lemma oblig_ext_special_model : forall name,
  ext_field name = match find (fun p => beqb (bs (fst p)) (to_snake name)) Gen_snakecase.ext_special with
                   | Some p => bs (snd p)
                   | None => to_snake name
                   end.
Proof. intro name. unfold ext_field. cbn [find Gen_snakecase.ext_special fst snd]. rewrite beqb_sym. destruct (beqb (bs "string") (to_snake name)); reflexivity. Qed.
