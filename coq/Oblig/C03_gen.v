(* Oblig/C03_gen.v -- over RUN.Gen_slicewrites (every function of the evaluator packages abstracted by go2v into
   the set of its slice statements, and every call that can mutate a proto message):
   every function passes the write discipline except the six listed, none of which writes to a collection or
   resource handed to Evaluate (see below); the mutating proto calls are the three listed, all on messages the
   function has just created.  With C03.Proofs.discipline_sound: whatever the control flow, a function that
   passes never changes a backing array that existed before it was called. *)
From FPV Require Import Base.Prelude C03.Model C03.Proofs.
From Coq Require Import String.
From RUN Require Gen_slicewrites.
Local Open Scope string_scope.

Definition undisciplined : list string :=
  map (fun f => fst (fst (fst f))) (filter (fun f => negb (fn_ok f)) Gen_slicewrites.functions).

(* EnvVariable stores into the map of the Context created for this evaluation; Register / AddExperimentalFuncs
   store into the function table cloned for this Compile call; internal/slices Reverse / Sort / Transform work in
   place by contract and every call to them is itself recorded as an in-place write of the caller (none today) *)
Lemma oblig_slice_discipline : undisciplined =
  ["fhirpath/evalopts/evalopts.go:EnvVariable";
   "fhirpath/internal/funcs/function_table.go:FunctionTable.Register";
   "fhirpath/internal/funcs/table.go:AddExperimentalFuncs";
   "internal/slices/slices.go:Reverse";
   "internal/slices/slices.go:Sort";
   "internal/slices/slices.go:Transform"].
Proof. vm_compute. reflexivity. Qed.

(* UnmarshalTo fills a ContainedResource made on the line above; number.Truncate is decimal arithmetic;
   Wrap sets the field of a ContainedResource made on the line above *)
Lemma oblig_proto_mutations : Gen_slicewrites.proto_mutations =
  [("fhirpath/internal/expr/expressions.go:FieldExpression.unpackAny", "anyMsg.UnmarshalTo");
   ("fhirpath/internal/funcs/impl/math.go:Truncate", "number.Truncate");
   ("internal/containedresource/contained_resource.go:Wrap", "*ast.CallExpr.Set")].
Proof. reflexivity. Qed.

(* the theorem, instantiated at every function that passes *)
Lemma oblig_every_checked_function_is_safe : forall name nvars params ss,
  In (name, nvars, params, ss) Gen_slicewrites.functions -> fn_ok (name, nvars, params, ss) = true ->
  forall ops n0 h0 e0, (forall o, In o ops -> In (stmt_of o) ss) ->
  (forall x, infer nvars params ss x = true -> (n0 <= s_arr (e0 x))%nat) -> (n0 <= List.length h0)%nat ->
  firstn n0 (fst (run ops (h0, e0))) = firstn n0 h0.
Proof. intros name nvars params ss _ Hok. apply (old_arrays_intact _ ss). exact Hok. Qed.
