(* Oblig/C04_gen.v -- over RUN.Gen_globals (package-level variables of the evaluator, compiler, patch and helper
   packages and every function that writes one, re-read by go2v): package-level state is written by init
   functions only, and the variables that hold state (tables, maps, slices) are the twelve listed -- no cache,
   no counter, no lazily built table.  Together with C04.Proofs.interleaving_independent (calls that only read
   the shared state cannot affect each other under any schedule) and C03 (inputs are not written). *)
From FPV Require Import Base.Prelude C04.Model.
From Coq Require Import String.
From RUN Require Gen_globals.
Local Open Scope string_scope.

Fixpoint ends_with_init (s : string) : bool :=
  match s with
  | EmptyString => false
  | String _ r => if String.eqb s ":init" then true else ends_with_init r
  end.

Lemma oblig_only_init_writes_package_state :
  forallb (fun w => ends_with_init (fst (fst w))) Gen_globals.global_writes = true.
Proof. vm_compute. reflexivity. Qed.

Lemma oblig_stateful_package_variables : Gen_globals.stateful_package_variables =
  ["fhirpath/internal/expr:nonEvaluableFields";
   "fhirpath/internal/funcs:baseTable";
   "fhirpath/internal/funcs:experimentalTable";
   "fhirpath/internal/funcs:notImplemented";
   "fhirpath/system:dateMap";
   "fhirpath/system:dateTimeMap";
   "fhirpath/system:timeMap";
   "internal/fhir:yearZeroBase";
   "internal/protofields:Elements";
   "internal/protofields:Resources";
   "internal/protofields:dummyElements";
   "internal/protofields:dummyResources"].
Proof. reflexivity. Qed.
