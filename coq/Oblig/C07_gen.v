(* Oblig/C07_gen.v -- over the regenerated function tables: every name is classified by C07/Model.v,
   consistently with the table's own implemented/placeholder status.  A new table entry without a
   classification breaks this obligation. *)
From FPV Require Import Base.Prelude C16.Model C07.Model.
From RUN Require Gen_functable.

Theorem gen_base_table_classified : table_classified Gen_functable.base_table = true.
Proof. vm_compute. reflexivity. Qed.
Theorem gen_full_table_classified :
  table_classified (merge_experimental Gen_functable.base_table Gen_functable.experimental_table) = true.
Proof. vm_compute. reflexivity. Qed.
Print Assumptions gen_full_table_classified.
