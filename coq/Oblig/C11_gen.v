(* Oblig/C11_gen.v -- over RUN.Gen_grammar (fhirpath.g4 and the generated parser's precedence numbers,
   re-read by go2v on every run): the grammar's alternative order is the model's precedence table, every
   binary level is left-associative in the generated parser, the prefix operand is parsed at the polarity
   level, prog requires EOF, whitespace and both comment forms are on the hidden channel. *)
From FPV Require Import Base.Prelude C11.Model.
From Coq Require Import String.
From RUN Require Gen_grammar.

Theorem gen_alternatives_match_table : forallb alt_ok Gen_grammar.expression_alternatives = true.
Proof. vm_compute. reflexivity. Qed.
Theorem gen_all_operators_in_grammar : all_ops_covered Gen_grammar.expression_alternatives = true.
Proof. vm_compute. reflexivity. Qed.
Theorem gen_parser_left_associative : levels_left_assoc Gen_grammar.expression_alternatives Gen_grammar.parser_levels = true.
Proof. vm_compute. reflexivity. Qed.
Theorem gen_polarity_operand_level : Gen_grammar.polarity_operand_level = Z.of_nat (p_polarity fhirpath_table).
Proof. vm_compute. reflexivity. Qed.
Theorem gen_prog_requires_eof : Gen_grammar.prog_requires_eof = true.
Proof. reflexivity. Qed.
Theorem gen_hidden_channel_rules : Gen_grammar.hidden_channel_rules = 3.
Proof. reflexivity. Qed.
Print Assumptions gen_alternatives_match_table.
