(* Oblig/C12_gen.v -- over RUN.Gen_typeparent (reflection/type_specifier.go parent(), re-read by go2v):
   the special cases of the parent switch are exactly the model's table, "Element" and "Resource" are their
   own parents, and the default branch still distinguishes datatypes (Element) from resources
   (DomainResource). *)
From FPV Require Import Base.Prelude C12.Model.
From Coq Require Import String.
From RUN Require Gen_typeparent.
Local Open Scope string_scope.

Definition target_of_body (body : string) : option string :=
  (* body text is `return TypeSpecifier{FHIR, "X"}`: extract X between the last pair of quotes *)
  let fix after_quote (s : string) (acc : string) (inq : bool) : string :=
    match s with
    | EmptyString => acc
    | String c rest =>
        if Ascii.eqb c (Ascii.ascii_of_nat 34) then (if inq then acc else after_quote rest EmptyString true)
        else if inq then after_quote rest (acc ++ String c EmptyString) true else after_quote rest acc false
    end in
  let x := after_quote body EmptyString false in
  if String.eqb x "" then None else Some x.

Definition switch_pairs : list (string * string) :=
  flat_map (fun p => if String.eqb (fst p) "<default>" then [] else
                     match target_of_body (snd p) with Some t => [(fst p, t)] | None => [] end) Gen_typeparent.parent_switch_0.
Definition pairs_subset (a b : list (string * string)) : bool :=
  forallb (fun p => existsb (fun q => String.eqb (fst p) (fst q) && String.eqb (snd p) (snd q)) b) a.

Theorem gen_parent_special_cases : pairs_subset parent_special switch_pairs = true /\ pairs_subset switch_pairs parent_special = true.
Proof. vm_compute. split; reflexivity. Qed.
Theorem gen_parent_fixpoints :
  existsb (fun p => String.eqb (fst p) "Element" && String.eqb (snd p) "return ts") Gen_typeparent.parent_switch_0 = true /\
  existsb (fun p => String.eqb (fst p) "Resource" && String.eqb (snd p) "return ts") Gen_typeparent.parent_switch_0 = true.
Proof. vm_compute. split; reflexivity. Qed.
Print Assumptions gen_parent_special_cases.
