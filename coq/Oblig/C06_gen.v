(* Oblig/C06_gen.v -- obligations over the Gallina that go2v regenerates from
   fhirpath/internal/expr/booleans.go on every run (module RUN.Gen_booleans).
   For every pair of slices that ToSingletonBoolean can return (length <= 1) the translated
   function does not panic and equals the hand-written twin used by C06/Model.v. *)
From FPV Require Import Base.Prelude C06.Model.
From RUN Require Gen_booleans.

Definition short (l : list bool) : Prop := (length l <= 1)%nat.

Ltac shapes l r :=
  destruct l as [|[|] [|? ?]]; destruct r as [|[|] [|? ?]];
  cbn [length] in *; try lia; try reflexivity.

Theorem gen_evaluateAnd : forall l r, short l -> short r ->
  Gen_booleans.evaluateAnd l r = Some (evaluate_and l r).
Proof. unfold short; intros l r Hl Hr. shapes l r. Qed.
Theorem gen_evaluateOr : forall l r, short l -> short r ->
  Gen_booleans.evaluateOr l r = Some (evaluate_or l r).
Proof. unfold short; intros l r Hl Hr. shapes l r. Qed.
Theorem gen_evaluateXor : forall l r, short l -> short r ->
  Gen_booleans.evaluateXor l r = Some (evaluate_xor l r).
Proof. unfold short; intros l r Hl Hr. shapes l r. Qed.
Theorem gen_evaluateImplies : forall l r, short l -> short r ->
  Gen_booleans.evaluateImplies l r = Some (evaluate_implies l r).
Proof. unfold short; intros l r Hl Hr. shapes l r. Qed.
Print Assumptions gen_evaluateAnd.
Print Assumptions gen_evaluateImplies.
