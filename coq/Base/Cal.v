
(* Base/Cal.v -- proleptic Gregorian calendar: civil date <-> day number (Hinnant's algorithms with
   floor division) and the UNBOUNDED round-trip theorem: both algorithms are periodic in the 400-year era,
   one era (146 097 days) is checked by a reflective range iterator, and the result is lifted to all of Z. *)
From FPV Require Import Base.Prelude.

(* Hinnant's algorithms, floor division (Coq's / and mod are floor) *)
Definition days_from_civil (y m d : Z) : Z :=
  let y := if m <=? 2 then y - 1 else y in
  let era := y / 400 in
  let yoe := y - era * 400 in
  let mp := (m + 9) mod 12 in
  let doy := (153 * mp + 2) / 5 + d - 1 in
  let doe := yoe * 365 + yoe / 4 - yoe / 100 + doy in
  era * 146097 + doe - 719468.
Definition civil_from_days (z : Z) : Z * Z * Z :=
  let z := z + 719468 in
  let era := z / 146097 in
  let doe := z - era * 146097 in
  let yoe := (doe - doe / 1460 + doe / 36524 - doe / 146096) / 365 in
  let y := yoe + era * 400 in
  let doy := doe - (365 * yoe + yoe / 4 - yoe / 100) in
  let mp := (5 * doy + 2) / 153 in
  let d := doy - (153 * mp + 2) / 5 + 1 in
  let m := if mp <? 10 then mp + 3 else mp - 9 in
  (if m <=? 2 then y + 1 else y, m, d).

(* iterate a boolean predicate over [lo, lo+n) without materialising a list *)
Fixpoint all_pos (p : positive) (lo : Z) (f : Z -> bool) : bool * Z :=
  (* checks 'p' consecutive values starting at lo; returns (ok, next) *)
  match p with
  | xH => (f lo, lo + 1)
  | xO q => let '(a, n1) := all_pos q lo f in if a then all_pos q n1 f else (false, n1)
  | xI q => let '(a, n1) := all_pos q lo f in
            if a then let '(b, n2) := all_pos q n1 f in if b then (f n2, n2 + 1) else (false, n2) else (false, n1)
  end.
Lemma all_pos_next p : forall lo f, snd (all_pos p lo f) = lo + Zpos p \/ fst (all_pos p lo f) = false.
Proof.
  induction p as [q IH|q IH|]; intros lo f; cbn [all_pos].
  - destruct (all_pos q lo f) as [a n1] eqn:E1. destruct a; [|right; reflexivity].
    destruct (all_pos q n1 f) as [b n2] eqn:E2. destruct b; [|right; reflexivity].
    left. cbn. pose proof (IH lo f) as H1. pose proof (IH n1 f) as H2. rewrite E1 in H1. rewrite E2 in H2. cbn in *.
    destruct H1 as [H1|H1]; [|discriminate]. destruct H2 as [H2|H2]; [|discriminate]. lia.
  - destruct (all_pos q lo f) as [a n1] eqn:E1. destruct a; [|right; reflexivity].
    pose proof (IH lo f) as H1. rewrite E1 in H1. cbn in H1. destruct H1 as [H1|H1]; [|discriminate].
    destruct (IH n1 f) as [H2|H2]; [left|right; exact H2]. rewrite H2. lia.
  - left. cbn. lia.
Qed.
Lemma all_pos_sound p : forall lo f, fst (all_pos p lo f) = true -> forall z, lo <= z < lo + Zpos p -> f z = true.
Proof.
  induction p as [q IH|q IH|]; intros lo f H z Hz; cbn [all_pos] in H.
  - destruct (all_pos q lo f) as [a n1] eqn:E1. destruct a; [|discriminate].
    destruct (all_pos q n1 f) as [b n2] eqn:E2. destruct b; [|discriminate]. cbn in H.
    pose proof (all_pos_next q lo f) as N1. rewrite E1 in N1. cbn in N1. destruct N1 as [N1|N1]; [|discriminate].
    pose proof (all_pos_next q n1 f) as N2. rewrite E2 in N2. cbn in N2. destruct N2 as [N2|N2]; [|discriminate].
    destruct (Z_lt_dec z n1). { apply (IH lo f); [rewrite E1; reflexivity|lia]. }
    destruct (Z_lt_dec z n2). { apply (IH n1 f); [rewrite E2; reflexivity|lia]. }
    assert (z = n2) by lia. subst. exact H.
  - destruct (all_pos q lo f) as [a n1] eqn:E1. destruct a; [|discriminate].
    pose proof (all_pos_next q lo f) as N1. rewrite E1 in N1. cbn in N1. destruct N1 as [N1|N1]; [|discriminate].
    destruct (Z_lt_dec z n1). { apply (IH lo f); [rewrite E1; reflexivity|lia]. }
    apply (IH n1 f); [exact H|lia].
  - cbn in H. assert (z = lo) by lia. subst. exact H.
Qed.

Definition tripb (a b : Z*Z*Z) := let '(y,m,d) := a in let '(y',m',d') := b in (y =? y') && (m =? m') && (d =? d').
Definition rt (z : Z) : bool :=
  let '(y,m,d) := civil_from_days z in
  (days_from_civil y m d =? z) && (1 <=? m) && (m <=? 12) && (1 <=? d) && (d <=? 31).

(* one era: z + 719468 in [0, 146097) *)
Definition lo := -719468. Definition cnt := 146097%positive.
Lemma era_ok : fst (all_pos cnt lo rt) = true.
Proof. vm_compute. reflexivity. Qed.

Lemma cfd_shift z k : civil_from_days (z + k * 146097) =
  let '(y,m,d) := civil_from_days z in (y + 400 * k, m, d).
Proof.
  unfold civil_from_days.
  replace (z + k * 146097 + 719468) with (z + 719468 + k * 146097) by lia.
  rewrite Z.div_add by lia.
  set (era := (z + 719468) / 146097).
  replace (z + 719468 + k * 146097 - (era + k) * 146097) with (z + 719468 - era * 146097) by lia.
  set (doe := z + 719468 - era * 146097).
  set (yoe := (doe - doe / 1460 + doe / 36524 - doe / 146096) / 365).
  set (doy := doe - (365 * yoe + yoe / 4 - yoe / 100)).
  set (mp := (5 * doy + 2) / 153).
  destruct (mp <? 10); [destruct (mp + 3 <=? 2)|destruct (mp - 9 <=? 2)]; f_equal; f_equal; lia.
Qed.
Lemma dfc_shift y m d k : days_from_civil (y + 400 * k) m d = days_from_civil y m d + k * 146097.
Proof.
  unfold days_from_civil.
  destruct (m <=? 2).
  - replace (y + 400 * k - 1) with (y - 1 + k * 400) by lia. rewrite Z.div_add by lia.
    set (era := (y - 1) / 400).
    replace (y - 1 + k * 400 - (era + k) * 400) with (y - 1 - era * 400) by lia. lia.
  - replace (y + 400 * k) with (y + k * 400) by lia. rewrite Z.div_add by lia.
    set (era := y / 400).
    replace (y + k * 400 - (era + k) * 400) with (y - era * 400) by lia. lia.
Qed.
Theorem days_civil_roundtrip z :
  let '(y,m,d) := civil_from_days z in days_from_civil y m d = z /\ 1 <= m <= 12 /\ 1 <= d <= 31.
Proof.
  set (k := (z + 719468) / 146097). set (z0 := z - k * 146097).
  assert (Hz0 : lo <= z0 < lo + Zpos cnt).
  { unfold lo, cnt, z0, k. pose proof (Z.div_mod (z + 719468) 146097 ltac:(lia)).
    pose proof (Z.mod_pos_bound (z + 719468) 146097 ltac:(lia)). lia. }
  pose proof (all_pos_sound cnt lo rt era_ok z0 Hz0) as R.
  replace z with (z0 + k * 146097) by (unfold z0; lia).
  rewrite cfd_shift. unfold rt in R. destruct (civil_from_days z0) as [[y m] d].
  repeat (apply andb_prop in R; destruct R as [R ?]).
  apply Z.eqb_eq in R. repeat match goal with H: (_ <=? _) = true |- _ => apply Z.leb_le in H end.
  rewrite dfc_shift. lia.
Qed.


(* ---- the converse direction: a valid civil date survives the trip through its day number ------------- *)
Definition leapb (y : Z) : bool := ((y mod 4 =? 0) && negb (y mod 100 =? 0)) || (y mod 400 =? 0).
Definition dimb (y m : Z) : Z :=
  if (m =? 2) then (if leapb y then 29 else 28)
  else if (m =? 4) || (m =? 6) || (m =? 9) || (m =? 11) then 30 else 31.
Definition valid_civil (y m d : Z) : Prop := 1 <= m <= 12 /\ 1 <= d <= dimb y m.

(* one era of civil dates, flattened: i in [0, 400*12*31) *)
Definition rt_civil (i : Z) : bool :=
  let y := i / 372 in
  let m := (i / 31) mod 12 + 1 in
  let d := i mod 31 + 1 in
  if d <=? dimb y m then tripb (civil_from_days (days_from_civil y m d)) (y, m, d) else true.
Lemma era_civil_ok : fst (all_pos 148800%positive 0 rt_civil) = true.
Proof. vm_compute. reflexivity. Qed.

Lemma dimb_shift y m k : dimb (y + 400 * k) m = dimb y m.
Proof.
  unfold dimb, leapb.
  replace ((y + 400 * k) mod 4) with (y mod 4) by (replace (y + 400 * k) with (y + (100 * k) * 4) by lia; rewrite Z.mod_add by lia; reflexivity).
  replace ((y + 400 * k) mod 100) with (y mod 100) by (replace (y + 400 * k) with (y + (4 * k) * 100) by lia; rewrite Z.mod_add by lia; reflexivity).
  replace ((y + 400 * k) mod 400) with (y mod 400) by (replace (y + 400 * k) with (y + k * 400) by lia; rewrite Z.mod_add by lia; reflexivity).
  reflexivity.
Qed.

Theorem civil_days_roundtrip y m d : valid_civil y m d -> civil_from_days (days_from_civil y m d) = (y, m, d).
Proof.
  intros [Hm Hd].
  set (k := y / 400). set (y0 := y - 400 * k).
  assert (Hy0 : 0 <= y0 < 400) by (unfold y0, k; pose proof (Z.div_mod y 400 ltac:(lia)); pose proof (Z.mod_pos_bound y 400 ltac:(lia)); lia).
  replace y with (y0 + 400 * k) in * by (unfold y0; lia).
  rewrite dimb_shift in Hd.
  rewrite dfc_shift, cfd_shift.
  set (i := y0 * 372 + (m - 1) * 31 + (d - 1)).
  assert (Hd31 : d <= 31) by (unfold dimb in Hd; destruct (m =? 2); [destruct (leapb y0); lia|destruct ((m =? 4) || (m =? 6) || (m =? 9) || (m =? 11)); lia]).
  assert (Hi : 0 <= i < 0 + Zpos 148800) by (unfold i; lia).
  pose proof (all_pos_sound 148800%positive 0 rt_civil era_civil_ok i Hi) as R.
  unfold rt_civil in R.
  assert (E1 : i / 372 = y0) by (unfold i; symmetry; apply (Z.div_unique _ 372 y0 ((m - 1) * 31 + (d - 1))); lia).
  assert (E2 : i / 31 = y0 * 12 + (m - 1)) by (unfold i; symmetry; apply (Z.div_unique _ 31 (y0 * 12 + (m - 1)) (d - 1)); lia).
  assert (E3 : i mod 31 = d - 1) by (unfold i; symmetry; apply (Z.mod_unique _ 31 (y0 * 12 + (m - 1)) (d - 1)); lia).
  assert (E4 : (y0 * 12 + (m - 1)) mod 12 = m - 1) by (symmetry; apply (Z.mod_unique _ 12 y0 (m - 1)); lia).
  rewrite E1, E2, E3, E4 in R. replace (m - 1 + 1) with m in R by lia. replace (d - 1 + 1) with d in R by lia.
  assert (E5 : d <=? dimb y0 m = true) by lia. rewrite E5 in R.
  destruct (civil_from_days (days_from_civil y0 m d)) as [[y' m'] d'].
  unfold tripb in R. repeat (apply andb_prop in R; destruct R as [R ?]).
  apply Z.eqb_eq in R. repeat match goal with H : (_ =? _) = true |- _ => apply Z.eqb_eq in H end. subst. reflexivity.
Qed.

(* what civil_from_days returns is a valid civil date *)
Lemma civil_from_days_fst_snd z : let '(y, m, d) := civil_from_days z in 1 <= m <= 12 /\ 1 <= d <= 31.
Proof. pose proof (days_civil_roundtrip z). destruct (civil_from_days z) as [[y m] d]. tauto. Qed.
