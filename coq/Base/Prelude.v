(* Base/Prelude.v -- common vocabulary of the development.
   No proofs about the repository here; only Go-level primitives and the
   option-monad combinators that the go2v translator's output is written in. *)
From Coq Require Export ZArith List Bool Lia NArith.
From Coq Require Export ZifyBool ZifyNat ZifyN.
Export ListNotations.
Open Scope Z_scope.

(* ---- outcomes of a Go call as the harness observes them ---------------- *)
(* Ok v | Err (an error value was returned) | Panic (the call crashed). *)
Inductive res (A : Type) : Type :=
| Ok (v : A)
| Err
| Panic.
Arguments Ok {A} v.
Arguments Err {A}.
Arguments Panic {A}.

Definition res_eqb {A} (eqb : A -> A -> bool) (x y : res A) : bool :=
  match x, y with
  | Ok a, Ok b => eqb a b
  | Err, Err => true
  | Panic, Panic => true
  | _, _ => false
  end.

(* ---- fixed-width integers --------------------------------------------- *)
Definition wrap32 (z : Z) : Z := ((z + 2147483648) mod 4294967296) - 2147483648.
Definition wrap64 (z : Z) : Z := ((z + 9223372036854775808) mod 18446744073709551616) - 9223372036854775808.
Definition wrapu64 (z : Z) : Z := z mod 18446744073709551616.
Definition wrapu32 (z : Z) : Z := z mod 4294967296.
Definition wrapu16 (z : Z) : Z := z mod 65536.
Definition wrapu8 (z : Z) : Z := z mod 256.
Definition wrap16 (z : Z) : Z := ((z + 32768) mod 65536) - 32768.
Definition wrap8 (z : Z) : Z := ((z + 128) mod 256) - 128.
Definition min32 : Z := -2147483648.
Definition max32 : Z := 2147483647.
Definition in32 (z : Z) : Prop := -2147483648 <= z <= 2147483647.
Definition in32b (z : Z) : bool := (-2147483648 <=? z) && (z <=? 2147483647).
Definition in64 (z : Z) : Prop := -9223372036854775808 <= z <= 9223372036854775807.
Definition in64b (z : Z) : bool := (-9223372036854775808 <=? z) && (z <=? 9223372036854775807).

(* ---- the option monad in which translated Go code is written ----------- *)
(* None = the Go operation panics (index out of range, integer division by zero). *)
Definition ret {A} (x : A) : option A := Some x.
Definition bind {A B} (m : option A) (f : A -> option B) : option B :=
  match m with Some x => f x | None => None end.
Notation "'do' x <- m ; k" := (bind m (fun x => k)) (at level 200, x name, m at level 100, k at level 200).

Definition lift1 {A B} (f : A -> B) (a : option A) : option B := bind a (fun x => ret (f x)).
Definition lift2 {A B C} (f : A -> B -> C) (a : option A) (b : option B) : option C :=
  bind a (fun x => bind b (fun y => ret (f x y))).
(* Go's short-circuit && and || : the right operand is not evaluated (and so cannot panic)
   when the left one decides. *)
Definition sc_and (a b : option bool) : option bool :=
  match a with Some true => b | Some false => Some false | None => None end.
Definition sc_or (a b : option bool) : option bool :=
  match a with Some true => Some true | Some false => b | None => None end.
Definition go_if {A} (c : option bool) (t e : option A) : option A :=
  match c with Some true => t | Some false => e | None => None end.

(* int32 arithmetic as Go performs it *)
Definition add32 (a b : Z) : Z := wrap32 (a + b).
Definition sub32 (a b : Z) : Z := wrap32 (a - b).
Definition mul32 (a b : Z) : Z := wrap32 (a * b).
Definition neg32 (a : Z) : Z := wrap32 (- a).
Definition quot32 (a b : Z) : option Z := if b =? 0 then None else Some (wrap32 (Z.quot a b)).
Definition rem32 (a b : Z) : option Z := if b =? 0 then None else Some (Z.rem a b).

(* slices of booleans / anything: length and index *)
Definition go_len {A} (l : list A) : Z := Z.of_nat (length l).
Definition go_index {A} (l : list A) (i : Z) : option A :=
  if i <? 0 then None else nth_error l (Z.to_nat i).

Definition Zneqb (a b : Z) : bool := negb (a =? b).

(* ---- strings as lists of Unicode scalar values ------------------------- *)
Definition ustring := list N.
Fixpoint ustr_eqb (a b : ustring) : bool :=
  match a, b with
  | [], [] => true
  | x :: a', y :: b' => N.eqb x y && ustr_eqb a' b'
  | _, _ => false
  end.
Lemma ustr_eqb_eq a : forall b, ustr_eqb a b = true <-> a = b.
Proof.
  induction a as [|x a IH]; intros [|y b]; cbn [ustr_eqb]; split; intro H; try reflexivity; try discriminate.
  - apply andb_prop in H as [H1 H2]. apply N.eqb_eq in H1. apply IH in H2. subst; reflexivity.
  - inversion H; subst. rewrite N.eqb_refl. cbn. apply IH. reflexivity.
Qed.

Fixpoint list_eqb {A} (eqb : A -> A -> bool) (a b : list A) : bool :=
  match a, b with
  | [], [] => true
  | x :: a', y :: b' => eqb x y && list_eqb eqb a' b'
  | _, _ => false
  end.

(* ---- verdict of one correspondence case -------------------------------- *)
(* agree: implementation outcome = model outcome;
   holds: the property's boolean predicate on (input, implementation outcome);
   kf   : known-finding class of the input (0 = none). *)
Record verdict := { v_id : N; v_agree : bool; v_holds : bool; v_kf : N }.
Definition disagreeing (vs : list verdict) : list N :=
  map v_id (filter (fun v => negb (v_agree v)) vs).
Definition failing_unlisted (vs : list verdict) : list N :=
  map v_id (filter (fun v => negb (v_holds v) && (v_kf v =? 0)%N) vs).
Definition failing_listed (vs : list verdict) : list (N * N) :=
  map (fun v => (v_id v, v_kf v)) (filter (fun v => negb (v_holds v) && negb (v_kf v =? 0)%N) vs).
Definition listed_not_failing (vs : list verdict) : list (N * N) :=
  map (fun v => (v_id v, v_kf v)) (filter (fun v => v_holds v && negb (v_kf v =? 0)%N) vs).
