(* Base/Int32.v -- facts about wrap32 used by several proofs. *)
From FPV Require Import Base.Prelude.

Lemma wrap32_range z : in32 (wrap32 z).
Proof. unfold wrap32, in32. pose proof (Z.mod_pos_bound (z + 2147483648) 4294967296 ltac:(lia)). lia. Qed.
Lemma wrap32_id z : in32 z -> wrap32 z = z.
Proof. unfold wrap32, in32; intros. rewrite Z.mod_small; lia. Qed.
Lemma wrap32_cong z : exists k, wrap32 z = z - k * 4294967296.
Proof. unfold wrap32. exists ((z + 2147483648) / 4294967296).
  pose proof (Z.div_mod (z + 2147483648) 4294967296 ltac:(lia)). lia. Qed.
Lemma in32b_spec z : in32b z = true <-> in32 z.
Proof. unfold in32b, in32. rewrite andb_true_iff, !Z.leb_le. tauto. Qed.
Lemma in32b_false z : in32b z = false <-> ~ in32 z.
Proof. rewrite <- in32b_spec. destruct (in32b z); split; intro H; try reflexivity; try discriminate.
  exfalso; apply H; reflexivity. Qed.

Lemma quot_abs_le r j : j <> 0 -> Z.abs (Z.quot r j) <= Z.abs r.
Proof.
  intro Hj. rewrite <- Z.quot_abs by lia.
  pose proof (Z.mul_quot_le (Z.abs r) (Z.abs j) ltac:(lia) ltac:(lia)).
  assert (0 <= Z.abs r ÷ Z.abs j) by (apply Z.quot_pos; lia).
  nia.
Qed.
