(* Props/C05.v -- property C05: equality and ordering operators form one consistent partial order. *)
From FPV Require Import Base.Prelude C08.Model C05.Model C05.Proofs.

(* The model of EqualityExpression / ComparisonExpression (Normalize, TryEqual, Less, Collection.TryEqual)
   equals the reference comparison for operand collections of ANY length and content, outside the one
   listed known-finding class (a bare number against a Quantity). *)
Theorem C05_model_is_spec : forall o l r, any_kf_pair l r = false -> model_op o l r = spec_op o l r.
Proof. exact model_is_spec. Qed.
Theorem C05_holds_model : forall c, kf c = 0%N -> holds c (model c) = true.
Proof. exact holds_model. Qed.
Print Assumptions C05_model_is_spec.
Example C05_nonvacuous : any_kf_pair [VInt 1; VDate [2020;1]] [VDec 10 (-1); VDateTime [2020;1;5]] = false.
Proof. reflexivity. Qed.
(* inside the class the unrestricted statement is false of the faithful model (the finding) *)
Theorem C05_model_is_spec_refuted : exists o l r, model_op o l r <> spec_op o l r.
Proof. exists OpEq, [VInt 1], [VQty 1 0 2%N]. vm_compute. discriminate. Qed.

(* laws of the reference (and therefore of the model wherever C05_model_is_spec applies) *)
Theorem C05_eq_sym : forall a b, ref_op OpEq a b = ref_op OpEq b a.
Proof. exact eq_sym_ref. Qed.
Theorem C05_ne_is_negation_or_both_empty : forall a b, ref_op OpNe a b = omap negb (ref_op OpEq a b).
Proof. exact ne_is_negation. Qed.
Theorem C05_lt_gt_converse : forall a b, ref_op OpLt a b = ref_op OpGt b a.
Proof. exact lt_gt_converse. Qed.
Theorem C05_le_iff_not_gt : forall a b, ref_op OpLe a b = omap negb (ref_op OpGt a b).
Proof. exact le_iff_not_gt. Qed.
Theorem C05_ge_iff_not_lt : forall a b, ref_op OpGe a b = omap negb (ref_op OpLt a b).
Proof. exact ge_iff_not_lt. Qed.
Theorem C05_at_most_one_of_lt_eq_gt : forall a b,
  let t o := match ref_op o a b with Ok (Some true) => true | _ => false end in
  (t OpLt && t OpEq = false) /\ (t OpLt && t OpGt = false) /\ (t OpEq && t OpGt = false).
Proof. exact at_most_one. Qed.
(* < is transitive across all value kinds, mixed Integer/Decimal scales, mixed Date/DateTime precisions *)
Theorem C05_lt_trans : forall a b c,
  ref_op OpLt a b = Ok (Some true) -> ref_op OpLt b c = Ok (Some true) -> ref_op OpLt a c = Ok (Some true).
Proof. exact lt_trans. Qed.
Print Assumptions C05_lt_trans.
Example C05_lt_trans_nonvacuous :
  ref_op OpLt (VDate [2020]) (VDateTime [2021; 5]) = Ok (Some true) /\ ref_op OpLt (VDateTime [2021; 5]) (VDate [2021; 6; 1]) = Ok (Some true).
Proof. split; reflexivity. Qed.
Theorem C05_empty_operand_gives_empty : forall o l, spec_op o [] l = Ok None /\ spec_op o l [] = Ok None.
Proof. exact empty_operand_gives_empty. Qed.
(* two collections of the same length are equal iff EVERY corresponding pair of items is equal *)
Theorem C05_coll_eq_every_pair : forall l r, length l = length r ->
  (coll_eq_ref_pairs l r = Some true <-> Forall2 (fun a b => item_eq_ref a b = Some true) l r).
Proof. exact coll_eq_every_pair. Qed.
Theorem C05_coll_ne_has_unequal_pair : forall l r, coll_eq_ref_pairs l r = Some false ->
  exists a b, In a l /\ In b r /\ item_eq_ref a b = Some false.
Proof. exact coll_eq_false_at_a_pair. Qed.
Print Assumptions C05_coll_eq_every_pair.
