(* Props/C09.v -- property C09: date/time arithmetic matches calendar arithmetic and preserves precision. *)
From FPV Require Import Base.Prelude Base.Cal C08.Model C09.Model C09.Proofs.

(* the calendar itself: both round trips hold for EVERY day number and EVERY valid civil date (no bound):
   era periodicity + one reflected era *)
Theorem C09_days_civil_roundtrip : forall z,
  let '(y, m, d) := civil_from_days z in days_from_civil y m d = z /\ 1 <= m <= 12 /\ 1 <= d <= 31.
Proof. exact days_civil_roundtrip. Qed.
Theorem C09_civil_days_roundtrip : forall y m d, valid_civil y m d -> civil_from_days (days_from_civil y m d) = (y, m, d).
Proof. exact civil_days_roundtrip. Qed.
Print Assumptions C09_civil_days_roundtrip.

Theorem C09_preserves_type_precision_offset : forall o x u c e t, ref_arith o x u c e = Ok t -> same_shape x t.
Proof. exact preserves_type_precision_offset. Qed.
Theorem C09_add_months_clamps : forall y m d k,
  let '(y', m', d') := add_months_clamp y m d k in d' = Z.min d (dim y' m') /\ 1 <= m' <= 12.
Proof. exact add_months_clamps. Qed.
Theorem C09_week_is_7_days : forall o x v, ref_arith o x UWeek v 0 = ref_arith o x UDay (7 * v) 0.
Proof. exact week_is_7_days. Qed.
Theorem C09_time_wraps_midnight : forall o prec h mi msm u c e t,
  ref_arith o (TTime prec h mi msm) u c e = Ok t ->
  exists h' mi' msm', t = TTime prec h' mi' msm' /\ 0 <= h' < 24 /\ 0 <= mi' < 60 /\ 0 <= msm' < 60000.
Proof. exact time_wraps_midnight. Qed.
Theorem C09_add_days_monotone : forall y m d a b, a <= b ->
  let '(y1, m1, d1) := add_days y m d a in let '(y2, m2, d2) := add_days y m d b in
  days_from_civil y1 m1 d1 <= days_from_civil y2 m2 d2.
Proof. exact add_days_monotone. Qed.
(* (x + q) - q = x *)
Theorem C09_date_add_sub_days_inverse : forall y m d n, valid_civil y m d ->
  exists t, ref_arith AAdd (TDate 2 y m d) UDay n 0 = Ok t /\ ref_arith ASub t UDay n 0 = Ok (TDate 2 y m d).
Proof. exact date_add_sub_days_inverse. Qed.
Theorem C09_date_add_sub_months_inverse : forall y m d k, 1 <= m <= 12 -> d <= 28 ->
  exists t, ref_arith AAdd (TDate 2 y m d) UMonth k 0 = Ok t /\ ref_arith ASub t UMonth k 0 = Ok (TDate 2 y m d).
Proof. exact date_add_sub_months_inverse. Qed.
Theorem C09_add_months_inverse_general : forall y m d k, 1 <= m <= 12 ->
  (let '(y', m') := add_months_ym y m k in d <= dim y' m') -> d <= dim y m ->
  let '(y', m', d') := add_months_clamp y m d k in add_months_clamp y' m' d' (- k) = (y, m, d).
Proof. exact add_months_inverse_general. Qed.
Example C09_inverse_nonvacuous : valid_civil 2020 2 29 /\ 1 <= 1 <= 12.
Proof. unfold valid_civil. cbn. lia. Qed.
Print Assumptions C09_date_add_sub_days_inverse.
(* unsupported or non-temporal units are errors, never a silently unchanged value *)
Theorem C09_bad_unit_is_error : forall o x c e, ref_arith o x UOther c e = Err.
Proof. exact bad_unit_is_error. Qed.
Theorem C09_calendar_unit_on_time_is_error : forall o prec h mi msm u c e,
  is_clock_unit u = false -> ref_arith o (TTime prec h mi msm) u c e = Err.
Proof. exact calendar_unit_on_time_is_error. Qed.
Theorem C09_quantity_same_unit_only : forall o c1 e1 u1 c2 e2 u2, u1 <> u2 -> q_ref o c1 e1 u1 c2 e2 u2 = Err.
Proof. exact quantity_same_unit_only. Qed.
(* the model of the code is the reference outside the two listed classes *)
Theorem C09_model_is_ref : forall o x u c e, kf_of x u c e = 0%N -> model_arith o x u c e = MExact (ref_arith o x u c e).
Proof. exact model_is_ref. Qed.
Theorem C09_model_refuted_in_class_1 : exists o x u c e, model_arith o x u c e <> MExact (ref_arith o x u c e).
Proof. exists AAdd, (TDate 2 2020 1 31), UHour, 24, 0. vm_compute. discriminate. Qed.
Print Assumptions C09_model_is_ref.
