(* Props/C03.v -- property C03: evaluation never mutates its inputs. *)
From FPV Require Import Base.Prelude C03.Model C03.Proofs.

(* Go's slice semantics (append in place or reallocate, sub-slices, in-place writes) over a heap of backing
   arrays: a set of statements that passes the flow-insensitive discipline never changes an array that existed
   before the run -- for every sequence of operations drawn from the set (any control flow), every heap, every
   environment, every capacity *)
Theorem C03_discipline_sound : forall c ss, check c ss = true ->
  forall ops n0 h0 e0, (forall o, In o ops -> In (stmt_of o) ss) ->
  (forall x, c x = true -> (n0 <= s_arr (e0 x))%nat) -> (n0 <= List.length h0)%nat ->
  forall a, (a < n0)%nat -> nth a (fst (run ops (h0, e0))) [] = nth a h0 [].
Proof. exact discipline_sound. Qed.
(* ... as whole arrays: the spare capacity behind a caller's collection included *)
Theorem C03_old_arrays_intact : forall c ss, check c ss = true ->
  forall ops n0 h0 e0, (forall o, In o ops -> In (stmt_of o) ss) ->
  (forall x, c x = true -> (n0 <= s_arr (e0 x))%nat) -> (n0 <= List.length h0)%nat ->
  firstn n0 (fst (run ops (h0, e0))) = firstn n0 h0.
Proof. exact old_arrays_intact. Qed.
(* the discipline is not vacuous: compacting a result into the input is rejected, and does overwrite the input *)
Theorem C03_in_place_compaction_rejected : check (infer 2 [0%nat] compact_in_place) compact_in_place = false.
Proof. exact compact_rejected. Qed.
Print Assumptions C03_discipline_sound.
Print Assumptions C03_old_arrays_intact.
