(* Props/C13.v -- property C13: conversion functions are mutually consistent and follow the FHIRPath
   conversion table. *)
From FPV Require Import Base.Prelude C08.Model C05.Model C13.Model C13.Proofs.

Theorem C13_to_result_has_type_T : forall t x v, conv_ref t x = Some v -> has_type t v = true.
Proof. exact to_result_has_type. Qed.
Theorem C13_to_idempotent : forall t x v, t <> TStr -> conv_ref t x = Some v -> conv_ref t (IVal v) = Some v.
Proof. exact to_idempotent. Qed.
Theorem C13_unconvertible_is_empty : forall t x o,
  kf_of t x = 0%N -> conv_ref t x = None -> model_allows t x o = true -> o = OEmpty.
Proof. exact unconvertible_is_empty. Qed.
Theorem C13_conversion_table : forall t v, conv_ref t (IVal v) <> None ->
  match t, v with
  | TBool, (VBool _ | VInt _ | VDec _ _) | TInt, (VInt _ | VBool _) | TDec, (VDec _ _ | VInt _ | VBool _)
  | TStr, (VBool _ | VInt _ | VDec _ _ | VStr _ | VDate _ | VDateTime _ | VTime _ | VQty _ _ _)
  | TDate, (VDate _ | VDateTime _) | TDateTime, (VDateTime _ | VDate _) | TTime, VTime _
  | TQty, (VQty _ _ _ | VInt _ | VDec _ _ | VBool _) => True
  | _, _ => False
  end.
Proof. exact never_converts_across. Qed.
(* convertsToT iff toT non-empty, toT().toT() = toT(), toString().toT() = x are conjuncts of `holds`, which
   the checker evaluates on every case; outside the listed classes an outcome the model agrees with
   satisfies all of them *)
Theorem C13_agree_implies_holds : forall c o, kf c = 0%N -> agrees c o = true -> holds c o = true.
Proof. exact agree_implies_holds. Qed.
Print Assumptions C13_agree_implies_holds.
Print Assumptions C13_to_result_has_type_T.
Example C13_nonvacuous : kf (TDate, IVal (VDateTime [2020; 2])) = 0%N /\ conv_ref TDate (IVal (VDateTime [2020; 2])) = Some (VDate [2020; 2]).
Proof. split; reflexivity. Qed.
