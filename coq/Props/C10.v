(* Props/C10.v -- property C10: filtering, projection, subsetting and set functions obey the
   collection algebra.  All statements quantify over every collection (any length), every
   per-item criterion value and every integer n. *)
From FPV Require Import Base.Prelude C10.Model C10.Proofs.

Theorem C10_where_is_filter : forall c k, (length c <= length k)%nat -> has_multi (firstn (length c) k) = false ->
  where_ c k = Ok (filter2 c k).
Proof. exact where_is_filter. Qed.
Theorem C10_where_multi_item_criterion_is_error : forall c k, (length c <= length k)%nat ->
  has_multi (firstn (length c) k) = true -> where_ c k = Err.
Proof. exact where_multi_is_error. Qed.
Theorem C10_where_preserves_items_and_order : forall c k x, In x (filter2 c k) -> In x c.
Proof. exact filter2_subsequence. Qed.
Theorem C10_exists_is_where_exists : forall c k,
  exists_p c k = match where_ c k with Ok r => Ok (exists_ r) | Err => Err | Panic => Panic end.
Proof. exact exists_is_where_exists. Qed.
Theorem C10_all_is_forall : forall c k, (length c <= length k)%nat -> has_multi (firstn (length c) k) = false ->
  all_p c k = Ok (forallb crit_true (firstn (length c) k)).
Proof. exact all_is_forall. Qed.
Theorem C10_empty_is_count_zero : forall c, empty_ c = (count_ c =? 0).
Proof. exact empty_is_count_zero. Qed.
Print Assumptions C10_all_is_forall.

Theorem C10_first_is_index0 : forall c, first_ c = index_ c 0.
Proof. exact first_is_index0. Qed.
Theorem C10_first_is_take1 : forall c, first_ c = take_ c 1.
Proof. exact first_is_take1. Qed.
Theorem C10_tail_is_skip1 : forall c, tail_ c = skip_ c 1.
Proof. exact tail_is_skip1. Qed.
Theorem C10_last_is_skip_count_minus1 : forall c, last_ c = skip_ c (count_ c - 1).
Proof. exact last_is_skip_count_minus1. Qed.
(* take(n) followed by skip(n) partitions c for EVERY integer n (negative, zero, beyond the length) *)
Theorem C10_take_skip_partition : forall c n, take_ c n ++ skip_ c n = c.
Proof. exact take_skip_partition. Qed.
Print Assumptions C10_take_skip_partition.

Theorem C10_distinct_nodup : forall c, nodupb (distinct_ c) = true.
Proof. exact distinct_nodup. Qed.
Theorem C10_distinct_covers : forall c x, memb x (distinct_ c) = memb x c.
Proof. exact distinct_covers. Qed.
Theorem C10_is_distinct_iff_count : forall c, is_distinct_ c = (count_ c =? count_ (distinct_ c)).
Proof. exact is_distinct_iff_count. Qed.
Theorem C10_is_distinct_iff_nodup : forall c, is_distinct_ c = nodupb c.
Proof. exact is_distinct_iff_nodup. Qed.
Print Assumptions C10_is_distinct_iff_nodup.

(* exclude: outside the known-finding class the implementation's result is the specification's *)
Theorem C10_exclude_is_spec : forall c d, kf (CExclude c d) = 0%N -> exclude_ c d = exclude_spec c d.
Proof. exact exclude_is_spec. Qed.
Theorem C10_exclude_spec_mem : forall c d x, memb x (exclude_spec c d) = memb x c && negb (memb x d).
Proof. exact exclude_spec_mem. Qed.
(* ... and inside it the property is false of the faithful model (the finding) *)
Theorem C10_exclude_refuted : exists c d, exclude_ c d <> exclude_spec c d.
Proof. exact exclude_refuted. Qed.

Theorem C10_intersect_mem : forall c d x, memb x (intersect_ c d) = memb x c && memb x d.
Proof. exact intersect_mem. Qed.
Theorem C10_intersect_nodup : forall c d, nodupb (intersect_ c d) = true.
Proof. exact intersect_nodup. Qed.
Print Assumptions C10_intersect_mem.

(* the whole model satisfies the property predicate the checker evaluates, on every well-formed case
   outside the known-finding class; hence so does any implementation outcome that agrees with it *)
Theorem C10_holds_model : forall c, wf_case c -> kf c = 0%N -> holds c (model c) = true.
Proof. exact holds_model. Qed.
Theorem C10_agree_implies_holds : forall c o, wf_case c -> kf c = 0%N -> outcome_eqb (model c) o = true -> holds c o = true.
Proof. exact agree_implies_holds. Qed.
Print Assumptions C10_holds_model.
Example C10_nonvacuous : wf_case (CWhere [1;2;3]%N [KT; KE; KT]) /\ kf (CExclude [1;2]%N [2]%N) = 0%N.
Proof. split; [cbn; lia|reflexivity]. Qed.
