(* Props/C06.v -- property C06: Boolean operators follow FHIRPath three-valued logic for every
   operand form.  Only statements, `exact`, and Print Assumptions. *)
From FPV Require Import Base.Prelude C06.Model C06.Proofs.

(* and/or/xor/implies return exactly the Kleene table entry for the operand forms, whatever
   collections the operand expressions produced (any length, any items); a multi-item operand
   is an error, never silently its first item. *)
Theorem C06_boolean_op_table : forall op l r,
  bool_expr op l r =
  match form_of l, form_of r with
  | FTv a, FTv b => Ok (of_tv (kleene op a b))
  | _, _ => Err
  end.
Proof. exact boolean_op_table. Qed.
Print Assumptions C06_boolean_op_table.

Theorem C06_not_table : forall c,
  fn_not c = match form_of c with FTv a => Ok (of_tv (k_not a)) | FMulti => Err end.
Proof. exact not_table. Qed.
Print Assumptions C06_not_table.

Theorem C06_and_comm : forall l r, bool_expr OpAnd l r = bool_expr OpAnd r l.
Proof. exact and_comm. Qed.
Theorem C06_or_comm : forall l r, bool_expr OpOr l r = bool_expr OpOr r l.
Proof. exact or_comm. Qed.
Theorem C06_xor_comm : forall l r, bool_expr OpXor l r = bool_expr OpXor r l.
Proof. exact xor_comm. Qed.
Print Assumptions C06_xor_comm.

Theorem C06_de_morgan_and : forall l r,
  form_of l <> FMulti -> form_of r <> FMulti ->
  res_bind (bool_expr OpAnd l r) fn_not =
  res_bind (fn_not l) (fun nl => res_bind (fn_not r) (fun nr => bool_expr OpOr nl nr)).
Proof. exact de_morgan_and. Qed.
Theorem C06_de_morgan_or : forall l r,
  form_of l <> FMulti -> form_of r <> FMulti ->
  res_bind (bool_expr OpOr l r) fn_not =
  res_bind (fn_not l) (fun nl => res_bind (fn_not r) (fun nr => bool_expr OpAnd nl nr)).
Proof. exact de_morgan_or. Qed.
Theorem C06_implies_is_not_or : forall l r,
  form_of l <> FMulti -> form_of r <> FMulti ->
  bool_expr OpImplies l r = res_bind (fn_not l) (fun nl => bool_expr OpOr nl r).
Proof. exact implies_is_not_or. Qed.
Print Assumptions C06_implies_is_not_or.
(* non-vacuity of the hypotheses: an empty and a non-Boolean singleton operand *)
Example C06_laws_hypotheses_satisfiable : form_of [] <> FMulti /\ form_of [IOther] <> FMulti.
Proof. split; discriminate. Qed.

(* the same singleton rule governs where/exists/all/iif criteria and EvaluateAsBool *)
Theorem C06_criterion_rule : forall c,
  of_resbool (where_one c) = spec_truthy c /\ of_resbool (exists_one c) = spec_truthy c /\
  of_resbool (all_one c) = spec_truthy c /\ of_resbool (iif_one c) = spec_truthy c /\
  of_resbool (as_bool c) = spec_truthy c.
Proof. exact criterion_rule. Qed.
Print Assumptions C06_criterion_rule.

(* the whole model equals the specification, hence any implementation outcome that agrees
   with the model satisfies the property predicate the checker evaluates *)
Theorem C06_model_is_spec : forall c, model c = spec c.
Proof. exact model_is_spec. Qed.
Theorem C06_agree_implies_holds : forall c o, outcome_eqb (model c) o = true -> holds c o = true.
Proof. exact agree_implies_holds. Qed.
Theorem C06_model_never_panics : forall c, model c <> Panic.
Proof. exact model_never_panics. Qed.
Print Assumptions C06_agree_implies_holds.
