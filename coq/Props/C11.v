(* Props/C11.v -- property C11: parsing respects precedence, associativity and token boundaries. *)
From FPV Require Import Base.Prelude C11.Model C11.Proofs.

(* PROVED (partial): for ANY precedence table and every tree of the binary-operator core (atoms, binary
   operators of every level, parenthesised sub-terms) of ANY depth, the model parser inverts the
   minimal-parenthesis printer: the rendering parses back to exactly the tree and leaves exactly the
   following tokens.  Hence the minimal rendering denotes the same tree as any other rendering that parses
   to it (in particular the fully parenthesised one, checked per case by the correspondence run). *)
Theorem C11_parse_render_min_partial : forall T t p rest,
  binary_core T t -> (p <= S (p_invoke T))%nat -> follow_ok T p rest ->
  exists f0, forall f, (f0 <= f)%nat -> parse_expr T f p (render_min T p t ++ rest) = Some (t, rest).
Proof. exact parse_render_min_binary. Qed.
Print Assumptions C11_parse_render_min_partial.
Example C11_parse_render_nonvacuous :
  binary_core fhirpath_table (Bin 21 (Bin 5 (Atom 1) (Bin 1 (Atom 2) (Atom 3))) (Bin 24 (Atom 4) (Atom 5)))
  /\ follow_ok fhirpath_table 0 [].
Proof. cbn. repeat split; lia. Qed.
(* the executable instance on that tree: `1 + 2 * 3 and (4 implies 5)` *)
Example C11_parse_render_instance :
  parse_prog fhirpath_table (render_min fhirpath_table 0 (Bin 21 (Bin 5 (Atom 1) (Bin 1 (Atom 2) (Atom 3))) (Bin 24 (Atom 4) (Atom 5))))
  = Some (Bin 21 (Bin 5 (Atom 1) (Bin 1 (Atom 2) (Atom 3))) (Bin 24 (Atom 4) (Atom 5))).
Proof. vm_compute. reflexivity. Qed.

(* fuel never changes an answer once there is one *)
Theorem C11_parser_fuel_monotone : forall T f p ts x,
  parse_expr T f p ts = Some x -> forall f', (f <= f')%nat -> parse_expr T f' p ts = Some x.
Proof. intros T f. exact (mono_e T f). Qed.

(* Compile consumes the whole source: the model's prog rule accepts only when no token is left *)
Theorem C11_whole_input_consumed : forall T ts t, parse_prog T ts = Some t -> exists f, parse_expr T f 0 ts = Some (t, []).
Proof. exact whole_input_consumed. Qed.
Print Assumptions C11_whole_input_consumed.

(* NOT PROVED (stated in full):
   Theorem C11_parse_render_min : forall T t p rest, wf_tree T t -> follow_ok T p rest ->
     exists f0, forall f, f0 <= f -> parse_expr T f p (render_min T p t ++ rest) = Some (t, rest)
   for the whole tree language (polarity, type operators, member/function invocation, indexer, function
   arguments), and the same for render_full; and the lexer-level statement that whitespace/comment gaps do
   not change the token list.  These are covered by the correspondence run only. *)
