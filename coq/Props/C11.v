(* Props/C11.v -- property C11: parsing respects precedence, associativity and token boundaries. *)
From FPV Require Import Base.Prelude C11.Model C11.Proofs C11.ProofsFull C11.Lexer C11.LexerProofs C11.LexerInsert.

(* PROVED (partial): for ANY precedence table and every tree of the binary-operator core (atoms, binary
   operators of every level, parenthesised sub-terms) of ANY depth, the model parser inverts the
   minimal-parenthesis printer: the rendering parses back to exactly the tree and leaves exactly the
   following tokens.  Hence the minimal rendering denotes the same tree as any other rendering that parses
   to it (in particular the fully parenthesised one, checked per case by the correspondence run). *)
Theorem C11_parse_render_min_partial : forall T t p rest,
  binary_core T t -> (p <= S (p_invoke T))%nat -> follow_ok T p rest ->
  exists f0, forall f, (f0 <= f)%nat -> parse_expr T f p (render_min T p t ++ rest) = Some (t, rest).
Proof. exact parse_render_min_binary. Qed.
Print Assumptions C11_parse_render_min_partial.
Example C11_parse_render_nonvacuous :
  binary_core fhirpath_table (Bin 21 (Bin 5 (Atom 1) (Bin 1 (Atom 2) (Atom 3))) (Bin 24 (Atom 4) (Atom 5)))
  /\ follow_ok fhirpath_table 0 [].
Proof. cbn. repeat split; lia. Qed.
(* the executable instance on that tree: `1 + 2 * 3 and (4 implies 5)` *)
Example C11_parse_render_instance :
  parse_prog fhirpath_table (render_min fhirpath_table 0 (Bin 21 (Bin 5 (Atom 1) (Bin 1 (Atom 2) (Atom 3))) (Bin 24 (Atom 4) (Atom 5))))
  = Some (Bin 21 (Bin 5 (Atom 1) (Bin 1 (Atom 2) (Atom 3))) (Bin 24 (Atom 4) (Atom 5))).
Proof. vm_compute. reflexivity. Qed.

(* fuel never changes an answer once there is one *)
Theorem C11_parser_fuel_monotone : forall T f p ts x,
  parse_expr T f p ts = Some x -> forall f', (f <= f')%nat -> parse_expr T f' p ts = Some x.
Proof. intros T f. exact (mono_e T f). Qed.

(* Compile consumes the whole source: the model's prog rule accepts only when no token is left *)
Theorem C11_whole_input_consumed : forall T ts t, parse_prog T ts = Some t -> exists f, parse_expr T f 0 ts = Some (t, []).
Proof. exact whole_input_consumed. Qed.
Print Assumptions C11_whole_input_consumed.

(* PROVED (full tree language): for any precedence table in which every binary and type operator binds looser than
   polarity and polarity looser than indexers and invocations -- fhirpath.g4's table is one (Example below) --
   every well-formed tree of ANY size over atoms, polarity, binary operators, is/as with qualified type names,
   member access, function and method invocation with argument lists, and indexers, printed with minimal
   parentheses at level p and followed by anything a loop at level p leaves alone, parses back to exactly that
   tree and leaves exactly the rest. *)
Theorem C11_parse_render_min : forall T,
  (p_polarity T < p_index T)%nat -> (p_polarity T < p_invoke T)%nat -> (p_index T <= S (p_invoke T))%nat ->
  forall t p rest, wf T t -> (p <= S (p_invoke T))%nat -> absorbs T p rest = false -> nolp rest ->
  exists f0, forall f, (f0 <= f)%nat -> parse_expr T f p (render_min T p t ++ rest) = Some (t, rest).
Proof. exact parse_render_min_full. Qed.
(* whenever the prog rule answers on a printed tree, it answers that tree *)
Theorem C11_parse_prog_render_min : forall T,
  (p_polarity T < p_index T)%nat -> (p_polarity T < p_invoke T)%nat -> (p_index T <= S (p_invoke T))%nat ->
  forall t, wf T t -> forall t', parse_prog T (render_min T 0 t) = Some t' -> t' = t.
Proof. exact parse_prog_render_min. Qed.
Theorem C11_fhirpath_table_meets_conditions :
  (p_polarity fhirpath_table < p_index fhirpath_table)%nat /\ (p_polarity fhirpath_table < p_invoke fhirpath_table)%nat
  /\ (p_index fhirpath_table <= S (p_invoke fhirpath_table))%nat.
Proof. exact fhirpath_table_conditions. Qed.
Print Assumptions C11_parse_render_min.
Print Assumptions C11_parse_prog_render_min.

(* the fully parenthesised rendering parses back to the tree too, so both renderings denote the same tree *)
Theorem C11_parse_render_full : forall T,
  (p_polarity T < p_index T)%nat -> (p_polarity T < p_invoke T)%nat -> (p_index T <= S (p_invoke T))%nat ->
  forall t rest, wf T t -> tail_ok T t rest -> nolp rest -> absorbs T 0 rest = false ->
  exists f0, forall f, (f0 <= f)%nat -> parse_expr T f 0 (render_full t ++ rest) = Some (t, rest).
Proof. exact parse_render_full. Qed.
Theorem C11_renderings_agree : forall T,
  (p_polarity T < p_index T)%nat -> (p_polarity T < p_invoke T)%nat -> (p_index T <= S (p_invoke T))%nat ->
  forall t, wf T t -> forall a b,
  parse_prog T (render_min T 0 t) = Some a -> parse_prog T (render_full t) = Some b -> a = b.
Proof. exact renderings_agree. Qed.
Print Assumptions C11_renderings_agree.

(* NOT PROVED: the lexer-level statement that whitespace / comment gaps do not change the token list.  It is covered
   by the correspondence run only (six gap decorations of every generated source). *)

(* ---- token boundaries: the character-level lexer model (C11/Lexer.v, tied to the generated lexer by the second
   correspondence stream) ------------------------------------------------------------------------------------- *)
(* PROVED: token texts separated by whitespace lex to exactly those texts, whatever the whitespace is (any non-empty
   mix of blanks, tabs, newlines, carriage returns between tokens; anything, also nothing, before the first and after
   the last), for any number of tokens. *)
Theorem C11_lex_spaced_tokens : forall lgs g0 f,
  wsall g0 -> Forall (fun lg => lexeme (fst lg)) lgs ->
  (forall i lg, nth_error lgs i = Some lg -> S i < length lgs -> wsne (snd lg))%nat ->
  (forall lg, nth_error lgs (pred (length lgs)) = Some lg -> wsall (snd lg)) ->
  (length lgs < f)%nat ->
  lex f (weave g0 lgs) = Some (map fst lgs).
Proof. exact lex_weave. Qed.
(* hence two spellings of one token sequence that differ only in their whitespace have the same token stream *)
Theorem C11_lex_whitespace_irrelevant : forall ls gs1 gs2 g1 g2 f,
  length gs1 = length ls -> length gs2 = length ls ->
  Forall lexeme ls -> Forall wsne gs1 -> Forall wsne gs2 -> wsall g1 -> wsall g2 -> (length ls < f)%nat ->
  lex f (weave g1 (combine ls gs1)) = lex f (weave g2 (combine ls gs2)).
Proof. exact lex_whitespace_irrelevant. Qed.
(* a token followed by a whitespace character ends exactly there, whatever comes after (every token class: names and
   keywords, $-names, numbers with and without fraction, date / time literals, quoted tokens with escapes, one- and
   two-character operators) *)
Theorem C11_token_then_whitespace : forall s l r, scan s = Some (l, r) -> ws_led r ->
  s = l ++ r /\ l <> [] /\ forall r', ws_led r' -> scan (l ++ r') = Some (l, r').
Proof. exact scan_token_then_ws. Qed.
(* leading whitespace never matters, for any source; a line comment with its newline is skipped like whitespace *)
Theorem C11_lex_leading_whitespace : forall g s f, wsall g -> lex f (g ++ s) = lex f s.
Proof. exact lex_leading_ws. Qed.
Theorem C11_line_comment_skipped : forall body s nl,
  forallb (fun c => negb (is_nl c)) body = true -> is_nl nl = true ->
  skipm MTop (47 :: 47 :: body ++ nl :: s)%N = skipm MTop s.
Proof. exact skipm_line_comment. Qed.
Example C11_lexemes_nonvacuous :
  Forall lexeme [[97;95;49]; [49;50;46;53]; [39;97;92;39;98;39]; [36;116;104;105;115]; [60;61]; [33;126]; [47]; [96;32;96];
                 [64;50;48;50;48;45;48;51;84;49;48;58;51;48;90]; [64;84;49;48;58;51;48;58;49;53;46;53]]%N.
Proof. exact lexeme_examples. Qed.
(* PROVED (session 3, the gap statement for whitespace at full strength): for ANY source s -- accepted by the lexer or
   not -- and ANY token boundary of it (b is s itself, or what is left of s right after one of its default-channel
   tokens: `reach s b`), inserting any non-empty whitespace at that boundary, also where the source has no gap there
   (`1+2` versus `1 + 2`, `a.b` versus `a . b`, `x<=y` versus `x <= y`), leaves the token stream unchanged.  Covers every
   token class of the model (DATE / DATETIME / TIME literals included), comments elsewhere in the source (closed, line, and ANTLR's fallback for `/*` that never
   closes: whitespace inserted into it does not close it), for every fuel. *)
Theorem C11_lex_insert_whitespace : forall s b, reach s b -> forall pre g f, s = pre ++ b -> wsne g ->
  lex f (pre ++ g ++ b) = lex f (pre ++ b).
Proof. exact lex_insert_ws. Qed.
(* the two locality facts it rests on: a token ends where it ended whenever what follows is, from some point on,
   unchanged, nothing, or whitespace-led (`sim`), and the
   hidden-channel automaton hands over the same position when whitespace is inserted behind that position *)
Theorem C11_scan_stable : forall s l r, scan s = Some (l, r) ->
  s = l ++ r /\ l <> [] /\ forall r', sim r r' -> scan (l ++ r') = Some (l, r').
Proof. exact scan_stable. Qed.
(* the DATE / DATETIME / TIME literal grammar (nested optional parts) has the same locality, proved once for every
   well-formed grammar of that shape *)
Theorem C11_literal_grammar_stable : forall g, gwf g -> forall s l r, run g s = Some (l, r) ->
  s = l ++ r /\ forall r', sim r r' -> run g (l ++ r') = Some (l, r').
Proof. exact run_stable. Qed.
Theorem C11_unclosed_comment_stays_unclosed : forall a b g m, wsne g -> m = MBlock \/ m = MStar ->
  skipm m (a ++ b) = None -> skipm m (a ++ g ++ b) = None.
Proof. exact block_unclosed_ins. Qed.
Example C11_reach_nonvacuous :
  reach [49; 43; 50; 46; 53; 60; 61; 120]%N [50; 46; 53; 60; 61; 120]%N /\ reach [49; 43; 50; 46; 53; 60; 61; 120]%N [60; 61; 120]%N.
Proof. exact reach_example. Qed.
(* PROVED (comments as gaps): the same for any gap -- text that starts with a whitespace character and that the
   hidden-channel automaton skips whatever follows it: whitespace, then block comments, line comments with their newline,
   more whitespace, in any order (`gap_ok`, closed under concatenation) -- at any boundary before which no token is the
   `/` of a `/*` that never closes (`reach_closed`).  Both side conditions are necessary, in the generated lexer too:
   a comment glued to a `/` token is FHIRPath's own `//` or `/*` opener, and a comment inserted behind an opener that
   never closes closes it. *)
Theorem C11_lex_insert_gap : forall s b, reach_closed s b -> forall pre g f, s = pre ++ b -> gap_ok g ->
  lex f (pre ++ g ++ b) = lex f (pre ++ b).
Proof. exact lex_insert_gap. Qed.
Theorem C11_gaps : (forall g, wsne g -> gap_ok g) /\ (forall g1 g2, gap_ok g1 -> gap_ok g2 -> gap_ok (g1 ++ g2)) /\
  (forall w body nl, is_ws w = true -> forallb (fun c => negb (is_nl c)) body = true -> is_nl nl = true -> gap_ok (w :: 47 :: 47 :: body ++ [nl])%N) /\
  (forall w body, is_ws w = true -> closes body -> gap_ok (w :: 47 :: 42 :: body ++ [42; 47])%N).
Proof. exact (conj gap_ok_ws (conj gap_ok_app (conj gap_ok_line_comment gap_ok_block_comment))). Qed.
Example C11_gap_nonvacuous : reach_closed [97; 47; 98]%N [98]%N /\ gap_ok ([32; 47; 42; 32; 99; 32; 42; 47] ++ [10])%N.
Proof. exact reach_closed_example. Qed.
(* NOT PROVED (correspondence only): the fallback reading of quoted tokens (a backslash taken as an ordinary character
   because the escape-first reading finds no closing quote). *)
Print Assumptions C11_lex_spaced_tokens.
Print Assumptions C11_lex_whitespace_irrelevant.
Print Assumptions C11_token_then_whitespace.
Print Assumptions C11_lex_leading_whitespace.
Print Assumptions C11_line_comment_skipped.
Print Assumptions C11_lex_insert_whitespace.
Print Assumptions C11_scan_stable.
Print Assumptions C11_literal_grammar_stable.
Print Assumptions C11_unclosed_comment_stays_unclosed.
Print Assumptions C11_lex_insert_gap.
Print Assumptions C11_gaps.
