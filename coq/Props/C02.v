(* Props/C02.v -- property C02: path navigation returns exactly the elements of the resource's tree. *)
From FPV Require Import Base.Prelude C19.Model C02.Model C02.Proofs C02.Bridge.

(* the elements at n.rest below t are those at rest below the children named n, child by child in order:
   repeated elements are flattened in document order *)
Theorem C02_elements_at_unfold : forall n rest t,
  elements_at (n :: rest) t = flat_map (fun k => match rest with [] => [k] | _ :: _ => elements_at rest k end) (children_named n t).
Proof. exact elements_at_cons. Qed.
(* for every schema, every tree and every collection: evaluating a path of names is the document-order
   enumeration of the elements at that path -- same number, same order -- or ErrInvalidField when some item
   met on the way has no element of that name *)
Theorem C02_names_path : forall sc names items, names <> [] ->
  navigate sc false (map SName names) items =
  if valid_along sc names items then Ok (flat_map (elements_at names) items) else Err.
Proof. exact navigate_names. Qed.
(* with the root type in front: the elements at the path; the root alone; empty for another resource type;
   ErrInvalidField for a name that is no element *)
Theorem C02_model_meets_spec : forall sc t p s, spec_outcome sc t p = Some s -> model_outcome sc t p = s.
Proof. exact model_meets_spec. Qed.
Theorem C02_empty_stays_empty : forall sc p, navigate sc false p [] = Ok [].
Proof. exact navigate_empty. Qed.
Theorem C02_index : forall k items, index_step k items = match nth_error items (N.to_nat k) with Some x => [x] | None => [] end.
Proof. exact index_step_spec. Qed.
(* what the model computes for ANY query passes the predicate the correspondence evaluates *)
Theorem C02_model_query_holds : forall sc t p, query_holds sc t (p, model_outcome sc t p, true) = true.
Proof. exact model_query_holds. Qed.
Print Assumptions C02_names_path.
Print Assumptions C02_model_meets_spec.
