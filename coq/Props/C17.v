(* Props/C17.v -- property C17: environment variables and custom functions behave as declared. *)
From FPV Require Import Base.Prelude C17.Model C17.Proofs.

(* the option state machine (every option applied in order, errors joined, stores only on success) equals
   the specification, for option lists of ANY length in ANY order *)
Theorem C17_eval_is_spec : forall input os n, eval_var input os n = spec_var input os n.
Proof. exact eval_is_spec. Qed.
Print Assumptions C17_eval_is_spec.
Theorem C17_any_failing_option_prevents_evaluation : forall input os n,
  spec_errs [1%N; 2%N] os <> [] -> exists a b, eval_var input os n = RErr a b.
Proof. exact any_failing_option_prevents_evaluation. Qed.
Theorem C17_context_is_input : forall input os, spec_errs [1%N; 2%N] os = [] -> eval_var input os 1 = RVal (splice input).
Proof. exact context_is_input. Qed.
Theorem C17_ucum_is_url : forall input os, spec_errs [1%N; 2%N] os = [] -> eval_var input os 2 = RVal [KVal 2%N].
Proof. exact ucum_is_url. Qed.
Theorem C17_variable_evaluates_to_supplied : forall input os n v,
  spec_errs [1%N; 2%N] os = [] -> n <> 1%N -> n <> 2%N -> first_valid n os = Some v -> eval_var input os n = RVal (splice v).
Proof. exact variable_evaluates_to_supplied. Qed.
Theorem C17_unknown_variable_is_error : forall input os n,
  spec_errs [1%N; 2%N] os = [] -> n <> 1%N -> n <> 2%N -> first_valid n os = None -> eval_var input os n = RNotFound.
Proof. exact unknown_variable_is_error. Qed.
Theorem C17_unsupported_anywhere_is_unsupported : forall seen os n v,
  In (EVar n v) os -> valid v = false -> has_err EUnsupported (spec_errs seen os) = true.
Proof. exact spec_errs_unsupported. Qed.
Theorem C17_predefined_is_existing : forall os n v, (n = 1%N \/ n = 2%N) -> valid v = true ->
  has_err EExisting (spec_errs [1%N; 2%N] (EVar n v :: os)) = true.
Proof. exact predefined_is_existing. Qed.
Theorem C17_duplicate_is_existing : forall seen n v w os, valid v = true -> valid w = true -> existsb (N.eqb n) seen = false ->
  has_err EExisting (spec_errs seen (EVar n v :: EVar n w :: os)) = true.
Proof. exact duplicate_is_existing. Qed.
Example C17_nonvacuous : spec_errs [1%N; 2%N] [EVar 10 (KColl [KVal 3; KVal 4]); EOverrideTime] = [] /\ first_valid 10 [EVar 10 (KColl [KVal 3; KVal 4])] = Some (KColl [KVal 3; KVal 4]).
Proof. split; reflexivity. Qed.

Theorem C17_bad_signature_rejected_at_compile : forall os1 n s os2 f args,
  sig_valid s = false -> call_custom (os1 ++ CAddFunction n s :: os2) f args = CCompileErr.
Proof. exact bad_signature_rejected_at_compile. Qed.
Theorem C17_builtin_name_rejected : forall os1 n s os2 f args,
  is_builtin n = true -> call_custom (os1 ++ CAddFunction n s :: os2) f args = CCompileErr.
Proof. exact builtin_name_rejected. Qed.
Theorem C17_wellformed_call_invokes : forall n s args, is_builtin n = false -> sig_valid s = true ->
  length args = length (params s) -> forallb (fun ap => assignable (fst ap) (snd ap)) (combine args (params s)) = true ->
  call_custom [CAddFunction n s] n args = CCalled.
Proof. exact wellformed_call_invokes. Qed.
Theorem C17_agree_implies_holds : forall c o, agrees c o = true ->
  (match o with OVar (RErr _ _) ev => ev = false | OFn CCalled ok => ok = true | _ => True end) -> holds c o = true.
Proof. exact agree_implies_holds. Qed.
Print Assumptions C17_agree_implies_holds.

(* a collection is spliced in, not nested: no item of a variable's value is itself a collection, whatever was supplied;
   a collection of plain items comes back exactly as supplied *)
Theorem C17_variable_value_is_flat : forall input os n items, eval_var input os n = RVal items -> forallb is_item items = true.
Proof. exact variable_value_is_flat. Qed.
Print Assumptions C17_variable_value_is_flat.
Theorem C17_plain_collection_exactly_as_supplied : forall l, forallb is_item l = true -> splice (KColl l) = l.
Proof. exact splice_shallow. Qed.
Print Assumptions C17_plain_collection_exactly_as_supplied.
