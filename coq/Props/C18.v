(* Props/C18.v -- property C18: FHIRPatch operations change exactly the targeted element, or nothing. *)
From FPV Require Import Base.Prelude C18.Model C18.Proofs C18.Bridge.

(* an operation that returns an error leaves the resource exactly as it was: every call, every tree *)
Theorem C18_failure_is_atomic : forall c t, fst (expected c t) <> 0%N -> snd (expected c t) = t.
Proof. exact failure_is_atomic. Qed.
Theorem C18_move_not_implemented : forall c t, o_kind c = KMove -> expected c t = (7%N, t).
Proof. exact move_not_implemented. Qed.
(* what was written is what is read back at the target *)
Theorem C18_add_read_back : forall p n v t t1 s, get p t = Some s -> sorted_keys (kids_of s) = true ->
  add_at p n v t = Some t1 -> get (p ++ [(n, count_key n (kids_of s))]) t1 = Some v.
Proof. exact add_read_back. Qed.
Theorem C18_replace_read_back : forall p n i v t t1 s old, get p t = Some s -> nth_key n i (kids_of s) = Some old ->
  replace_at p n i v t = Some t1 -> get (p ++ [(n, i)]) t1 = Some v.
Proof. exact replace_read_back. Qed.
(* every other child of the patched element is what it was *)
Theorem C18_replace_frame : forall p n i v t t1 s s1 m j, get p t = Some s -> replace_at p n i v t = Some t1 -> get p t1 = Some s1 ->
  (m <> n \/ j <> i) -> nth_key m j (kids_of s1) = nth_key m j (kids_of s).
Proof. exact replace_frame_siblings. Qed.
(* inverse pairs restore the whole tree: nothing else was touched, at any depth *)
Theorem C18_add_then_delete : forall p n v t t1 s, get p t = Some s -> sorted_keys (kids_of s) = true ->
  add_at p n v t = Some t1 -> delete_at p n (count_key n (kids_of s)) t1 = Some t.
Proof. exact add_then_delete. Qed.
Theorem C18_replace_then_replace_back : forall p n i v t t1 s old, get p t = Some s -> nth_key n i (kids_of s) = Some old ->
  replace_at p n i v t = Some t1 -> replace_at p n i old t1 = Some t.
Proof. exact replace_then_replace_back. Qed.
Theorem C18_insert_then_delete : forall p n idx v t t1 s, get p t = Some s -> (idx < count_key n (kids_of s))%nat ->
  insert_at p n idx v t = Some t1 -> delete_at p n idx t1 = Some t.
Proof. exact insert_then_delete. Qed.
(* what the model expects of ANY call passes the predicate the correspondence evaluates (outside known finding 1) *)
Theorem C18_model_holds : forall c t, kf (c, t) = 0%N -> o_eval_err c <> 10%N ->
  holds (c, t) (fst (expected c t), snd (expected c t), true) = true.
Proof. exact model_holds_patch. Qed.
Print Assumptions C18_failure_is_atomic.
Print Assumptions C18_add_then_delete.
Print Assumptions C18_replace_frame.
