(* Props/C01.v -- property C01: Compile, Evaluate and Patch are total. *)
From FPV Require Import Base.Prelude C01.Model C01.Proofs.
From FPV Require C02.Model C06.Model C06.Proofs C08.Model C18.Model C19.Model C19.Proofs.

(* no model of the development ever takes the outcome Panic, on any input: *)
(* arithmetic -- every operator, every pair of numbers: zero divisors, int32 limits, huge and tiny decimals *)
Theorem C01_arithmetic_total : forall op a b, C08.Model.arith op a b <> Panic.
Proof. exact arith_total. Qed.
Theorem C01_unary_total : forall op a, C08.Model.unary op a <> Panic.
Proof. exact unary_total. Qed.
(* navigation -- every path (names, indexes out of range included) over every tree *)
Theorem C01_navigation_total : forall sc p first items, C02.Model.navigate sc first p items <> Panic.
Proof. exact navigate_total. Qed.
(* boolean logic, where, all, exists over any collection: empty and multi-item included *)
Theorem C01_boolean_logic_total : forall c, C06.Model.model c <> Panic.
Proof. exact C06.Proofs.model_never_panics. Qed.
(* reference and canonical parsing -- every byte string, every behaviour of url.Parse *)
Theorem C01_reference_parsing_total : forall orc u, C19.Model.parse_uri orc u <> Panic.
Proof. exact C19.Proofs.parse_uri_total. Qed.
Theorem C01_canonical_parsing_total : forall c, C19.Model.canon_parse c <> Panic.
Proof. exact C19.Proofs.canon_parse_total. Qed.
(* FHIRPatch -- every call (nil and wrongly typed values, out-of-range indexes, unpatchable targets) ends in
   success or one of the seven error kinds *)
Theorem C01_patch_total : forall c t, C18.Model.o_eval_err c <> 10%N -> fst (C18.Model.expected c t) <> 10%N.
Proof. exact patch_expected_never_crashes. Qed.
Print Assumptions C01_arithmetic_total.
Print Assumptions C01_navigation_total.
Print Assumptions C01_patch_total.
