(* Props/C19.v -- property C19: reference and identity parsing and formatting are mutual inverses. *)
From FPV Require Import Base.Prelude C19.Model C19.Proofs C19.Bridge.

(* formatting a literal REST reference and parsing it back returns the same components: any of the 145 types
   of the REST expression, any id, any (or no) version, any canonical service base (or none) *)
Theorem C19_format_parse : forall orc P ty id ver,
  base_ok P -> is_rest_type ty = true -> is_id id = true -> ver_ok ver ->
  parse_uri orc (format (LRest (join slash P) ty id ver)) = Ok (LRest (join slash P) ty id ver).
Proof. exact format_parse_rest. Qed.
(* for any accepted string, parse-format-parse returns the same information (any url.Parse behaviour) *)
Theorem C19_parse_format_parse : forall orc u l, parse_uri orc u = Ok l -> nondegenerate l -> parse_uri orc (format l) = Ok l.
Proof. exact parse_format_parse. Qed.
(* ... and the canonical form is the input itself unless the base had redundant trailing slashes *)
Theorem C19_canonical_form_identical : forall orc u l, parse_uri orc u = Ok l -> redundant u = false -> format l = u.
Proof. exact parse_format_identity. Qed.
(* rejected strings produce an error, never a crash *)
Theorem C19_parse_total : forall orc u, parse_uri orc u <> Panic.
Proof. exact parse_uri_total. Qed.
Theorem C19_canonical_total : forall c, canon_parse c <> Panic.
Proof. exact canon_parse_total. Qed.
(* strong and weak references to the same resource: equal information, same reference, same `reference` string *)
Theorem C19_strong_weak : forall orc ty id ver, is_rest_type ty = true -> is_id id = true -> ver_ok ver ->
  let s := strong_ref ty id ver in let w := weak_ref ty id ver in
  literal_of orc s = LOk (Some ty, LRest [] ty id ver) /\
  literal_of orc w = LOk (Some ty, LRest [] ty id ver) /\
  identity_of orc s = Ok (ty, id, ver) /\ identity_of orc w = Ok (ty, id, ver) /\
  ref_is orc s w = true /\ ref_is orc w s = true /\
  fp_reference s = fp_reference w.
Proof. exact strong_weak_same. Qed.
(* the oneof field name of every registry type converts back to the type name *)
Theorem C19_strong_field_roundtrip : forall t, is_type t = true -> strong_type (strong_field t) = t.
Proof. exact strong_field_roundtrip. Qed.
(* reference identity comparison is an equivalence *)
Theorem C19_is_reflexive : forall orc a, ref_is orc a a = true.
Proof. exact ref_is_refl. Qed.
Theorem C19_is_symmetric : forall orc a b, ref_is orc a b = ref_is orc b a.
Proof. exact ref_is_sym. Qed.
Theorem C19_is_transitive : forall orc a b c, ref_is orc a b = true -> ref_is orc b c = true -> ref_is orc a c = true.
Proof. exact ref_is_trans. Qed.
(* well-formed canonicals split into url|version#fragment and reassemble unchanged *)
Theorem C19_canonical_split_join : forall url ver frag, wf_canon (url, ver, frag) = true ->
  canon_parse (canon_format (url, ver, frag)) = Ok (url, ver, frag).
Proof. exact canon_split_join. Qed.
(* the relative identity string splits back into its components *)
Theorem C19_identity_relative : forall ty id ver, is_type ty = true -> nosep slash ty -> nosep slash id -> id <> [] ->
  (ver = [] \/ nosep slash ver) -> id_from_relative (fmt_identity ty id ver) = Ok (ty, id, ver).
Proof. exact identity_relative_roundtrip. Qed.
(* the two known findings, as refutations of the unguarded statements *)
Theorem C19_degenerate_base_refuted : exists orc u l, parse_uri orc u = Ok l /\ parse_uri orc (format l) <> Ok l.
Proof. exact parse_format_parse_unguarded_refuted. Qed.
(* the model satisfies the property predicate the correspondence evaluates: on every reference string outside known
   finding 1, every strong/weak pair outside known finding 2, every triple of references, every canonical *)
Theorem C19_model_holds_uri : forall u tbl, kf (CUri u tbl) = 0%N -> holds (CUri u tbl) (model (CUri u tbl)) = true.
Proof. exact model_holds_uri. Qed.
Theorem C19_model_holds_strong : forall ty id ver tbl, kf (CStrong ty id ver tbl) = 0%N -> holds (CStrong ty id ver tbl) (model (CStrong ty id ver tbl)) = true.
Proof. exact model_holds_strong. Qed.
Theorem C19_model_holds_is : forall a b c tbl, holds (CIs a b c tbl) (model (CIs a b c tbl)) = true.
Proof. exact model_holds_is. Qed.
Theorem C19_model_holds_canon_new : forall url ver frag, holds (CCanonNew url ver frag) (model (CCanonNew url ver frag)) = true.
Proof. exact model_holds_canon_new. Qed.
Theorem C19_model_holds_canon : forall c, holds (CCanon c) (model (CCanon c)) = true.
Proof. exact model_holds_canon. Qed.
Print Assumptions C19_model_holds_uri.
Print Assumptions C19_format_parse.
Print Assumptions C19_parse_format_parse.
Print Assumptions C19_strong_weak.
Print Assumptions C19_is_transitive.
Print Assumptions C19_canonical_split_join.
