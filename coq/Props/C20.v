(* Props/C20.v -- property C20: resource, bundle and extension wrappers are inverses for every R4 type. *)
From FPV Require Import Base.Prelude C19.Model C20.Model C20.Proofs.
From Coq Require Import String.

(* the hand-written snake-casing gives, on all 146 registry types, the plain convention, without collisions *)
Theorem C20_snake_case_registry : forall t, is_type t = true -> to_snake t = snake t.
Proof. exact to_snake_registry. Qed.
Theorem C20_snake_case_injective : nodup_bytes (map to_snake registry_types) = true.
Proof. exact to_snake_registry_injective. Qed.
Theorem C20_extension_fields : forallb (fun t => beqb (ext_field t) (if beqb t (bs "String"%string) then bs "string_value"%string else snake t)) valuex_types = true.
Proof. exact ext_field_valuex_all. Qed.
Theorem C20_extension_fields_distinct : nodup_bytes (map ext_field valuex_types) = true /\ List.length valuex_types = 49%nat.
Proof. exact ext_field_valuex_injective. Qed.
(* wrapping and unwrapping *)
Theorem C20_unwrap_wrap : forall fields name r c, wrap fields name r = Ok c -> unwrap c = Some r.
Proof. exact unwrap_wrap. Qed.
Theorem C20_bundle_unwrap_in_order : forall rs : list (bytes * N),
  bundle_unwrap (map (fun r => Some (to_snake (fst r), snd r)) rs) = map (fun r => Some (snd r)) rs.
Proof. exact bundle_unwrap_wrapped. Qed.
(* extension mutators: only the extensions with the given URL change -- for every list and every sequence of
   operations *)
Theorem C20_upsert_other_urls : forall l e, other_urls (fst e) (upsert l e) = other_urls (fst e) l.
Proof. exact upsert_other_urls. Qed.
Theorem C20_upsert_count : forall l e, List.length (with_url (fst e) (upsert l e)) = Nat.max 1 (List.length (with_url (fst e) l)).
Proof. exact upsert_with_url_count. Qed.
Theorem C20_set_by_url_other_urls : forall l u vs, other_urls u (set_by_url l u vs) = other_urls u l.
Proof. exact set_by_url_other. Qed.
Theorem C20_set_by_url_values : forall l u vs, with_url u (set_by_url l u vs) = map (fun v => (u, v)) vs.
Proof. exact set_by_url_with. Qed.
Theorem C20_every_history : forall ops init, steps_ok init ops (run init ops) = true.
Proof. exact run_steps_ok. Qed.
(* extraction: every element of the type exactly once (in walk order), with or without paths, for every tree *)
Theorem C20_extract_all_complete : forall T t, extract_all T t = typed_uids T t.
Proof. exact extract_all_complete. Qed.
Theorem C20_extract_with_path_complete : forall root T t l, extract_with_path root T t = Some l -> map snd l = typed_uids T t.
Proof. exact extract_with_path_complete. Qed.
(* ... and every label sequence reported for an element leads to that element *)
Theorem C20_paths_locate : forall T t c p u b, wf_tree t = true -> In (p, u, b) (descend T c t) ->
  exists k, locate t p = Some k /\ uid_of k = u /\ ty_of k = T.
Proof. exact descend_locates. Qed.
Print Assumptions C20_snake_case_registry.
Print Assumptions C20_every_history.
Print Assumptions C20_extract_all_complete.
Print Assumptions C20_paths_locate.
