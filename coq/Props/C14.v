(* Props/C14.v -- property C14: string functions operate on characters and are mutually consistent.
   Strings are lists of code points of any length over any alphabet. *)
From FPV Require Import Base.Prelude C14.Model C14.Proofs.

Theorem C14_length_is_count : forall s, length_ s = Z.of_nat (length s).
Proof. exact length_is_count. Qed.
Theorem C14_toChars_count_is_length : forall s, go_len (to_chars s) = length_ s.
Proof. exact toChars_count_is_length. Qed.
Theorem C14_toChars_concat : forall s, concat (to_chars s) = s.
Proof. exact toChars_concat. Qed.

Theorem C14_substring_is_ref : forall s st l,
  (match l with Some n => 0 <= n | None => True end) -> substring s st l = ref_substring s st l.
Proof. exact substring_is_ref. Qed.
(* the reference is the plain list specification: `length` characters from position `start` *)
Theorem C14_ref_substring_plain : forall s st n, 0 <= n -> 0 <= st < Z.of_nat (length s) ->
  ref_substring s st (Some n) = Some (firstn (Z.to_nat n) (skipn (Z.to_nat st) s)).
Proof. exact ref_substring_plain. Qed.
Theorem C14_substring_out_of_range_is_empty : forall s st l,
  st < 0 \/ Z.of_nat (length s) <= st -> substring s st l = None.
Proof. exact substring_out_of_range_is_empty. Qed.
(* s.substring(0,k) & s.substring(k) = s for every k >= 0 *)
Theorem C14_substring_split : forall s k, 0 <= k ->
  str_or_empty (substring s 0 (Some k)) ++ str_or_empty (substring s k None) = s.
Proof. exact substring_split. Qed.
Print Assumptions C14_substring_split.

(* s.indexOf(t) = i >= 0 implies s.substring(i).startsWith(t) *)
Theorem C14_indexOf_then_startsWith : forall s t i, 0 <= index_of s t -> index_of s t = i ->
  starts_with (skipn (Z.to_nat i) s) t = true.
Proof. exact indexOf_then_startsWith. Qed.
Theorem C14_contains_iff_indexOf : forall s t, containsb s t = (0 <=? index_of s t).
Proof. exact contains_iff_indexOf. Qed.
Theorem C14_starts_with_is_prefix : forall s t, starts_with s t = ustr_eqb (firstn (length t) s) t.
Proof. exact starts_with_is_prefix. Qed.
Theorem C14_ends_with_is_suffix : forall s t,
  ends_with s t = ustr_eqb (skipn (length s - length t) s) t && Nat.leb (length t) (length s).
Proof. exact ends_with_is_suffix. Qed.
Print Assumptions C14_ends_with_is_suffix.

Theorem C14_holds_model : forall c, holds c (model c) = true.
Proof. exact holds_model. Qed.
Print Assumptions C14_holds_model.

(* s.substring(0, k) & s.substring(k) = s for every string and every k >= 0 (beyond the end and for the empty string too) *)
Theorem C14_split_join_identity : forall s k, 0 <= k -> opt_str (substring s 0 (Some k)) ++ opt_str (substring s k None) = s.
Proof. exact split_join_identity. Qed.
Print Assumptions C14_split_join_identity.
