(* Props/C07.v -- property C07: empty collections propagate through operators and functions. *)
From FPV Require Import Base.Prelude C16.Model C07.Model C07.Proofs.
From Coq Require Import String.

Theorem C07_empty_propagates_operators : forall o s out,
  o <> OConcat -> allows [] [] (COp o s) out = true -> out = OEmpty.
Proof. exact empty_propagates_operators. Qed.
Theorem C07_concat_treats_empty_as_string : forall s out, allows [] [] (COp OConcat s) out = true -> out = OValue.
Proof. exact concat_treats_empty_as_string. Qed.
Print Assumptions C07_empty_propagates_operators.

(* for any function table all of whose names are classified (an obligation re-proved over the regenerated
   table on every run), every outcome the model allows satisfies the property: implemented
   non-aggregates yield empty on empty input, placeholders yield an error, an empty single-valued
   argument yields empty or an error, and nothing panics *)
Theorem C07_allows_implies_holds : forall base exp c o,
  table_classified (merge_experimental base exp) = true -> table_classified base = true ->
  kf c = 0%N ->        (* outside the one listed known-finding class *)
  allows base exp c o = true -> holds base exp c o = true.
Proof. exact allows_implies_holds. Qed.
(* ... and that exclusion is necessary: the unrestricted statement is false of the faithful model *)
Theorem C07_allows_implies_holds_refuted :
  exists base c o, table_classified base = true /\ allows base [] c o = true /\ holds base [] c o = false.
Proof. exact allows_implies_holds_refuted. Qed.
Theorem C07_allowed_never_panics : forall base exp c, allows base exp c OPanic = false.
Proof. exact allowed_never_panics. Qed.
Print Assumptions C07_allows_implies_holds.

Example C07_nonvacuous :
  let t := [("skip"%string, "Skip"%string, 1, 1); ("count"%string, "Count"%string, 0, 0)] in
  table_classified t = true /\ allows t [] (CInput false "skip" 1) OEmpty = true /\ allows t [] (CInput false "count" 0) OValue = true.
Proof. repeat split. Qed.
