(* Props/C08.v -- property C08: Integer/Decimal arithmetic is exact; overflow and division by
   zero give empty.  Statements only; proofs are in C08/Proofs.v; the tie of the Integer kernels to
   the Go source is Oblig/C08_gen.v (re-proved on every run over go2v's output). *)
From FPV Require Import Base.Prelude C08.Model C08.Proofs C08.ProofsDec.

(* + - * on Integers: the exact result, or empty when it leaves the 32-bit range *)
Theorem C08_int_add_exact : forall i j, int_binop Add i j = if in32b (i + j) then Ok (Some (NInt (i + j))) else Ok None.
Proof. exact int_add_exact. Qed.
Theorem C08_int_sub_exact : forall i j, int_binop Sub i j = if in32b (i - j) then Ok (Some (NInt (i - j))) else Ok None.
Proof. exact int_sub_exact. Qed.
Theorem C08_int_mul_exact : forall i j, int_binop Mul i j = if in32b (i * j) then Ok (Some (NInt (i * j))) else Ok None.
Proof. exact int_mul_exact. Qed.
(* with a Decimal operand, for coefficients and exponents of any sign and size: + - * are exact, div / mod are the
   truncated quotient of the exact ratio and the matching remainder, `/` is within 10^-16, zero divisors give empty *)
Theorem C08_holds_model_dec_bin : forall op a b, is_dec_pair a b -> holds (CBin op a b) (model (CBin op a b)) = true.
Proof. exact holds_model_dec_bin. Qed.
Theorem C08_holds_model_dec_un : forall op c e, holds (CUn op (NDec c e)) (model (CUn op (NDec c e))) = true.
Proof. exact holds_model_dec_un. Qed.
(* the whole statement: on well-formed operands the model satisfies the property predicate, every operator *)
Theorem C08_holds_model : forall c, (match c with CBin _ a b => wf_num a /\ wf_num b | CUn _ a => wf_num a end) -> holds c (model c) = true.
Proof. exact holds_model. Qed.
Print Assumptions C08_int_mul_exact.

(* any division by zero (/, div, mod; Integer, Decimal or mixed operands) is empty *)
Theorem C08_div_by_zero_empty : forall op a b,
  (op = Div \/ op = IDiv \/ op = Mod) -> fst (as_dec b) = 0 -> a <> NOther -> b <> NOther -> arith op a b = Ok None.
Proof. exact div_by_zero_empty. Qed.
Print Assumptions C08_div_by_zero_empty.

(* a = (a div b)*b + a mod b on Integers *)
Theorem C08_int_div_mod_identity : forall i j r q, j <> 0 ->
  int_binop IDiv i j = Ok (Some (NInt q)) -> int_binop Mod i j = Ok (Some (NInt r)) -> i = q * j + r.
Proof. exact int_div_mod_identity. Qed.
Example C08_int_div_mod_identity_nonvacuous :
  int_binop IDiv (-7) 2 = Ok (Some (NInt (-3))) /\ int_binop Mod (-7) 2 = Ok (Some (NInt (-1))).
Proof. split; reflexivity. Qed.

(* the three overflow corners are empty, never a wrapped number *)
Theorem C08_min_div_minus1_empty : arith IDiv (NInt min32) (NInt (-1)) = Ok None.
Proof. exact min_div_minus1_empty. Qed.
Theorem C08_negate_min_empty : unary Neg (NInt min32) = Ok None.
Proof. exact negate_min_empty. Qed.
Theorem C08_abs_min_empty : unary Abs (NInt min32) = Ok None.
Proof. exact abs_min_empty. Qed.

(* every Integer produced through the range test is in range and equals the exact value;
   an out-of-range exact value gives empty; Mod of int32 operands stays in range *)
Theorem C08_int_or_empty_in_range : forall z r, int_or_empty z = Ok (Some (NInt r)) -> in32 r /\ r = z.
Proof. exact int_or_empty_in_range. Qed.
Theorem C08_int_or_empty_out_of_range : forall z, ~ in32 z -> int_or_empty z = Ok None.
Proof. exact int_or_empty_out_of_range. Qed.
Theorem C08_int_mod_in_range : forall i j, in32 i -> j <> 0 -> in32 (Z.rem i j).
Proof. exact int_mod_in_range. Qed.
Print Assumptions C08_int_mod_in_range.

(* rounding used by `/` (16 places) and round(): within half a unit of the exact quotient *)
Theorem C08_round_half_away_bound : forall n d, d <> 0 -> 2 * Z.abs (round_half_away n d * d - n) <= Z.abs d.
Proof. exact round_half_away_bound. Qed.
Print Assumptions C08_round_half_away_bound.

(* the property predicate evaluated by the checker holds of the model for all int32 operands *)
Theorem C08_holds_model_int_bin : forall op i j, in32 i -> in32 j ->
  holds (CBin op (NInt i) (NInt j)) (model (CBin op (NInt i) (NInt j))) = true.
Proof. exact holds_model_int_bin. Qed.
Theorem C08_holds_model_int_un : forall op i, in32 i ->
  match op with Round _ => True | _ => holds (CUn op (NInt i)) (model (CUn op (NInt i))) = true end.
Proof. exact holds_model_int_un. Qed.
Print Assumptions C08_holds_model_int_bin.
Print Assumptions C08_holds_model.
