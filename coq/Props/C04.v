(* Props/C04.v -- property C04: compiled expressions are immutable, deterministic and goroutine-safe. *)
From FPV Require Import Base.Prelude C04.Model C04.Proofs.

(* every Compile of every history behaves as if it were the only one, and leaves the tables as they were *)
Theorem C04_history_isolated : forall h g,
  fst (run_history g h) = g /\ snd (run_history g h) = map (fun os => snd (compile g os)) h.
Proof. exact history_isolated. Qed.
Theorem C04_existing_name_refused : forall g t tr n ok os, mem n t = true -> apply_opts g t tr (OAddFn n ok :: os) = inl 1%N.
Proof. exact existing_name_refused. Qed.
Theorem C04_builtins_always_visible : forall g os t, snd (compile g os) = inr t -> forall n, mem n (g_base g) = true -> mem n t = true.
Proof. exact builtins_always_visible. Qed.
Theorem C04_custom_function_visible : forall g n, mem n (g_base g) = false ->
  exists t, snd (compile g [OAddFn n true]) = inr t /\ mem n t = true.
Proof. exact custom_function_visible. Qed.
Theorem C04_custom_function_not_visible_later : forall g n h os t,
  mem n (g_base g) = false -> mem n (g_exper g) = false -> (forall m ok, In (OAddFn m ok) os -> m <> n) ->
  nth_error (snd (run_history g (h ++ [os]))) (List.length h) = Some (inr t) -> mem n t = false.
Proof. exact custom_function_not_visible_later. Qed.
(* a table shared between compiles (the lazily merged experimental table) would leak registrations *)
Theorem C04_shared_table_refuted : exists g shared n,
  let '(shared1, _) := compile_shared g shared [OAddFn n true] in
  snd (compile_shared g shared1 []) <> snd (compile_shared g shared []).
Proof. exact shared_table_leaks. Qed.
(* now(), today() and timeOfDay() are renderings of one instant *)
Theorem C04_one_instant : forall t,
  let '(y, mo, d, h, mi, s, ms, off) := fp_now t in fp_today t = (y, mo, d) /\ fp_time_of_day t = (h, mi, s, ms).
Proof. exact one_instant. Qed.
(* calls that read a shared state nobody writes and write only their own state: under EVERY schedule the state
   of call i is what i alone computes in the steps it was given *)
Theorem C04_interleaving_independent : forall (G L : Type) (step : nat -> G -> L -> L) g sched ls i,
  run_schedule G L step g ls sched i = iter_steps G L step i g (count_occ_nat i sched) (ls i).
Proof. exact interleaving_independent. Qed.
Theorem C04_schedules_equivalent : forall (G L : Type) (step : nat -> G -> L -> L) g ls s1 s2,
  (forall i, count_occ_nat i s1 = count_occ_nat i s2) -> forall i, run_schedule G L step g ls s1 i = run_schedule G L step g ls s2 i.
Proof. exact schedules_equivalent. Qed.
Print Assumptions C04_history_isolated.
Print Assumptions C04_custom_function_not_visible_later.
Print Assumptions C04_interleaving_independent.
