(* Props/C12.v -- property C12: `is` and `as` agree with the FHIR and System type hierarchies. *)
From FPV Require Import Base.Prelude C12.Model C12.Proofs.
From Coq Require Import String.

Theorem C12_every_element_is_Element : forall k n, (k = KPrim \/ k = KComplex \/ k = KBackbone \/ k = KNestedElem) -> subtype (k, n) (NFhir, "Element"%string) = true.
Proof. exact element_top. Qed.
Theorem C12_every_resource_is_Resource : forall n, subtype (KResource, n) (NFhir, "Resource"%string) = true.
Proof. exact resource_top. Qed.
Theorem C12_every_system_value_is_Any : forall n, subtype (KSystem, n) (NSystem, "Any"%string) = true.
Proof. exact system_top. Qed.
Theorem C12_namespaces_disjoint : forall n t, subtype (KSystem, n) (NFhir, t) = false.
Proof. exact namespaces_disjoint. Qed.
Theorem C12_fhir_never_system : forall k n t, k <> KSystem -> subtype (k, n) (NSystem, t) = false.
Proof. exact fhir_never_system. Qed.
Theorem C12_primitive_specialises : forall n p, prim_parent n = Some p -> subtype (KPrim, n) (NFhir, p) = true.
Proof. exact primitive_specialises. Qed.
Theorem C12_backbone_components : subtype (KBackbone, ""%string) (NFhir, "BackboneElement"%string) = true /\ subtype (KBackbone, ""%string) (NFhir, "DomainResource"%string) = false.
Proof. exact backbone_is_backbone_and_element. Qed.
Theorem C12_unknown_namespace_rejected : forall ns n f d, ns <> "FHIR"%string -> ns <> "System"%string ->
  is_ref d {| sp_ns := Some ns; sp_name := n; sp_is_fhir_name := f |} = OCompileErr.
Proof. exact unknown_namespace_rejected. Qed.
Theorem C12_unknown_type_rejected : forall n d, mem n system_names = false ->
  is_ref d {| sp_ns := None; sp_name := n; sp_is_fhir_name := false |} = OCompileErr.
Proof. exact unknown_type_rejected. Qed.
Theorem C12_resolve_fhir_first : forall n, resolve {| sp_ns := None; sp_name := n; sp_is_fhir_name := true |} = Some (NFhir, n).
Proof. exact resolve_fhir_first. Qed.
Print Assumptions C12_fhir_never_system.
