(* Props/C15.v -- property C15: literals and value representations round-trip losslessly. *)
From FPV Require Import Base.Prelude C15.Model C15.Proofs.
From Coq Require Import String.

(* string literals: decoding the canonical (escaped) text of ANY string gives the string back -- for the
   code's decoder and for the reference decoder alike *)
Theorem C15_unescape_escape : forall keep s, unescape_gen keep (escape s) = s.
Proof. exact unescape_escape. Qed.
Theorem C15_each_escape_decodes :
  map (fun p => unescape_code [bs; fst p]) [(39, 39); (34, 34); (96, 96); (92, 92); (47, 47); (102, 12); (110, 10); (114, 13); (116, 9)]%N
  = map (fun p => [snd p]) [(39, 39); (34, 34); (96, 96); (92, 92); (47, 47); (102, 12); (110, 10); (114, 13); (116, 9)]%N.
Proof. exact each_escape_decodes. Qed.
Theorem C15_unicode_escape_decodes :
  unescape_code [bs; 117; 48; 48; 52; 49]%N = [65]%N /\
  unescape_code [bs; 117; 50; 48; 65; 67]%N = [8364]%N /\
  unescape_code [bs; 117; 68; 56; 51; 68; bs; 117; 68; 69; 48; 48]%N = [128512]%N.
Proof. exact unicode_escape_decodes. Qed.
(* every source text without a stray backslash is decoded exactly as the reference does (all other
   characters intact); with one, the code drops it: the listed finding *)
Theorem C15_code_is_ref : forall s, has_stray_backslash s = false -> unescape_code s = unescape_ref s.
Proof. exact code_is_ref. Qed.
Theorem C15_code_is_ref_refuted : exists s, unescape_code s <> unescape_ref s.
Proof. exact code_is_ref_refuted. Qed.
Print Assumptions C15_code_is_ref.

(* integer narrowing succeeds exactly when the value is representable in the target type (all 11 x 11
   type pairs, every value; the Go range tests are tied by Oblig/C15_gen.v) *)
Theorem C15_narrow_ok_iff_representable : forall from to v, model (CNarrow from to v) = Some (ONarrow v (representable to v)).
Proof. exact narrow_ok_iff_representable. Qed.
Theorem C15_representable_spec : forall t v, representable t v = true <-> type_lo t <= v <= type_hi t.
Proof. exact representable_spec. Qed.

Theorem C15_agree_implies_holds : forall c o, kf c = 0%N -> agrees c o = true -> holds c o = true.
Proof. exact agree_implies_holds. Qed.
Print Assumptions C15_agree_implies_holds.
