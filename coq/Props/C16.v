(* Props/C16.v -- property C16: every built-in function is callable under its specification name and
   arity.  General theorems about VisitFunction's check for ANY table; the finite obligations over the
   concrete tables are in Oblig/C16_gen.v and are re-proved on every run over go2v's regeneration of
   internal/funcs/table.go. *)
From FPV Require Import Base.Prelude C16.Model C16.Proofs.
From Coq Require Import String.

Theorem C16_accepts_iff_in_table_and_in_bounds : forall t name k, names_unique t = true ->
  (visit_function t name k = Accepted <->
   exists e, In e t /\ e_name e = name /\ e_min e <= k <= e_max e).
Proof. exact accepts_iff. Qed.
Print Assumptions C16_accepts_iff_in_table_and_in_bounds.

Theorem C16_unknown_name_rejected : forall t name k,
  (forall e, In e t -> e_name e <> name) -> visit_function t name k = RejectedUnresolved.
Proof. exact unknown_name_rejected. Qed.

Theorem C16_experimental_merge_keeps_base : forall base exp n e,
  lookup base n = Some e -> lookup (merge_experimental base exp) n = Some e.
Proof. exact merge_keeps_base. Qed.

Theorem C16_agreeing_outcome_satisfies_property : forall base exp c o,
  agrees base exp c o = true -> o <> OAcceptedArity -> holds base exp c o = true.
Proof. exact agrees_holds. Qed.
Print Assumptions C16_agreeing_outcome_satisfies_property.

Example C16_accepts_nonvacuous :
  let t := [("skip"%string, "Skip"%string, 1, 1)] in
  names_unique t = true /\ visit_function t "skip" 1 = Accepted /\ visit_function t "skip" 0 = RejectedArity.
Proof. repeat split. Qed.
