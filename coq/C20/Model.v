(* C20/Model.v -- wrappers, extension lists and element extraction.

   (A) protofields.toSnakeCase (two regexp replacement passes + ToLower) as a function on bytes: the name of
       the ContainedResource / Extension.ValueX oneof field of a type name.
   (B) the extension list of an element as a list of (url, value) and the mutators Upsert, SetByURL,
       AppendInto, Overwrite, Clear.
   (C) a populated resource as a tree of messages with labelled edges (JSON name, member of a `choice`
       oneof, list index) as protorange walks it; ExtractAll / ExtractAllWithPath as the labelled descent;
       path rendering.
   (D) contained resources and bundles as options and lists. *)
From FPV Require Import Base.Prelude C19.Model.
From Coq Require Import String.

(* ---- (A) toSnakeCase ---------------------------------------------------------------------------------------
   matchFirstCap = (.)([A-Z][a-z]+)  ->  ${1}_${2}      matchAllCap = ([a-z0-9])([A-Z])  ->  ${1}_${2} *)
Inductive mode := MN | MU | ML.
Fixpoint pass1 (m : mode) (s : bytes) : bytes :=
  match s with
  | [] => []
  | c :: tl =>
      let normal :=
        match tl with
        | u :: l :: _ => if negb (c =? 10)%N && is_upper u && is_lower l then c :: 95%N :: pass1 MU tl else c :: pass1 MN tl
        | _ => c :: pass1 MN tl
        end in
      match m with
      | MU => c :: pass1 ML tl
      | ML => if is_lower c then c :: pass1 ML tl else normal
      | MN => normal
      end
  end.
Fixpoint pass2 (s : bytes) : bytes :=
  match s with
  | [] => []
  | c :: tl =>
      match tl with
      | u :: _ => if (is_lower c || is_digit c) && is_upper u then c :: 95%N :: pass2 tl else c :: pass2 tl
      | [] => [c]
      end
  end.
Definition to_snake (s : bytes) : bytes := map to_lower (pass2 (pass1 MN s)).
Definition ext_field (name : bytes) : bytes :=
  let f := to_snake name in if beqb f (bs "string") then bs "string_value" else f.

(* ---- (B) extension lists --------------------------------------------------------------------------------- *)
Definition ext := (N * N)%type.          (* url, value *)
Definition ext_eqb (a b : ext) : bool := (fst a =? fst b)%N && (snd a =? snd b)%N.
Fixpoint upsert (l : list ext) (e : ext) : list ext :=
  match l with
  | [] => [e]
  | x :: r => if (fst x =? fst e)%N then (fst x, snd e) :: r else x :: upsert r e
  end.
Definition other_urls (u : N) (l : list ext) : list ext := filter (fun x => negb (fst x =? u)%N) l.
Definition with_url (u : N) (l : list ext) : list ext := filter (fun x => (fst x =? u)%N) l.
Definition set_by_url (l : list ext) (u : N) (vs : list N) : list ext := other_urls u l ++ map (fun v => (u, v)) vs.

Inductive op := OpUpsert (e : ext) | OpSetByURL (u : N) (vs : list N) | OpAppend (es : list ext) | OpOverwrite (es : list ext) | OpClear.
Definition step (l : list ext) (o : op) : list ext :=
  match o with
  | OpUpsert e => upsert l e
  | OpSetByURL u vs => set_by_url l u vs
  | OpAppend es => l ++ es
  | OpOverwrite es => es
  | OpClear => []
  end.
Fixpoint run (l : list ext) (ops : list op) : list (list ext) :=
  match ops with
  | [] => []
  | o :: r => let l' := step l o in l' :: run l' r
  end.

(* ---- (C) trees and extraction ---------------------------------------------------------------------------- *)
Record label := { l_name : bytes; l_choice : bool; l_idx : option N }.
Inductive tree := Node (uid ty : N) (cr : bool) (kids : list (label * tree)).
Definition uid_of (t : tree) : N := match t with Node u _ _ _ => u end.
Definition ty_of (t : tree) : N := match t with Node _ y _ _ => y end.
Definition kids_of (t : tree) : list (label * tree) := match t with Node _ _ _ k => k end.

Definition optN_eqb (a b : option N) : bool :=
  match a, b with Some x, Some y => (x =? y)%N | None, None => true | _, _ => false end.
Definition label_eqb (a b : label) : bool :=
  beqb (l_name a) (l_name b) && Bool.eqb (l_choice a) (l_choice b) && optN_eqb (l_idx a) (l_idx b).

(* every element of type T below the root, in walk order, with its labels, its uid and whether a field of a
   ContainedResource message was crossed on the way (ExtractAllWithPath then returns an error) *)
Fixpoint descend (T : N) (under_cr : bool) (t : tree) : list (list label * N * bool) :=
  match t with
  | Node _ _ cr kids =>
      let under := under_cr || cr in
      flat_map (fun lk =>
        (if (ty_of (snd lk) =? T)%N then [([fst lk], uid_of (snd lk), under)] else [])
        ++ map (fun x => (fst lk :: fst (fst x), snd (fst x), snd x)) (descend T under (snd lk))) kids
  end.
Fixpoint descendants (t : tree) : list tree :=
  match t with Node _ _ _ kids => flat_map (fun lk => snd lk :: descendants (snd lk)) kids end.

Fixpoint locate (t : tree) (p : list label) : option tree :=
  match p with
  | [] => Some t
  | l :: p' =>
      match find (fun lk => label_eqb (fst lk) l) (kids_of t) with
      | Some lk => locate (snd lk) p'
      | None => None
      end
  end.

(* path rendering *)
Fixpoint dec_fuel (f : nat) (n : N) : bytes :=
  match f with
  | O => []
  | S f' => if (n <? 10)%N then [(48 + n)%N] else dec_fuel f' (n / 10)%N ++ [(48 + n mod 10)%N]
  end.
Definition dec (n : N) : bytes := dec_fuel 20 n.
Definition render_label (acc : bytes) (l : label) : bytes :=
  acc ++ (if l_choice l then cap (l_name l) else 46%N :: l_name l)
      ++ (match l_idx l with Some k => 91%N :: dec k ++ [93%N] | None => [] end).
Definition render (root : bytes) (p : list label) : bytes := fold_left render_label p root.

Definition extract_all (T : N) (t : tree) : list N := map (fun x => snd (fst x)) (descend T false t).
Definition extract_with_path (root : bytes) (T : N) (t : tree) : option (list (bytes * N)) :=
  let ds := descend T false t in
  if existsb (fun x => snd x) ds then None
  else Some (map (fun x => (render root (fst (fst x)), snd (fst x))) ds).

(* well-formed: sibling labels are distinct *)
Fixpoint nodup_labels (ls : list label) : bool :=
  match ls with [] => true | l :: r => negb (existsb (label_eqb l) r) && nodup_labels r end.
Fixpoint wf_tree (t : tree) : bool :=
  match t with Node _ _ _ kids => nodup_labels (map fst kids) && forallb (fun lk => wf_tree (snd lk)) kids end.

(* ---- (D) contained resources and bundles ------------------------------------------------------------------- *)
Definition contained := option (bytes * N).           (* the oneof field that is set, the resource *)
Definition wrap (fields : list bytes) (name : bytes) (r : N) : res contained :=
  if existsb (beqb (to_snake name)) fields then Ok (Some (to_snake name, r)) else Panic.
Definition unwrap (c : contained) : option N := match c with Some (_, r) => Some r | None => None end.
Definition bundle_unwrap (b : list contained) : list (option N) := map unwrap b.

(* ---- correspondence cases -------------------------------------------------------------------------------------- *)
Inductive case :=
| CResType (name : bytes)
| CElemType (name : bytes) (valuex_fields : list bytes) (schema_field : option bytes)
| CExtOps (init : list ext) (ops : list op)
| CExtract (root : bytes) (Ts : list N) (t : tree)
| CBundle (rs : list (bytes * N)).

Inductive obs :=
| OResType (new_ok : bool) (typeof registry_field wrap_field schema_field typeof_cr : bytes) (unwrap_same entry_same : bool)
| OElemType (registry_field : bytes) (from_ok : bool) (set_field : bytes) (unwrap_same new_same : bool)
| OExtOps (states : list (list ext)) (panicked : bool)
| OExtract (results : list (option (list (bytes * N)) * option (list N) * bool * bool))
| OBundle (out : list (option N)).

(* comparing as multisets: insertion sort on the uid *)
Fixpoint insert_by {A} (key : A -> N) (x : A) (l : list A) : list A :=
  match l with [] => [x] | y :: r => if (key x <=? key y)%N then x :: l else y :: insert_by key x r end.
Definition sort_by {A} (key : A -> N) (l : list A) : list A := fold_right (insert_by key) [] l.

Definition pu_eqb (a b : bytes * N) : bool := beqb (fst a) (fst b) && (snd a =? snd b)%N.
Definition opt_list_eqb {A} (eqb : A -> A -> bool) (a b : option (list A)) : bool :=
  match a, b with Some x, Some y => list_eqb eqb x y | None, None => true | _, _ => false end.

Definition agrees (c : case) (o : obs) : bool :=
  match c, o with
  | CResType name, OResType _ _ reg wf _ _ _ _ => beqb reg (to_snake name) && beqb wf (to_snake name)
  | CElemType name fields _, OElemType reg _ _ _ _ =>
      beqb reg (if existsb (beqb (ext_field name)) fields then ext_field name else [])
  | CExtOps init ops, OExtOps states p => negb p && list_eqb (list_eqb ext_eqb) (run init ops) states
  | CExtract root Ts t, OExtract rs =>
      (List.length Ts =? List.length rs)%nat &&
      forallb (fun Tr => let '(T, (wp, all, _, _)) := Tr in
        opt_list_eqb pu_eqb (option_map (sort_by snd) (extract_with_path root T t)) (option_map (sort_by snd) wp)
        && opt_list_eqb N.eqb (Some (sort_by (fun x => x) (extract_all T t))) (option_map (sort_by (fun x => x)) all)) (combine Ts rs)
  | CBundle rs, OBundle out => list_eqb optN_eqb (map (fun r => Some (snd r)) rs) out
  | _, _ => false
  end.

Definition unchanged_elsewhere (before after : list ext) (o : op) : bool :=
  match o with
  | OpUpsert e => list_eqb ext_eqb (other_urls (fst e) before) (other_urls (fst e) after) && existsb (ext_eqb e) after
  | OpSetByURL u vs => list_eqb ext_eqb (other_urls u before) (other_urls u after) && list_eqb ext_eqb (with_url u after) (map (fun v => (u, v)) vs)
  | OpAppend es => list_eqb ext_eqb after (before ++ es)
  | OpOverwrite es => list_eqb ext_eqb after es
  | OpClear => list_eqb ext_eqb after []
  end.
Fixpoint steps_ok (before : list ext) (ops : list op) (states : list (list ext)) : bool :=
  match ops, states with
  | [], [] => true
  | o :: r, s :: ss => unchanged_elsewhere before s o && steps_ok s r ss
  | _, _ => false
  end.

Definition typed_uids (T : N) (t : tree) : list N := map uid_of (filter (fun k => (ty_of k =? T)%N) (descendants t)).

Definition holds (c : case) (o : obs) : bool :=
  match c, o with
  | CResType name, OResType new_ok ty _ wf sf tcr us es => new_ok && beqb ty name && beqb wf sf && beqb tcr name && us && es
  | CElemType name _ sf, OElemType _ from_ok set us ns =>
      (match sf with Some f => from_ok && beqb set f && us && ns | None => negb from_ok end)
  | CExtOps init ops, OExtOps states p => negb p && steps_ok init ops states
  | CExtract root Ts t, OExtract rs =>
      (* every element of the type exactly once, with and without paths; every path locates its element *)
      (List.length Ts =? List.length rs)%nat &&
      forallb (fun Tr => let '(T, (wp, all, json_ok, fp_ok)) := Tr in
        (match all with Some l => list_eqb N.eqb (sort_by (fun x => x) l) (sort_by (fun x => x) (typed_uids T t)) | None => false end)
        && (match wp with Some l => list_eqb N.eqb (sort_by (fun x => x) (map snd l)) (sort_by (fun x => x) (typed_uids T t)) | None => false end)
        && json_ok && fp_ok) (combine Ts rs)
  | CBundle rs, OBundle out => list_eqb optN_eqb (map (fun r => Some (snd r)) rs) out
  | _, _ => false
  end.

(* known finding 1: ExtractAllWithPath gives up (ErrFhirPathNotImplemented) on an element inside a contained
   resource or a bundle entry.
   known finding 2: an element below one of google/fhir's own members of the Reference oneof (fragment,
   patientId, ...; type id 1 = Reference) is labelled with that member's name, which is no FHIR element: the
   JSON tree has `reference` there *)
Definition fhir_reference_members : list bytes := map bs ["id"; "extension"; "reference"; "type"; "identifier"; "display"]%string.
Fixpoint crosses_ref_member (T : N) (bad : bool) (t : tree) : bool :=
  match t with
  | Node _ ty _ kids =>
      existsb (fun lk =>
        let bad' := bad || ((ty =? 1)%N && negb (existsb (beqb (l_name (fst lk))) fhir_reference_members)) in
        (bad' && (ty_of (snd lk) =? T)%N) || crosses_ref_member T bad' (snd lk)) kids
  end.
Definition kf (c : case) : N :=
  match c with
  | CExtract _ Ts t =>
      if existsb (fun T => existsb (fun x => snd x) (descend T false t)) Ts then 1%N
      else if existsb (fun T => crosses_ref_member T false t) Ts then 2%N else 0%N
  | _ => 0%N
  end.

Definition judge (x : N * case * obs) : verdict :=
  let '(id, c, o) := x in
  {| v_id := id; v_agree := agrees c o; v_holds := holds c o; v_kf := kf c |}.
