(* C20/Proofs.v *)
From FPV Require Import Base.Prelude C19.Model C19.Proofs C20.Model.
From Coq Require Import String.

(* ---- (A) the snake-casing of type names ------------------------------------------------------------------ *)
Definition valuex_type_names : list string :=
  ["Address"; "Age"; "Annotation"; "Attachment"; "Base64Binary"; "Boolean"; "Canonical"; "Code"; "CodeableConcept"; "Coding";
   "ContactDetail"; "ContactPoint"; "Contributor"; "Count"; "DataRequirement"; "Date"; "DateTime"; "Decimal"; "Distance"; "Dosage";
   "Duration"; "Expression"; "HumanName"; "Id"; "Identifier"; "Instant"; "Integer"; "Markdown"; "Money"; "Oid"; "ParameterDefinition";
   "Period"; "PositiveInt"; "Quantity"; "Range"; "Ratio"; "Reference"; "RelatedArtifact"; "SampledData"; "Signature"; "String"; "Time";
   "Timing"; "TriggerDefinition"; "UnsignedInt"; "Uri"; "Url"; "UsageContext"; "Uuid"]%string.
Definition valuex_types : list bytes := map bs valuex_type_names.

Fixpoint nodup_bytes (l : list bytes) : bool :=
  match l with [] => true | x :: r => negb (existsb (beqb x) r) && nodup_bytes r end.

(* on every registry type the two regular-expression passes give the plain convention: lower case, an
   underscore before every inner capital -- the name google/fhir gives the ContainedResource member *)
Lemma to_snake_registry_all : forallb (fun t => beqb (to_snake t) (snake t)) registry_types = true.
Proof. vm_compute. reflexivity. Qed.
Lemma to_snake_registry t : is_type t = true -> to_snake t = snake t.
Proof.
  intro H. apply existsb_beqb_In in H. apply beqb_eq.
  exact (proj1 (forallb_forall _ _) to_snake_registry_all t H).
Qed.
Lemma to_snake_registry_injective : nodup_bytes (map to_snake registry_types) = true.
Proof. vm_compute. reflexivity. Qed.
Lemma registry_size : List.length registry_types = 146%nat.
Proof. reflexivity. Qed.
(* the 49 extension value types: the same convention, except String -> string_value *)
Lemma ext_field_valuex_all :
  forallb (fun t => beqb (ext_field t) (if beqb t (bs "String") then bs "string_value" else snake t)) valuex_types = true.
Proof. vm_compute. reflexivity. Qed.
Lemma ext_field_valuex_injective : nodup_bytes (map ext_field valuex_types) = true /\ List.length valuex_types = 49%nat.
Proof. split; vm_compute; reflexivity. Qed.

(* wrap / unwrap *)
Lemma unwrap_wrap fields name r c : wrap fields name r = Ok c -> unwrap c = Some r.
Proof. unfold wrap. destruct (existsb _ fields); [|discriminate]. intro H. inversion H. reflexivity. Qed.
Lemma wrap_field fields name r : is_type name = true -> existsb (beqb (snake name)) fields = true ->
  wrap fields name r = Ok (Some (snake name, r)).
Proof. intros Ht Hf. unfold wrap. rewrite (to_snake_registry _ Ht), Hf. reflexivity. Qed.
Lemma bundle_unwrap_wrapped (rs : list (bytes * N)) :
  bundle_unwrap (map (fun r => Some (to_snake (fst r), snd r)) rs) = map (fun r => Some (snd r)) rs.
Proof. unfold bundle_unwrap. rewrite map_map. reflexivity. Qed.

(* ---- (B) extension lists ------------------------------------------------------------------------------------- *)
Lemma ext_eqb_refl e : ext_eqb e e = true.
Proof. unfold ext_eqb. rewrite !N.eqb_refl. reflexivity. Qed.
Lemma ext_list_eqb_refl l : list_eqb ext_eqb l l = true.
Proof. induction l as [|x l IH]; [reflexivity|]. cbn. rewrite ext_eqb_refl, IH. reflexivity. Qed.

Lemma upsert_other_urls l e : other_urls (fst e) (upsert l e) = other_urls (fst e) l.
Proof.
  unfold other_urls. induction l as [|x l IH]; cbn [upsert filter].
  - rewrite N.eqb_refl. reflexivity.
  - destruct (fst x =? fst e)%N eqn:E; cbn [filter fst negb].
    + rewrite E. reflexivity.
    + rewrite E. cbn [negb]. rewrite IH. reflexivity.
Qed.
Lemma upsert_has l e : existsb (ext_eqb e) (upsert l e) = true.
Proof.
  induction l as [|x l IH]; cbn [upsert existsb].
  - rewrite ext_eqb_refl. reflexivity.
  - destruct (fst x =? fst e)%N eqn:E; cbn [existsb].
    + unfold ext_eqb at 1. cbn [fst snd]. rewrite N.eqb_sym, E, N.eqb_refl. reflexivity.
    + rewrite IH. apply orb_true_r.
Qed.
(* upsert never changes how many other extensions there are, and leaves exactly max(1, n) with the url *)
Lemma upsert_with_url_count l e :
  List.length (with_url (fst e) (upsert l e)) = Nat.max 1 (List.length (with_url (fst e) l)).
Proof.
  unfold with_url. induction l as [|x l IH]; cbn [upsert filter].
  - rewrite N.eqb_refl. reflexivity.
  - destruct (fst x =? fst e)%N eqn:E; cbn [filter fst].
    + rewrite E. cbn [List.length]. lia.
    + rewrite E. exact IH.
Qed.
Lemma filter_filter_neg {A} (p : A -> bool) l : filter p (filter (fun x => negb (p x)) l) = [].
Proof. induction l as [|x l IH]; [reflexivity|]. cbn. destruct (p x) eqn:E; cbn; [exact IH|rewrite E; exact IH]. Qed.
Lemma filter_idem {A} (p : A -> bool) l : filter p (filter p l) = filter p l.
Proof. induction l as [|x l IH]; [reflexivity|]. cbn. destruct (p x) eqn:E; cbn; [rewrite E, IH; reflexivity|exact IH]. Qed.

Lemma set_by_url_other l u vs : other_urls u (set_by_url l u vs) = other_urls u l.
Proof.
  unfold set_by_url, other_urls. rewrite filter_app, filter_idem.
  assert (E : forall vs : list N, filter (fun x : N * N => negb (fst x =? u)%N) (map (fun v => (u, v)) vs) = []).
  { intro ws. induction ws as [|v ws IH]; [reflexivity|]. cbn. rewrite N.eqb_refl. cbn. exact IH. }
  rewrite E. apply app_nil_r.
Qed.
Lemma set_by_url_with l u vs : with_url u (set_by_url l u vs) = map (fun v => (u, v)) vs.
Proof.
  unfold set_by_url, with_url, other_urls. rewrite filter_app, filter_filter_neg. cbn [app].
  induction vs as [|v vs IH]; [reflexivity|]. cbn. rewrite N.eqb_refl. rewrite IH. reflexivity.
Qed.
Lemma append_other l u es : other_urls u (l ++ es) = other_urls u l ++ other_urls u es.
Proof. apply filter_app. Qed.

(* every step of every operation sequence changes only what the property allows *)
Lemma step_ok l o : unchanged_elsewhere l (step l o) o = true.
Proof.
  destruct o as [e|u vs|es|es|]; cbn [step unchanged_elsewhere].
  - rewrite upsert_other_urls, ext_list_eqb_refl, upsert_has. reflexivity.
  - rewrite set_by_url_other, set_by_url_with, !ext_list_eqb_refl. reflexivity.
  - apply ext_list_eqb_refl.
  - apply ext_list_eqb_refl.
  - reflexivity.
Qed.
Theorem run_steps_ok ops : forall init, steps_ok init ops (run init ops) = true.
Proof.
  induction ops as [|o ops IH]; intro init; [reflexivity|].
  cbn [run steps_ok]. rewrite step_ok, IH. reflexivity.
Qed.

(* ---- (C) extraction ------------------------------------------------------------------------------------------- *)
Section tree_induction.
  Variable P : tree -> Prop.
  Hypothesis H : forall u ty cr kids, Forall (fun lk => P (snd lk)) kids -> P (Node u ty cr kids).
  Fixpoint tree_ind2 (t : tree) : P t :=
    match t with
    | Node u ty cr kids =>
        H u ty cr kids
          ((fix go (l : list (label * tree)) : Forall (fun lk => P (snd lk)) l :=
              match l with
              | [] => Forall_nil _
              | lk :: r => Forall_cons lk (tree_ind2 (snd lk)) (go r)
              end) kids)
    end.
End tree_induction.

Lemma flat_map_ext_Forall {A B} (f g : A -> list B) l : Forall (fun x => f x = g x) l -> flat_map f l = flat_map g l.
Proof. induction 1 as [|x l Hx _ IH]; [reflexivity|]. cbn. rewrite Hx, IH. reflexivity. Qed.

(* the uids found, in walk order, are exactly the descendants of the type, in walk order: each exactly once *)
Theorem descend_complete T : forall t c,
  map (fun x => snd (fst x)) (descend T c t) = typed_uids T t.
Proof.
  unfold typed_uids.
  induction t as [u ty cr kids IH] using tree_ind2. intro c. cbn [descend descendants].
  induction kids as [|lk kids IHk]; [reflexivity|].
  inversion IH as [|? ? Hlk Hkids]; subst.
  cbn [flat_map]. rewrite !map_app, filter_app, map_app. rewrite (IHk Hkids). f_equal.
  cbn [filter]. destruct (ty_of (snd lk) =? T)%N eqn:E; cbn [map app].
  - f_equal. rewrite map_map. cbn [fst snd]. apply Hlk.
  - rewrite map_map. cbn [fst snd]. apply Hlk.
Qed.
Corollary extract_all_complete T t : extract_all T t = typed_uids T t.
Proof. apply descend_complete. Qed.
Corollary extract_with_path_complete root T t l : extract_with_path root T t = Some l -> map snd l = typed_uids T t.
Proof.
  unfold extract_with_path. destruct (existsb _ _); [discriminate|]. intro H. inversion H; subst.
  rewrite map_map. cbn [snd]. apply descend_complete.
Qed.

(* every label sequence reported for an element leads to that element *)
Lemma find_first_label (kids : list (label * tree)) : forall pre lk post,
  kids = pre ++ lk :: post -> existsb (label_eqb (fst lk)) (map fst pre) = false ->
  (forall l, label_eqb l l = true) ->
  (forall a b, label_eqb a b = label_eqb b a) ->
  find (fun x => label_eqb (fst x) (fst lk)) kids = Some lk.
Proof.
  intros pre lk post -> Hpre Hrefl Hsym. induction pre as [|x pre IH]; cbn [app find].
  - rewrite Hrefl. reflexivity.
  - cbn [map existsb] in Hpre. apply orb_false_elim in Hpre as [Hx Hp].
    rewrite Hsym, Hx. apply IH. exact Hp.
Qed.
Lemma optN_eqb_refl a : optN_eqb a a = true.
Proof. destruct a; cbn; [apply N.eqb_refl|reflexivity]. Qed.
Lemma label_eqb_refl l : label_eqb l l = true.
Proof. unfold label_eqb. rewrite beqb_refl, eqb_reflx, optN_eqb_refl. reflexivity. Qed.
Lemma optN_eqb_sym a b : optN_eqb a b = optN_eqb b a.
Proof. destruct a, b; cbn; try reflexivity. apply N.eqb_sym. Qed.
Lemma bool_eqb_sym a b : Bool.eqb a b = Bool.eqb b a.
Proof. destruct a, b; reflexivity. Qed.
Lemma label_eqb_sym a b : label_eqb a b = label_eqb b a.
Proof. unfold label_eqb. rewrite beqb_sym, bool_eqb_sym, optN_eqb_sym. reflexivity. Qed.

Lemma nodup_labels_split ls : nodup_labels ls = true -> forall pre l post, ls = pre ++ l :: post -> existsb (label_eqb l) pre = false.
Proof.
  induction ls as [|x ls IH]; intros H pre l post E; [destruct pre; discriminate|].
  cbn [nodup_labels] in H. apply andb_prop in H as [Hx Hls]. apply negb_true_iff in Hx.
  destruct pre as [|y pre]; [reflexivity|]. cbn [app] in E. inversion E; subst.
  cbn [existsb]. rewrite (IH Hls pre l post eq_refl), orb_false_r.
  rewrite existsb_app in Hx. apply orb_false_elim in Hx as [_ Hx]. cbn [existsb] in Hx.
  apply orb_false_elim in Hx as [Hx _]. rewrite label_eqb_sym. exact Hx.
Qed.

Theorem descend_locates T : forall t c p u b, wf_tree t = true -> In (p, u, b) (descend T c t) ->
  exists k, locate t p = Some k /\ uid_of k = u /\ ty_of k = T.
Proof.
  induction t as [u0 ty cr kids IH] using tree_ind2. intros c p u b Hwf Hin.
  cbn [wf_tree] in Hwf. apply andb_prop in Hwf as [Hnd Hkids].
  cbn [descend] in Hin. apply in_flat_map in Hin as [lk [Hlk Hin]].
  destruct (in_split _ _ Hlk) as [pre [post E]].
  assert (Hfind : find (fun x => label_eqb (fst x) (fst lk)) kids = Some lk).
  { apply (find_first_label kids pre lk post E); [|apply label_eqb_refl|apply label_eqb_sym].
    apply (nodup_labels_split _ Hnd (map fst pre) (fst lk) (map fst post)). rewrite E, map_app. reflexivity. }
  apply in_app_or in Hin as [Hin|Hin].
  - destruct (ty_of (snd lk) =? T)%N eqn:Et; [|contradiction].
    destruct Hin as [Hin|[]]. inversion Hin; subst. exists (snd lk). cbn [locate kids_of]. rewrite Hfind.
    repeat split. apply N.eqb_eq. exact Et.
  - apply in_map_iff in Hin as [[[p' u'] b'] [Heq Hin]]. cbn [fst snd] in Heq. inversion Heq; subst.
    assert (Hwk : wf_tree (snd lk) = true) by exact (proj1 (forallb_forall _ _) Hkids lk Hlk).
    destruct (proj1 (Forall_forall _ _) IH lk Hlk _ _ _ _ Hwk Hin) as [k [Hk [Hu Ht]]].
    exists k. cbn [locate kids_of]. rewrite Hfind. auto.
Qed.

(* non-vacuity: a small tree *)
Definition lbl (n : string) (c : bool) (i : option N) : label := {| l_name := bs n; l_choice := c; l_idx := i |}.
Definition example_tree : tree :=
  Node 1 100 false
    [(lbl "name" false (Some 0%N), Node 2 7 false [(lbl "family" false None, Node 3 5 false [])]);
     (lbl "name" false (Some 1%N), Node 4 7 false [(lbl "given" false (Some 0%N), Node 5 5 false []); (lbl "given" false (Some 1%N), Node 6 5 false [])]);
     (lbl "deceased" false None, Node 7 8 false [(lbl "dateTime" true None, Node 8 6 false [])])].
Example example_wf : wf_tree example_tree = true.
Proof. reflexivity. Qed.
Example example_extract :
  extract_with_path (bs "Patient") 5 example_tree
  = Some [(bs "Patient.name[0].family", 3%N); (bs "Patient.name[1].given[0]", 5%N); (bs "Patient.name[1].given[1]", 6%N)]
  /\ extract_with_path (bs "Patient") 6 example_tree = Some [(bs "Patient.deceasedDateTime", 8%N)].
Proof. split; vm_compute; reflexivity. Qed.
