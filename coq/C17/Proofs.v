From FPV Require Import Base.Prelude C17.Model.

Definition is_some {A} (o : option A) : bool := match o with Some _ => true | None => false end.

Lemma lookup_app e1 e2 n : lookup (e1 ++ e2) n = match lookup e1 n with Some v => Some v | None => lookup e2 n end.
Proof.
  induction e1 as [|[m v] e1 IH]; cbn [app lookup]; [reflexivity|]. destruct (N.eqb m n); [reflexivity|exact IH].
Qed.

(* the state machine equals the specification: for ANY option list, in any order *)
Lemma fold_spec os : forall e errs seen,
  (forall m, existsb (N.eqb m) seen = is_some (lookup e m)) ->
  snd (fold_left apply1 os (e, errs)) = errs ++ spec_errs seen os /\
  (forall n, lookup (fst (fold_left apply1 os (e, errs))) n = match lookup e n with Some v => Some v | None => first_valid n os end).
Proof.
  induction os as [|o os IH]; intros e errs seen Hinv; cbn [fold_left spec_errs first_valid].
  - cbn [fst snd]. split; [rewrite app_nil_r; reflexivity|]. intro n. destruct (lookup e n); reflexivity.
  - destruct o as [m v|]; cbn [apply1].
    + destruct (valid v) eqn:Hv; cbn [negb].
      * destruct (lookup e m) as [w|] eqn:L.
        -- assert (Hs : existsb (N.eqb m) seen = true) by (rewrite Hinv, L; reflexivity). rewrite Hs.
           destruct (IH e (errs ++ [EExisting]) seen Hinv) as [IH1 IH2].
           split; [rewrite IH1, <- app_assoc; reflexivity|].
           intro n. rewrite IH2. destruct (lookup e n) eqn:Ln; [reflexivity|].
           destruct (N.eqb m n) eqn:E; [apply N.eqb_eq in E; subst; congruence|reflexivity].
        -- assert (Hs : existsb (N.eqb m) seen = false) by (rewrite Hinv, L; reflexivity). rewrite Hs.
           assert (Hinv' : forall k, existsb (N.eqb k) (m :: seen) = is_some (lookup (e ++ [(m, v)]) k)).
           { intro k. cbn [existsb]. rewrite lookup_app, Hinv. cbn [lookup].
             destruct (lookup e k); [apply orb_true_r|]. rewrite (N.eqb_sym k m). destruct (N.eqb m k); reflexivity. }
           destruct (IH (e ++ [(m, v)]) errs (m :: seen) Hinv') as [IH1 IH2].
           split; [exact IH1|].
           intro n. rewrite IH2, lookup_app. cbn [lookup]. destruct (lookup e n); [reflexivity|].
           destruct (N.eqb m n); reflexivity.
      * destruct (IH e (errs ++ [EUnsupported]) seen Hinv) as [IH1 IH2].
        split; [rewrite IH1, <- app_assoc; reflexivity|].
        intro n. rewrite IH2. rewrite andb_false_r. reflexivity.
    + exact (IH e errs seen Hinv).
Qed.

Theorem eval_is_spec input os n : eval_var input os n = spec_var input os n.
Proof.
  unfold eval_var, spec_var, apply_options.
  pose proof (fold_spec os (init_env input) [] [1%N; 2%N]) as H.
  assert (Hinv : forall m, existsb (N.eqb m) [1%N; 2%N] = is_some (lookup (init_env input) m)).
  { intro m. unfold init_env. cbn [existsb lookup]. rewrite (N.eqb_sym m 1), (N.eqb_sym m 2). destruct (N.eqb 1 m), (N.eqb 2 m); reflexivity. }
  destruct (H Hinv) as [H1 H2]. clear H. destruct (fold_left apply1 os (init_env input, [])) as [e' errs']. cbn [fst snd] in H1, H2.
  cbn [app] in H1. subst errs'. destruct (spec_errs [1%N; 2%N] os) as [|x xs]; [|reflexivity].
  rewrite H2. unfold init_env. cbn [lookup]. rewrite (N.eqb_sym n 1), (N.eqb_sym n 2).
  destruct (N.eqb 1 n); [reflexivity|]. destruct (N.eqb 2 n); reflexivity.
Qed.

(* consequences, for option lists of any length and order *)
Corollary any_failing_option_prevents_evaluation input os n :
  spec_errs [1%N; 2%N] os <> [] -> exists a b, eval_var input os n = RErr a b.
Proof. intro H. rewrite eval_is_spec. unfold spec_var. destruct (spec_errs [1%N; 2%N] os); [contradiction|]. eexists _, _. reflexivity. Qed.
Corollary context_is_input input os : spec_errs [1%N; 2%N] os = [] -> eval_var input os 1 = RVal (splice input).
Proof. intro H. rewrite eval_is_spec. unfold spec_var. rewrite H. reflexivity. Qed.
Corollary ucum_is_url input os : spec_errs [1%N; 2%N] os = [] -> eval_var input os 2 = RVal [KVal 2%N].
Proof. intro H. rewrite eval_is_spec. unfold spec_var. rewrite H. reflexivity. Qed.
Corollary variable_evaluates_to_supplied input os n v :
  spec_errs [1%N; 2%N] os = [] -> n <> 1%N -> n <> 2%N -> first_valid n os = Some v -> eval_var input os n = RVal (splice v).
Proof.
  intros H H1 H2 Hf. rewrite eval_is_spec. unfold spec_var. rewrite H.
  apply N.eqb_neq in H1, H2. rewrite H1, H2, Hf. reflexivity.
Qed.
Corollary unknown_variable_is_error input os n :
  spec_errs [1%N; 2%N] os = [] -> n <> 1%N -> n <> 2%N -> first_valid n os = None -> eval_var input os n = RNotFound.
Proof.
  intros H H1 H2 Hf. rewrite eval_is_spec. unfold spec_var. rewrite H.
  apply N.eqb_neq in H1, H2. rewrite H1, H2, Hf. reflexivity.
Qed.

(* an unsupported value anywhere in the list, however deeply nested, is reported *)
Lemma has_err_cons k x l : has_err k (x :: l) = (match x, k with EExisting, EExisting | EUnsupported, EUnsupported => true | _, _ => false end) || has_err k l.
Proof. reflexivity. Qed.
Lemma spec_errs_unsupported seen os n v : In (EVar n v) os -> valid v = false -> has_err EUnsupported (spec_errs seen os) = true.
Proof.
  revert seen. induction os as [|o os IH]; intros seen Hin Hv; [contradiction|].
  destruct Hin as [->|Hin]; cbn [spec_errs].
  - rewrite Hv. reflexivity.
  - destruct o as [m w|]; [|exact (IH seen Hin Hv)].
    destruct (valid w); cbn [negb]; [|rewrite has_err_cons, (IH seen Hin Hv); apply orb_true_r].
    destruct (existsb (N.eqb m) seen); [rewrite has_err_cons, (IH seen Hin Hv); apply orb_true_r|exact (IH (m :: seen) Hin Hv)].
Qed.
Example nested_unsupported : valid (KColl [KVal 1; KColl [KColl [KBad]]]) = false.
Proof. reflexivity. Qed.
(* a predefined name is rejected *)
Lemma predefined_is_existing os n v : (n = 1%N \/ n = 2%N) -> valid v = true ->
  has_err EExisting (spec_errs [1%N; 2%N] (EVar n v :: os)) = true.
Proof. intros [-> | ->] Hv; cbn [spec_errs]; rewrite Hv; reflexivity. Qed.
(* a name supplied twice (validly) is rejected the second time *)
Lemma duplicate_is_existing seen n v w os : valid v = true -> valid w = true -> existsb (N.eqb n) seen = false ->
  has_err EExisting (spec_errs seen (EVar n v :: EVar n w :: os)) = true.
Proof. intros Hv Hw Hs. cbn [spec_errs]. rewrite Hv, Hw, Hs. cbn [negb existsb]. rewrite N.eqb_refl. reflexivity. Qed.

(* custom functions *)
Lemma bad_signature_rejected_at_compile os1 n s os2 f args :
  sig_valid s = false -> call_custom (os1 ++ CAddFunction n s :: os2) f args = CCompileErr.
Proof.
  intro Hs. unfold call_custom.
  assert (H : forall reg, snd (compile_opts reg (os1 ++ CAddFunction n s :: os2)) = true).
  { induction os1 as [|o os1 IH]; intro reg; cbn [app compile_opts].
    - rewrite Hs. cbn [negb]. rewrite !orb_true_r. destruct (compile_opts reg os2). reflexivity.
    - destruct o as [m t|]; [|apply IH].
      destruct (is_builtin m || existsb (fun p => N.eqb (fst p) m) reg || negb (sig_valid t)).
      + specialize (IH reg). destruct (compile_opts reg (os1 ++ CAddFunction n s :: os2)). reflexivity.
      + apply IH. }
  specialize (H []). destruct (compile_opts [] (os1 ++ CAddFunction n s :: os2)) as [reg err]. cbn in H. subst. reflexivity.
Qed.
Lemma builtin_name_rejected os1 n s os2 f args :
  is_builtin n = true -> call_custom (os1 ++ CAddFunction n s :: os2) f args = CCompileErr.
Proof.
  intro Hb. unfold call_custom.
  assert (H : forall reg, snd (compile_opts reg (os1 ++ CAddFunction n s :: os2)) = true).
  { induction os1 as [|o os1 IH]; intro reg; cbn [app compile_opts].
    - rewrite Hb. cbn [orb]. destruct (compile_opts reg os2). reflexivity.
    - destruct o as [m t|]; [|apply IH].
      destruct (is_builtin m || existsb (fun p => N.eqb (fst p) m) reg || negb (sig_valid t)).
      + specialize (IH reg). destruct (compile_opts reg (os1 ++ CAddFunction n s :: os2)). reflexivity.
      + apply IH. }
  specialize (H []). destruct (compile_opts [] (os1 ++ CAddFunction n s :: os2)) as [reg err]. cbn in H. subst. reflexivity.
Qed.
Lemma wellformed_call_invokes n s args : is_builtin n = false -> sig_valid s = true ->
  length args = length (params s) -> forallb (fun ap => assignable (fst ap) (snd ap)) (combine args (params s)) = true ->
  call_custom [CAddFunction n s] n args = CCalled.
Proof.
  intros Hb Hs Hl Ha. unfold call_custom. cbn [compile_opts existsb]. rewrite Hb, Hs. cbn [orb negb app find fst].
  rewrite N.eqb_refl. rewrite Hl, Nat.eqb_refl. cbn [negb]. rewrite Ha. reflexivity.
Qed.

Lemma vkind_eqb_refl : forall v, vkind_eqb v v = true.
Proof.
  fix IH 1. intros [id| |l]; cbn [vkind_eqb]; [apply N.eqb_refl|reflexivity|].
  induction l as [|x l IHl]; [reflexivity|]. rewrite (IH x). exact IHl.
Qed.
Lemma eres_eqb_refl r : eres_eqb r r = true.
Proof. destruct r as [a b| |l]; cbn [eres_eqb]; [destruct a, b; reflexivity|reflexivity|apply (vkind_eqb_refl (KColl l))]. Qed.

(* an observation that agrees with the model satisfies the property, provided nothing was evaluated when an
   option failed (the probe flag) and the probe received what it should *)
Lemma agree_implies_holds c o : agrees c o = true ->
  (match o with OVar (RErr _ _) ev => ev = false | OFn CCalled ok => ok = true | _ => True end) -> holds c o = true.
Proof.
  destruct c as [i os n|os f args], o as [r ev|r ok]; cbn [agrees holds]; try discriminate.
  - rewrite <- eval_is_spec. intros H Hev. rewrite H. destruct r; try reflexivity. subst. reflexivity.
  - intros H Hok. rewrite H. destruct r; try reflexivity. subst. reflexivity.
Qed.

(* ---- the value of a variable is a flat collection ---------------------------------------------------------------- *)
Lemma splice_flat : forall v, forallb is_item (splice v) = true.
Proof.
  fix IH 1. intros [id| |l]; [reflexivity | reflexivity |].
  cbn [splice]. induction l as [|x l IHl]; [reflexivity|].
  rewrite forallb_app, IH, IHl. reflexivity.
Qed.
Lemma splice_item v : is_item v = true -> splice v = [v].
Proof. destruct v; [reflexivity | reflexivity | discriminate]. Qed.
Lemma splice_shallow l : forallb is_item l = true -> splice (KColl l) = l.
Proof.
  cbn [splice]. induction l as [|x l IHl]; [reflexivity|].
  cbn [forallb]. intros H. apply andb_prop in H. destruct H as [Hx Hl].
  rewrite (splice_item x Hx), IHl by exact Hl. reflexivity.
Qed.
Corollary variable_value_is_flat input os n items : eval_var input os n = RVal items -> forallb is_item items = true.
Proof.
  unfold eval_var. destruct (apply_options input os) as [e errs] eqn:Ha.
  destruct errs; [|discriminate].
  destruct (lookup e n) eqn:Hl; [|discriminate].
  intros H. injection H as <-. apply splice_flat.
Qed.
